(* C03 — part 2 of the proofs: the structural invariant of the retransmission model and its preservation *)
From Coq Require Import Permutation.
From Verif Require Import Lib.Py Lib.Tactics Model.C03 Proofs.C03.
Open Scope Z_scope.

(* ------------------------------------------------------------------ Part 2: structural invariant *)
Definition wf_tuning (tn : tuning) : Prop :=
  0 < ACK_TIMEOUT tn /\ 0 < ARF_den tn /\ ARF_den tn <= ARF_num tn /\ 0 <= MAX_RETRANSMIT tn.
(* the initial timeout lies in [ACK_TIMEOUT, ACK_TIMEOUT * ACK_RANDOM_FACTOR] *)
Definition range (tn : tuning) (t : Z) : Prop :=
  ACK_TIMEOUT tn <= t /\ t * ARF_den tn <= ACK_TIMEOUT tn * ARF_num tn.

Definition entry_ok (seen : list Z) (st : state) (e : exch) : Prop :=
  let h := e_timer e in let m := h_message h in
  fst e = (m_remote m, m_mid m) /\ fst (snd e) = m_rid m /\ wf_tuning (m_tuning m) /\
  0 <= h_counter h <= MAX_RETRANSMIT (m_tuning m) /\ now st <= h_due h /\ 0 < h_timeout h /\
  In (m_rid m) seen.
Definition bmsg_ok (seen : list Z) (st : state) (r : Z) (p : message * Z) : Prop :=
  m_remote (fst p) = r /\ snd p = m_rid (fst p) /\ wf_tuning (m_tuning (fst p)) /\ In (m_rid (fst p)) seen.
Definition back_ok (seen : list Z) (st : state) (b : bent) : Prop := Forall (bmsg_ok seen st (fst b)) (snd b).
Definition q_rids (q : list (message * Z)) : list Z := map (fun p => m_rid (fst p)) q.
Definition back_rids (l : list bent) : list Z := flat_map (fun b => q_rids (snd b)) l.

Definition live_rids (st : state) : list Z := map e_rid (active_exchanges st) ++ back_rids (backlogs st).

Record Struct (seen : list Z) (st : state) : Prop := {
  s_ex : Forall (entry_ok seen st) (active_exchanges st);
  s_ex_nodup : NoDup (map e_remote (active_exchanges st));
  s_bl : Forall (back_ok seen st) (backlogs st);
  s_bl_nodup : NoDup (map fst (backlogs st));
  s_live : NoDup (live_rids st);
  s_nstart : forall r, in_backlogs st r = has_exchange_with st r;
  s_rng : Forall (fun n => 0 <= n <= RNG_DEN) (rng st) }.

Ltac proj := cbn [now next_seq message_id active_exchanges backlogs outgoing_requests rng refusing set_exchanges set_backlogs set_outgoing set_now set_refusing fst snd] in *.
Ltac splits := repeat match goal with |- _ /\ _ => split end.

Definition no_error (o : list output) : Prop := forall t e, ~ In (OError t e) o.

Lemma bool_eq_iff : forall a b : bool, (a = true <-> b = true) -> a = b.
Proof. intros [] [] H; auto; destruct H; try (symmetry; auto; fail); auto. Qed.
Lemma in_backlogs_iff : forall st r, in_backlogs st r = true <-> In r (map fst (backlogs st)).
Proof.
  intros. unfold in_backlogs. destruct (qget r (backlogs st)) eqn:E.
  - split; auto. intros _. apply qget_in in E. change r with (fst (r, l)). apply in_map. exact E.
  - apply qget_none in E. split; [discriminate | tauto].
Qed.

Lemma uniform_range : forall st tn v st', wf_tuning tn -> Forall (fun n => 0 <= n <= RNG_DEN) (rng st) ->
  uniform st (ACK_TIMEOUT tn) (ACK_TIMEOUT tn * ARF_num tn / ARF_den tn) = (v, st') ->
  range tn v /\ Forall (fun n => 0 <= n <= RNG_DEN) (rng st') /\
  now st' = now st /\ next_seq st' = next_seq st /\ message_id st' = message_id st /\ active_exchanges st' = active_exchanges st /\
  backlogs st' = backlogs st /\ outgoing_requests st' = outgoing_requests st /\ refusing st' = refusing st.
Proof.
  intros st tn v st' [HA [Hd [Hn HR]]] Hr H. unfold uniform in H. inv H. cbn.
  repeat split; auto.
  - set (n := match rng st with [] => 0 | n :: _ => n end).
    assert (0 <= n <= RNG_DEN) as Hn' by (subst n; destruct (rng st); [unfold RNG_DEN; lia | inv Hr; auto]).
    assert (ACK_TIMEOUT tn <= ACK_TIMEOUT tn * ARF_num tn / ARF_den tn) by (apply Z.div_le_lower_bound; nia).
    assert (0 <= (ACK_TIMEOUT tn * ARF_num tn / ARF_den tn - ACK_TIMEOUT tn) * n / RNG_DEN) by (apply Z.div_pos; unfold RNG_DEN in *; nia).
    lia.
  - set (n := match rng st with [] => 0 | n :: _ => n end).
    assert (0 <= n <= RNG_DEN) as Hn' by (subst n; destruct (rng st); [unfold RNG_DEN; lia | inv Hr; auto]).
    set (hi := ACK_TIMEOUT tn * ARF_num tn / ARF_den tn).
    assert (ACK_TIMEOUT tn <= hi) by (apply Z.div_le_lower_bound; nia).
    assert ((hi - ACK_TIMEOUT tn) * n / RNG_DEN <= hi - ACK_TIMEOUT tn).
    { apply Z.div_le_upper_bound; unfold RNG_DEN in *; nia. }
    assert (hi * ARF_den tn <= ACK_TIMEOUT tn * ARF_num tn) by (subst hi; rewrite Z.mul_comm; apply Z.mul_div_le; lia).
    nia.
  - destruct (rng st); cbn; auto. inv Hr; auto.
Qed.

Lemma qdel_notin : forall r (l : list bent), ~ In r (map fst l) -> qdel r l = l.
Proof.
  induction l as [|a l IH]; cbn; intros H; auto.
  destruct (fst a =? r) eqn:E; cbn.
  - apply Z.eqb_eq in E. tauto.
  - f_equal. apply IH. tauto.
Qed.
Lemma entry_ok_frame : forall seen st st' e, now st' <= now st ->
  entry_ok seen st e -> entry_ok seen st' e.
Proof.
  unfold entry_ok. intros seen st st' e Hn H. decompose [and] H. splits; auto; try lia.
Qed.
Lemma back_ok_frame : forall seen st st' b,
  back_ok seen st b -> back_ok seen st' b.
Proof.
  unfold back_ok. intros seen st st' b H. rewrite Forall_forall in *. intros p Hp. specialize (H p Hp).
  unfold bmsg_ok in *. decompose [and] H. splits; auto.
Qed.

Lemma cnt_xdel_le : forall k (l : list exch) x, (count_occ Z.eq_dec (map e_rid (xdel k l)) x <= count_occ Z.eq_dec (map e_rid l) x)%nat.
Proof.
  unfold xdel. induction l as [|a l IH]; intros x; [cbn; auto|]. specialize (IH x).
  cbn [filter]. destruct (negb (key_eqb (fst a) k)); cbn [map count_occ]; destruct (Z.eq_dec (e_rid a) x); lia.
Qed.

Definition rng_ok (st : state) : Prop := Forall (fun n => 0 <= n <= RNG_DEN) (rng st).

(* _add_exchange in a state where the remote has no exchange: the invariant holds again right before the message is handed to the
   transport -- which is what makes a synchronous refusal "literally a dispatch_error step" (fix 11456f9 for retransmissions) *)
Lemma add_exchange_struct : forall seen st m st' o,
  Forall (entry_ok seen st) (active_exchanges st) -> NoDup (map e_remote (active_exchanges st)) ->
  Forall (back_ok seen st) (backlogs st) -> NoDup (map fst (backlogs st)) -> NoDup (m_rid m :: live_rids st) ->
  (forall r', r' <> m_remote m -> in_backlogs st r' = has_exchange_with st r') ->
  has_exchange_with st (m_remote m) = false -> rng_ok st ->
  wf_tuning (m_tuning m) -> In (m_rid m) seen ->
  _add_exchange st m (m_rid m) = (st', o) ->
  Struct seen st' /\ exists t, range (m_tuning m) t /\
     o = [ODraw (now st) (ACK_TIMEOUT (m_tuning m)) (ACK_TIMEOUT (m_tuning m) * ARF_num (m_tuning m) / ARF_den (m_tuning m)) t] /\
     now st' = now st /\ outgoing_requests st' = outgoing_requests st /\ refusing st' = refusing st /\
     active_exchanges st' = xset (m_remote m, m_mid m) (m_rid m, {| h_due := now st + t; h_seq := next_seq st; h_message := m; h_timeout := t; h_counter := 0 |}) (active_exchanges st) /\
     backlogs st' = (if in_backlogs st (m_remote m) then backlogs st else qset (m_remote m) [] (backlogs st)).
Proof.
  intros seen st m st' o Hex Hnd Hbl Hbn Hrids Hns Hno Hrng Hwf Hseen H.
  unfold _add_exchange in H.
  set (st1 := if in_backlogs st (m_remote m) then st else set_backlogs st (qset (m_remote m) [] (backlogs st))) in H.
  assert (now st1 = now st /\ next_seq st1 = next_seq st /\ active_exchanges st1 = active_exchanges st /\ outgoing_requests st1 = outgoing_requests st /\ rng st1 = rng st
          /\ backlogs st1 = (if in_backlogs st (m_remote m) then backlogs st else qset (m_remote m) [] (backlogs st)) /\ refusing st1 = refusing st) as [E1 [E2 [E3 [E4 [E5 [E6 E7]]]]]].
  { subst st1. destruct (in_backlogs st (m_remote m)); cbn; auto 10. }
  destruct (uniform st1 _ _) as [t st2] eqn:U.
  apply uniform_range in U; auto; [|unfold rng_ok in Hrng; rewrite E5; auto].
  destruct U as [Hr [Hrng2 [U1 [U2 [U3 [U4 [U5 [U6 U7]]]]]]]].
  unfold _schedule_retransmit in H. proj. cbn in H. inv H. cbn.
  rewrite U1, U2, U4, U5, U6, U7, E1, E2, E3, E4, E6, E7.
  split; [|exists t; splits; auto].
  set (k := (m_remote m, m_mid m)).
  set (h := {| h_due := now st + t; h_seq := next_seq st; h_message := m; h_timeout := t; h_counter := 0 |}).
  assert (Hno' : forall e, In e (active_exchanges st) -> e_remote e <> m_remote m) by (apply has_exchange_false; auto).
  destruct Hr as [Hr1 Hr2]. destruct Hwf as [W1 [W2 [W3 W4]]].
  constructor; proj.
  - (* entries *) apply Forall_forall. intros e He. apply in_xset in He. destruct He as [->|[He _]].
    + unfold entry_ok, e_timer; cbn. splits; auto; try lia; try (unfold wf_tuning; auto).
    + rewrite Forall_forall in Hex. specialize (Hex e He). eapply entry_ok_frame; [|exact Hex]; cbn; lia.
  - unfold xset. cbn. constructor; [|apply nodup_map_filter; auto].
    intros Hin. apply in_map_iff in Hin. destruct Hin as [e [He Hin]]. apply in_xdel in Hin. destruct Hin as [Hin _]. apply (Hno' e Hin). exact He.
  - assert (Forall (back_ok seen st) (if in_backlogs st (m_remote m) then backlogs st else qset (m_remote m) [] (backlogs st))).
    { destruct (in_backlogs st (m_remote m)); auto. apply Forall_forall. intros b Hb. apply in_qset in Hb. destruct Hb as [->|[Hb _]].
      - unfold back_ok; cbn. constructor.
      - rewrite Forall_forall in Hbl. auto. }
    eapply Forall_impl; [|exact H]. intros b Hb. eapply back_ok_frame; exact Hb.
  - destruct (in_backlogs st (m_remote m)); auto. apply nodup_qset; auto.
  - unfold live_rids in *. proj.
    match goal with |- NoDup (_ ++ back_rids ?B) => assert (Hbr : back_rids B = back_rids (backlogs st)) end.
    { destruct (in_backlogs st (m_remote m)) eqn:IB; auto.
      assert (~ In (m_remote m) (map fst (backlogs st))) by (rewrite <- in_backlogs_iff; congruence).
      unfold qset. rewrite qdel_notin; auto. }
    rewrite Hbr.
    apply (NoDup_count_occ Z.eq_dec). intros x. rewrite (NoDup_count_occ Z.eq_dec) in Hrids. specialize (Hrids x).
    change (m_rid m :: map e_rid (active_exchanges st) ++ back_rids (backlogs st)) with ([m_rid m] ++ map e_rid (active_exchanges st) ++ back_rids (backlogs st)) in Hrids.
    unfold xset. change (map e_rid ((k, (m_rid m, h)) :: xdel k (active_exchanges st))) with ([m_rid m] ++ map e_rid (xdel k (active_exchanges st))).
    rewrite !count_occ_app in *. pose proof (cnt_xdel_le k (active_exchanges st) x). lia.
  - intros r'. apply bool_eq_iff. rewrite in_backlogs_iff, has_exchange_iff. proj.
    destruct (Z.eq_dec r' (m_remote m)) as [->|Hne].
    + split; intros _.
      * exists (k, (m_rid m, h)). split; [apply in_xset; auto | reflexivity].
      * destruct (in_backlogs st (m_remote m)) eqn:IB; [apply in_backlogs_iff; auto | cbn; auto].
    + specialize (Hns r' Hne). split.
      * intros Hin. assert (in_backlogs st r' = true).
        { apply in_backlogs_iff. destruct (in_backlogs st (m_remote m)); auto. cbn in Hin. destruct Hin as [Hin|Hin]; [congruence|].
          apply in_map_iff in Hin. destruct Hin as [x [Hx Hin]]. apply in_qdel in Hin. apply in_map_iff. exists x. tauto. }
        rewrite Hns in H. apply has_exchange_iff in H. destruct H as [e [He1 He2]]. exists e. split; auto. apply in_xset. right. split; auto.
        intros Hk. apply Hne. rewrite <- He2. unfold e_remote. rewrite Hk. reflexivity.
      * intros [e [He1 He2]]. apply in_xset in He1. destruct He1 as [->|[He1 _]]; [cbn in He2; congruence|].
        assert (in_backlogs st r' = true) by (rewrite Hns; apply has_exchange_iff; eauto).
        apply in_backlogs_iff in H. destruct (in_backlogs st (m_remote m)); auto. cbn. right.
        apply in_map_iff in H. destruct H as [x [Hx Hin]]. apply in_map_iff. exists x. split; auto. apply in_qdel. split; auto. congruence.
  - exact Hrng2.
Qed.

Definition wf_event (seen : list Z) (e : event) : Prop :=
  match e with
  | ERequest rid r tn => ~ In rid seen /\ wf_tuning tn
  | _ => True
  end.
Definition seen_after (seen : list Z) (e : event) : list Z :=
  match e with ERequest rid _ _ => rid :: seen | _ => seen end.

Lemma entry_ok_seen : forall seen seen' st e, incl seen seen' -> entry_ok seen st e -> entry_ok seen' st e.
Proof. unfold entry_ok. intros seen seen' st e Hi H. decompose [and] H. splits; auto. Qed.
Lemma back_ok_seen : forall seen seen' st b, incl seen seen' -> back_ok seen st b -> back_ok seen' st b.
Proof.
  unfold back_ok. intros seen seen' st b Hi H. eapply Forall_impl; [|exact H]. intros p Hp. unfold bmsg_ok in *. decompose [and] Hp. splits; auto.
Qed.
Lemma back_rids_seen : forall seen st (l : list bent) x, Forall (back_ok seen st) l -> In x (back_rids l) -> In x seen.
Proof.
  intros seen st l x H Hin. unfold back_rids in Hin. apply in_flat_map in Hin. destruct Hin as [b [Hb Hx]].
  rewrite Forall_forall in H. specialize (H b Hb). unfold back_ok in H. rewrite Forall_forall in H.
  unfold q_rids in Hx. apply in_map_iff in Hx. destruct Hx as [p [<- Hp]]. specialize (H p Hp). unfold bmsg_ok in H. tauto.
Qed.
Lemma live_rids_seen : forall seen st x, Struct seen st -> In x (live_rids st) -> In x seen.
Proof.
  intros seen st x S Hin. unfold live_rids in Hin. apply in_app_iff in Hin. destruct Hin as [Hin|Hin].
  - apply in_map_iff in Hin. destruct Hin as [e [<- He]]. pose proof (s_ex _ _ S) as H. rewrite Forall_forall in H. specialize (H e He). unfold entry_ok in H. tauto.
  - apply (back_rids_seen seen st (backlogs st) x (s_bl _ _ S) Hin).
Qed.

Lemma cnt_qdel_split : forall (l : list bent) r q x, NoDup (map fst l) -> qget r l = Some q ->
  count_occ Z.eq_dec (back_rids l) x = (count_occ Z.eq_dec (q_rids q) x + count_occ Z.eq_dec (back_rids (qdel r l)) x)%nat.
Proof.
  induction l as [|a l IH]; intros r q x N H; [discriminate|].
  apply NoDup_cons_iff in N. destruct N as [Hn Hd]. unfold qget in H. cbn [find] in H. unfold back_rids, qdel. cbn [flat_map filter].
  destruct (fst a =? r) eqn:E.
  - inv H. cbn [negb]. apply Z.eqb_eq in E. subst r. change (filter (fun e : Z * list (message * Z) => negb (fst e =? fst a)) l) with (qdel (fst a) l).
    rewrite qdel_notin; auto. rewrite count_occ_app. reflexivity.
  - cbn [negb flat_map]. rewrite !count_occ_app. fold (qget r l) in H. fold (qdel r l). fold (back_rids l). fold (back_rids (qdel r l)).
    rewrite (IH r q x Hd H). lia.
Qed.
Lemma cnt_qdel_le : forall (l : list bent) r x, (count_occ Z.eq_dec (back_rids (qdel r l)) x <= count_occ Z.eq_dec (back_rids l) x)%nat.
Proof.
  induction l as [|a l IH]; intros r x; [cbn; auto|]. specialize (IH r x). unfold qdel, back_rids in *. cbn [filter flat_map].
  destruct (negb (fst a =? r)); cbn [flat_map]; rewrite ?count_occ_app; lia.
Qed.
Lemma cnt_qset : forall (l : list bent) r v x,
  count_occ Z.eq_dec (back_rids (qset r v l)) x = (count_occ Z.eq_dec (q_rids v) x + count_occ Z.eq_dec (back_rids (qdel r l)) x)%nat.
Proof. intros. unfold qset, back_rids. cbn [flat_map snd]. rewrite count_occ_app. reflexivity. Qed.
Lemma xdel_idem : forall k (l : list exch), xdel k (xdel k l) = xdel k l.
Proof.
  intros. unfold xdel. induction l as [|a l IH]; cbn; auto. destruct (negb (key_eqb (fst a) k)) eqn:E; cbn; rewrite ?E, IH; auto.
Qed.
Lemma cnt_xdel_split : forall (l : list exch) e1 x, NoDup (map e_remote l) -> In e1 l ->
  count_occ Z.eq_dec (map e_rid l) x = (count_occ Z.eq_dec [e_rid e1] x + count_occ Z.eq_dec (map e_rid (xdel (fst e1) l)) x)%nat.
Proof.
  induction l as [|a l IH]; intros e1 x N Hin; [inv Hin|].
  apply NoDup_cons_iff in N. destruct N as [Hn Hd]. unfold xdel. cbn [filter map].
  destruct Hin as [->|Hin].
  - rewrite key_eqb_refl. cbn [negb]. fold (xdel (fst e1) l).
    assert (xdel (fst e1) l = l) as ->.
    { unfold xdel. clear IH Hd. induction l as [|b l IH]; cbn; auto. cbn in Hn.
      assert (key_eqb (fst b) (fst e1) = false) as ->.
      { apply key_eqb_false. intros Hk. apply Hn. left. unfold e_remote. rewrite Hk. reflexivity. }
      cbn. f_equal. apply IH. tauto. }
    change (e_rid e1 :: map e_rid l) with ([e_rid e1] ++ map e_rid l). rewrite count_occ_app. reflexivity.
  - assert (key_eqb (fst a) (fst e1) = false) as ->.
    { apply key_eqb_false. intros Hk. apply Hn. apply in_map_iff. exists e1. split; auto. unfold e_remote. rewrite Hk. reflexivity. }
    cbn [negb map]. fold (xdel (fst e1) l). specialize (IH e1 x Hd Hin).
    change (e_rid a :: map e_rid l) with ([e_rid a] ++ map e_rid l). change (e_rid a :: map e_rid (xdel (fst e1) l)) with ([e_rid a] ++ map e_rid (xdel (fst e1) l)).
    rewrite !count_occ_app. lia.
Qed.

Lemma struct_seen_mono : forall seen seen' st, incl seen seen' -> Struct seen st -> Struct seen' st.
Proof.
  intros seen seen' st Hi S. destruct S. constructor; auto.
  - eapply Forall_impl; [|eauto]. intros; eapply entry_ok_seen; eauto.
  - eapply Forall_impl; [|eauto]. intros; eapply back_ok_seen; eauto.
Qed.

Lemma in_unique_map : forall {A B} (f : A -> B) (l : list A) a b, NoDup (map f l) -> In a l -> In b l -> f a = f b -> a = b.
Proof.
  induction l as [|x l IH]; cbn; intros a b H H1 H2 Hr; [tauto|]. apply NoDup_cons_iff in H. destruct H as [Hn Hd].
  destruct H1 as [->|H1], H2 as [->|H2]; auto.
  - exfalso. apply Hn. rewrite Hr. apply in_map. exact H2.
  - exfalso. apply Hn. rewrite <- Hr. apply in_map. exact H1.
Qed.
Lemma nodup_app_disjoint : forall (a b : list Z) x, NoDup (a ++ b) -> In x a -> In x b -> False.
Proof.
  intros a b x N Ha Hb. rewrite (NoDup_count_occ Z.eq_dec) in N. specialize (N x). rewrite count_occ_app in N.
  apply (count_occ_In Z.eq_dec) in Ha. apply (count_occ_In Z.eq_dec) in Hb. lia.
Qed.

Lemma nodup_app_l : forall (a b : list Z), NoDup (a ++ b) -> NoDup a.
Proof.
  intros a b N. rewrite (NoDup_count_occ Z.eq_dec) in *. intros x. specialize (N x). rewrite count_occ_app in N. lia.
Qed.

Lemma struct_frame : forall seen st st', Struct seen st -> now st' <= now st -> active_exchanges st' = active_exchanges st ->
  backlogs st' = backlogs st -> rng st' = rng st -> refusing st' = refusing st -> Struct seen st'.
Proof.
  intros seen st st' S Hn He Hb Hr Ho. destruct S. constructor; unfold live_rids, in_backlogs, has_exchange_with in *; rewrite ?He, ?Hb, ?Hr, ?Ho; auto.
  all: try (eapply Forall_impl; [|eauto]; intros e H; eapply entry_ok_frame; [|exact H]; auto).
Qed.

(* what is known right after `self._active_exchanges.pop(key)` of an existing entry *)
Lemma pop_facts : forall seen st k mon h, Struct seen st -> xget k (active_exchanges st) = Some (mon, h) ->
  let l := active_exchanges st in let r := fst k in
  In (k, (mon, h)) l /\ entry_ok seen st (k, (mon, h)) /\ mon = m_rid (h_message h) /\ k = (m_remote (h_message h), m_mid (h_message h)) /\
  (exists q, qget r (backlogs st) = Some q) /\
  (forall e, In e (xdel k l) -> In e l /\ e_remote e <> r /\ e_rid e <> mon) /\
  (forall x, In x (back_rids (backlogs st)) -> x <> mon) /\
  NoDup (map e_remote (xdel k l)) /\
  (forall x, (count_occ Z.eq_dec [mon] x + count_occ Z.eq_dec (map e_rid (xdel k l)) x + count_occ Z.eq_dec (back_rids (backlogs st)) x <= 1)%nat).
Proof.
  intros seen st k mon h S X l r. pose proof (xget_in _ _ _ X) as Hin. fold l in Hin.
  pose proof (s_ex _ _ S) as Hex. rewrite Forall_forall in Hex. pose proof (Hex _ Hin) as Hok.
  assert (Hmon : mon = m_rid (h_message h)) by (unfold entry_ok in Hok; cbn in Hok; tauto).
  assert (Hk : k = (m_remote (h_message h), m_mid (h_message h))) by (unfold entry_ok in Hok; cbn in Hok; tauto).
  pose proof (s_live _ _ S) as Hlive. unfold live_rids in Hlive. fold l in Hlive.
  splits; auto.
  - assert (in_backlogs st r = true) as IB.
    { rewrite (s_nstart _ _ S). apply has_exchange_iff. exists (k, (mon, h)). split; auto. }
    unfold in_backlogs in IB. destruct (qget r (backlogs st)) eqn:Q; [eauto|discriminate].
  - intros e He. apply in_xdel in He. destruct He as [He Hne]. split; auto. split.
    + intros Hr. apply Hne. assert (e = (k, (mon, h))) as -> by (apply (in_unique_map e_remote l); auto; apply (s_ex_nodup _ _ S)). reflexivity.
    + intros Hr. apply Hne. assert (e = (k, (mon, h))) as ->; [|reflexivity].
      apply (in_unique_map e_rid l); auto; [eapply nodup_app_l; exact Hlive | ].
      rewrite Hr. unfold e_rid, e_timer. cbn. auto.
  - intros x Hx ->. eapply nodup_app_disjoint; [exact Hlive | | exact Hx]. apply in_map_iff. exists (k, (mon, h)). split; auto.
  - apply nodup_map_filter. apply (s_ex_nodup _ _ S).
  - intros x. rewrite (NoDup_count_occ Z.eq_dec) in Hlive. specialize (Hlive x). rewrite count_occ_app in Hlive.
    pose proof (cnt_xdel_split l (k, (mon, h)) x (s_ex_nodup _ _ S) Hin) as Hs. cbn [fst] in Hs.
    assert (e_rid (k, (mon, h)) = mon) as Hr by (unfold e_rid, e_timer; cbn; auto). rewrite Hr in Hs. lia.
Qed.

Lemma no_error_nil : no_error []. Proof. intros t e H. inv H. Qed.
Lemma no_error_app : forall a b, no_error a -> no_error b -> no_error (a ++ b).
Proof. intros a b Ha Hb t e H. apply in_app_iff in H. destruct H; [eapply Ha | eapply Hb]; eauto. Qed.

Lemma has_exchange_false_l : forall st r, (forall e, In e (active_exchanges st) -> e_remote e <> r) -> has_exchange_with st r = false.
Proof. intros. apply has_exchange_false. auto. Qed.

Lemma cnt_filter_le : forall (f : exch -> bool) (l : list exch) x,
  (count_occ Z.eq_dec (map e_rid (filter f l)) x <= count_occ Z.eq_dec (map e_rid l) x)%nat.
Proof.
  induction l as [|a l IH]; intros x; [cbn; auto|]. specialize (IH x).
  cbn [filter]. destruct (f a); cbn [map count_occ]; destruct (Z.eq_dec (e_rid a) x); lia.
Qed.

(* MessageManager.dispatch_error for a remote: every exchange with it and its backlog are dropped, its requests fail *)
Lemma error_struct : forall seen st r st' o, Struct seen st -> mm_dispatch_error st r = (st', o) ->
  Struct seen st' /\ no_error o /\ now st' = now st /\
  active_exchanges st' = filter (fun e => negb (fst (fst e) =? r)) (active_exchanges st) /\
  backlogs st' = qdel r (backlogs st) /\
  outgoing_requests st' = filter (fun q => negb (snd q =? r)) (outgoing_requests st) /\
  o = map (fun q => OFail (now st) (fst q) NetworkError) (filter (fun q => snd q =? r) (outgoing_requests st)).
Proof.
  intros seen st r st' o S H. unfold mm_dispatch_error, tm_dispatch_error in H. inv H. proj. splits; auto.
  2:{ intros t e Hi. apply in_map_iff in Hi. destruct Hi as [x [Hx _]]. discriminate. }
  pose proof (s_ex _ _ S) as Hex. rewrite Forall_forall in Hex. pose proof (s_bl _ _ S) as Hbl. rewrite Forall_forall in Hbl.
  assert (Hsub : forall e, In e (filter (fun e => negb (fst (fst e) =? r)) (active_exchanges st)) <-> In e (active_exchanges st) /\ e_remote e <> r).
  { intros e. rewrite filter_In, negb_true_iff, Z.eqb_neq. reflexivity. }
  constructor; proj.
  - apply Forall_forall. intros e He. apply Hsub in He. eapply entry_ok_frame; [|apply Hex; apply He]. cbn. lia.
  - apply nodup_map_filter. apply (s_ex_nodup _ _ S).
  - apply Forall_forall. intros b Hb. apply in_qdel in Hb. eapply back_ok_frame. apply Hbl. apply Hb.
  - apply nodup_qdel. apply (s_bl_nodup _ _ S).
  - unfold live_rids. proj. pose proof (s_live _ _ S) as Hl. unfold live_rids in Hl. apply (NoDup_count_occ Z.eq_dec). intros x.
    rewrite (NoDup_count_occ Z.eq_dec) in Hl. specialize (Hl x). rewrite count_occ_app in *.
    eapply Nat.le_trans; [apply Nat.add_le_mono; [apply cnt_filter_le | apply cnt_qdel_le] | exact Hl].
  - intros r'. destruct (Z.eq_dec r' r) as [->|Hne].
    + transitivity false; [|symmetry; apply has_exchange_false_l; proj; intros e He; apply Hsub in He; tauto].
      unfold in_backlogs. proj. rewrite qget_qdel_same. reflexivity.
    + transitivity (in_backlogs st r'); [unfold in_backlogs; proj; rewrite qget_qdel_other; auto|].
      rewrite (s_nstart _ _ S). apply bool_eq_iff. rewrite !has_exchange_iff. proj. split; intros [e [He1 He2]]; exists e; split; auto.
      * apply Hsub. split; auto. congruence.
      * apply Hsub in He1. tauto.
  - apply (s_rng _ _ S).
Qed.

Lemma send_via_cases : forall st m st' o, _send_via_transport st m = (st', o) ->
  (is_refusing st (m_remote m) = false /\ st' = st /\ o = [OSend (now st) m]) \/
  (is_refusing st (m_remote m) = true /\ mm_dispatch_error st (m_remote m) = (st', o)).
Proof. intros st m st' o H. unfold _send_via_transport in H. destruct (is_refusing st (m_remote m)); [right|left; inv H]; auto. Qed.

(* _send_initially: the state [st1] right before the transport is called satisfies the invariant; the transport either takes the
   datagram or refuses it, and a refusal is exactly MessageManager.dispatch_error for that remote in [st1] *)
Lemma send_initially_struct : forall seen st m st' o,
  Forall (entry_ok seen st) (active_exchanges st) -> NoDup (map e_remote (active_exchanges st)) ->
  Forall (back_ok seen st) (backlogs st) -> NoDup (map fst (backlogs st)) -> NoDup (m_rid m :: live_rids st) ->
  (forall r', r' <> m_remote m -> in_backlogs st r' = has_exchange_with st r') ->
  has_exchange_with st (m_remote m) = false -> rng_ok st ->
  wf_tuning (m_tuning m) -> In (m_rid m) seen ->
  _send_initially st m (m_rid m) = (st', o) ->
  Struct seen st' /\ exists st1 t oe, Struct seen st1 /\ range (m_tuning m) t /\
     now st1 = now st /\ outgoing_requests st1 = outgoing_requests st /\ refusing st1 = refusing st /\
     active_exchanges st1 = xset (m_remote m, m_mid m) (m_rid m, {| h_due := now st + t; h_seq := next_seq st; h_message := m; h_timeout := t; h_counter := 0 |}) (active_exchanges st) /\
     backlogs st1 = (if in_backlogs st (m_remote m) then backlogs st else qset (m_remote m) [] (backlogs st)) /\
     ((is_refusing st (m_remote m) = false /\ st' = st1 /\
       o = [ODraw (now st) (ACK_TIMEOUT (m_tuning m)) (ACK_TIMEOUT (m_tuning m) * ARF_num (m_tuning m) / ARF_den (m_tuning m)) t; OSend (now st) m]) \/
      (is_refusing st (m_remote m) = true /\ mm_dispatch_error st1 (m_remote m) = (st', oe) /\
       o = ODraw (now st) (ACK_TIMEOUT (m_tuning m)) (ACK_TIMEOUT (m_tuning m) * ARF_num (m_tuning m) / ARF_den (m_tuning m)) t :: oe)) /\
     no_error o.
Proof.
  intros seen st m st' o Hex Hnd Hbl Hbn Hrids Hns Hno Hrng Hwf Hseen H.
  unfold _send_initially in H. destruct (_add_exchange st m (m_rid m)) as [st1 o1] eqn:A.
  destruct (add_exchange_struct seen st m st1 o1 Hex Hnd Hbl Hbn Hrids Hns Hno Hrng Hwf Hseen A) as (S1 & t & Hrg & -> & E1 & E2 & E3 & E4 & E5).
  destruct (_send_via_transport st1 m) as [st2 o2] eqn:V. inv H.
  assert (Hir : is_refusing st1 (m_remote m) = is_refusing st (m_remote m)) by (unfold is_refusing; rewrite E3; reflexivity).
  destruct (send_via_cases _ _ _ _ V) as [(Hr & -> & ->)|(Hr & D)]; rewrite Hir in Hr.
  - split; auto. exists st1, t, []. splits; auto; [left; rewrite E1; auto|].
    intros t' e Hi. cbn in Hi. destruct Hi as [Hi|[Hi|Hi]]; try discriminate. tauto.
  - destruct (error_struct _ _ _ _ _ S1 D) as (S2 & Hne & _). split; auto. exists st1, t, o2. splits; auto.
    intros t' e Hi. cbn in Hi. destruct Hi as [Hi|Hi]; [discriminate|]. eapply Hne; eauto.
Qed.

Lemma step_request_struct : forall seen st rid r tn st' o, Struct seen st -> ~ In rid seen -> wf_tuning tn ->
  tm_request st rid r tn = (st', o) -> Struct (rid :: seen) st' /\ no_error o.
Proof.
  intros seen st rid r tn st' o S Hfresh Hwf H.
  unfold tm_request, send_message, _next_message_id in H. proj.
  set (m := {| m_remote := r; m_mid := message_id st; m_rid := rid; m_tuning := tn |}) in *.
  set (st0 := {| now := now st; next_seq := next_seq st; message_id := Z.land 65535 (1 + message_id st); active_exchanges := active_exchanges st;
                 backlogs := backlogs st; outgoing_requests := outgoing_requests st ++ [(rid, r)]; rng := rng st; refusing := refusing st |}) in *.
  assert (S0 : Struct (rid :: seen) st0).
  { apply (struct_frame (rid :: seen) st); auto; try reflexivity; try (cbn; lia).
    eapply struct_seen_mono; [|exact S]. intros x Hx. right. exact Hx. }
  assert (Hnl : ~ In rid (live_rids st0)).
  { intros Hin. apply Hfresh. eapply live_rids_seen; [exact S|]. exact Hin. }
  destruct (qget r (backlogs st)) as [q|] eqn:Q.
  - assert (HX : has_exchange_with st0 r = true).
    { rewrite <- (s_nstart _ _ S0). unfold in_backlogs. cbn. rewrite Q. reflexivity. }
    change (has_exchange_with st r) with (has_exchange_with st0 r) in H. rewrite HX in H. inv H.
    split; [|apply no_error_nil].
    pose proof (s_bl _ _ S0) as Hbl. rewrite Forall_forall in Hbl. pose proof (qget_in _ _ _ Q) as Hq.
    destruct S0. constructor; proj; auto.
    + apply Forall_forall. intros b Hb. apply in_qset in Hb. destruct Hb as [->|[Hb _]].
      2:{ eapply back_ok_frame; apply Hbl; exact Hb. }
      unfold back_ok. cbn [fst snd]. apply Forall_app. split; [apply (Hbl _ Hq)|]. constructor; [|constructor].
      unfold bmsg_ok. cbn. splits; auto; try (apply in_app_iff; right; left; reflexivity).
    + apply nodup_qset; auto.
    + unfold live_rids in *. proj. change (backlogs st0) with (backlogs st) in *. change (active_exchanges st0) with (active_exchanges st) in *.
      apply (NoDup_count_occ Z.eq_dec). intros x. rewrite (NoDup_count_occ Z.eq_dec) in s_live0. specialize (s_live0 x).
      rewrite count_occ_app in *. rewrite cnt_qset. rewrite (cnt_qdel_split _ _ _ x s_bl_nodup0 Q) in s_live0.
      unfold q_rids in *. rewrite map_app, count_occ_app. cbn [map fst m_rid m].
      assert (count_occ Z.eq_dec [rid] x = 0 \/ (x = rid))%nat as [Hc|Hc].
      { cbn. destruct (Z.eq_dec rid x); auto. }
      * lia.
      * subst x. assert (count_occ Z.eq_dec (map e_rid (active_exchanges st) ++ back_rids (backlogs st)) rid = 0)%nat as H by (apply count_occ_not_In; auto).
        rewrite count_occ_app in H.
        rewrite (cnt_qdel_split _ _ _ rid s_bl_nodup0 Q) in H. unfold q_rids in H. cbn. destruct (Z.eq_dec rid rid); lia.
    + intros r'. transitivity (in_backlogs st0 r'); [|rewrite s_nstart0; reflexivity]. unfold in_backlogs. proj. change (backlogs st0) with (backlogs st). destruct (Z.eq_dec r r') as [<-|Hne].
      * rewrite qget_qset_same, Q. reflexivity.
      * rewrite qget_qset_other; auto.
  - assert (HX : has_exchange_with st0 r = false).
    { rewrite <- (s_nstart _ _ S0). unfold in_backlogs. cbn. rewrite Q. reflexivity. }
    change (m_remote m) with r in *.
    apply (send_initially_struct (rid :: seen)) in H; auto; try (destruct S0; auto; fail).
    + destruct H as (S' & st1 & t & oe & _ & _ & _ & _ & _ & _ & _ & _ & Hne). split; auto.
    + constructor; auto. apply (s_live _ _ S0).
    + cbn. auto.
Qed.

Definition mk_timer (st : state) (m : message) (t c : Z) : timer :=
  {| h_due := now st + t; h_seq := next_seq st; h_message := m; h_timeout := t; h_counter := c |}.

Lemma in_back_rids : forall (B : list bent) r q p, In (r, q) B -> In p q -> In (m_rid (fst p)) (back_rids B).
Proof. intros. unfold back_rids. apply in_flat_map. exists (r, q). split; auto. cbn. unfold q_rids. apply in_map_iff. exists p. auto. Qed.

Lemma loop_S : forall f st r, _continue_backlog_loop (Datatypes.S f) st r =
  match qget r (backlogs st) with
  | None => (st, [])
  | Some q =>
      if has_exchange_with st r then (st, [])
      else match q with
           | (next_message, monitor) :: rest =>
               let '(st, o1) := _send_initially (set_backlogs st (qset r rest (backlogs st))) next_message monitor in
               let '(st, o2) := _continue_backlog_loop f st r in
               (st, o1 ++ o2)
           | [] => (set_backlogs st (qdel r (backlogs st)), [])
           end
  end.
Proof. reflexivity. Qed.

(* _continue_backlog right after the entry [k] was popped (and possibly the monitor called) *)
Lemma continue_after_pop : forall seen st k mon h st2 st' o,
  Struct seen st -> xget k (active_exchanges st) = Some (mon, h) ->
  now st2 = now st -> rng st2 = rng st -> active_exchanges st2 = xdel k (active_exchanges st) -> backlogs st2 = backlogs st ->
  refusing st2 = refusing st ->
  _continue_backlog st2 (fst k) = (st', o) ->
  Struct seen st' /\ no_error o /\
  exists q, qget (fst k) (backlogs st) = Some q /\
    match q with
    | [] => o = [] /\ active_exchanges st' = xdel k (active_exchanges st) /\ backlogs st' = qdel (fst k) (backlogs st) /\
            now st' = now st /\ outgoing_requests st' = outgoing_requests st2
    | (m2, mon2) :: rest => mon2 = m_rid m2 /\ m_remote m2 = fst k /\ wf_tuning (m_tuning m2) /\ In (m_rid m2) seen /\ exists t st1 oe,
        range (m_tuning m2) t /\ Struct seen st1 /\ now st1 = now st /\ outgoing_requests st1 = outgoing_requests st2 /\
        active_exchanges st1 = xset (m_remote m2, m_mid m2) (m_rid m2, mk_timer st2 m2 t 0) (xdel k (active_exchanges st)) /\
        backlogs st1 = qset (fst k) rest (backlogs st) /\
        ((is_refusing st (fst k) = false /\ st' = st1 /\
          o = [ODraw (now st) (ACK_TIMEOUT (m_tuning m2)) (ACK_TIMEOUT (m_tuning m2) * ARF_num (m_tuning m2) / ARF_den (m_tuning m2)) t; OSend (now st) m2]) \/
         (is_refusing st (fst k) = true /\ mm_dispatch_error st1 (fst k) = (st', oe) /\
          o = ODraw (now st) (ACK_TIMEOUT (m_tuning m2)) (ACK_TIMEOUT (m_tuning m2) * ARF_num (m_tuning m2) / ARF_den (m_tuning m2)) t :: oe))
    end.
Proof.
  intros seen st k mon h st2 st' o S X En Er Ex Eb Enr H.
  destruct (pop_facts seen st k mon h S X) as (Hin & Hok & Hmon & Hk & [q Q] & Hrest & Hbr & Hnd & Hcnt).
  set (r := fst k) in *. set (l := active_exchanges st) in *.
  assert (HX2 : has_exchange_with st2 r = false).
  { apply has_exchange_false_l. rewrite Ex. intros e He. apply Hrest in He. tauto. }
  pose proof (s_bl _ _ S) as Hbl. rewrite Forall_forall in Hbl. pose proof (qget_in _ _ _ Q) as Hq.
  pose proof (s_ex _ _ S) as Hex. rewrite Forall_forall in Hex.
  assert (Hex2 : forall e, In e (xdel k l) -> entry_ok seen st2 e).
  { intros e He. destruct (Hrest e He) as (He1 & He2 & He3). eapply entry_ok_frame; [|apply Hex; exact He1]. lia. }
  assert (Hbl2 : forall b, In b (backlogs st) -> back_ok seen st2 b).
  { intros b Hb. eapply back_ok_frame; apply Hbl; exact Hb. }
  assert (Hns2 : forall r', r' <> r -> in_backlogs st r' = has_exchange_with st2 r').
  { intros r' Hne. rewrite (s_nstart _ _ S). apply bool_eq_iff. rewrite !has_exchange_iff. rewrite Ex. split; intros [e [He1 He2]]; exists e; split; auto.
    - apply in_xdel. split; auto. intros Hk'. apply Hne. rewrite <- He2. unfold e_remote. rewrite Hk'. reflexivity.
    - apply Hrest in He1. tauto. }
  unfold _continue_backlog in H. rewrite Eb, Q in H. cbn [Nat.add] in H. rewrite loop_S in H. rewrite Eb, Q, HX2 in H.
  destruct q as [|[m2 mon2] rest].
  - inv H. proj. split; [|split; [apply no_error_nil|exists []; splits; auto]].
    constructor; proj; rewrite ?Ex, ?Er, ?Enr; auto.
    + apply Forall_forall. intros e He. eapply entry_ok_frame; [|apply Hex2; exact He]; cbn; auto; lia.
    + apply Forall_forall. intros b Hb. apply in_qdel in Hb. eapply back_ok_frame; apply Hbl2; apply Hb.
    + apply nodup_qdel. apply (s_bl_nodup _ _ S).
    + unfold live_rids. proj. rewrite Ex. apply (NoDup_count_occ Z.eq_dec). intros x. specialize (Hcnt x). rewrite count_occ_app.
      pose proof (cnt_qdel_le (backlogs st) r x). lia.
    + intros r'. destruct (Z.eq_dec r' r) as [->|Hne].
      * transitivity false; [|symmetry; apply has_exchange_false_l; proj; rewrite Ex; intros e He; apply Hrest in He; tauto].
        unfold in_backlogs. proj. rewrite qget_qdel_same. reflexivity.
      * transitivity (in_backlogs st r'); [unfold in_backlogs; proj; rewrite qget_qdel_other; auto|].
        rewrite (Hns2 r' Hne). reflexivity.
    + apply (s_rng _ _ S).
  - pose proof (Hbl _ Hq) as Hq2. unfold back_ok in Hq2. cbn [fst snd] in Hq2. apply Forall_cons_iff in Hq2. destruct Hq2 as [Hm2 Hrest2].
    unfold bmsg_ok in Hm2. cbn [fst snd] in Hm2. destruct Hm2 as (Hr2 & Hmon2 & Hwf2 & Hseen2). subst mon2.
    set (st3 := set_backlogs st2 (qset r rest (backlogs st))) in *.
    assert (Hne2 : m_rid m2 <> mon) by (apply Hbr; apply (in_back_rids _ r _ (m2, m_rid m2) Hq); left; reflexivity).
    destruct (_send_initially st3 m2 (m_rid m2)) as [st4 o1] eqn:SI.
    apply (send_initially_struct seen) in SI; rewrite ?Hr2; auto.
    + destruct SI as (S' & st1 & t & oe & S1 & Hrg & E1 & E2 & E5 & E3 & E4 & Hcase & Hne1).
      assert (E4' : backlogs st1 = qset r rest (backlogs st)).
      { rewrite E4, Hr2. assert (in_backlogs st3 r = true) as ->; [|reflexivity]. unfold in_backlogs, st3. proj. rewrite qget_qset_same. reflexivity. }
      assert (Hir : is_refusing st3 r = is_refusing st r) by (unfold is_refusing, st3; proj; rewrite Enr; reflexivity).
      rewrite Hr2, Hir in Hcase.
      assert (Hloop : _continue_backlog_loop (Datatypes.S (length ((m2, m_rid m2) :: rest))) st4 r = (st4, [])).
      { rewrite loop_S. destruct Hcase as [(Hr & -> & _)|(Hr & D & _)].
        - assert (HX4 : has_exchange_with st1 r = true).
          { apply has_exchange_iff. rewrite E3. eexists. split; [apply in_xset; left; reflexivity|]. unfold e_remote. cbn. exact Hr2. }
          assert (in_backlogs st1 r = true) as IB4 by (rewrite (s_nstart _ _ S1); exact HX4).
          unfold in_backlogs in IB4. destruct (qget r (backlogs st1)) as [q4|] eqn:Q4; [|discriminate]. rewrite HX4. reflexivity.
        - destruct (error_struct _ _ _ _ _ S1 D) as (_ & _ & _ & _ & Eb4 & _). rewrite Eb4, qget_qdel_same. reflexivity. }
      rewrite Hloop in H. inv H. rewrite app_nil_r. splits; auto.
      exists ((m2, m_rid m2) :: rest). split; auto. splits; auto. exists t, st1, oe. splits; auto.
      * rewrite E1. unfold st3. proj. exact En.
      * rewrite E3. unfold st3. proj. rewrite Ex. unfold mk_timer. reflexivity.
      * unfold st3 in Hcase. proj. rewrite En in Hcase. exact Hcase.
    + unfold st3; proj. rewrite Ex. apply Forall_forall. intros e He. eapply entry_ok_frame; [|apply Hex2; exact He]; cbn; auto; lia.
    + unfold st3; proj. rewrite Ex. auto.
    + unfold st3; proj. apply Forall_forall. intros b Hb. apply in_qset in Hb. destruct Hb as [->|[Hb _]].
      * unfold back_ok. cbn [fst snd]. apply Forall_forall. intros p Hpin. rewrite Forall_forall in Hrest2. pose proof (Hrest2 p Hpin) as Hp.
        unfold bmsg_ok in *. decompose [and] Hp. splits; auto.
      * eapply back_ok_frame; apply Hbl2; exact Hb.
    + unfold st3; proj. apply nodup_qset. apply (s_bl_nodup _ _ S).
    + unfold live_rids, st3. proj. rewrite Ex. apply (NoDup_count_occ Z.eq_dec). intros x. specialize (Hcnt x).
      change (m_rid m2 :: map e_rid (xdel k l) ++ back_rids (qset r rest (backlogs st))) with ([m_rid m2] ++ map e_rid (xdel k l) ++ back_rids (qset r rest (backlogs st))).
      rewrite !count_occ_app, cnt_qset. rewrite (cnt_qdel_split _ _ _ x (s_bl_nodup _ _ S) Q) in Hcnt.
      change (q_rids ((m2, m_rid m2) :: rest)) with ([m_rid m2] ++ q_rids rest) in Hcnt. rewrite count_occ_app in Hcnt. lia.
    + intros r' Hne. transitivity (in_backlogs st r'); [unfold in_backlogs, st3; proj; rewrite qget_qset_other; auto|].
      rewrite (Hns2 r' Hne). reflexivity.
    + unfold rng_ok, st3. proj. rewrite Er. apply (s_rng _ _ S).
Qed.

Lemma recv_shape : forall seen st r mid b st' o, Struct seen st -> _remove_exchange st r mid b = (st', o) ->
  (xget (r, mid) (active_exchanges st) = None /\ st' = st /\ o = []) \/
  exists mon h st2 o1 o2, xget (r, mid) (active_exchanges st) = Some (mon, h) /\ o = o1 ++ o2 /\
     (o1 = [] \/ (b = true /\ o1 = [OFail (now st) mon MessageError])) /\
     (b = true -> In mon (map fst (outgoing_requests st)) -> o1 = [OFail (now st) mon MessageError]) /\
     now st2 = now st /\ rng st2 = rng st /\ next_seq st2 = next_seq st /\ active_exchanges st2 = xdel (r, mid) (active_exchanges st) /\
     backlogs st2 = backlogs st /\ refusing st2 = refusing st /\
     (forall p, In p (outgoing_requests st) -> fst p <> mon -> In p (outgoing_requests st2)) /\
     incl (outgoing_requests st2) (outgoing_requests st) /\
     _continue_backlog st2 r = (st', o2).
Proof.
  intros seen st r mid b st' o S H. unfold _remove_exchange in H.
  destruct (xget (r, mid) (active_exchanges st)) as [[mon h]|] eqn:X; [|left; inv H; auto].
  right. destruct b.
  - unfold tm_fail in H. proj.
    destruct (existsb (fun q => fst q =? mon) (outgoing_requests st)) eqn:E.
    + match type of H with (let '(st, o2) := _continue_backlog ?s r in _) = _ => destruct (_continue_backlog s r) as [st3 o2] eqn:C; exists mon, h, s, [OFail (now st) mon MessageError], o2 end.
      inv H. splits; auto.
      * intros p Hp Hf. cbn. apply filter_In. split; auto. apply negb_true_iff. apply Z.eqb_neq. exact Hf.
      * cbn. intros p Hp. apply filter_In in Hp. tauto.
    + match type of H with (let '(st, o2) := _continue_backlog ?s r in _) = _ => destruct (_continue_backlog s r) as [st3 o2] eqn:C; exists mon, h, s, [], o2 end.
      inv H. splits; auto; [|intros p Hp; exact Hp].
      intros _ Hi. exfalso. apply in_map_iff in Hi. destruct Hi as [p [Hp1 Hp2]].
      assert (existsb (fun q => fst q =? mon) (outgoing_requests st) = true) by (apply existsb_exists; exists p; split; auto; apply Z.eqb_eq; exact Hp1). congruence.
  - match type of H with (let '(st, o2) := _continue_backlog ?s r in _) = _ => destruct (_continue_backlog s r) as [st3 o2] eqn:C; exists mon, h, s, [], o2 end.
    inv H. splits; auto; try discriminate. intros p Hp; exact Hp.
Qed.

Lemma o1_no_error : forall b t mon (o1 : list output), (o1 = [] \/ (b = true /\ o1 = [OFail t mon MessageError])) -> no_error o1 /\ (forall t' m, ~ In (OSend t' m) o1).
Proof.
  intros b t mon o1 [->|[_ ->]]; split; intros t' e Hi; cbn in Hi; try tauto; destruct Hi as [Hi|Hi]; try discriminate; tauto.
Qed.

Lemma step_recv_struct : forall seen st r mid b st' o, Struct seen st -> _remove_exchange st r mid b = (st', o) ->
  Struct seen st' /\ no_error o.
Proof.
  intros seen st r mid b st' o S H. destruct (recv_shape _ _ _ _ _ _ _ S H) as [(X & -> & ->)|(mon & h & st2 & o1 & o2 & X & -> & Ho1 & _ & En & Er & Es & Ex & Eb & Enr & _ & _ & C)].
  - split; auto. apply no_error_nil.
  - change r with (fst (r, mid)) in C. apply (continue_after_pop seen st (r, mid) mon h st2 st' o2 S X En Er Ex Eb Enr) in C.
    destruct C as (S' & Hne & _). split; auto. apply no_error_app; auto. apply (o1_no_error _ _ _ _ Ho1).
Qed.

Lemma entry_ok_frame2 : forall seen st st' e, now st' <= now st ->
  entry_ok seen st e -> entry_ok seen st' e.
Proof.
  unfold entry_ok. intros seen st st' e Hn H. decompose [and] H. splits; auto; try lia.
Qed.

Lemma struct_set_now : forall seen st t, Struct seen st -> (forall e, In e (active_exchanges st) -> t <= h_due (e_timer e)) ->
  Struct seen (set_now st (Z.max (now st) t)).
Proof.
  intros seen st t S Ht. pose proof (s_ex _ _ S) as Hex. rewrite Forall_forall in Hex. destruct S. constructor; auto.
  - cbn. apply Forall_forall. intros e He. specialize (Hex e He). specialize (Ht e He). unfold entry_ok in *. cbn. decompose [and] Hex. splits; auto. lia.
Qed.

Definition gave_up_outputs (st : state) (r : Z) : list output :=
  map (fun q => OFail (now st) (fst q) ConRetransmitsExceeded) (filter (fun q => snd q =? r) (outgoing_requests st)).

Lemma retransmit_struct : forall seen st e1 h st' o, Struct seen st -> In e1 (active_exchanges st) -> e_timer e1 = h ->
  _retransmit st h = (st', o) ->
  let m := h_message h in let k := (m_remote m, m_mid m) in
  Struct seen st' /\ no_error o /\ now st' = now st /\ xget k (active_exchanges st) = Some (m_rid m, h) /\
  ( (h_counter h < MAX_RETRANSMIT (m_tuning m) /\ exists st1 oe, Struct seen st1 /\ now st1 = now st /\
     active_exchanges st1 = xset k (m_rid m, mk_timer st m (h_timeout h * 2) (h_counter h + 1)) (xdel k (active_exchanges st)) /\
     backlogs st1 = backlogs st /\ outgoing_requests st1 = outgoing_requests st /\
     ((is_refusing st (m_remote m) = false /\ st' = st1 /\ o = [OSend (now st) m]) \/
      (is_refusing st (m_remote m) = true /\ mm_dispatch_error st1 (m_remote m) = (st', oe) /\ o = oe)))
    \/
    (h_counter h = MAX_RETRANSMIT (m_tuning m) /\ o = gave_up_outputs st (m_remote m) /\
     active_exchanges st' = xdel k (active_exchanges st) /\ backlogs st' = qdel (m_remote m) (backlogs st) /\
     outgoing_requests st' = filter (fun q => negb (snd q =? m_remote m)) (outgoing_requests st)) ).
Proof.
  intros seen st e1 h st' o S Hin Hh H m k.
  pose proof (s_ex _ _ S) as Hex. rewrite Forall_forall in Hex. pose proof (Hex _ Hin) as Hok1.
  destruct e1 as [k1 [mon1 h1]]. unfold e_timer in Hh. cbn in Hh. subst h1.
  assert (k1 = k /\ mon1 = m_rid m) as [-> ->] by (destruct Hok1 as (A & B & _); cbn in A, B; split; [exact A|exact B]).
  assert (X : xget k (active_exchanges st) = Some (m_rid m, h)) by (apply xget_of_in; auto; apply (s_ex_nodup _ _ S)).
  destruct (pop_facts seen st k (m_rid m) h S X) as (_ & Hok & _ & _ & [q Q] & Hrest & Hbr & Hnd & Hcnt).
  unfold entry_ok in Hok. cbn [e_timer fst snd] in Hok. fold m in Hok. destruct Hok as (_ & _ & Hwf & Hc & Hnow & Hto & Hseen).
  unfold _retransmit in H. fold m k in H. rewrite X in H. cbn [fst] in Q, Hrest.
  pose proof (s_bl _ _ S) as Hbl. rewrite Forall_forall in Hbl.
  destruct (h_counter h <? MAX_RETRANSMIT (m_tuning m)) eqn:Hlt.
  - unfold _schedule_retransmit in H. proj.
    set (h2 := {| h_due := now st + h_timeout h * 2; h_seq := next_seq st; h_message := m; h_timeout := h_timeout h * 2; h_counter := h_counter h + 1 |}) in *.
    match type of H with _send_via_transport ?s _ = _ => set (st1 := s) in * end.
    assert (S1 : Struct seen st1); [|
      assert (Hir : is_refusing st1 (m_remote m) = is_refusing st (m_remote m)) by reflexivity;
      destruct (send_via_cases _ _ _ _ H) as [(Hr & -> & ->)|(Hr & D)]; rewrite Hir in Hr;
      [ splits; auto; [intros t e Hi; cbn in Hi; destruct Hi as [Hi|Hi]; [discriminate|tauto] | left; split; [lia|]; exists st1, []; splits; auto]
      | destruct (error_struct _ _ _ _ _ S1 D) as (S2 & Hne & En2 & _); splits; auto; left; split; [lia|]; exists st1, o; splits; auto ] ].
    unfold st1. constructor; proj.
    + apply Forall_forall. intros e He. apply in_xset in He. destruct He as [->|[He _]].
      * unfold entry_ok. cbn. splits; auto; lia.
      * apply Hrest in He. destruct He as [He _]. apply (Hex e He).
    + unfold xset. cbn [map]. constructor; [|apply nodup_map_filter; auto].
      intros Hi. apply in_map_iff in Hi. destruct Hi as [e [He1 He2]]. apply in_xdel in He2. destruct He2 as [He2 _]. apply Hrest in He2. cbn in He1. tauto.
    + apply Forall_forall. intros b Hb. apply (Hbl b Hb).
    + apply (s_bl_nodup _ _ S).
    + unfold live_rids. proj. unfold xset. rewrite xdel_idem. apply (NoDup_count_occ Z.eq_dec). intros x. specialize (Hcnt x).
      change (map e_rid ((k, (m_rid m, h2)) :: xdel k (active_exchanges st))) with ([m_rid m] ++ map e_rid (xdel k (active_exchanges st))).
      rewrite !count_occ_app. lia.
    + intros r'. transitivity (in_backlogs st r'); [reflexivity|]. rewrite (s_nstart _ _ S). apply bool_eq_iff. rewrite !has_exchange_iff. proj.
      split; intros [e [He1 He2]].
      * destruct (key_eqb (fst e) k) eqn:Ek.
        -- exists (k, (m_rid m, h2)). split; [apply in_xset; auto|]. apply key_eqb_true in Ek. unfold e_remote in *. rewrite <- Ek. exact He2.
        -- exists e. split; auto. apply in_xset. right. apply key_eqb_false in Ek. split; auto. apply in_xdel. auto.
      * apply in_xset in He1. destruct He1 as [->|[He1 _]].
        -- exists (k, (m_rid m, h)). split; auto.
        -- apply Hrest in He1. exists e. tauto.
    + apply (s_rng _ _ S).
  - assert (Q' : qget (m_remote m) (backlogs st) = Some q) by exact Q. proj. rewrite Q' in H. unfold tm_dispatch_error in H. inv H. proj. splits; auto.
    2:{ intros t e Hi. apply in_map_iff in Hi. destruct Hi as [x [Hx _]]. discriminate. }
    2:{ right. splits; auto. lia. }
    constructor; proj.
    + apply Forall_forall. intros e He. destruct (Hrest e He) as (He1 & He2 & He3). eapply entry_ok_frame2; [|apply Hex; exact He1]; cbn; lia.
    + auto.
    + apply Forall_forall. intros b Hb. apply in_qdel in Hb. destruct Hb as [Hb Hne]. pose proof (Hbl b Hb) as Hokb.
      unfold back_ok in *. eapply Forall_impl; [|exact Hokb]. intros p Hp. unfold bmsg_ok in *. decompose [and] Hp. splits; auto.
    + apply nodup_qdel. apply (s_bl_nodup _ _ S).
    + unfold live_rids. proj. apply (NoDup_count_occ Z.eq_dec). intros x. specialize (Hcnt x). rewrite count_occ_app.
      pose proof (cnt_qdel_le (backlogs st) (m_remote m) x). lia.
    + intros r'. destruct (Z.eq_dec r' (m_remote m)) as [->|Hne].
      * transitivity false; [|symmetry; apply has_exchange_false_l; proj; intros e He; apply Hrest in He; tauto].
        unfold in_backlogs. proj. rewrite qget_qdel_same. reflexivity.
      * transitivity (in_backlogs st r'); [unfold in_backlogs; proj; rewrite qget_qdel_other; auto|].
        rewrite (s_nstart _ _ S). apply bool_eq_iff. rewrite !has_exchange_iff. proj. split; intros [e [He1 He2]]; exists e; split; auto.
        -- apply in_xdel. split; auto. intros Hk'. apply Hne. rewrite <- He2. unfold e_remote. rewrite Hk'. reflexivity.
        -- apply Hrest in He1. tauto.
    + apply (s_rng _ _ S).
Qed.

Lemma next_timer_facts : forall st h, next_timer st = Some h ->
  exists e, In e (active_exchanges st) /\ e_timer e = h /\ forall e', In e' (active_exchanges st) -> h_due h <= h_due (e_timer e').
Proof.
  intros st h H. unfold next_timer in H. destruct (min_timer_in _ _ H) as [e [He1 He2]]. exists e. splits; auto.
  intros e' He'. eapply min_timer_le; eauto.
Qed.

Lemma struct_outgoing : forall seen st o, Struct seen st -> Struct seen (set_outgoing st o).
Proof. intros. apply (struct_frame seen st); auto; try reflexivity; try (cbn; lia). Qed.

(* a response datagram: the piggy-backed ACK acts like an ACK; the token manager then forgets the answered request ([st2]); a
   CON response is answered by an empty ACK / RST, which a refusing transport turns into dispatch_error for that remote *)
Lemma response_shape : forall seen st r ty mid rid st' o, Struct seen st -> dispatch_response st r ty mid rid = (st', o) ->
  exists st1 o1 st2 o2 o3, (if ty =? 0 then _remove_exchange st r mid false else (st, [])) = (st1, o1) /\ o = o1 ++ o2 ++ o3 /\
    Struct seen st1 /\ no_error o1 /\ Struct seen st2 /\
    now st2 = now st1 /\ active_exchanges st2 = active_exchanges st1 /\ backlogs st2 = backlogs st1 /\
    incl (outgoing_requests st2) (outgoing_requests st1) /\
    (forall p, In p (outgoing_requests st1) -> fst p <> rid -> In p (outgoing_requests st2)) /\
    (o2 = [] \/ o2 = [OResult (now st1) rid]) /\
    ((st' = st2 /\ (o3 = [] \/ exists b, o3 = [OEmpty (now st1) b r mid])) \/
     (is_refusing st2 r = true /\ mm_dispatch_error st2 r = (st', o3))).
Proof.
  intros seen st r ty mid rid st' o S H. unfold dispatch_response in H.
  destruct (if ty =? 0 then _remove_exchange st r mid false else (st, [])) as [st1 o1] eqn:E1.
  assert (S1 : Struct seen st1 /\ no_error o1).
  { destruct (ty =? 0); [eapply step_recv_struct; eauto|]. inv E1. split; auto. apply no_error_nil. }
  destruct S1 as [S1 Hn1].
  destruct (tm_process_response st1 rid r) as [[success st2] o2] eqn:P.
  assert (P' : Struct seen st2 /\ now st2 = now st1 /\ active_exchanges st2 = active_exchanges st1 /\ backlogs st2 = backlogs st1 /\
               incl (outgoing_requests st2) (outgoing_requests st1) /\
               (forall p, In p (outgoing_requests st1) -> fst p <> rid -> In p (outgoing_requests st2)) /\
               (o2 = [] \/ o2 = [OResult (now st1) rid])).
  { unfold tm_process_response in P. destruct (existsb _ (outgoing_requests st1)); inv P; splits; auto; try (apply struct_outgoing; auto); proj.
    - intros p Hp. apply filter_In in Hp. tauto.
    - intros p Hp Hf. apply filter_In. split; auto. apply negb_true_iff. apply Z.eqb_neq. exact Hf.
    - intros p Hp. exact Hp. }
  destruct P' as (S2 & En & Ex & Eb & Hinc & Hkeep & Ho2).
  destruct (if ty =? 1 then if success then send_empty st2 false r mid else send_empty st2 true r mid else (st2, [])) as [st3 o3] eqn:E3.
  inv H. exists st1, o1, st2, o2, o3. splits; auto.
  destruct (ty =? 1); [|inv E3; left; auto].
  unfold send_empty in E3. destruct (is_refusing st2 r) eqn:IR.
  - right. destruct success; auto.
  - left. rewrite <- En. destruct success; inv E3; split; auto; right; eexists; reflexivity.
Qed.

Lemma step_struct : forall seen st e st' o, Struct seen st -> wf_event seen e -> step st e = (st', o) ->
  Struct (seen_after seen e) st' /\ no_error o.
Proof.
  intros seen st e st' o S W H. destruct e as [rid r tn|r b mid|t| | |r|rid|r ty mid rid|r on]; cbn [step seen_after] in *.
  - destruct W as [W1 W2]. eapply step_request_struct; eauto.
  - eapply step_recv_struct; eauto.
  - inv H. split; [|apply no_error_nil]. destruct (next_timer st) as [h|] eqn:N.
    + destruct (next_timer_facts _ _ N) as (e & He1 & He2 & Hmin). apply struct_set_now; auto. intros e' He'. specialize (Hmin e' He'). lia.
    + apply struct_set_now; auto. unfold next_timer in N. apply min_timer_none in N. rewrite N. intros e' [].
  - destruct (next_timer st) as [h|] eqn:N; [|inv H; split; auto; apply no_error_nil].
    destruct (next_timer_facts _ _ N) as (e & He1 & He2 & Hmin).
    assert (S1 : Struct seen (set_now st (Z.max (now st) (h_due h)))) by (apply struct_set_now; auto).
    eapply retransmit_struct in H; eauto. destruct H as (S' & Hne & _). auto.
  - destruct (next_timer st) as [h|] eqn:N; [|inv H; split; auto; apply no_error_nil].
    destruct (h_due h <=? now st); [|inv H; split; auto; apply no_error_nil].
    destruct (next_timer_facts _ _ N) as (e & He1 & He2 & Hmin).
    eapply retransmit_struct in H; eauto. destruct H as (S' & Hne & _). auto.
  - destruct (error_struct _ _ _ _ _ S H) as (S' & Hn & _). auto.
  - inv H. split; [apply struct_outgoing; auto|apply no_error_nil].
  - destruct (response_shape _ _ _ _ _ _ _ _ S H) as (st1 & o1 & st2 & o2 & o3 & E1 & -> & S1 & Hn1 & S2 & _ & _ & _ & _ & _ & Ho2 & Hc).
    assert (Hn2 : no_error o2) by (destruct Ho2 as [->| ->]; intros t e Hi; cbn in Hi; intuition discriminate).
    destruct Hc as [(-> & Ho3)|(_ & D)].
    + split; auto. apply no_error_app; auto. apply no_error_app; auto.
      destruct Ho3 as [->|[b ->]]; intros t e Hi; cbn in Hi; intuition discriminate.
    + destruct (error_struct _ _ _ _ _ S2 D) as (S3 & Hn3 & _). split; auto. apply no_error_app; auto. apply no_error_app; auto.
  - inv H. split; [|apply no_error_nil]. destruct S. constructor; auto.
Qed.

Lemma struct_init : forall mid0 draws, Forall (fun n => 0 <= n <= RNG_DEN) draws -> Struct [] (init mid0 draws).
Proof.
  intros. constructor; cbn; auto; try constructor.
Qed.
