(* C19, round 6 — history-level block-wise read: any sequence of Block2 requests (first request without a Block2 option,
   size exponent changing from block to block, M flag of the request arbitrary) whose blocks tile the file reassembles
   exactly the file; corollaries that make hypotheses derivable from the initial state. *)
From Verif Require Import Lib.Py Lib.PyLemmas Lib.Tactics Model.C19Path Gen.fileserver Model.C19 Proofs.C19Path Proofs.C19.
Open Scope Z_scope.

(* the block a Block2 option (or its absence) asks for: fileserver.py:286-288, default (0, 0, 6) *)
Definition blk_of (b : option (Z * bool * Z)) : Z * Z := match b with Some (n, _, szx) => (n, szx) | None => (0, 6) end.

(* blocks that tile the content from the first block's start to the end: each next block starts where the previous one
   ended, every block but the last has more bytes after it *)
Inductive tiling (c : list Z) : list (Z * Z) -> Prop :=
| tile_last n szx : 0 <= n -> 0 <= szx -> block_more c n szx = false -> tiling c [(n, szx)]
| tile_more n szx n' szx' rest : 0 <= n -> 0 <= szx -> block_more c n szx = true ->
    blk_start n' szx' = blk_start n szx + blk_size szx -> tiling c ((n', szx') :: rest) -> tiling c ((n, szx) :: (n', szx') :: rest).

Lemma bfrom_add (c : list Z) s k : 0 <= s -> 0 <= k -> bfrom c (s + k) = bfrom (bfrom c s) k.
Proof. intros Hs Hk. unfold bfrom. rewrite skipn_skipn_add. f_equal. rewrite <- Z2Nat.inj_add by lia. reflexivity. Qed.
Lemma blk_start_nonneg n szx : 0 <= n -> 0 <= szx -> 0 <= blk_start n szx.
Proof. intros Hn Hs. pose proof (blk_size_pos szx Hs). unfold blk_start. nia. Qed.
Lemma block_split_at c n szx : 0 <= n -> 0 <= szx ->
  bfrom c (blk_start n szx) = block_payload c n szx ++ bfrom c (blk_start n szx + blk_size szx).
Proof. intros Hn Hs. pose proof (blk_size_pos szx Hs). rewrite block_payload_spec by assumption.
  rewrite bfrom_add by (try apply blk_start_nonneg; lia). symmetry. apply firstn_skipn. Qed.

Section Tiling.
  Variable self : fileserver.
  Variable req : request.
  Variable p : list (list Z).
  Variable c : list Z.
  Hypothesis Hcode : code req = 1.
  Hypothesis Hobs : opt_observe req = None.
  Hypothesis Hetags : existsb is_cur (opt_etags req) = false.
  Hypothesis Hnba : needs_blockwise_assembly req = false.
  Hypothesis Hpath : request_to_localpath self req = Ok p.

  Lemma Hwkc : parts_eqb (opt_uri_path req) WKC = false.
  Proof. unfold needs_blockwise_assembly in Hnba. apply orb_false_elim in Hnba as [_ H]. exact H. Qed.

  (* one request with ANY Block2 option value (or none): the answer is the block the option designates *)
  Lemma serve_block_any b st : fs_stat (st_fs st) (load_parts p) = inr (NFile c) ->
    exists st1 effs, serve self (with_block2 req b) st = (st1, effs, block_response self req c (fst (blk_of b)) (snd (blk_of b)))
                     /\ st_fs st1 = st_fs st.
  Proof.
    intros Hst.
    assert (exists st1, out (render_to_pipe self (with_block2 req b)) st = (st1, inr (block_response self req c (fst (blk_of b)) (snd (blk_of b)))) /\ st_fs st1 = st_fs st) as [st1 [H1 H2]].
    { unfold render_to_pipe. cbn [opt_observe with_block2]. rewrite Hobs.
      change (needs_blockwise_assembly (with_block2 req b)) with (needs_blockwise_assembly req). rewrite Hnba.
      unfold render. cbn [code with_block2]. rewrite Hcode. cbn [Z.eqb Pos.eqb].
      unfold render_get. cbn [opt_uri_path with_block2]. rewrite Hwkc.
      assert (request_to_localpath self (with_block2 req b) = Ok p) as -> by exact Hpath.
      rewrite out_bind. unfold lift_path. rewrite out_ret, out_bind, out_stat, Hst. cbv beta iota.
      cbn [opt_etags with_block2]. rewrite Hetags, andb_false_r.
      rewrite out_bind. unfold render_get_file. cbn [opt_uri_path with_block2 opt_block2]. rewrite (Hlast req Hnba).
      destruct b as [[[n m] szx]|]; cbn [blk_of fst snd].
      - rewrite out_bind, out_open_read. unfold fs_read. rewrite Hst. cbv beta iota.
        rewrite out_bind. destruct (out_obs_stat (load_parts p) st) as [st1 [Ho Hs]]. rewrite Ho. cbv beta iota.
        rewrite out_ret, out_ret. exists st1. split; [|exact Hs]. unfold block_response, block_payload, block_more. rewrite !read_at_spec. cbn [rbody rcode]. reflexivity.
      - rewrite out_bind, out_open_read. unfold fs_read. rewrite Hst. cbv beta iota.
        rewrite out_bind. destruct (out_obs_stat (load_parts p) st) as [st1 [Ho Hs]]. rewrite Ho. cbv beta iota.
        rewrite out_ret, out_ret. exists st1. split; [|exact Hs]. unfold block_response, block_payload, block_more. rewrite !read_at_spec. cbn [rbody rcode]. reflexivity. }
    unfold serve. unfold out in H1. destruct (render_to_pipe self (with_block2 req b) st) as [[st' effs] r].
    cbn [fst snd] in H1. injection H1 as -> ->. exists st1, effs. split; [reflexivity|exact H2]. Qed.

  Definition payloads (outs : list (list (list effect * response))) : list Z :=
    concat (map (fun g => concat (map (fun o => payload_of (snd o)) g)) outs).
  Definition all_content (outs : list (list (list effect * response))) : Prop :=
    Forall (fun g => Forall (fun o => rcode (snd o) = 69) g) outs.

  (* THE history-level statement, over the model's real run function *)
  Lemma run_tiling bs : tiling c (map blk_of bs) -> forall st,
    fs_stat (st_fs st) (load_parts p) = inr (NFile c) ->
    match run self st (map (fun b => IOne (with_block2 req b)) bs) with
    | (st', outs) => payloads outs = bfrom c (blk_start (fst (hd (0, 0) (map blk_of bs))) (snd (hd (0, 0) (map blk_of bs))))
                     /\ all_content outs /\ st_fs st' = st_fs st
    end.
  Proof.
    remember (map blk_of bs) as bl eqn:Ebl. intros Ht. revert bs Ebl.
    induction Ht as [n szx Hn Hs Hm | n szx n' szx' rest Hn Hs Hm Hnext Ht IH]; intros bs Ebl st Hst.
    - destruct bs as [|b [|b' r]]; try discriminate. cbn [map] in Ebl. injection Ebl as Eb.
      cbn [map run step]. destruct (serve_block_any b st Hst) as [st1 [effs [Hsv H1]]]. rewrite Hsv, <- Eb. cbn [fst snd hd].
      unfold payloads, all_content. cbn. rewrite !app_nil_r. split; [apply block_last; assumption|]. split; [repeat constructor|exact H1].
    - destruct bs as [|b r]; [discriminate|]. cbn [map] in Ebl. injection Ebl as Eb Er.
      cbn [map run step]. destruct (serve_block_any b st Hst) as [st1 [effs [Hsv H1]]]. rewrite Hsv, <- Eb. cbn [fst snd hd].
      assert (fs_stat (st_fs st1) (load_parts p) = inr (NFile c)) as Hst1 by (rewrite H1; exact Hst).
      specialize (IH r Er st1 Hst1). change (map (fun b0 => IOne (with_block2 req b0)) r) with (map (fun b0 => IOne (with_block2 req b0)) r) in IH.
      destruct (run self st1 (map (fun b0 => IOne (with_block2 req b0)) r)) as [st2 os]. destruct IH as [I1 [I2 I3]].
      cbn [hd fst snd] in I1.
      split; [|split; [constructor; [repeat constructor|exact I2]|congruence]].
      unfold payloads in *. cbn [map concat]. cbn [payload_of snd block_response rbody]. rewrite app_nil_r. rewrite I1, Hnext.
      symmetry. apply block_split_at; assumption.
  Qed.
End Tiling.

Lemma blk_start_succ n szx : blk_start (n + 1) szx = blk_start n szx + blk_size szx.
Proof. unfold blk_start. lia. Qed.

(* ------------------------------------------------------------------ the model's internal error XValueError is unreachable *)
(* render_get_dir raises ValueError (-> 5.00) when an entry of the listed directory is not below the root
   (Path.relative_to).  Under root_ok that never happens: the branch is dead code of the model and of the implementation. *)
Definition noval {A} (m : FM A) : Prop := forall st, snd (m st) <> inl XValueError.
Lemma noval_ret {A} (a : A) : noval (ret a). Proof. intros st. cbn. discriminate. Qed.
Lemma noval_raise {A} e : e <> XValueError -> noval (@raise A e). Proof. intros H st. cbn. congruence. Qed.
Lemma noval_bind {A B} (m : FM A) (f : A -> FM B) : noval m -> (forall a, noval (f a)) -> noval (bindF m f).
Proof. intros Hm Hf st. unfold bindF. specialize (Hm st). destruct (m st) as [[st1 e1] [x|a]]; [cbn in *; intros H; apply Hm; congruence|].
  specialize (Hf a st1). destruct (f a st1) as [[st2 e2] r]. exact Hf. Qed.
Lemma noval_prim {A B} (m : FM (A + B)) : (forall st, exists r, snd (m st) = inr r) -> noval m.
Proof. intros H st. destruct (H st) as [r ->]. discriminate. Qed.

Lemma stat_children_entries p names : forall st,
  exists st' effs entries, stat_children p names st = ((st', effs), inr entries) /\ map fst entries = map (fun n => parts p ++ [n]) names.
Proof. induction names as [|n r IH]; intros st; cbn [stat_children].
  - exists st, [], []. split; reflexivity.
  - unfold bindF at 1. unfold stat at 1. destruct (IH st) as [st' [effs [entries [E1 E2]]]].
    unfold bindF. rewrite E1. cbn. eexists _, _, _. split; [reflexivity|]. cbn [map fst]. rewrite E2. reflexivity. Qed.
Lemma rels_all_some rp rest (entries : list (list (list Z) * bool)) names :
  map fst entries = map (fun n => (rp ++ rest) ++ [n]) names ->
  forallb (fun x : option (list (list Z) * bool) => match x with Some _ => true | None => false end)
          (map (fun e => match strip_prefix rp (fst e) with Some rel => Some (rel, snd e) | None => None end) entries) = true.
Proof. revert names; induction entries as [|e es IH]; intros names H; [reflexivity|].
  destruct names as [|n ns]; [discriminate|]. cbn [map] in H. injection H as H1 H2. cbn [map forallb].
  rewrite H1, <- !app_assoc, strip_prefix_app. cbn [andb]. exact (IH ns H2). Qed.

Section NoValueError.
  Variable self : fileserver.
  Hypothesis Hroot : root_ok (fs_root self).
  Let rootp := load_parts (fs_root self).
  Lemma noval_render_get_dir req p rest : parts p = parts rootp ++ rest -> noval (render_get_dir self req p).
  Proof. intros Hp. unfold render_get_dir. destruct (_ && _); [apply noval_raise; discriminate|].
    intros st. unfold bindF at 1. unfold listdir at 1. destruct (fs_listdir (st_fs st) p) as [e|names]; [cbn; discriminate|].
    unfold bindF. destruct (stat_children_entries p names st) as [st' [effs [entries [E1 E2]]]]. rewrite E1.
    fold rootp. rewrite Hp in E2. rewrite (rels_all_some _ _ _ _ E2). cbn. discriminate. Qed.
  Lemma noval_lift req (f : ppath -> FM response) :
    (forall path, request_to_localpath self req = Ok path -> noval (f (load_parts path))) -> noval (bindF (lift_path (request_to_localpath self req)) f).
  Proof. intros H st. unfold bindF, lift_path. destruct (request_to_localpath self req) as [path|e] eqn:E; cbn; [|discriminate].
    specialize (H path eq_refl st). destruct (f (load_parts path) st) as [[st2 e2] r]. exact H. Qed.
  Lemma noval_render_get_file req p : noval (render_get_file self req p).
  Proof. unfold render_get_file. destruct (_ && _); [apply noval_raise; discriminate|].
    destruct (match opt_block2 req with Some b => b | None => (0, false, 6) end) as [[num m] szx].
    apply noval_bind; [apply noval_prim; intros st; eexists; reflexivity|]. intros [e|content]; [apply noval_raise; discriminate|].
    apply noval_bind; [|intros; apply noval_ret]. intros st. unfold obs_stat. destruct (obs_find (st_obs st) p) as [[|]|]; cbn; discriminate. Qed.
  Lemma noval_render_get req : noval (render_get self req).
  Proof. unfold render_get. destruct (parts_eqb _ _); [apply noval_ret|]. apply noval_lift. intros path Hpath.
    destruct (request_to_localpath_confined _ _ _ Hroot Hpath) as [Hp _].
    apply noval_bind; [apply noval_prim; intros st; eexists; reflexivity|]. intros [[]|n]; try (apply noval_raise; discriminate).
    destruct (_ && _); [apply noval_ret|]. destruct n.
    - apply noval_bind; [apply noval_render_get_file|intros; apply noval_ret].
    - apply noval_bind; [|intros; apply noval_ret]. eapply noval_render_get_dir. rewrite Hp. reflexivity. Qed.
  Lemma noval_check_if_match req p x : x <> XValueError -> noval (check_if_match self req p x).
  Proof. intros Hx. unfold check_if_match. destruct (_ && _); [|apply noval_ret].
    apply noval_bind; [apply noval_prim; intros st; eexists; reflexivity|]. intros [[]|n]; try (apply noval_raise; first [exact Hx|discriminate]).
    destruct (_ && _); [apply noval_ret|apply noval_raise; discriminate]. Qed.
  Lemma noval_create shown p c : noval (create shown p c).
  Proof. apply noval_prim. intros st. unfold create. destruct (fs_create (st_fs st) p c); eexists; reflexivity. Qed.
  Lemma noval_rename shown a b : noval (rename shown a b).
  Proof. apply noval_prim. intros st. unfold rename. destruct (fs_rename (st_fs st) a b); eexists; reflexivity. Qed.
  Lemma noval_unlink shown p : noval (unlink shown p).
  Proof. apply noval_prim. intros st. unfold unlink. destruct (fs_unlink (st_fs st) p); eexists; reflexivity. Qed.
  Lemma noval_store_file req p : noval (store_file self req p).
  Proof. unfold store_file. apply noval_bind; [apply noval_prim; intros st; eexists; reflexivity|]. intros [e|[]]; [apply noval_raise; discriminate|].
    apply noval_bind; [apply noval_create|]. intros [e|[]]; [apply noval_raise; discriminate|].
    apply noval_bind; [destruct (_ && _); [apply noval_ret|apply noval_rename]|]. intros [e|[]].
    - apply noval_bind; [apply noval_unlink|intros; apply noval_raise; discriminate].
    - apply noval_bind; [apply noval_prim; intros st; eexists; reflexivity|]. intros [e|n]; [apply noval_raise; discriminate|apply noval_ret]. Qed.
  Lemma noval_render_put req : noval (render_put self req).
  Proof. unfold render_put. destruct (negb _); [apply noval_ret|]. destruct (_ || _); [apply noval_ret|].
    apply noval_lift. intros path _. apply noval_bind; [|intros; apply noval_store_file].
    unfold put_preconditions. apply noval_bind; [|intros; apply noval_check_if_match; discriminate].
    destruct (opt_if_none_match req); [|apply noval_ret].
    apply noval_bind; [apply noval_prim; intros st; eexists; reflexivity|]. intros [[]|n]; first [apply noval_ret|apply noval_raise; discriminate]. Qed.
  Lemma noval_render_delete req : noval (render_delete self req).
  Proof. unfold render_delete. destruct (negb _); [apply noval_ret|]. destruct (_ || _); [apply noval_ret|].
    apply noval_lift. intros path _. apply noval_bind; [apply noval_check_if_match; discriminate|]. intros _.
    apply noval_bind; [apply noval_unlink|]. intros [[]|[]]; first [apply noval_ret|apply noval_raise; discriminate]. Qed.
  Lemma noval_render req : noval (render self req).
  Proof. unfold render. destruct (_ =? 1); [apply noval_render_get|]. destruct (_ =? 3); [apply noval_render_put|].
    destruct (_ =? 4); [apply noval_render_delete|apply noval_raise; discriminate]. Qed.
  Lemma noval_feed req : noval (feed_and_take req).
  Proof. intros st. unfold feed_and_take. destruct (opt_block1 req) as [[[num more] szx]|]; [|cbn; discriminate].
    destruct (num =? 0); [destruct more; cbn; discriminate|].
    destruct (spool_find (st_spool st) (block_key req)) as [acc|]; [|cbn; discriminate].
    destruct (block1_invalid more szx (payload req)); [cbn; discriminate|]. destruct (blk_start num szx =? blen acc); [|cbn; discriminate].
    destruct more; cbn; discriminate. Qed.
  (* no request ever makes the server raise the ValueError of Path.relative_to *)
  Lemma render_to_pipe_no_value_error req : noval (render_to_pipe self req).
  Proof. unfold render_to_pipe.
    assert (noval (if needs_blockwise_assembly req then (req' <-- feed_and_take req ;;; render self req') else render self req)) as Hn
      by (destruct (needs_blockwise_assembly req); [apply noval_bind; [apply noval_feed|intros; apply noval_render]|apply noval_render]).
    destruct (opt_observe req) as [[|?|?]|]; try exact Hn.
    apply noval_bind; [|intros; apply noval_render]. unfold add_observation.
    intros st. unfold bindF, lift_path. destruct (request_to_localpath self req); cbn; [|discriminate].
    unfold obs_register. destruct (obs_find _ _); cbn; discriminate. Qed.
End NoValueError.
