(* C04 — second pass over Model/C04.v: the reply remembered for a key is an ACK (never an RST) as long as the
   peer does not reuse the live message ID for a non-request confirmable message (ping / unmatched CON response).
   Relation [AO P k s s']: the method appends outputs among which (under P) every ACK/RST sent under key k is an ACK,
   and it keeps the backlog free of anything but CONs. *)
From Verif Require Import Lib.Py Lib.Tactics Model.C04 Proofs.C04.
Import ListNotations.
Open Scope Z_scope.

Definition okout (k : Z * Z) (o : output) : Prop := forall r w, reply_of k o = Some (r, w) -> w_type w = ACK.
Definition okw (k : Z * Z) (r : Z) (w : wire) : Prop :=
  (r =? fst k) && (w_mid w =? snd k) && is_ackrst (w_type w) = true -> w_type w = ACK.
Definition CONs (b : list wire) : Prop := Forall (fun w => w_type w = CON) b.
Definition BOKl (l : list (Z * list wire)) : Prop := Forall (fun b => CONs (snd b)) l.
Definition BOK (s : st) : Prop := BOKl (backlogs s).

Record AO (P : Prop) (k : Z * Z) (s s' : st) : Prop := {
  ao_bok : BOK s -> BOK s';
  ao_outs : exists new, outs s' = outs s ++ new /\ (P -> Forall (okout k) new) }.

Lemma AO_refl (P : Prop) k s : AO P k s s.
Proof. split; auto. exists []. rewrite app_nil_r. split; auto. Qed.
Lemma AO_trans (P : Prop) k s1 s2 s3 : AO P k s1 s2 -> AO P k s2 s3 -> AO P k s1 s3.
Proof.
  intros [B1 (n1 & O1 & K1)] [B2 (n2 & O2 & K2)]. split; auto.
  exists (n1 ++ n2). rewrite O2, O1, app_assoc. split; auto. intros HP. apply Forall_app; auto.
Qed.
Lemma AO_frame (P : Prop) k s s' : outs s' = outs s -> backlogs s' = backlogs s -> AO P k s s'.
Proof.
  intros O B. split; [unfold BOK; rewrite B; auto|]. exists []. rewrite app_nil_r. split; auto.
Qed.
Ltac aframe := apply AO_frame; reflexivity.

Lemma ao_set_tseq (P : Prop) k v s : AO P k s (set_tseq v s). Proof. aframe. Qed.
Lemma ao_set_message_id (P : Prop) k v s : AO P k s (set_message_id v s). Proof. aframe. Qed.
Lemma ao_set_exchanges (P : Prop) k v s : AO P k s (set_exchanges v s). Proof. aframe. Qed.
Lemma ao_set_piggy (P : Prop) k v s : AO P k s (set_piggy v s). Proof. aframe. Qed.
Lemma ao_set_incoming (P : Prop) k v s : AO P k s (set_incoming v s). Proof. aframe. Qed.
Lemma ao_set_waiting (P : Prop) k v s : AO P k s (set_waiting v s). Proof. aframe. Qed.
Lemma ao_set_next_sid (P : Prop) k v s : AO P k s (set_next_sid v s). Proof. aframe. Qed.
Lemma ao_set_now (P : Prop) k v s : AO P k s (set_now v s). Proof. aframe. Qed.
Lemma ao_cancel (P : Prop) k h s : AO P k s (cancel h s). Proof. aframe. Qed.
Lemma ao_call_later (P : Prop) k d t s : AO P k s (fst (call_later d t s)). Proof. aframe. Qed.
Lemma ao_set_backlogs (P : Prop) k v s : (BOK s -> BOKl v) -> AO P k s (set_backlogs v s).
Proof. intros H. split; [exact H|]. exists []. simpl. rewrite app_nil_r. split; auto. Qed.

Lemma BOKl_aget l r b : BOKl l -> aget Z.eqb r l = Some b -> CONs b.
Proof.
  induction l as [|[r' b'] l IH]; simpl; intros H G; [discriminate|].
  inversion H; subst. destruct (r =? r'); [inversion G; subst; assumption | apply IH; assumption].
Qed.
Lemma BOKl_aremove l r : BOKl l -> BOKl (aremove Z.eqb r l).
Proof.
  induction l as [|[r' b'] l IH]; simpl; intros H; [constructor|].
  inversion H; subst. destruct (r =? r'); [apply IH; assumption | constructor; [assumption | apply IH; assumption]].
Qed.
Lemma BOKl_areplace l r b : BOKl l -> CONs b -> BOKl (areplace Z.eqb r b l).
Proof.
  induction l as [|[r' b'] l IH]; simpl; intros H Hb; [constructor|].
  inversion H; subst. destruct (r =? r'); constructor; try assumption. apply IH; assumption.
Qed.
Lemma BOKl_aset l r b : BOKl l -> CONs b -> BOKl (aset Z.eqb r b l).
Proof.
  intros H Hb. unfold aset. destruct (aget Z.eqb r l); [apply BOKl_areplace; auto|].
  apply Forall_app; split; [exact H | constructor; [exact Hb | constructor]].
Qed.

Lemma okout_exn k t e : okout k (Exn t e). Proof. intros r w H; discriminate. Qed.
Lemma okout_refused k t r0 : okout k (Refused t r0). Proof. intros r w H; discriminate. Qed.
Lemma okout_start k t sid r mid tok : okout k (Start t sid r mid tok). Proof. intros r' w H; discriminate. Qed.
Lemma okout_send k t r w : okw k r w -> okout k (Send t r w).
Proof.
  intros H r' w' E. simpl in E.
  destruct ((r =? fst k) && (w_mid w =? snd k) && is_ackrst (w_type w)) eqn:C; [|discriminate].
  inversion E; subst. apply H; exact C.
Qed.
Lemma okw_not_ackrst k r w : is_ackrst (w_type w) = false -> okw k r w.
Proof. intros H C. rewrite H, andb_false_r in C. discriminate. Qed.
Lemma okw_ack k r w : w_type w = ACK -> okw k r w.
Proof. intros H _. exact H. Qed.

Lemma ao_emit (P : Prop) k o s : (P -> okout k o) -> AO P k s (emit o s).
Proof. intros H. split; auto. exists [o]. split; [reflexivity|]. intros HP. constructor; auto. Qed.
Lemma ao_emit_exn (P : Prop) k t e s : AO P k s (emit (Exn t e) s).
Proof. apply ao_emit. intros _. apply okout_exn. Qed.

Lemma ao_stop_incoming (P : Prop) k ik sid s : AO P k s (stop_incoming ik sid s).
Proof. unfold stop_incoming. eapply AO_trans; [apply ao_set_incoming | apply ao_set_waiting]. Qed.
Lemma ao_fold {A} (P : Prop) k (f : st -> A -> st) l :
  (forall s a, AO P k s (f s a)) -> forall s, AO P k s (fold_left f l s).
Proof.
  intros H. induction l as [|a l IH]; intros s; simpl; [apply AO_refl|].
  eapply AO_trans; [apply H | apply IH].
Qed.
Lemma ao_tm_dispatch_error (P : Prop) k r s : AO P k s (tm_dispatch_error r s).
Proof.
  unfold tm_dispatch_error. apply ao_fold. intros s0 e.
  destruct (snd (fst e) =? r); [apply ao_stop_incoming | apply AO_refl].
Qed.

Lemma ao_set_refused (P : Prop) k v s : AO P k s (set_refused v s). Proof. aframe. Qed.
Lemma ao_mm_dispatch_error (P : Prop) k r s : AO P k s (mm_dispatch_error r s).
Proof.
  unfold mm_dispatch_error. eapply AO_trans; [|apply ao_set_backlogs; intros H; apply BOKl_aremove; exact H].
  eapply AO_trans; [apply ao_tm_dispatch_error|]. apply ao_fold. intros s0 e.
  destruct (fst (fst e) =? r); [|apply AO_refl]. eapply AO_trans; [apply ao_set_exchanges | apply ao_cancel].
Qed.
Lemma ao_refusal (P : Prop) k r s : AO P k s (refusal r s).
Proof.
  unfold refusal. destruct (is_refused r s); [|apply AO_refl].
  eapply AO_trans; [apply ao_emit; intros _; apply okout_refused | apply ao_mm_dispatch_error].
Qed.
Lemma ao_send_via (P : Prop) k r w s : (P -> okw k r w) -> AO P k s (_send_via_transport r w s).
Proof.
  intros H. unfold _send_via_transport. eapply AO_trans; [|apply ao_refusal].
  apply ao_emit. intros HP. apply okout_send. auto.
Qed.
Lemma ao_store (P : Prop) k r w s : AO P k s (_store_response_for_duplicates r w s).
Proof.
  unfold _store_response_for_duplicates. destruct (negb (is_ackrst (w_type w))); [apply AO_refl|].
  destruct (aget key_eqb (r, w_mid w) (recent s)); [aframe | apply AO_refl].
Qed.
Lemma ao_add_exchange (P : Prop) k r w s : AO P k s (_add_exchange r w s).
Proof.
  unfold _add_exchange, _schedule_retransmit.
  set (s1 := match aget Z.eqb r (backlogs s) with None => _ | Some _ => _ end).
  assert (E1 : AO P k s s1).
  { subst s1. destruct (aget Z.eqb r (backlogs s)); [apply AO_refl|].
    apply ao_set_backlogs. intros H. apply BOKl_aset; [exact H | constructor]. }
  destruct (call_later (ack_timeout s1) (TRetransmit r w (ack_timeout s1) 0) s1) as [s2 h] eqn:E.
  eapply AO_trans; [exact E1|]. eapply AO_trans; [|apply ao_set_exchanges].
  replace s2 with (fst (call_later (ack_timeout s1) (TRetransmit r w (ack_timeout s1) 0) s1)) by (rewrite E; reflexivity).
  apply ao_call_later.
Qed.
Lemma ao_send_initially (P : Prop) k r w mon s : (P -> okw k r w) -> AO P k s (_send_initially r w mon s).
Proof.
  intros H. unfold _send_initially.
  assert (SS : forall s0, AO P k s0 (_send_via_transport r w (_store_response_for_duplicates r w s0))).
  { intros s0. eapply AO_trans; [apply ao_store | apply ao_send_via; exact H]. }
  destruct (w_type w); try apply SS.
  destruct mon; simpl; [|apply ao_emit_exn].
  eapply AO_trans; [apply ao_add_exchange | apply SS].
Qed.
Lemma ao_send_empty_ack (P : Prop) k r mid s : AO P k s (_send_empty_ack r mid s).
Proof. apply ao_send_initially. intros _. apply okw_ack. reflexivity. Qed.

Lemma ao_continue_backlog_loop (P : Prop) k fuel r : forall s, BOK s -> AO P k s (_continue_backlog_loop fuel r s).
Proof.
  induction fuel as [|fuel IH]; intros s HB; simpl; [apply AO_refl|].
  destruct (has_exchange_with r s); [apply AO_refl|].
  destruct (aget Z.eqb r (backlogs s)) as [[|w rest]|] eqn:G; [| | apply AO_refl].
  - apply ao_set_backlogs. intros H. apply BOKl_aremove; exact H.
  - pose proof (BOKl_aget _ _ _ HB G) as Hc. inversion Hc as [|? ? Hw Hrest]; subst.
    assert (E : AO P k s (_send_initially r w true (set_backlogs (aset Z.eqb r rest (backlogs s)) s))).
    { eapply AO_trans; [apply ao_set_backlogs; intros H; apply BOKl_aset; [exact H | exact Hrest]|].
      apply ao_send_initially. intros _. apply okw_not_ackrst. rewrite Hw. reflexivity. }
    eapply AO_trans; [exact E | apply IH]. apply (ao_bok _ _ _ _ E HB).
Qed.
Lemma ao_continue_backlog (P : Prop) k r s : BOK s -> AO P k s (_continue_backlog r s).
Proof.
  intros HB. unfold _continue_backlog.
  destruct (aget Z.eqb r (backlogs s)); [apply ao_continue_backlog_loop; exact HB | apply ao_emit_exn].
Qed.
Lemma ao_remove_exchange (P : Prop) k r mid s : BOK s -> AO P k s (_remove_exchange r mid s).
Proof.
  intros HB. unfold _remove_exchange. destruct (aget key_eqb (r, mid) (exchanges s)); [|apply AO_refl].
  assert (E : AO P k s (cancel z (set_exchanges (aremove key_eqb (r, mid) (exchanges s)) s))).
  { eapply AO_trans; [apply ao_set_exchanges | apply ao_cancel]. }
  eapply AO_trans; [exact E | apply ao_continue_backlog]. apply (ao_bok _ _ _ _ E HB).
Qed.

Lemma ao_retransmit (P : Prop) k r w timeout counter s : w_type w = CON -> AO P k s (_retransmit r w timeout counter s).
Proof.
  intros Hc. unfold _retransmit. destruct (aget key_eqb (r, w_mid w) (exchanges s)); [|apply ao_emit_exn].
  set (s1 := cancel _ _).
  assert (E1 : AO P k s s1) by (subst s1; eapply AO_trans; [apply ao_set_exchanges | apply ao_cancel]).
  destruct (counter <? MAX_RETRANSMIT).
  - unfold _schedule_retransmit.
    destruct (call_later (timeout * 2) (TRetransmit r w (timeout * 2) (counter + 1)) s1) as [s2 h] eqn:E.
    eapply AO_trans; [exact E1|].
    eapply AO_trans; [|apply ao_send_via; intros _; apply okw_not_ackrst; rewrite Hc; reflexivity].
    eapply AO_trans; [|apply ao_set_exchanges].
    replace s2 with (fst (call_later (timeout * 2) (TRetransmit r w (timeout * 2) (counter + 1)) s1)) by (rewrite E; reflexivity).
    apply ao_call_later.
  - destruct (aget Z.eqb r (backlogs s1)).
    + eapply AO_trans; [exact E1|]. eapply AO_trans; [|apply ao_tm_dispatch_error].
      apply ao_set_backlogs. intros H. apply BOKl_aremove; exact H.
    + eapply AO_trans; [exact E1 | apply ao_emit_exn].
Qed.

Lemma ao_decide (P : Prop) k m a (plain : mtype -> Z -> wire) s0 :
  (forall t mid, w_type (plain t mid) = t) ->
  AO P k s0
    (let t := match a_rel a with
              | Some true => CON | Some false => NON
              | None => match i_type m with NON => NON | _ => CON end end in
     let '(s, mid) := _next_message_id s0 in
     let w := plain t mid in
     match t, aget Z.eqb (i_remote m) (backlogs s) with
     | CON, Some b => set_backlogs (aset Z.eqb (i_remote m) (b ++ [w]) (backlogs s)) s
     | _, _ => _send_initially (i_remote m) w true s
     end).
Proof.
  intros Hplain. cbv zeta. unfold _next_message_id.
  set (s1 := set_message_id _ s0).
  assert (E1 : AO P k s0 s1) by apply ao_set_message_id.
  assert (Csend : forall t, is_ackrst t = false -> AO P k s0 (_send_initially (i_remote m) (plain t (message_id s0)) true s1)).
  { intros t Ht. eapply AO_trans; [exact E1|]. apply ao_send_initially. intros _. apply okw_not_ackrst. rewrite Hplain. exact Ht. }
  assert (Ccon : AO P k s0 match aget Z.eqb (i_remote m) (backlogs s1) with
                           | Some b => set_backlogs (aset Z.eqb (i_remote m) (b ++ [plain CON (message_id s0)]) (backlogs s1)) s1
                           | None => _send_initially (i_remote m) (plain CON (message_id s0)) true s1 end).
  { destruct (aget Z.eqb (i_remote m) (backlogs s1)) eqn:G; [|apply Csend; reflexivity].
    eapply AO_trans; [exact E1|]. apply ao_set_backlogs. intros H. apply BOKl_aset; [exact H|].
    apply Forall_app; split; [apply (BOKl_aget _ _ _ H G) | constructor; [apply Hplain | constructor]]. }
  destruct (a_rel a) as [[|]|]; [exact Ccon | apply Csend; reflexivity |].
  destruct (i_type m); try exact Ccon. apply Csend; reflexivity.
Qed.

Lemma ao_send_message (P : Prop) k m a s : AO P k s (send_message m a s).
Proof.
  unfold send_message. cbv zeta.
  pose (plain := fun t mid => {| w_type := t; w_code := a_code a; w_mid := mid; w_token := i_token m; w_payload := a_payload a |}).
  assert (D : forall s0, AO P k s0 _) by (intros s0; apply (ao_decide P k m a plain s0); reflexivity).
  destruct (is_response (a_code a)); [|apply D].
  destruct (aget tokkey_eqb (i_remote m, i_token m) (piggy s)) as [[mid h]|].
  - set (s1 := cancel h _).
    assert (E1 : AO P k s s1) by (subst s1; eapply AO_trans; [apply ao_set_piggy | apply ao_cancel]).
    destruct (negb _); (eapply AO_trans; [exact E1 | apply ao_send_initially; intros _; apply okw_ack; reflexivity]).
  - destruct (negb _); [apply AO_refl | apply D].
Qed.

Lemma ao_finish (P : Prop) k m a s : AO P k s (finish m a s).
Proof. unfold finish. eapply AO_trans; [apply ao_send_message | apply ao_set_incoming]. Qed.
Lemma ao_handler_respond (P : Prop) k sid a s : AO P k s (handler_respond sid a s).
Proof.
  unfold handler_respond. destruct (aget Z.eqb sid (waiting s)); [|apply AO_refl].
  eapply AO_trans; [apply ao_set_waiting | apply ao_finish].
Qed.
Lemma ao_handler_raise (P : Prop) k sid e s : AO P k s (handler_raise sid e s).
Proof.
  unfold handler_raise. destruct (aget Z.eqb sid (waiting s)); [|apply AO_refl].
  eapply AO_trans; [apply ao_set_waiting | apply ao_finish].
Qed.
Lemma ao_on_timeout (P : Prop) k r tok s : AO P k s (on_timeout r tok s).
Proof.
  unfold on_timeout. destruct (aget tokkey_eqb (r, tok) (piggy s)) as [[mid h]|]; [|apply ao_emit_exn].
  eapply AO_trans; [apply ao_set_piggy | apply ao_send_empty_ack].
Qed.

Lemma ao_render_to_pipe (P : Prop) k m s : AO P k s (render_to_pipe m s).
Proof.
  unfold render_to_pipe.
  set (s1 := emit _ _).
  assert (E1 : AO P k s s1).
  { subst s1. eapply AO_trans; [apply ao_set_next_sid | apply ao_emit; intros _; apply okout_start]. }
  destruct (i_path m); try (eapply AO_trans; [exact E1 | apply ao_finish]).
  eapply AO_trans; [exact E1 | apply ao_set_waiting].
Qed.
Lemma ao_process_request (P : Prop) k m s : AO P k s (process_request m s).
Proof.
  unfold process_request.
  set (s1 := match aget inckey_eqb (i_token m, i_remote m) (incoming s) with Some old => _ | None => _ end).
  assert (E1 : AO P k s s1) by (subst s1; destruct (aget inckey_eqb (i_token m, i_remote m) (incoming s)); [apply ao_stop_incoming | apply AO_refl]).
  eapply AO_trans; [|apply ao_render_to_pipe]. eapply AO_trans; [exact E1 | apply ao_set_incoming].
Qed.
Lemma ao__process_request (P : Prop) k m s : AO P k s (_process_request m s).
Proof.
  unfold _process_request.
  set (s1 := match i_type m with CON => _ | _ => s end).
  assert (E1 : AO P k s s1).
  { subst s1. destruct (i_type m); try apply AO_refl.
    destruct (call_later EMPTY_ACK_DELAY (TEmptyAck (i_remote m) (i_token m)) s) as [s2 h] eqn:E.
    assert (E2 : AO P k s s2).
    { replace s2 with (fst (call_later EMPTY_ACK_DELAY (TEmptyAck (i_remote m) (i_token m)) s)) by (rewrite E; reflexivity).
      apply ao_call_later. }
    eapply AO_trans; [|apply ao_set_piggy].
    destruct (aget tokkey_eqb (i_remote m, i_token m) (piggy s2)) as [[mid old]|]; [|exact E2].
    eapply AO_trans; [exact E2|]. eapply AO_trans; [apply ao_set_piggy | apply ao_cancel]. }
  eapply AO_trans; [exact E1 | apply ao_process_request].
Qed.

(* the peer reuses key k for a confirmable message that is not a request *)
Definition reuses (k : Z * Z) (m : inmsg) : bool :=
  key_eqb (msg_key m) k && negb (is_request (i_code m)) && mtype_eqb (i_type m) CON.

Lemma okw_rst_other k m : reuses k m = false -> is_request (i_code m) = false -> mtype_eqb (i_type m) CON = true ->
  okw k (i_remote m) {| w_type := RST; w_code := EMPTY; w_mid := i_mid m; w_token := []; w_payload := [] |}.
Proof.
  intros Hr Q T C. simpl in C. rewrite andb_true_r in C.
  unfold reuses, msg_key, key_eqb in Hr. simpl in Hr. rewrite C, Q, T in Hr. discriminate.
Qed.

Lemma ao_dispatch_rest (P : Prop) k m s : BOK s -> (P -> reuses k m = false) -> AO P k s (dispatch_rest m s).
Proof.
  intros HB Hp. unfold dispatch_rest.
  set (s1 := if is_ackrst (i_type m) then _ else s).
  assert (E1 : AO P k s s1) by (subst s1; destruct (is_ackrst (i_type m)); [apply ao_remove_exchange; exact HB | apply AO_refl]).
  destruct (is_request (i_code m)) eqn:Q.
  - assert (Z0 : (i_code m =? EMPTY) = false) by (unfold is_request, EMPTY in *; lia).
    rewrite Z0; simpl.
    destruct (negb (is_ackrst (i_type m))) eqn:A.
    + eapply AO_trans; [exact E1 | apply ao__process_request].
    + assert (Rs : is_response (i_code m) = false) by (unfold is_request, is_response in *; lia).
      rewrite Rs; simpl. exact E1.
  - simpl.
    destruct (mtype_eqb (i_type m) CON) eqn:T.
    + rewrite !andb_true_r.
      destruct (i_code m =? EMPTY).
      * eapply AO_trans; [exact E1|]. unfold _process_ping. apply ao_send_initially. intros HP. apply okw_rst_other; auto.
      * simpl. destruct (is_response (i_code m) && negb (mtype_eqb (i_type m) RST)); [|exact E1].
        eapply AO_trans; [exact E1|]. apply ao_send_initially. intros HP. apply okw_rst_other; auto.
    + rewrite !andb_false_r.
      destruct ((i_code m =? EMPTY) && is_ackrst (i_type m)); [exact E1|].
      destruct (is_response (i_code m) && negb (mtype_eqb (i_type m) RST)); exact E1.
Qed.

Lemma fire_ao (P : Prop) k s : Inv s -> BOK s -> AO P k s (fire s).
Proof.
  intros HI HB. unfold fire.
  destruct (min_timer (all_timers s)) as [[[d q] [k0 | t]]|] eqn:M; [| |apply AO_refl].
  - simpl. destruct (aget key_eqb k0 (recent s)); [aframe | eapply AO_trans; [|apply ao_emit_exn]; aframe].
  - pose proof (min_timer_in _ _ M) as Hin. apply in_all_timer in Hin.
    assert (Hok : tkind_ok t).
    { destruct HI as (_ & _ & _ & _ & I5). unfold TOK in I5. rewrite Forall_forall in I5. apply (I5 _ Hin). }
    assert (E : AO P k s (cancel q (set_now (Z.max (now s) d) s))) by (eapply AO_trans; [apply ao_set_now | apply ao_cancel]).
    destruct t as [r tok | r w timeout counter]; (eapply AO_trans; [exact E|]); [apply ao_on_timeout | apply ao_retransmit; exact Hok].
Qed.

Lemma advance_loop_ao (P : Prop) k fuel target : forall s, Inv s -> BOK s -> AO P k s (advance_loop fuel target s).
Proof.
  induction fuel as [|fuel IH]; intros s HI HB; simpl; [apply AO_refl|].
  destruct (next_due s) as [due|]; [|apply AO_refl].
  destruct (due <=? target); [|apply AO_refl].
  pose proof (fire_ao P k s HI HB) as E. destruct (fire_spec s HI) as [HI1 _].
  eapply AO_trans; [exact E | apply IH; [exact HI1 | apply (ao_bok _ _ _ _ E HB)]].
Qed.
Lemma advance_ao (P : Prop) k d s : Inv s -> BOK s -> AO P k s (advance d s).
Proof.
  intros HI HB. unfold advance. destruct (d <? 0); [apply AO_refl|].
  pose proof (advance_loop_ao P k advance_fuel (now s + d) s HI HB) as E.
  destruct (next_due (advance_loop advance_fuel (now s + d) s)) as [due|].
  - destruct (due <=? now s + d); [exact E | eapply AO_trans; [exact E | apply ao_set_now]].
  - eapply AO_trans; [exact E | apply ao_set_now].
Qed.

Definition polite (k : Z * Z) (e : event) : Prop :=
  match e with Recv m => reuses k m = false | _ => True end.
Definition stored_ack (k : Z * Z) (s : st) : Prop :=
  forall r w, aget key_eqb k (recent s) = Some (Some (r, w)) -> w_type w = ACK.

Lemma ao_insert (P : Prop) k k0 s : AO P k s (insert_key k0 s).
Proof. aframe. Qed.

Lemma step_ao (P : Prop) k s e : Inv s -> BOK s -> (P -> polite k e) -> (P -> stored_ack k s) -> AO P k s (step s e).
Proof.
  intros HI HB Hpol Hst. destruct e as [m | | d | sid a | sid x | r0 b0 | r0]; simpl.
  - destruct (is_request (i_code m)) eqn:Q.
    + destruct (aget key_eqb (msg_key m) (recent s)) as [v|] eqn:G.
      * rewrite (dispatch_dup m s v Q G).
        destruct (i_type m); try apply AO_refl. destruct v as [[r w]|]; [|apply AO_refl].
        apply ao_send_initially. intros HP C.
        destruct HI as (_ & _ & I3 & _). destruct (I3 _ _ _ G) as (E1 & E2 & E3).
        apply andb_true_iff in C as [C _]. apply andb_true_iff in C as [C1 C2]. apply Z.eqb_eq in C1, C2.
        assert (Hk : msg_key m = k) by (destruct (msg_key m), k; simpl in *; congruence).
        rewrite Hk in G. apply (Hst HP r w G).
      * rewrite (dispatch_fresh m s Q G).
        eapply AO_trans; [apply ao_insert|]. apply ao_dispatch_rest; [exact HB|].
        intros _. unfold reuses. rewrite Q. simpl. rewrite andb_false_r. reflexivity.
    + rewrite (dispatch_nonreq m s Q). apply ao_dispatch_rest; [exact HB | exact Hpol].
  - apply fire_ao; assumption.
  - apply advance_ao; assumption.
  - apply ao_handler_respond.
  - apply ao_handler_raise.
  - apply ao_set_refused.
  - apply ao_mm_dispatch_error.
Qed.

Lemma BOK_step s e : Inv s -> BOK s -> BOK (step s e).
Proof.
  intros HI HB. apply (ao_bok False (0, 0) s (step s e)); [|exact HB].
  apply step_ao; auto; intros [].
Qed.
Lemma BOK_run evs : forall s, Inv s -> BOK s -> BOK (run s evs).
Proof.
  induction evs as [|e evs IH]; intros s HI HB; simpl; [exact HB|].
  apply IH; [apply (step_spec s e HI) | apply BOK_step; assumption].
Qed.
Lemma BOK_init mid0 u : BOK (init mid0 u).
Proof. constructor. Qed.

Lemma step_okout k s e : Inv s -> BOK s -> polite k e -> stored_ack k s -> Forall (okout k) (log_since s (step s e)).
Proof.
  intros HI HB Hp Hs. destruct (step_ao True k s e HI HB (fun _ => Hp) (fun _ => Hs)) as [_ (new & O & K)].
  rewrite (log_since_app _ _ _ O). apply K. exact I.
Qed.

Lemma last_reply_ack k l v : Forall (okout k) l -> (forall r w, v = Some (r, w) -> w_type w = ACK) ->
  forall r w, last_reply k l v = Some (r, w) -> w_type w = ACK.
Proof.
  intros Hl Hv r w H. apply last_reply_inv in H as [H | (o & Hin & Ho)]; [eapply Hv; exact H|].
  rewrite Forall_forall in Hl. apply (Hl o Hin r w Ho).
Qed.

(* while the key is alive and the peer is polite about it, everything sent under it is an ACK *)
Lemma ack_run k evs : forall s v D q, Inv s -> BOK s -> aget key_eqb k (recent s) = Some v ->
  (forall r w, v = Some (r, w) -> w_type w = ACK) -> In (D, q, k) (forgets s) ->
  now (run s evs) < D -> Forall (polite k) evs ->
  Forall (okout k) (log_since s (run s evs)).
Proof.
  induction evs as [|e evs IH]; intros s v D q HI HB G Hv HD Hn Hp.
  - simpl. rewrite (log_since_app s s []) by (symmetry; apply app_nil_r). constructor.
  - inversion Hp as [|? ? Hpe Hp']; subst.
    rewrite (log_since_cons e evs s HI). simpl in Hn.
    assert (Hs : stored_ack k s) by (intros r w G'; rewrite G in G'; inversion G'; subst; eapply Hv; reflexivity).
    pose proof (step_okout k s e HI HB Hpe Hs) as K1.
    apply Forall_app; split; [exact K1|].
    destruct (step_spec s e HI) as [HI1 HR]. specialize (HR k (not_fresh_present k s e v G)).
    destruct HR as (new & O & N & T & S & A). rewrite G in A. rewrite (log_since_app _ _ _ O) in K1.
    destruct (run_spec evs (step s e) HI1) as [_ (n2 & _ & N2 & _)].
    destruct A as [[A F] | [_ F]]; [|specialize (F D q HD); lia].
    apply (IH (step s e) (last_reply k new v) D q HI1 (BOK_step s e HI HB) A); auto.
    apply last_reply_ack; assumption.
Qed.

(* Theorem 2 continued: with a polite peer the repeated reply is an ACK *)
Lemma dup_reply_is_ack_lemma s0 m evs r w : Inv s0 -> BOK s0 ->
  is_request (i_code m) = true -> aget key_eqb (msg_key m) (recent s0) = None ->
  let s2 := run (step s0 (Recv m)) evs in
  now s2 < now s0 + EXCHANGE_LIFETIME ->
  Forall (polite (msg_key m)) evs ->
  last_reply (msg_key m) (log_since s0 s2) None = Some (r, w) -> w_type w = ACK.
Proof.
  intros HI HB Q G s2 Hn Hp.
  set (k := msg_key m) in *. set (s1 := step s0 (Recv m)) in *.
  destruct (step_fresh s0 m HI Q G) as (new & q & O & N & T & S & A & F). fold s1 k in O, N, A, F.
  assert (HI1 : Inv s1) by apply (step_spec s0 (Recv m) HI).
  assert (Pm : polite k (Recv m)).
  { simpl. unfold reuses. rewrite Q. simpl. rewrite andb_false_r. reflexivity. }
  assert (Hs0 : stored_ack k s0) by (intros r' w' G'; fold k in G; rewrite G in G'; discriminate).
  pose proof (step_okout k s0 (Recv m) HI HB Pm Hs0) as K1. fold s1 in K1. rewrite (log_since_app _ _ _ O) in K1.
  assert (Hv : forall r' w', last_reply k new None = Some (r', w') -> w_type w' = ACK).
  { apply last_reply_ack; [exact K1 | intros; discriminate]. }
  pose proof (ack_run k evs s1 _ _ q HI1 (BOK_step s0 (Recv m) HI HB) A Hv F Hn Hp) as K2. fold s2 in K2.
  assert (L : log_since s0 s2 = new ++ log_since s1 s2).
  { apply log_since_app. unfold s2. rewrite (run_outs evs s1 HI1), O. apply app_assoc_reverse. }
  rewrite L, last_reply_app. apply last_reply_ack; [exact K2 | exact Hv].
Qed.
