(* C01 — UTF-8: the decoder of Model/C01Utf8.v inverts the encoder on scalar values and vice versa *)
From Verif Require Import Lib.Py Lib.Tactics Lib.PyLemmas Model.C01Utf8.
Open Scope Z_scope.

Ltac settle_ifs :=
  repeat match goal with
  | |- context [if ?b then _ else _] =>
      first [ replace b with true by lia | replace b with false by lia ]
  end.

Ltac bytes_goal := rewrite ?bytes_ok_cons, ?blen_cons, ?blen_nil; change (bytes_ok []) with true; unfold byte_ok; split; lia.
Lemma utf8_encode_cp_ok c : scalar c = true -> exists b, utf8_encode_cp c = Ok b /\ bytes_ok b = true /\ 1 <= blen b <= 4.
Proof.
  intros H. unfold utf8_encode_cp. rewrite H. change (negb true) with false. cbv iota. unfold scalar in H.
  destruct (c <? 128) eqn:E1; [eexists; split; [reflexivity|bytes_goal]|].
  destruct (c <? 2048) eqn:E2; [eexists; split; [reflexivity|bytes_goal]|].
  destruct (c <? 65536) eqn:E3; [eexists; split; [reflexivity|bytes_goal]|].
  eexists; split; [reflexivity|bytes_goal].
Qed.

Lemma utf8_decode_encode_cp_aux c rest : scalar c = true ->
  match utf8_encode_cp c with
  | Ok b => utf8_decode (b ++ rest) = (s <- utf8_decode rest ;; Ok (c :: s))
  | Raise _ => False
  end.
Proof.
  intros H. unfold utf8_encode_cp. rewrite H. change (negb true) with false. cbv iota. unfold scalar in H.
  destruct (c <? 128) eqn:E1.
  { cbn [app utf8_decode]. unfold inr_. settle_ifs. reflexivity. }
  destruct (c <? 2048) eqn:E2.
  { cbn [app utf8_decode]. unfold inr_, cont. settle_ifs.
    replace ((192 + c / 64 - 192) * 64 + (128 + c mod 64 - 128)) with c by lia. reflexivity. }
  destruct (c <? 65536) eqn:E3.
  { cbn [app utf8_decode]. unfold inr_, cont.
    replace ((0 <=? 224 + c / 4096) && (224 + c / 4096 <=? 127)) with false by lia.
    replace ((194 <=? 224 + c / 4096) && (224 + c / 4096 <=? 223)) with false by lia.
    replace ((224 <=? 224 + c / 4096) && (224 + c / 4096 <=? 239)) with true by lia.
    destruct (224 + c / 4096 =? 224) eqn:E4; [|destruct (224 + c / 4096 =? 237) eqn:E5].
    - settle_ifs. replace ((224 + c / 4096 - 224) * 4096 + (128 + c / 64 mod 64 - 128) * 64 + (128 + c mod 64 - 128)) with c by lia. reflexivity.
    - settle_ifs. replace ((224 + c / 4096 - 224) * 4096 + (128 + c / 64 mod 64 - 128) * 64 + (128 + c mod 64 - 128)) with c by lia. reflexivity.
    - settle_ifs. replace ((224 + c / 4096 - 224) * 4096 + (128 + c / 64 mod 64 - 128) * 64 + (128 + c mod 64 - 128)) with c by lia. reflexivity. }
  cbn [app utf8_decode]. unfold inr_, cont.
  replace ((0 <=? 240 + c / 262144) && (240 + c / 262144 <=? 127)) with false by lia.
  replace ((194 <=? 240 + c / 262144) && (240 + c / 262144 <=? 223)) with false by lia.
  replace ((224 <=? 240 + c / 262144) && (240 + c / 262144 <=? 239)) with false by lia.
  replace ((240 <=? 240 + c / 262144) && (240 + c / 262144 <=? 244)) with true by lia.
  destruct (240 + c / 262144 =? 240) eqn:E4; [|destruct (240 + c / 262144 =? 244) eqn:E5].
  - settle_ifs. replace ((240 + c / 262144 - 240) * 262144 + (128 + c / 4096 mod 64 - 128) * 4096 + (128 + c / 64 mod 64 - 128) * 64 + (128 + c mod 64 - 128)) with c by lia. reflexivity.
  - settle_ifs. replace ((240 + c / 262144 - 240) * 262144 + (128 + c / 4096 mod 64 - 128) * 4096 + (128 + c / 64 mod 64 - 128) * 64 + (128 + c mod 64 - 128)) with c by lia. reflexivity.
  - settle_ifs. replace ((240 + c / 262144 - 240) * 262144 + (128 + c / 4096 mod 64 - 128) * 4096 + (128 + c / 64 mod 64 - 128) * 64 + (128 + c mod 64 - 128)) with c by lia. reflexivity.
Qed.

Lemma utf8_decode_encode_cp c b rest : scalar c = true -> utf8_encode_cp c = Ok b ->
  utf8_decode (b ++ rest) = (s <- utf8_decode rest ;; Ok (c :: s)).
Proof. intros H E. pose proof (utf8_decode_encode_cp_aux c rest H) as A. rewrite E in A. exact A. Qed.

Lemma utf8_roundtrip s : forallb scalar s = true ->
  exists b, utf8_encode s = Ok b /\ utf8_decode b = Ok s /\ bytes_ok b = true.
Proof.
  induction s as [|a s IH]; intros H.
  - exists []. repeat split.
  - cbn [forallb] in H. apply andb_prop in H as [H1 H2].
    destruct (IH H2) as (b & E & D & O). destruct (utf8_encode_cp_ok a H1) as (ba & Ea & Oa & _).
    exists (ba ++ b). cbn [utf8_encode]. rewrite Ea, E. cbn [bind]. split; [reflexivity|]. split.
    + rewrite (utf8_decode_encode_cp a ba b H1 Ea), D. reflexivity.
    + rewrite bytes_ok_app, Oa, O. reflexivity.
Qed.

Lemma utf8_decode_cons b0 r0 : utf8_decode (b0 :: r0) =
    if inr_ 0 127 b0 then s <- utf8_decode r0 ;; Ok (b0 :: s)
    else if inr_ 194 223 b0 then
      match r0 with
      | b1 :: r1 =>
        if cont b1 then s <- utf8_decode r1 ;; Ok (((b0 - 192) * 64 + (b1 - 128)) :: s)
        else Raise UnicodeDecodeError
      | _ => Raise UnicodeDecodeError
      end
    else if inr_ 224 239 b0 then
      match r0 with
      | b1 :: b2 :: r2 =>
        if (if b0 =? 224 then inr_ 160 191 b1 else if b0 =? 237 then inr_ 128 159 b1 else cont b1) && cont b2
        then s <- utf8_decode r2 ;; Ok (((b0 - 224) * 4096 + (b1 - 128) * 64 + (b2 - 128)) :: s)
        else Raise UnicodeDecodeError
      | _ => Raise UnicodeDecodeError
      end
    else if inr_ 240 244 b0 then
      match r0 with
      | b1 :: b2 :: b3 :: r3 =>
        if (if b0 =? 240 then inr_ 144 191 b1 else if b0 =? 244 then inr_ 128 143 b1 else cont b1) && cont b2 && cont b3
        then s <- utf8_decode r3 ;; Ok (((b0 - 240) * 262144 + (b1 - 128) * 4096 + (b2 - 128) * 64 + (b3 - 128)) :: s)
        else Raise UnicodeDecodeError
      | _ => Raise UnicodeDecodeError
      end
    else Raise UnicodeDecodeError.
Proof. reflexivity. Qed.

Lemma enc1 b0 : inr_ 0 127 b0 = true -> utf8_encode_cp b0 = Ok [b0] /\ scalar b0 = true.
Proof.
  unfold inr_, utf8_encode_cp, scalar. intros H.
  replace ((0 <=? b0) && (b0 <? 55296) || (57344 <=? b0) && (b0 <? 1114112)) with true by lia.
  change (negb true) with false. cbv iota. replace (b0 <? 128) with true by lia. split; reflexivity.
Qed.
Lemma enc2 b0 b1 : inr_ 194 223 b0 = true -> cont b1 = true ->
  utf8_encode_cp ((b0 - 192) * 64 + (b1 - 128)) = Ok [b0; b1] /\ scalar ((b0 - 192) * 64 + (b1 - 128)) = true.
Proof.
  unfold inr_, cont, utf8_encode_cp, scalar. intros H1 H2. set (c := (b0 - 192) * 64 + (b1 - 128)).
  assert (Hc : 128 <= c < 2048) by (subst c; lia).
  replace ((0 <=? c) && (c <? 55296) || (57344 <=? c) && (c <? 1114112)) with true by lia.
  change (negb true) with false. cbv iota. replace (c <? 128) with false by lia. replace (c <? 2048) with true by lia.
  split; [|reflexivity]. f_equal. f_equal; [|f_equal]; subst c; lia.
Qed.
Lemma enc3 b0 b1 b2 : inr_ 224 239 b0 = true ->
  (if b0 =? 224 then inr_ 160 191 b1 else if b0 =? 237 then inr_ 128 159 b1 else cont b1) && cont b2 = true ->
  utf8_encode_cp ((b0 - 224) * 4096 + (b1 - 128) * 64 + (b2 - 128)) = Ok [b0; b1; b2]
  /\ scalar ((b0 - 224) * 4096 + (b1 - 128) * 64 + (b2 - 128)) = true.
Proof.
  unfold inr_, cont, utf8_encode_cp, scalar. intros H1 H2. set (c := (b0 - 224) * 4096 + (b1 - 128) * 64 + (b2 - 128)).
  assert (Hc : 2048 <= c < 65536 /\ (c < 55296 \/ 57344 <= c) /\ 128 <= b1 < 192 /\ 128 <= b2 < 192).
  { subst c. destruct (b0 =? 224) eqn:A; [|destruct (b0 =? 237) eqn:B]; lia. }
  replace ((0 <=? c) && (c <? 55296) || (57344 <=? c) && (c <? 1114112)) with true by lia.
  change (negb true) with false. cbv iota. replace (c <? 128) with false by lia. replace (c <? 2048) with false by lia.
  replace (c <? 65536) with true by lia.
  split; [|reflexivity]. f_equal. f_equal; [|f_equal; [|f_equal]]; subst c; lia.
Qed.
Lemma enc4 b0 b1 b2 b3 : inr_ 240 244 b0 = true ->
  (if b0 =? 240 then inr_ 144 191 b1 else if b0 =? 244 then inr_ 128 143 b1 else cont b1) && cont b2 && cont b3 = true ->
  utf8_encode_cp ((b0 - 240) * 262144 + (b1 - 128) * 4096 + (b2 - 128) * 64 + (b3 - 128)) = Ok [b0; b1; b2; b3]
  /\ scalar ((b0 - 240) * 262144 + (b1 - 128) * 4096 + (b2 - 128) * 64 + (b3 - 128)) = true.
Proof.
  unfold inr_, cont, utf8_encode_cp, scalar. intros H1 H2.
  set (c := (b0 - 240) * 262144 + (b1 - 128) * 4096 + (b2 - 128) * 64 + (b3 - 128)).
  assert (Hc : 65536 <= c < 1114112 /\ 128 <= b1 < 192 /\ 128 <= b2 < 192 /\ 128 <= b3 < 192).
  { subst c. destruct (b0 =? 240) eqn:A; [|destruct (b0 =? 244) eqn:B]; lia. }
  replace ((0 <=? c) && (c <? 55296) || (57344 <=? c) && (c <? 1114112)) with true by lia.
  change (negb true) with false. cbv iota. replace (c <? 128) with false by lia. replace (c <? 2048) with false by lia.
  replace (c <? 65536) with false by lia.
  split; [|reflexivity]. f_equal. f_equal; [|f_equal; [|f_equal; [|f_equal]]]; subst c; lia.
Qed.

Lemma list_len_ind {A} (P : list A -> Prop) :
  (forall l, (forall l', (length l' < length l)%nat -> P l') -> P l) -> forall l, P l.
Proof.
  intros H l. assert (G : forall n l, (length l < n)%nat -> P l).
  { induction n as [|n IH]; intros l0 Hl; [inversion Hl|]. apply H. intros l' Hl'. apply IH. lia. }
  apply (G (S (length l))). lia.
Qed.

Lemma bind_ok {A B} (m : M A) (f : A -> M B) y : bind m f = Ok y -> exists x, m = Ok x /\ f x = Ok y.
Proof. destruct m; cbn; [eauto|discriminate]. Qed.

Lemma utf8_encode_decode b : forall s, utf8_decode b = Ok s -> utf8_encode s = Ok b /\ forallb scalar s = true.
Proof.
  induction b as [b IH] using list_len_ind. intros s. destruct b as [|b0 r0].
  { cbn. intros E. injection E as <-. split; reflexivity. }
  rewrite utf8_decode_cons.
  destruct (inr_ 0 127 b0) eqn:C1.
  { intros E. apply bind_ok in E as (s' & E1 & E2). injection E2 as <-.
    destruct (IH r0 (Nat.lt_succ_diag_r _) s' E1) as [I1 I2]. destruct (enc1 b0 C1) as [X1 X2].
    cbn [utf8_encode forallb]. rewrite X1, I1, X2, I2. split; reflexivity. }
  destruct (inr_ 194 223 b0) eqn:C2.
  { destruct r0 as [|b1 r1]; [discriminate|]. destruct (cont b1) eqn:D1; [|discriminate].
    intros E. apply bind_ok in E as (s' & E1 & E2). injection E2 as <-.
    assert (L : (length r1 < length (b0 :: b1 :: r1))%nat) by (cbn [length]; lia).
    destruct (IH r1 L s' E1) as [I1 I2]. destruct (enc2 b0 b1 C2 D1) as [X1 X2].
    cbn [utf8_encode forallb]. rewrite X1, I1, X2, I2. split; reflexivity. }
  destruct (inr_ 224 239 b0) eqn:C3.
  { destruct r0 as [|b1 [|b2 r2]]; try discriminate.
    match goal with |- (if ?c then _ else _) = _ -> _ => destruct c eqn:D1; [|discriminate] end.
    intros E. apply bind_ok in E as (s' & E1 & E2). injection E2 as <-.
    assert (L : (length r2 < length (b0 :: b1 :: b2 :: r2))%nat) by (cbn [length]; lia).
    destruct (IH r2 L s' E1) as [I1 I2]. destruct (enc3 b0 b1 b2 C3 D1) as [X1 X2].
    cbn [utf8_encode forallb]. rewrite X1, I1, X2, I2. split; reflexivity. }
  destruct (inr_ 240 244 b0) eqn:C4; [|discriminate].
  destruct r0 as [|b1 [|b2 [|b3 r3]]]; try discriminate.
  match goal with |- (if ?c then _ else _) = _ -> _ => destruct c eqn:D1; [|discriminate] end.
  intros E. apply bind_ok in E as (s' & E1 & E2). injection E2 as <-.
  assert (L : (length r3 < length (b0 :: b1 :: b2 :: b3 :: r3))%nat) by (cbn [length]; lia).
  destruct (IH r3 L s' E1) as [I1 I2]. destruct (enc4 b0 b1 b2 b3 C4 D1) as [X1 X2].
  cbn [utf8_encode forallb]. rewrite X1, I1, X2, I2. split; reflexivity.
Qed.

Lemma utf8_decode_raises b : forall e, utf8_decode b = Raise e -> e = UnicodeDecodeError.
Proof.
  induction b as [b IH] using list_len_ind. intros e. destruct b as [|b0 r0]; [discriminate|].
  rewrite utf8_decode_cons.
  assert (K : forall r, (length r < length (b0 :: r0))%nat -> forall (f : list Z -> M (list Z)),
             (forall x, exists y, f x = Ok y) -> bind (utf8_decode r) f = Raise e -> e = UnicodeDecodeError).
  { intros r L f Hf E. destruct (utf8_decode r) eqn:D; cbn in E; [destruct (Hf a) as [y Hy]; congruence|].
    injection E as <-. eapply IH; eauto. }
  destruct (inr_ 0 127 b0). { apply K; [cbn [length]; lia|eauto]. }
  destruct (inr_ 194 223 b0).
  { destruct r0 as [|b1 r1]; [congruence|]. destruct (cont b1); [|congruence]. apply K; [cbn [length]; lia|eauto]. }
  destruct (inr_ 224 239 b0).
  { destruct r0 as [|b1 [|b2 r2]]; try congruence.
    match goal with |- (if ?c then _ else _) = _ -> _ => destruct c; [|congruence] end. apply K; [cbn [length]; lia|eauto]. }
  destruct (inr_ 240 244 b0); [|congruence].
  destruct r0 as [|b1 [|b2 [|b3 r3]]]; try congruence.
  match goal with |- (if ?c then _ else _) = _ -> _ => destruct c; [|congruence] end. apply K; [cbn [length]; lia|eauto].
Qed.
