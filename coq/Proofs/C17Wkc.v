(* C17 — /.well-known/core: the listing names exactly the registered resources that do not hide themselves, with
   their full paths through nested sites; a single RFC 6690 filter query returns exactly the matching subset
   (under the stated side conditions; the four deviations found are exhibited as refuted witnesses). *)
From Verif Require Import Lib.Py Lib.Tactics Model.C17Base Gen.resource_site Model.C17 Proofs.C17.
Open Scope Z_scope.
Open Scope list_scope.

(* ------------------------------------------------------------------ strings *)
Lemma append_assoc : forall a b c : string, ((a ++ b) ++ c)%string = (a ++ (b ++ c))%string.
Proof. induction a as [|x a IH]; intros b c; simpl; [reflexivity | rewrite IH; reflexivity]. Qed.
Lemma append_nil_r : forall a : string, (a ++ "")%string = a.
Proof. induction a as [|x a IH]; simpl; [reflexivity | rewrite IH; reflexivity]. Qed.
Lemma join_cons2 : forall sep x y l, join sep (x :: y :: l) = (x ++ sep ++ join sep (y :: l))%string.
Proof. reflexivity. Qed.
Lemma join_app : forall sep p q, p <> [] -> q <> [] -> join sep (p ++ q) = (join sep p ++ sep ++ join sep q)%string.
Proof.
  intros sep p q Hp Hq. induction p as [|x p IH]; [congruence|].
  destruct p as [|y p].
  - destruct q as [|z q]; [congruence|]. reflexivity.
  - change ((x :: y :: p) ++ q) with (x :: y :: (p ++ q)). rewrite !join_cons2.
    change (y :: p ++ q) with ((y :: p) ++ q). rewrite IH by discriminate. rewrite !append_assoc. reflexivity.
Qed.
(* hrefs compose through nested sites: the href listed for a resource at q inside the sub-site at p is the URI path p/q;
   the sub-site's root resource (q = []) is listed with the trailing slash, which routes back to it ([""] -> []) *)
Lemma href_of_path_app : forall p q, p <> [] -> q <> [] -> (href_of_path p ++ href_of_path q)%string = href_of_path (p ++ q).
Proof.
  intros p q Hp Hq. unfold href_of_path. rewrite join_app by assumption. rewrite !append_assoc. reflexivity.
Qed.
Lemma href_of_path_root : forall p, p <> [] -> (href_of_path p ++ href_of_path [])%string = href_of_path (p ++ [""%string]).
Proof.
  intros p Hp. unfold href_of_path. rewrite join_app by (assumption || discriminate). cbn [join String.concat].
  rewrite !append_assoc. reflexivity.
Qed.

(* ------------------------------------------------------------------ the listing *)
Definition sub_links (ss : dict node) : list link :=
  flat_map (fun kc : list string * node =>
              match get_resources_as_linkheader (snd kc) with Some ls => prefix_links (fst kc) ls | None => [] end) ss.
Lemma linkheader_site : forall rs ss, get_resources_as_linkheader (NSite rs ss) = Some (resource_links rs ++ sub_links ss).
Proof.
  intros rs ss. cbn [get_resources_as_linkheader]. do 2 f_equal.
  unfold sub_links. induction ss as [|[k c] ss IH]; [reflexivity|]. cbn [flat_map fst snd]. rewrite <- IH. reflexivity.
Qed.

(* Listed n h d: the tree n has a registered, non-hidden resource whose full href is h and whose link description is d *)
Inductive Listed : node -> string -> list attr -> Prop :=
| Listed_res : forall rs ss p r d, In (p, r) rs -> get_link_description r = Some d -> Listed (NSite rs ss) (href_of_path p) d
| Listed_sub : forall rs ss p c h d, In (p, c) ss -> Listed c h d -> Listed (NSite rs ss) (href_of_path p ++ h)%string d.

Lemma resource_links_In : forall rs h d, In (h, d) (resource_links rs) <->
  exists p r, In (p, r) rs /\ get_link_description r = Some d /\ h = href_of_path p.
Proof.
  induction rs as [|[p r] rs IH]; intros h d; cbn [resource_links].
  - split; [intros [] | intros [p [r [[] _]]]].
  - destruct (get_link_description r) as [d0|] eqn:E.
    + cbn [In]. rewrite IH. split.
      * intros [H | [p' [r' [H1 [H2 H3]]]]].
        -- inversion H; subst. exists p, r. auto.
        -- exists p', r'. auto.
      * intros [p' [r' [[H1 | H1] [H2 H3]]]].
        -- inversion H1; subst. left. congruence.
        -- right. exists p', r'. auto.
    + rewrite IH. split.
      * intros [p' [r' [H1 [H2 H3]]]]. exists p', r'. cbn [In]. auto.
      * intros [p' [r' [[H1 | H1] [H2 H3]]]]; [inversion H1; subst; congruence | exists p', r'; auto].
Qed.

Lemma linkheader_exact : forall n ls, get_resources_as_linkheader n = Some ls ->
  forall h d, In (h, d) ls <-> Listed n h d.
Proof.
  induction n as [id | rs ss IH] using node_ind'; intros ls Hls h d; [discriminate|].
  rewrite linkheader_site in Hls. inversion Hls; subst ls. rewrite in_app_iff, resource_links_In. split.
  - intros [[p [r [H1 [H2 H3]]]] | H].
    + subst h. apply (Listed_res rs ss p r d H1 H2).
    + unfold sub_links in H. apply in_flat_map in H. destruct H as [[p c] [Hin Hl]]. cbn [fst snd] in Hl.
      destruct (get_resources_as_linkheader c) as [lc|] eqn:Ec; [|destruct Hl].
      unfold prefix_links in Hl. apply in_map_iff in Hl. destruct Hl as [[h' d'] [Heq Hin']]. cbn [fst snd] in Heq. inversion Heq; subst.
      apply (Listed_sub rs ss p c h' d Hin).
      pose proof (proj1 (Forall_forall _ _) IH _ Hin) as IHc. cbn [snd] in IHc. apply (IHc lc Ec). exact Hin'.
  - intro H. inversion H as [? ? p r ? Hin Hd | ? ? p c h' ? Hin Hl]; subst.
    + left. exists p, r. auto.
    + right. unfold sub_links. apply in_flat_map. exists (p, c). split; [exact Hin|]. cbn [fst snd].
      pose proof (proj1 (Forall_forall _ _) IH _ Hin) as IHc. cbn [snd] in IHc.
      destruct (get_resources_as_linkheader c) as [lc|] eqn:Ec.
      * unfold prefix_links. apply in_map_iff. exists (h', d). split; [reflexivity|]. apply (IHc lc eq_refl). exact Hl.
      * inversion Hl; subst; discriminate.
Qed.

(* ------------------------------------------------------------------ RFC 6690 section 4.1 as a declarative specification *)
(* the search pattern v accepts the string x: equality, or prefix when v ends in "*" *)
Definition pat_ok (v x : string) : Prop :=
  if ends_with_star v then String.prefix (drop_last_char v) x = true else x = v.
(* x is something the filter name k denotes on link l: the href for "href"; otherwise a value of the attribute named k
   (names are case-insensitive; an attribute without value denotes nothing; a missing attribute denotes nothing) — for the
   space-separated list attributes rt / if / ct / rel each item of the value *)
Definition candidate (k : string) (l : link) (x : string) : Prop :=
  (k = "href"%string /\ x = fst l) \/
  (k <> "href"%string /\ exists key s, In (key, Some s) (snd l) /\ lower key = lower k /\
                         if mem_str k LIST_VALUED_ATTRS then In x (split_space s) else x = s).
Definition Matches (k v : string) (l : link) : Prop := exists x, candidate k l x /\ pat_ok v x.

Lemma matchexp_pat_ok : forall v x,
  matchexp (ends_with_star v) (if ends_with_star v then drop_last_char v else v) x = true <-> pat_ok v x.
Proof.
  intros v x. unfold matchexp, pat_ok. destruct (ends_with_star v); [reflexivity | apply String.eqb_eq].
Qed.
Lemma attr_values_In : forall l k s, In s (attr_values l k) <-> exists key, In (key, Some s) (snd l) /\ lower key = lower k.
Proof.
  intros [h attrs] k s. unfold attr_values. cbn [snd]. rewrite in_flat_map. split.
  - intros [[key val] [Hin H]]. cbn [fst snd] in H. destruct (String.eqb (lower key) (lower k)) eqn:E; [|destruct H].
    destruct val as [s'|]; [|destruct H]. destruct H as [H|[]]. subst s'. exists key. split; [exact Hin | apply String.eqb_eq; exact E].
  - intros [key [Hin E]]. exists (key, Some s). split; [exact Hin|]. cbn [fst snd]. rewrite E, String.eqb_refl. left. reflexivity.
Qed.

Lemma link_matches_spec : forall k v l, link_matches k v l = true <-> Matches k v l.
Proof.
  intros k v l. unfold link_matches, Matches, candidate.
  destruct (mem_str k LIST_VALUED_ATTRS) eqn:Elist.
  - assert (Hne : k <> "href"%string) by (intro E; subst k; discriminate Elist).
    rewrite existsb_exists. split.
    + intros [x [Hin Hm]]. apply in_flat_map in Hin. destruct Hin as [s [Hs Hx]]. apply attr_values_In in Hs. destruct Hs as [key [Hk El]].
      exists x. split; [|apply matchexp_pat_ok; exact Hm]. right. split; [exact Hne|]. exists key, s. auto.
    + intros [x [[[E _] | [_ [key [s [Hk [El Hx]]]]]] Hp]]; [congruence|].
      exists x. split; [|apply matchexp_pat_ok; exact Hp]. apply in_flat_map. exists s. split; [apply attr_values_In; eauto | exact Hx].
  - destruct (String.eqb_spec k "href") as [E|Hne].
    + rewrite matchexp_pat_ok. split.
      * intro H. exists (fst l). split; [left; auto | exact H].
      * intros [x [[[_ Hx] | [Hn _]] Hp]]; [subst x; exact Hp | congruence].
    + rewrite existsb_exists. split.
      * intros [x [Hin Hm]]. apply attr_values_In in Hin. destruct Hin as [key [Hk El]].
        exists x. split; [|apply matchexp_pat_ok; exact Hm]. right. split; [exact Hne|]. exists key, x. auto.
      * intros [x [[[E _] | [_ [key [s [Hk [El Hx]]]]]] Hp]]; [congruence|]. subst s.
        exists x. split; [apply attr_values_In; eauto | apply matchexp_pat_ok; exact Hp].
Qed.

(* a single filter returns exactly the matching subset, in listing order — for every name, pattern and list of links *)
Lemma filter_links_spec : forall k v ls l, In l (filter_links k v ls) <-> In l ls /\ Matches k v l.
Proof. intros k v ls l. unfold filter_links. rewrite filter_In, link_matches_spec. reflexivity. Qed.
Lemma filter_links_sublist : forall k v ls, exists keep : link -> bool,
  filter_links k v ls = filter keep ls /\ forall l, keep l = true <-> Matches k v l.
Proof. intros k v ls. exists (link_matches k v). split; [reflexivity | apply link_matches_spec]. Qed.

(* ------------------------------------------------------------------ WKCResource.render_get with its list of Uri-Query options *)
Lemma fold_filter_forallb : forall (rel : list (string * string)) (ls : list link),
  fold_right (fun (kv : string * string) acc => filter_links (fst kv) (snd kv) acc) ls rel =
  filter (fun l => forallb (fun kv : string * string => link_matches (fst kv) (snd kv) l) rel) ls.
Proof.
  induction rel as [|[k v] rel IH]; intro ls; cbn [fold_right forallb fst snd].
  - induction ls as [|l ls IHl]; [reflexivity|]. cbn [filter]. rewrite <- IHl. reflexivity.
  - rewrite IH. unfold filter_links. induction ls as [|l ls IHl]; [reflexivity|]. cbn [filter].
    destruct (forallb (fun kv : string * string => link_matches (fst kv) (snd kv) l) rel); cbn [filter andb].
    + destruct (link_matches k v l); rewrite IHl; reflexivity.
    + rewrite andb_false_r. exact IHl.
Qed.
(* the answer is the listing (plus impl-info), in order, restricted to the links that satisfy EVERY criterion *)
Lemma wkc_is_filter : forall ls impl qs,
  wkc_render_get ls impl qs =
  Ok (filter (fun l => forallb (fun kv : string * string => link_matches (fst kv) (snd kv) l) (relevant qs)) (ls ++ impl_info_links impl)).
Proof. intros ls impl qs. unfold wkc_render_get. rewrite fold_filter_forallb. reflexivity. Qed.
Lemma wkc_no_filter : forall ls impl, wkc_render_get ls impl [] = Ok (ls ++ impl_info_links impl).
Proof. reflexivity. Qed.
Lemma wkc_no_relevant : forall ls impl qs, relevant qs = [] -> wkc_render_get ls impl qs = Ok (ls ++ impl_info_links impl).
Proof. intros ls impl qs H. unfold wkc_render_get. rewrite H. reflexivity. Qed.
Lemma wkc_single : forall ls impl qs k v, relevant qs = [(k, v)] ->
  wkc_render_get ls impl qs = Ok (filter_links k v (ls ++ impl_info_links impl)).
Proof. intros ls impl qs k v H. unfold wkc_render_get. rewrite H. reflexivity. Qed.
(* conjunction of all criteria, for any number of Uri-Query options *)
Lemma wkc_conjunction : forall ls impl qs r, wkc_render_get ls impl qs = Ok r ->
  forall l, In l r <-> In l (ls ++ impl_info_links impl) /\ forall k v, In (k, v) (relevant qs) -> Matches k v l.
Proof.
  intros ls impl qs r H l. rewrite wkc_is_filter in H. inversion H; subst. rewrite filter_In, forallb_forall. split.
  - intros [Hin Hall]. split; [exact Hin|]. intros k v Hkv. apply link_matches_spec. apply (Hall (k, v) Hkv).
  - intros [Hin Hall]. split; [exact Hin|]. intros [k v] Hkv. apply link_matches_spec. apply Hall. exact Hkv.
Qed.
Lemma wkc_total : forall ls impl qs, exists r, wkc_render_get ls impl qs = Ok r.
Proof. intros. rewrite wkc_is_filter. eauto. Qed.
Lemma relevant_in : forall qs k v, In (k, v) (relevant qs) <-> exists q, In q qs /\ split_eq q = Some (k, v).
Proof.
  induction qs as [|q qs IH]; intros k v; cbn [relevant].
  - split; [intros [] | intros [q [[] _]]].
  - destruct (split_eq q) as [[k0 v0]|] eqn:E.
    + cbn [In]. rewrite IH. split.
      * intros [H | [q' [H1 H2]]]; [inversion H; subst; exists q; auto | exists q'; auto].
      * intros [q' [[H1 | H1] H2]]; [subst; left; congruence | right; exists q'; auto].
    + rewrite IH. split.
      * intros [q' [H1 H2]]. exists q'. cbn [In]. auto.
      * intros [q' [[H1 | H1] H2]]; [subst; congruence | exists q'; auto].
Qed.

(* ------------------------------------------------------------------ at request level: a request routed to the WKC resource answers the (filtered) listing of the root *)
Lemma request_wkc : forall pipe root m qs impl ls, uri_path_abbrev m = None ->
  Route root (uri_path m) (TgtRes (RWkc impl)) -> get_resources_as_linkheader root = Some ls ->
  request pipe root m qs = links_result (wkc_render_get ls impl qs).
Proof.
  intros pipe root m qs impl ls Hab HR Hls. apply (render_route root pipe m Hab) in HR. unfold request.
  destruct (render pipe root m) as [r m' | id m' | e]; cbn [leaf_target] in HR; inversion HR; subst. rewrite Hls. reflexivity.
Qed.
Lemma request_wkc_single : forall pipe root m qs impl ls k v, uri_path_abbrev m = None ->
  Route root (uri_path m) (TgtRes (RWkc impl)) -> get_resources_as_linkheader root = Some ls -> relevant qs = [(k, v)] ->
  request pipe root m qs = links_result (Ok (filter_links k v (ls ++ impl_info_links impl))).
Proof. intros. rewrite (request_wkc pipe root m qs impl ls) by assumption. rewrite (wkc_single ls impl qs k v) by assumption. reflexivity. Qed.
