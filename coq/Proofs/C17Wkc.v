(* C17 — /.well-known/core: the listing names exactly the registered resources that do not hide themselves, with
   their full paths through nested sites; a single RFC 6690 filter query returns exactly the matching subset
   (under the stated side conditions; the four deviations found are exhibited as refuted witnesses). *)
From Verif Require Import Lib.Py Lib.Tactics Model.C17Base Gen.resource_site Model.C17 Proofs.C17.
Open Scope Z_scope.
Open Scope list_scope.

(* ------------------------------------------------------------------ strings *)
Lemma append_assoc : forall a b c : string, ((a ++ b) ++ c)%string = (a ++ (b ++ c))%string.
Proof. induction a as [|x a IH]; intros b c; simpl; [reflexivity | rewrite IH; reflexivity]. Qed.
Lemma append_nil_r : forall a : string, (a ++ "")%string = a.
Proof. induction a as [|x a IH]; simpl; [reflexivity | rewrite IH; reflexivity]. Qed.
Lemma join_cons2 : forall sep x y l, join sep (x :: y :: l) = (x ++ sep ++ join sep (y :: l))%string.
Proof. reflexivity. Qed.
Lemma join_app : forall sep p q, p <> [] -> q <> [] -> join sep (p ++ q) = (join sep p ++ sep ++ join sep q)%string.
Proof.
  intros sep p q Hp Hq. induction p as [|x p IH]; [congruence|].
  destruct p as [|y p].
  - destruct q as [|z q]; [congruence|]. reflexivity.
  - change ((x :: y :: p) ++ q) with (x :: y :: (p ++ q)). rewrite !join_cons2.
    change (y :: p ++ q) with ((y :: p) ++ q). rewrite IH by discriminate. rewrite !append_assoc. reflexivity.
Qed.
(* hrefs compose through nested sites: the href listed for a resource at q inside the sub-site at p is the URI path p/q;
   the sub-site's root resource (q = []) is listed with the trailing slash, which routes back to it ([""] -> []) *)
Lemma href_of_path_app : forall p q, p <> [] -> q <> [] -> (href_of_path p ++ href_of_path q)%string = href_of_path (p ++ q).
Proof.
  intros p q Hp Hq. unfold href_of_path. rewrite join_app by assumption. rewrite !append_assoc. reflexivity.
Qed.
Lemma href_of_path_root : forall p, p <> [] -> (href_of_path p ++ href_of_path [])%string = href_of_path (p ++ [""%string]).
Proof.
  intros p Hp. unfold href_of_path. rewrite join_app by (assumption || discriminate). cbn [join String.concat].
  rewrite !append_assoc. reflexivity.
Qed.

(* ------------------------------------------------------------------ the listing *)
Definition sub_links (ss : dict node) : list link :=
  flat_map (fun kc : list string * node =>
              match get_resources_as_linkheader (snd kc) with Some ls => prefix_links (fst kc) ls | None => [] end) ss.
Lemma linkheader_site : forall rs ss, get_resources_as_linkheader (NSite rs ss) = Some (resource_links rs ++ sub_links ss).
Proof.
  intros rs ss. cbn [get_resources_as_linkheader]. do 2 f_equal.
  unfold sub_links. induction ss as [|[k c] ss IH]; [reflexivity|]. cbn [flat_map fst snd]. rewrite <- IH. reflexivity.
Qed.

(* Listed n h d: the tree n has a registered, non-hidden resource whose full href is h and whose link description is d *)
Inductive Listed : node -> string -> list attr -> Prop :=
| Listed_res : forall rs ss p r d, In (p, r) rs -> get_link_description r = Some d -> Listed (NSite rs ss) (href_of_path p) d
| Listed_sub : forall rs ss p c h d, In (p, c) ss -> Listed c h d -> Listed (NSite rs ss) (href_of_path p ++ h)%string d.

Lemma resource_links_In : forall rs h d, In (h, d) (resource_links rs) <->
  exists p r, In (p, r) rs /\ get_link_description r = Some d /\ h = href_of_path p.
Proof.
  induction rs as [|[p r] rs IH]; intros h d; cbn [resource_links].
  - split; [intros [] | intros [p [r [[] _]]]].
  - destruct (get_link_description r) as [d0|] eqn:E.
    + cbn [In]. rewrite IH. split.
      * intros [H | [p' [r' [H1 [H2 H3]]]]].
        -- inversion H; subst. exists p, r. auto.
        -- exists p', r'. auto.
      * intros [p' [r' [[H1 | H1] [H2 H3]]]].
        -- inversion H1; subst. left. congruence.
        -- right. exists p', r'. auto.
    + rewrite IH. split.
      * intros [p' [r' [H1 [H2 H3]]]]. exists p', r'. cbn [In]. auto.
      * intros [p' [r' [[H1 | H1] [H2 H3]]]]; [inversion H1; subst; congruence | exists p', r'; auto].
Qed.

Lemma linkheader_exact : forall n ls, get_resources_as_linkheader n = Some ls ->
  forall h d, In (h, d) ls <-> Listed n h d.
Proof.
  induction n as [id | rs ss IH] using node_ind'; intros ls Hls h d; [discriminate|].
  rewrite linkheader_site in Hls. inversion Hls; subst ls. rewrite in_app_iff, resource_links_In. split.
  - intros [[p [r [H1 [H2 H3]]]] | H].
    + subst h. apply (Listed_res rs ss p r d H1 H2).
    + unfold sub_links in H. apply in_flat_map in H. destruct H as [[p c] [Hin Hl]]. cbn [fst snd] in Hl.
      destruct (get_resources_as_linkheader c) as [lc|] eqn:Ec; [|destruct Hl].
      unfold prefix_links in Hl. apply in_map_iff in Hl. destruct Hl as [[h' d'] [Heq Hin']]. cbn [fst snd] in Heq. inversion Heq; subst.
      apply (Listed_sub rs ss p c h' d Hin).
      pose proof (proj1 (Forall_forall _ _) IH _ Hin) as IHc. cbn [snd] in IHc. apply (IHc lc Ec). exact Hin'.
  - intro H. inversion H as [? ? p r ? Hin Hd | ? ? p c h' ? Hin Hl]; subst.
    + left. exists p, r. auto.
    + right. unfold sub_links. apply in_flat_map. exists (p, c). split; [exact Hin|]. cbn [fst snd].
      pose proof (proj1 (Forall_forall _ _) IH _ Hin) as IHc. cbn [snd] in IHc.
      destruct (get_resources_as_linkheader c) as [lc|] eqn:Ec.
      * unfold prefix_links. apply in_map_iff. exists (h', d). split; [reflexivity|]. apply (IHc lc eq_refl). exact Hl.
      * inversion Hl; subst; discriminate.
Qed.

(* without a filter (no query, or a query without "=") the WKC resource returns the listing plus the optional impl-info link *)
Lemma wkc_no_filter : forall ls impl, wkc_render_get ls impl None = Ok (ls ++ impl_info_links impl).
Proof. reflexivity. Qed.
Lemma wkc_no_equals : forall ls impl q, split_eq q = None -> wkc_render_get ls impl (Some q) = Ok (ls ++ impl_info_links impl).
Proof. intros ls impl q H. unfold wkc_render_get. rewrite H. reflexivity. Qed.
Lemma wkc_filter_is_filter_links : forall ls impl q k v, split_eq q = Some (k, v) ->
  wkc_render_get ls impl (Some q) = filter_links k v (ls ++ impl_info_links impl).
Proof. intros ls impl q k v H. unfold wkc_render_get. rewrite H. reflexivity. Qed.

(* ------------------------------------------------------------------ RFC 6690 section 4.1 as a specification *)
Definition pat_match (is_prefix : bool) (pat x : string) : bool := if is_prefix then String.prefix pat x else String.eqb x pat.
(* the string values of the attribute named k (an attribute without value has nothing to compare against) *)
Definition str_values (l : link) (k : string) : list string :=
  flat_map (fun a : attr => if String.eqb (fst a) k then match snd a with Some s => [s] | None => [] end else []) (snd l).
Definition rfc_values (l : link) (k : string) : list string :=
  if String.eqb k "href" then [fst l]
  else if mem_str k ["rt"; "if"; "ct"]%string then flat_map split_space (str_values l k)
  else str_values l k.
(* a link matches k=v when some value of the attribute (some space-separated item for rt/if/ct, the href for href) equals v,
   or starts with v minus the star when v ends in "*"; a missing attribute matches nothing *)
Definition rfc6690_match (k v : string) (l : link) : bool :=
  let is_prefix := ends_with_star v in
  let pat := if is_prefix then drop_last_char v else v in
  existsb (pat_match is_prefix pat) (rfc_values l k).

(* side conditions under which the implementation agrees with the specification *)
Definition link_ok (k : string) (l : link) : Prop :=
  (forall a, In a (snd l) -> lower (fst a) = fst a) /\           (* attribute names in lower case *)
  ~ In None (attr_values l k) /\                                  (* the filtered attribute is not a valueless one (finding: obs=* crashes) *)
  (List.length (attr_values l k) <= 1)%nat.                       (* link descriptions come from dicts: one pair per name *)
Definition key_ok (k v : string) : Prop :=
  lower k = k /\
  mem_str k SINGLE_VALUED_ATTRS = false /\                        (* finding: title/rel/... are compared character by character *)
  mem_str k LINK_METHODS = false /\ String.eqb k "attr_pairs" = false /\   (* finding: Python attribute names crash *)
  (mem_str k ["rt"; "if"; "ct"]%string = true ->                  (* finding: an empty pattern matches links lacking rt/if/ct *)
   (if ends_with_star v then drop_last_char v else v) <> ""%string).

Lemma any_match_strs : forall pfx pat xs, any_match pfx pat (map VStr xs) = Ok (existsb (pat_match pfx pat) xs).
Proof.
  intros pfx pat. induction xs as [|x xs IH]; [reflexivity|].
  cbn [map any_match matchexp bind existsb]. fold (pat_match pfx pat x). destruct (pat_match pfx pat x); [reflexivity | exact IH].
Qed.

Lemma attr_values_canon : forall l k, (forall a, In a (snd l) -> lower (fst a) = fst a) -> lower k = k ->
  ~ In None (attr_values l k) -> attr_values l k = map Some (str_values l k).
Proof.
  intros [h attrs] k. unfold attr_values, str_values. cbn [snd]. intros Hc Hk Hn. rewrite Hk in Hn |- *.
  induction attrs as [|[key val] attrs IH]; [reflexivity|].
  cbn [filter flat_map fst snd] in *.
  assert (Hkey : lower key = key) by (apply (Hc (key, val)); left; reflexivity).
  rewrite Hkey in Hn |- *.
  destruct (String.eqb key k).
  - cbn [map] in *. destruct val as [s|].
    + cbn [app map]. f_equal. apply IH; [intros a Ha; apply Hc; right; exact Ha | intro H; apply Hn; right; exact H].
    + exfalso. apply Hn. left. reflexivity.
  - apply IH; [intros a Ha; apply Hc; right; exact Ha | exact Hn].
Qed.

Lemma all_strs_some : forall xs, all_strs (map Some xs) = Ok xs.
Proof. induction xs as [|x xs IH]; [reflexivity|]. cbn [map all_strs]. rewrite IH. reflexivity. Qed.
Lemma prefix_empty_r : forall pat, pat <> ""%string -> String.prefix pat "" = false.
Proof. intros [|c r] H; [congruence | reflexivity]. Qed.
Lemma pat_match_empty : forall pfx pat, pat <> ""%string -> pat_match pfx pat "" = false.
Proof.
  intros pfx pat H. unfold pat_match. destruct pfx; [apply prefix_empty_r; exact H|].
  destruct pat; [congruence | reflexivity].
Qed.

Lemma link_matches_spec : forall k v l, key_ok k v -> link_ok k l -> link_matches k v l = Ok (rfc6690_match k v l).
Proof.
  intros k v l [Hk [Hsv [Hlm [Hap Hpat]]]] [Hc [Hn Hlen]].
  unfold link_matches, rfc6690_match, rfc_values.
  set (pfx := ends_with_star v) in *. set (pat := if pfx then drop_last_char v else v) in *.
  pose proof (attr_values_canon l k Hc Hk Hn) as Hav.
  destruct (mem_str k ["rt"; "if"; "ct"]%string) eqn:Ert.
  - assert (Hne : String.eqb k "href" = false).
    { destruct (String.eqb_spec k "href") as [->|]; [discriminate Ert | reflexivity]. }
    rewrite Hne. unfold space_parts. rewrite Hav, all_strs_some. cbn [bind].
    rewrite Hav, map_length in Hlen.
    destruct (str_values l k) as [|s [|s2 rest]]; [| |simpl in Hlen; lia].
    + cbn [join String.concat flat_map existsb]. change (split_space "") with [""%string].
      cbn [map any_match matchexp bind]. fold (pat_match pfx pat ""). rewrite (pat_match_empty pfx pat (Hpat eq_refl)). reflexivity.
    + cbn [join String.concat flat_map]. rewrite app_nil_r. apply any_match_strs.
  - destruct (String.eqb k "href") eqn:Eh.
    + cbn [matchexp existsb]. fold (pat_match pfx pat (fst l)). rewrite orb_false_r. reflexivity.
    + unfold getattr_iter. rewrite Hap, Hlm, Hsv, Hav. cbn [bind].
      replace (map opt_to_pyv (map Some (str_values l k))) with (map VStr (str_values l k)) by (rewrite map_map; reflexivity).
      apply any_match_strs.
Qed.

Lemma filter_links_spec : forall k v ls, key_ok k v -> Forall (link_ok k) ls ->
  filter_links k v ls = Ok (filter (rfc6690_match k v) ls).
Proof.
  intros k v ls Hk. induction ls as [|l ls IH]; intro HF; [reflexivity|].
  inversion HF as [|? ? Hl HF']; subst. cbn [filter_links filter].
  rewrite (link_matches_spec k v l Hk Hl). cbn [bind]. rewrite (IH HF'). cbn [bind]. reflexivity.
Qed.

(* the href filter needs no side condition at all *)
Lemma filter_links_href : forall v ls, filter_links "href" v ls = Ok (filter (rfc6690_match "href" v) ls).
Proof.
  intros v. induction ls as [|l ls IH]; [reflexivity|].
  cbn [filter_links filter]. unfold link_matches at 1. cbn [mem_str existsb String.eqb Ascii.eqb Bool.eqb orb].
  cbn [matchexp bind]. rewrite IH. cbn [bind].
  unfold rfc6690_match, rfc_values. cbn [String.eqb Ascii.eqb Bool.eqb existsb]. unfold pat_match. rewrite orb_false_r. reflexivity.
Qed.
