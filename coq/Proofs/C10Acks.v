(* C10 — part 5: over every history, each ACK under a peer's message ID consumes one recorded piggy-back opportunity. *)
From Verif Require Import Lib.Py Lib.Tactics Model.C10 Proofs.C10.
Open Scope Z_scope.

Definition counts (p M : Z) (e : (Z * list Z) * (Z * Z)) : bool := (fst (fst e) =? p) && (fst (snd e) =? M).
Definition cnt (p M : Z) (pg : list ((Z * list Z) * (Z * Z))) : nat := length (filter (counts p M) pg).
Definition okp (p M : Z) (s s' : st) (o : list output) : Prop := (acks p M o + cnt p M (piggy s') <= cnt p M (piggy s))%nat.

Lemma acks_app p M a b : acks p M (a ++ b) = (acks p M a + acks p M b)%nat.
Proof. unfold acks. rewrite filter_app, app_length. reflexivity. Qed.
Lemma quiet_acks p M o : quiet o -> acks p M o = 0%nat.
Proof.
  induction 1 as [|x l [H1 _] _ IH]; [reflexivity|]. unfold acks in *. cbn.
  destruct x as [r m| | | | |]; cbn in *; try exact IH. destruct (mtype m); cbn in *; try discriminate; exact IH.
Qed.
Lemma okp_same p M s s' o : piggy s' = piggy s -> acks p M o = 0%nat -> okp p M s s' o.
Proof. unfold okp. intros -> ->. lia. Qed.
Lemma okp_trans p M s s1 s2 o1 o2 : okp p M s s1 o1 -> okp p M s1 s2 o2 -> okp p M s s2 (o1 ++ o2).
Proof. unfold okp. rewrite acks_app. lia. Qed.

Lemma cnt_adel_le p M l k : (cnt p M (adel pk_eqb l k) <= cnt p M l)%nat.
Proof.
  unfold cnt. induction l as [|[k0 v0] l IH]; cbn; [lia|]. destruct (pk_eqb k0 k); cbn; destruct (counts p M (k0, v0)); cbn; lia.
Qed.
Lemma cnt_adel_hit p M l k h : aget pk_eqb l k = Some (M, h) -> fst k = p -> (cnt p M (adel pk_eqb l k) + 1 <= cnt p M l)%nat.
Proof.
  unfold cnt. induction l as [|[k0 v0] l IH]; cbn; [discriminate|]. destruct (pk_eqb k0 k) eqn:E.
  - intros H Hk. inv H. apply pk_eqb_eq in E. subst k0. unfold counts at 2. cbn. rewrite !Z.eqb_refl. cbn.
    pose proof (cnt_adel_le (fst k) M l k) as Hle. unfold cnt in Hle. lia.
  - intros H Hk. specialize (IH H Hk). cbn. destruct (counts p M (k0, v0)); cbn; lia.
Qed.
Lemma cnt_areplace_le p M l k v : counts p M (k, v) = false -> (forall k0, pk_eqb k0 k = true -> k0 = k) ->
  (cnt p M (areplace pk_eqb l k v) <= cnt p M l)%nat.
Proof.
  unfold cnt. intros Hc Heq. induction l as [|[k0 v0] l IH]; cbn; [lia|]. destruct (pk_eqb k0 k) eqn:E; cbn.
  - apply Heq in E. subst k0. rewrite Hc. destruct (counts p M (k, v0)); cbn; lia.
  - destruct (counts p M (k0, v0)); cbn; lia.
Qed.
Lemma cnt_aset_le p M l k v : counts p M (k, v) = false -> (cnt p M (aset pk_eqb l k v) <= cnt p M l)%nat.
Proof.
  intros Hc. unfold aset. destruct (amem pk_eqb l k).
  - apply cnt_areplace_le; [exact Hc|]. intros k0 H. apply pk_eqb_eq in H. exact H.
  - unfold cnt. rewrite filter_app, app_length. cbn. rewrite Hc. cbn. lia.
Qed.

(* ---- functions that leave the opportunities alone *)
Lemma fail_request_piggy s q e : piggy (fst (fail_request s q e)) = piggy s.
Proof. unfold fail_request. destruct (find_req _ _); reflexivity. Qed.
Lemma continue_loop_piggy bl : forall s p, piggy (fst (_continue_backlog_loop s p bl)) = piggy s.
Proof.
  induction bl as [|[[r m] mon] bl IH]; intros s p; cbn [_continue_backlog_loop].
  - destruct (has_exchange s p); reflexivity.
  - destruct (has_exchange s p); [reflexivity|].
    destruct (_send_initially s r m mon) as [s1 o1] eqn:E1. pose proof (send_initially_ok_piggy _ _ _ _ _ _ E1) as H1.
    specialize (IH s1 p). destruct (_continue_backlog_loop s1 p bl) as [s2 o2]. cbn in *. congruence.
Qed.
Lemma remove_exchange_piggy s r m : piggy (fst (_remove_exchange s r m)) = piggy s.
Proof.
  unfold _remove_exchange. destruct (aget zz_eqb (exch s) (rpeer r, mid m)) as [[mon h]|]; [|reflexivity].
  set (s1 := cancel_r _ h).
  assert (Hp : piggy (fst (match mtype m with RST => run_monitor s1 mon | _ => (s1, []) end)) = piggy s).
  { destruct (mtype m); try reflexivity. destruct mon; cbn; [rewrite fail_request_piggy|]; reflexivity. }
  destruct (match mtype m with RST => run_monitor s1 mon | _ => (s1, []) end) as [s2 o1]. cbn in Hp.
  unfold _continue_backlog. destruct (aget Z.eqb (backlogs s2) (rpeer r)) as [bl|]; [|exact Hp].
  pose proof (continue_loop_piggy bl s2 (rpeer r)) as Hl. destruct (_continue_backlog_loop s2 (rpeer r) bl) as [s3 o2]. cbn in *. congruence.
Qed.

Lemma send_initially_acks p M s r m mon s' o : _send_initially s r m mon = (s', o) ->
  piggy s' = piggy s /\ acks p M o = (if is_ack_for p M (Send r m) then 1 else 0)%nat.
Proof.
  intros H. split; [eapply send_initially_ok_piggy; eauto|].
  pose proof (send_initially_out s r m mon) as [Ho _]. rewrite H in Ho. cbn in Ho. subst o. unfold acks. cbn.
  destruct (mtype_eqb (mtype m) ACK && (rpeer r =? p) && (mid m =? M)); reflexivity.
Qed.

Lemma tail_nonack p M s1 r1 build mt md mon rq s' o e : send_message_tail s1 r1 build mt md mon rq = (s', o, e) ->
  select_mtype mt r1 rq <> ACK -> (forall md, mtype (build (select_mtype mt r1 rq) md) = select_mtype mt r1 rq) ->
  piggy s' = piggy s1 /\ acks p M o = 0%nat.
Proof.
  unfold send_message_tail. intros H Hn Hb.
  destruct (mtype_eqb (select_mtype mt r1 rq) CON && is_multicast r1). { inv H. auto. }
  set (q := match md with Some v => (s1, v) | None => _next_message_id s1 end) in H.
  assert (Hq : piggy (fst q) = piggy s1) by (subst q; destruct md; reflexivity).
  destruct q as [s2 md1]. cbn in Hq.
  destruct (mtype_eqb (select_mtype mt r1 rq) CON && amem Z.eqb (backlogs s2) (rpeer r1)). { inv H. auto. }
  destruct (_send_initially s2 r1 (build (select_mtype mt r1 rq) md1) mon) as [s3 o3] eqn:E3. inv H.
  apply (send_initially_acks p M) in E3 as [Hp Ha]. split; [congruence|]. rewrite Ha. cbn. rewrite Hb.
  destruct (select_mtype mt r1 rq); try reflexivity. congruence.
Qed.

Definition app_mtype_ok (mt : option mtype_t) : Prop := mt = None \/ mt = Some CON \/ mt = Some NON.
Lemma select_ok mt r rq : app_mtype_ok mt -> select_mtype mt r rq <> ACK.
Proof.
  unfold select_mtype. intros [ -> | [ -> | -> ] ]; try discriminate. destruct (is_multicast r); [discriminate|]. destruct rq as [[]|]; discriminate.
Qed.

Lemma send_message_acks p M s r a mon rq s' o e : send_message s r a mon rq = (s', o, e) -> app_mtype_ok (a_mtype a) -> okp p M s s' o.
Proof.
  unfold send_message. intros H Hm.
  assert (Hplain : forall s0, send_message_tail s0 r (mk_wire a) (a_mtype a) None mon rq = (s', o, e) -> piggy s0 = piggy s -> okp p M s s' o).
  { intros s0 Ht Hp. apply (tail_nonack p M) in Ht; [|apply select_ok; exact Hm|reflexivity]. destruct Ht as [H1 H2]. apply okp_same; congruence. }
  destruct (is_response (a_code a)); [|eapply Hplain; eauto].
  destruct (aget pk_eqb (piggy s) (rpeer r, a_token a)) as [[pmid h]|] eqn:Eg.
  - assert (Hhit : forall r1 w, mid w = pmid -> mtype w = ACK -> rpeer r1 = rpeer r ->
       okp p M s (fst (_send_initially (cancel_a (set_piggy s (adel pk_eqb (piggy s) (rpeer r, a_token a))) h) r1 w mon)) [Send r1 w]).
    { intros r1 w Hmid Hty Hpe. unfold okp.
      destruct (_send_initially (cancel_a (set_piggy s (adel pk_eqb (piggy s) (rpeer r, a_token a))) h) r1 w mon) as [s3 o3] eqn:E3.
      apply send_initially_ok_piggy in E3. cbn [fst]. rewrite E3. cbn [piggy cancel_a set_atimers set_piggy].
      unfold acks. cbn. rewrite Hty, Hpe, Hmid. cbn.
      destruct ((rpeer r =? p) && (pmid =? M)) eqn:Ec; cbn.
      - apply andb_true_iff in Ec as [E1 E2]. apply Z.eqb_eq in E1, E2. rewrite E2 in Eg.
        pose proof (cnt_adel_hit p M (piggy s) (rpeer r, a_token a) h Eg E1). lia.
      - pose proof (cnt_adel_le p M (piggy s) (rpeer r, a_token a)). lia. }
    destruct (no_response_of a).
    + rewrite tail_ack in H. inv H. apply Hhit; [reflexivity|reflexivity|apply rpeer_ara].
    + rewrite tail_ack in H. inv H. apply Hhit; reflexivity.
  - destruct (no_response_of a). { inv H. apply okp_same; reflexivity. }
    eapply Hplain; eauto.
Qed.

Lemma okp_nil p M s : okp p M s s [].
Proof. apply okp_same; reflexivity. Qed.

Lemma send_response_acks p M s r req c rnr pl s' o : send_response s r req c rnr pl = (s', o) -> okp p M s s' o.
Proof.
  unfold send_response. intros H.
  match type of H with context [send_message ?s ?r ?a ?m ?q] => destruct (send_message s r a m q) as [[s1 o1] e] eqn:E1 end.
  inv H. eapply send_message_acks; [exact E1|left; reflexivity].
Qed.

Lemma okp_ext p M s0 s s' o : piggy s0 = piggy s -> okp p M s0 s' o -> okp p M s s' o.
Proof. unfold okp. intros ->. auto. Qed.
Lemma okp_ext_r p M s s1 s' o : piggy s' = piggy s1 -> okp p M s s1 o -> okp p M s s' o.
Proof. unfold okp. intros ->. auto. Qed.

Lemma tm_process_request_acks p M s r m s' o : tm_process_request s r m = (s', o) -> okp p M s s' o.
Proof.
  unfold tm_process_request. intros H.
  set (q := match aget ik_eqb (incoming s) (token m, rpeer r) with Some sv => _ | None => (s, []) end) in H.
  assert (Hq : piggy (fst q) = piggy s /\ acks p M (snd q) = 0%nat) by (subst q; destruct (aget ik_eqb _ _); cbn; auto).
  destruct q as [s1 o1]. cbn in Hq. destruct Hq as [Hp1 Ha1].
  dlet H s2 o2 E. injection H as <- <-.
  assert (okp p M s1 s2 o2).
  { destruct (negb _); [eapply send_response_acks; eauto|]. destruct (negb _); [eapply send_response_acks; eauto|].
    destruct (path m =? 0). { inv E. apply okp_same; reflexivity. }
    destruct (path m =? 1); eapply send_response_acks; eauto. }
  eapply okp_trans; [|exact H]. apply okp_same; auto.
Qed.

Lemma handler_respond_acks p M s k c rnr pl s' o : handler_respond s k c rnr pl = (s', o) -> okp p M s s' o.
Proof.
  unfold handler_respond. intros H. destruct (find_srv (incoming s) k) as [[key sv]|]; [|inv H; apply okp_nil].
  dlet H s2 o2 E. injection H as <- <-. apply (send_response_acks p M) in E. eapply okp_ext_r; [|exact E]. reflexivity.
Qed.

Lemma tm_request_acks p M s pe mt ob s' o : tm_request s pe mt ob = (s', o) -> app_mtype_ok mt -> okp p M s s' o.
Proof.
  unfold tm_request, next_token_. intros H Hm. cbv zeta in H.
  match type of H with context [send_message ?s ?r ?a ?m ?q] => destruct (send_message s r a m q) as [[s3 o3] [e|]] eqn:E end.
  - apply (send_message_acks p M) in E; [|exact Hm].
    pose proof (fail_request_piggy s3 (next_req s) e) as Hf. destruct (fail_request s3 (next_req s) e) as [s4 o4] eqn:E4. inv H.
    eapply okp_trans; [eapply okp_ext; [|exact E]; reflexivity|]. apply okp_same; [exact Hf|].
    apply quiet_acks. pose proof (fail_request_quiet s3 (next_req s) e) as Hq. rewrite E4 in Hq. exact Hq.
  - inv H. apply (send_message_acks p M) in E; [|exact Hm]. eapply okp_ext; [|exact E]. reflexivity.
Qed.

Lemma process_request_acks p M s r m s' o : _process_request s r m = (s', o) -> (rpeer r, mid m) <> (p, M) -> okp p M s s' o.
Proof.
  unfold _process_request. intros H Hne.
  match type of H with tm_process_request ?x r m = _ => set (s1 := x) in H end.
  apply (tm_process_request_acks p M) in H. unfold okp in *.
  assert (Hle : (cnt p M (piggy s1) <= cnt p M (piggy s))%nat); [|lia].
  subst s1. destruct (mtype m); try lia. unfold call_later_a. cbn [piggy set_atimers].
  assert (Hc : counts p M ((rpeer r, token m), (mid m, seq s)) = false).
  { unfold counts. cbn. destruct (rpeer r =? p) eqn:E1; [|reflexivity]. destruct (mid m =? M) eqn:E2; [|reflexivity].
    apply Z.eqb_eq in E1, E2. exfalso. apply Hne. congruence. }
  destruct (aget pk_eqb (piggy s) (rpeer r, token m)) as [[pm old]|]; cbn [piggy set_piggy cancel_a set_atimers].
  - eapply Nat.le_trans; [apply cnt_aset_le; exact Hc|apply cnt_adel_le].
  - apply cnt_aset_le. exact Hc.
Qed.

Lemma dedup_acks p M s r m s' o b : _deduplicate_message s r m = (s', o, b) -> BInv s -> (rpeer r, mid m) <> (p, M) ->
  piggy s' = piggy s /\ acks p M o = 0%nat.
Proof.
  unfold _deduplicate_message. intros H HB Hne. destruct (aget zz_eqb (recent s) (rpeer r, mid m)) as [stored|] eqn:Eg.
  - destruct (mtype m); try (inv H; auto; fail). destruct stored as [[r' m']|]; [|inv H; auto].
    destruct (_send_initially s r' m' MonResp) as [s1 o1] eqn:E1. inv H.
    apply (send_initially_acks p M) in E1 as [Hp Ha]. split; [exact Hp|]. rewrite Ha.
    apply aget_in in Eg as (k' & Hin & Hk). apply zz_eqb_eq in Hk. subst k'. destruct HB as (_ & _ & H3). apply H3 in Hin as [_ Hkey].
    inv Hkey. cbn. destruct (rpeer r' =? p) eqn:E1; [|rewrite andb_false_r; reflexivity]. destruct (mid m' =? M) eqn:E2; [|rewrite andb_false_r; reflexivity].
    apply Z.eqb_eq in E1, E2. exfalso. apply Hne. congruence.
  - unfold call_later_r in H. inv H. auto.
Qed.

Lemma tm_process_response_acks p M s r m s' o b : tm_process_response s r m = (s', o, b) -> piggy s' = piggy s /\ acks p M o = 0%nat.
Proof.
  unfold tm_process_response. intros H.
  match type of H with context [aget ok_eqb (outgoing s) ?k] => destruct (aget ok_eqb (outgoing s) k) as [[q ob]|] end; inv H; auto.
  destruct (negb _); auto.
Qed.

Lemma ack_other p M r w : (rpeer r, mid w) <> (p, M) -> acks p M [Send r w] = 0%nat.
Proof.
  intros Hne. unfold acks. cbn. destruct (rpeer r =? p) eqn:E1; [|rewrite andb_false_r; reflexivity].
  destruct (mid w =? M) eqn:E2; [|rewrite andb_false_r; reflexivity]. apply Z.eqb_eq in E1, E2. exfalso. apply Hne. congruence.
Qed.

Lemma dispatch_message_acks p M s r m s' o : dispatch_message s r m = (s', o) -> BInv s -> (rpeer r, mid m) <> (p, M) -> okp p M s s' o.
Proof.
  unfold dispatch_message. intros H HB Hne.
  set (p0 := if is_request (code m) then _deduplicate_message s r m else (s, [], false)) in H.
  assert (H0 : BInv (fst (fst p0)) /\ piggy (fst (fst p0)) = piggy s /\ acks p M (snd (fst p0)) = 0%nat).
  { subst p0. destruct (is_request (code m)); cbn; auto. destruct (_deduplicate_message s r m) as [[? ?] ?] eqn:E. cbn.
    split; [eapply dedup_ok; eauto|eapply dedup_acks; eauto]. }
  destruct p0 as [[s0 o0] dup]. cbn in H0. destruct H0 as (HB0 & Hp0 & Ha0). destruct dup. { inv H. apply okp_same; auto. }
  set (p1 := match mtype m with ACK | RST => _remove_exchange s0 r m | _ => (s0, []) end) in H.
  assert (H1 : BInv (fst p1) /\ piggy (fst p1) = piggy s0 /\ acks p M (snd p1) = 0%nat).
  { subst p1. destruct (mtype m); cbn; auto; pose proof (remove_exchange_piggy s0 r m) as Hp; destruct (_remove_exchange s0 r m) as [sx ox] eqn:E; cbn in *;
    (split; [eapply remove_exchange_ok; eauto|split; [exact Hp|apply quiet_acks; eapply remove_exchange_quiet; eauto]]). }
  destruct p1 as [s1 o1]. cbn in H1. destruct H1 as (HB1 & Hp1 & Ha1).
  dlet H s2 o2 E. injection H as <- <-.
  assert (H2 : okp p M s1 s2 o2).
  { destruct (code m =? EMPTY).
    { destruct (mtype m); try (inv E; apply okp_nil; fail). unfold _process_ping in E. apply (send_initially_acks p M) in E as [Hp Ha].
      apply okp_same; [exact Hp|]. rewrite Ha. reflexivity. }
    destruct (is_request (code m)).
    { destruct (mtype m); try (inv E; apply okp_nil; fail); eapply process_request_acks; eauto. }
    destruct (is_response (code m)); [|inv E; apply okp_nil].
    assert (Hgo : forall t, (let '(s', o, success) := tm_process_response s1 r m in
        if success then match t with CON => let '(s'', o') := _send_empty_ack s' r (mid m) in (s'', o ++ o') | _ => (s', o) end
        else if mtype_eqb t CON && negb (is_multicast_locally r)
             then let '(s'', o') := _send_initially s' (as_response_address r) (empty_msg RST (mid m)) MonResp in (s'', o ++ o')
             else (s', o)) = (s2, o2) -> okp p M s1 s2 o2).
    { intros t Ht. destruct (tm_process_response s1 r m) as [[sx ox] success] eqn:Et. apply (tm_process_response_acks p M) in Et as [Hpx Hax].
      destruct success.
      - destruct t; try (inv Ht; apply okp_same; auto; fail). unfold _send_empty_ack in Ht.
        destruct (_send_initially sx (as_response_address r) (empty_msg ACK (mid m)) MonResp) as [s'' o''] eqn:Ea. inv Ht.
        pose proof (send_initially_out sx (as_response_address r) (empty_msg ACK (mid m)) MonResp) as [Ho _]. rewrite Ea in Ho. cbn in Ho. subst o''.
        apply send_initially_ok_piggy in Ea. apply okp_same; [congruence|]. rewrite acks_app, Hax. apply ack_other. rewrite rpeer_ara. exact Hne.
      - destruct (mtype_eqb t CON && negb (is_multicast_locally r)); [|inv Ht; apply okp_same; auto].
        destruct (_send_initially sx (as_response_address r) (empty_msg RST (mid m)) MonResp) as [s'' o''] eqn:Ea. inv Ht.
        apply (send_initially_acks p M) in Ea as [Hp Ha]. apply okp_same; [congruence|]. rewrite acks_app, Hax, Ha. reflexivity. }
    destruct (mtype m); [apply (Hgo CON); exact E|apply (Hgo NON); exact E|apply (Hgo ACK); exact E|inv E; apply okp_nil]. }
  unfold okp in *. rewrite !acks_app. rewrite Hp0 in Hp1. rewrite Hp1 in H2. unfold acks in *. lia.
Qed.

Lemma on_timeout_okp p M s r tok s' o : on_timeout s r tok = (s', o) -> okp p M s s' o.
Proof.
  unfold on_timeout. intros H. destruct (aget pk_eqb (piggy s) (rpeer r, tok)) as [[pm h]|] eqn:Eg.
  - unfold _send_empty_ack in H. pose proof (send_initially_out (set_piggy s (adel pk_eqb (piggy s) (rpeer r, tok))) (as_response_address r) (empty_msg ACK pm) MonResp) as [Ho _].
    rewrite H in Ho. cbn in Ho. subst o. apply send_initially_ok_piggy in H. unfold okp. rewrite H. cbn [piggy set_piggy].
    unfold acks. cbn. rewrite rpeer_ara. destruct ((rpeer r =? p) && (pm =? M)) eqn:Ec; cbn.
    + apply andb_true_iff in Ec as [E1 E2]. apply Z.eqb_eq in E1, E2. rewrite E2 in Eg.
      pose proof (cnt_adel_hit p M (piggy s) (rpeer r, tok) h Eg E1). lia.
    + pose proof (cnt_adel_le p M (piggy s) (rpeer r, tok)). lia.
  - inv H. apply okp_same; reflexivity.
Qed.

Lemma tm_dispatch_error_acks p M s pe e s' o : tm_dispatch_error s pe e = (s', o) -> piggy s' = piggy s /\ acks p M o = 0%nat.
Proof.
  unfold tm_dispatch_error. intros H. inv H. split; [reflexivity|]. rewrite acks_app.
  assert (H1 : forall l, acks p M (fail_all l pe e) = 0%nat).
  { induction l as [|[[? ?] [? ?]] l IH]; cbn; [reflexivity|]. destruct (oz_eqb _ _); auto. }
  assert (H2 : forall l, acks p M (cancel_all l pe) = 0%nat).
  { induction l as [|[[? ?] ?] l IH]; cbn; [reflexivity|]. destruct (_ =? _); auto. }
  rewrite H1, H2. reflexivity.
Qed.

Lemma retransmit_acks p M s r m to c s' o : _retransmit s r m to c = (s', o) -> mtype m = CON -> piggy s' = piggy s /\ acks p M o = 0%nat.
Proof.
  unfold _retransmit. intros H Hc. destruct (aget zz_eqb (exch s) (rpeer r, mid m)) as [[mon h]|]; [|inv H; auto].
  set (s1 := cancel_r _ h) in H. destruct (c <? MAX_RETRANSMIT).
  - unfold call_later_r in H. inv H. split; [reflexivity|]. unfold acks. cbn. rewrite Hc. reflexivity.
  - destruct (amem Z.eqb (backlogs s1) (rpeer r)); [|inv H; auto].
    apply (tm_dispatch_error_acks p M) in H. exact H.
Qed.

Definition ev_ok (p M : Z) (e : event) : Prop :=
  match e with
  | Recv r m => (rpeer r, mid m) <> (p, M)
  | Request _ mt _ => app_mtype_ok mt
  | _ => True
  end.

Lemma next_timer_r_in s t : next_timer s = Some (false, t) -> In t (rtimers s).
Proof.
  unfold next_timer. intros H. apply min_timer_in.
  destruct (min_timer (atimers s)) as [a|]; destruct (min_timer (rtimers s)) as [b|]; try discriminate.
  - destruct (earlier b a); inv H. reflexivity.
  - inv H. reflexivity.
Qed.

Lemma step_acks p M s e s' o : step s e = (s', o) -> BInv s -> ev_ok p M e -> okp p M s s' o.
Proof.
  destruct e as [r m|k c rnr pl|pe mt ob| |d]; cbn [step ev_ok]; intros H HB He.
  - eapply dispatch_message_acks; eauto.
  - eapply handler_respond_acks; eauto.
  - eapply tm_request_acks; eauto.
  - destruct (next_timer s) as [[[|] t]|] eqn:En; [| |inv H; apply okp_nil].
    + destruct (kind t); [|inv H; apply okp_same; reflexivity|inv H; apply okp_same; reflexivity].
      apply (on_timeout_okp p M) in H. eapply okp_ext; [|exact H]. reflexivity.
    + unfold run_timer in H. destruct (kind t) as [r tok|r m to c|pe md] eqn:Ek.
      * inv H. apply okp_same; reflexivity.
      * apply next_timer_r_in in En. destruct HB as (_ & H2 & _). destruct (H2 _ _ _ _ _ En Ek) as [Hc _].
        apply (retransmit_acks p M) in H; [|exact Hc]. destruct H as [Hp Ha]. apply okp_same; [rewrite Hp; reflexivity|exact Ha].
      * inv H. apply okp_same; reflexivity.
  - inv H. apply okp_same; reflexivity.
Qed.

(* every acknowledgement consumes an opportunity: over any history that contains no (other) message from [p] with message ID [M]
   and in which the application does not itself send ACK-typed requests *)
Theorem acks_bounded es : forall s s' os p M, run s es = (s', os) -> BInv s -> Forall (ev_ok p M) es ->
  (acks p M (outputs_of os) + cnt p M (piggy s') <= cnt p M (piggy s))%nat.
Proof.
  induction es as [|e es IH]; intros s s' os p M H HB Hev; cbn [run] in H.
  - inv H. cbn. lia.
  - destruct (step s e) as [s1 o] eqn:E1. destruct (run s1 es) as [s2 os2] eqn:E2. inv H. inv Hev.
    pose proof (step_acks p M _ _ _ _ E1 HB H1) as Hs. apply step_ok in E1; [|exact HB]. destruct E1 as [HB1 _].
    specialize (IH _ _ _ p M E2 HB1 H2). unfold outputs_of in *. cbn [map concat snd]. rewrite acks_app. unfold okp in Hs. lia.
Qed.

(* a CON request to the slow resource whose token is not in use and whose (peer, mid) has no opportunity recorded: afterwards there is
   exactly one, so by [acks_bounded] at most one ACK is ever sent under that message ID *)
Lemma cnt_aset_fresh p M l k v : aget pk_eqb l k = None -> cnt p M (aset pk_eqb l k v) = (cnt p M l + (if counts p M (k, v) then 1 else 0))%nat.
Proof.
  intros Hn. unfold aset, amem. rewrite Hn. unfold cnt. rewrite filter_app, app_length. cbn. destruct (counts p M (k, v)); reflexivity.
Qed.

Theorem con_request_acked_at_most_once s r m s1 o1 es s' os :
  BInv s -> mtype m = CON -> path m = 0 -> 1 <= code m <= 7 ->
  aget zz_eqb (recent s) (rpeer r, mid m) = None ->                       (* not a duplicate *)
  aget pk_eqb (piggy s) (rpeer r, token m) = None ->                       (* side condition O3 *)
  cnt (rpeer r) (mid m) (piggy s) = 0%nat ->                               (* no opportunity under this (peer, mid) yet *)
  dispatch_message s r m = (s1, o1) -> run s1 es = (s', os) -> Forall (ev_ok (rpeer r) (mid m)) es ->
  acks (rpeer r) (mid m) o1 = 0%nat /\ (acks (rpeer r) (mid m) (outputs_of os) <= 1)%nat.
Proof.
  intros HB Ht Hp Hc Hfresh Ho3 Hcnt Hd Hrun Hev.
  assert (Hf : fresh s r m) by (intros _; exact Hfresh).
  pose proof (reaction_table s r m s1 o1 HB Hf Hd) as Htab. rewrite Ht in Htab. unfold classify in Htab.
  replace (code m =? 0) with false in Htab by lia. replace (is_request (code m)) with true in Htab by (unfold is_request; lia).
  cbn [table] in Htab. destruct Htab as (s0 & Hpg & Hat & Hin & Hnow & Hpr).
  assert (HB1 : BInv s1) by (eapply dispatch_message_ok; eauto).
  pose proof (request_arms_timer s0 r m s1 o1 Ht Hp Hc) as Harm. rewrite Hpg in Harm. specialize (Harm Ho3 Hpr). destruct Harm as (Hg1 & _ & Hout).
  split.
  - unfold acks. assert (Hz : filter (is_ack_for (rpeer r) (mid m)) o1 = []); [|rewrite Hz; reflexivity].
    clear - Hout. induction o1 as [|x l IH]; [reflexivity|]. cbn. destruct (Hout x (or_introl eq_refl)) as (k & [->| ->]); cbn; apply IH; intros; apply Hout; right; assumption.
  - pose proof (acks_bounded es s1 s' os (rpeer r) (mid m) Hrun HB1 Hev) as Hb.
    assert (Hc1 : (cnt (rpeer r) (mid m) (piggy s1) <= 1)%nat); [|lia].
    (* the only change to the opportunities in this step is the one new entry *)
    unfold _process_request in Hpr. rewrite Ht in Hpr. unfold call_later_a in Hpr. cbv zeta in Hpr. cbn [piggy set_atimers] in Hpr.
    rewrite Hpg, Ho3 in Hpr. unfold tm_process_request in Hpr. rewrite Hp in Hpr. replace ((1 <=? code m) && (code m <=? 7)) with true in Hpr by lia.
    cbn [negb orb Z.eqb] in Hpr. cbv zeta in Hpr.
    destruct (aget ik_eqb _ (token m, rpeer r)) as [sv|] in Hpr; injection Hpr as <- _; cbn [piggy set_next_srv set_incoming set_piggy set_atimers];
      rewrite ?Hpg; rewrite cnt_aset_fresh by exact Ho3; rewrite Hcnt; destruct (counts _ _ _); lia.
Qed.
