(* C02 — proofs. Part 1: tokens (over the translated next_token); association lists. *)
From Verif Require Import Lib.Py Lib.PyLemmas Lib.Tactics Gen.tokenmanager_next_token Model.C02.
Open Scope Z_scope.

(* ------------------------------------------------------------------ tokens *)
Definition tokbytes (v : Z) : list Z := blstrip0 (to_bytes_big_n 8 v).

Lemma from_bytes_blstrip0 : forall b, from_bytes_big (blstrip0 b) = from_bytes_big b.
Proof.
  induction b as [|x b IH]; [reflexivity|]. cbn [blstrip0].
  destruct (x =? 0) eqn:E; [|reflexivity].
  apply Z.eqb_eq in E. subst x. rewrite IH. reflexivity.
Qed.

Lemma from_bytes_tokbytes : forall v, 0 <= v < 2 ^ 64 -> from_bytes_big (tokbytes v) = v.
Proof.
  intros v H. unfold tokbytes. rewrite from_bytes_blstrip0.
  change 8%nat with (Z.to_nat 8). apply from_bytes_big_to; [lia|]. exact H.
Qed.

Lemma token_injective_lemma : forall a b, 0 <= a < 2 ^ 64 -> 0 <= b < 2 ^ 64 -> tokbytes a = tokbytes b -> a = b.
Proof.
  intros a b Ha Hb E. rewrite <- (from_bytes_tokbytes a Ha), <- (from_bytes_tokbytes b Hb), E. reflexivity.
Qed.

Lemma next_token_spec : forall t,
  next_token t = Ok ({| tm_token := (tm_token t + 1) mod 2 ^ 64 |}, tokbytes ((tm_token t + 1) mod 2 ^ 64)).
Proof.
  intros t. unfold next_token, tokbytes. cbn [tm_token].
  assert (H : 0 <= (tm_token t + 1) mod 2 ^ 64 < 2 ^ 64) by (apply Z.mod_pos_bound; reflexivity).
  unfold to_bytes_big. change (2 ^ (8 * 8)) with (2 ^ 64).
  replace (((tm_token t + 1) mod 2 ^ 64 <? 0) || (2 ^ 64 <=? (tm_token t + 1) mod 2 ^ 64)) with false by lia.
  reflexivity.
Qed.

(* the counter after d further calls *)
Fixpoint next_token_n (d : nat) (t : tm) : tm :=
  match d with O => t | S k => match next_token (next_token_n k t) with Ok (t', _) => t' | Raise _ => t end end.
Lemma next_token_n_val : forall d t, 0 <= tm_token t < 2 ^ 64 ->
  tm_token (next_token_n d t) = (tm_token t + Z.of_nat d) mod 2 ^ 64.
Proof.
  induction d as [|d IH]; intros t H.
  - cbn. rewrite Z.add_0_r, Z.mod_small; lia.
  - cbn [next_token_n]. rewrite next_token_spec. cbn [tm_token]. rewrite IH by exact H.
    rewrite Zplus_mod_idemp_l. f_equal. lia.
Qed.
Lemma tokens_distinct_lemma : forall t d, 0 <= t < 2 ^ 64 -> 0 < d < 2 ^ 64 ->
  tokbytes ((t + d) mod 2 ^ 64) <> tokbytes t.
Proof.
  intros t d Ht Hd E.
  apply token_injective_lemma in E; [|apply Z.mod_pos_bound; reflexivity|exact Ht].
  change (2 ^ 64) with 18446744073709551616 in *. lia.
Qed.

(* ------------------------------------------------------------------ association lists *)
Section AListLemmas.
  Context {K V : Type} (eqb : K -> K -> bool) (eqb_spec : forall a b, eqb a b = true <-> a = b).
  Lemma eqb_refl_ k : eqb k k = true. Proof. apply eqb_spec. reflexivity. Qed.
  Lemma eqb_neq a b : eqb a b = false <-> a <> b.
  Proof. split; intros H. - intros E. apply eqb_spec in E. congruence.
    - destruct (eqb a b) eqn:E; [apply eqb_spec in E; contradiction|reflexivity]. Qed.
  Lemma alookup_aset k k' (v : V) l :
    alookup eqb k' (aset eqb k v l) = if eqb k' k then Some v else alookup eqb k' l.
  Proof.
    induction l as [|[k1 v1] r IH]; cbn [aset alookup].
    - reflexivity.
    - destruct (eqb k k1) eqn:E1; cbn [alookup].
      + apply eqb_spec in E1. subst k1. destruct (eqb k' k); reflexivity.
      + rewrite IH. destruct (eqb k' k1) eqn:E2; [|reflexivity].
        apply eqb_spec in E2. subst k1. destruct (eqb k' k) eqn:E3; [|reflexivity].
        apply eqb_spec in E3. subst k'. rewrite eqb_refl_ in E1. discriminate.
  Qed.
  Lemma alookup_aremove k k' (l : list (K * V)) :
    alookup eqb k' (aremove eqb k l) = if eqb k' k then None else alookup eqb k' l.
  Proof.
    induction l as [|[k1 v1] r IH]; cbn [aremove alookup].
    - destruct (eqb k' k); reflexivity.
    - destruct (eqb k k1) eqn:E1.
      + apply eqb_spec in E1. subst k1. rewrite IH. destruct (eqb k' k); reflexivity.
      + cbn [alookup]. rewrite IH. destruct (eqb k' k1) eqn:E2; [|reflexivity].
        apply eqb_spec in E2. subst k1. destruct (eqb k' k) eqn:E3; [|reflexivity].
        apply eqb_spec in E3. subst k'. rewrite eqb_refl_ in E1. discriminate.
  Qed.
  Lemma alookup_In k (v : V) l : alookup eqb k l = Some v -> In (k, v) l.
  Proof.
    induction l as [|[k1 v1] r IH]; cbn [alookup]; [discriminate|].
    destruct (eqb k k1) eqn:E; intros H.
    - apply eqb_spec in E. inversion H. subst. left. reflexivity.
    - right. apply IH. exact H.
  Qed.
  Lemma In_alookup k (v : V) l : In (k, v) l -> exists v', alookup eqb k l = Some v'.
  Proof.
    induction l as [|[k1 v1] r IH]; cbn [alookup In]; [contradiction|].
    intros [H|H].
    - inversion H. subst. rewrite eqb_refl_. eauto.
    - destruct (eqb k k1); eauto.
  Qed.
End AListLemmas.

Lemma Zeqb_spec : forall a b : Z, (a =? b) = true <-> a = b. Proof. intros. apply Z.eqb_eq. Qed.
Lemma opt_eqb_spec : forall a b, opt_eqb a b = true <-> a = b.
Proof. intros [a|] [b|]; cbn; split; intros H; try discriminate; try reflexivity.
  - apply Z.eqb_eq in H. congruence. - inversion H. apply Z.eqb_refl. Qed.
Lemma key_eqb_spec : forall a b : key, key_eqb a b = true <-> a = b.
Proof.
  intros [t1 r1] [t2 r2]. unfold key_eqb. cbn [fst snd]. rewrite andb_true_iff, list_eqb_Z_eq, opt_eqb_spec.
  split; [intros [-> ->]; reflexivity|intros H; inversion H; auto].
Qed.
Lemma rm_eqb_spec : forall a b : remote * Z, rm_eqb a b = true <-> a = b.
Proof.
  intros [a1 a2] [b1 b2]. unfold rm_eqb. cbn [fst snd]. rewrite andb_true_iff, !Z.eqb_eq.
  split; [intros [-> ->]; reflexivity|intros H; inversion H; auto].
Qed.

(* ------------------------------------------------------------------ what a Pipe event can produce *)
(* every output of delivering event [ev] to the pipe of request [q] is about q and about that very event *)
Definition out_ok (q : Z) (ev : pev) (o : output) : Prop :=
  match o with
  | SetResult q' rid tok from => q' = q /\ exists w l, ev = PResponse w from l /\ rid = w_rid w /\ tok = w_token w
  | Notify q' rid tok from => q' = q /\ exists w l, ev = PResponse w from l /\ rid = w_rid w /\ tok = w_token w
  | SetException q' e => q' = q /\ ev = PException e
  | ObsError q' _ => q' = q
  | Crash _ => True
  | _ => False
  end.

Ltac dmatch :=
  match goal with
  | |- context [match ?x with _ => _ end] => destruct x eqn:?
  | H : context [match ?x with _ => _ end] |- _ => destruct x eqn:?
  end.

Ltac invpairs := repeat match goal with H : (_, _) = (_, _) |- _ => inversion H; subst; clear H end.

Lemma run_out_ok : forall q c ev c' o stop keep, _run q c ev = (c', o, stop, keep) -> Forall (out_ok q ev) o.
Proof.
  intros q c ev c' o stop keep H. unfold _run in H.
  repeat dmatch; invpairs;
    repeat (apply Forall_cons || apply Forall_nil || apply Forall_app; try split); cbn; eauto 10.
Qed.

Lemma process_out_ok : forall q c ev c' o ks keep, process q c ev = (c', o, ks, keep) -> Forall (out_ok q ev) o.
Proof.
  intros q c ev c' o ks keep H. unfold process in H.
  destruct (_run q c ev) as [[[c1 o1] stop] kp] eqn:R. apply run_out_ok in R.
  destruct stop; [destruct (_stop_interest c1)|]; invpairs; exact R.
Qed.
Lemma call_cb_out_ok : forall q c x ev c' o ks keep, call_cb q c x ev = (c', o, ks, keep) -> Forall (out_ok q ev) o.
Proof.
  intros q c [|k] ev c' o ks keep H; cbn [call_cb] in H.
  - eapply process_out_ok; eauto.
  - destruct (pev_is_last ev); invpairs; constructor.
Qed.
Lemma loop_out_ok : forall q ev snap c c' o ks early,
  _add_event_loop q c snap ev = (c', o, ks, early) -> Forall (out_ok q ev) o.
Proof.
  intros q ev. induction snap as [|x rest IH]; intros c c' o ks early H; cbn [_add_event_loop] in H.
  - invpairs. constructor.
  - destruct (call_cb q c x ev) as [[[c1 o1] k1] keep] eqn:C. apply call_cb_out_ok in C.
    destruct keep.
    + destruct (_add_event_loop q c1 rest ev) as [[[c2 o2] k2] e2] eqn:L. invpairs.
      apply Forall_app. split; [exact C|eapply IH; eauto].
    + destruct (cq_cbs c1).
      * destruct (_add_event_loop q _ rest ev) as [[[c2 o2] k2] e2] eqn:L. invpairs.
        apply Forall_app. split; [exact C|eapply IH; eauto].
      * invpairs. exact C.
Qed.
Lemma pipe_add_event_out_ok : forall q c ev c' o ks, pipe_add_event q c ev = (c', o, ks) -> Forall (out_ok q ev) o.
Proof.
  intros q c ev c' o ks H. unfold pipe_add_event in H.
  destruct (cq_cbs c); [|invpairs; constructor].
  destruct (_add_event_loop q c l ev) as [[[c1 o1] k1] early] eqn:L. apply loop_out_ok in L.
  destruct early; [invpairs; exact L|].
  destruct (cq_cbs c1); [|invpairs; exact L].
  destruct (_any_interest l0); [invpairs; exact L|]. destruct (_end c1). invpairs. exact L.
Qed.
Lemma add_event_out_ok : forall s q ev s' o, _add_event s q ev = (s', o) -> Forall (out_ok q ev) o.
Proof.
  intros s q ev s' o H. unfold _add_event in H. destruct (get_req s q); [|invpairs; constructor].
  destruct (pipe_add_event q c ev) as [[c' o'] ks] eqn:P. invpairs. eapply pipe_add_event_out_ok; eauto.
Qed.

(* ------------------------------------------------------------------ frame: which tables a function leaves alone *)
Lemma pop_keys_frame : forall ks s, reqs (pop_keys s ks) = reqs s /\ exchanges (pop_keys s ks) = exchanges s /\
  backlogs (pop_keys s ks) = backlogs s /\ tmst (pop_keys s ks) = tmst s /\ next_mid (pop_keys s ks) = next_mid s /\
  now (pop_keys s ks) = now s /\ seq (pop_keys s ks) = seq s /\ ack_timeout (pop_keys s ks) = ack_timeout s /\
  refusing (pop_keys s ks) = refusing s.
Proof.
  induction ks as [|k r IH]; intros s; cbn [pop_keys]; [repeat split|].
  specialize (IH (pop_outgoing s k)). unfold pop_outgoing in *. destruct (outgoing s); exact IH.
Qed.
Lemma pop_keys_outgoing : forall ks s,
  outgoing (pop_keys s ks) = match outgoing s with Some og => Some (fold_left (fun l k => aremove key_eqb k l) ks og) | None => None end.
Proof.
  induction ks as [|k r IH]; intros s; cbn [pop_keys fold_left]; [destruct (outgoing s); reflexivity|].
  rewrite IH. unfold pop_outgoing. destruct (outgoing s) eqn:E; cbn; [reflexivity|rewrite E; reflexivity].
Qed.

Definition is_delivery (o : output) : bool := match o with SetResult _ _ _ _ | Notify _ _ _ _ => true | _ => false end.
Definition is_send (o : output) : bool := match o with Send _ _ _ _ _ _ => true | _ => false end.

Lemma add_exception_no_delivery : forall s q e s' o, add_exception s q e = (s', o) -> Forall (fun x => is_delivery x = false) o.
Proof.
  intros s q e s' o H. apply add_event_out_ok in H. eapply Forall_impl; [|exact H].
  intros [] Hx; cbn in *; try reflexivity; destruct Hx as [_ [w [l [Hx _]]]]; discriminate.
Qed.
Lemma add_event_no_send : forall s q ev s' o, _add_event s q ev = (s', o) -> Forall (fun x => is_send x = false) o.
Proof.
  intros s q ev s' o H. apply add_event_out_ok in H. eapply Forall_impl; [|exact H].
  intros [] Hx; cbn in *; try reflexivity; contradiction.
Qed.

Lemma add_event_frame : forall s q ev s' o, _add_event s q ev = (s', o) ->
  exchanges s' = exchanges s /\ backlogs s' = backlogs s /\ tmst s' = tmst s /\ next_mid s' = next_mid s /\
  now s' = now s /\ seq s' = seq s /\ ack_timeout s' = ack_timeout s /\ refusing s' = refusing s.
Proof.
  intros s q ev s' o H. unfold _add_event in H. destruct (get_req s q); [|invpairs; repeat split].
  destruct (pipe_add_event q c ev) as [[c' o'] ks]. invpairs.
  destruct (pop_keys_frame ks (upd_req s q c')) as (_ & H2 & H3 & H4 & H5 & H6 & H7 & H8 & H9).
  rewrite H2, H3, H4, H5, H6, H7, H8, H9. repeat split.
Qed.

(* ------------------------------------------------------------------ message layer: frame and output shape *)
Definition ml_out (o : output) : Prop := match o with Send _ _ _ _ _ _ | Crash _ | Raised _ => True | _ => False end.
Definition no_deliv (o : list output) : Prop := Forall (fun x => is_delivery x = false) o.

Lemma ml_out_no_delivery : forall o, Forall ml_out o -> no_deliv o.
Proof. intros o H. eapply Forall_impl; [|exact H]. intros []; cbn; intros; try reflexivity; contradiction. Qed.

(* the error fan-out only ever produces exceptions *)
Lemma run_stoppers_no_delivery : forall e qs s s' o, run_stoppers s qs e = (s', o) -> no_deliv o.
Proof.
  intros e. induction qs as [|q rest IH]; intros s s' o H; cbn [run_stoppers] in H; [invpairs; constructor|].
  destruct (add_exception s q e) as [s1 o1] eqn:A. apply add_exception_no_delivery in A.
  destruct (run_stoppers s1 rest e) as [s2 o2] eqn:R. apply IH in R. invpairs. apply Forall_app; split; assumption.
Qed.
Lemma mm_dispatch_error_no_delivery : forall s k r s' o, mm_dispatch_error s k r = (s', o) -> no_deliv o.
Proof.
  intros s k r s' o H. unfold mm_dispatch_error, tm_dispatch_error in H. destruct (exchanges s); [|invpairs; constructor].
  destruct (outgoing s); [|invpairs; constructor].
  destruct (run_stoppers s _ (wrap_error k)) as [s1 o1] eqn:R. apply run_stoppers_no_delivery in R. invpairs. exact R.
Qed.
Lemma send_via_transport_no_delivery : forall s r w s' o, _send_via_transport s r w = (s', o) -> no_deliv o.
Proof.
  intros s r w s' o H. unfold _send_via_transport in H. destruct (refuses s r); [eapply mm_dispatch_error_no_delivery; eauto|].
  invpairs. repeat constructor.
Qed.
Lemma send_initially_no_delivery : forall s r w m s' o, _send_initially s r w m = (s', o) -> no_deliv o.
Proof. intros s r w m s' o H. unfold _send_initially in H. eapply send_via_transport_no_delivery; eauto. Qed.
Lemma continue_loop_no_delivery : forall r fuel s s' o x, _continue_backlog_loop fuel s r = (s', o, x) -> no_deliv o.
Proof.
  intros r. induction fuel as [|f IH]; intros s s' o x H; cbn [_continue_backlog_loop] in H; [invpairs; constructor|].
  destruct (exchanges s); [|invpairs; constructor].
  destruct (alookup Z.eqb r (backlogs s)) as [bl|]; [|invpairs; constructor].
  destruct (has_exchange r l); [invpairs; constructor|].
  destruct bl as [|[w m] rest]; [invpairs; constructor|].
  destruct (_send_initially _ r w (Some m)) as [s1 o1] eqn:S. apply send_initially_no_delivery in S.
  destruct (_continue_backlog_loop f s1 r) as [[s2 o2] x2] eqn:L. apply IH in L. invpairs. apply Forall_app; split; assumption.
Qed.
Lemma remove_exchange_no_delivery : forall s r w s' o x, _remove_exchange s r w = (s', o, x) -> no_deliv o.
Proof.
  intros s r w s' o x H. unfold _remove_exchange in H.
  destruct (exchanges s); [|invpairs; constructor].
  destruct (alookup rm_eqb (r, w_mid w) l); [|invpairs; constructor].
  destruct (if w_mtype w =? RST then _ else _) as [s2 o2] eqn:A.
  destruct (_continue_backlog s2 r) as [[s3 o3] x3] eqn:C. invpairs.
  apply Forall_app. split.
  - destruct (w_mtype w =? RST); [eapply add_exception_no_delivery; eauto|invpairs; constructor].
  - unfold _continue_backlog in C. destruct (alookup Z.eqb r (backlogs s2)); [eapply continue_loop_no_delivery; eauto|invpairs; repeat constructor].
Qed.

(* as long as the transport accepts datagrams for r, sending is just an output *)
Lemma add_exchange_frame : forall s r w m,
  outgoing (_add_exchange s r w m) = outgoing s /\ reqs (_add_exchange s r w m) = reqs s /\ tmst (_add_exchange s r w m) = tmst s /\
  refusing (_add_exchange s r w m) = refusing s.
Proof.
  intros. unfold _add_exchange. destruct (amem Z.eqb r (backlogs s)); cbn; destruct (exchanges s); cbn; repeat split.
Qed.
Lemma send_initially_frame : forall s r w m s' o, refuses s r = false -> _send_initially s r w m = (s', o) ->
  outgoing s' = outgoing s /\ reqs s' = reqs s /\ tmst s' = tmst s /\ refusing s' = refusing s /\ o = [wire_send r w].
Proof.
  intros s r w m s' o Hr H. unfold _send_initially, _send_via_transport in H.
  set (s1 := if w_mtype w =? CON then _ else s) in H.
  assert (F : outgoing s1 = outgoing s /\ reqs s1 = reqs s /\ tmst s1 = tmst s /\ refusing s1 = refusing s).
  { subst s1. destruct (w_mtype w =? CON); [destruct m|]; try (repeat split; fail). apply add_exchange_frame. }
  clearbody s1. destruct F as (F1 & F2 & F3 & F4).
  assert (Hr1 : refuses s1 r = false) by (unfold refuses in *; rewrite F4; exact Hr). rewrite Hr1 in H. invpairs. repeat split; assumption.
Qed.
Lemma continue_loop_frame : forall r fuel s s' o x, refuses s r = false -> _continue_backlog_loop fuel s r = (s', o, x) ->
  outgoing s' = outgoing s /\ reqs s' = reqs s /\ tmst s' = tmst s /\ refusing s' = refusing s /\ Forall ml_out o.
Proof.
  intros r. induction fuel as [|f IH]; intros s s' o x Hr H; cbn [_continue_backlog_loop] in H; [invpairs; repeat split; constructor|].
  destruct (exchanges s); [|invpairs; repeat split; constructor].
  destruct (alookup Z.eqb r (backlogs s)) as [bl|]; [|invpairs; repeat split; constructor].
  destruct (has_exchange r l); [invpairs; repeat split; constructor|].
  destruct bl as [|[w m] rest]; [invpairs; repeat split; constructor|].
  destruct (_send_initially _ r w (Some m)) as [s1 o1] eqn:S. apply send_initially_frame in S; [|exact Hr].
  destruct S as (S1 & S2 & S3 & S4 & S5). cbn in S1, S2, S3, S4.
  destruct (_continue_backlog_loop f s1 r) as [[s2 o2] x2] eqn:L. apply IH in L; [|unfold refuses in *; rewrite S4; exact Hr].
  destruct L as (L1 & L2 & L3 & L4 & L5).
  invpairs. split; [congruence|]. split; [congruence|]. split; [congruence|]. split; [congruence|].
  apply Forall_app. split; [repeat constructor|exact L5].
Qed.
(* an incoming ACK never touches the request table (while the transport accepts datagrams for r) *)
Lemma remove_exchange_ack : forall s r w s' o x, refuses s r = false -> w_mtype w <> RST -> _remove_exchange s r w = (s', o, x) ->
  outgoing s' = outgoing s /\ reqs s' = reqs s /\ tmst s' = tmst s /\ refusing s' = refusing s /\ Forall ml_out o.
Proof.
  intros s r w s' o x Hr Hm H. unfold _remove_exchange in H.
  destruct (exchanges s); [|invpairs; repeat split; constructor].
  destruct (alookup rm_eqb (r, w_mid w) l); [|invpairs; repeat split; constructor].
  replace (w_mtype w =? RST) with false in H by (symmetry; apply Z.eqb_neq; exact Hm).
  destruct (_continue_backlog _ r) as [[s3 o3] x3] eqn:C. invpairs.
  unfold _continue_backlog in C. cbn [backlogs set_exchanges] in C.
  destruct (alookup Z.eqb r (backlogs s)); [|invpairs; repeat split; repeat constructor].
  apply continue_loop_frame in C; [exact C|exact Hr].
Qed.

(* ------------------------------------------------------------------ matching *)
(* the request a response with token [tok] from remote [r] is matched to: the entry for (tok, r), else -- "maybe it
   was a multicast" -- the entry for (tok, None) *)
Definition matching (og : list (key * Z)) (tok : token) (r : remote) : option Z :=
  match alookup key_eqb (tok, Some r) og with Some q => Some q | None => alookup key_eqb (tok, None) og end.

Definition pr_final (s : st) (q : Z) (w : wire) : bool :=
  negb ((match get_req s q with Some c => cq_observe c | None => false end) && match w_observe w with Some _ => true | None => false end).
Definition pr_key (og : list (key * Z)) (tok : token) (r : remote) : key :=
  if amem key_eqb (tok, Some r) og then (tok, Some r) else (tok, None).
Definition pr_state (s : st) (og : list (key * Z)) (q : Z) (r : remote) (w : wire) : st :=
  if pr_final s q w then set_outgoing s (Some (aremove key_eqb (pr_key og (w_token w) r) og)) else s.

Lemma process_response_spec : forall s r w og, outgoing s = Some og ->
  process_response s r w =
  match matching og (w_token w) r with
  | None => (false, s, [])
  | Some q => (true, fst (add_response (pr_state s og q r w) q w r (pr_final s q w)),
                     snd (add_response (pr_state s og q r w) q w r (pr_final s q w)))
  end.
Proof.
  intros s r w og Hog. unfold matching, process_response, pr_state, pr_final, pr_key. rewrite Hog. unfold amem.
  destruct (alookup key_eqb (w_token w, Some r) og) as [q|] eqn:L1.
  - rewrite L1. destruct (add_response _ q w r _) eqn:A. reflexivity.
  - destruct (alookup key_eqb (w_token w, None) og) as [q|] eqn:L2; [|reflexivity].
    destruct (add_response _ q w r _) eqn:A. reflexivity.
Qed.

Ltac nd := solve [exfalso; match goal with N : forall l, no_deliv l -> ~ In _ l |- _ => eapply N; [|eassumption]; eassumption end].
Lemma deliver_only_matching_lemma : forall s r mcl w s' outs o,
  (w_mtype w = ACK -> refuses s r = false) ->
  dispatch_message s r mcl w = (s', outs) -> In o outs -> is_delivery o = true ->
  exists og q, outgoing s = Some og /\ matching og (w_token w) r = Some q /\
    (o = SetResult q (w_rid w) (w_token w) r \/ o = Notify q (w_rid w) (w_token w) r) /\
    is_response (w_code w) = true /\ w_mtype w <> RST.
Proof.
  intros s r mcl w s' outs o Hack H Hin Hd. unfold dispatch_message in H.
  destruct (is_request (w_code w)).
  { invpairs. destruct Hin as [<-|[]]. discriminate. }
  destruct (if (w_mtype w =? ACK) || (w_mtype w =? RST) then _ else _) as [[s1 o1] x1] eqn:RE.
  assert (ND1 : no_deliv o1).
  { destruct ((w_mtype w =? ACK) || (w_mtype w =? RST)); [eapply remove_exchange_no_delivery; eauto|invpairs; constructor]. }
  assert (notin : forall l, no_deliv l -> ~ In o l).
  { intros l Hl Hi. unfold no_deliv in Hl. rewrite Forall_forall in Hl. apply Hl in Hi. congruence. }
  assert (SI : forall s r w s' o, _send_initially s r w None = (s', o) -> no_deliv o).
  { intros *. apply send_initially_no_delivery. }
  destruct x1. { invpairs. nd. }
  destruct ((w_code w =? EMPTY) && (w_mtype w =? CON)).
  { destruct (_send_initially s1 r _ None) as [s2 o2] eqn:S. apply SI in S.
    invpairs. apply in_app_or in Hin. destruct Hin as [Hi|Hi]; nd. }
  destruct ((w_code w =? EMPTY) && ((w_mtype w =? ACK) || (w_mtype w =? RST))).
  { invpairs. nd. }
  destruct (is_response (w_code w) && ((w_mtype w =? CON) || (w_mtype w =? NON) || (w_mtype w =? ACK))) eqn:Cond.
  2: { invpairs. nd. }
  apply andb_prop in Cond. destruct Cond as [Cresp Ctype].
  assert (Hrst : w_mtype w <> RST). { unfold CON, NON, ACK, RST in *. lia. }
  assert (Hog1 : outgoing s1 = outgoing s).
  { destruct ((w_mtype w =? ACK) || (w_mtype w =? RST)) eqn:T; [|invpairs; reflexivity].
    eapply remove_exchange_ack in RE; [apply RE| |exact Hrst]. apply Hack. unfold ACK, RST in *. lia. }
  destruct (outgoing s) as [og|] eqn:Hog.
  2: { unfold process_response in H. rewrite Hog1 in H.
       destruct (_send_initially s1 r _ None) as [s3 o3] eqn:S. apply SI in S.
       destruct ((w_mtype w =? CON) && negb mcl); invpairs;
         repeat (apply in_app_or in Hin; destruct Hin as [Hin|Hin]); try (nd);
         repeat (destruct Hin as [<-|Hin]; try discriminate); try contradiction; try nd. }
  pose proof (process_response_spec s1 r w og Hog1) as PS.
  destruct (matching og (w_token w) r) as [q|] eqn:M.
  - rewrite PS in H.
    destruct (add_response (pr_state s1 og q r w) q w r (pr_final s1 q w)) as [s2 o2] eqn:A. cbn [fst snd] in H.
    apply add_event_out_ok in A.
    assert (Hin2 : In o o2).
    { destruct (w_mtype w =? CON).
      - destruct (_send_initially s2 r _ None) as [s3 o3] eqn:S. apply SI in S.
        invpairs. apply in_app_or in Hin. destruct Hin as [Hi|Hi]; [nd|].
        apply in_app_or in Hi. destruct Hi as [Hi|Hi]; [exact Hi|nd].
      - invpairs. apply in_app_or in Hin. destruct Hin as [Hi|Hi]; [nd|exact Hi]. }
    rewrite Forall_forall in A. apply A in Hin2.
    exists og, q. split; [reflexivity|]. split; [exact M|]. split; [|split; [exact Cresp|exact Hrst]].
    destruct o; cbn in Hd; try discriminate; cbn in Hin2.
    + destruct Hin2 as [-> (w0 & l & E & -> & ->)]. inversion E. subst. left. reflexivity.
    + destruct Hin2 as [-> (w0 & l & E & -> & ->)]. inversion E. subst. right. reflexivity.
  - rewrite PS in H.
    destruct (_send_initially s1 r _ None) as [s3 o3] eqn:S. apply SI in S.
    destruct ((w_mtype w =? CON) && negb mcl); invpairs;
      repeat (apply in_app_or in Hin; destruct Hin as [Hin|Hin]); try (nd);
      repeat (destruct Hin as [<-|Hin]; try discriminate); try contradiction; try nd.
Qed.

(* ------------------------------------------------------------------ the message layer only ever REMOVES table entries *)
Definition shrinks (s s' : st) : Prop :=
  match outgoing s, outgoing s' with
  | Some og, Some og' => forall k, alookup key_eqb k og' = alookup key_eqb k og \/ alookup key_eqb k og' = None
  | None, None => True
  | _, _ => False
  end.
Lemma shrinks_refl : forall s, shrinks s s.
Proof. intros s. unfold shrinks. destruct (outgoing s); [left; reflexivity|exact I]. Qed.
Lemma shrinks_eq : forall s s', outgoing s' = outgoing s -> shrinks s s'.
Proof. intros s s' H. unfold shrinks. rewrite H. destruct (outgoing s); [left; reflexivity|exact I]. Qed.
Lemma shrinks_trans : forall s s1 s2, shrinks s s1 -> shrinks s1 s2 -> shrinks s s2.
Proof.
  intros s s1 s2 H1 H2. unfold shrinks in *. destruct (outgoing s), (outgoing s1), (outgoing s2); try contradiction; try exact I.
  intros k. destruct (H2 k) as [E|E]; [rewrite E; apply H1|right; exact E].
Qed.
Lemma alookup_fold_aremove : forall ks (og : list (key * Z)) k,
  alookup key_eqb k (fold_left (fun l k => aremove key_eqb k l) ks og) = alookup key_eqb k og \/
  alookup key_eqb k (fold_left (fun l k => aremove key_eqb k l) ks og) = None.
Proof.
  induction ks as [|k0 r IH]; intros og k; cbn [fold_left]; [left; reflexivity|].
  destruct (IH (aremove key_eqb k0 og) k) as [E|E]; [|right; exact E].
  rewrite E, alookup_aremove by exact key_eqb_spec. destruct (key_eqb k k0); [right|left]; reflexivity.
Qed.
Lemma add_event_shrinks : forall s q ev s' o, _add_event s q ev = (s', o) -> shrinks s s'.
Proof.
  intros s q ev s' o H. unfold _add_event in H. destruct (get_req s q); [|invpairs; apply shrinks_refl].
  destruct (pipe_add_event q c ev) as [[c' o'] ks]. invpairs. unfold shrinks. rewrite pop_keys_outgoing.
  cbn [outgoing upd_req set_reqs]. destruct (outgoing s); [|exact I]. intros k. apply alookup_fold_aremove.
Qed.
Lemma run_stoppers_shrinks : forall e qs s s' o, run_stoppers s qs e = (s', o) -> shrinks s s'.
Proof.
  intros e. induction qs as [|q rest IH]; intros s s' o H; cbn [run_stoppers] in H; [invpairs; apply shrinks_refl|].
  destruct (add_exception s q e) as [s1 o1] eqn:A. apply add_event_shrinks in A.
  destruct (run_stoppers s1 rest e) as [s2 o2] eqn:R. apply IH in R. invpairs. eapply shrinks_trans; eauto.
Qed.
Lemma mm_dispatch_error_shrinks : forall s k r s' o, mm_dispatch_error s k r = (s', o) -> shrinks s s'.
Proof.
  intros s k r s' o H. unfold mm_dispatch_error, tm_dispatch_error in H. destruct (exchanges s); [|invpairs; apply shrinks_refl].
  destruct (outgoing s) eqn:Hog; [|invpairs; apply shrinks_eq; reflexivity].
  destruct (run_stoppers s _ (wrap_error k)) as [s1 o1] eqn:R. apply run_stoppers_shrinks in R. invpairs.
  eapply shrinks_trans; [exact R|apply shrinks_eq; reflexivity].
Qed.
Lemma send_via_transport_shrinks : forall s r w s' o, _send_via_transport s r w = (s', o) -> shrinks s s'.
Proof.
  intros s r w s' o H. unfold _send_via_transport in H. destruct (refuses s r); [eapply mm_dispatch_error_shrinks; eauto|invpairs; apply shrinks_refl].
Qed.
Lemma send_initially_shrinks : forall s r w m s' o, _send_initially s r w m = (s', o) -> shrinks s s'.
Proof.
  intros s r w m s' o H. unfold _send_initially in H. apply send_via_transport_shrinks in H.
  eapply shrinks_trans; [|exact H]. apply shrinks_eq. destruct (w_mtype w =? CON); [destruct m|]; try reflexivity. apply add_exchange_frame.
Qed.
Lemma continue_loop_shrinks : forall r fuel s s' o x, _continue_backlog_loop fuel s r = (s', o, x) -> shrinks s s'.
Proof.
  intros r. induction fuel as [|f IH]; intros s s' o x H; cbn [_continue_backlog_loop] in H; [invpairs; apply shrinks_refl|].
  destruct (exchanges s); [|invpairs; apply shrinks_refl].
  destruct (alookup Z.eqb r (backlogs s)) as [bl|]; [|invpairs; apply shrinks_refl].
  destruct (has_exchange r l); [invpairs; apply shrinks_refl|].
  destruct bl as [|[w m] rest]; [invpairs; apply shrinks_eq; reflexivity|].
  destruct (_send_initially _ r w (Some m)) as [s1 o1] eqn:S. apply send_initially_shrinks in S.
  destruct (_continue_backlog_loop f s1 r) as [[s2 o2] x2] eqn:L. apply IH in L. invpairs.
  eapply shrinks_trans; [|exact L]. eapply shrinks_trans; [|exact S]. apply shrinks_eq. reflexivity.
Qed.
Lemma remove_exchange_shrinks : forall s r w s' o x, _remove_exchange s r w = (s', o, x) -> shrinks s s'.
Proof.
  intros s r w s' o x H. unfold _remove_exchange in H.
  destruct (exchanges s); [|invpairs; apply shrinks_refl].
  destruct (alookup rm_eqb (r, w_mid w) l); [|invpairs; apply shrinks_refl].
  destruct (if w_mtype w =? RST then _ else _) as [s2 o2] eqn:A.
  destruct (_continue_backlog s2 r) as [[s3 o3] x3] eqn:C. invpairs.
  assert (S2 : shrinks s s2).
  { destruct (w_mtype w =? RST); [apply add_event_shrinks in A; eapply shrinks_trans; [|exact A]; apply shrinks_eq; reflexivity|invpairs; apply shrinks_eq; reflexivity]. }
  eapply shrinks_trans; [exact S2|]. unfold _continue_backlog in C.
  destruct (alookup Z.eqb r (backlogs s2)); [eapply continue_loop_shrinks; eauto|invpairs; apply shrinks_refl].
Qed.
Lemma shrinks_unmatched : forall s s' og tok r, shrinks s s' -> outgoing s = Some og -> matching og tok r = None ->
  exists og', outgoing s' = Some og' /\ matching og' tok r = None.
Proof.
  intros s s' og tok r H Hog M. unfold shrinks in H. rewrite Hog in H. destruct (outgoing s') as [og'|]; [|contradiction].
  exists og'. split; [reflexivity|]. unfold matching in *.
  destruct (alookup key_eqb (tok, Some r) og) eqn:L1; [discriminate|].
  destruct (H (tok, Some r)) as [E|E]; rewrite E, ?L1; destruct (H (tok, None)) as [E2|E2]; rewrite E2; try exact M; reflexivity.
Qed.

(* ------------------------------------------------------------------ replies to responses *)
Ltac dm_head Hcon Hresp :=
  unfold dispatch_message;
  match goal with |- context [is_request (w_code ?w)] =>
    let Hreq := fresh "Hreq" in let Hne := fresh "Hne" in
    assert (Hreq : is_request (w_code w) = false) by (unfold is_request, is_response in *; lia);
    assert (Hne : (w_code w =? EMPTY) = false) by (unfold is_response, EMPTY in *; lia);
    rewrite Hreq, Hcon, Hresp, Hne; cbn [CON ACK RST NON Z.eqb Pos.eqb orb andb]
  end.

(* general form: the Reset is handed to the transport (which may refuse it, see _send_via_transport) *)
Lemma unmatched_con_rst_general : forall s r mcl w og, outgoing s = Some og ->
  is_response (w_code w) = true -> w_mtype w = CON -> matching og (w_token w) r = None ->
  dispatch_message s r mcl w = if mcl then (s, []) else _send_via_transport s r (empty_msg RST (w_mid w)).
Proof.
  intros s r mcl w og Hog Hresp Hcon M. dm_head Hcon Hresp.
  rewrite (process_response_spec s r w og Hog), M. destruct mcl; cbn [negb]; [reflexivity|].
  unfold _send_initially. cbn. destruct (_send_via_transport s r _). reflexivity.
Qed.
Lemma unmatched_con_rst_lemma : forall s r mcl w og, outgoing s = Some og -> refuses s r = false ->
  is_response (w_code w) = true -> w_mtype w = CON -> matching og (w_token w) r = None ->
  dispatch_message s r mcl w = (s, if mcl then [] else [Send r RST EMPTY (w_mid w) [] None]).
Proof.
  intros s r mcl w og Hog Hr Hresp Hcon M. rewrite (unmatched_con_rst_general s r mcl w og Hog Hresp Hcon M).
  destruct mcl; [reflexivity|]. unfold _send_via_transport. rewrite Hr. reflexivity.
Qed.
Lemma unmatched_non_silent_lemma : forall s r mcl w og, outgoing s = Some og ->
  is_response (w_code w) = true -> w_mtype w = NON -> matching og (w_token w) r = None ->
  dispatch_message s r mcl w = (s, []).
Proof.
  intros s r mcl w og Hog Hresp Hcon M. dm_head Hcon Hresp.
  rewrite (process_response_spec s r w og Hog), M. reflexivity.
Qed.
(* an unmatched piggy-backed response only has its message-layer effect (the exchange with that mid ends) *)
Lemma unmatched_ack_lemma : forall s r mcl w og, outgoing s = Some og ->
  is_response (w_code w) = true -> w_mtype w = ACK -> matching og (w_token w) r = None ->
  dispatch_message s r mcl w = fst (_remove_exchange s r w).
Proof.
  intros s r mcl w og Hog Hresp Hack M. dm_head Hack Hresp.
  destruct (_remove_exchange s r w) as [[s1 o1] x1] eqn:RE. cbn [fst snd].
  destruct x1; [reflexivity|].
  apply remove_exchange_shrinks in RE. destruct (shrinks_unmatched s s1 og (w_token w) r RE Hog M) as (og1 & Hog1 & M1).
  rewrite (process_response_spec s1 r w og1 Hog1), M1. rewrite app_nil_r. reflexivity.
Qed.
(* a matched CON response is acknowledged exactly once (and not reset); nothing else is put on the wire *)
Lemma matched_con_acked_lemma : forall s r mcl w og q, outgoing s = Some og -> refuses s r = false ->
  is_response (w_code w) = true -> w_mtype w = CON -> matching og (w_token w) r = Some q ->
  exists s' o, dispatch_message s r mcl w = (s', o ++ [Send r ACK EMPTY (w_mid w) [] None]) /\
               Forall (fun x => is_send x = false) o.
Proof.
  intros s r mcl w og q Hog Hr Hresp Hcon M. dm_head Hcon Hresp.
  rewrite (process_response_spec s r w og Hog), M.
  destruct (add_response (pr_state s og q r w) q w r (pr_final s q w)) as [s2 o2] eqn:A. cbn [fst snd].
  assert (Hr2 : refuses s2 r = false).
  { pose proof (add_event_frame _ _ _ _ _ A) as F. destruct F as (_ & _ & _ & _ & _ & _ & _ & F). unfold refuses in *. rewrite F.
    unfold pr_state. destruct (pr_final s q w); exact Hr. }
  unfold _send_initially, _send_via_transport. cbn [w_mtype empty_msg]. cbn [ACK CON Z.eqb Pos.eqb]. rewrite Hr2.
  eexists. exists o2. split; [reflexivity|]. eapply add_event_no_send; eauto.
Qed.
