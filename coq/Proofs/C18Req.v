(* C18 — the link between what the application has submitted and TokenManager.outgoing_requests (Model/C18.v):
   in every reachable state, a client request that has not been settled yet (no response / failure / cancellation,
   and for an observation no end) has its entry in outgoing_requests — the table that shutdown fails entry by entry. *)
From Verif Require Import Lib.Py Lib.Tactics Model.C18 Proofs.C18 Proofs.C18Inv.
Open Scope Z_scope.

(* output o settles the request q (observe flag ob): response future done for a plain request, observation ended
   (or request failed / cancelled before it started) for an observation *)
Definition settles (ob : bool) (q : Z) (o : output) : bool :=
  match o with
  | OFail q' _ | OCancelled q' => q =? q'
  | OResp q' _ _ => negb ob && (q =? q')
  | OObsEnd q' _ => ob && (q =? q')
  | _ => false
  end.
(* well-formedness of outgoing_requests: an entry whose observation is running belongs to an observe request; request
   labels and (token, remote) keys are unique; tokens were issued by this manager's counter *)
Definition okey (o : oreq) : Z * Z := (o_tok o, o_remote o).
Definition rlabel (x : Z * Z * mtype * bool) : Z := fst (fst (fst x)).
Record TI (s : tmst) : Prop := {
  ti_fo : forall o, In o (olist s) -> o_first o = true -> o_observe o = true;
  ti_q : NoDup (map o_q (olist s));
  ti_key : NoDup (map okey (olist s));
  ti_tok : forall o, In o (olist s) -> o_tok o <= token s;
  ti_pos : 0 <= token s;
  (* requests still looking for their remote: distinct labels, not in the table yet *)
  ti_r : NoDup (map rlabel (resolving s));
  ti_d : forall q, In q (map o_q (olist s)) -> ~ In q (map rlabel (resolving s)) }.
Definition kept (b : tmst) (out : list output) (e : oreq) : Prop :=
  (exists e', In e' (olist b) /\ o_q e' = o_q e /\ o_observe e' = o_observe e) \/
  (exists o, In o out /\ settles (o_observe e) (o_q e) o = true).
Definition keeps (a b : tmst) (out : list output) : Prop :=
  TI a -> TI b /\ token b = token a /\ resolving b = resolving a /\ incl (map o_q (olist b)) (map o_q (olist a)) /\
  forall e, In e (olist a) -> kept b out e.

Lemma keeps_same a b out : olist b = olist a -> token b = token a -> resolving b = resolving a -> keeps a b out.
Proof.
  intros E T R [F Q K Tk P Rn Rd]. split; [constructor; rewrite ?E, ?T, ?R; assumption|]. split; [exact T|]. split; [exact R|]. split; [rewrite E; apply incl_refl|].
  intros e I. left. exists e. rewrite E. auto.
Qed.
Lemma keeps_refl a out : keeps a a out. Proof. apply keeps_same; reflexivity. Qed.
Lemma kept_weaken b o o' e : kept b o e -> incl o o' -> kept b o' e.
Proof. intros [K|(x & I & S)] Inc; [left; exact K|right; exists x; split; [apply Inc; exact I|exact S]]. Qed.
Lemma keeps_weaken a b o o' : keeps a b o -> incl o o' -> keeps a b o'.
Proof. intros K Inc F. destruct (K F) as (Fb & T & R & L & Kb). split; [exact Fb|split; [exact T|split; [exact R|split; [exact L|]]]]. intros e I. eapply kept_weaken; [apply Kb; exact I|exact Inc]. Qed.
Lemma keeps_trans a b c o1 o2 : keeps a b o1 -> keeps b c o2 -> keeps a c (o1 ++ o2).
Proof.
  intros K1 K2 F. destruct (K1 F) as (Fb & T1 & R1 & L1 & Kb). destruct (K2 Fb) as (Fc & T2 & R2 & L2 & Kc).
  split; [exact Fc|]. split; [congruence|]. split; [congruence|]. split; [eapply incl_tran; eassumption|].
  intros e I. destruct (Kb e I) as [(e' & I' & Q & O)|(x & Ix & S)].
  - destruct (Kc e' I') as [(e'' & I'' & Q' & O')|(x & Ix & S)].
    + left. exists e''. split; [exact I''|split; congruence].
    + right. exists x. split; [apply in_or_app; right; exact Ix|]. rewrite <- Q, <- O. exact S.
  - right. exists x. split; [apply in_or_app; left; exact Ix|exact S].
Qed.

(* the two shapes of an update of the table *)
Lemma incl_map_filter {A B} (f : A -> B) p (l : list A) : incl (map f (filter p l)) (map f l).
Proof. intros x I. apply in_map_iff in I. destruct I as (y & E & I). apply filter_In in I. apply in_map_iff. exists y. tauto. Qed.
Lemma TI_filter a b p : TI a -> olist b = filter p (olist a) -> token b = token a -> resolving b = resolving a ->
  TI b /\ incl (map o_q (olist b)) (map o_q (olist a)).
Proof.
  intros [F Q K Tk P Rn Rd] E T R. split; [|rewrite E; apply incl_map_filter].
  constructor; rewrite ?E, ?T, ?R; auto using NoDup_map_filter.
  - intros o I. apply filter_In in I. apply F. tauto.
  - intros o I. apply filter_In in I. apply Tk. tauto.
  - intros q I. apply Rd. apply (incl_map_filter o_q p (olist a)). exact I.
Qed.
Lemma TI_update a b tok r o o' : TI a -> In o (olist a) -> oreq_is tok r o = true ->
  olist b = map (fun x => if oreq_is tok r x then o' else x) (olist a) -> token b = token a -> resolving b = resolving a ->
  o_q o' = o_q o -> o_tok o' = o_tok o -> o_remote o' = o_remote o -> (o_first o' = true -> o_observe o' = true) ->
  TI b /\ incl (map o_q (olist b)) (map o_q (olist a)).
Proof.
  intros [F Q K Tk P Rn Rd] Io Ko E T R Eq Et Er Fo'.
  assert (Same : forall x, In x (olist a) -> oreq_is tok r x = true -> x = o).
  { intros x Ix Kx. apply (NoDup_map_inj_in okey (olist a)); auto. unfold oreq_is in *. apply andb_true_iff in Kx, Ko.
    rewrite !Z.eqb_eq in *. unfold okey. destruct Kx, Ko. congruence. }
  assert (Mq : map o_q (olist b) = map o_q (olist a)).
  { rewrite E, map_map. apply map_ext_in. intros x Ix. destruct (oreq_is tok r x) eqn:Kx; [|reflexivity]. rewrite (Same x Ix Kx). exact Eq. }
  assert (Mk : map okey (olist b) = map okey (olist a)).
  { rewrite E, map_map. apply map_ext_in. intros x Ix. destruct (oreq_is tok r x) eqn:Kx; [|reflexivity]. rewrite (Same x Ix Kx). unfold okey. congruence. }
  split; [|rewrite Mq; apply incl_refl].
  constructor; rewrite ?Mq, ?Mk, ?T, ?R; auto.
  - intros x Ix. rewrite E in Ix. apply in_map_iff in Ix. destruct Ix as (y & Ey & Iy). destruct (oreq_is tok r y); subst x; [exact Fo'|apply F; exact Iy].
  - intros x Ix. rewrite E in Ix. apply in_map_iff in Ix. destruct Ix as (y & Ey & Iy). destruct (oreq_is tok r y); subst x; [rewrite Et; apply Tk; exact Io|apply Tk; exact Iy].
Qed.

(* ---------------------------------------------------------------- Request._run *)
Lemma request_run_spec t o ev : (o_first o = true -> o_observe o = true) ->
  match ev with EvMsg m false => m_obs m <> None | _ => True end ->
  match request_run t o ev with
  | (Some o', _) => o_q o' = o_q o /\ o_observe o' = o_observe o /\ (o_first o' = true -> o_observe o' = true) /\
                    o_tok o' = o_tok o /\ o_remote o' = o_remote o
  | (None, out) => exists x, In x out /\ settles (o_observe o) (o_q o) x = true
  end.
Proof.
  intros Hf Hev. unfold request_run. destruct (o_first o) eqn:F; cbn [negb].
  - specialize (Hf eq_refl). destruct ev as [m last|e].
    + destruct (m_obs m) as [v2|] eqn:Ob.
      * destruct (is_recent (o_v1 o) (o_t1 o) v2 t); destruct last; cbn; try (rewrite Hf; auto 6; fail).
        -- eexists. split; [right; left; reflexivity|cbn; rewrite Hf, Z.eqb_refl; reflexivity].
        -- eexists. split; [left; reflexivity|cbn; rewrite Hf, Z.eqb_refl; reflexivity].
      * destruct last; [|congruence]. eexists. split; [right; left; reflexivity|cbn; rewrite Hf, Z.eqb_refl; reflexivity].
    + eexists. split; [left; reflexivity|cbn; rewrite Hf, Z.eqb_refl; reflexivity].
  - destruct ev as [m last|e].
    + destruct (o_observe o) eqn:Ob; cbn [negb].
      * destruct last.
        -- eexists. split; [right; left; reflexivity|cbn; rewrite Z.eqb_refl; reflexivity].
        -- destruct (m_obs m); [cbn; auto 6|congruence].
      * eexists. split; [left; reflexivity|cbn; rewrite Z.eqb_refl; reflexivity].
    + eexists. split; [left; reflexivity|cbn; rewrite Z.eqb_refl; reflexivity].
Qed.
Lemma request_run_exc t o e : (o_first o = true -> o_observe o = true) ->
  exists x, In x (snd (request_run t o (EvExc e))) /\ settles (o_observe o) (o_q o) x = true.
Proof.
  intro Hf. pose proof (request_run_spec t o (EvExc e) Hf I) as H.
  unfold request_run in *. destruct (o_first o); cbn [negb] in *; exact H.
Qed.

(* ---------------------------------------------------------------- TokenManager *)
Lemma olist_some s os : outgoing s = Some os -> olist s = os.
Proof. intro E. unfold olist. rewrite E. reflexivity. Qed.

Lemma add_exception_keeps t s q e : keeps s (fst (add_exception t s q e)) (snd (add_exception t s q e)).
Proof.
  unfold add_exception. destruct (outgoing s) as [os|] eqn:E; [|apply keeps_refl].
  destruct (find (fun o => o_q o =? q) os) as [o|] eqn:F; [|apply keeps_refl].
  destruct (request_run t o (EvExc e)) as [keep out] eqn:R. cbn [fst snd]. intro Ta.
  pose proof (olist_some s os E) as OL. apply find_some in F. destruct F as [Io Qo]. apply Z.eqb_eq in Qo.
  set (b := tm_set_outgoing s (Some (filter (fun o => negb (o_q o =? q)) os))).
  assert (OLb : olist b = filter (fun o => negb (o_q o =? q)) (olist s)) by (rewrite OL; reflexivity).
  destruct (TI_filter s b _ Ta OLb eq_refl eq_refl) as [Tb Lb]. split; [exact Tb|split; [reflexivity|split; [reflexivity|split; [exact Lb|]]]].
  intros x Ix. rewrite OL in Ix. destruct (o_q x =? q) eqn:Q.
  - right. apply Z.eqb_eq in Q. assert (x = o).
    { apply (NoDup_map_inj_in o_q (olist s)); [exact (ti_q _ Ta)|rewrite OL; exact Ix|rewrite OL; exact Io|congruence]. }
    subst x. assert (Fo : o_first o = true -> o_observe o = true) by (apply (ti_fo _ Ta); rewrite OL; exact Io).
    destruct (request_run_exc t o e Fo) as (y & Iy & Sy). rewrite R in Iy. exists y. auto.
  - left. exists x. split; [|auto]. rewrite OLb, OL. apply filter_In. split; [exact Ix|rewrite Q; reflexivity].
Qed.

Lemma fail_requests_spec t r e : forall os,
  fst (fail_requests t os r e) = filter (fun o => negb (o_remote o =? r)) os /\
  forall x, In x os -> o_remote x = r -> (o_first x = true -> o_observe x = true) ->
    exists y, In y (snd (fail_requests t os r e)) /\ settles (o_observe x) (o_q x) y = true.
Proof.
  induction os as [|o rest [IH1 IH2]]; cbn [fail_requests filter]; [split; [reflexivity|intros x []]|].
  destruct (fail_requests t rest r e) as [rest' out'] eqn:R. cbn [fst snd] in *.
  destruct (o_remote o =? r) eqn:Q; cbn [negb fst snd].
  - split; [exact IH1|]. intros x [->|Ix] Hr Fx.
    + destruct (request_run_exc t x e Fx) as (y & Iy & Sy). exists y. split; [apply in_or_app; left; exact Iy|exact Sy].
    + destruct (IH2 x Ix Hr Fx) as (y & Iy & Sy). exists y. split; [apply in_or_app; right; exact Iy|exact Sy].
  - split; [f_equal; exact IH1|]. intros x [->|Ix] Hr Fx; [apply Z.eqb_neq in Q; congruence|exact (IH2 x Ix Hr Fx)].
Qed.

Lemma tm_dispatch_error_keeps t s e r : keeps s (fst (tm_dispatch_error t s e r)) (snd (tm_dispatch_error t s e r)).
Proof.
  unfold tm_dispatch_error. destruct (outgoing s) as [os|] eqn:E; [|apply keeps_refl].
  destruct (incoming s) as [is_|]; [|apply keeps_refl].
  pose proof (fail_requests_spec t r e os) as [S1 S2]. destruct (fail_requests t os r e) as [os' o1]. cbn [fst snd] in *. subst os'.
  intro Ta. pose proof (olist_some s os E) as OL.
  match goal with |- TI ?b0 /\ _ => set (b := b0) end.
  assert (OLb : olist b = filter (fun o => negb (o_remote o =? r)) (olist s)) by (rewrite OL; reflexivity).
  destruct (TI_filter s b _ Ta OLb eq_refl eq_refl) as [Tb Lb]. split; [exact Tb|split; [reflexivity|split; [reflexivity|split; [exact Lb|]]]].
  intros x Ix. rewrite OL in Ix. destruct (o_remote x =? r) eqn:Q.
  - right. apply Z.eqb_eq in Q. assert (Fx : o_first x = true -> o_observe x = true) by (apply (ti_fo _ Ta); rewrite OL; exact Ix).
    destruct (S2 x Ix Q Fx) as (y & Iy & Sy). exists y. split; [apply in_or_app; left; exact Iy|exact Sy].
  - left. exists x. split; [|auto]. rewrite OLb, OL. apply filter_In. split; [exact Ix|rewrite Q; reflexivity].
Qed.

Lemma tm_process_response_keeps t s m :
  keeps s (fst (fst (tm_process_response t s m))) (snd (fst (tm_process_response t s m))).
Proof.
  unfold tm_process_response. destruct (outgoing s) as [os|] eqn:E; [|apply keeps_refl].
  destruct (find (oreq_is (m_token m) (m_remote m)) os) as [o|] eqn:F; [|apply keeps_refl].
  set (final := negb (o_observe o && match m_obs m with Some _ => true | None => false end)).
  intro Ta. pose proof (olist_some s os E) as OL. apply find_some in F. destruct F as [Io Ko].
  assert (Fo : o_first o = true -> o_observe o = true) by (apply (ti_fo _ Ta); rewrite OL; exact Io).
  assert (Hev : match EvMsg m final with EvMsg m0 false => m_obs m0 <> None | _ => True end).
  { cbn. destruct final eqn:Fi; [exact I|]. unfold final in Fi. destruct (m_obs m); [discriminate|]. rewrite andb_false_r in Fi. discriminate. }
  pose proof (request_run_spec t o (EvMsg m final) Fo Hev) as Sp.
  assert (Same : forall x, In x os -> oreq_is (m_token m) (m_remote m) x = true -> x = o).
  { intros x Ix Kx. apply (NoDup_map_inj_in okey (olist s)); [exact (ti_key _ Ta)|rewrite OL; exact Ix|rewrite OL; exact Io|].
    unfold oreq_is in *. apply andb_true_iff in Kx, Ko. rewrite !Z.eqb_eq in *. unfold okey. destruct Kx, Ko. congruence. }
  destruct (request_run t o (EvMsg m final)) as [[o'|] out]; cbn [fst snd].
  - destruct Sp as (Eq & Eo & Fo' & Et & Er).
    match goal with |- TI ?b0 /\ _ => set (b := b0) end.
    assert (OLb : olist b = map (fun x => if oreq_is (m_token m) (m_remote m) x then o' else x) (olist s)) by (rewrite OL; reflexivity).
    assert (Ios : In o (olist s)) by (rewrite OL; exact Io).
    destruct (TI_update s b _ _ o o' Ta Ios Ko OLb eq_refl eq_refl Eq Et Er Fo') as [Tb Lb].
    split; [exact Tb|split; [reflexivity|split; [reflexivity|split; [exact Lb|]]]].
    intros x Ix. rewrite OL in Ix. left. destruct (oreq_is (m_token m) (m_remote m) x) eqn:Kx.
    + rewrite (Same x Ix Kx). exists o'. split; [|auto]. rewrite OLb, OL. apply in_map_iff. exists o. rewrite Ko. auto.
    + exists x. split; [|auto]. rewrite OLb, OL. apply in_map_iff. exists x. rewrite Kx. auto.
  - match goal with |- TI ?b0 /\ _ => set (b := b0) end.
    assert (OLb : olist b = filter (fun x => negb (oreq_is (m_token m) (m_remote m) x)) (olist s)) by (rewrite OL; reflexivity).
    destruct (TI_filter s b _ Ta OLb eq_refl eq_refl) as [Tb Lb]. split; [exact Tb|split; [reflexivity|split; [reflexivity|split; [exact Lb|]]]].
    intros x Ix. rewrite OL in Ix. destruct (oreq_is (m_token m) (m_remote m) x) eqn:Kx.
    + right. rewrite (Same x Ix Kx). exact Sp.
    + left. exists x. split; [|auto]. rewrite OLb, OL. apply filter_In. split; [exact Ix|rewrite Kx; reflexivity].
Qed.

Lemma client_cancel_keeps s q : keeps s (fst (client_cancel s q)) (snd (client_cancel s q)).
Proof.
  unfold client_cancel. destruct (outgoing s) as [os|] eqn:E; [|apply keeps_refl].
  destruct (find (fun o => o_q o =? q) os) as [o|] eqn:F; [|apply keeps_refl].
  destruct (o_first o); [apply keeps_refl|]. cbn [fst snd]. intro Ta. pose proof (olist_some s os E) as OL.
  match goal with |- TI ?b0 /\ _ => set (b := b0) end.
  assert (OLb : olist b = filter (fun o => negb (o_q o =? q)) (olist s)) by (rewrite OL; reflexivity).
  destruct (TI_filter s b _ Ta OLb eq_refl eq_refl) as [Tb Lb]. split; [exact Tb|split; [reflexivity|split; [reflexivity|split; [exact Lb|]]]].
  intros x Ix. rewrite OL in Ix. destruct (o_q x =? q) eqn:Q.
  - right. exists (OCancelled q). split; [left; reflexivity|]. cbn. exact Q.
  - left. exists x. split; [|auto]. rewrite OLb, OL. apply filter_In. split; [exact Ix|rewrite Q; reflexivity].
Qed.

Lemma tm_shutdown_outgoing_keeps t s : keeps s (fst (tm_shutdown_outgoing t s)) (snd (tm_shutdown_outgoing t s)).
Proof.
  unfold tm_shutdown_outgoing. destruct (outgoing s) as [os|] eqn:E; [|apply keeps_refl]. cbn [fst snd].
  intro Ta. pose proof (olist_some s os E) as OL. destruct Ta as [F Q K Tk P Rn Rd].
  split; [constructor; cbn; try constructor; try assumption; try (intros o []); intros q []|]. split; [reflexivity|]. split; [reflexivity|]. split; [intros x []|].
  intros x Ix. right. rewrite OL in Ix. assert (Fx : o_first x = true -> o_observe x = true) by (apply F; rewrite OL; exact Ix).
  destruct (request_run_exc t x LibraryShutdown Fx) as (y & Iy & Sy). exists y. split; [|exact Sy].
  apply in_flat_map. exists x. auto.
Qed.

Lemma stop_keeps s h out : keeps s (fst (stop s h)) out.
Proof. unfold stop. destruct (incoming s) as [l|]; [|apply keeps_refl]. destruct (existsb _ l); [apply keeps_same; reflexivity|apply keeps_refl]. Qed.
Lemma call_monitor_keeps t s mon : keeps s (fst (call_monitor t s mon)) (snd (call_monitor t s mon)).
Proof. destruct mon; cbn [call_monitor]; [apply add_exception_keeps|apply stop_keeps|apply keeps_refl]. Qed.
Lemma tm_process_request_keeps s m out : keeps s (fst (tm_process_request s m)) out.
Proof. unfold tm_process_request. destruct (incoming s); [apply keeps_same; reflexivity|apply keeps_refl]. Qed.
Lemma tm_shutdown_incoming_keeps s out : keeps s (fst (tm_shutdown_incoming s)) out.
Proof. unfold tm_shutdown_incoming. destruct (incoming s); [apply keeps_same; reflexivity|apply keeps_refl]. Qed.

(* ---------------------------------------------------------------- through the message manager *)
Lemma incl_app_mid {A} (a b c : list A) : incl b (a ++ b ++ c).
Proof. intros x I. apply in_or_app. right. apply in_or_app. left. exact I. Qed.

Lemma remove_exchange_keeps s m : keeps (tm s) (tm (fst (_remove_exchange s m))) (snd (_remove_exchange s m)).
Proof.
  unfold _remove_exchange. destruct (exchanges (mm s)) as [xs|]; [|apply keeps_refl].
  destruct (find (exchange_is (m_remote m) (m_mid m)) xs) as [x|]; [|apply keeps_refl].
  set (mm1 := cancel _ (x_timer x)).
  assert (K : keeps (tm s) (fst (match m_type m with RST => call_monitor (now mm1) (tm s) (x_mon x) | _ => (tm s, []) end))
                           (snd (match m_type m with RST => call_monitor (now mm1) (tm s) (x_mon x) | _ => (tm s, []) end))).
  { destruct (m_type m); try apply keeps_refl. apply call_monitor_keeps. }
  destruct (match m_type m with RST => call_monitor (now mm1) (tm s) (x_mon x) | _ => (tm s, []) end) as [tm1 o1].
  destruct (_continue_backlog mm1 (m_remote m)) as [mm2 o2]. cbn [fst snd tm] in *.
  eapply keeps_weaken; [exact K|apply incl_appl; apply incl_refl].
Qed.

Lemma handler_respond_keeps s h code last obs lg : keeps (tm s) (tm (fst (handler_respond s h code last obs lg))) (snd (handler_respond s h code last obs lg)).
Proof.
  unfold handler_respond. destruct (incoming (tm s)) as [l|]; [|apply keeps_refl].
  destruct (find (fun i => i_h i =? h) l) as [i|]; [|apply keeps_refl].
  destruct (send_message _ _ _ _ _ _ _ _) as [mm1 out]. cbn [fst snd tm]. destruct last; [apply keeps_same; reflexivity|apply keeps_refl].
Qed.

Lemma dispatch_error_keeps s e r : keeps (tm s) (tm (fst (dispatch_error s e r))) (snd (dispatch_error s e r)).
Proof.
  unfold dispatch_error. destruct (exchanges (mm s)) as [xs|]; [|apply keeps_refl].
  pose proof (tm_dispatch_error_keeps (now (mm s)) (tm s) e r) as K.
  destruct (tm_dispatch_error _ _ _ _) as [tm1 o1]. exact K.
Qed.

Lemma retransmit_keeps s m timeout count : keeps (tm s) (tm (fst (_retransmit s m timeout count))) (snd (_retransmit s m timeout count)).
Proof.
  unfold _retransmit. destruct (exchanges (mm s)) as [xs|]; [|apply keeps_refl].
  destruct (find (exchange_is (m_remote m) (m_mid m)) xs) as [x|]; [|apply keeps_refl].
  destruct (count <? MAX_RETRANSMIT).
  - destruct (_schedule_retransmit _ _ _ _). apply keeps_refl.
  - match goal with |- context [has_backlog ?a ?b] => destruct (has_backlog a b) end; [|apply keeps_refl].
    match goal with |- context [tm_dispatch_error ?a ?b ?c ?d] => pose proof (tm_dispatch_error_keeps a b c d) as K; destruct (tm_dispatch_error a b c d) end.
    exact K.
Qed.

Lemma run_item_keeps s i : keeps (tm s) (tm (fst (run_item s i))) (snd (run_item s i)).
Proof.
  unfold run_item. destruct i as [t|f].
  - destruct (t_kind t).
    + match goal with |- context [_retransmit ?a ?b ?c ?d] => apply (retransmit_keeps a b c d) end.
    + destruct (on_timeout _ _ _). apply keeps_refl.
  - destruct (forget_recent _ _ _). apply keeps_refl.
Qed.
Lemma fire_keeps s : keeps (tm s) (tm (fst (fire s))) (snd (fire s)).
Proof. unfold fire. destruct (earliest _); [apply run_item_keeps|apply keeps_refl]. Qed.
Lemma advance_keeps fuel : forall s target, keeps (tm s) (tm (fst (advance_to fuel s target))) (snd (advance_to fuel s target)).
Proof.
  induction fuel as [|fuel IH]; intros s target; cbn [advance_to]; [apply keeps_refl|].
  destruct (earliest (pending (mm s))) as [i|]; [|apply keeps_refl].
  destruct (fst (item_key i) <=? target); [|apply keeps_refl].
  pose proof (run_item_keeps s i) as K1. destruct (run_item s i) as [s1 o1].
  pose proof (IH s1 target) as K2. destruct (advance_to fuel s1 target) as [s2 o2]. cbn [fst snd] in *.
  eapply keeps_trans; eassumption.
Qed.

Lemma dispatch_message_keeps s m : keeps (tm s) (tm (fst (dispatch_message s m))) (snd (dispatch_message s m)).
Proof.
  unfold dispatch_message.
  destruct (if is_request (m_code m) then _deduplicate_message (mm s) m else (mm s, [], false)) as [[mm1 o1] dup].
  destruct dup; [apply keeps_refl|].
  set (s1 := {| tm := tm s; mm := mm1 |}).
  set (r2 := if is_ack_or_rst (m_type m) then _remove_exchange s1 m else (s1, [])).
  assert (K2 : keeps (tm s) (tm (fst r2)) (snd r2)).
  { unfold r2. destruct (is_ack_or_rst (m_type m)); [apply (remove_exchange_keeps s1 m)|apply keeps_refl]. }
  destruct r2 as [s2 o2]. cbn [fst snd] in K2.
  match goal with |- keeps _ (tm (fst (let '(s3, o3) := ?X in _))) _ =>
    assert (K3 : keeps (tm s2) (tm (fst X)) (snd X)); [|destruct X as [s3 o3]; cbn [fst snd] in *;
      eapply keeps_weaken; [eapply keeps_trans; [exact K2|exact K3]|apply incl_appr; apply incl_refl]] end.
  destruct ((m_code m =? EMPTY) && mtype_eqb (m_type m) CON); [destruct (_process_ping _ _); apply keeps_refl|].
  destruct ((m_code m =? EMPTY) && is_ack_or_rst (m_type m)); [apply keeps_refl|].
  destruct (is_request (m_code m) && negb (is_ack_or_rst (m_type m))).
  { pose proof (tm_process_request_keeps (tm s2) m) as K. destruct (tm_process_request (tm s2) m). cbn [fst snd tm]. apply K. }
  destruct (is_response (m_code m) && negb (mtype_eqb (m_type m) RST)); [|apply keeps_refl].
  pose proof (tm_process_response_keeps (now (mm s2)) (tm s2) m) as K.
  destruct (tm_process_response (now (mm s2)) (tm s2) m) as [[tm3 o] success]. cbn [fst snd] in K.
  destruct success; destruct (m_type m); cbn [fst snd tm]; try exact K.
  - destruct (_send_empty_ack _ _ _). cbn [fst snd tm]. eapply keeps_weaken; [exact K|apply incl_appl; apply incl_refl].
  - destruct (_send_initially _ _ _). cbn [fst snd tm]. eapply keeps_weaken; [exact K|apply incl_appl; apply incl_refl].
Qed.

Lemma shutdown_keeps s : keeps (tm s) (tm (fst (shutdown s))) (snd (shutdown s)).
Proof.
  unfold shutdown.
  pose proof (tm_shutdown_incoming_keeps (tm s) []) as K1. destruct (tm_shutdown_incoming (tm s)) as [tm1 o1]. cbn [fst] in K1.
  pose proof (tm_shutdown_outgoing_keeps (now (mm s)) tm1) as K2. destruct (tm_shutdown_outgoing (now (mm s)) tm1) as [tm2 o2]. cbn [fst snd] in K2.
  destruct (mm_shutdown (mm s)) as [mm1 o3]. cbn [fst snd tm].
  eapply keeps_weaken; [eapply keeps_trans; [exact K1|exact K2]|]. cbn [app]. apply incl_app_mid.
Qed.

Definition is_plain (e : event) : bool :=
  match e with ClientRequest _ _ _ _ | ClientRequestSlow _ _ _ _ | Resolved _ => false | _ => true end.
Lemma step_keeps s e : is_plain e = true -> keeps (tm s) (tm (fst (step s e))) (snd (step s e)).
Proof.
  intro NR. destruct e; try discriminate NR; cbn [step].
  - apply dispatch_message_keeps.
  - apply fire_keeps.
  - apply advance_keeps.
  - pose proof (client_cancel_keeps (tm s) q) as K. destruct (client_cancel (tm s) q). exact K.
  - apply handler_respond_keeps.
  - apply handler_respond_keeps.
  - apply dispatch_error_keeps.
  - apply shutdown_keeps.
Qed.

(* ---------------------------------------------------------------- submitting a request *)
Lemma tm_request_link s q r mt ob : TI (tm s) -> ~ In q (map o_q (olist (tm s))) -> ~ In q (map rlabel (resolving (tm s))) ->
  token (tm s) + 1 < 2 ^ 64 ->
  let s' := fst (tm_request s q r mt ob) in let out := snd (tm_request s q r mt ob) in
  TI (tm s') /\ token (tm s') <= token (tm s) + 1 /\ resolving (tm s') = resolving (tm s) /\
  incl (map o_q (olist (tm s'))) (q :: map o_q (olist (tm s))) /\
  (forall e, In e (olist (tm s)) -> kept (tm s') out e) /\
  ((exists e', In e' (olist (tm s')) /\ o_q e' = q /\ o_observe e' = ob) \/ (exists o, In o out /\ settles ob q o = true)).
Proof.
  intros Ta Fresh FreshR Bound. cbv zeta. unfold tm_request. destruct (outgoing (tm s)) as [os|] eqn:E.
  - pose proof (olist_some _ _ E) as OL. destruct Ta as [F Q K Tk P Rn Rd].
    unfold next_token. cbn [fst snd].
    assert (Tok : (token (tm s) + 1) mod 2 ^ 64 = token (tm s) + 1) by (apply Z.mod_small; lia).
    destruct (send_message _ _ _ _ _ _ _ _) as [mm1 out]. cbn [fst snd tm].
    set (fr := {| o_tok := (token (tm s) + 1) mod 2 ^ 64; o_remote := r; o_q := q; o_observe := ob; o_first := false; o_v1 := 0; o_t1 := 0 |}).
    set (b := tm_set_outgoing (tm_set_token (tm s) ((token (tm s) + 1) mod 2 ^ 64)) (Some (os ++ [fr]))).
    assert (OLb : olist b = olist (tm s) ++ [fr]) by (rewrite OL; reflexivity).
    assert (Tb : token b = token (tm s) + 1) by (cbn; exact Tok).
    assert (Rb : resolving b = resolving (tm s)) by reflexivity.
    split; [|split; [lia|split; [exact Rb|split; [|split]]]].
    + constructor; rewrite ?OLb, ?Tb, ?Rb.
      * intros o I. apply in_app_or in I. destruct I as [I|[<-|[]]]; [apply F; exact I|cbn; discriminate].
      * rewrite map_app. cbn. apply NoDup_app_intro_one; assumption.
      * rewrite map_app. cbn. apply NoDup_app_intro_one; [exact K|]. intro I. apply in_map_iff in I. destruct I as (x & Hx & Ix).
        unfold okey, fr in Hx. cbn in Hx. inversion Hx. pose proof (Tk x Ix). lia.
      * intros o I. apply in_app_or in I. destruct I as [I|[<-|[]]]; [pose proof (Tk o I); lia|cbn; lia].
      * lia.
      * exact Rn.
      * intros q0 I. rewrite map_app in I. apply in_app_or in I. destruct I as [I|[<-|[]]]; [apply Rd; exact I|exact FreshR].
    + rewrite OLb, map_app. cbn. intros x I. apply in_app_or in I. destruct I as [I|[<-|[]]]; [right; exact I|left; reflexivity].
    + intros e I. left. exists e. split; [rewrite OLb; apply in_or_app; left; exact I|auto].
    + left. exists fr. split; [rewrite OLb; apply in_or_app; right; left; reflexivity|auto].
  - cbn [fst snd]. split; [exact Ta|split; [lia|split; [reflexivity|split; [apply incl_tl; apply incl_refl|split]]]].
    + intros e I. left. exists e. auto.
    + right. exists (OFail q LibraryShutdown). split; [left; reflexivity|cbn; apply Z.eqb_refl].
Qed.

(* ---------------------------------------------------------------- whole histories *)
Definition reqs_of (es : list event) : list (Z * bool) :=
  flat_map (fun e => match e with ClientRequest q _ _ ob | ClientRequestSlow q _ _ ob => [(q, ob)] | _ => [] end) es.
(* a submitted request is in the table, or settled, or still looking for its remote *)
Definition tracked (L : list (Z * bool)) (b : tmst) (outs : list output) : Prop :=
  forall q ob, In (q, ob) L ->
    (exists e, In e (olist b) /\ o_q e = q /\ o_observe e = ob) \/ (exists o, In o outs /\ settles ob q o = true) \/
    (exists x, In x (resolving b) /\ rlabel x = q /\ snd x = ob).
Definition labels (s : tmst) : list Z := map o_q (olist s) ++ map rlabel (resolving s).

Lemma tracked_step L a b outs0 out : tracked L a outs0 -> (forall e, In e (olist a) -> kept b out e) -> resolving b = resolving a ->
  tracked L b (outs0 ++ out).
Proof.
  intros T K R q ob I. destruct (T q ob I) as [(e & Ie & Eq & Eo)|[(o & Io & S)|X]].
  - destruct (K e Ie) as [(e' & Ie' & Eq' & Eo')|(o & Io & S)].
    + left. exists e'. split; [exact Ie'|split; congruence].
    + right. left. exists o. split; [apply in_or_app; right; exact Io|]. rewrite <- Eq, <- Eo. exact S.
  - right. left. exists o. split; [apply in_or_app; left; exact Io|exact S].
  - right. right. rewrite R. exact X.
Qed.

Definition draws (e : event) : Z := match e with ClientRequest _ _ _ _ | Resolved _ => 1 | _ => 0 end.

Lemma step_link s e L outs0 : TI (tm s) -> token (tm s) + 1 < 2 ^ 64 -> incl (labels (tm s)) (map fst L) ->
  NoDup (map fst (L ++ reqs_of [e])) -> tracked L (tm s) outs0 ->
  TI (tm (fst (step s e))) /\ token (tm (fst (step s e))) <= token (tm s) + 1 /\
  incl (labels (tm (fst (step s e)))) (map fst (L ++ reqs_of [e])) /\
  tracked (L ++ reqs_of [e]) (tm (fst (step s e))) (outs0 ++ snd (step s e)).
Proof.
  intros Ta Bound Lab ND Tr. destruct (is_plain e) eqn:PL.
  - assert (RQ : reqs_of [e] = []) by (destruct e; try discriminate PL; reflexivity). rewrite RQ, app_nil_r in *.
    pose proof (step_keeps s e PL Ta) as (T1 & Tk1 & R1 & L1 & K1). destruct (step s e) as [s1 o]. cbn [fst snd] in *.
    split; [exact T1|split; [lia|split; [|exact (tracked_step L (tm s) (tm s1) outs0 o Tr K1 R1)]]].
    unfold labels in *. rewrite R1. intros x I. apply Lab. apply in_app_or in I. apply in_or_app. destruct I as [I|I]; [left; apply L1; exact I|right; exact I].
  - destruct e; try discriminate PL; cbn [step reqs_of flat_map app] in *.
    + (* ClientRequest *)
      assert (NL : ~ In q (map fst L)) by (rewrite map_app in ND; cbn in ND; apply NoDup_remove_2 in ND; rewrite app_nil_r in ND; exact ND).
      assert (F1 : ~ In q (map o_q (olist (tm s)))) by (intro I; apply NL, Lab; unfold labels; apply in_or_app; left; exact I).
      assert (F2 : ~ In q (map rlabel (resolving (tm s)))) by (intro I; apply NL, Lab; unfold labels; apply in_or_app; right; exact I).
      pose proof (tm_request_link s q r mt observe Ta F1 F2 Bound) as H. cbv zeta in H.
      destruct (tm_request s q r mt observe) as [s1 o]. cbn [fst snd] in *. destruct H as (T1 & Tk1 & R1 & L1 & K1 & New).
      split; [exact T1|split; [exact Tk1|split]].
      * unfold labels in *. rewrite R1, map_app. cbn. intros x I. apply in_app_or in I. apply in_or_app. destruct I as [I|I].
        -- apply L1 in I. destruct I as [<-|I]; [right; left; reflexivity|left; apply Lab; apply in_or_app; left; exact I].
        -- left. apply Lab. apply in_or_app. right. exact I.
      * intros q0 ob0 I. apply in_app_or in I. destruct I as [I|[I|[]]].
        -- exact (tracked_step L (tm s) (tm s1) outs0 o Tr K1 R1 q0 ob0 I).
        -- inversion I; subst. destruct New as [N|(x & Ix & S)]; [left; exact N|right; left; exists x; split; [apply in_or_app; right; exact Ix|exact S]].
    + (* ClientRequestSlow: the request waits in Context.request's send() task *)
      assert (NL : ~ In q (map fst L)) by (rewrite map_app in ND; cbn in ND; apply NoDup_remove_2 in ND; rewrite app_nil_r in ND; exact ND).
      cbn [fst snd tm]. rewrite app_nil_r. destruct Ta as [F Q K Tk P Rn Rd].
      split; [|split; [cbn; lia|split]].
      * constructor; cbn; try assumption.
        -- rewrite map_app. cbn. apply NoDup_app_intro_one; [exact Rn|]. intro I. apply NL, Lab. unfold labels. apply in_or_app. right. exact I.
        -- intros q0 I J. rewrite map_app in J. apply in_app_or in J. destruct J as [J|[<-|[]]]; [exact (Rd q0 I J)|].
           apply NL, Lab. unfold labels. apply in_or_app. left. exact I.
      * unfold labels in *. cbn. rewrite !map_app. cbn. intros x I. apply in_app_or in I. apply in_or_app. destruct I as [I|I].
        -- left. apply Lab. apply in_or_app. left. exact I.
        -- apply in_app_or in I. destruct I as [I|[<-|[]]]; [left; apply Lab; apply in_or_app; right; exact I|right; left; reflexivity].
      * intros q0 ob0 I. apply in_app_or in I. destruct I as [I|[I|[]]].
        -- destruct (Tr q0 ob0 I) as [E|[S|(x & Ix & X)]]; [left; exact E|right; left; exact S|].
           right. right. exists x. split; [cbn; apply in_or_app; left; exact Ix|exact X].
        -- inversion I; subst. right. right. exists (q0, r, mt, ob0). split; [cbn; apply in_or_app; right; left; reflexivity|auto].
    + (* Resolved: determine_remote returns; only now the token manager sees the request *)
      rewrite app_nil_r in *.
      destruct (find (fun x => fst (fst (fst x)) =? q) (resolving (tm s))) as [[[[q0 r] mt] ob]|] eqn:Fd.
      2:{ cbn [fst snd]. rewrite app_nil_r. split; [exact Ta|split; [lia|split; [exact Lab|exact Tr]]]. }
      apply find_some in Fd. destruct Fd as [Ix Qx]. cbn in Qx. apply Z.eqb_eq in Qx. subst q0.
      set (res' := filter (fun x => negb (fst (fst (fst x)) =? q)) (resolving (tm s))).
      set (s0 := {| tm := tm_set_resolving (tm s) res'; mm := mm s |}).
      assert (NotR : ~ In q (map rlabel res')).
      { intro I. apply in_map_iff in I. destruct I as (x & Hx & I). apply filter_In in I. destruct I as [_ I]. unfold rlabel in Hx. rewrite Hx, Z.eqb_refl in I. discriminate. }
      assert (InR : In q (map rlabel (resolving (tm s)))) by (apply in_map_iff; exists (q, r, mt, ob); auto).
      assert (NotO : ~ In q (map o_q (olist (tm s)))) by (intro I; exact (ti_d _ Ta q I InR)).
      assert (T0 : TI (tm s0)).
      { destruct Ta as [F Q K Tk P Rn Rd]. constructor; cbn; try assumption.
        - apply NoDup_map_filter. exact Rn.
        - intros q1 I J. apply (Rd q1 I). unfold res' in J. exact (incl_map_filter rlabel _ _ _ J). }
      pose proof (tm_request_link s0 q r mt ob T0 NotO NotR Bound) as H. cbv zeta in H.
      destruct (tm_request s0 q r mt ob) as [s1 o]. cbn [fst snd] in *. destruct H as (T1 & Tk1 & R1 & L1 & K1 & New).
      split; [exact T1|split; [exact Tk1|split]].
      * unfold labels in *. rewrite R1. cbn. intros x I. apply Lab. apply in_app_or in I. apply in_or_app. destruct I as [I|I].
        -- apply L1 in I. destruct I as [<-|I]; [right; exact InR|left; exact I].
        -- right. unfold res' in I. exact (incl_map_filter rlabel _ _ _ I).
      * intros q0 ob0 I. destruct (Tr q0 ob0 I) as [(e & Ie & Eq & Eo)|[(y & Iy & S)|(x & Ixx & X1 & X2)]].
        -- destruct (K1 e Ie) as [(e' & Ie' & Eq' & Eo')|(y & Iy & S)].
           ++ left. exists e'. split; [exact Ie'|split; congruence].
           ++ right. left. exists y. split; [apply in_or_app; right; exact Iy|]. rewrite <- Eq, <- Eo. exact S.
        -- right. left. exists y. split; [apply in_or_app; left; exact Iy|exact S].
        -- destruct (Z.eq_dec q0 q) as [->|Ne].
           ++ assert (x = (q, r, mt, ob)).
              { apply (NoDup_map_inj_in rlabel (resolving (tm s))); [exact (ti_r _ Ta)|exact Ixx|exact Ix|]. rewrite X1. reflexivity. }
              subst x. cbn in X2. subst ob0.
              destruct New as [N|(y & Iy & S)]; [left; exact N|right; left; exists y; split; [apply in_or_app; right; exact Iy|exact S]].
           ++ right. right. exists x. split; [|auto]. rewrite R1. cbn. apply filter_In. split; [exact Ixx|].
              unfold rlabel in X1. rewrite X1. destruct (q0 =? q) eqn:Q; [apply Z.eqb_eq in Q; congruence|reflexivity].
Qed.

Lemma NoDup_app_l {A} (l l' : list A) : NoDup (l ++ l') -> NoDup l.
Proof. induction l as [|x l IH]; cbn; intro H; [constructor|]. inversion H; subst. constructor; [intro I; apply H2; apply in_or_app; left; exact I|auto]. Qed.

Lemma run_link : forall es s L outs0,
  TI (tm s) -> token (tm s) + Z.of_nat (length es) < 2 ^ 64 -> incl (labels (tm s)) (map fst L) ->
  NoDup (map fst (L ++ reqs_of es)) -> tracked L (tm s) outs0 ->
  TI (tm (fst (run s es))) /\ tracked (L ++ reqs_of es) (tm (fst (run s es))) (outs0 ++ concat (snd (run s es))).
Proof.
  induction es as [|e es IH]; intros s L outs0 Ta Bound Lab ND Tr; cbn [run].
  - cbn. rewrite !app_nil_r. auto.
  - cbn [length] in Bound. rewrite Nat2Z.inj_succ in Bound.
    assert (RQ : reqs_of (e :: es) = reqs_of [e] ++ reqs_of es) by (unfold reqs_of; cbn; rewrite app_nil_r; reflexivity).
    rewrite RQ, app_assoc in *.
    assert (ND0 : NoDup (map fst (L ++ reqs_of [e]))) by (rewrite map_app in ND; apply NoDup_app_l in ND; exact ND).
    assert (B1 : token (tm s) + 1 < 2 ^ 64) by lia.
    pose proof (step_link s e L outs0 Ta B1 Lab ND0 Tr) as (T1 & Tk1 & L1 & Tr1).
    destruct (step s e) as [s1 o]. cbn [fst snd] in *.
    assert (Bd1 : token (tm s1) + Z.of_nat (length es) < 2 ^ 64) by lia.
    destruct (IH s1 (L ++ reqs_of [e]) (outs0 ++ o) T1 Bd1 L1 ND Tr1) as [T2 Tr2].
    destruct (run s1 es) as [s2 os]. cbn [fst snd concat] in *. split; [exact T2|]. rewrite (app_assoc outs0 o (concat os)). exact Tr2.
Qed.

Lemma TI_init u m t : 0 <= t -> TI (tm (init u m t)).
Proof. intro P. constructor; cbn; try constructor; try tauto; try exact P. Qed.

(* in every reachable state of a context, a submitted request is settled, or has its entry in outgoing_requests, or is
   still inside Context.request's remote lookup *)
Theorem unsettled_requests_are_outstanding : forall es u m t,
  NoDup (map fst (reqs_of es)) -> 0 <= t -> t + Z.of_nat (length es) < 2 ^ 64 ->
  TI (tm (fst (run (init u m t) es))) /\ tracked (reqs_of es) (tm (fst (run (init u m t) es))) (concat (snd (run (init u m t) es))).
Proof.
  intros es u m t ND P B.
  assert (Tr0 : tracked [] (tm (init u m t)) []) by (intros q ob []).
  assert (Lab0 : incl (labels (tm (init u m t))) (map fst (@nil (Z * bool)))) by (intros x []).
  exact (run_link es (init u m t) [] [] (TI_init u m t P) B Lab0 ND Tr0).
Qed.

(* ---------------------------------------------------------------- the composed statement, without state hypotheses *)
Definition lib_outcome (o : output) : bool :=
  match o with
  | OHCancel _ | OShutdownDone | OFail _ LibraryShutdown | OObsEnd _ LibraryShutdown | OObsEnd _ NotObservable => true
  | _ => false
  end.
Lemma shutdown_outcome_lib o : forallb lib_outcome (shutdown_outcome o) = true.
Proof. unfold shutdown_outcome. destruct (o_first o); [reflexivity|]. destruct (o_observe o); reflexivity. Qed.
Lemma forallb_flat_map {A B} (p : B -> bool) (f : A -> list B) l : (forall x, forallb p (f x) = true) -> forallb p (flat_map f l) = true.
Proof. intro H. induction l as [|x l IH]; cbn; [reflexivity|]. rewrite forallb_app, H, IH. reflexivity. Qed.

(* well-formed event lists: Context.shutdown is called once, request labels are distinct, fewer than 2^64 tokens are drawn *)
Definition wf_history (t : Z) (before after : list event) : Prop :=
  forallb not_shutdown before = true /\ forallb in_scope after = true /\
  NoDup (map fst (reqs_of before)) /\ 0 <= t /\ t + Z.of_nat (length before) < 2 ^ 64.

Theorem shutdown_at_any_moment : forall u m t before after, wf_history t before after ->
  let s := fst (run (init u m t) before) in
  let outs := concat (snd (run (init u m t) before)) in
  let s' := fst (step s Shutdown) in
  let out := snd (step s Shutdown) in
  (* what the Shutdown step does: every handler cancelled, every table entry failed with a library error, returns *)
  out = map (fun i => OHCancel (i_h i)) (ilist (tm s)) ++ flat_map shutdown_outcome (olist (tm s)) ++ [OShutdownDone] /\
  forallb lib_outcome out = true /\
  (* every request ever submitted is settled once shutdown has returned — except those still inside Context.request's
     remote lookup, which no table knows (finding C18:resolving-request-left-hanging) *)
  (forall q ob, In (q, ob) (reqs_of before) ->
     (exists o, In o (outs ++ out) /\ settles ob q o = true) \/
     (exists x, In x (resolving (tm s')) /\ rlabel x = q /\ snd x = ob)) /\
  (* afterwards: silence, and the timers run out *)
  forallb (forallb quiet) (snd (run s' after)) = true /\
  pending (mm (fst (run (fst (run s' after)) (repeat Fire (length (forgets (mm (fst (run s' after))))))))) = [].
Proof.
  intros u m t before after (NS & Sc & ND & P & B) s outs s' out.
  destruct (reachable_owned before u m t NS) as (Own & xs & E). fold s in Own, E.
  pose proof (shutdown_at_any_moment_partial u m t before after xs E Own Sc) as (O & Q & R). fold s in O, Q, R. fold s' in Q, R.
  split; [exact O|]. split; [|split; [|split; [exact Q|exact R]]].
  - unfold out. rewrite O. rewrite !forallb_app. rewrite forallb_flat_map by apply shutdown_outcome_lib.
    cbn [forallb lib_outcome andb]. rewrite andb_true_r. apply forallb_forall. intros x Ix. apply in_map_iff in Ix. destruct Ix as (i & <- & _). reflexivity.
  - intros q ob Iq.
    destruct (unsettled_requests_are_outstanding before u m t ND P B) as [Ti Tr]. fold s in Ti, Tr. fold outs in Tr.
    pose proof (shutdown_keeps s Ti) as (_ & _ & R1 & _ & K).
    pose proof (tracked_step _ _ _ _ _ Tr K R1 q ob Iq) as [(e & Ie & _)|[S|X]]; [|left; exact S|right; exact X].
    exfalso. pose proof (shutdown_step s xs E Own) as (D & _). destruct D as (_ & D2 & _).
    change (fst (step s Shutdown)) with (fst (shutdown s)) in *. unfold olist in Ie. cbn [step] in Ie. rewrite D2 in Ie. exact Ie.
Qed.

(* what the code does guarantee for a request that was still looking for its remote: when the lookup returns after
   shutdown, the request fails at once with LibraryShutdown (tokenmanager.py:220-223) *)
Lemma resolved_after_shutdown s q r mt ob : outgoing (tm s) = None ->
  find (fun x => fst (fst (fst x)) =? q) (resolving (tm s)) = Some (q, r, mt, ob) ->
  snd (step s (Resolved q)) = OFail q LibraryShutdown :: (if ob then [OObsEnd q NotObservable] else []) /\
  ~ In q (map rlabel (resolving (tm (fst (step s (Resolved q)))))).
Proof.
  intros D F. cbn [step]. rewrite F. rewrite request_after_shutdown by exact D. cbn [fst snd tm]. split; [reflexivity|].
  intro I. apply in_map_iff in I. destruct I as (x & Hx & I). cbn in I. apply filter_In in I. destruct I as [_ I].
  unfold rlabel in Hx. rewrite Hx, Z.eqb_refl in I. discriminate.
Qed.

(* the unconditional reading of the property ("every outstanding request terminates within the shutdown time-out") is
   false of the model, as it is of the code: a request submitted while its remote is being looked up survives shutdown
   with no outcome, however much time passes, until the lookup returns *)
Lemma resolving_request_not_failed_refuted :
  let r := run (init 2000000 0 0) [ClientRequestSlow 1 1 CON false; Shutdown; Advance 300000000] in
  In OShutdownDone (concat (snd r)) /\ (forall o, In o (concat (snd r)) -> settles false 1 o = false) /\
  resolving (tm (fst r)) = [(1, 1, CON, false)] /\
  snd (step (fst r) (Resolved 1)) = [OFail 1 LibraryShutdown].
Proof. vm_compute. split; [auto|]. split; [|auto]. intros o [<-|[]]. reflexivity. Qed.

(* a busy reachable state: the hypothesis-free theorem talks about something *)
Lemma busy_history_wf : wf_history 0 busy_history [Fire; Advance 300000000; ClientRequest 9 1 CON true; HandlerRespond 0 69 true None true; Resolved 9; ClientRequestSlow 10 2 NON false; TransportError 1].
Proof. unfold wf_history. repeat split; try reflexivity; try (vm_compute; congruence); try lia. cbn. repeat constructor; cbn; intuition congruence. Qed.
