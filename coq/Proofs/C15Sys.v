(* C15 — the endpoint around the connections: No-Response handling of pool.send_message, and what the peer's
   Release / Abort / a lost connection do to the requests outstanding on it. *)
From Verif Require Import Lib.Py Lib.Tactics Lib.PyLemmas Gen.options_ext Gen.tcp_framing Model.C15 Model.C15Sys Proofs.C15.
Open Scope Z_scope.

(* ---------------------------------------------------------------- _TCPPooling.send_message *)
Lemma pool_send_masked c m : no_response_masked m = true -> pool_send_message c m = (c, [], true).
Proof. intros H. unfold pool_send_message. rewrite H. reflexivity. Qed.

Lemma in_insert_opt x o l : In x (insert_opt o l) <-> x = o \/ In x l.
Proof.
  induction l as [|y l IH]; cbn [insert_opt].
  - cbn. intuition.
  - destruct (fst o <? fst y); cbn [In]; [intuition|]. rewrite IH. intuition.
Qed.
Lemma in_option_list_aux : forall os acc x, In x (fold_left (fun acc o => insert_opt o acc) os acc) <-> In x acc \/ In x os.
Proof.
  induction os as [|o r IH]; intros acc x; cbn [fold_left].
  - cbn. intuition.
  - rewrite IH, in_insert_opt. cbn [In]. intuition.
Qed.
Lemma in_option_list os x : In x (option_list os) <-> In x os.
Proof. unfold option_list. rewrite in_option_list_aux. cbn. intuition. Qed.

(* an unmasked message is sent like any other, and no No-Response option is among the options serialised *)
Lemma pool_send_unmasked c m : no_response_masked m = false ->
  pool_send_message c m = send_message c (strip_no_response m) /\
  Forall (fun o => fst o <> 258) (option_list (opts (strip_no_response m))) /\
  code (strip_no_response m) = code m /\ token (strip_no_response m) = token m /\ payload (strip_no_response m) = payload m.
Proof.
  intros H. unfold pool_send_message. rewrite H. split; [reflexivity|]. split; [|repeat split].
  apply Forall_forall. intros o Ho. apply (proj1 (in_option_list _ _)) in Ho. cbn [strip_no_response opts] in Ho.
  apply filter_In in Ho as [_ Ho]. intros E. rewrite E in Ho. discriminate.
Qed.

(* ---------------------------------------------------------------- the exception the requests get is a NetworkError *)
Lemma tm_wrap_network x : delivered_is_network (tm_wrap x) = true.
Proof. destruct x; reflexivity. Qed.

(* ---------------------------------------------------------------- routing the outputs of one connection *)
Definition terminal (id : Z) (r : req) (x : list eout) : Prop :=
  (exists d, In (SFail (r_token r) id d) x /\ delivered_is_network d = true) \/
  (exists c, In (SResponse (r_token r) id c true) x).

Lemma terminal_app_l id r x y : terminal id r x -> terminal id r (x ++ y).
Proof. intros [[d [H1 H2]]|[c H]]; [left; exists d|right; exists c]; try split; auto; apply in_or_app; auto. Qed.
Lemma terminal_app_r id r x y : terminal id r y -> terminal id r (x ++ y).
Proof. intros [[d [H1 H2]]|[c H]]; [left; exists d|right; exists c]; try split; auto; apply in_or_app; auto. Qed.

Definition other (id : Z) (r : req) : bool := negb (r_remote r =? id).

Lemma route_step id o s : let '(s1, x) := route id o s in
  (forall r, In r (outgoing s) -> r_remote r = id -> In r (outgoing s1) \/ terminal id r x) /\
  (forall r, In r (outgoing s1) -> In r (outgoing s)) /\
  filter (other id) (outgoing s1) = filter (other id) (outgoing s) /\
  (forall i, In i (pool s1) -> In i (pool s)) /\
  (forall i, i <> id -> In i (pool s) -> In i (pool s1)) /\
  conns s1 = conns s /\
  (forall k, o = DispatchError k -> (forall r, In r (outgoing s1) -> r_remote r <> id) /\ ~ In id (pool s1)) /\
  (forall t i d, In (SFail t i d) x -> i = id /\ delivered_is_network d = true) /\
  (forall t i c f, In (SResponse t i c f) x -> i = id).
Proof.
  assert (Hfo : forall (P : req -> bool) l, (forall r, In r l -> other id r = true -> P r = true) ->
            filter (other id) (filter P l) = filter (other id) l).
  { intros P l. induction l as [|a l IH]; intros HP; [reflexivity|]. cbn [filter].
    destruct (P a) eqn:Pa; cbn [filter].
    - destruct (other id a); [f_equal|]; apply IH; intros r Hr; apply HP; right; exact Hr.
    - destruct (other id a) eqn:Oa; [rewrite (HP a (or_introl eq_refl) Oa) in Pa; discriminate|].
      apply IH; intros r Hr; apply HP; right; exact Hr. }
  assert (Hdef : forall y, (forall k, y <> DispatchError k) ->
     (forall r, In r (outgoing s) -> r_remote r = id -> In r (outgoing s) \/ terminal id r [SConn id y]) /\
     (forall r, In r (outgoing s) -> In r (outgoing s)) /\
     filter (other id) (outgoing s) = filter (other id) (outgoing s) /\
     (forall i, In i (pool s) -> In i (pool s)) /\
     (forall i, i <> id -> In i (pool s) -> In i (pool s)) /\
     conns s = conns s /\
     (forall k, y = DispatchError k -> (forall r, In r (outgoing s) -> r_remote r <> id) /\ ~ In id (pool s)) /\
     (forall t i d, In (SFail t i d) [SConn id y] -> i = id /\ delivered_is_network d = true) /\
     (forall t i c f, In (SResponse t i c f) [SConn id y] -> i = id)).
  { intros y Hy. split; [intros r Hr _; left; exact Hr|]. split; [auto|]. split; [reflexivity|]. split; [auto|].
    split; [auto|]. split; [reflexivity|]. split; [intros k Hk; destruct (Hy k Hk)|].
    split; [intros t0 i0 d0 [H|[]]; discriminate|intros t0 i0 c0 f0 [H|[]]; discriminate]. }
  destruct o as [b| |m0|m|e|e0]; cbn [route]; try (apply Hdef; intros k; discriminate).
  - (* Response *)
    unfold tm_process_response.
    destruct (filter (req_is (token m) id) (outgoing s)) as [|r0 l0] eqn:Hf.
    { cbn. repeat split; auto; try discriminate; intros; contradiction. }
    destruct (negb (r_observe r0 && has_observe m)) eqn:Hfin; cbn [outgoing pool conns fst snd].
    + repeat split; auto; try discriminate.
      * intros r Hr Hid. destruct (req_is (token m) id r) eqn:E.
        -- right. right. exists (code m). unfold req_is in E. apply andb_prop in E as [E _].
           apply list_eqb_Z_eq in E. rewrite E. left. reflexivity.
        -- left. apply filter_In. split; [exact Hr|rewrite E; reflexivity].
      * intros r Hr. apply filter_In in Hr. apply Hr.
      * apply Hfo. intros r _ Ho. unfold other in Ho. unfold req_is.
        destruct (r_remote r =? id); [discriminate|]. rewrite andb_false_r. reflexivity.
      * destruct H as [H|[]]; discriminate.
      * destruct H as [H|[]]; discriminate.
      * intros t0 i0 c0 f0 [H|[]]. inv H. reflexivity.
    + repeat split; auto; try discriminate.
      * destruct H as [H|[]]; discriminate.
      * destruct H as [H|[]]; discriminate.
      * intros t0 i0 c0 f0 [H|[]]. inv H. reflexivity.
  - (* DispatchError *)
    unfold pool_dispatch_error, tm_dispatch_error. cbn [outgoing pool conns fst snd].
    split.
    { intros r Hr Hid. right. left. exists (tm_wrap (exc_of e)). split; [|apply tm_wrap_network].
      apply in_map_iff. exists r. split; [reflexivity|]. apply filter_In. split; [exact Hr|lia]. }
    split. { intros r Hr. apply filter_In in Hr. apply Hr. }
    split. { apply Hfo. intros r _ Ho. exact Ho. }
    split. { intros i Hi. apply filter_In in Hi. apply Hi. }
    split. { intros i Hne Hi. apply filter_In. split; [exact Hi|]. destruct (Z.eqb_spec i id); [contradiction|reflexivity]. }
    split. { reflexivity. }
    split.
    { intros k _. split.
      - intros r Hr. apply filter_In in Hr as [_ Hr]. destruct (Z.eqb_spec (r_remote r) id); [discriminate|assumption].
      - intros Hi. apply filter_In in Hi as [_ Hi]. rewrite Z.eqb_refl in Hi. discriminate. }
    split.
    { intros t0 i0 d0 H. apply in_map_iff in H as (r & Hr & _). inv Hr. split; [reflexivity|apply tm_wrap_network]. }
    intros t0 i0 c0 f0 H. apply in_map_iff in H as (r & Hr & _). discriminate.
Qed.

Lemma route_all_spec : forall os id s, let '(s1, x) := route_all id os s in
  (forall r, In r (outgoing s) -> r_remote r = id -> In r (outgoing s1) \/ terminal id r x) /\
  (forall r, In r (outgoing s1) -> In r (outgoing s)) /\
  filter (other id) (outgoing s1) = filter (other id) (outgoing s) /\
  (forall i, In i (pool s1) -> In i (pool s)) /\
  (forall i, i <> id -> In i (pool s) -> In i (pool s1)) /\
  conns s1 = conns s /\
  (forall k, In (DispatchError k) os -> (forall r, In r (outgoing s1) -> r_remote r <> id) /\ ~ In id (pool s1)) /\
  (forall t i d, In (SFail t i d) x -> i = id /\ delivered_is_network d = true) /\
  (forall t i c f, In (SResponse t i c f) x -> i = id).
Proof.
  induction os as [|o os IH]; intros id s.
  { cbn. split; [auto|]. split; [auto|]. split; [reflexivity|]. split; [auto|]. split; [auto|]. split; [reflexivity|].
    split; [intros k []|]. split; [intros t0 i0 d0 []|intros t0 i0 c0 f0 []]. }
  cbn [route_all]. pose proof (route_step id o s) as HS. destruct (route id o s) as [s1 x1].
  specialize (IH id s1). destruct (route_all id os s1) as [s2 x2].
  destruct HS as (A1 & A2 & A3 & A4 & A5 & A6 & A7 & A8 & A9).
  destruct IH as (B1 & B2 & B3 & B4 & B5 & B6 & B7 & B8 & B9).
  split.
  { intros r Hr Hid. destruct (A1 r Hr Hid) as [H|H]; [|right; apply terminal_app_l; exact H].
    destruct (B1 r H Hid) as [H'|H']; [left; exact H'|right; apply terminal_app_r; exact H']. }
  split; [auto|]. split; [congruence|]. split; [auto|]. split; [auto|]. split; [congruence|].
  split.
  { intros k [Hk|Hk]; [|exact (B7 k Hk)]. destruct (A7 k Hk) as [C1 C2]. split; [intros r Hr; exact (C1 r (B2 r Hr))|intros Hi; exact (C2 (B4 id Hi))]. }
  split.
  - intros t0 i0 d0 H. apply in_app_or in H as [H|H]; [exact (A8 _ _ _ H)|exact (B8 _ _ _ H)].
  - intros t0 i0 c0 f0 H. apply in_app_or in H as [H|H]; [exact (A9 _ _ _ _ H)|exact (B9 _ _ _ _ H)].
Qed.

(* whenever connection [id] reports the peer's Release / Abort or its loss — anywhere among its outputs —
   every request that was outstanding on it has received a terminal event (its final response, if that came
   first, or an exception that is a NetworkError), none of them stays in the table, the connection has left
   the pool, and nothing of this touches the requests of other connections *)
Lemma dead_connection_fails_pending : forall os id s k, In (DispatchError k) os ->
  let '(s1, x) := route_all id os s in
  (forall r, In r (outgoing s) -> r_remote r = id -> terminal id r x) /\
  (forall r, In r (outgoing s1) -> r_remote r <> id) /\ ~ In id (pool s1) /\
  filter (other id) (outgoing s1) = filter (other id) (outgoing s) /\
  (forall i, i <> id -> In i (pool s) -> In i (pool s1)) /\
  (forall t i d, In (SFail t i d) x -> i = id /\ delivered_is_network d = true).
Proof.
  intros os id s k Hk. pose proof (route_all_spec os id s) as H. destruct (route_all id os s) as [s1 x].
  destruct H as (B1 & B2 & B3 & B4 & B5 & B6 & B7 & B8 & B9). destruct (B7 k Hk) as [C1 C2].
  split. { intros r Hr Hid. destruct (B1 r Hr Hid) as [H|H]; [destruct (C1 r H Hid)|exact H]. }
  split; [exact C1|]. split; [exact C2|]. split; [exact B3|]. split; [exact B5|exact B8].
Qed.

(* the exact reaction to the peer's Release / Abort message (no critical option) *)
Lemma peer_close_fails_pending : forall s id c m, code m = RELEASE \/ code m = ABORT -> has_critical (opts m) = false ->
  let k := if code m =? RELEASE then PeerReleased else PeerAborted in
  route_all id (snd (fst (handle_message c m))) s =
  ({| conns := conns s; pool := filter (fun i => negb (i =? id)) (pool s);
      outgoing := filter (fun r => negb (r_remote r =? id)) (outgoing s) |},
   map (fun r => SFail (r_token r) id (DAsIs (XShutdown k))) (filter (fun r => r_remote r =? id) (outgoing s)) ++ [SConn id Close]).
Proof.
  intros s id c m Hc Hn. rewrite (release_abort_close c m Hc Hn). cbn [fst snd route_all route].
  unfold pool_dispatch_error, tm_dispatch_error. cbn [outgoing pool conns].
  destruct Hc as [Hc|Hc]; rewrite Hc; reflexivity.
Qed.

(* the same at the level of the endpoint's histories: bytes arriving on a connection / the loss of a connection *)
Lemma sys_step_data_dead s id c d k : get_conn id (conns s) = Some c -> closed c = false ->
  In (DispatchError k) (snd (data_received c d)) ->
  let '(s1, x) := sys_step s (PData id d) in
  (forall r, In r (outgoing s) -> r_remote r = id -> terminal id r x) /\
  (forall r, In r (outgoing s1) -> r_remote r <> id) /\ ~ In id (pool s1) /\
  filter (other id) (outgoing s1) = filter (other id) (outgoing s).
Proof.
  intros Hg Hcl Hk. cbn [sys_step]. rewrite Hg, Hcl. destruct (data_received c d) as [c1 o]. cbn [snd] in Hk.
  pose proof (dead_connection_fails_pending o id {| conns := set_conn id c1 (conns s); pool := pool s; outgoing := outgoing s |} k Hk) as H.
  destruct (route_all id o _) as [s1 x]. cbn [outgoing pool] in H. destruct H as (H1 & H2 & H3 & H4 & _). auto.
Qed.
Lemma sys_step_lost_dead s id :
  let '(s1, x) := sys_step s (PLost id) in
  (forall r, In r (outgoing s) -> r_remote r = id -> terminal id r x) /\
  (forall r, In r (outgoing s1) -> r_remote r <> id) /\ ~ In id (pool s1) /\
  filter (other id) (outgoing s1) = filter (other id) (outgoing s).
Proof.
  cbn [sys_step]. pose proof (dead_connection_fails_pending [DispatchError ConnectionLost] id s ConnectionLost (or_introl eq_refl)) as H.
  destruct (route_all id _ s) as [s1 x]. destruct H as (H1 & H2 & H3 & H4 & _). auto.
Qed.

(* the two-byte frames 00 e4 (Release) and 00 e5 (Abort) on an open connection with an empty spool *)
Lemma release_frame c : spool c = [] -> 2 <= my_max_message_size c ->
  snd (data_received c [0; 228]) = [DispatchError PeerReleased; Close] /\
  snd (data_received c [0; 229]) = [DispatchError PeerAborted; Close].
Proof.
  intros Hsp Hmax.
  set (rel := {| code := RELEASE; token := []; opts := []; payload := [] |}).
  set (abt := {| code := ABORT; token := []; opts := []; payload := [] |}).
  assert (Hfit : forall m, m = rel \/ m = abt -> fits (my_max_message_size c) m = true).
  { intros m [->| ->]; unfold fits; vm_compute serialize; cbn; lia. }
  split.
  - pose proof (stream_processed_as_messages [rel] c [0; 228] ltac:(repeat constructor) ltac:(constructor; [apply Hfit; auto|constructor]) eq_refl Hsp) as H.
    destruct (data_received c [0; 228]) as [c1 o1]. cbn [process_messages] in H.
    rewrite (release_abort_close c rel (or_introl eq_refl) eq_refl) in H. cbn in H. destruct H as [-> _]. reflexivity.
  - pose proof (stream_processed_as_messages [abt] c [0; 229] ltac:(repeat constructor) ltac:(constructor; [apply Hfit; auto|constructor]) eq_refl Hsp) as H.
    destruct (data_received c [0; 229]) as [c1 o1]. cbn [process_messages] in H.
    rewrite (release_abort_close c abt (or_intror eq_refl) eq_refl) in H. cbn in H. destruct H as [-> _]. reflexivity.
Qed.
