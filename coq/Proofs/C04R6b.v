(* C04 round 6, second part — at most one distinct ACK per key generation.
   Relation [SA b k s s']: the method appends outputs; every ACK sent under key k costs one piggy-back opportunity that
   carries k's message id for k's remote (b = opportunities it may create). *)
From Verif Require Import Lib.Py Lib.PyLemmas Lib.Tactics Model.C04 Proofs.C04 Proofs.C04Ack Proofs.C04R6.
Import ListNotations.
Open Scope Z_scope.

Definition isack (k : Z * Z) (r : Z) (w : wire) : bool := (r =? fst k) && (w_mid w =? snd k) && mtype_eqb (w_type w) ACK.
Definition ack_of (k : Z * Z) (o : output) : option wire :=
  match o with Send _ r w => if isack k r w then Some w else None | _ => None end.
Definition acks (k : Z * Z) (l : list output) : list wire :=
  flat_map (fun o => match ack_of k o with Some w => [w] | None => [] end) l.
Definition pig (k : Z * Z) (e : (Z * list Z) * (Z * Z)) : bool := (fst (fst e) =? fst k) && (fst (snd e) =? snd k).
Definition cnt (k : Z * Z) (s : st) : nat := length (filter (pig k) (piggy s)).

Lemma acks_app k a b : acks k (a ++ b) = acks k a ++ acks k b.
Proof. unfold acks. apply flat_map_app. Qed.

Record SA (b : nat) (k : Z * Z) (s s' : st) : Prop := {
  sa_bok : BOK s -> BOK s';
  sa_outs : exists new, outs s' = outs s ++ new /\ (cnt k s' + length (acks k new) <= cnt k s + b)%nat }.

Lemma SA_refl k s : SA 0 k s s.
Proof. split; auto. exists []. rewrite app_nil_r. simpl. split; [reflexivity | lia]. Qed.
Lemma SA_trans b1 b2 k s1 s2 s3 : SA b1 k s1 s2 -> SA b2 k s2 s3 -> SA (b1 + b2) k s1 s3.
Proof.
  intros [B1 (n1 & O1 & K1)] [B2 (n2 & O2 & K2)]. split; auto.
  exists (n1 ++ n2). rewrite O2, O1, app_assoc. split; [reflexivity|]. rewrite acks_app, app_length. lia.
Qed.
Lemma SA_trans0 k s1 s2 s3 : SA 0 k s1 s2 -> SA 0 k s2 s3 -> SA 0 k s1 s3.
Proof. intros A B. exact (SA_trans 0 0 k _ _ _ A B). Qed.
Lemma SA_frame k s s' : outs s' = outs s -> backlogs s' = backlogs s -> piggy s' = piggy s -> SA 0 k s s'.
Proof.
  intros O B P. split; [unfold BOK; rewrite B; auto|]. exists []. rewrite app_nil_r. unfold cnt. rewrite P. simpl. split; [exact O | lia].
Qed.
Ltac sframe := apply SA_frame; reflexivity.

Lemma sa_emit k o s : ack_of k o = None -> SA 0 k s (emit o s).
Proof. intros H. split; auto. exists [o]. split; [reflexivity|]. unfold acks; simpl. rewrite H. simpl. unfold cnt; simpl. lia. Qed.
Lemma sa_emit_exn k t e s : SA 0 k s (emit (Exn t e) s).
Proof. apply sa_emit. reflexivity. Qed.
Lemma isack_type k r w : w_type w <> ACK -> isack k r w = false.
Proof. intros H. unfold isack. destruct (w_type w); try (rewrite andb_false_r; reflexivity). contradiction. Qed.

Section Cnt.
  Context {K V : Type} (eqb : K -> K -> bool) (sp : forall a b, eqb a b = true <-> a = b) (f : K * V -> bool).
  Notation c l := (length (filter f l)).
  Lemma cnt_rm k (l : list (K * V)) : (c (aremove eqb k l) <= c l)%nat.
  Proof.
    induction l as [|[k' v'] l IH]; simpl; [lia|]. destruct (eqb k k'); simpl; destruct (f (k', v')); simpl; lia.
  Qed.
  Lemma cnt_rm_in k v (l : list (K * V)) : aget eqb k l = Some v -> (c (aremove eqb k l) + (if f (k, v) then 1 else 0) <= c l)%nat.
  Proof.
    induction l as [|[k' v'] l IH]; simpl; [discriminate|]. destruct (eqb k k') eqn:E.
    - intros H; inversion H; subst. apply sp in E; subst k'. pose proof (cnt_rm k l). destruct (f (k, v)); simpl; lia.
    - intros H. specialize (IH H). simpl. destruct (f (k', v')); simpl; lia.
  Qed.
  Lemma cnt_rep k v (l : list (K * V)) : (c (areplace eqb k v l) <= c l + (if f (k, v) then 1 else 0))%nat.
  Proof.
    induction l as [|[k' v'] l IH]; simpl; [lia|]. destruct (eqb k k') eqn:E; simpl.
    - apply sp in E; subst k'. destruct (f (k, v)), (f (k, v')); simpl; lia.
    - destruct (f (k', v')); simpl; lia.
  Qed.
  Lemma cnt_set k v (l : list (K * V)) : (c (aset eqb k v l) <= c l + (if f (k, v) then 1 else 0))%nat.
  Proof.
    unfold aset. destruct (aget eqb k l); [apply cnt_rep|]. rewrite filter_app, app_length. simpl. destruct (f (k, v)); simpl; lia.
  Qed.
End Cnt.

Definition cost (k : Z * Z) (r : Z) (w : wire) : nat := if isack k r w then 1%nat else 0%nat.
Lemma SA_le b b' k s s' : SA b k s s' -> (b <= b')%nat -> SA b' k s s'.
Proof. intros [B (n & O & K)] L. split; auto. exists n. split; [exact O | lia]. Qed.

Lemma sa_set_tseq k v s : SA 0 k s (set_tseq v s). Proof. sframe. Qed.
Lemma sa_set_message_id k v s : SA 0 k s (set_message_id v s). Proof. sframe. Qed.
Lemma sa_set_exchanges k v s : SA 0 k s (set_exchanges v s). Proof. sframe. Qed.
Lemma sa_rm_piggy k pk s : SA 0 k s (set_piggy (aremove tokkey_eqb pk (piggy s)) s).
Proof.
  split; auto. exists []. rewrite app_nil_r. split; [reflexivity|]. unfold cnt; simpl. pose proof (cnt_rm tokkey_eqb tokkey_eqb_eq (pig k) pk (piggy s)). lia.
Qed.
Lemma sa_set_incoming k v s : SA 0 k s (set_incoming v s). Proof. sframe. Qed.
Lemma sa_set_waiting k v s : SA 0 k s (set_waiting v s). Proof. sframe. Qed.
Lemma sa_set_next_sid k v s : SA 0 k s (set_next_sid v s). Proof. sframe. Qed.
Lemma sa_set_now k v s : SA 0 k s (set_now v s). Proof. sframe. Qed.
Lemma sa_cancel k h s : SA 0 k s (cancel h s). Proof. sframe. Qed.
Lemma sa_call_later k d t s : SA 0 k s (fst (call_later d t s)). Proof. sframe. Qed.
Lemma sa_set_backlogs k v s : (BOK s -> BOKl v) -> SA 0 k s (set_backlogs v s).
Proof. intros H. split; [exact H|]. exists []. simpl. rewrite app_nil_r. split; auto. Qed.
















Lemma sa_stop_incoming k ik sid s : SA 0 k s (stop_incoming ik sid s).
Proof. unfold stop_incoming. eapply SA_trans0; [apply sa_set_incoming | apply sa_set_waiting]. Qed.
Lemma sa_fold {A} k (f : st -> A -> st) l :
  (forall s a, SA 0 k s (f s a)) -> forall s, SA 0 k s (fold_left f l s).
Proof.
  intros H. induction l as [|a l IH]; intros s; simpl; [apply SA_refl|].
  eapply SA_trans0; [apply H | apply IH].
Qed.
Lemma sa_tm_dispatch_error k r s : SA 0 k s (tm_dispatch_error r s).
Proof.
  unfold tm_dispatch_error. apply sa_fold. intros s0 e.
  destruct (snd (fst e) =? r); [apply sa_stop_incoming | apply SA_refl].
Qed.

Lemma sa_set_refused k v s : SA 0 k s (set_refused v s). Proof. sframe. Qed.
Lemma sa_mm_dispatch_error k r s : SA 0 k s (mm_dispatch_error r s).
Proof.
  unfold mm_dispatch_error. eapply SA_trans0; [|apply sa_set_backlogs; intros H; apply BOKl_aremove; exact H].
  eapply SA_trans0; [apply sa_tm_dispatch_error|]. apply sa_fold. intros s0 e.
  destruct (fst (fst e) =? r); [|apply SA_refl]. eapply SA_trans0; [apply sa_set_exchanges | apply sa_cancel].
Qed.
Lemma sa_refusal k r s : SA 0 k s (refusal r s).
Proof.
  unfold refusal. destruct (is_refused r s); [|apply SA_refl].
  eapply SA_trans0; [apply (sa_emit k (Refused (now s) r)); reflexivity | apply sa_mm_dispatch_error].
Qed.
Lemma sa_send_via_cost k r w s : SA (cost k r w) k s (_send_via_transport r w s).
Proof.
  unfold _send_via_transport. eapply SA_le; [eapply SA_trans; [|apply sa_refusal]|rewrite Nat.add_0_r; apply le_n].
  unfold send_log. split; auto. exists [Send (now s) r w]. split; [reflexivity|].
  unfold acks, cost; simpl. unfold cnt; simpl. destruct (isack k r w); simpl; lia.
Qed.
Lemma sa_send_via k r w s : isack k r w = false -> SA 0 k s (_send_via_transport r w s).
Proof. intros H. pose proof (sa_send_via_cost k r w s) as X. unfold cost in X. rewrite H in X. exact X. Qed.
Lemma sa_store k r w s : SA 0 k s (_store_response_for_duplicates r w s).
Proof.
  unfold _store_response_for_duplicates. destruct (negb (is_ackrst (w_type w))); [apply SA_refl|].
  destruct (aget key_eqb (r, w_mid w) (recent s)); [sframe | apply SA_refl].
Qed.
Lemma sa_add_exchange k r w s : SA 0 k s (_add_exchange r w s).
Proof.
  unfold _add_exchange, _schedule_retransmit.
  set (s1 := match aget Z.eqb r (backlogs s) with None => _ | Some _ => _ end).
  assert (E1 : SA 0 k s s1).
  { subst s1. destruct (aget Z.eqb r (backlogs s)); [apply SA_refl|].
    apply sa_set_backlogs. intros H. apply BOKl_aset; [exact H | constructor]. }
  destruct (call_later (ack_timeout s1) (TRetransmit r w (ack_timeout s1) 0) s1) as [s2 h] eqn:E.
  eapply SA_trans0; [exact E1|]. eapply SA_trans0; [|apply sa_set_exchanges].
  replace s2 with (fst (call_later (ack_timeout s1) (TRetransmit r w (ack_timeout s1) 0) s1)) by (rewrite E; reflexivity).
  apply sa_call_later.
Qed.
Lemma sa_send_initially_cost k r w mon s : SA (cost k r w) k s (_send_initially r w mon s).
Proof.
  unfold _send_initially.
  assert (SS : forall s0, SA (cost k r w) k s0 (_send_via_transport r w (_store_response_for_duplicates r w s0))).
  { intros s0. eapply SA_le; [eapply SA_trans; [apply sa_store | apply sa_send_via_cost] | apply le_n]. }
  destruct (w_type w); try apply SS.
  destruct mon; simpl; [|eapply SA_le; [apply sa_emit_exn | lia]].
  eapply SA_le; [eapply SA_trans; [apply sa_add_exchange | apply SS] | apply le_n].
Qed.
Lemma sa_send_initially k r w mon s : isack k r w = false -> SA 0 k s (_send_initially r w mon s).
Proof. intros H. pose proof (sa_send_initially_cost k r w mon s) as X. unfold cost in X. rewrite H in X. exact X. Qed.

(* using up a piggy-back opportunity: the ACK sent under its message id is paid for by the entry *)
Lemma sa_consume k r tok mid h w mon s : aget tokkey_eqb (r, tok) (piggy s) = Some (mid, h) ->
  w_mid w = mid ->
  SA 0 k s (_send_initially r w mon (cancel h (set_piggy (aremove tokkey_eqb (r, tok) (piggy s)) s))).
Proof.
  intros G Hm.
  set (s1 := cancel h (set_piggy (aremove tokkey_eqb (r, tok) (piggy s)) s)).
  destruct (sa_send_initially_cost k r w mon s1) as [B (n & O & K)].
  split; [exact B|]. exists n. split; [exact O|].
  assert (C1 : (cnt k s1 + (if pig k ((r, tok), (mid, h)) then 1 else 0) <= cnt k s)%nat).
  { unfold cnt; simpl. apply (cnt_rm_in tokkey_eqb tokkey_eqb_eq (pig k)). exact G. }
  assert (C2 : (cost k r w <= (if pig k ((r, tok), (mid, h)) then 1 else 0))%nat).
  { unfold cost, isack, pig; simpl. rewrite Hm. destruct ((r =? fst k) && (mid =? snd k)); simpl; [destruct (mtype_eqb (w_type w) ACK)|]; lia. }
  lia.
Qed.

Lemma sa_continue_backlog_loop k fuel r : forall s, BOK s -> SA 0 k s (_continue_backlog_loop fuel r s).
Proof.
  induction fuel as [|fuel IH]; intros s HB; simpl; [apply SA_refl|].
  destruct (has_exchange_with r s); [apply SA_refl|].
  destruct (aget Z.eqb r (backlogs s)) as [[|w rest]|] eqn:G; [| | apply SA_refl].
  - apply sa_set_backlogs. intros H. apply BOKl_aremove; exact H.
  - pose proof (BOKl_aget _ _ _ HB G) as Hc. inversion Hc as [|? ? Hw Hrest]; subst.
    assert (E : SA 0 k s (_send_initially r w true (set_backlogs (aset Z.eqb r rest (backlogs s)) s))).
    { eapply SA_trans0; [apply sa_set_backlogs; intros H; apply BOKl_aset; [exact H | exact Hrest]|].
      apply sa_send_initially. apply isack_type. rewrite Hw. discriminate. }
    eapply SA_trans0; [exact E | apply IH]. apply (sa_bok _ _ _ _ E HB).
Qed.
Lemma sa_continue_backlog k r s : BOK s -> SA 0 k s (_continue_backlog r s).
Proof.
  intros HB. unfold _continue_backlog.
  destruct (aget Z.eqb r (backlogs s)); [apply sa_continue_backlog_loop; exact HB | apply sa_emit_exn].
Qed.
Lemma sa_remove_exchange k r mid s : BOK s -> SA 0 k s (_remove_exchange r mid s).
Proof.
  intros HB. unfold _remove_exchange. destruct (aget key_eqb (r, mid) (exchanges s)); [|apply SA_refl].
  assert (E : SA 0 k s (cancel z (set_exchanges (aremove key_eqb (r, mid) (exchanges s)) s))).
  { eapply SA_trans0; [apply sa_set_exchanges | apply sa_cancel]. }
  eapply SA_trans0; [exact E | apply sa_continue_backlog]. apply (sa_bok _ _ _ _ E HB).
Qed.

Lemma sa_retransmit k r w timeout counter s : w_type w = CON -> SA 0 k s (_retransmit r w timeout counter s).
Proof.
  intros Hc. unfold _retransmit. destruct (aget key_eqb (r, w_mid w) (exchanges s)); [|apply sa_emit_exn].
  set (s1 := cancel _ _).
  assert (E1 : SA 0 k s s1) by (subst s1; eapply SA_trans0; [apply sa_set_exchanges | apply sa_cancel]).
  destruct (counter <? MAX_RETRANSMIT).
  - unfold _schedule_retransmit.
    destruct (call_later (timeout * 2) (TRetransmit r w (timeout * 2) (counter + 1)) s1) as [s2 h] eqn:E.
    eapply SA_trans0; [exact E1|].
    eapply SA_trans0; [|apply sa_send_via; apply isack_type; rewrite Hc; discriminate].
    eapply SA_trans0; [|apply sa_set_exchanges].
    replace s2 with (fst (call_later (timeout * 2) (TRetransmit r w (timeout * 2) (counter + 1)) s1)) by (rewrite E; reflexivity).
    apply sa_call_later.
  - destruct (aget Z.eqb r (backlogs s1)).
    + eapply SA_trans0; [exact E1|]. eapply SA_trans0; [|apply sa_tm_dispatch_error].
      apply sa_set_backlogs. intros H. apply BOKl_aremove; exact H.
    + eapply SA_trans0; [exact E1 | apply sa_emit_exn].
Qed.

Lemma sa_decide k m a (plain : mtype -> Z -> wire) s0 :
  (forall t mid, w_type (plain t mid) = t) ->
  SA 0 k s0
    (let t := match a_rel a with
              | Some true => CON | Some false => NON
              | None => match i_type m with NON => NON | _ => CON end end in
     let '(s, mid) := _next_message_id s0 in
     let w := plain t mid in
     match t, aget Z.eqb (i_remote m) (backlogs s) with
     | CON, Some b => set_backlogs (aset Z.eqb (i_remote m) (b ++ [w]) (backlogs s)) s
     | _, _ => _send_initially (i_remote m) w true s
     end).
Proof.
  intros Hplain. cbv zeta. unfold _next_message_id.
  set (s1 := set_message_id _ s0).
  assert (E1 : SA 0 k s0 s1) by apply sa_set_message_id.
  assert (Csend : forall t, is_ackrst t = false -> SA 0 k s0 (_send_initially (i_remote m) (plain t (message_id s0)) true s1)).
  { intros t Ht. eapply SA_trans0; [exact E1|]. apply sa_send_initially. apply isack_type. rewrite Hplain. intros E; rewrite E in Ht; discriminate. }
  assert (Ccon : SA 0 k s0 match aget Z.eqb (i_remote m) (backlogs s1) with
                           | Some b => set_backlogs (aset Z.eqb (i_remote m) (b ++ [plain CON (message_id s0)]) (backlogs s1)) s1
                           | None => _send_initially (i_remote m) (plain CON (message_id s0)) true s1 end).
  { destruct (aget Z.eqb (i_remote m) (backlogs s1)) eqn:G; [|apply Csend; reflexivity].
    eapply SA_trans0; [exact E1|]. apply sa_set_backlogs. intros H. apply BOKl_aset; [exact H|].
    apply Forall_app; split; [apply (BOKl_aget _ _ _ H G) | constructor; [apply Hplain | constructor]]. }
  destruct (a_rel a) as [[|]|]; [exact Ccon | apply Csend; reflexivity |].
  destruct (i_type m); try exact Ccon. apply Csend; reflexivity.
Qed.

Lemma sa_send_message k m a s : SA 0 k s (send_message m a s).
Proof.
  unfold send_message. cbv zeta.
  pose (plain := fun t mid => {| w_type := t; w_code := a_code a; w_mid := mid; w_token := i_token m; w_payload := a_payload a |}).
  assert (D : forall s0, SA 0 k s0 _) by (intros s0; apply (sa_decide k m a plain s0); reflexivity).
  destruct (is_response (a_code a)); [|apply D].
  destruct (aget tokkey_eqb (i_remote m, i_token m) (piggy s)) as [[mid h]|] eqn:G.
  - destruct (negb _); (apply (sa_consume k _ _ _ _ _ _ _ G); reflexivity).
  - destruct (negb _); [apply SA_refl | apply D].
Qed.

Lemma sa_finish k m a s : SA 0 k s (finish m a s).
Proof. unfold finish. eapply SA_trans0; [apply sa_send_message | apply sa_set_incoming]. Qed.
Lemma sa_handler_respond k sid a s : SA 0 k s (handler_respond sid a s).
Proof.
  unfold handler_respond. destruct (aget Z.eqb sid (waiting s)); [|apply SA_refl].
  eapply SA_trans0; [apply sa_set_waiting | apply sa_finish].
Qed.
Lemma sa_handler_raise k sid e s : SA 0 k s (handler_raise sid e s).
Proof.
  unfold handler_raise. destruct (aget Z.eqb sid (waiting s)); [|apply SA_refl].
  eapply SA_trans0; [apply sa_set_waiting | apply sa_finish].
Qed.
Lemma sa_on_timeout k r tok s : SA 0 k s (on_timeout r tok s).
Proof.
  unfold on_timeout. destruct (aget tokkey_eqb (r, tok) (piggy s)) as [[mid h]|] eqn:G; [|apply sa_emit_exn].
  unfold _send_empty_ack.
  set (w := {| w_type := ACK; w_code := EMPTY; w_mid := mid; w_token := []; w_payload := [] |}).
  set (s1 := set_piggy (aremove tokkey_eqb (r, tok) (piggy s)) s).
  destruct (sa_send_initially_cost k r w false s1) as [B (n & O & K)].
  split; [exact B|]. exists n. split; [exact O|].
  assert (C1 : (cnt k s1 + (if pig k ((r, tok), (mid, h)) then 1 else 0) <= cnt k s)%nat).
  { unfold cnt; simpl. apply (cnt_rm_in tokkey_eqb tokkey_eqb_eq (pig k)). exact G. }
  assert (C2 : (cost k r w <= (if pig k ((r, tok), (mid, h)) then 1 else 0))%nat).
  { unfold cost, isack, pig; simpl. destruct ((r =? fst k) && (mid =? snd k)); simpl; lia. }
  lia.
Qed.

Lemma sa_render_to_pipe k m s : SA 0 k s (render_to_pipe m s).
Proof.
  unfold render_to_pipe.
  set (s1 := emit _ _).
  assert (E1 : SA 0 k s s1).
  { subst s1. eapply SA_trans0; [apply sa_set_next_sid | apply sa_emit; reflexivity]. }
  destruct (i_path m); try (eapply SA_trans0; [exact E1 | apply sa_finish]).
  eapply SA_trans0; [exact E1 | apply sa_set_waiting].
Qed.
Lemma sa_process_request k m s : SA 0 k s (process_request m s).
Proof.
  unfold process_request.
  set (s1 := match aget inckey_eqb (i_token m, i_remote m) (incoming s) with Some old => _ | None => _ end).
  assert (E1 : SA 0 k s s1) by (subst s1; destruct (aget inckey_eqb (i_token m, i_remote m) (incoming s)); [apply sa_stop_incoming | apply SA_refl]).
  eapply SA_trans0; [|apply sa_render_to_pipe]. eapply SA_trans0; [exact E1 | apply sa_set_incoming].
Qed.
Definition bud (k : Z * Z) (m : inmsg) : nat := if key_eqb (msg_key m) k then 1%nat else 0%nat.
Lemma sa__process_request k m s : SA (bud k m) k s (_process_request m s).
Proof.
  unfold _process_request.
  set (s1 := match i_type m with CON => _ | _ => s end).
  assert (E1 : SA (bud k m) k s s1).
  { subst s1. destruct (i_type m); try (eapply SA_le; [apply SA_refl | lia]).
    unfold call_later; simpl.
    assert (P1 : pig k ((i_remote m, i_token m), (i_mid m, tseq s)) = key_eqb (msg_key m) k) by reflexivity.
    destruct (aget tokkey_eqb (i_remote m, i_token m) (piggy s)) as [[mo old]|]; simpl;
      (split; [auto|]; exists []; rewrite app_nil_r; split; [reflexivity|]; unfold cnt, bud; simpl).
    - pose proof (cnt_set tokkey_eqb tokkey_eqb_eq (pig k) (i_remote m, i_token m) (i_mid m, tseq s) (aremove tokkey_eqb (i_remote m, i_token m) (piggy s))) as X.
      pose proof (cnt_rm tokkey_eqb tokkey_eqb_eq (pig k) (i_remote m, i_token m) (piggy s)) as Y. rewrite P1 in X. destruct (key_eqb (msg_key m) k); lia.
    - pose proof (cnt_set tokkey_eqb tokkey_eqb_eq (pig k) (i_remote m, i_token m) (i_mid m, tseq s) (piggy s)) as X.
      rewrite P1 in X. destruct (key_eqb (msg_key m) k); lia. }
  eapply SA_le; [eapply SA_trans; [exact E1 | apply sa_process_request] | lia].
Qed.

Definition rbud (k : Z * Z) (m : inmsg) : nat := if is_request (i_code m) && negb (is_ackrst (i_type m)) then bud k m else 0%nat.
Lemma sa_dispatch_rest k m s : BOK s -> SA (rbud k m) k s (dispatch_rest m s).
Proof.
  intros HB. unfold dispatch_rest.
  set (s1 := if is_ackrst (i_type m) then _ else s).
  assert (E1 : SA 0 k s s1) by (subst s1; destruct (is_ackrst (i_type m)); [apply sa_remove_exchange; exact HB | apply SA_refl]).
  assert (RST_ok : SA 0 k s (_send_initially (i_remote m) {| w_type := RST; w_code := EMPTY; w_mid := i_mid m; w_token := []; w_payload := [] |} false s1)).
  { eapply SA_trans0; [exact E1|]. apply sa_send_initially. apply isack_type. simpl. discriminate. }
  unfold rbud.
  assert (W : forall b x, SA 0 k s x -> SA b k s x) by (intros b x H; eapply SA_le; [exact H | lia]).
  destruct ((i_code m =? EMPTY) && mtype_eqb (i_type m) CON); [apply W; exact RST_ok|].
  destruct ((i_code m =? EMPTY) && is_ackrst (i_type m)); [apply W; exact E1|].
  destruct (is_request (i_code m) && negb (is_ackrst (i_type m))) eqn:RQ.
  { eapply SA_le; [eapply SA_trans; [exact E1 | apply sa__process_request] | lia]. }
  destruct (is_response (i_code m) && negb (mtype_eqb (i_type m) RST)); [|apply W; exact E1].
  destruct (mtype_eqb (i_type m) CON); [apply W; exact RST_ok | apply W; exact E1].
Qed.

Lemma fire_sa k s : Inv s -> BOK s -> SA 0 k s (fire s).
Proof.
  intros HI HB. unfold fire.
  destruct (min_timer (all_timers s)) as [[[d q] [k0 | t]]|] eqn:M; [| |apply SA_refl].
  - simpl. destruct (aget key_eqb k0 (recent s)); [sframe | eapply SA_trans0; [|apply sa_emit_exn]; sframe].
  - pose proof (min_timer_in _ _ M) as Hin. apply in_all_timer in Hin.
    assert (Hok : tkind_ok t).
    { destruct HI as (_ & _ & _ & _ & I5). unfold TOK in I5. rewrite Forall_forall in I5. apply (I5 _ Hin). }
    assert (E : SA 0 k s (cancel q (set_now (Z.max (now s) d) s))) by (eapply SA_trans0; [apply sa_set_now | apply sa_cancel]).
    destruct t as [r tok | r w timeout counter]; (eapply SA_trans0; [exact E|]); [apply sa_on_timeout | apply sa_retransmit; exact Hok].
Qed.

Lemma advance_loop_sa k fuel target : forall s, Inv s -> BOK s -> SA 0 k s (advance_loop fuel target s).
Proof.
  induction fuel as [|fuel IH]; intros s HI HB; simpl; [apply SA_refl|].
  destruct (next_due s) as [due|]; [|apply SA_refl].
  destruct (due <=? target); [|apply SA_refl].
  pose proof (fire_sa k s HI HB) as E. destruct (fire_spec s HI) as [HI1 _].
  eapply SA_trans0; [exact E | apply IH; [exact HI1 | apply (sa_bok _ _ _ _ E HB)]].
Qed.
Lemma advance_sa k d s : Inv s -> BOK s -> SA 0 k s (advance d s).
Proof.
  intros HI HB. unfold advance. destruct (d <? 0); [apply SA_refl|].
  pose proof (advance_loop_sa k advance_fuel (now s + d) s HI HB) as E.
  destruct (next_due (advance_loop advance_fuel (now s + d) s)) as [due|].
  - destruct (due <=? now s + d); [exact E | eapply SA_trans0; [exact E | apply sa_set_now]].
  - eapply SA_trans0; [exact E | apply sa_set_now].
Qed.


(* ------------------------------------------------------------------ step level *)
Lemma mm_dispatch_error_fields r s : outs (mm_dispatch_error r s) = outs s /\ piggy (mm_dispatch_error r s) = piggy s.
Proof.
  unfold mm_dispatch_error. simpl.
  assert (T : outs (tm_dispatch_error r s) = outs s /\ piggy (tm_dispatch_error r s) = piggy s).
  { unfold tm_dispatch_error. apply (fold_same (fun s' => outs s' = outs s /\ piggy s' = piggy s)); [|auto].
    intros s0 e H. destruct (snd (fst e) =? r); exact H. }
  apply (fold_same (fun s' => outs s' = outs s /\ piggy s' = piggy s)); [|exact T].
  intros s0 e H. destruct (fst (fst e) =? r); exact H.
Qed.

Lemma replay_ack k r w s : isack k r w = true ->
  exists new, outs (_send_initially r w false s) = outs s ++ new /\ acks k new = [w]
    /\ cnt k (_send_initially r w false s) = cnt k s.
Proof.
  intros H. assert (T : w_type w = ACK).
  { unfold isack in H. apply andb_true_iff in H as [_ H]. destruct (w_type w); simpl in H; try discriminate. reflexivity. }
  unfold _send_initially. rewrite T. unfold _send_via_transport, refusal, send_log.
  set (s1 := _store_response_for_duplicates r w s).
  assert (S1 : outs s1 = outs s /\ piggy s1 = piggy s).
  { subst s1. unfold _store_response_for_duplicates. destruct (negb (is_ackrst (w_type w))); [auto|].
    destruct (aget key_eqb (r, w_mid w) (recent s)); auto. }
  destruct S1 as [O1 P1].
  set (s2 := emit (Send (now s1) r w) s1).
  assert (O2 : outs s2 = outs s ++ [Send (now s1) r w]) by (subst s2; simpl; rewrite O1; reflexivity).
  assert (P2 : piggy s2 = piggy s) by (subst s2; simpl; exact P1).
  destruct (is_refused r s2).
  - set (s3 := emit (Refused (now s2) r) s2).
    destruct (mm_dispatch_error_fields r s3) as [O3 P3].
    exists [Send (now s1) r w; Refused (now s2) r]. rewrite O3. split; [change (outs s3) with (outs s2 ++ [Refused (now s2) r]); rewrite O2, <- app_assoc; reflexivity|].
    split; [unfold acks; simpl; rewrite H; reflexivity|]. unfold cnt. rewrite P3. change (piggy s3) with (piggy s2). rewrite P2. reflexivity.
  - exists [Send (now s1) r w]. split; [exact O2|]. split; [unfold acks; simpl; rewrite H; reflexivity|].
    unfold cnt. rewrite P2. reflexivity.
Qed.

(* one event while key k is known with remembered reply v *)
Lemma step_sa_alive k s e v : Inv s -> BOK s -> aget key_eqb k (recent s) = Some v ->
  exists new, outs (step s e) = outs s ++ new /\
    ((cnt k (step s e) + length (acks k new) <= cnt k s)%nat
     \/ (cnt k (step s e) = cnt k s /\ exists r w, v = Some (r, w) /\ isack k r w = true /\ acks k new = [w])).
Proof.
  intros HI HB G.
  assert (Z0 : forall s', SA 0 k s s' -> exists new, outs s' = outs s ++ new /\
            ((cnt k s' + length (acks k new) <= cnt k s)%nat
             \/ (cnt k s' = cnt k s /\ exists r w, v = Some (r, w) /\ isack k r w = true /\ acks k new = [w]))).
  { intros s' [_ (n & O & K)]. exists n. split; [exact O|]. left. lia. }
  destruct e as [m | | d | sid a | sid x | r b | r]; simpl.
  - destruct (is_request (i_code m)) eqn:Rq.
    + destruct (aget key_eqb (msg_key m) (recent s)) as [v0|] eqn:G0.
      * rewrite (dispatch_dup m s v0 Rq G0).
        destruct (i_type m); try (apply Z0; apply SA_refl). destruct v0 as [[r w]|]; [|apply Z0; apply SA_refl].
        destruct (isack k r w) eqn:Ia; [|apply Z0; apply sa_send_initially; exact Ia].
        assert (Hk : msg_key m = k).
        { destruct HI as (_ & _ & I3 & _). destruct (I3 _ _ _ G0) as (E1 & E2 & _).
          unfold isack in Ia. apply andb_true_iff in Ia as [Ia _]. apply andb_true_iff in Ia as [A1 A2]. apply Z.eqb_eq in A1, A2.
          destruct (msg_key m), k; simpl in *; congruence. }
        rewrite Hk, G in G0. assert (Hv : v = Some (r, w)) by congruence.
        destruct (replay_ack k r w s Ia) as (new & O & A & C). exists new. split; [exact O|]. right. split; [exact C|]. exists r, w. auto.
      * rewrite (dispatch_fresh m s Rq G0).
        assert (N : key_eqb (msg_key m) k = false).
        { apply key_eqb_neq. intros E. rewrite E in G0. congruence. }
        apply Z0. apply (SA_trans0 k s (insert_key (msg_key m) s)); [apply SA_frame; reflexivity|].
        pose proof (sa_dispatch_rest k m (insert_key (msg_key m) s) HB) as X. unfold rbud, bud in X. rewrite N in X.
        destruct (is_request (i_code m) && negb (is_ackrst (i_type m))); exact X.
    + rewrite (dispatch_nonreq m s Rq). apply Z0.
      pose proof (sa_dispatch_rest k m s HB) as X. unfold rbud in X. rewrite Rq in X. exact X.
  - apply (Z0 _ (fire_sa k s HI HB)).
  - apply (Z0 _ (advance_sa k d s HI HB)).
  - apply (Z0 _ (sa_handler_respond k sid a s)).
  - apply (Z0 _ (sa_handler_raise k sid x s)).
  - apply (Z0 _ (sa_set_refused k _ s)).
  - apply (Z0 _ (sa_mm_dispatch_error k r s)).
Qed.

Definition allsame (l : list wire) : Prop := forall a b, In a l -> In b l -> a = b.

Lemma in_acks k o w l : In o l -> ack_of k o = Some w -> In w (acks k l).
Proof.
  intros HI HA. unfold acks. apply in_flat_map. exists o. split; [exact HI|]. rewrite HA. left; reflexivity.
Qed.
Lemma last_reply_in_acks k l r w : last_reply k l None = Some (r, w) -> isack k r w = true -> In w (acks k l).
Proof.
  intros H Ia. apply last_reply_inv in H as [H | (o & HI & Ho)]; [discriminate|].
  apply reply_of_props in Ho as (_ & _ & _ & t & ->). apply (in_acks k _ w _ HI). simpl. rewrite Ia. reflexivity.
Qed.
Lemma allsame_short l : (length l <= 1)%nat -> allsame l.
Proof.
  destruct l as [|a [|b l]]; simpl; intros H x y Hx Hy; try lia; try contradiction.
  destruct Hx as [<-|[]], Hy as [<-|[]]. reflexivity.
Qed.

(* all ACKs sent under k while it stays known are one and the same message *)
Lemma single_ack_run k evs : forall s v D q L0, Inv s -> BOK s -> aget key_eqb k (recent s) = Some v ->
  In (D, q, k) (forgets s) -> now (run s evs) < D ->
  v = last_reply k L0 None -> allsame (acks k L0) ->
  (cnt k s + (match acks k L0 with [] => 0 | _ => 1 end) <= 1)%nat ->
  allsame (acks k (L0 ++ log_since s (run s evs))).
Proof.
  induction evs as [|e evs IH]; intros s v D q L0 HI HB G HD Hn Hv Hs Hc.
  - simpl. rewrite (log_since_app s s []) by (symmetry; apply app_nil_r). rewrite app_nil_r. exact Hs.
  - rewrite (log_since_cons e evs s HI), app_assoc. simpl in Hn.
    destruct (step_spec s e HI) as [HI1 HR]. specialize (HR k (not_fresh_present k s e v G)).
    destruct HR as (new & O & N & T & S & A). rewrite G in A. rewrite (log_since_app _ _ _ O).
    destruct (run_spec evs (step s e) HI1) as [_ (n2 & _ & N2 & _)].
    destruct A as [[A F] | [_ F]]; [|specialize (F D q HD); lia].
    destruct (step_sa_alive k s e v HI HB G) as (new' & O' & K).
    assert (new' = new) by (rewrite O in O'; apply app_inv_head in O'; congruence). subst new'.
    apply (IH (step s e) (last_reply k new v) D q (L0 ++ new) HI1 (BOK_step s e HI HB) A (F D q HD) Hn).
    + rewrite last_reply_app, <- Hv. reflexivity.
    + rewrite acks_app. destruct K as [K | (K & r & w & -> & Ia & Aw)].
      * destruct (acks k L0) eqn:EL.
        -- simpl. apply allsame_short. simpl in Hc. lia.
        -- simpl in Hc. assert (length (acks k new) = 0)%nat by lia. destruct (acks k new); [|simpl in *; lia]. rewrite app_nil_r. exact Hs.
      * rewrite Aw. pose proof (last_reply_in_acks k L0 r w (eq_sym Hv) Ia) as Hin.
        intros a b Ha Hb. apply in_app_iff in Ha, Hb.
        assert (Ea : a = w) by (destruct Ha as [Ha | [Ha | []]]; [apply (Hs a w Ha Hin) | symmetry; exact Ha]).
        assert (Eb : b = w) by (destruct Hb as [Hb | [Hb | []]]; [apply (Hs b w Hb Hin) | symmetry; exact Hb]).
        congruence.
    + rewrite acks_app. destruct K as [K | (K & r & w & -> & Ia & Aw)].
      * destruct (acks k L0) eqn:EL; simpl in *; [destruct (acks k new); simpl in *; lia | lia].
      * rewrite K, Aw. pose proof (last_reply_in_acks k L0 r w (eq_sym Hv) Ia) as Hin.
        destruct (acks k L0); [contradiction | simpl in *; lia].
Qed.

(* conditional form: no piggy-back opportunity for k is left over when k arrives *)
Lemma single_ack_partial_lemma s0 m evs : Inv s0 -> BOK s0 ->
  is_request (i_code m) = true -> aget key_eqb (msg_key m) (recent s0) = None ->
  cnt (msg_key m) s0 = 0%nat ->
  let s2 := run (step s0 (Recv m)) evs in
  now s2 < now s0 + EXCHANGE_LIFETIME ->
  allsame (acks (msg_key m) (log_since s0 s2)).
Proof.
  intros HI HB Rq G C0 s2 Hn. set (k := msg_key m) in *. set (s1 := step s0 (Recv m)) in *.
  destruct (step_fresh s0 m HI Rq G) as (new & q & O & N & T & S & A & F). fold s1 k in O, N, A, F.
  assert (HI1 : Inv s1) by apply (step_spec s0 (Recv m) HI).
  assert (K1 : (cnt k s1 + length (acks k new) <= 1)%nat).
  { assert (X : SA 1 k s0 s1).
    { unfold s1. simpl. rewrite (dispatch_fresh m s0 Rq G). eapply SA_le; [apply (SA_trans 0 (rbud k m) k s0 (insert_key (msg_key m) s0)); [apply SA_frame; reflexivity | apply sa_dispatch_rest; exact HB]|].
      unfold rbud, bud. destruct (is_request (i_code m) && negb (is_ackrst (i_type m))); destruct (key_eqb (msg_key m) k); lia. }
    destruct X as [_ (n & O' & K)]. assert (n = new) by (rewrite O in O'; apply app_inv_head in O'; congruence). subst n. lia. }
  assert (L : log_since s0 s2 = new ++ log_since s1 s2).
  { apply log_since_app. unfold s2. rewrite (run_outs evs s1 HI1), O. apply app_assoc_reverse. }
  rewrite L.
  apply (single_ack_run k evs s1 _ _ q new HI1 (BOK_step s0 (Recv m) HI HB) A F Hn eq_refl).
  - apply allsame_short. lia.
  - destruct (acks k new); simpl in *; lia.
Qed.
