(* C20 — facts about Registration.update_params (case analysis over every check of rd.py:154-235) *)
From Coq Require Import String.
From Verif Require Import Lib.Py Lib.Tactics Model.C20Str Model.C20 Proofs.C20Dict.
Open Scope Z_scope.

(* ------------------------------------------------------------------ update_params *)
Ltac break_match :=
  match goal with
  | H : context [match ?x with _ => _ end] |- _ => destruct x eqn:?
  | H : context [if ?x then _ else _] |- _ => destruct x eqn:?
  end.

Ltac inv_eqs :=
  repeat match goal with
  | H : Ok _ = Ok _ |- _ => inv H
  | H : Some _ = Some _ |- _ => inv H
  | H : (_, _) = (_, _) |- _ => inv H
  | H : Ok _ = Raise _ |- _ => discriminate H
  | H : Raise _ = Ok _ |- _ => discriminate H
  | H : Raise _ = Raise _ |- _ => inv H
  end.

Lemma update_params_ok r remote p init t seq r' : update_params r remote p init t seq = UpOk r' ->
  r_key r' = r_key r /\ r_path r' = r_path r /\ r_links r' = r_links r /\
  r_timer r' = Some (t + (r_lt r' + GRACE_PERIOD) * 1000000, seq).
Proof.
  unfold update_params, bind, _set_timeout. intros H.
  repeat (break_match; try discriminate; inv_eqs); inv H; cbn; auto.
Qed.

Lemma update_params_fail r remote p init t seq r' e : update_params r remote p init t seq = UpFail r' e ->
  r_key r' = r_key r /\ r_path r' = r_path r /\ r_links r' = r_links r /\ r_timer r' = r_timer r /\
  (is_4xx (Err e) = true -> r' = r).
Proof.
  unfold update_params, bind, pop_single_arg. intros H.
  repeat (break_match; try discriminate; inv_eqs); inv H; cbn; repeat split; auto; try discriminate.
Qed.


Lemma update_params_fail_exn r remote p init t seq r' e : update_params r remote p init t seq = UpFail r' e ->
  e = BadRequest \/ e = TypeError \/ e = UnboundLocalError.
Proof.
  unfold update_params, bind, pop_single_arg. intros H.
  repeat (break_match; try discriminate; inv_eqs); inv H; auto.
Qed.

(* since f8ef49b nothing is mutated before the last check: a failing update_params has no effect and raises BadRequest *)
Lemma dmem_ddel_other (q : query) k k' : k' <> k -> dmem String.eqb (ddel String.eqb q k) k' = dmem String.eqb q k'.
Proof. intros N. unfold dmem. rewrite (dget_ddel_other String.eqb String.eqb_eq); auto. Qed.

Lemma update_params_fail_clean r remote p init t seq r' e : update_params r remote p init t seq = UpFail r' e -> r' = r /\ e = BadRequest.
Proof.
  unfold update_params, bind, pop_single_arg. intros H.
  destruct (dmem String.eqb p "base") eqn:Eb.
  - repeat (break_match; try discriminate; inv_eqs); inv H; auto.
    all: try (match goal with H : dmem String.eqb (ddel String.eqb _ "lt"%string) "base"%string = false |- _ => rewrite dmem_ddel_other in H by discriminate; congruence end).
    all: try congruence.
  - repeat (break_match; try discriminate; inv_eqs); inv H; auto.
    all: try (match goal with H : dmem String.eqb (ddel String.eqb _ "lt"%string) "base"%string = true |- _ => rewrite dmem_ddel_other in H by discriminate; congruence end).
    all: try congruence.
    all: cbn in *; try congruence.
    all: repeat match goal with H : context [r_base_explicit ?x] |- _ => is_var x; destruct (r_base_explicit x) end; try (destruct init); cbn in *; congruence.
Qed.
