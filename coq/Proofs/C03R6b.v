(* C03 -- round 6: a request fails at most once (syntactic invariant over every function of Model/C03.v) *)
From Verif Require Import Lib.Py Lib.Tactics Model.C03 Proofs.C03 Proofs.C03struct Proofs.C03hist Proofs.C03main Proofs.C03R6.
Open Scope Z_scope.

Fixpoint fails (rid : Z) (o : list output) : nat :=
  match o with
  | [] => O
  | OFail _ x _ :: r => if x =? rid then S (fails rid r) else fails rid r
  | _ :: r => fails rid r
  end.
Lemma fails_app : forall rid a b, fails rid (a ++ b) = (fails rid a + fails rid b)%nat.
Proof. induction a as [|x a IH]; intros b; cbn; auto. destruct x; auto. destruct (rid0 =? rid); cbn; rewrite IH; auto. Qed.

Definition pending (rid : Z) (st : state) : Prop := In rid (map fst (outgoing_requests st)).
Definition nd (st : state) : Prop := NoDup (map fst (outgoing_requests st)).

(* [once st res]: the function only removes pending requests, and fails only pending requests, each at most once, removing them *)
Definition once (st : state) (res : state * list output) : Prop :=
  nd st -> nd (fst res) /\ incl (outgoing_requests (fst res)) (outgoing_requests st) /\
  forall rid, (fails rid (snd res) <= 1)%nat /\ (fails rid (snd res) = 1%nat -> pending rid st /\ ~ pending rid (fst res)).

Lemma pending_incl : forall rid st st', incl (outgoing_requests st') (outgoing_requests st) -> pending rid st' -> pending rid st.
Proof. unfold pending. intros rid st st' Hi Hp. apply in_map_iff in Hp. destruct Hp as [p [Hp Hin]]. apply in_map_iff. exists p. auto. Qed.

Lemma once_nil : forall st st', outgoing_requests st' = outgoing_requests st -> once st (st', []).
Proof. intros st st' E Hn. cbn. unfold nd in *. rewrite E. splits; auto; [apply incl_refl|]. intros rid. split; [lia|discriminate]. Qed.

Lemma once_nofail : forall st st' o, outgoing_requests st' = outgoing_requests st -> (forall rid, fails rid o = O) -> once st (st', o).
Proof. intros st st' o E Ho Hn. cbn. unfold nd in *. rewrite E. splits; auto; [apply incl_refl|]. intros rid. rewrite Ho. split; [lia|discriminate]. Qed.

Lemma once_seq : forall st st1 o1 st2 o2, once st (st1, o1) -> once st1 (st2, o2) -> once st (st2, o1 ++ o2).
Proof.
  intros st st1 o1 st2 o2 H1 H2 Hn. destruct (H1 Hn) as (N1 & I1 & F1). destruct (H2 N1) as (N2 & I2 & F2). cbn in *.
  splits; auto; [eapply incl_tran; eauto|]. intros rid. rewrite fails_app. destruct (F1 rid) as [A1 B1]. destruct (F2 rid) as [A2 B2].
  assert (fails rid o1 = 1%nat -> fails rid o2 = O).
  { intros E. destruct (B1 E) as [_ Hnp]. destruct (fails rid o2) eqn:E2; auto. assert (n = O) by lia. subst. exfalso. apply Hnp. apply (B2 eq_refl). }
  split; [lia|]. intros E. destruct (fails rid o1) eqn:E1.
  - destruct (B2 E) as [P Q]. split; auto. eapply pending_incl; eauto.
  - assert (n = O) by lia. subst. destruct (B1 eq_refl) as [P Q]. split; auto. intros Hp. apply Q. eapply pending_incl; eauto.
Qed.

Lemma nd_filter : forall (f : Z * Z -> bool) l, NoDup (map fst l) -> NoDup (map fst (filter f l)).
Proof. intros. apply nodup_map_filter. auto. Qed.

Lemma once_tm_fail : forall st rid e, once st (tm_fail st rid e).
Proof.
  intros st rid e Hn. unfold tm_fail. destruct (existsb (fun q => fst q =? rid) (outgoing_requests st)) eqn:E; cbn.
  - splits; [apply nd_filter; auto|apply incl_filter|]. intros x. cbn. destruct (rid =? x) eqn:Ex.
    + apply Z.eqb_eq in Ex. subst x. split; [lia|]. intros _. split.
      * apply existsb_exists in E. destruct E as [p [Hp Hq]]. apply Z.eqb_eq in Hq. unfold pending. apply in_map_iff. exists p. auto.
      * unfold pending. cbn. intros Hi. apply in_map_iff in Hi. destruct Hi as [p [Hp Hin]]. apply filter_In in Hin. destruct Hin as [_ Hf].
        apply negb_true_iff in Hf. apply Z.eqb_neq in Hf. auto.
    + split; [lia|discriminate].
  - splits; auto; [apply incl_refl|]. intros x. cbn. split; [lia|discriminate].
Qed.

Lemma fails_map : forall (l : list (Z * Z)) t e (rid : Z), fails rid (map (fun q => OFail t (fst q) e) l) = length (filter (fun q : Z * Z => (fst q =? rid)%Z) l).
Proof. induction l as [|a l IH]; intros; cbn; auto. destruct (fst a =? rid); cbn; rewrite IH; auto. Qed.
Lemma nodup_fst_count : forall (l : list (Z * Z)) (rid : Z), NoDup (map fst l) -> (length (filter (fun q : Z * Z => (fst q =? rid)%Z) l) <= 1)%nat.
Proof.
  induction l as [|a l IH]; intros rid N; cbn; [lia|]. apply NoDup_cons_iff in N. destruct N as [Hn Hd]. specialize (IH rid Hd).
  destruct (fst a =? rid) eqn:E; cbn; [|lia]. apply Z.eqb_eq in E.
  destruct (filter (fun q => fst q =? rid) l) as [|b m] eqn:F; cbn; [lia|]. exfalso. apply Hn.
  assert (In b (filter (fun q => fst q =? rid) l)) by (rewrite F; left; reflexivity). apply filter_In in H. destruct H as [Hb Hf]. apply Z.eqb_eq in Hf.
  rewrite E, <- Hf. apply in_map. exact Hb.
Qed.

Lemma once_tm_dispatch : forall st e r, once st (tm_dispatch_error st e r).
Proof.
  intros st e r Hn. unfold tm_dispatch_error. cbn. splits; [apply nd_filter; auto|apply incl_filter|]. intros rid. rewrite fails_map.
  pose proof (nodup_fst_count (filter (fun q => snd q =? r) (outgoing_requests st)) rid (nd_filter _ _ Hn)) as Hc. split; [exact Hc|].
  intros E. destruct (filter (fun q => fst q =? rid) (filter (fun q => snd q =? r) (outgoing_requests st))) as [|p m] eqn:F; [discriminate|].
  assert (Hp : In p (filter (fun q => fst q =? rid) (filter (fun q => snd q =? r) (outgoing_requests st)))) by (rewrite F; left; reflexivity).
  apply filter_In in Hp. destruct Hp as [Hp Hf]. apply filter_In in Hp. destruct Hp as [Hin Hs]. apply Z.eqb_eq in Hf. apply Z.eqb_eq in Hs.
  split; [unfold pending; apply in_map_iff; exists p; auto|].
  unfold pending. cbn. intros Hi. apply in_map_iff in Hi. destruct Hi as [p' [Hp' Hin']]. apply filter_In in Hin'. destruct Hin' as [Hin' Hs'].
  apply negb_true_iff in Hs'. apply Z.eqb_neq in Hs'.
  assert (p' = p) as -> by (apply (in_unique_map fst (outgoing_requests st)); auto; congruence). auto.
Qed.

Lemma once_filter : forall st st' o (f : Z * Z -> bool), outgoing_requests st' = filter f (outgoing_requests st) -> (forall rid, fails rid o = O) -> once st (st', o).
Proof. intros st st' o f E Ho Hn. cbn. unfold nd in *. rewrite E. splits; [apply nd_filter; auto|apply incl_filter|]. intros rid. rewrite Ho. split; [lia|discriminate]. Qed.

Lemma once_same : forall st st1 res, outgoing_requests st1 = outgoing_requests st -> once st1 res -> once st res.
Proof. unfold once, nd, pending. intros st st1 res E H. rewrite <- E. exact H. Qed.

Lemma once_mm_dispatch : forall st r, once st (mm_dispatch_error st r).
Proof. intros st r Hn. exact (once_tm_dispatch st NetworkError r Hn). Qed.
Lemma once_send_via : forall st m, once st (_send_via_transport st m).
Proof. intros. unfold _send_via_transport. destruct (is_refusing st (m_remote m)); [apply once_mm_dispatch|apply once_nofail; auto]. Qed.
Lemma once_send_initially : forall st m mon, once st (_send_initially st m mon).
Proof.
  intros. unfold _send_initially. destruct (_add_exchange st m mon) as [st1 o1] eqn:A.
  destruct (add_exchange_facts _ _ _ _ _ A) as (_ & _ & E3 & _).
  assert (Ho1 : forall rid, fails rid o1 = O).
  { unfold _add_exchange, uniform, _schedule_retransmit in A. destruct (in_backlogs st (m_remote m)); cbn in A; inv A; reflexivity. }
  pose proof (once_send_via st1 m) as H2. destruct (_send_via_transport st1 m) as [st2 o2].
  apply (once_seq st st1 o1 st2 o2); auto. apply once_nofail; auto.
Qed.
Lemma once_loop : forall fuel st r, once st (_continue_backlog_loop fuel st r).
Proof.
  induction fuel as [|fuel IH]; intros st r; cbn [_continue_backlog_loop]; [apply once_nofail; auto|].
  destruct (qget r (backlogs st)) as [q|]; [|apply once_nil; auto].
  destruct (has_exchange_with st r); [apply once_nil; auto|]. destruct q as [|[m mon] rest]; [apply once_nil; auto|].
  pose proof (once_send_initially (set_backlogs st (qset r rest (backlogs st))) m mon) as H1.
  destruct (_send_initially _ m mon) as [st1 o1]. specialize (IH st1 r). destruct (_continue_backlog_loop fuel st1 r) as [st2 o2].
  apply (once_seq st st1 o1 st2 o2); auto.
Qed.
Lemma once_continue : forall st r, once st (_continue_backlog st r).
Proof. intros. unfold _continue_backlog. destruct (qget r (backlogs st)); [apply once_loop|apply once_nofail; auto]. Qed.
Lemma once_remove : forall st r mid b, once st (_remove_exchange st r mid b).
Proof.
  intros. unfold _remove_exchange. destruct (xget (r, mid) (active_exchanges st)) as [[mon h]|]; [|apply once_nil; auto].
  set (st1 := set_exchanges st (xdel (r, mid) (active_exchanges st))).
  assert (H1 : once st (if b then tm_fail st1 mon MessageError else (st1, []))) by (destruct b; [eapply once_same; [|apply once_tm_fail]; reflexivity|apply once_nil; auto]).
  destruct (if b then tm_fail st1 mon MessageError else (st1, [])) as [st2 o1].
  pose proof (once_continue st2 r) as H2. destruct (_continue_backlog st2 r) as [st3 o2]. apply (once_seq st st2 o1 st3 o2); auto.
Qed.
Lemma once_retransmit : forall st h, once st (_retransmit st h).
Proof.
  intros. unfold _retransmit. destruct (xget _ (active_exchanges st)) as [[mon h0]|]; [|apply once_nofail; auto].
  destruct (h_counter h <? MAX_RETRANSMIT (m_tuning (h_message h))).
  - unfold _schedule_retransmit. cbn [fst snd]. eapply once_same; [|apply once_send_via]. reflexivity.
  - cbn [backlogs set_exchanges]. destruct (qget _ (backlogs st)); [|apply once_nofail; auto]. eapply once_same; [|apply once_tm_dispatch]. reflexivity.
Qed.
Lemma once_send_empty : forall st b r mid, once st (send_empty st b r mid).
Proof. intros. unfold send_empty. destruct (is_refusing st r); [apply once_mm_dispatch|apply once_nofail; auto]. Qed.
Lemma once_response : forall st r ty mid rid, once st (dispatch_response st r ty mid rid).
Proof.
  intros. unfold dispatch_response.
  assert (H1 : once st (if ty =? 0 then _remove_exchange st r mid false else (st, []))) by (destruct (ty =? 0); [apply once_remove|apply once_nil; auto]).
  destruct (if ty =? 0 then _remove_exchange st r mid false else (st, [])) as [st1 o1].
  destruct (tm_process_response st1 rid r) as [[succ st2] o2] eqn:P.
  assert (H2 : once st1 (st2, o2)).
  { unfold tm_process_response in P. destruct (existsb _ (outgoing_requests st1)); inv P; [eapply once_filter; [reflexivity|auto]|apply once_nil; auto]. }
  destruct (if ty =? 1 then if succ then send_empty st2 false r mid else send_empty st2 true r mid else (st2, [])) as [st3 o3] eqn:E3.
  assert (H3 : once st2 (st3, o3)).
  { destruct (ty =? 1); [|inv E3; apply once_nil; auto]. destruct succ; rewrite <- E3; apply once_send_empty. }
  apply (once_seq st st1 o1 st3 (o2 ++ o3)); auto. apply (once_seq st1 st2 o2 st3 o3); auto.
Qed.
Lemma once_send_message : forall st rid r tn, once st (send_message st rid r tn).
Proof.
  intros. unfold send_message, _next_message_id. cbn [backlogs fst snd].
  destruct (qget r (backlogs st)) as [q|].
  - match goal with |- context [if ?c then _ else _] => destruct c end; [apply once_nil; auto|]. eapply once_same; [|apply once_tm_fail]. reflexivity.
  - eapply once_same; [|apply once_send_initially]. reflexivity.
Qed.

(* every event except a new request *)
Lemma step_once : forall st e, (forall rid r tn, e <> ERequest rid r tn) -> once st (step st e).
Proof.
  intros st e Hne. destruct e as [rid r tn|r b mid|t| | |r|rid|r ty mid rid|r on]; cbn [step].
  - exfalso. eapply Hne; eauto.
  - apply once_remove.
  - apply once_nil; auto.
  - destruct (next_timer st) as [h|]; [|apply once_nil; auto]. eapply once_same; [|apply once_retransmit]. reflexivity.
  - destruct (next_timer st) as [h|]; [|apply once_nil; auto]. destruct (h_due h <=? now st); [apply once_retransmit|apply once_nil; auto].
  - apply once_mm_dispatch.
  - eapply once_filter; [reflexivity|auto].
  - apply once_response.
  - apply once_nil; auto.
Qed.

Definition Inv1 (seen : list Z) (st : state) (tr : list output) : Prop :=
  nd st /\ (forall rid, pending rid st -> In rid seen) /\
  forall rid, (fails rid tr <= 1)%nat /\ (fails rid tr = 1%nat -> In rid seen /\ ~ pending rid st).

Lemma inv1_once : forall seen st tr st' o, Inv1 seen st tr -> once st (st', o) -> Inv1 seen st' (tr ++ o).
Proof.
  intros seen st tr st' o (Hn & Hp & Hf) H. destruct (H Hn) as (N1 & I1 & F1). cbn in *. unfold Inv1. splits; auto.
  - intros rid Hr. apply Hp. eapply pending_incl; eauto.
  - intros rid. rewrite fails_app. destruct (Hf rid) as [A B]. destruct (F1 rid) as [A1 B1].
    assert (fails rid tr = 1%nat -> fails rid o = O).
    { intros E. destruct (B E) as [_ Hnp]. destruct (fails rid o) eqn:E2; auto. assert (n = O) by lia. subst. exfalso. apply Hnp. apply (B1 eq_refl). }
    split; [lia|]. intros E. destruct (fails rid tr) eqn:E1.
    + destruct (B1 E) as [P Q]. split; auto.
    + assert (n = O) by lia. subst. destruct (B eq_refl) as [P Q]. split; auto. intros Hr. apply Q. eapply pending_incl; eauto.
Qed.

Lemma nodup_snoc : forall (l : list Z) x, NoDup l -> ~ In x l -> NoDup (l ++ [x]).
Proof.
  induction l as [|a l IH]; intros x N Hx; cbn; [constructor; auto; constructor|]. apply NoDup_cons_iff in N. destruct N as [Hn Hd].
  constructor; [|apply IH; auto; intros H; apply Hx; right; exact H]. intros Hi. apply in_app_iff in Hi. destruct Hi as [Hi|[Hi|[]]]; auto. apply Hx. left. auto.
Qed.

Lemma step_inv1 : forall seen st tr e st' o, Inv1 seen st tr -> wf_event seen e -> step st e = (st', o) ->
  Inv1 (seen_after seen e) st' (tr ++ o).
Proof.
  intros seen st tr e st' o I W H.
  assert (Hd : (exists rid r tn, e = ERequest rid r tn) \/ forall rid r tn, e <> ERequest rid r tn) by (destruct e; try (right; intros; discriminate); left; eauto).
  destruct Hd as [(rid & r & tn & ->)|Hne].
  - destruct W as [Wf _]. cbn [step seen_after] in *. unfold tm_request in H.
    set (st0 := set_outgoing st (outgoing_requests st ++ [(rid, r)])) in *.
    assert (I0 : Inv1 (rid :: seen) st0 tr).
    { destruct I as (Hn & Hp & Hf).
      assert (Hpe : forall x, pending x st0 <-> pending x st \/ x = rid).
      { intros x. unfold pending, st0. cbn. rewrite map_app, in_app_iff. cbn. intuition. }
      unfold Inv1. splits.
      - unfold nd, st0. cbn. rewrite map_app. cbn. apply nodup_snoc; [exact Hn|]. intros Hi. apply Wf. apply Hp. exact Hi.
      - intros x Hx. apply Hpe in Hx. destruct Hx as [Hx|Hx]; [right; auto|left; auto].
      - intros x. destruct (Hf x) as [A B]. split; auto. intros E. destruct (B E) as [P Q]. split; [right; exact P|].
        intros Hx. apply Hpe in Hx. destruct Hx as [Hx|Hx]; auto. subst x. auto. }
    eapply inv1_once; eauto. rewrite <- H. apply once_send_message.
  - assert (seen_after seen e = seen) as -> by (destruct e; auto; exfalso; eapply Hne; eauto).
    eapply inv1_once; eauto. rewrite <- H. apply step_once. exact Hne.
Qed.

Lemma run_inv1 : forall evs seen st tr st' os, Inv1 seen st tr -> wf_events seen evs -> run st evs = (st', os) ->
  Inv1 (seen_all seen evs) st' (tr ++ concat os).
Proof.
  induction evs as [|e evs IH]; intros seen st tr st' os I W H; cbn in H.
  - inv H. cbn. rewrite app_nil_r. exact I.
  - destruct (step st e) as [st1 o] eqn:E. destruct (run st1 evs) as [st2 os2] eqn:R. inv H. destruct W as [W1 W2].
    cbn. rewrite app_assoc. eapply IH; eauto. eapply step_inv1; eauto.
Qed.

(* a request fails at most once: over every well-formed run (refusing transports, transport errors, RST, give-up, collateral
   failures of the remote's other requests included), the trace has at most one OFail per request id *)
Lemma request_fails_at_most_once : forall mid0 draws evs rid, wf_run draws evs -> (fails rid (trace_of mid0 draws evs) <= 1)%nat.
Proof.
  intros mid0 draws evs rid [_ W]. unfold trace_of. destruct (run (init mid0 draws) evs) as [st' os] eqn:R.
  assert (I0 : Inv1 [] (init mid0 draws) []).
  { unfold Inv1. splits; cbn; [constructor|intros x []|]. intros x. cbn. split; [lia|discriminate]. }
  pose proof (run_inv1 evs [] _ [] st' os I0 W R) as (_ & _ & Hf). cbn in Hf. apply Hf.
Qed.

(* two failure outputs of one request are the same output *)
Lemma fails_two : forall rid o t1 e1 t2 e2 a b c, o = a ++ OFail t1 rid e1 :: b ++ OFail t2 rid e2 :: c -> (2 <= fails rid o)%nat.
Proof. intros. subst. rewrite fails_app. cbn. rewrite Z.eqb_refl, fails_app. cbn. rewrite Z.eqb_refl. lia. Qed.
