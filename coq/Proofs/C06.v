(* C06 — block-wise server: decision tables of the spool / cache, the time-free reference
   ("ghost") reassembly and rendering maps, and the invariants tying the model state to them
   over every event history. *)
From Verif Require Import Lib.Py Lib.PyLemmas Lib.Tactics Model.C06 Proofs.C06TimeoutDict.
Open Scope Z_scope.

(* ------------------------------------------------------------------------------------------ keys *)
Lemma list_eqb_eq {A} (eqb : A -> A -> bool) :
  (forall x y, eqb x y = true <-> x = y) -> forall a b, list_eqb eqb a b = true <-> a = b.
Proof.
  intros E. induction a as [|x a IH]; intros [|y b]; cbn; split; try congruence; try discriminate.
  - intros H. apply andb_prop in H as [H1 H2]. apply E in H1. apply IH in H2. congruence.
  - intros H. injection H as -> ->. apply andb_true_intro. split; [apply E; reflexivity|apply IH; reflexivity].
Qed.
Lemma opt_eqb_eq a b : opt_eqb a b = true <-> a = b.
Proof.
  destruct a as [n v], b as [n' v']. unfold opt_eqb; cbn. split.
  - intros H. apply andb_prop in H as [H1 H2]. apply Z.eqb_eq in H1. apply list_eqb_Z_eq in H2. congruence.
  - intros [= -> ->]. rewrite Z.eqb_refl. apply list_eqb_Z_eq. reflexivity.
Qed.
Lemma key_eqb_eq (a b : key) : key_eqb a b = true <-> a = b.
Proof.
  destruct a as [[r c] o], b as [[r' c'] o']. unfold key_eqb. split.
  - intros H. apply andb_prop in H as [H12 H3]. apply andb_prop in H12 as [H1 H2].
    apply Z.eqb_eq in H1. apply Z.eqb_eq in H2. apply (list_eqb_eq opt_eqb opt_eqb_eq) in H3. congruence.
  - intros [= -> -> ->]. rewrite !Z.eqb_refl. cbn. apply (list_eqb_eq opt_eqb opt_eqb_eq). reflexivity.
Qed.
Lemma key_dec (a b : key) : {a = b} + {a <> b}.
Proof. exact (keqb_dec key_eqb key_eqb_eq a b). Qed.
Lemma key_eqb_refl (k : key) : key_eqb k k = true. Proof. apply key_eqb_eq; reflexivity. Qed.
Lemma key_eqb_neq (a b : key) : a <> b -> key_eqb a b = false.
Proof. exact (keqb_neq key_eqb key_eqb_eq a b). Qed.

Definition kget {V} (k : key) (d : td key V) : option V := alist_get key_eqb k (td_items d).

Lemma items_accessed {V} T now k (d : td key V) : td_items (td_accessed T now k d) = td_items d.
Proof. unfold td_accessed. destruct (td_timer d) as [[due rec]|]; reflexivity. Qed.
Lemma kget_accessed {V} T now k k' (d : td key V) : kget k' (td_accessed T now k d) = kget k' d.
Proof. unfold kget. rewrite items_accessed. reflexivity. Qed.
Lemma kget_setitem_same {V} T now k (v : V) d : kget k (td_setitem key_eqb T now k v d) = Some v.
Proof. unfold kget, td_setitem. rewrite items_accessed. cbn. apply (alist_get_set_same key_eqb key_eqb_eq). Qed.
Lemma kget_setitem_other {V} T now k k' (v : V) d : k' <> k -> kget k' (td_setitem key_eqb T now k v d) = kget k' d.
Proof. intros N. unfold kget, td_setitem. rewrite items_accessed. cbn. apply (alist_get_set_other key_eqb key_eqb_eq). exact N. Qed.
Lemma kget_mutate_same {V} k (v : V) d : kget k (td_mutate key_eqb k v d) = Some v.
Proof. unfold kget, td_mutate. cbn. apply (alist_get_set_same key_eqb key_eqb_eq). Qed.
Lemma kget_mutate_other {V} k k' (v : V) d : k' <> k -> kget k' (td_mutate key_eqb k v d) = kget k' d.
Proof. intros N. unfold kget, td_mutate. cbn. apply (alist_get_set_other key_eqb key_eqb_eq). exact N. Qed.
Lemma kget_pop_same {V} k (d : td key V) : kget k (td_pop key_eqb k d) = None.
Proof. unfold kget, td_pop; cbn [td_items]. rewrite (alist_get_remove key_eqb key_eqb_eq), key_eqb_refl. reflexivity. Qed.
Lemma kget_pop_other {V} k k' (d : td key V) : k' <> k -> kget k' (td_pop key_eqb k d) = kget k' d.
Proof. intros N. unfold kget, td_pop; cbn [td_items]. rewrite (alist_get_remove key_eqb key_eqb_eq), key_eqb_neq by exact N. reflexivity. Qed.
Lemma td_getitem_kget {V} T now k (d : td key V) :
  td_getitem key_eqb T now k d = match kget k d with Some v => Some (v, td_accessed T now k d) | None => None end.
Proof. reflexivity. Qed.

(* expiry only removes entries *)
Lemma td_tick_items {V} T now (d : td key V) due rec : td_timer d = Some (due, rec) ->
  td_items (td_tick key_eqb T now d) = filter (fun kv => kmem key_eqb (fst kv) rec) (td_items d).
Proof.
  intros Tm. unfold td_tick. rewrite Tm.
  destruct (filter (fun kv : key * V => kmem key_eqb (fst kv) rec) (td_items d)); reflexivity.
Qed.
Lemma kget_fire {V} T target k (d : td key V) v : kget k (td_fire key_eqb T target d) = Some v -> kget k d = Some v.
Proof.
  unfold td_fire. destruct (td_timer d) as [[due rec]|] eqn:Tm; [|auto].
  destruct (due <=? target); [|auto]. unfold kget. rewrite (td_tick_items T due d due rec Tm).
  rewrite (alist_get_filter key_eqb key_eqb_eq (fun k => kmem key_eqb k rec)).
  destruct (kmem key_eqb k rec); [auto|discriminate].
Qed.
Lemma kget_advance {V} T target k (d : td key V) v : kget k (td_advance key_eqb T target d) = Some v -> kget k d = Some v.
Proof. unfold td_advance. intros H. apply kget_fire in H. apply kget_fire in H. exact H. Qed.

(* ------------------------------------------------------------------------------------------ Block1 *)
(* the payload length of a block agrees with its Block1 option: BlockwiseTuple.is_valid_for_payload_size
   (M=1: exactly the block size, BERT a multiple of 1024; M=0: at most the block size, BERT anything) *)
Definition size_ok (b : blockopt) (r : msg) : bool := is_valid_for_payload_size b (blen (m_payload r)).

Definition appended (self nb : msg) (b : blockopt) : msg :=
  set_payload_block1_id_block2 self (m_payload self ++ m_payload nb) (Some b) (m_id nb)
    (if negb (b_more b) then match m_block2 nb with Some b2 => Some b2 | None => m_block2 self end else m_block2 self).

Lemma append_cases self nb b : m_block1 nb = Some b -> is_request (m_code self) = true ->
  (size_ok b nb = false /\ append_request_block self nb = RRaise (EBadRequest txt_size_mismatch)) \/
  (size_ok b nb = true /\ b_start b = blen (m_payload self) /\ append_request_block self nb = ROk (appended self nb b)) \/
  (size_ok b nb = true /\ b_start b <> blen (m_payload self) /\ append_request_block self nb = RRaise (EOther ValueError)).
Proof.
  intros Hb Hr. unfold append_request_block, size_ok, appended. rewrite Hr, Hb. cbn [negb].
  destruct (is_valid_for_payload_size b (blen (m_payload nb))); cbn [negb];
    try (left; split; reflexivity);
    (right; destruct (b_start b =? blen (m_payload self)) eqn:E; [left|right];
     (split; [reflexivity|split; [lia|reflexivity]])).
Qed.

Lemma fat_none T now sp req : m_block1 req = None -> feed_and_take T now sp req = (sp, ROk req).
Proof. intros H. unfold feed_and_take. rewrite H. reflexivity. Qed.

Lemma fat_first T now sp req b : m_block1 req = Some b -> b_num b = 0 ->
  let sp1 := td_setitem key_eqb T now (extract_block_key req) req sp in
  feed_and_take T now sp req =
    if b_more b then (sp1, RRaise (EContinue b)) else (td_pop key_eqb (extract_block_key req) sp1, ROk req).
Proof.
  intros Hb Hn. unfold feed_and_take. rewrite Hb, Hn. cbn [Z.eqb].
  destruct (b_more b); [reflexivity|].
  fold (kget (extract_block_key req) (td_setitem key_eqb T now (extract_block_key req) req sp)). rewrite kget_setitem_same. reflexivity.
Qed.

Lemma fat_unknown T now sp req b : m_block1 req = Some b -> b_num b <> 0 -> kget (extract_block_key req) sp = None ->
  feed_and_take T now sp req = (sp, RRaise EIncomplete).
Proof.
  intros Hb Hn Hg. unfold feed_and_take. rewrite Hb. replace (b_num b =? 0) with false by lia.
  rewrite td_getitem_kget, Hg. reflexivity.
Qed.

Lemma fat_known T now sp req b asm : m_block1 req = Some b -> b_num b <> 0 ->
  kget (extract_block_key req) sp = Some asm -> is_request (m_code asm) = true ->
  let k := extract_block_key req in
  let sp1 := td_accessed T now k sp in
  (size_ok b req = false -> feed_and_take T now sp req = (sp1, RRaise (EBadRequest txt_size_mismatch))) /\
  (size_ok b req = true -> b_start b <> blen (m_payload asm) -> feed_and_take T now sp req = (sp1, RRaise EIncomplete)) /\
  (size_ok b req = true -> b_start b = blen (m_payload asm) ->
     let sp2 := td_mutate key_eqb k (appended asm req b) sp1 in
     feed_and_take T now sp req =
       if b_more b then (sp2, RRaise (EContinue b)) else (td_pop key_eqb k sp2, ROk (appended asm req b))).
Proof.
  intros Hb Hn Hg Hr k sp1.
  assert (E : feed_and_take T now sp req =
              let fed := match append_request_block asm req with
                         | ROk asm' => (td_mutate key_eqb k asm' sp1, None)
                         | RRaise (EOther ValueError) => (sp1, Some EIncomplete)
                         | RRaise e => (sp1, Some e)
                         end in
              match fed with
              | (a1, Some e) => (a1, RRaise e)
              | (a1, None) => if b_more b then (a1, RRaise (EContinue b))
                              else match alist_get key_eqb k (td_items a1) with
                                   | Some asm => (td_pop key_eqb k a1, ROk asm) | None => (a1, RRaise (EOther AttributeError)) end
              end).
  { unfold feed_and_take. rewrite Hb. replace (b_num b =? 0) with false by lia.
    rewrite td_getitem_kget, Hg. reflexivity. }
  destruct (append_cases asm req b Hb Hr) as [[S A]|[[S [St A]]|[S [St A]]]]; rewrite A in E; cbn zeta in E.
  - repeat split; intros; try congruence; try exact E.
  - repeat split; intros; try congruence. rewrite E. cbn iota.
    destruct (b_more b); [reflexivity|]. fold (kget k (td_mutate key_eqb k (appended asm req b) sp1)). rewrite kget_mutate_same. reflexivity.
  - repeat split; intros; try congruence; try exact E.
Qed.

(* ------------------------------------------------------------------------------------------ Block2 *)
Definition b2_start (szx num : Z) : Z := if szx =? 7 then num * 1024 else num * 2 ^ (szx + 4).
Definition b2_size (szx mps : Z) : Z := if szx =? 7 then 1024 * (mps / 1024) else 2 ^ (szx + 4).
Definition needs_chunking (req : msg) (r : resp) : bool :=
  (blen (p_payload r) >? m_mps req)
  || match m_block2 req with Some b2 => (blen (p_payload r) >? b_size b2) || negb (b_num b2 =? 0) | None => false end.

Lemma bslice_clamp {A} (l : list A) i j : blen l <= j -> bslice l i j = bslice l i (blen l).
Proof.
  intros H. unfold bslice, blen in *. rewrite Nat2Z.id. rewrite !firstn_all2; [reflexivity|lia|lia].
Qed.

(* the arithmetic of Message._extract_block: exactly the slice [start, start+size) with the more-flag
   set exactly when bytes remain, 4.00 when the block starts at or beyond the end *)
Lemma extract_block_spec R number szx mps :
  let start := b2_start szx number in let size := b2_size szx mps in
  extract_block R number szx mps =
    if start >=? blen (p_payload R) then RRaise (EBadRequest txt_out_of_bounds)
    else ROk {| p_code := p_code R; p_block1 := p_block1 R;
                p_block2 := Some {| b_num := number; b_more := start + size <? blen (p_payload R); b_szx := szx |};
                p_payload := bslice (p_payload R) start (start + size) |}.
Proof.
  cbn zeta. unfold extract_block, b2_start, b2_size.
  destruct (szx =? 7); cbn iota beta;
  match goal with |- context [if ?s >=? ?l then _ else _] => destruct (s >=? l) eqn:E; [reflexivity|] end;
  match goal with |- context [if ?s <? ?l then _ else _] => destruct (s <? l) eqn:E2 end;
  try (rewrite ?E2; reflexivity);
  try (f_equal; f_equal; [f_equal; f_equal; lia | ]); try reflexivity;
  try (symmetry; apply bslice_clamp; lia).
Qed.

Lemma eoi_later T now ca req b2 rendering : m_block2 req = Some b2 -> b_num b2 <> 0 ->
  let k := extract_block_key req in
  match kget k ca with
  | None => extract_or_insert T now ca req rendering = (ca, [], RRaise EIncomplete)
  | Some R => extract_or_insert T now ca req rendering =
                (td_setitem key_eqb T now k R (td_accessed T now k ca), [], extract_block R (b_num b2) (b_szx b2) (m_mps req))
  end.
Proof.
  intros Hb Hn k. unfold extract_or_insert. rewrite Hb. replace (b_num b2 =? 0) with false by lia.
  rewrite td_getitem_kget. fold k. destruct (kget k ca) as [R|]; [|reflexivity].
  cbn [negb]. rewrite !orb_true_r. reflexivity.
Qed.

Lemma eoi_first T now ca req rendering :
  match m_block2 req with Some b2 => b_num b2 = 0 | None => True end ->
  let k := extract_block_key req in
  extract_or_insert T now ca req rendering =
    if needs_chunking req rendering
    then (td_setitem key_eqb T now k rendering ca, [req],
          extract_block rendering 0 (match m_block2 req with Some b2 => b_szx b2 | None => m_mbse req end) (m_mps req))
    else (td_pop key_eqb k ca, [req], ROk rendering).
Proof.
  intros Hb k. unfold extract_or_insert, needs_chunking. destruct (m_block2 req) as [b2|] eqn:E.
  - rewrite Hb. cbn [Z.eqb]. fold k. destruct ((blen (p_payload rendering) >? m_mps req) || ((blen (p_payload rendering) >? b_size b2) || negb true)); reflexivity.
  - fold k. destruct ((blen (p_payload rendering) >? m_mps req) || false); reflexivity.
Qed.

(* ------------------------------------------------------------------------------------------
   the time-free reference: per block key, the blocks accepted since the latest block 0 *)
Definition concat_payloads (bs : list msg) : list Z := concat (map m_payload bs).
Definition gasm := key -> option (list msg).
Definition gset {A} (g : key -> option A) (k : key) (v : A) : key -> option A :=
  fun k' => if key_eqb k' k then Some v else g k'.
Definition ghost1_step (g : gasm) (r : msg) : gasm :=
  match m_block1 r with
  | None => g
  | Some b =>
    let k := extract_block_key r in
    if b_num b =? 0 then gset g k [r]
    else match g k with
         | Some bs => if size_ok b r && (b_start b =? blen (concat_payloads bs)) then gset g k (bs ++ [r]) else g
         | None => g
         end
  end.

Lemma gset_same {A} (g : key -> option A) k v : gset g k v k = Some v.
Proof. unfold gset. rewrite key_eqb_refl. reflexivity. Qed.
Lemma gset_other {A} (g : key -> option A) k k' v : k' <> k -> gset g k v k' = g k'.
Proof. intros N. unfold gset. rewrite key_eqb_neq by exact N. reflexivity. Qed.

(* what "in-order concatenation of blocks 0..n of one transfer" means *)
Inductive chain (k : key) : list msg -> Prop :=
| chain_first r b : m_block1 r = Some b -> b_num b = 0 -> extract_block_key r = k -> chain k [r]
| chain_next bs r b : chain k bs -> m_block1 r = Some b -> b_num b <> 0 -> extract_block_key r = k ->
    size_ok b r = true -> b_start b = blen (concat_payloads bs) -> chain k (bs ++ [r]).
Definition gasm_wf (g : gasm) : Prop := forall k bs, g k = Some bs -> chain k bs.

Lemma ghost1_step_wf g r : gasm_wf g -> gasm_wf (ghost1_step g r).
Proof.
  intros W k bs. unfold ghost1_step. destruct (m_block1 r) as [b|] eqn:Hb; [|apply W].
  destruct (b_num b =? 0) eqn:Hn.
  - destruct (key_dec k (extract_block_key r)) as [->|N].
    + rewrite gset_same. intros [= <-]. apply (chain_first _ r b); [exact Hb|lia|reflexivity].
    + rewrite gset_other by exact N. apply W.
  - destruct (g (extract_block_key r)) as [bs0|] eqn:G; [|apply W].
    destruct (size_ok b r && (b_start b =? blen (concat_payloads bs0))) eqn:C; [|apply W].
    apply andb_prop in C as [C1 C2].
    destruct (key_dec k (extract_block_key r)) as [->|N].
    + rewrite gset_same. intros [= <-]. apply (chain_next _ bs0 r b); try assumption; try reflexivity; try lia. apply W. exact G.
    + rewrite gset_other by exact N. apply W.
Qed.

(* the stored assembly [m] is the reassembly of the block list [bs] *)
Definition assembled_from (m : msg) (bs : list msg) : Prop :=
  match bs with
  | [] => False
  | b0 :: _ =>
    m_remote m = m_remote b0 /\ m_mps m = m_mps b0 /\ m_mbse m = m_mbse b0 /\ m_code m = m_code b0 /\ m_opts m = m_opts b0 /\
    m_payload m = concat_payloads bs /\ m_block1 m = m_block1 (last bs b0) /\ m_id m = m_id (last bs b0)
  end.
Lemma assembled_key m bs b0 : assembled_from m (b0 :: bs) -> extract_block_key m = extract_block_key b0.
Proof. cbn. intros (H1 & _ & _ & H4 & H5 & _). unfold extract_block_key, get_cache_key. rewrite H1, H4, H5. reflexivity. Qed.
Lemma concat_payloads_snoc bs r : concat_payloads (bs ++ [r]) = concat_payloads bs ++ m_payload r.
Proof. unfold concat_payloads. rewrite map_app, concat_app. cbn. rewrite app_nil_r. reflexivity. Qed.
Lemma last_snoc {A} (l : list A) x d : last (l ++ [x]) d = x.
Proof. induction l as [|y l IH]; [reflexivity|]. cbn. destruct (l ++ [x]) eqn:E; [destruct l; discriminate|exact IH]. Qed.

Definition wf_req (r : msg) : Prop := is_request (m_code r) = true.

Definition spool_inv (g : gasm) (sp : spool) : Prop :=
  forall k m, kget k sp = Some m ->
    exists bs, g k = Some bs /\ assembled_from m bs /\ extract_block_key m = k /\ is_request (m_code m) = true.

Lemma spool_inv_empty g : spool_inv g td_empty.
Proof. intros k m H. discriminate. Qed.
Lemma spool_inv_pop g sp k : spool_inv g sp -> spool_inv g (td_pop key_eqb k sp).
Proof.
  intros I k' m H. destruct (key_dec k' k) as [->|N]; [rewrite kget_pop_same in H; discriminate|].
  rewrite kget_pop_other in H by exact N. exact (I k' m H).
Qed.
Lemma spool_inv_advance g T target sp : spool_inv g sp -> spool_inv g (td_advance key_eqb T target sp).
Proof. intros I k m H. apply kget_advance in H. exact (I k m H). Qed.

(* what feed_and_take hands to the next stage *)
Definition taken_ok (g' : gasm) (req : msg) (res : R msg) : Prop :=
  match res with
  | ROk req1 =>
    match m_block1 req with
    | None => req1 = req
    | Some b => b_more b = false /\
                exists bs, g' (extract_block_key req) = Some bs /\ assembled_from req1 bs /\
                           last bs req = req /\ extract_block_key req1 = extract_block_key req
    end
  | RRaise e =>
    match m_block1 req with
    | None => False
    | Some b => (b_more b = true /\ e = EContinue b) \/ (b_num b <> 0 /\ e = EIncomplete) \/
                (b_num b <> 0 /\ size_ok b req = false /\ e = EBadRequest txt_size_mismatch)
    end
  end.

Lemma feed_and_take_inv T now g sp req : wf_req req -> spool_inv g sp ->
  let '(sp', res) := feed_and_take T now sp req in
  spool_inv (ghost1_step g req) sp' /\ taken_ok (ghost1_step g req) req res.
Proof.
  intros Wr I. destruct (m_block1 req) as [b|] eqn:Hb.
  2:{ rewrite fat_none by exact Hb. unfold ghost1_step, taken_ok. rewrite Hb. split; [exact I|reflexivity]. }
  set (k := extract_block_key req).
  destruct (Z.eq_dec (b_num b) 0) as [Hn|Hn].
  - (* block 0: a fresh assembly *)
    pose proof (fat_first T now sp req b Hb Hn) as E. cbn zeta in E. fold k in E.
    assert (G : ghost1_step g req = gset g k [req]).
    { unfold ghost1_step. rewrite Hb, Hn. reflexivity. }
    assert (A : assembled_from req [req]).
    { cbn. repeat split; try reflexivity. unfold concat_payloads. cbn. rewrite app_nil_r. reflexivity. }
    assert (I1 : spool_inv (gset g k [req]) (td_setitem key_eqb T now k req sp)).
    { intros k' m H. destruct (key_dec k' k) as [->|N].
      - rewrite kget_setitem_same in H. injection H as <-. exists [req]. rewrite gset_same.
        split; [reflexivity|split; [exact A|split; [reflexivity|exact Wr]]].
      - rewrite kget_setitem_other in H by exact N. rewrite gset_other by exact N. exact (I k' m H). }
    rewrite E, G. destruct (b_more b) eqn:Hm.
    + split; [exact I1|]. unfold taken_ok. rewrite Hb. left. split; [exact Hm|reflexivity].
    + split.
      * apply spool_inv_pop. exact I1.
      * unfold taken_ok. rewrite Hb. split; [exact Hm|]. exists [req]. rewrite gset_same.
        split; [reflexivity|split; [exact A|split; reflexivity]].
  - destruct (kget k sp) as [asm|] eqn:Hg.
    2:{ (* no assembly: the reference may move on, the spool holds nothing for k *)
        rewrite (fat_unknown T now sp req b Hb Hn Hg).
        split; [|unfold taken_ok; rewrite Hb; right; left; split; [exact Hn|reflexivity]].
        intros k' m H. destruct (key_dec k' k) as [->|N]; [congruence|].
        destruct (I k' m H) as (bs & G & A). exists bs. split; [|exact A].
        unfold ghost1_step. rewrite Hb. replace (b_num b =? 0) with false by lia. fold k.
        destruct (g k) as [bs0|]; [|exact G].
        destruct (size_ok b req && (b_start b =? blen (concat_payloads bs0))); [|exact G].
        rewrite gset_other by exact N. exact G. }
    destruct (I k asm Hg) as (bs & G & A & Ka & Ra).
    destruct (fat_known T now sp req b asm Hb Hn Hg Ra) as (F1 & F2 & F3). fold k in F1, F2, F3.
    assert (Pl : m_payload asm = concat_payloads bs).
    { destruct bs as [|b0 bs]; [contradiction|]. cbn in A. tauto. }
    assert (Inv1 : spool_inv g (td_accessed T now k sp)).
    { intros k' m H. rewrite kget_accessed in H. exact (I k' m H). }
    destruct (size_ok b req) eqn:S.
    2:{ rewrite (F1 eq_refl). split; [|unfold taken_ok; rewrite Hb; right; right; split; [exact Hn|split; [exact S|reflexivity]]].
        assert (G' : ghost1_step g req = g).
        { unfold ghost1_step. rewrite Hb. replace (b_num b =? 0) with false by lia. fold k. rewrite G, S. reflexivity. }
        rewrite G'. exact Inv1. }
    destruct (Z.eq_dec (b_start b) (blen (m_payload asm))) as [St|St].
    2:{ rewrite (F2 eq_refl St). split; [|unfold taken_ok; rewrite Hb; right; left; split; [exact Hn|reflexivity]].
        assert (G' : ghost1_step g req = g).
        { unfold ghost1_step. rewrite Hb. replace (b_num b =? 0) with false by lia. fold k. rewrite G, S.
          rewrite <- Pl. replace (b_start b =? blen (m_payload asm)) with false by lia. reflexivity. }
        rewrite G'. exact Inv1. }
    (* the block extends the assembly *)
    assert (G' : ghost1_step g req = gset g k (bs ++ [req])).
    { unfold ghost1_step. rewrite Hb. replace (b_num b =? 0) with false by lia. fold k. rewrite G, S.
      rewrite <- Pl. replace (b_start b =? blen (m_payload asm)) with true by lia. reflexivity. }
    assert (A' : assembled_from (appended asm req b) (bs ++ [req])).
    { destruct bs as [|b0 bs]; [contradiction|]. cbn in A. destruct A as (A1 & A2 & A3 & A4 & A5 & A6 & A7 & A8).
      change ((b0 :: bs) ++ [req]) with (b0 :: (bs ++ [req])). cbn [assembled_from].
      change (b0 :: (bs ++ [req])) with ((b0 :: bs) ++ [req]). rewrite last_snoc, concat_payloads_snoc.
      unfold appended, set_payload_block1_id_block2; cbn. rewrite A6. repeat split; try assumption. symmetry; exact Hb. }
    assert (K' : extract_block_key (appended asm req b) = k).
    { rewrite <- Ka. reflexivity. }
    assert (I2 : spool_inv (gset g k (bs ++ [req])) (td_mutate key_eqb k (appended asm req b) (td_accessed T now k sp))).
    { intros k' m H. destruct (key_dec k' k) as [->|N].
      - rewrite kget_mutate_same in H. injection H as <-. exists (bs ++ [req]). rewrite gset_same.
        split; [reflexivity|split; [exact A'|split; [exact K'|exact Ra]]].
      - rewrite kget_mutate_other in H by exact N. rewrite gset_other by exact N. exact (Inv1 k' m H). }
    rewrite (F3 eq_refl St), G'. destruct (b_more b) eqn:Hm.
    + split; [exact I2|]. unfold taken_ok. rewrite Hb. left. split; [exact Hm|reflexivity].
    + split.
      * apply spool_inv_pop. exact I2.
      * unfold taken_ok. rewrite Hb. split; [exact Hm|]. exists (bs ++ [req]). rewrite gset_same.
        split; [reflexivity|split; [exact A'|split; [apply last_snoc|exact K']]].
Qed.

(* ------------------------------------------------------------------------------------------
   reference for the cache: the rendering stored by the latest block-0 request that was chunked *)
Definition grend := key -> option resp.
Definition gclr {A} (g : key -> option A) (k : key) : key -> option A :=
  fun k' => if key_eqb k' k then None else g k'.
Lemma gclr_same {A} (g : key -> option A) k : gclr g k k = None.
Proof. unfold gclr. rewrite key_eqb_refl. reflexivity. Qed.
Lemma gclr_other {A} (g : key -> option A) k k' : k' <> k -> gclr g k k' = g k'.
Proof. intros N. unfold gclr. rewrite key_eqb_neq by exact N. reflexivity. Qed.
(* is this a request that makes the handler render (block 0 or no Block2)? *)
Definition is_first (req1 : msg) : bool := match m_block2 req1 with Some b2 => b_num b2 =? 0 | None => true end.
(* stored rendering: that of the latest rendering request of the key if it needed chunking, none if it was answered whole *)
Definition ghost2_step (g : grend) (req1 : msg) (rendering : resp) : grend :=
  if is_first req1
  then (if needs_chunking req1 rendering then gset g (extract_block_key req1) rendering else gclr g (extract_block_key req1))
  else g.
(* the rendering made for the latest rendering (block-0 / Block2-less) request of each key, whether stored or not *)
Definition glatest_step (g : grend) (req1 : msg) (rendering : resp) : grend :=
  if is_first req1 then gset g (extract_block_key req1) rendering else g.
Definition stored_is_latest (g gl : grend) : Prop := forall k R, g k = Some R -> gl k = Some R.
Lemma stored_is_latest_step g gl req1 rendering :
  stored_is_latest g gl -> stored_is_latest (ghost2_step g req1 rendering) (glatest_step gl req1 rendering).
Proof.
  intros H k R. unfold ghost2_step, glatest_step. destruct (is_first req1); [|apply H].
  destruct (key_dec k (extract_block_key req1)) as [->|N].
  - rewrite gset_same. destruct (needs_chunking req1 rendering); [rewrite gset_same; auto|rewrite gclr_same; discriminate].
  - rewrite gset_other by exact N. destruct (needs_chunking req1 rendering); [rewrite gset_other by exact N|rewrite gclr_other by exact N]; apply H.
Qed.
Definition cache_inv (g : grend) (ca : cache) : Prop := forall k R, kget k ca = Some R -> g k = Some R.
Lemma cache_inv_empty g : cache_inv g td_empty.
Proof. intros k m H. discriminate. Qed.
Lemma cache_inv_advance g T target ca : cache_inv g ca -> cache_inv g (td_advance key_eqb T target ca).
Proof. intros I k m H. apply kget_advance in H. exact (I k m H). Qed.

Lemma cache_inv_pop g ca k : cache_inv g ca -> cache_inv (gclr g k) (td_pop key_eqb k ca).
Proof.
  intros I k' R H. destruct (key_dec k' k) as [->|N]; [rewrite kget_pop_same in H; discriminate|].
  rewrite kget_pop_other in H by exact N. rewrite gclr_other by exact N. exact (I k' R H).
Qed.

(* the answer to a request that reaches the Block2 stage, in terms of the reference rendering *)
Definition block2_ok (g : grend) (req1 : msg) (rendering : resp) (calls : list msg) (res : R resp) : Prop :=
  match m_block2 req1 with
  | Some b2 =>
    if b_num b2 =? 0 then
      calls = [req1] /\
      res = (if needs_chunking req1 rendering then extract_block rendering 0 (b_szx b2) (m_mps req1) else ROk rendering)
    else
      calls = [] /\
      (res = RRaise EIncomplete \/
       exists Rn, g (extract_block_key req1) = Some Rn /\ res = extract_block Rn (b_num b2) (b_szx b2) (m_mps req1))
  | None =>
    calls = [req1] /\
    res = (if needs_chunking req1 rendering then extract_block rendering 0 (m_mbse req1) (m_mps req1) else ROk rendering)
  end.

Lemma extract_or_insert_inv T now g ca req1 rendering : cache_inv g ca ->
  let '(ca', calls, res) := extract_or_insert T now ca req1 rendering in
  cache_inv (ghost2_step g req1 rendering) ca' /\ block2_ok g req1 rendering calls res.
Proof.
  intros I. set (k := extract_block_key req1).
  destruct (m_block2 req1) as [b2|] eqn:Hb.
  - destruct (Z.eq_dec (b_num b2) 0) as [Hn|Hn].
    + pose proof (eoi_first T now ca req1 rendering) as E. rewrite Hb in E. specialize (E Hn). cbn zeta in E. fold k in E.
      rewrite E. unfold ghost2_step, is_first, block2_ok. rewrite Hb, Hn. cbn [Z.eqb]. fold k.
      destruct (needs_chunking req1 rendering).
      * split; [|split; reflexivity]. intros k' Rn H. destruct (key_dec k' k) as [->|N].
        -- rewrite kget_setitem_same in H. rewrite gset_same. exact H.
        -- rewrite kget_setitem_other in H by exact N. rewrite gset_other by exact N. exact (I k' Rn H).
      * split; [apply cache_inv_pop; exact I|split; reflexivity].
    + pose proof (eoi_later T now ca req1 b2 rendering Hb Hn) as E. cbn zeta in E. fold k in E.
      unfold ghost2_step, is_first, block2_ok. rewrite Hb. replace (b_num b2 =? 0) with false by lia. fold k.
      destruct (kget k ca) as [Rn|] eqn:Hg.
      * rewrite E. split.
        -- intros k' R' H. destruct (key_dec k' k) as [->|N].
           ++ rewrite kget_setitem_same in H. injection H as <-. exact (I k Rn Hg).
           ++ rewrite kget_setitem_other in H by exact N. rewrite kget_accessed in H. exact (I k' R' H).
        -- split; [reflexivity|]. right. exists Rn. split; [exact (I k Rn Hg)|reflexivity].
      * rewrite E. split; [exact I|]. split; [reflexivity|]. left. reflexivity.
  - pose proof (eoi_first T now ca req1 rendering) as E. rewrite Hb in E. specialize (E Logic.I). cbn zeta in E. fold k in E.
    rewrite E. unfold ghost2_step, is_first, block2_ok. rewrite Hb. fold k.
    destruct (needs_chunking req1 rendering).
    * split; [|split; reflexivity]. intros k' Rn H. destruct (key_dec k' k) as [->|N].
      -- rewrite kget_setitem_same in H. rewrite gset_same. exact H.
      -- rewrite kget_setitem_other in H by exact N. rewrite gset_other by exact N. exact (I k' Rn H).
    * split; [apply cache_inv_pop; exact I|split; reflexivity].
Qed.

(* ------------------------------------------------------------------------------------------
   Resource._render_to_pipe: both stages together *)
Definition render_result (r0 : R resp) (b1 : option blockopt) : resp :=
  match r0 with ROk x => set_block1 x b1 | RRaise e => error_to_message e end.
Definition resp_ok (ga' : gasm) (gr : grend) (req : msg) (rendering : resp) (calls : list msg) (res : resp) : Prop :=
  (exists e, calls = [] /\ res = error_to_message e /\ taken_ok ga' req (RRaise e)) \/
  (exists req1 r0, taken_ok ga' req (ROk req1) /\ block2_ok gr req1 rendering calls r0 /\ res = render_result r0 (m_block1 req1)).
Definition grend_step (T now : Z) (gr : grend) (sp : spool) (req : msg) (rendering : resp) : grend :=
  match feed_and_take T now sp req with
  | (_, ROk req1) => ghost2_step gr req1 rendering
  | (_, RRaise _) => gr
  end.

Definition glatest_stage (T now : Z) (gl : grend) (sp : spool) (req : msg) (rendering : resp) : grend :=
  match feed_and_take T now sp req with
  | (_, ROk req1) => glatest_step gl req1 rendering
  | (_, RRaise _) => gl
  end.
Lemma stored_is_latest_stage T now gr gl sp req rendering : stored_is_latest gr gl ->
  stored_is_latest (grend_step T now gr sp req rendering) (glatest_stage T now gl sp req rendering).
Proof.
  intros H. unfold grend_step, glatest_stage. destruct (feed_and_take T now sp req) as [sp' [req1|e]]; [|exact H].
  apply stored_is_latest_step. exact H.
Qed.

Lemma render_to_pipe_inv T now ga gr s req rendering :
  wf_req req -> spool_inv ga (block1 s) -> cache_inv gr (block2 s) ->
  let '(s', calls, res) := render_to_pipe T now s req rendering in
  spool_inv (ghost1_step ga req) (block1 s') /\
  cache_inv (grend_step T now gr (block1 s) req rendering) (block2 s') /\
  resp_ok (ghost1_step ga req) gr req rendering calls res.
Proof.
  intros Wr I1 I2. unfold render_to_pipe, grend_step.
  pose proof (feed_and_take_inv T now ga (block1 s) req Wr I1) as F.
  destruct (feed_and_take T now (block1 s) req) as [sp [req1|e]]; destruct F as [F1 F2].
  - pose proof (extract_or_insert_inv T now gr (block2 s) req1 rendering I2) as E.
    destruct (extract_or_insert T now (block2 s) req1 rendering) as [[ca calls] [res|e]]; destruct E as [E1 E2]; cbn [block1 block2].
    + split; [exact F1|]. split; [exact E1|]. right. exists req1, (ROk res). split; [exact F2|]. split; [exact E2|reflexivity].
    + split; [exact F1|]. split; [exact E1|]. right. exists req1, (RRaise e). split; [exact F2|]. split; [exact E2|reflexivity].
  - cbn [block1 block2]. split; [exact F1|]. split; [exact I2|]. left. exists e. split; [reflexivity|]. split; [reflexivity|exact F2].
Qed.

(* consequences of [resp_ok] *)
Lemma resp_ok_calls ga' gr req rendering calls res : resp_ok ga' gr req rendering calls res ->
  calls = [] \/ exists req1, calls = [req1] /\ taken_ok ga' req (ROk req1).
Proof.
  intros [(e & Hc & _)|(req1 & r0 & Tk & B & _)]; [left; exact Hc|].
  unfold block2_ok in B. destruct (m_block2 req1) as [b2|].
  - destruct (b_num b2 =? 0); destruct B as [-> _]; [right; exists req1; split; [reflexivity|exact Tk]|left; reflexivity].
  - destruct B as [-> _]. right. exists req1. split; [reflexivity|exact Tk].
Qed.

Lemma extract_block_code R n szx mps x : extract_block R n szx mps = ROk x -> p_code x = p_code R.
Proof.
  rewrite extract_block_spec. cbn zeta. destruct (b2_start szx n >=? blen (p_payload R)); [discriminate|]. intros [= <-]. reflexivity.
Qed.
Lemma extract_block_err R n szx mps e : extract_block R n szx mps = RRaise e -> e = EBadRequest txt_out_of_bounds.
Proof.
  rewrite extract_block_spec. cbn zeta. destruct (b2_start szx n >=? blen (p_payload R)); [|discriminate]. intros [= <-]. reflexivity.
Qed.

(* the server never produces 5.xx by itself: a 5.00 answer is the handler's own rendering *)
Lemma resp_ok_no_5xx ga' gr req rendering calls res : resp_ok ga' gr req rendering calls res ->
  p_code res = INTERNAL_SERVER_ERROR ->
  p_code rendering = INTERNAL_SERVER_ERROR \/ exists k Rn, gr k = Some Rn /\ p_code Rn = INTERNAL_SERVER_ERROR.
Proof.
  intros [(e & _ & Hres & Tk)|(req1 & r0 & Tk & B & Hres)] C; subst res.
  - exfalso. unfold taken_ok in Tk. destruct (m_block1 req) as [b|]; [|contradiction].
    destruct Tk as [[_ ->]|[[_ ->]|(_ & _ & ->)]]; cbn in C; discriminate.
  - assert (Hr0 : (exists R n szx mps, (R = rendering \/ exists k, gr k = Some R) /\ r0 = extract_block R n szx mps) \/ r0 = ROk rendering \/ r0 = RRaise EIncomplete).
    { unfold block2_ok in B. destruct (m_block2 req1) as [b2|].
      - destruct (b_num b2 =? 0).
        + destruct B as [_ ->]. destruct (needs_chunking req1 rendering); [left|right; left; reflexivity].
          exists rendering, 0, (b_szx b2), (m_mps req1). split; [left|]; reflexivity.
        + destruct B as [_ [Hr|(Rn & G & Hr)]]; subst r0; [right; right; reflexivity|left].
          exists Rn, (b_num b2), (b_szx b2), (m_mps req1). split; [right; eauto|reflexivity].
      - destruct B as [_ ->]. destruct (needs_chunking req1 rendering); [left|right; left; reflexivity].
        exists rendering, 0, (m_mbse req1), (m_mps req1). split; [left|]; reflexivity. }
    destruct Hr0 as [(R0 & n & szx & mps & Src & Hr0)|[Hr0|Hr0]]; subst r0.
    + destruct (extract_block R0 n szx mps) as [x|e] eqn:X.
      * cbn in C. apply extract_block_code in X. rewrite X in C. destruct Src as [->|(k & G)]; [left; exact C|right; eauto].
      * apply extract_block_err in X. subst e. cbn in C. discriminate.
    + cbn in C. left. exact C.
    + cbn in C. discriminate.
Qed.

(* ------------------------------------------------------------------------------------------
   the whole server: every event history *)
Record ghost := { g_asm : nat -> gasm; g_rend : nat -> grend; g_latest : nat -> grend }.
Definition ghost_init : ghost := {| g_asm := fun _ _ => None; g_rend := fun _ _ => None; g_latest := fun _ _ => None |}.
Definition fset {A} (f : nat -> A) (i : nat) (v : A) : nat -> A := fun j => if Nat.eqb j i then v else f j.
Definition step_ghost (T : Z) (sv : server) (gh : ghost) (e : event) : ghost :=
  match e with
  | Advance _ => gh
  | Request i req rendering =>
    let s := nth i (resources sv) rstate_empty in
    {| g_asm := fset (g_asm gh) i (ghost1_step (g_asm gh i) req);
       g_rend := fset (g_rend gh) i (grend_step T (now sv) (g_rend gh i) (block1 s) req rendering);
       g_latest := fset (g_latest gh) i (glatest_stage T (now sv) (g_latest gh i) (block1 s) req rendering) |}
  end.
Definition server_inv (gh : ghost) (sv : server) : Prop :=
  forall i, spool_inv (g_asm gh i) (block1 (nth i (resources sv) rstate_empty)) /\
            cache_inv (g_rend gh i) (block2 (nth i (resources sv) rstate_empty)) /\
            gasm_wf (g_asm gh i) /\ stored_is_latest (g_rend gh i) (g_latest gh i).
Definition wf_event (e : event) : Prop := match e with Request _ req _ => wf_req req | Advance _ => True end.
Definition out_ok (T : Z) (sv : server) (gh : ghost) (e : event) (o : output) : Prop :=
  match e, o with
  | Request i req rendering, ORequest calls res _ _ =>
      resp_ok (g_asm (step_ghost T sv gh e) i) (g_rend gh i) req rendering calls res /\ gasm_wf (g_asm (step_ghost T sv gh e) i)
  | Advance _, OAdvance _ => True
  | _, _ => False
  end.
Fixpoint run_ok (T : Z) (sv : server) (gh : ghost) (es : list event) (os : list output) : Prop :=
  match es, os with
  | [], [] => True
  | e :: es', o :: os' => out_ok T sv gh e o /\ run_ok T (fst (step T sv e)) (step_ghost T sv gh e) es' os'
  | _, _ => False
  end.

Lemma nth_set_nth {A} (l : list A) i j x d :
  nth j (set_nth i x l) d = if (Nat.eqb j i && (i <? length l)%nat)%bool then x else nth j l d.
Proof.
  revert l j. induction i as [|i IH]; intros [|y l] j; cbn [set_nth].
  - rewrite andb_false_r. reflexivity.
  - destruct j; reflexivity.
  - rewrite andb_false_r. reflexivity.
  - destruct j as [|j]; [reflexivity|]. cbn [nth length]. rewrite IH. reflexivity.
Qed.
Lemma nth_map_default {A} (f : A -> A) l i d : f d = d -> nth i (map f l) d = f (nth i l d).
Proof. intros H. rewrite <- H at 1. apply map_nth. Qed.
Lemma fset_same {A} (f : nat -> A) i v : fset f i v i = v.
Proof. unfold fset. rewrite Nat.eqb_refl. reflexivity. Qed.
Lemma fset_other {A} (f : nat -> A) i j v : j <> i -> fset f i v j = f j.
Proof. intros N. unfold fset. destruct (Nat.eqb j i) eqn:E; [apply Nat.eqb_eq in E; contradiction|reflexivity]. Qed.

Lemma server_inv_init n : server_inv ghost_init (server_init n).
Proof.
  intros i. cbn.
  assert (E : nth i (repeat rstate_empty n) rstate_empty = rstate_empty).
  { revert i; induction n as [|n IH]; intros [|i]; cbn; auto. }
  rewrite E. split; [apply spool_inv_empty|]. split; [apply cache_inv_empty|]. split; intros k bs H; discriminate.
Qed.

Lemma step_inv T sv gh e : wf_event e -> server_inv gh sv ->
  server_inv (step_ghost T sv gh e) (fst (step T sv e)) /\ out_ok T sv gh e (snd (step T sv e)).
Proof.
  intros We I. destruct e as [i req rendering|dt].
  - cbn [wf_event] in We. destruct (I i) as (I1 & I2 & I3 & I4).
    pose proof (render_to_pipe_inv T (now sv) (g_asm gh i) (g_rend gh i) (nth i (resources sv) rstate_empty) req rendering We I1 I2) as Rp.
    cbn [step]. destruct (render_to_pipe T (now sv) (nth i (resources sv) rstate_empty) req rendering) as [[s' calls] res].
    destruct Rp as (R1 & R2 & R3). cbn [fst snd]. split.
    + intros j. cbn [resources step_ghost g_asm g_rend g_latest]. rewrite nth_set_nth.
      destruct (Nat.eqb j i) eqn:Eji.
      * apply Nat.eqb_eq in Eji; subst j. rewrite !fset_same. cbn [andb].
        destruct (i <? length (resources sv))%nat eqn:Lt.
        -- split; [exact R1|]. split; [exact R2|]. split; [apply ghost1_step_wf; exact I3|apply stored_is_latest_stage; exact I4].
        -- assert (E0 : nth i (resources sv) rstate_empty = rstate_empty) by (apply nth_overflow; apply Nat.ltb_ge; exact Lt).
           rewrite E0. split; [apply spool_inv_empty|]. split; [apply cache_inv_empty|]. split; [apply ghost1_step_wf; exact I3|apply stored_is_latest_stage; exact I4].
      * cbn [andb]. assert (N : j <> i) by (intros ->; rewrite Nat.eqb_refl in Eji; discriminate).
        rewrite !fset_other by exact N. exact (I j).
    + cbn [out_ok step_ghost g_asm]. rewrite fset_same. split; [exact R3|]. apply ghost1_step_wf. exact I3.
  - cbn [step fst snd step_ghost out_ok]. split; [|exact Logic.I]. intros j. cbn [resources].
    rewrite nth_map_default by reflexivity. destruct (I j) as (I1 & I2 & I3 & I4). unfold rstate_advance; cbn [block1 block2].
    split; [apply spool_inv_advance; exact I1|]. split; [apply cache_inv_advance; exact I2|split; [exact I3|exact I4]].
Qed.

Theorem run_refines T es : forall sv gh, Forall wf_event es -> server_inv gh sv -> run_ok T sv gh es (snd (run T sv es)).
Proof.
  induction es as [|e es IH]; intros sv gh F I; [exact Logic.I|].
  inversion F as [|? ? We Fr]; subst. cbn [run].
  destruct (step_inv T sv gh e We I) as [I' O].
  destruct (step T sv e) as [sv1 o] eqn:S. cbn [fst snd] in *.
  specialize (IH sv1 (step_ghost T sv gh e) Fr I').
  destruct (run T sv1 es) as [sv2 os]. cbn [snd] in *. cbn [run_ok]. rewrite S. cbn [fst]. split; assumption.
Qed.

(* ------------------------------------------------------------------------------------------
   reachable states *)
Fixpoint run_ghost (T : Z) (sv : server) (gh : ghost) (es : list event) : ghost :=
  match es with
  | [] => gh
  | e :: r => run_ghost T (fst (step T sv e)) (step_ghost T sv gh e) r
  end.
Lemma run_inv T es : forall sv gh, Forall wf_event es -> server_inv gh sv ->
  server_inv (run_ghost T sv gh es) (fst (run T sv es)).
Proof.
  induction es as [|e es IH]; intros sv gh F I; [exact I|].
  inversion F as [|? ? We Fr]; subst. cbn [run run_ghost].
  destruct (step_inv T sv gh e We I) as [I' _].
  destruct (step T sv e) as [sv1 o] eqn:S. cbn [fst] in *.
  specialize (IH sv1 (step_ghost T sv gh e) Fr I').
  destruct (run T sv1 es) as [sv2 os]. exact IH.
Qed.
Definition reachable (T : Z) (sv : server) (gh : ghost) : Prop :=
  exists n es, Forall wf_event es /\ sv = fst (run T (server_init n) es) /\ gh = run_ghost T (server_init n) ghost_init es.
Lemma reachable_inv T sv gh : reachable T sv gh -> server_inv gh sv.
Proof. intros (n & es & F & -> & ->). apply run_inv; [exact F|apply server_inv_init]. Qed.

(* ------------------------------------------------------------------------------------------
   statements in the form used by Props/C06.v *)
Definition continue_resp (b : blockopt) : resp := {| p_code := CONTINUE; p_block1 := Some b; p_block2 := None; p_payload := [] |}.
Definition incomplete_resp : resp := {| p_code := REQUEST_ENTITY_INCOMPLETE; p_block1 := None; p_block2 := None; p_payload := [] |}.
Definition bad_request_resp (t : list Z) : resp := {| p_code := BAD_REQUEST; p_block1 := None; p_block2 := None; p_payload := t |}.

Lemma handler_sees_complete_bodies_lemma T now ga gr s req rendering :
  wf_req req -> spool_inv ga (block1 s) -> cache_inv gr (block2 s) -> gasm_wf ga ->
  forall c, In c (snd (fst (render_to_pipe T now s req rendering))) ->
  match m_block1 req with
  | None => c = req
  | Some b =>
    b_more b = false /\
    exists bs, ghost1_step ga req (extract_block_key req) = Some bs /\ chain (extract_block_key req) bs /\
               last bs req = req /\ assembled_from c bs
  end.
Proof.
  intros Wr I1 I2 W c Hc.
  pose proof (render_to_pipe_inv T now ga gr s req rendering Wr I1 I2) as Rp.
  destruct (render_to_pipe T now s req rendering) as [[s' calls] res]. destruct Rp as (_ & _ & R3). cbn [fst snd] in Hc.
  destruct (resp_ok_calls _ _ _ _ _ _ R3) as [->|(req1 & -> & Tk)]; [contradiction|].
  destruct Hc as [<-|[]]. unfold taken_ok in Tk. destruct (m_block1 req) as [b|]; [|exact Tk].
  destruct Tk as (Hm & bs & G & A & L & _). split; [exact Hm|]. exists bs. split; [exact G|].
  split; [exact (ghost1_step_wf ga req W _ _ G)|]. split; assumption.
Qed.

Lemma block1_responses_lemma T now ga s req rendering b :
  m_block1 req = Some b -> spool_inv ga (block1 s) ->
  let k := extract_block_key req in
  let '(s', calls, res) := render_to_pipe T now s req rendering in
  (b_more b = true -> b_num b = 0 -> calls = [] /\ res = continue_resp b /\ kget k (block1 s') = Some req) /\
  (b_num b <> 0 -> kget k (block1 s) = None -> calls = [] /\ res = incomplete_resp /\ s' = s) /\
  (forall asm, b_num b <> 0 -> kget k (block1 s) = Some asm ->
     (size_ok b req = false -> calls = [] /\ res = bad_request_resp txt_size_mismatch /\ kget k (block1 s') = Some asm) /\
     (size_ok b req = true -> b_start b <> blen (m_payload asm) -> calls = [] /\ res = incomplete_resp /\ kget k (block1 s') = Some asm) /\
     (size_ok b req = true -> b_start b = blen (m_payload asm) -> b_more b = true ->
        calls = [] /\ res = continue_resp b /\ kget k (block1 s') = Some (appended asm req b))) /\
  (forall k', k' <> k -> kget k' (block1 s') = kget k' (block1 s)).
Proof.
  intros Hb I k. unfold render_to_pipe.
  destruct (Z.eq_dec (b_num b) 0) as [Hn|Hn].
  - pose proof (fat_first T now (block1 s) req b Hb Hn) as E. cbn zeta in E. fold k in E. rewrite E.
    destruct (b_more b) eqn:Hm.
    + cbn [block1]. split; [intros _ _; split; [reflexivity|split; [reflexivity|apply kget_setitem_same]]|].
      split; [intros; contradiction|]. split; [intros; contradiction|].
      intros k' N. apply kget_setitem_other. exact N.
    + destruct (extract_or_insert T now (block2 s) req rendering) as [[ca calls] [res|e]]; cbn [block1];
      (split; [intros; discriminate|]; split; [intros; contradiction|]; split; [intros; contradiction|];
       intros k' N; rewrite kget_pop_other by exact N; apply kget_setitem_other; exact N).
  - destruct (kget k (block1 s)) as [asm|] eqn:Hg.
    + destruct (I k asm Hg) as (bs & _ & _ & _ & Ra).
      destruct (fat_known T now (block1 s) req b asm Hb Hn Hg Ra) as (F1 & F2 & F3). fold k in F1, F2, F3.
      destruct (size_ok b req) eqn:S.
      * destruct (Z.eq_dec (b_start b) (blen (m_payload asm))) as [St|St].
        -- rewrite (F3 eq_refl St). destruct (b_more b) eqn:Hm.
           ++ cbn [block1]. split; [intros; contradiction|]. split; [intros; discriminate|]. split.
              ** intros asm0 _ [= <-]. split; [intros; discriminate|]. split; [intros; contradiction|].
                 intros _ _ _. split; [reflexivity|split; [reflexivity|apply kget_mutate_same]].
              ** intros k' N. rewrite kget_mutate_other by exact N. apply kget_accessed.
           ++ destruct (extract_or_insert T now (block2 s) (appended asm req b) rendering) as [[ca calls] [res|e]]; cbn [block1];
              (split; [intros; discriminate|]; split; [intros; discriminate|]; split;
               [intros asm0 _ [= <-]; split; [intros; discriminate|]; split; [intros; contradiction|]; intros; discriminate|];
               intros k' N; rewrite kget_pop_other, kget_mutate_other by exact N; apply kget_accessed).
        -- rewrite (F2 eq_refl St). cbn [block1]. split; [intros; contradiction|]. split; [intros; discriminate|]. split.
           ++ intros asm0 _ [= <-]. split; [intros; discriminate|]. split; [|intros; contradiction].
              intros _ _. split; [reflexivity|split; [reflexivity|rewrite kget_accessed; exact Hg]].
           ++ intros k' N. apply kget_accessed.
      * rewrite (F1 eq_refl). cbn [block1]. split; [intros; contradiction|]. split; [intros; discriminate|]. split.
        -- intros asm0 _ [= <-]. split; [|split; intros; discriminate].
           intros _. split; [reflexivity|split; [reflexivity|rewrite kget_accessed; exact Hg]].
        -- intros k' N. apply kget_accessed.
    + rewrite (fat_unknown T now (block1 s) req b Hb Hn Hg). cbn [block1].
      split; [intros; contradiction|]. split; [intros _ _; split; [reflexivity|split; [reflexivity|destruct s; reflexivity]]|].
      split; [intros; discriminate|]. intros; reflexivity.
Qed.

Definition slice_resp (Rn : resp) (num szx mps : Z) : resp :=
  {| p_code := p_code Rn; p_block1 := None;
     p_block2 := Some {| b_num := num; b_more := b2_start szx num + b2_size szx mps <? blen (p_payload Rn); b_szx := szx |};
     p_payload := bslice (p_payload Rn) (b2_start szx num) (b2_start szx num + b2_size szx mps) |}.

Lemma block2_exact_slice_lemma T now gr s req rendering b2 :
  m_block1 req = None -> m_block2 req = Some b2 -> b_num b2 <> 0 -> cache_inv gr (block2 s) ->
  let k := extract_block_key req in
  let '(s', calls, res) := render_to_pipe T now s req rendering in
  calls = [] /\ block1 s' = block1 s /\
  match kget k (block2 s) with
  | None => res = incomplete_resp /\ s' = s
  | Some Rn =>
    gr k = Some Rn /\ kget k (block2 s') = Some Rn /\
    res = if b2_start (b_szx b2) (b_num b2) >=? blen (p_payload Rn) then bad_request_resp txt_out_of_bounds
          else slice_resp Rn (b_num b2) (b_szx b2) (m_mps req)
  end.
Proof.
  intros H1 H2 Hn I k. unfold render_to_pipe. rewrite (fat_none T now (block1 s) req H1).
  pose proof (eoi_later T now (block2 s) req b2 rendering H2 Hn) as E. cbn zeta in E. fold k in E.
  destruct (kget k (block2 s)) as [Rn|] eqn:Hg; rewrite E.
  - rewrite extract_block_spec. cbn zeta.
    destruct (b2_start (b_szx b2) (b_num b2) >=? blen (p_payload Rn)); cbn [block1 block2 error_to_message];
    (split; [reflexivity|]; split; [reflexivity|]; split; [exact (I k Rn Hg)|]; split; [apply kget_setitem_same|]).
    + reflexivity.
    + unfold set_block1, slice_resp; cbn. rewrite H1. reflexivity.
  - cbn [block1 block2 error_to_message]. split; [reflexivity|]. split; [reflexivity|]. split; [reflexivity|destruct s; reflexivity].
Qed.

(* a later block is answered 4.08 or from the rendering made for the LATEST rendering request of its key *)
Lemma block2_latest_rendering_lemma T now gr gl s req rendering b2 :
  m_block1 req = None -> m_block2 req = Some b2 -> b_num b2 <> 0 -> cache_inv gr (block2 s) -> stored_is_latest gr gl ->
  let k := extract_block_key req in
  let '(s', calls, res) := render_to_pipe T now s req rendering in
  calls = [] /\
  (res = incomplete_resp \/
   exists Rn, gl k = Some Rn /\
     res = if b2_start (b_szx b2) (b_num b2) >=? blen (p_payload Rn) then bad_request_resp txt_out_of_bounds
           else slice_resp Rn (b_num b2) (b_szx b2) (m_mps req)).
Proof.
  intros H1 H2 Hn I L k.
  pose proof (block2_exact_slice_lemma T now gr s req rendering b2 H1 H2 Hn I) as E. cbn zeta in E. fold k in E.
  destruct (render_to_pipe T now s req rendering) as [[s' calls] res]. destruct E as (Ec & _ & E).
  split; [exact Ec|]. destruct (kget k (block2 s)) as [Rn|].
  - destruct E as (G & _ & Er). right. exists Rn. split; [exact (L k Rn G)|exact Er].
  - destruct E as (Er & _). left. exact Er.
Qed.

Lemma b2_start_0 szx : b2_start szx 0 = 0.
Proof. unfold b2_start. destruct (szx =? 7); lia. Qed.
Lemma block2_first_block_lemma T now s req rendering :
  m_block1 req = None -> match m_block2 req with Some b2 => b_num b2 = 0 | None => True end ->
  let k := extract_block_key req in
  let szx := match m_block2 req with Some b2 => b_szx b2 | None => m_mbse req end in
  let '(s', calls, res) := render_to_pipe T now s req rendering in
  calls = [req] /\
  if needs_chunking req rendering
  then kget k (block2 s') = Some rendering /\
       res = if 0 >=? blen (p_payload rendering) then bad_request_resp txt_out_of_bounds
             else slice_resp rendering 0 szx (m_mps req)
  else res = set_block1 rendering None /\ block2 s' = td_pop key_eqb k (block2 s).
Proof.
  intros H1 H2 k szx. unfold render_to_pipe. rewrite (fat_none T now (block1 s) req H1).
  pose proof (eoi_first T now (block2 s) req rendering H2) as E. cbn zeta in E. fold k szx in E. rewrite E.
  destruct (needs_chunking req rendering).
  - rewrite extract_block_spec. cbn zeta. rewrite b2_start_0.
    destruct (0 >=? blen (p_payload rendering)); cbn [block1 block2 error_to_message];
    (split; [reflexivity|]; split; [apply kget_setitem_same|]).
    + reflexivity.
    + unfold set_block1, slice_resp; cbn [p_code p_block1 p_block2 p_payload]. rewrite H1, b2_start_0. reflexivity.
  - cbn [block1 block2]. rewrite H1. split; [reflexivity|]. split; reflexivity.
Qed.

(* no 5.xx over whole histories *)
Lemma ghost2_step_P (P : resp -> Prop) g req1 rendering :
  (forall k R, g k = Some R -> P R) -> P rendering -> forall k R, ghost2_step g req1 rendering k = Some R -> P R.
Proof.
  intros Hg Hr k R. unfold ghost2_step. destruct (is_first req1); [|apply Hg].
  destruct (key_dec k (extract_block_key req1)) as [->|N]; destruct (needs_chunking req1 rendering).
  - rewrite gset_same; intros [= <-]; exact Hr.
  - rewrite gclr_same; discriminate.
  - rewrite gset_other by exact N; apply Hg.
  - rewrite gclr_other by exact N; apply Hg.
Qed.
Definition rend_codes_ok (gh : ghost) : Prop := forall i k R, g_rend gh i k = Some R -> p_code R <> INTERNAL_SERVER_ERROR.
Definition ev_code_ok (e : event) : Prop := match e with Request _ _ r => p_code r <> INTERNAL_SERVER_ERROR | Advance _ => True end.
Definition out_code_ok (o : output) : Prop := match o with ORequest _ res _ _ => p_code res <> INTERNAL_SERVER_ERROR | OAdvance _ => True end.
Lemma run_no_5xx T es : forall sv gh, Forall wf_event es -> Forall ev_code_ok es -> server_inv gh sv -> rend_codes_ok gh ->
  Forall out_code_ok (snd (run T sv es)).
Proof.
  induction es as [|e es IH]; intros sv gh F C I Rc; [constructor|].
  inversion F as [|? ? We Fr]; subst. inversion C as [|? ? Ce Cr]; subst. cbn [run].
  destruct (step_inv T sv gh e We I) as [I' O].
  assert (Rc' : rend_codes_ok (step_ghost T sv gh e)).
  { destruct e as [i req rendering|dt]; [|exact Rc]. intros j k R. cbn [step_ghost g_rend].
    destruct (Nat.eq_dec j i) as [->|N]; [rewrite fset_same|rewrite fset_other by exact N; apply Rc].
    unfold grend_step. destruct (feed_and_take T (now sv) (block1 (nth i (resources sv) rstate_empty)) req) as [sp [req1|e]]; [|apply Rc].
    apply (ghost2_step_P (fun R => p_code R <> INTERNAL_SERVER_ERROR)); [apply Rc|exact Ce]. }
  destruct (step T sv e) as [sv1 o] eqn:S. cbn [fst snd] in *.
  specialize (IH sv1 (step_ghost T sv gh e) Fr Cr I' Rc').
  destruct (run T sv1 es) as [sv2 os]. cbn [snd] in *. constructor; [|exact IH].
  destruct e as [i req rendering|dt]; destruct o as [calls res n1 n2|sz]; cbn [out_ok] in O; try contradiction; try exact Logic.I.
  cbn [out_code_ok]. intros Hc. destruct O as [O _].
  destruct (resp_ok_no_5xx _ _ _ _ _ _ O Hc) as [H|(k & Rn & G & H)]; [exact (Ce H)|exact (Rc i k Rn G H)].
Qed.

Lemma reachable_stored_is_latest T sv gh : reachable T sv gh ->
  forall i, cache_inv (g_rend gh i) (block2 (nth i (resources sv) rstate_empty)) /\ stored_is_latest (g_rend gh i) (g_latest gh i).
Proof. intros H i. destruct (reachable_inv T sv gh H i) as (_ & I2 & _ & I4). split; assumption. Qed.

(* ------------------------------------------------------------------------------------------ round 5 *)
(* where the code of an answer comes from: the three codes the blockwise layer produces itself, the rendering of this
   request, or a stored rendering *)
Lemma resp_ok_code ga' gr req rendering calls res : resp_ok ga' gr req rendering calls res ->
  In (p_code res) [CONTINUE; BAD_REQUEST; REQUEST_ENTITY_INCOMPLETE] \/ p_code res = p_code rendering \/
  exists k Rn, gr k = Some Rn /\ p_code res = p_code Rn.
Proof.
  intros [(e & _ & Hres & Tk)|(req1 & r0 & Tk & B & Hres)]; subst res.
  - left. unfold taken_ok in Tk. destruct (m_block1 req) as [b|]; [|contradiction].
    destruct Tk as [[_ ->]|[[_ ->]|(_ & _ & ->)]]; cbn; auto.
  - assert (Hr0 : (exists R n szx mps, (R = rendering \/ exists k, gr k = Some R) /\ r0 = extract_block R n szx mps) \/ r0 = ROk rendering \/ r0 = RRaise EIncomplete).
    { unfold block2_ok in B. destruct (m_block2 req1) as [b2|].
      - destruct (b_num b2 =? 0).
        + destruct B as [_ ->]. destruct (needs_chunking req1 rendering); [left|right; left; reflexivity].
          exists rendering, 0, (b_szx b2), (m_mps req1). split; [left|]; reflexivity.
        + destruct B as [_ [Hr|(Rn & G & Hr)]]; subst r0; [right; right; reflexivity|left].
          exists Rn, (b_num b2), (b_szx b2), (m_mps req1). split; [right; eauto|reflexivity].
      - destruct B as [_ ->]. destruct (needs_chunking req1 rendering); [left|right; left; reflexivity].
        exists rendering, 0, (m_mbse req1), (m_mps req1). split; [left|]; reflexivity. }
    destruct Hr0 as [(R0 & n & szx & mps & Src & Hr0)|[Hr0|Hr0]]; subst r0.
    + destruct (extract_block R0 n szx mps) as [x|e] eqn:X.
      * cbn. apply extract_block_code in X. rewrite X. destruct Src as [->|(k & G)]; [right; left; reflexivity|right; right; eauto].
      * apply extract_block_err in X. subst e. left. cbn; auto.
    + right; left. reflexivity.
    + left. cbn; auto.
Qed.

Definition is_5xx (c : Z) : bool := (160 <=? c) && (c <? 192).
Definition rend_class_ok (gh : ghost) : Prop := forall i k R, g_rend gh i k = Some R -> is_5xx (p_code R) = false.
Definition ev_class_ok (e : event) : Prop := match e with Request _ _ r => is_5xx (p_code r) = false | Advance _ => True end.
Definition out_class_ok (o : output) : Prop := match o with ORequest _ res _ _ => is_5xx (p_code res) = false | OAdvance _ => True end.
Lemma run_no_5xx_any T es : forall sv gh, Forall wf_event es -> Forall ev_class_ok es -> server_inv gh sv -> rend_class_ok gh ->
  Forall out_class_ok (snd (run T sv es)).
Proof.
  induction es as [|e es IH]; intros sv gh F C I Rc; [constructor|].
  inversion F as [|? ? We Fr]; subst. inversion C as [|? ? Ce Cr]; subst. cbn [run].
  destruct (step_inv T sv gh e We I) as [I' O].
  assert (Rc' : rend_class_ok (step_ghost T sv gh e)).
  { destruct e as [i req rendering|dt]; [|exact Rc]. intros j k R. cbn [step_ghost g_rend].
    destruct (Nat.eq_dec j i) as [->|N]; [rewrite fset_same|rewrite fset_other by exact N; apply Rc].
    unfold grend_step. destruct (feed_and_take T (now sv) (block1 (nth i (resources sv) rstate_empty)) req) as [sp [req1|e]]; [|apply Rc].
    apply (ghost2_step_P (fun R => is_5xx (p_code R) = false)); [apply Rc|exact Ce]. }
  destruct (step T sv e) as [sv1 o] eqn:S. cbn [fst snd] in *.
  specialize (IH sv1 (step_ghost T sv gh e) Fr Cr I' Rc').
  destruct (run T sv1 es) as [sv2 os]. cbn [snd] in *. constructor; [|exact IH].
  destruct e as [i req rendering|dt]; destruct o as [calls res n1 n2|sz]; cbn [out_ok] in O; try contradiction; try exact Logic.I.
  cbn [out_class_ok]. destruct O as [O _].
  destruct (resp_ok_code _ _ _ _ _ _ O) as [H|[H|(k & Rn & G & H)]].
  - cbn in H. destruct H as [<-|[<-|[<-|[]]]]; reflexivity.
  - rewrite H. exact Ce.
  - rewrite H. exact (Rc i k Rn G).
Qed.

(* a request stopped by the spool (2.31 / 4.00 / 4.08) does not touch the cache and does not reach the handler *)
Lemma spool_error_keeps_cache T now s req rendering sp e :
  feed_and_take T now (block1 s) req = (sp, RRaise e) ->
  render_to_pipe T now s req rendering = ({| block1 := sp; block2 := block2 s |}, [], error_to_message e).
Proof. intros H. unfold render_to_pipe. rewrite H. reflexivity. Qed.

(* the decision tables at history level: every resource of every reachable server *)
Lemma reachable_tables T sv gh : reachable T sv gh -> forall i,
  let s := nth i (resources sv) rstate_empty in
  spool_inv (g_asm gh i) (block1 s) /\ cache_inv (g_rend gh i) (block2 s) /\ gasm_wf (g_asm gh i) /\
  stored_is_latest (g_rend gh i) (g_latest gh i).
Proof. intros R i. exact (reachable_inv T sv gh R i). Qed.

Lemma step_request_eq T sv i req rendering :
  step T sv (Request i req rendering) =
  let '(s', calls, res) := render_to_pipe T (now sv) (nth i (resources sv) rstate_empty) req rendering in
  ({| now := now sv; resources := set_nth i s' (resources sv) |}, ORequest calls res (fst (rsizes s')) (snd (rsizes s'))).
Proof. reflexivity. Qed.

Lemma reachable_block1_table T sv gh i req rendering b : reachable T sv gh -> m_block1 req = Some b ->
  let s := nth i (resources sv) rstate_empty in
  let k := extract_block_key req in
  let '(s', calls, res) := render_to_pipe T (now sv) s req rendering in
  (b_more b = true -> b_num b = 0 -> calls = [] /\ res = continue_resp b /\ kget k (block1 s') = Some req) /\
  (b_num b <> 0 -> kget k (block1 s) = None -> calls = [] /\ res = incomplete_resp /\ s' = s) /\
  (forall asm, b_num b <> 0 -> kget k (block1 s) = Some asm ->
     (size_ok b req = false -> calls = [] /\ res = bad_request_resp txt_size_mismatch /\ kget k (block1 s') = Some asm) /\
     (size_ok b req = true -> b_start b <> blen (m_payload asm) -> calls = [] /\ res = incomplete_resp /\ kget k (block1 s') = Some asm) /\
     (size_ok b req = true -> b_start b = blen (m_payload asm) -> b_more b = true ->
        calls = [] /\ res = continue_resp b /\ kget k (block1 s') = Some (appended asm req b))) /\
  (forall k', k' <> k -> kget k' (block1 s') = kget k' (block1 s)).
Proof.
  intros R Hb. destruct (reachable_inv T sv gh R i) as (I1 & _).
  exact (block1_responses_lemma T (now sv) (g_asm gh i) _ req rendering b Hb I1).
Qed.

Lemma reachable_block2_table T sv gh i req rendering b2 : reachable T sv gh ->
  m_block1 req = None -> m_block2 req = Some b2 -> b_num b2 <> 0 ->
  let s := nth i (resources sv) rstate_empty in
  let k := extract_block_key req in
  let '(s', calls, res) := render_to_pipe T (now sv) s req rendering in
  calls = [] /\
  (res = incomplete_resp \/
   exists Rn, g_latest gh i k = Some Rn /\
     res = if b2_start (b_szx b2) (b_num b2) >=? blen (p_payload Rn) then bad_request_resp txt_out_of_bounds
           else slice_resp Rn (b_num b2) (b_szx b2) (m_mps req)).
Proof.
  intros R H1 H2 Hn. destruct (reachable_inv T sv gh R i) as (_ & I2 & _ & I4).
  exact (block2_latest_rendering_lemma T (now sv) (g_rend gh i) (g_latest gh i) _ req rendering b2 H1 H2 Hn I2 I4).
Qed.

Lemma reachable_handler_bodies T sv gh i req rendering : reachable T sv gh -> wf_req req ->
  forall c, In c (snd (fst (render_to_pipe T (now sv) (nth i (resources sv) rstate_empty) req rendering))) ->
  match m_block1 req with
  | None => c = req
  | Some b =>
    b_more b = false /\
    exists bs, ghost1_step (g_asm gh i) req (extract_block_key req) = Some bs /\ chain (extract_block_key req) bs /\
               last bs req = req /\ assembled_from c bs
  end.
Proof.
  intros R Wr. destruct (reachable_inv T sv gh R i) as (I1 & I2 & I3 & _).
  exact (handler_sees_complete_bodies_lemma T (now sv) (g_asm gh i) (g_rend gh i) _ req rendering Wr I1 I2 I3).
Qed.

(* the schedule model with a handler that returns at once is the atomic model: [SBegin] directly followed by its
   [SFinish] is the [Request] step (requests without Block1 that make the handler render): the builder is still the
   latest one of its key when it returns *)
Lemma eoi_late_true T now ca req rendering : match m_block2 req with Some b2 => b_num b2 = 0 | None => True end ->
  extract_or_insert T now ca req rendering =
  let '(ca', r) := extract_or_insert_late T now ca req rendering true in (ca', [req], r).
Proof.
  intros Hb. rewrite (eoi_first T now ca req rendering Hb). cbn zeta. unfold extract_or_insert_late, needs_chunking.
  destruct (m_block2 req) as [b2|].
  - rewrite Hb. destruct ((blen (p_payload rendering) >? m_mps req) || ((blen (p_payload rendering) >? b_size b2) || negb (0 =? 0))); reflexivity.
  - destruct ((blen (p_payload rendering) >? m_mps req) || false); reflexivity.
Qed.
Lemma atomic_schedule_is_request T st id req rendering : m_block1 req = None -> is_first req = true ->
  let '(st1, o1) := sstep T st (SBegin id req) in
  let '(st2, o2) := sstep T st1 (SFinish id rendering) in
  let '(s', calls, res) := render_to_pipe T (s_now st) (s_res st) req rendering in
  o1 = SOBegin calls /\ o2 = SOFinish (Some res) (snd (rsizes s')) /\ s_res st2 = s' /\ s_now st2 = s_now st.
Proof.
  intros H1 Hf. cbn [sstep]. cbn [s_pending pending_get s_now s_res s_latest]. rewrite Z.eqb_refl.
  rewrite (alist_get_set_same key_eqb key_eqb_eq), Z.eqb_refl.
  assert (Hb : match m_block2 req with Some b2 => b_num b2 = 0 | None => True end).
  { unfold is_first in Hf. destruct (m_block2 req) as [b2|]; [lia|trivial]. }
  unfold render_to_pipe. rewrite (fat_none T (s_now st) (block1 (s_res st)) req H1).
  rewrite (eoi_late_true T (s_now st) (block2 (s_res st)) req rendering Hb).
  destruct (extract_or_insert_late T (s_now st) (block2 (s_res st)) req rendering true) as [ca r].
  destruct r as [x|e]; cbn [render_result_of s_res s_now]; repeat split; rewrite ?H1; reflexivity.
Qed.

(* ------------------------------------------------------------------------------------------
   overlapping renderings (schedule model): the stored rendering of a key is the one returned by the handler of the
   LATEST begun rendering request of that key *)
Record sghost := { sg_latest : key -> option Z;            (* id of the latest begun rendering request of the key *)
                   sg_fin : key -> option (Z * resp) }.    (* (id, rendering) once that request's handler has returned and the rendering was stored *)
Definition sghost_init : sghost := {| sg_latest := fun _ => None; sg_fin := fun _ => None |}.
Definition marker (st : sstate) (k : key) : option Z := alist_get key_eqb k (s_latest st).
Definition sghost_step (st : sstate) (g : sghost) (e : sevent) : sghost :=
  match e with
  | SBegin id req =>
    let k := extract_block_key req in {| sg_latest := gset (sg_latest g) k id; sg_fin := gclr (sg_fin g) k |}
  | SFinish id rendering =>
    match pending_get id (s_pending st) with
    | None => g
    | Some req =>
      let k := extract_block_key req in
      if match marker st k with Some i => i =? id | None => false end
      then {| sg_latest := sg_latest g;
              sg_fin := if needs_chunking req rendering then gset (sg_fin g) k (id, rendering) else gclr (sg_fin g) k |}
      else g
    end
  | SLater _ => g
  | SAdvance _ => g
  end.
Definition wf_sevent (e : sevent) : Prop :=
  match e with
  | SLater req => m_block1 req = None /\ exists b2, m_block2 req = Some b2 /\ b_num b2 <> 0
  | _ => True
  end.
Definition sinv (st : sstate) (g : sghost) : Prop :=
  (forall k i, marker st k = Some i -> sg_latest g k = Some i) /\
  (forall k R, marker st k = None -> kget k (block2 (s_res st)) = Some R -> exists i, sg_fin g k = Some (i, R)) /\
  (forall k i R, sg_fin g k = Some (i, R) -> sg_latest g k = Some i).

Lemma sinv_init : sinv sstate_init sghost_init.
Proof. split; [|split]; intros; discriminate. Qed.

Definition chunk_late (req : msg) (r : resp) : bool :=
  (blen (p_payload r) >? m_mps req)
  || match m_block2 req with Some b2 => (blen (p_payload r) >? b_size b2) || negb (b_num b2 =? 0) | None => false end.
Lemma chunk_late_is_needs_chunking req r : chunk_late req r = needs_chunking req r.
Proof. reflexivity. Qed.
Lemma eoi_late_cache T now ca req rendering is_latest :
  fst (extract_or_insert_late T now ca req rendering is_latest) =
    if is_latest then (if needs_chunking req rendering then td_setitem key_eqb T now (extract_block_key req) rendering ca
                       else td_pop key_eqb (extract_block_key req) ca)
    else ca.
Proof.
  unfold extract_or_insert_late. fold (chunk_late req rendering). rewrite chunk_late_is_needs_chunking.
  destruct (needs_chunking req rendering), is_latest; reflexivity.
Qed.

Lemma sstep_inv T st g e : wf_sevent e -> sinv st g -> sinv (fst (sstep T st e)) (sghost_step st g e).
Proof.
  intros We (M & C & F). destruct e as [id req|id rendering|req|dt].
  - (* a rendering request arrives: it becomes the latest builder of its key *)
    cbn [sstep fst sghost_step]. set (k0 := extract_block_key req). unfold sinv, marker; cbn [s_latest s_res sg_latest sg_fin].
    split; [|split].
    + intros k i. destruct (key_dec k k0) as [->|N].
      * rewrite (alist_get_set_same key_eqb key_eqb_eq), gset_same. auto.
      * rewrite (alist_get_set_other key_eqb key_eqb_eq) by exact N. rewrite gset_other by exact N. apply M.
    + intros k R. destruct (key_dec k k0) as [->|N].
      * rewrite (alist_get_set_same key_eqb key_eqb_eq). discriminate.
      * rewrite (alist_get_set_other key_eqb key_eqb_eq) by exact N. rewrite gclr_other by exact N. apply C.
    + intros k i R. destruct (key_dec k k0) as [->|N].
      * rewrite gclr_same. discriminate.
      * rewrite gclr_other, gset_other by exact N. apply F.
  - (* a handler returns *)
    cbn [sstep sghost_step]. destruct (pending_get id (s_pending st)) as [req|]; [|cbn [fst]; split; [exact M|split; [exact C|exact F]]].
    set (k0 := extract_block_key req). fold (marker st k0).
    pose proof (eoi_late_cache T (s_now st) (block2 (s_res st)) req rendering
                  (match marker st k0 with Some i => i =? id | None => false end)) as Ec. fold k0 in Ec.
    destruct (extract_or_insert_late T (s_now st) (block2 (s_res st)) req rendering
                (match marker st k0 with Some i => i =? id | None => false end)) as [ca r]. cbn [fst] in Ec. subst ca. cbn [fst].
    destruct (match marker st k0 with Some i => i =? id | None => false end) eqn:L.
    + assert (Mk : marker st k0 = Some id).
      { destruct (marker st k0) as [i|]; [|discriminate]. apply Z.eqb_eq in L. congruence. }
      unfold sinv, marker; cbn [s_latest s_res block2 sg_latest sg_fin]. split; [|split].
      * intros k i. rewrite (alist_get_remove key_eqb key_eqb_eq). destruct (key_eqb k k0); [discriminate|apply M].
      * intros k R. rewrite (alist_get_remove key_eqb key_eqb_eq). destruct (key_dec k k0) as [->|N].
        -- intros _. destruct (needs_chunking req rendering).
           ++ rewrite kget_setitem_same, gset_same. intros [= <-]. eauto.
           ++ rewrite kget_pop_same. discriminate.
        -- rewrite key_eqb_neq by exact N. intros Mn. destruct (needs_chunking req rendering).
           ++ rewrite kget_setitem_other by exact N. rewrite gset_other by exact N. exact (C k R Mn).
           ++ rewrite kget_pop_other by exact N. rewrite gclr_other by exact N. exact (C k R Mn).
      * intros k i R. destruct (key_dec k k0) as [->|N].
        -- destruct (needs_chunking req rendering); [rewrite gset_same; intros [= <- _]; exact (M k0 id Mk)|rewrite gclr_same; discriminate].
        -- destruct (needs_chunking req rendering); [rewrite gset_other by exact N|rewrite gclr_other by exact N]; apply F.
    + unfold sinv, marker; cbn [s_latest s_res block2]. split; [exact M|split; [exact C|exact F]].
  - (* a later block: the cache keeps what it holds *)
    cbn [wf_sevent] in We. destruct We as (H1 & b2 & H2 & Hn). cbn [sstep sghost_step].
    set (dummy := {| p_code := 0; p_block1 := None; p_block2 := None; p_payload := [] |}).
    assert (Hc : forall k R, kget k (block2 (fst (fst (render_to_pipe T (s_now st) (s_res st) req dummy)))) = Some R -> kget k (block2 (s_res st)) = Some R).
    { unfold render_to_pipe. rewrite (fat_none T (s_now st) (block1 (s_res st)) req H1).
      pose proof (eoi_later T (s_now st) (block2 (s_res st)) req b2 dummy H2 Hn) as E. cbn zeta in E.
      destruct (kget (extract_block_key req) (block2 (s_res st))) as [Rn|] eqn:Hg; rewrite E.
      - destruct (extract_block Rn (b_num b2) (b_szx b2) (m_mps req)); cbn [fst block2]; intros k R;
        (destruct (key_dec k (extract_block_key req)) as [->|N];
         [rewrite kget_setitem_same; congruence|rewrite kget_setitem_other by exact N; rewrite kget_accessed; auto]).
      - cbn [fst block2 error_to_message]. auto. }
    destruct (render_to_pipe T (s_now st) (s_res st) req dummy) as [[s' calls] res]. cbn [fst] in *.
    unfold sinv, marker; cbn [s_latest s_res]. split; [exact M|split; [|exact F]].
    intros k R Mn H. exact (C k R Mn (Hc k R H)).
  - cbn [sstep fst sghost_step]. unfold sinv, marker; cbn [s_latest s_res]. split; [exact M|split; [|exact F]].
    intros k R Mn H. unfold rstate_advance in H; cbn [block2] in H. apply kget_advance in H. exact (C k R Mn H).
Qed.

Fixpoint srun_state (T : Z) (st : sstate) (g : sghost) (es : list sevent) : sstate * sghost :=
  match es with
  | [] => (st, g)
  | e :: r => srun_state T (fst (sstep T st e)) (sghost_step st g e) r
  end.
Lemma srun_state_inv T es : forall st g, Forall wf_sevent es -> sinv st g ->
  sinv (fst (srun_state T st g es)) (snd (srun_state T st g es)).
Proof.
  induction es as [|e es IH]; intros st g F I; [exact I|].
  inversion F as [|? ? We Fr]; subst. cbn [srun_state]. apply IH; [exact Fr|]. apply sstep_inv; assumption.
Qed.

(* the answer to a later block while no builder of its key is pending as the latest one *)
Lemma schedule_later_block_lemma T st g req b2 : sinv st g ->
  m_block1 req = None -> m_block2 req = Some b2 -> b_num b2 <> 0 -> marker st (extract_block_key req) = None ->
  match snd (sstep T st (SLater req)) with
  | SOLater calls res _ =>
    calls = [] /\
    (res = incomplete_resp \/
     exists i Rn, sg_fin g (extract_block_key req) = Some (i, Rn) /\ sg_latest g (extract_block_key req) = Some i /\
       res = if b2_start (b_szx b2) (b_num b2) >=? blen (p_payload Rn) then bad_request_resp txt_out_of_bounds
             else slice_resp Rn (b_num b2) (b_szx b2) (m_mps req))
  | _ => False
  end.
Proof.
  intros (M & C & F) H1 H2 Hn Mn. cbn [sstep].
  set (dummy := {| p_code := 0; p_block1 := None; p_block2 := None; p_payload := [] |}).
  pose proof (block2_exact_slice_lemma T (s_now st) (fun k => kget k (block2 (s_res st))) (s_res st) req dummy b2 H1 H2 Hn
                (fun k R H => H)) as E. cbn zeta in E.
  destruct (render_to_pipe T (s_now st) (s_res st) req dummy) as [[s' calls] res]. cbn [snd].
  destruct E as (Ec & _ & E). split; [exact Ec|].
  destruct (kget (extract_block_key req) (block2 (s_res st))) as [Rn|] eqn:Hg.
  - destruct E as (_ & _ & Er). right. destruct (C _ Rn Mn Hg) as (i & Fi). exists i, Rn.
    split; [exact Fi|]. split; [exact (F _ i Rn Fi)|exact Er].
  - destruct E as (Er & _). left. exact Er.
Qed.
