(* C12, round 5: histories that interleave requests and responses (response-initialised window),
   the can_reuse_nonce flag, and non-interference of forgeries over whole histories. *)
From Verif Require Import Lib.Py Lib.Tactics Gen.oscore_replay Model.C12 Proofs.C12.
Open Scope Z_scope.

Lemma can_reuse_nonce_spec c r : CtxInv c -> 0 <= seqno r ->
  can_reuse_nonce c r = match window c with Some w => negb (seen w (seqno r)) | None => false end.
Proof.
  intros (Hs & Hw) Hn. unfold can_reuse_nonce. destruct (window c) as [w|]; [|reflexivity].
  destruct Hw as (HIw & _). rewrite (is_valid_spec w _ HIw Hn). reflexivity.
Qed.

Lemma unprotect_response_inv c own auth : CtxInv c -> pwf (PResp own auth) ->
  let '(c', ok) := unprotect_response c own auth in
  CtxInv c' /\ size c' = size c /\ echo_recovery c' = echo_recovery c /\
  (forall m, cseen c m -> cseen c' m) /\ ok = auth /\ (auth = false -> c' = c).
Proof.
  intros (Hs & Hw) Hwf. unfold unprotect_response.
  assert (HI : CtxInv c) by exact (conj Hs Hw).
  destruct auth; cbn [negb]; [|repeat split; auto; try discriminate; apply HI].
  destruct (window c) as [w|] eqn:Ew; [split; [exact HI|repeat split; auto; try discriminate]|].
  destruct (echo_recovery c) as [e|] eqn:Ee; [|split; [exact HI|repeat split; auto; try discriminate]].
  destruct own as [n|]; [|split; [exact HI|repeat split; auto; try discriminate]].
  cbn in Hwf. split.
  { unfold CtxInv; cbn [size window]. split; [exact Hs|]. split; [apply fresh_inv; lia|reflexivity]. }
  split; [reflexivity|]. split; [cbn [echo_recovery]; congruence|]. split.
  { intros m Hm. unfold cseen in Hm. rewrite Ew in Hm. contradiction. }
  split; [reflexivity|discriminate].
Qed.

(* one step of a mixed history *)
Lemma pstep_inv c m : CtxInv c -> pwf m ->
  let '(c', o) := pstep c m in
  CtxInv c' /\ size c' = size c /\ echo_recovery c' = echo_recovery c /\
  (forall k, cseen c k -> cseen c' k) /\
  (pauth m = false -> c' = c) /\
  (forall r b, m = PReq r -> o = OReq Accept b -> ~ cseen c (seqno r) /\ cseen c' (seqno r)) /\
  (forall r o', m = PReq r -> o = OReq o' true ->
      o' = Accept /\ exists w, window c = Some w /\ seen w (seqno r) = false).
Proof.
  intros HI Hwf. destruct m as [r|own auth]; cbn [pstep pauth].
  - cbn in Hwf. pose proof (unprotect_step c r HI Hwf) as Hst.
    pose proof (can_reuse_nonce_spec c r HI Hwf) as Hcr.
    destruct (unprotect_request c r) as [c' o] eqn:Eu.
    destruct Hst as (HI' & Hsz & Hech & Hmono & Hacc & Hforg & _).
    split; [exact HI'|]. split; [exact Hsz|]. split; [exact Hech|]. split; [exact Hmono|].
    split; [intros Ha; exact (proj1 (Hforg Ha))|]. split.
    + intros r0 b Hr Ho. inversion Hr; subst r0. inversion Ho; subst o.
      destruct (Hacc eq_refl) as (_ & Hns & Hs' & _). auto.
    + intros r0 o' Hr Ho. inversion Hr; subst r0. inversion Ho as [[Ho' Hb]]. subst o'.
      apply andb_prop in Hb. destruct Hb as [Hh Hc]. rewrite Hcr in Hc.
      destruct (window c) as [w|] eqn:Ew; [|discriminate].
      assert (Hns : seen w (seqno r) = false) by (destruct (seen w (seqno r)); [discriminate|reflexivity]).
      split; [|eexists; split; [reflexivity|exact Hns]].
      (* with an initialised window, RejectEcho is impossible *)
      rewrite (unprotect_eq c r HI Hwf) in Eu. unfold unprotect_spec in Eu. rewrite Ew, Hns in Eu.
      destruct (authentic r); inversion Eu; subst; [reflexivity|discriminate].
  - pose proof (unprotect_response_inv c own auth HI Hwf) as Hst.
    destruct (unprotect_response c own auth) as [c' ok].
    destruct Hst as (HI' & Hsz & Hech & Hmono & _ & Hforg).
    split; [exact HI'|]. split; [exact Hsz|]. split; [exact Hech|]. split; [exact Hmono|].
    split; [exact Hforg|]. split; intros; discriminate.
Qed.

Theorem pstep_invariant c m : CtxInv c -> pwf m ->
  CtxInv (fst (pstep c m)) /\ size (fst (pstep c m)) = size c /\
  echo_recovery (fst (pstep c m)) = echo_recovery c /\
  (forall k, cseen c k -> cseen (fst (pstep c m)) k).
Proof. intros HI Hwf. pose proof (pstep_inv c m HI Hwf) as H. destruct (pstep c m) as [c' o].
  cbn [fst]. tauto. Qed.

Lemma prun_inv ms : forall c, CtxInv c -> Forall pwf ms ->
  CtxInv (fst (prun c ms)) /\ (forall k, cseen c k -> cseen (fst (prun c ms)) k).
Proof.
  induction ms as [|m ms IH]; intros c HI Hwf; cbn [prun]; [cbn; auto|].
  inversion Hwf as [|? ? Hm Hms]; subst.
  pose proof (pstep_inv c m HI Hm) as Hst. destruct (pstep c m) as [c1 o].
  destruct Hst as (HI1 & _ & _ & Hmono & _).
  specialize (IH c1 HI1 Hms). destruct (prun c1 ms) as [c2 os]. cbn [fst] in *.
  destruct IH as [IHa IHb]. split; [exact IHa|]. intros k Hk. apply IHb, Hmono, Hk.
Qed.

(* ---------- at most once, over histories with responses in between ---------- *)
Lemma pseen_never_accepted ms : forall c n, CtxInv c -> Forall pwf ms ->
  cseen c n -> paccepted_count n ms (snd (prun c ms)) = 0%nat.
Proof.
  induction ms as [|m ms IH]; intros c n HI Hwf Hseen; cbn [prun]; [reflexivity|].
  inversion Hwf as [|? ? Hm Hms]; subst.
  pose proof (pstep_inv c m HI Hm) as Hst. destruct (pstep c m) as [c1 o].
  destruct Hst as (HI1 & _ & _ & Hmono & _ & Hacc & _).
  specialize (IH c1 n HI1 Hms (Hmono n Hseen)).
  destruct (prun c1 ms) as [c2 os]. cbn [snd paccepted_count] in *. rewrite IH.
  destruct m as [r|]; [|reflexivity]. destruct o as [o b|]; [|reflexivity].
  destruct o; try reflexivity.
  destruct (seqno r =? n) eqn:E; [|reflexivity]. apply Z.eqb_eq in E. subst n.
  destruct (Hacc r b eq_refl eq_refl) as [Hns _]. contradiction.
Qed.

Theorem paccept_at_most_once ms : forall c n, CtxInv c -> Forall pwf ms ->
  (paccepted_count n ms (snd (prun c ms)) <= 1)%nat.
Proof.
  induction ms as [|m ms IH]; intros c n HI Hwf; cbn [prun]; [cbn; lia|].
  inversion Hwf as [|? ? Hm Hms]; subst.
  pose proof (pstep_inv c m HI Hm) as Hst. destruct (pstep c m) as [c1 o].
  destruct Hst as (HI1 & _ & _ & Hmono & _ & Hacc & _).
  pose proof (IH c1 n HI1 Hms) as IH1.
  pose proof (pseen_never_accepted ms c1 n HI1 Hms) as Hz.
  destruct (prun c1 ms) as [c2 os]. cbn [snd paccepted_count] in *.
  destruct m as [r|]; [|lia]. destruct o as [o b|]; [|lia]. destruct o; try lia.
  destruct (seqno r =? n) eqn:E; [|lia]. apply Z.eqb_eq in E. subst n.
  destruct (Hacc r b eq_refl eq_refl) as [_ Hs1]. rewrite (Hz Hs1). lia.
Qed.

(* a reusable nonce is handed on only together with an acceptance: count by count *)
Lemma preuse_le_accepted ms : forall c n, CtxInv c -> Forall pwf ms ->
  (preuse_count n ms (snd (prun c ms)) <= paccepted_count n ms (snd (prun c ms)))%nat.
Proof.
  induction ms as [|m ms IH]; intros c n HI Hwf; cbn [prun]; [cbn; lia|].
  inversion Hwf as [|? ? Hm Hms]; subst.
  pose proof (pstep_inv c m HI Hm) as Hst. destruct (pstep c m) as [c1 o].
  destruct Hst as (HI1 & _ & _ & _ & _ & _ & Hre).
  specialize (IH c1 n HI1 Hms).
  destruct (prun c1 ms) as [c2 os]. cbn [snd paccepted_count preuse_count] in *.
  destruct m as [r|]; [|lia]. destruct o as [o b|]; [|lia].
  destruct b.
  - destruct (Hre r o eq_refl eq_refl) as [-> _]. lia.
  - destruct o; destruct (seqno r =? n); lia.
Qed.
Theorem preuse_at_most_once ms c n : CtxInv c -> Forall pwf ms ->
  (preuse_count n ms (snd (prun c ms)) <= 1)%nat.
Proof. intros HI Hwf. pose proof (preuse_le_accepted ms c n HI Hwf).
  pose proof (paccept_at_most_once ms c n HI Hwf). lia. Qed.

(* the flag is set exactly for requests whose number passed the replay check before decryption;
   in particular never for an Echo-recovered request and never with ReplayErrorWithEcho *)
Theorem reuse_only_when_fresh c r o : CtxInv c -> 0 <= seqno r ->
  snd (pstep c (PReq r)) = OReq o true ->
  o = Accept /\ authentic r = true /\ exists w, window c = Some w /\ seen w (seqno r) = false.
Proof.
  intros HI Hn Ho. pose proof (pstep_inv c (PReq r) HI Hn) as Hst.
  pose proof (unprotect_step c r HI Hn) as Hu.
  cbn [pstep] in *. destruct (unprotect_request c r) as [c' o0]. cbn [snd] in Ho.
  destruct Hst as (_ & _ & _ & _ & _ & _ & Hre).
  destruct (Hre r o eq_refl Ho) as [-> Hw]. split; [reflexivity|]. split; [|exact Hw].
  injection Ho as Ho1 _. subst o0. destruct Hu as (_ & _ & _ & _ & Hacc & _). exact (proj1 (Hacc eq_refl)).
Qed.
Theorem accept_fresh_has_reuse c w r : CtxInv c -> window c = Some w -> 0 <= seqno r -> authentic r = true ->
  seen w (seqno r) = false -> snd (pstep c (PReq r)) = OReq Accept true.
Proof.
  intros HI Ew Hn Ha Hns. cbn [pstep].
  pose proof (accept_unseen_lemma c w r HI Ew Hn Ha Hns) as Hacc.
  rewrite (can_reuse_nonce_spec c r HI Hn), Ew, Hns.
  destruct (unprotect_request c r) as [c' o]. cbn [snd] in *. subst o. reflexivity.
Qed.

(* ---------- response-initialised window ---------- *)
Theorem response_init_is_freshlyseen c n : CtxInv c -> window c = None -> echo_recovery c <> None -> 0 <= n ->
  exists w, window (fst (unprotect_response c (Some n) true)) = Some w /\ forall m, seen w m = (m <=? n).
Proof.
  intros HI Ew He Hn. unfold unprotect_response. cbn [negb]. rewrite Ew.
  destruct (echo_recovery c) as [e|]; [|congruence]. cbn [fst window].
  eexists. split; [reflexivity|]. intros m. apply fresh_seen.
Qed.
Theorem response_never_touches_initialised c own auth w : window c = Some w ->
  fst (unprotect_response c own auth) = c.
Proof. intros Ew. unfold unprotect_response. destruct auth; cbn [negb]; [|reflexivity]. rewrite Ew. reflexivity. Qed.

(* while uninitialised nothing is accepted until either the Echo value comes back or an authentic
   response with the peer's own Partial IV (AEAD-bound to a request of this process) arrives *)
Definition no_recovery (c : ctx) (m : pmsg) : Prop :=
  match m with
  | PReq r => 0 <= seqno r /\ echo r <> echo_recovery c
  | PResp (Some n) a => a = false /\ 0 <= n
  | PResp None _ => True
  end.
Theorem uninitialised_until_echo_or_bound_response ms : forall c, CtxInv c -> window c = None ->
  Forall (no_recovery c) ms ->
  Forall (fun o => match o with OReq Accept _ => False | OReq _ true => False | _ => True end) (snd (prun c ms))
  /\ window (fst (prun c ms)) = None.
Proof.
  induction ms as [|m ms IH]; intros c HI Ew Hall; cbn [prun]; [cbn; auto|].
  inversion Hall as [|? ? Hm Hms]; subst.
  assert (Hwf : pwf m).
  { destruct m as [r|[n|] a]; unfold no_recovery, pwf in *; tauto. }
  pose proof (pstep_inv c m HI Hwf) as Hst.
  assert (Hstep : window (fst (pstep c m)) = None /\
                  match snd (pstep c m) with OReq Accept _ => False | OReq _ true => False | _ => True end).
  { destruct m as [r|own a]; cbn [pstep].
    - destruct Hm as [Hr Hecho].
      pose proof (uninitialised_never_accepts_without_echo [r] c HI Ew) as Hu.
      cbn [run] in Hu. unfold can_reuse_nonce. rewrite Ew.
      destruct (unprotect_request c r) as [c1 o]. rewrite andb_false_r. cbn [fst snd] in *.
      destruct Hu as [Hu1 Hu2]. { constructor; [split; assumption|constructor]. }
      inversion Hu1; subst. split; [exact Hu2|]. destruct o; auto.
    - unfold unprotect_response. destruct a; cbn [negb fst snd]; [|auto].
      rewrite Ew. destruct (echo_recovery c); [|cbn; auto].
      destruct own; [destruct Hm; discriminate|cbn; auto]. }
  destruct (pstep c m) as [c1 o]. destruct Hst as (HI1 & _ & Hech & _).
  cbn [fst snd] in Hstep. destruct Hstep as [Hw1 Ho].
  assert (Hms' : Forall (no_recovery c1) ms).
  { eapply Forall_impl; [|exact Hms]. intros x. unfold no_recovery. rewrite Hech. auto. }
  specialize (IH c1 HI1 Hw1 Hms'). destruct (prun c1 ms) as [c2 os]. cbn [fst snd] in *.
  destruct IH as [IHa IHb]. split; [constructor; assumption|exact IHb].
Qed.

(* ---------- forgeries do not interfere, over whole histories ---------- *)
Lemma pstep_forged c m : CtxInv c -> pwf m -> pauth m = false -> fst (pstep c m) = c.
Proof. intros HI Hwf Ha. pose proof (pstep_inv c m HI Hwf) as H. destruct (pstep c m) as [c' o].
  cbn [fst]. destruct H as (_ & _ & _ & _ & Hf & _). exact (Hf Ha). Qed.

Theorem forgeries_do_not_interfere ms : forall c, CtxInv c -> Forall pwf ms ->
  fst (prun c ms) = fst (prun c (filter pauth ms)) /\
  map snd (filter (fun mo => pauth (fst mo)) (combine ms (snd (prun c ms)))) = snd (prun c (filter pauth ms)).
Proof.
  induction ms as [|m ms IH]; intros c HI Hwf; cbn [prun filter]; [cbn; auto|].
  inversion Hwf as [|? ? Hm Hms]; subst.
  pose proof (pstep_inv c m HI Hm) as Hst.
  destruct (pauth m) eqn:Ea.
  - cbn [prun]. destruct (pstep c m) as [c1 o]. destruct Hst as (HI1 & _).
    specialize (IH c1 HI1 Hms). destruct (prun c1 ms) as [c2 os].
    destruct (prun c1 (filter pauth ms)) as [c3 os3]. cbn [fst snd combine filter] in *. rewrite Ea.
    cbn [map snd]. destruct IH as [-> ->]. auto.
  - pose proof (pstep_forged c m HI Hm Ea) as Hc.
    destruct (pstep c m) as [c1 o]. cbn [fst] in Hc. subst c1.
    specialize (IH c HI Hms). destruct (prun c ms) as [c2 os]. cbn [fst snd combine filter] in *. rewrite Ea.
    exact IH.
Qed.

(* request-only corollary in the terms of Model.C12.run *)
Lemma prun_requests rs : forall c,
  fst (prun c (map PReq rs)) = fst (run c rs) /\
  map (fun o => match o with OReq x _ => x | OResp _ => RejectInvalid end) (snd (prun c (map PReq rs))) = snd (run c rs).
Proof.
  induction rs as [|r rs IH]; intros c; cbn [map prun run pstep]; [auto|].
  destruct (unprotect_request c r) as [c1 o]. specialize (IH c1).
  destruct (prun c1 (map PReq rs)) as [c2 os]. destruct (run c1 rs) as [c3 os3]. cbn [fst snd map] in *.
  destruct IH as [-> ->]. auto.
Qed.
