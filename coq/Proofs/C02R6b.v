(* C02 — proofs. Part 9 (round 6): an observation the application has cancelled gets no further notification. *)
From Verif Require Import Lib.Py Lib.PyLemmas Lib.Tactics Gen.tokenmanager_next_token Model.C02 Proofs.C02 Proofs.C02Once Proofs.C02Origin Proofs.C02Inv.
Open Scope Z_scope.

Definition NoNotify (q : Z) (o : list output) : Prop := forall rid tok from, ~ In (Notify q rid tok from) o.
Definition canc (s : st) (q : Z) : Prop := exists c, get_req s q = Some c /\ cq_obs_cancelled c = true.
Definition cok (q : Z) (s' : st) (o : list output) : Prop := canc s' q /\ NoNotify q o.

Lemma NoNotify_nil : forall q, NoNotify q []. Proof. intros q rid tok from []. Qed.
Lemma NoNotify_app : forall q a b, NoNotify q a -> NoNotify q b -> NoNotify q (a ++ b).
Proof. intros q a b Ha Hb rid tok from Hin. apply in_app_or in Hin. destruct Hin; [eapply Ha|eapply Hb]; eauto. Qed.
Lemma NoNotify_ml : forall q o, Forall ml_out o -> NoNotify q o.
Proof. intros q o H rid tok from Hin. rewrite Forall_forall in H. apply H in Hin. exact Hin. Qed.
Lemma NoNotify_other : forall q q0 ev o, q0 <> q -> Forall (out_ok q0 ev) o -> NoNotify q o.
Proof. intros q q0 ev o Hne H rid tok from Hin. rewrite Forall_forall in H. apply H in Hin. cbn in Hin. destruct Hin as [E _]. congruence. Qed.

(* the request object: once cancelled it stays cancelled and _run emits no Notify *)
Lemma run_canc : forall q c ev c' o stop keep, cq_obs_cancelled c = true -> _run q c ev = (c', o, stop, keep) ->
  cq_obs_cancelled c' = true /\ forall q' rid tok from, ~ In (Notify q' rid tok from) o.
Proof.
  intros q c ev c' o stop keep Hc H. unfold _run in H. rewrite Hc in H.
  repeat dmatch; invpairs; cbn; (split; [try reflexivity; exact Hc|]); intros q9 rid9 tok9 from9 Hin;
    repeat (destruct Hin as [Hin|Hin]; try discriminate); try contradiction.
Qed.
Lemma flag_same : forall c c' ks, (_stop_interest c = (c', ks) \/ _end c = (c', ks)) -> cq_obs_cancelled c' = cq_obs_cancelled c.
Proof. intros c c' ks [H|H]; unfold _stop_interest, _end in H; repeat dmatch; invpairs; reflexivity. Qed.
Lemma loop_canc : forall q ev snap c c' o ks early, cq_obs_cancelled c = true -> _add_event_loop q c snap ev = (c', o, ks, early) ->
  cq_obs_cancelled c' = true /\ forall q' rid tok from, ~ In (Notify q' rid tok from) o.
Proof.
  intros q ev. induction snap as [|x rest IH]; intros c c' o ks early Hc H; cbn [_add_event_loop] in H.
  - invpairs. split; [exact Hc|intros ? ? ? ? []].
  - assert (C : forall c1 o1 k1 keep, call_cb q c x ev = (c1, o1, k1, keep) -> cq_obs_cancelled c1 = true /\ forall q' rid tok from, ~ In (Notify q' rid tok from) o1).
    { intros c1 o1 k1 keep E. destruct x; cbn [call_cb] in E.
      - unfold process in E. destruct (_run q c ev) as [[[c2 o2] stop] kp] eqn:R. apply run_canc in R; [|exact Hc]. destruct R as [R1 R2].
        destruct stop; [|invpairs; split; assumption]. destruct (_stop_interest c2) as [c3 k3] eqn:S. invpairs.
        split; [|exact R2]. rewrite (flag_same c2 c1 k1 (or_introl S)). exact R1.
      - destruct (pev_is_last ev); invpairs; (split; [exact Hc|intros ? ? ? ? []]). }
    destruct (call_cb q c x ev) as [[[c1 o1] k1] keep] eqn:E. destruct (C _ _ _ _ eq_refl) as [C1 C2].
    assert (APP : forall o2, (forall q' rid tok from, ~ In (Notify q' rid tok from) o2) -> forall q' rid tok from, ~ In (Notify q' rid tok from) (o1 ++ o2)).
    { intros o2 H2 q' rid tok from Hin. apply in_app_or in Hin. destruct Hin; [eapply C2|eapply H2]; eauto. }
    destruct keep.
    + destruct (_add_event_loop q c1 rest ev) as [[[c2 o2] k2] e2] eqn:L. apply IH in L; [|exact C1]. destruct L. invpairs. split; [assumption|apply APP; assumption].
    + destruct (cq_cbs c1); [|invpairs; split; assumption].
      destruct (_add_event_loop q _ rest ev) as [[[c2 o2] k2] e2] eqn:L. apply IH in L; [|exact C1]. destruct L. invpairs. split; [assumption|apply APP; assumption].
Qed.
Lemma pipe_canc : forall q c ev c' o ks, cq_obs_cancelled c = true -> pipe_add_event q c ev = (c', o, ks) ->
  cq_obs_cancelled c' = true /\ forall q' rid tok from, ~ In (Notify q' rid tok from) o.
Proof.
  intros q c ev c' o ks Hc H. unfold pipe_add_event in H. destruct (cq_cbs c); [|invpairs; split; [exact Hc|intros ? ? ? ? []]].
  destruct (_add_event_loop q c l ev) as [[[c1 o1] k1] early] eqn:L. apply loop_canc in L; [|exact Hc]. destruct L as [L1 L2].
  destruct early; [invpairs; split; assumption|]. destruct (cq_cbs c1); [|invpairs; split; assumption].
  destruct (_any_interest l0); [invpairs; split; assumption|]. destruct (_end c1) as [c2 k2] eqn:E. invpairs.
  split; [|exact L2]. rewrite (flag_same c1 c' k2 (or_intror E)). exact L1.
Qed.

Lemma canc_frame : forall s s' q, reqs s' = reqs s -> canc s q -> canc s' q.
Proof. intros s s' q H (c & G & F). exists c. unfold get_req in *. rewrite H. split; assumption. Qed.
Lemma add_event_canc : forall q s q0 ev s' o, canc s q -> _add_event s q0 ev = (s', o) -> cok q s' o.
Proof.
  intros q s q0 ev s' o (c & G & F) H. pose proof (add_event_out_ok _ _ _ _ _ H) as OK. unfold _add_event in H.
  destruct (get_req s q0) as [c0|] eqn:G0; [|invpairs; split; [exists c; split; assumption|apply NoNotify_nil]].
  destruct (pipe_add_event q0 c0 ev) as [[c' o'] ks] eqn:P. invpairs. unfold cok, canc. rewrite get_req_pop_keys, get_req_upd.
  destruct (q =? q0) eqn:E.
  - apply Z.eqb_eq in E. subst q0. rewrite G in G0. inversion G0. subst c0. apply pipe_canc in P; [|exact F]. destruct P as [P1 P2].
    split; [exists c'; split; [reflexivity|exact P1]|intros rid tok from; apply P2].
  - split; [exists c; split; assumption|]. eapply NoNotify_other; [|exact OK]. apply Z.eqb_neq in E. congruence.
Qed.
Lemma run_stoppers_canc : forall q e qs s s' o, canc s q -> run_stoppers s qs e = (s', o) -> cok q s' o.
Proof.
  intros q e. induction qs as [|q0 rest IH]; intros s s' o HC H; cbn [run_stoppers] in H; [invpairs; split; [exact HC|apply NoNotify_nil]|].
  destruct (add_exception s q0 e) as [s1 o1] eqn:A. apply (add_event_canc q) in A; [|exact HC]. destruct A as [A1 A2].
  destruct (run_stoppers s1 rest e) as [s2 o2] eqn:R. apply IH in R; [|exact A1]. destruct R. invpairs. split; [assumption|apply NoNotify_app; assumption].
Qed.
Lemma mm_dispatch_error_canc : forall q s k r s' o, canc s q -> mm_dispatch_error s k r = (s', o) -> cok q s' o.
Proof.
  intros q s k r s' o HC H. unfold mm_dispatch_error, tm_dispatch_error in H. destruct (exchanges s); [|invpairs; split; [exact HC|apply NoNotify_nil]].
  destruct (outgoing s).
  - destruct (run_stoppers s _ (wrap_error k)) as [s1 o1] eqn:R. apply (run_stoppers_canc q) in R; [|exact HC]. destruct R as [R1 R2]. invpairs.
    split; [eapply canc_frame; [|exact R1]; reflexivity|exact R2].
  - invpairs. split; [eapply canc_frame; [|exact HC]; reflexivity|apply NoNotify_nil].
Qed.
Lemma send_initially_canc : forall q s r w m s' o, canc s q -> _send_initially s r w m = (s', o) -> cok q s' o.
Proof.
  intros q s r w m s' o HC H. unfold _send_initially, _send_via_transport in H.
  set (s1 := if w_mtype w =? CON then _ else s) in H.
  assert (C1 : canc s1 q). { subst s1. destruct (w_mtype w =? CON); [destruct m|]; try exact HC. eapply canc_frame; [|exact HC]. apply add_exchange_frame. }
  clearbody s1. destruct (refuses s1 r); [eapply mm_dispatch_error_canc; eauto|]. invpairs. split; [exact C1|]. apply NoNotify_ml. repeat constructor.
Qed.
Lemma continue_loop_canc : forall q r fuel s s' o x, canc s q -> _continue_backlog_loop fuel s r = (s', o, x) -> cok q s' o.
Proof.
  intros q r. induction fuel as [|f IH]; intros s s' o x HC H; cbn [_continue_backlog_loop] in H; [invpairs; split; [exact HC|apply NoNotify_nil]|].
  destruct (exchanges s); [|invpairs; split; [exact HC|apply NoNotify_nil]].
  destruct (alookup Z.eqb r (backlogs s)) as [bl|]; [|invpairs; split; [exact HC|apply NoNotify_nil]].
  destruct (has_exchange r l); [invpairs; split; [exact HC|apply NoNotify_nil]|].
  destruct bl as [|[w m] rest]; [invpairs; split; [eapply canc_frame; [|exact HC]; reflexivity|apply NoNotify_nil]|].
  destruct (_send_initially _ r w (Some m)) as [s1 o1] eqn:S. apply (send_initially_canc q) in S. 2: { eapply canc_frame; [|exact HC]; reflexivity. }
  destruct S as [S1 S2]. destruct (_continue_backlog_loop f s1 r) as [[s2 o2] x2] eqn:L. apply IH in L; [|exact S1]. destruct L. invpairs.
  split; [assumption|apply NoNotify_app; assumption].
Qed.
Lemma remove_exchange_canc : forall q s r w s' o x, canc s q -> _remove_exchange s r w = (s', o, x) -> cok q s' o.
Proof.
  intros q s r w s' o x HC H. unfold _remove_exchange in H.
  destruct (exchanges s); [|invpairs; split; [exact HC|apply NoNotify_nil]].
  destruct (alookup rm_eqb (r, w_mid w) l); [|invpairs; split; [exact HC|apply NoNotify_nil]].
  destruct (if w_mtype w =? RST then _ else _) as [s2 o2] eqn:A.
  assert (A' : cok q s2 o2).
  { destruct (w_mtype w =? RST); [eapply (add_event_canc q) in A; [exact A|eapply canc_frame; [|exact HC]; reflexivity]|invpairs; split; [eapply canc_frame; [|exact HC]; reflexivity|apply NoNotify_nil]]. }
  destruct A' as [A1 A2]. destruct (_continue_backlog s2 r) as [[s3 o3] x3] eqn:C. invpairs.
  unfold _continue_backlog in C. destruct (alookup Z.eqb r (backlogs s2)).
  - apply (continue_loop_canc q) in C; [|exact A1]. destruct C. split; [assumption|apply NoNotify_app; assumption].
  - invpairs. split; [exact A1|apply NoNotify_app; [exact A2|apply NoNotify_ml; repeat constructor]].
Qed.
(* in EVERY state: a datagram never produces a notification for an observation whose `cancelled` flag is set *)
Lemma cancelled_obs_silent_lemma : forall s r mcl w q c o, get_req s q = Some c -> cq_obs_cancelled c = true ->
  In o (snd (dispatch_message s r mcl w)) -> forall rid tok from, o <> Notify q rid tok from.
Proof.
  intros s r mcl w q c o G F Hin rid tok from ->. revert Hin.
  assert (HC : canc s q) by (exists c; split; assumption).
  cut (NoNotify q (snd (dispatch_message s r mcl w))). { intros N. apply N. }
  unfold dispatch_message. destruct (is_request (w_code w)). { cbn. intros ? ? ? [H|[]]. discriminate. }
  destruct (if (w_mtype w =? ACK) || (w_mtype w =? RST) then _ else _) as [[s1 o1] x1] eqn:RE.
  assert (B : cok q s1 o1).
  { destruct ((w_mtype w =? ACK) || (w_mtype w =? RST)); [eapply remove_exchange_canc; eauto|invpairs; split; [exact HC|apply NoNotify_nil]]. }
  destruct B as [B1 B2].
  assert (SI : forall s2 wr, canc s2 q -> NoNotify q (snd (_send_initially s2 r wr None))).
  { intros s2 wr C2. destruct (_send_initially s2 r wr None) as [s3 o3] eqn:S. apply (send_initially_canc q) in S; [|exact C2]. apply S. }
  destruct x1; [exact B2|].
  destruct ((w_code w =? EMPTY) && (w_mtype w =? CON)).
  { pose proof (SI s1 (empty_msg RST (w_mid w)) B1) as N. destruct (_send_initially s1 r _ None). cbn [snd] in *. apply NoNotify_app; assumption. }
  destruct ((w_code w =? EMPTY) && ((w_mtype w =? ACK) || (w_mtype w =? RST))); [exact B2|].
  destruct (is_response (w_code w) && _); [|exact B2].
  assert (P : exists b s2 o2, process_response s1 r w = (b, s2, o2) /\ cok q s2 o2).
  { unfold process_response. destruct (outgoing s1).
    - destruct (alookup key_eqb _ l); [|do 3 eexists; split; [reflexivity|split; [exact B1|apply NoNotify_nil]]].
      destruct (add_response _ z w r _) as [s2 o2] eqn:A. do 3 eexists. split; [reflexivity|].
      eapply (add_event_canc q) in A; [exact A|]. destruct (negb _); [eapply canc_frame; [|exact B1]; reflexivity|exact B1].
    - do 3 eexists. split; [reflexivity|]. split; [exact B1|]. intros ? ? ? [H|[]]. discriminate. }
  destruct P as (b & s2 & o2 & -> & P1 & P2).
  pose proof (SI s2 (empty_msg ACK (w_mid w)) P1) as N1. pose proof (SI s2 (empty_msg RST (w_mid w)) P1) as N2.
  destruct b; [destruct (w_mtype w =? CON)|destruct ((w_mtype w =? CON) && negb mcl)];
    repeat match goal with |- context [_send_initially ?a ?b ?c ?d] => destruct (_send_initially a b c d) end; cbn [snd] in *;
    repeat apply NoNotify_app; assumption.
Qed.
