(* C04 round 6 — the internal-error outputs ([Exn]: the KeyError / AssertionError branches of on_timeout, _retransmit,
   _continue_backlog, _send_initially, the expiry callback) are unreachable from the initial state.
   Invariant [Q]: exchange keys are unique, one key per remote, every exchange's remote has a backlog entry, every pending
   retransmission timer is the one registered in its exchange, every pending empty-ACK timer is the one registered in its
   piggy-back opportunity, and no [Exn] has been logged. *)
From Verif Require Import Lib.Py Lib.PyLemmas Lib.Tactics Model.C04 Proofs.C04.
Import ListNotations.
Open Scope Z_scope.

(* ------------------------------------------------------------------ association lists, any reflecting key equality *)
Section AL.
  Context {K V : Type} (eqb : K -> K -> bool) (eqb_spec : forall a b, eqb a b = true <-> a = b).
  Notation get := (aget (V := V) eqb).
  Lemma eqb_refl' a : eqb a a = true. Proof. apply eqb_spec; reflexivity. Qed.
  Lemma eqb_neq' a b : a <> b -> eqb a b = false.
  Proof. intros N. destruct (eqb a b) eqn:E; [apply eqb_spec in E; contradiction | reflexivity]. Qed.
  Lemma g_in k v l : get k l = Some v -> In (k, v) l.
  Proof.
    induction l as [|[k' v'] l IH]; simpl; [discriminate|].
    destruct (eqb k k') eqn:E; intros H; [apply eqb_spec in E; inversion H; subst; left; reflexivity | right; auto].
  Qed.
  Lemma g_none_notin k l : get k l = None -> forall v, ~ In (k, v) l.
  Proof.
    induction l as [|[k' v'] l IH]; simpl; intros H v HI; [contradiction|]. destruct HI as [HI | HI].
    - inversion HI; subst. rewrite eqb_refl' in H. discriminate.
    - destruct (eqb k k'); [discriminate | eapply IH; eauto].
  Qed.
  Lemma g_in_nodup k v l : NoDup (map fst l) -> In (k, v) l -> get k l = Some v.
  Proof.
    induction l as [|[k' v'] l IH]; simpl; intros ND HI; [contradiction|]. destruct HI as [HI | HI]; inversion ND; subst.
    - inversion HI; subst. rewrite eqb_refl'. reflexivity.
    - destruct (eqb k k') eqn:E; [|auto]. apply eqb_spec in E; subst k'. exfalso. apply H1.
      apply in_map_iff. exists (k, v). auto.
  Qed.
  Lemma in_rm k (x : K * V) l : In x (aremove eqb k l) <-> In x l /\ fst x <> k.
  Proof.
    induction l as [|[k' v'] l IH]; simpl; [tauto|].
    destruct (eqb k k') eqn:E.
    - apply eqb_spec in E; subst k'. split.
      + intros H. apply IH in H. tauto.
      + intros [[H | H] N]; [subst x; simpl in N; congruence | apply IH; tauto].
    - simpl. split.
      + intros [H | H]; [subst x; simpl; split; [left; reflexivity|]; intros N; subst k'; rewrite eqb_refl' in E; discriminate | apply IH in H; tauto].
      + intros [[H | H] N]; [left; exact H | right; apply IH; tauto].
  Qed.
  Lemma g_rm_eq k l : get k (aremove eqb k l) = None.
  Proof. induction l as [|[k' v'] l IH]; simpl; [reflexivity|]. destruct (eqb k k') eqn:E; simpl; [|rewrite E]; auto. Qed.
  Lemma g_rm_neq k k' l : k' <> k -> get k' (aremove eqb k l) = get k' l.
  Proof.
    intros N. induction l as [|[k2 v2] l IH]; simpl; [reflexivity|].
    destruct (eqb k k2) eqn:E; simpl.
    - apply eqb_spec in E; subst k2. rewrite (eqb_neq' _ _ N). exact IH.
    - destruct (eqb k' k2); auto.
  Qed.
  Lemma nodup_rm k (l : list (K * V)) : NoDup (map fst l) -> NoDup (map fst (aremove eqb k l)).
  Proof.
    induction l as [|[k' v'] l IH]; simpl; intros ND; [constructor|]. inversion ND; subst.
    destruct (eqb k k'); simpl; [auto|]. constructor; [|auto].
    intros H. apply H1. apply in_map_iff in H as (x & E & H). apply in_rm in H as [H _]. apply in_map_iff. exists x; auto.
  Qed.
  Lemma g_app k l1 l2 : get k (l1 ++ l2) = match get k l1 with Some v => Some v | None => get k l2 end.
  Proof. induction l1 as [|[k2 v2] l IH]; simpl; [reflexivity|]. destruct (eqb k k2); auto. Qed.
  Lemma g_rep_eq k v l : get k (areplace eqb k v l) = match get k l with Some _ => Some v | None => None end.
  Proof. induction l as [|[k' v'] l IH]; simpl; [reflexivity|]. destruct (eqb k k') eqn:E; simpl; rewrite E; auto. Qed.
  Lemma g_rep_neq k k' v l : k' <> k -> get k' (areplace eqb k v l) = get k' l.
  Proof.
    intros N. induction l as [|[k2 v2] l IH]; simpl; [reflexivity|].
    destruct (eqb k k2) eqn:E; simpl.
    - apply eqb_spec in E; subst k2. rewrite (eqb_neq' _ _ N). reflexivity.
    - destruct (eqb k' k2); auto.
  Qed.
  Lemma g_set_eq k v l : get k (aset eqb k v l) = Some v.
  Proof.
    unfold aset. destruct (get k l) eqn:G; [rewrite g_rep_eq, G; reflexivity|].
    rewrite g_app, G. simpl. rewrite eqb_refl'. reflexivity.
  Qed.
  Lemma g_set_neq k k' v l : k' <> k -> get k' (aset eqb k v l) = get k' l.
  Proof.
    intros N. unfold aset. destruct (get k l) eqn:G; [apply g_rep_neq; exact N|].
    rewrite g_app. destruct (get k' l); [reflexivity|]. simpl. rewrite (eqb_neq' _ _ N). reflexivity.
  Qed.
  Lemma set_absent k v l : get k l = None -> aset eqb k v l = l ++ [(k, v)].
  Proof. intros G. unfold aset. rewrite G. reflexivity. Qed.
End AL.

Lemma tokkey_eqb_eq a b : tokkey_eqb a b = true <-> a = b.
Proof.
  destruct a as [a1 a2], b as [b1 b2]; unfold tokkey_eqb; simpl.
  rewrite andb_true_iff, Z.eqb_eq, list_eqb_Z_eq. split; [intros [-> ->]; reflexivity | intros H; inversion H; auto].
Qed.

(* ------------------------------------------------------------------ the invariant *)
Definition E0 (s : st) : Prop := NoDup (map fst (exchanges s)).
Definition E1 (s : st) : Prop := forall k h, In (k, h) (exchanges s) -> aget Z.eqb (fst k) (backlogs s) <> None.
Definition E2 (s : st) : Prop := forall k1 h1 k2 h2, In (k1, h1) (exchanges s) -> In (k2, h2) (exchanges s) -> fst k1 = fst k2 -> k1 = k2.
Definition E3 (s : st) : Prop := forall d q r w t c, In (d, q, TRetransmit r w t c) (timers s) -> aget key_eqb (r, w_mid w) (exchanges s) = Some q.
Definition P1 (s : st) : Prop := forall d q r tok, In (d, q, TEmptyAck r tok) (timers s) -> exists mid, aget tokkey_eqb (r, tok) (piggy s) = Some (mid, q).
Definition NX (s : st) : Prop := forall t e, ~ In (Exn t e) (outs s).
Definition Q (s : st) : Prop := E0 s /\ E1 s /\ E2 s /\ E3 s /\ P1 s /\ NX s.

Lemma Q_frame s s' : timers s' = timers s -> exchanges s' = exchanges s -> backlogs s' = backlogs s -> piggy s' = piggy s ->
  outs s' = outs s -> Q s -> Q s'.
Proof. unfold Q, E0, E1, E2, E3, P1, NX. intros -> -> -> -> ->. tauto. Qed.
Ltac qframe := apply Q_frame; reflexivity.

Definition no_xr (r : Z) (s : st) : Prop := forall k h, In (k, h) (exchanges s) -> fst k <> r.   (* no exchange with remote r *)

Lemma has_exchange_false r s : has_exchange_with r s = false -> no_xr r s.
Proof.
  unfold has_exchange_with, no_xr. intros H k h HI N.
  assert (existsb (fun e => fst (fst e) =? r) (exchanges s) = true).
  { apply existsb_exists. exists (k, h). split; [exact HI | simpl; apply Z.eqb_eq; exact N]. }
  congruence.
Qed.
Lemma no_backlog_no_xr r s : E1 s -> aget Z.eqb r (backlogs s) = None -> no_xr r s.
Proof. intros H G k h HI N. apply (H k h HI). rewrite N. exact G. Qed.

(* ------------------------------------------------------------------ primitive steps *)
Lemma Q_emit o s : (forall t e, o <> Exn t e) -> Q s -> Q (emit o s).
Proof.
  intros Ho (A & B & C & D & E & F). repeat split; auto.
  intros t e H. unfold emit in H; simpl in H. apply in_app_iff in H as [H | [H | []]]; [eapply F; eauto | eapply Ho; eauto].
Qed.
Lemma Q_cancel h s : Q s -> Q (cancel h s).
Proof.
  intros (A & B & C & D & E & F). repeat split; auto.
  - intros d q r w t c H. apply filter_In in H as [H _]. eapply D; eauto.
  - intros d q r tok H. apply filter_In in H as [H _]. eapply E; eauto.
Qed.
Lemma Q_set_backlogs v s : (forall k h, In (k, h) (exchanges s) -> aget Z.eqb (fst k) v <> None) -> Q s -> Q (set_backlogs v s).
Proof. intros H (A & B & C & D & E & F). repeat split; auto. Qed.

(* removing an exchange and cancelling the handle registered for it *)
Lemma Q_pop_exchange k h s : Q s -> aget key_eqb k (exchanges s) = Some h ->
  Q (cancel h (set_exchanges (aremove key_eqb k (exchanges s)) s)) /\
  no_xr (fst k) (cancel h (set_exchanges (aremove key_eqb k (exchanges s)) s)).
Proof.
  intros (A & B & C & D & E & F) G. split; [repeat split|].
  - apply (nodup_rm _ key_eqb_eq); exact A.
  - intros k' h' H. simpl in H. apply (in_rm _ key_eqb_eq) in H as [H _]. apply (B _ _ H).
  - intros k1 h1 k2 h2 H1 H2. simpl in H1, H2. apply (in_rm _ key_eqb_eq) in H1 as [H1 _], H2 as [H2 _]. eapply C; eauto.
  - intros d q r w t c H. simpl in H. apply filter_In in H as [H Hq]. simpl in Hq.
    specialize (D _ _ _ _ _ _ H). simpl.
    destruct (key_eqb k (r, w_mid w)) eqn:Ek.
    + apply key_eqb_eq in Ek; subst k. rewrite D in G. inversion G; subst. rewrite Z.eqb_refl in Hq. discriminate.
    + rewrite (g_rm_neq _ key_eqb_eq); [exact D|]. intros N. subst k. rewrite key_eqb_refl in Ek. discriminate.
  - intros d q r tok H. simpl in H. apply filter_In in H as [H _]. eapply E; eauto.
  - exact F.
  - intros k' h' H N. simpl in H. apply (in_rm _ key_eqb_eq) in H as [H N'].
    apply N'. simpl. apply (C k' h' k h H (g_in _ key_eqb_eq _ _ _ G) N).
Qed.

(* registering an exchange for (r, mid) when there is none with remote r, together with its retransmission timer *)
Lemma Q_push_exchange r w t c s : Q s -> no_xr r s -> aget Z.eqb r (backlogs s) <> None ->
  let s1 := fst (_schedule_retransmit r w t c s) in let h := snd (_schedule_retransmit r w t c s) in
  Q (set_exchanges (aset key_eqb (r, w_mid w) h (exchanges s1)) s1).
Proof.
  intros (A & B & C & D & E & F) NX0 HB. unfold _schedule_retransmit, call_later; simpl.
  assert (G : aget key_eqb (r, w_mid w) (exchanges s) = None).
  { destruct (aget key_eqb (r, w_mid w) (exchanges s)) eqn:G; [|reflexivity].
    apply (g_in _ key_eqb_eq) in G. exfalso. apply (NX0 _ _ G). reflexivity. }
  rewrite (set_absent _ _ _ _ G). repeat split.
  - unfold E0; simpl. rewrite map_app. simpl. apply NoDup_app_one; [exact A|].
    intros H. apply in_map_iff in H as ([k' h'] & Ek & H). simpl in Ek; subst k'. apply (NX0 _ _ H). reflexivity.
  - intros k h H. simpl in H. apply in_app_iff in H as [H | [H | []]]; [apply (B _ _ H) | inversion H; subst; exact HB].
  - intros k1 h1 k2 h2 H1 H2 N. simpl in H1, H2.
    apply in_app_iff in H1 as [H1 | [H1 | []]]; apply in_app_iff in H2 as [H2 | [H2 | []]].
    + eapply C; eauto.
    + inversion H2; subst. exfalso. apply (NX0 _ _ H1). exact N.
    + inversion H1; subst. exfalso. apply (NX0 _ _ H2). symmetry; exact N.
    + inversion H1; inversion H2; subst. reflexivity.
  - intros d q r' w' t' c' H. simpl in H |- *. rewrite (g_app _). apply in_app_iff in H as [H | [H | []]].
    + rewrite (D _ _ _ _ _ _ H). reflexivity.
    + inversion H; subst. rewrite G. simpl. rewrite key_eqb_refl. reflexivity.
  - intros d q r' tok H. simpl in H. apply in_app_iff in H as [H | [H | []]]; [eapply E; eauto | discriminate].
  - exact F.
Qed.

Lemma notin_g_none {K V} (eqb : K -> K -> bool) (sp : forall a b, eqb a b = true <-> a = b) k (l : list (K * V)) :
  (forall v, ~ In (k, v) l) -> aget eqb k l = None.
Proof. intros H. destruct (aget eqb k l) eqn:G; [|reflexivity]. apply (g_in _ sp) in G. exfalso. eapply H; eauto. Qed.

(* removing a key of the exchange table whose registered handle (if any) is h *)
Lemma Q_rm_exchange k h s : Q s -> (forall h', aget key_eqb k (exchanges s) = Some h' -> h' = h) ->
  Q (cancel h (set_exchanges (aremove key_eqb k (exchanges s)) s)).
Proof.
  intros (A & B & C & D & E & F) G. repeat split.
  - apply (nodup_rm _ key_eqb_eq); exact A.
  - intros k' h' H. simpl in H. apply (in_rm _ key_eqb_eq) in H as [H _]. apply (B _ _ H).
  - intros k1 h1 k2 h2 H1 H2. simpl in H1, H2. apply (in_rm _ key_eqb_eq) in H1 as [H1 _], H2 as [H2 _]. eapply C; eauto.
  - intros d q r w t c H. simpl in H. apply filter_In in H as [H Hq]. simpl in Hq.
    specialize (D _ _ _ _ _ _ H). simpl.
    destruct (key_eqb k (r, w_mid w)) eqn:Ek.
    + apply key_eqb_eq in Ek; subst k. rewrite (G _ D), Z.eqb_refl in Hq. discriminate.
    + rewrite (g_rm_neq _ key_eqb_eq); [exact D|]. intros N. subst k. rewrite key_eqb_refl in Ek. discriminate.
  - intros d q r tok H. simpl in H. apply filter_In in H as [H _]. eapply E; eauto.
  - exact F.
Qed.

Lemma Q_stop_incoming ik sid s : Q s -> Q (stop_incoming ik sid s).
Proof. qframe. Qed.
Lemma Q_fold {A} (f : st -> A -> st) l : (forall s a, Q s -> Q (f s a)) -> forall s, Q s -> Q (fold_left f l s).
Proof. intros H. induction l as [|a l IH]; intros s HQ; simpl; auto. Qed.
Lemma fold_same {A} (P : st -> Prop) (f : st -> A -> st) l : (forall s a, P s -> P (f s a)) -> forall s, P s -> P (fold_left f l s).
Proof. intros H. induction l as [|a l IH]; intros s HQ; simpl; auto. Qed.
Lemma Q_tm_dispatch_error r s : Q s -> Q (tm_dispatch_error r s).
Proof.
  unfold tm_dispatch_error. apply Q_fold. intros s0 e H. destruct (snd (fst e) =? r); [apply Q_stop_incoming; exact H | exact H].
Qed.
Lemma tm_dispatch_error_fields r s :
  exchanges (tm_dispatch_error r s) = exchanges s /\ backlogs (tm_dispatch_error r s) = backlogs s.
Proof.
  unfold tm_dispatch_error.
  apply (fold_same (fun s' => exchanges s' = exchanges s /\ backlogs s' = backlogs s)); [|auto].
  intros s0 e H. destruct (snd (fst e) =? r); [exact H | exact H].
Qed.

Definition mm_step (r : Z) (s : st) (e : Z * Z * Z) : st :=
  if fst (fst e) =? r then cancel (snd e) (set_exchanges (aremove key_eqb (fst e) (exchanges s)) s) else s.

Lemma mm_fold r l : forall s, Q s ->
  (forall e, In e l -> In e (exchanges s) \/ aget key_eqb (fst e) (exchanges s) = None) ->
  let s' := fold_left (mm_step r) l s in
  Q s' /\ backlogs s' = backlogs s
  /\ (forall x, In x (exchanges s') -> In x (exchanges s))
  /\ (forall e, In e l -> fst (fst e) = r -> forall v, ~ In (fst e, v) (exchanges s')).
Proof.
  induction l as [|e l IH]; intros s HQ Hl; simpl.
  - split; [exact HQ|]. split; [reflexivity|]. split; [auto|]. intros e [].
  - set (s1 := mm_step r s e).
    assert (H1 : Q s1 /\ backlogs s1 = backlogs s /\ (forall x, In x (exchanges s1) -> In x (exchanges s))
                 /\ (fst (fst e) = r -> forall v, ~ In (fst e, v) (exchanges s1))).
    { subst s1. unfold mm_step. destruct (fst (fst e) =? r) eqn:Er.
      - split; [|split; [reflexivity|split]].
        + apply Q_rm_exchange; [exact HQ|]. intros h' G. destruct e as [k h]; simpl in *.
          destruct (Hl (k, h) (or_introl eq_refl)) as [HI | HN]; [|simpl in HN; congruence].
          destruct HQ as (A & _). rewrite (g_in_nodup _ key_eqb_eq _ _ _ A HI) in G. congruence.
        + intros x H. simpl in H. apply (in_rm _ key_eqb_eq) in H. tauto.
        + intros _ v H. simpl in H. apply (in_rm _ key_eqb_eq) in H as [_ N]. apply N; reflexivity.
      - split; [exact HQ|]. split; [reflexivity|]. split; [auto|]. intros N. apply Z.eqb_neq in Er. contradiction. }
    destruct H1 as (Q1 & B1 & S1 & R1).
    assert (Hl1 : forall e', In e' l -> In e' (exchanges s1) \/ aget key_eqb (fst e') (exchanges s1) = None).
    { intros e' He'. subst s1. unfold mm_step. destruct (fst (fst e) =? r); [|apply Hl; right; exact He'].
      simpl. destruct (key_eqb (fst e) (fst e')) eqn:Ek.
      - apply key_eqb_eq in Ek. right. rewrite <- Ek. apply (g_rm_eq _).
      - assert (N : fst e' <> fst e) by (intros N; rewrite N, key_eqb_refl in Ek; discriminate).
        destruct (Hl e' (or_intror He')) as [HI | HN].
        + left. apply (in_rm _ key_eqb_eq). split; assumption.
        + right. rewrite (g_rm_neq _ key_eqb_eq) by exact N. exact HN. }
    destruct (IH s1 Q1 Hl1) as (Q2 & B2 & S2 & R2). fold s1.
    split; [exact Q2|]. split; [congruence|]. split; [auto|].
    intros e' [He' | He'] Er v H.
    + subst e'. apply (R1 Er v). apply S2. exact H.
    + apply (R2 e' He' Er v H).
Qed.

Lemma Q_mm_dispatch_error r s : Q s ->
  Q (mm_dispatch_error r s) /\ no_xr r (mm_dispatch_error r s).
Proof.
  intros HQ. unfold mm_dispatch_error.
  pose proof (Q_tm_dispatch_error r s HQ) as Q0. destruct (tm_dispatch_error_fields r s) as [Ex Bx].
  set (s0 := tm_dispatch_error r s) in *.
  destruct (mm_fold r (exchanges s0) s0 Q0 (fun e H => or_introl H)) as (Q1 & B1 & S1 & R1).
  change (fold_left (fun s e => if fst (fst e) =? r then cancel (snd e) (set_exchanges (aremove key_eqb (fst e) (exchanges s)) s) else s) (exchanges s0) s0)
    with (fold_left (mm_step r) (exchanges s0) s0).
  set (s1 := fold_left (mm_step r) (exchanges s0) s0) in *.
  assert (NXr : no_xr r s1).
  { intros k h H N. apply (R1 (k, h) (S1 _ H) N h). exact H. }
  split; [|exact NXr].
  apply Q_set_backlogs; [|exact Q1].
  intros k h H. rewrite (g_rm_neq _ Z.eqb_eq) by (apply (NXr _ _ H)). destruct Q1 as (_ & B & _). apply (B _ _ H).
Qed.

Lemma Q_refusal r s : Q s -> Q (refusal r s).
Proof.
  intros HQ. unfold refusal. destruct (is_refused r s); [|exact HQ].
  apply Q_mm_dispatch_error. apply Q_emit; [intros; discriminate | exact HQ].
Qed.
Lemma Q_send_via r w s : Q s -> Q (_send_via_transport r w s).
Proof. intros HQ. unfold _send_via_transport, send_log. apply Q_refusal. apply Q_emit; [intros; discriminate | exact HQ]. Qed.
Lemma Q_store r w s : Q s -> Q (_store_response_for_duplicates r w s).
Proof.
  unfold _store_response_for_duplicates. destruct (negb (is_ackrst (w_type w))); [auto|].
  destruct (aget key_eqb (r, w_mid w) (recent s)); [qframe | auto].
Qed.

Lemma no_xr_set_backlogs r v s : no_xr r s -> no_xr r (set_backlogs v s).
Proof. auto. Qed.

Lemma Q_add_exchange r w s : Q s -> no_xr r s -> Q (_add_exchange r w s).
Proof.
  intros HQ NXr. unfold _add_exchange.
  set (s1 := match aget Z.eqb r (backlogs s) with None => _ | Some _ => _ end).
  assert (H1 : Q s1 /\ no_xr r s1 /\ aget Z.eqb r (backlogs s1) <> None).
  { subst s1. destruct (aget Z.eqb r (backlogs s)) eqn:G.
    - split; [exact HQ|]. split; [exact NXr | congruence].
    - split; [|split; [exact NXr|]].
      + apply Q_set_backlogs; [|exact HQ]. intros k h H. rewrite (g_set_neq _ Z.eqb_eq) by (apply (NXr _ _ H)).
        destruct HQ as (_ & B & _). apply (B _ _ H).
      + simpl. rewrite (g_set_eq _ Z.eqb_eq). discriminate. }
  destruct H1 as (Q1 & N1 & B1).
  pose proof (Q_push_exchange r w (ack_timeout s1) 0 s1 Q1 N1 B1) as H. simpl in H.
  unfold _schedule_retransmit, call_later. simpl. exact H.
Qed.

Lemma Q_send_initially r w mon s : Q s -> (w_type w = CON -> mon = true /\ no_xr r s) -> Q (_send_initially r w mon s).
Proof.
  intros HQ Hc. unfold _send_initially. destruct (w_type w) eqn:T; try (apply Q_send_via, Q_store; exact HQ).
  destruct (Hc eq_refl) as [-> NXr]. simpl. apply Q_send_via, Q_store, Q_add_exchange; assumption.
Qed.

Lemma E1_of s : Q s -> E1 s. Proof. intros (_ & B & _); exact B. Qed.

Lemma Q_continue_backlog_loop fuel r : forall s, Q s -> Q (_continue_backlog_loop fuel r s).
Proof.
  induction fuel as [|fuel IH]; intros s HQ; simpl; [exact HQ|].
  destruct (has_exchange_with r s) eqn:Hx; [exact HQ|]. apply has_exchange_false in Hx.
  destruct (aget Z.eqb r (backlogs s)) as [[|w rest]|] eqn:G; [| |exact HQ].
  - apply Q_set_backlogs; [|exact HQ]. intros k h H. rewrite (g_rm_neq _ Z.eqb_eq) by (apply (Hx _ _ H)). apply (E1_of s HQ _ _ H).
  - apply IH. apply Q_send_initially.
    + apply Q_set_backlogs; [|exact HQ]. intros k h H. rewrite (g_set_neq _ Z.eqb_eq) by (apply (Hx _ _ H)). apply (E1_of s HQ _ _ H).
    + intros _. split; [reflexivity | exact Hx].
Qed.
Lemma Q_continue_backlog r s : Q s -> aget Z.eqb r (backlogs s) <> None -> Q (_continue_backlog r s).
Proof.
  intros HQ HB. unfold _continue_backlog. destruct (aget Z.eqb r (backlogs s)); [|contradiction].
  apply Q_continue_backlog_loop; exact HQ.
Qed.
Lemma Q_remove_exchange r mid s : Q s -> Q (_remove_exchange r mid s).
Proof.
  intros HQ. unfold _remove_exchange. destruct (aget key_eqb (r, mid) (exchanges s)) as [h|] eqn:G; [|exact HQ].
  apply Q_continue_backlog.
  - apply Q_rm_exchange; [exact HQ|]. intros h' G'. congruence.
  - simpl. apply (E1_of s HQ (r, mid) h). apply (g_in _ key_eqb_eq). exact G.
Qed.

Lemma Q_retransmit r w t c s : Q s -> aget key_eqb (r, w_mid w) (exchanges s) <> None -> Q (_retransmit r w t c s).
Proof.
  intros HQ HG. unfold _retransmit. destruct (aget key_eqb (r, w_mid w) (exchanges s)) as [h|] eqn:G; [|contradiction].
  destruct (Q_pop_exchange _ _ _ HQ G) as [Q1 N1]. simpl in N1.
  assert (B1 : aget Z.eqb r (backlogs s) <> None).
  { apply (E1_of s HQ (r, w_mid w) h). apply (g_in _ key_eqb_eq). exact G. }
  set (s1 := cancel h _) in *.
  destruct (c <? MAX_RETRANSMIT).
  - pose proof (Q_push_exchange r w (t * 2) (c + 1) s1 Q1 N1 B1) as H. simpl in H.
    unfold _schedule_retransmit, call_later. simpl. apply Q_send_via. exact H.
  - change (backlogs s1) with (backlogs s). destruct (aget Z.eqb r (backlogs s)) eqn:GB; [|contradiction].
    apply Q_tm_dispatch_error. apply Q_set_backlogs; [|exact Q1].
    intros k h' H. rewrite (g_rm_neq _ Z.eqb_eq) by (apply (N1 _ _ H)). apply (E1_of s1 Q1 _ _ H).
Qed.

(* piggy-back opportunities *)
Lemma Q_set_piggy_other v s : Q s ->
  (forall d q r tok, In (d, q, TEmptyAck r tok) (timers s) -> aget tokkey_eqb (r, tok) v = aget tokkey_eqb (r, tok) (piggy s)) ->
  Q (set_piggy v s).
Proof.
  intros (A & B & C & D & E & F) H. repeat split; auto.
  intros d q r tok HI. simpl. rewrite (H _ _ _ _ HI). eapply E; eauto.
Qed.
Lemma Q_pop_piggy pk h s : Q s -> (forall mid' h', aget tokkey_eqb pk (piggy s) = Some (mid', h') -> h' = h) ->
  Q (cancel h (set_piggy (aremove tokkey_eqb pk (piggy s)) s)).
Proof.
  intros (A & B & C & D & E & F) G. repeat split; auto.
  - intros d q r w t c H. simpl in H. apply filter_In in H as [H _]. eapply D; eauto.
  - intros d q r tok H. simpl in H. apply filter_In in H as [H Hq]. simpl in Hq. simpl.
    destruct (E _ _ _ _ H) as [mid Gm].
    destruct (tokkey_eqb pk (r, tok)) eqn:Ek.
    + apply tokkey_eqb_eq in Ek; subst pk. rewrite (G _ _ Gm), Z.eqb_refl in Hq. discriminate.
    + exists mid. rewrite (g_rm_neq _ tokkey_eqb_eq); [exact Gm|]. intros N. subst pk. rewrite (eqb_refl' _ tokkey_eqb_eq) in Ek. discriminate.
Qed.

Lemma cancel_set_piggy h v s : cancel h (set_piggy v s) = set_piggy v (cancel h s).
Proof. reflexivity. Qed.

Lemma Q_send_message m a s : Q s -> Q (send_message m a s).
Proof.
  intros HQ. unfold send_message. cbv zeta.
  assert (D : forall s0, Q s0 -> Q
    (let t := match a_rel a with Some true => CON | Some false => NON | None => match i_type m with NON => NON | _ => CON end end in
     let '(s1, mid) := _next_message_id s0 in
     let w := {| w_type := t; w_code := a_code a; w_mid := mid; w_token := i_token m; w_payload := a_payload a |} in
     match t, aget Z.eqb (i_remote m) (backlogs s1) with
     | CON, Some b => set_backlogs (aset Z.eqb (i_remote m) (b ++ [w]) (backlogs s1)) s1
     | _, _ => _send_initially (i_remote m) w true s1
     end)).
  { intros s0 Q0. cbv zeta. unfold _next_message_id.
    set (s1 := set_message_id _ s0). assert (Q1 : Q s1) by (subst s1; revert Q0; qframe).
    assert (Cn : forall t, t <> CON -> Q (_send_initially (i_remote m) {| w_type := t; w_code := a_code a; w_mid := message_id s0; w_token := i_token m; w_payload := a_payload a |} true s1)).
    { intros t Ht. apply Q_send_initially; [exact Q1|]. simpl. intros; contradiction. }
    assert (Cc : Q match aget Z.eqb (i_remote m) (backlogs s1) with
                   | Some b => set_backlogs (aset Z.eqb (i_remote m) (b ++ [{| w_type := CON; w_code := a_code a; w_mid := message_id s0; w_token := i_token m; w_payload := a_payload a |}]) (backlogs s1)) s1
                   | None => _send_initially (i_remote m) {| w_type := CON; w_code := a_code a; w_mid := message_id s0; w_token := i_token m; w_payload := a_payload a |} true s1 end).
    { destruct (aget Z.eqb (i_remote m) (backlogs s1)) eqn:G.
      - apply Q_set_backlogs; [|exact Q1]. intros k h H.
        destruct (Z.eq_dec (fst k) (i_remote m)) as [E | N].
        + rewrite E, (g_set_eq _ Z.eqb_eq). discriminate.
        + rewrite (g_set_neq _ Z.eqb_eq) by exact N. apply (E1_of s1 Q1 _ _ H).
      - apply Q_send_initially; [exact Q1|]. intros _. split; [reflexivity|]. apply no_backlog_no_xr; [apply E1_of; exact Q1 | exact G]. }
    destruct (a_rel a) as [[|]|]; [exact Cc | apply Cn; discriminate |].
    destruct (i_type m); try exact Cc. apply Cn; discriminate. }
  destruct (is_response (a_code a)); [|apply D; exact HQ].
  destruct (aget tokkey_eqb (i_remote m, i_token m) (piggy s)) as [[mid h]|] eqn:G.
  - assert (Q1 : Q (cancel h (set_piggy (aremove tokkey_eqb (i_remote m, i_token m) (piggy s)) s))).
    { apply Q_pop_piggy; [exact HQ|]. intros mid' h' G'. congruence. }
    destruct (negb _); (apply Q_send_initially; [exact Q1 | simpl; intros; discriminate]).
  - destruct (negb _); [exact HQ | apply D; exact HQ].
Qed.

Lemma Q_finish m a s : Q s -> Q (finish m a s).
Proof. intros HQ. unfold finish. generalize (Q_send_message m (render_copy m a) s HQ). qframe. Qed.
Lemma Q_handler_respond sid a s : Q s -> Q (handler_respond sid a s).
Proof.
  intros HQ. unfold handler_respond. destruct (aget Z.eqb sid (waiting s)); [|exact HQ].
  apply Q_finish. revert HQ. qframe.
Qed.
Lemma Q_handler_raise sid x s : Q s -> Q (handler_raise sid x s).
Proof.
  intros HQ. unfold handler_raise. destruct (aget Z.eqb sid (waiting s)); [|exact HQ].
  apply Q_finish. revert HQ. qframe.
Qed.
Lemma Q_render_to_pipe m s : Q s -> Q (render_to_pipe m s).
Proof.
  intros HQ. unfold render_to_pipe.
  set (s1 := emit _ _). assert (Q1 : Q s1).
  { subst s1. apply Q_emit; [intros; discriminate|]. revert HQ. qframe. }
  destruct (i_path m); try (apply Q_finish; exact Q1). revert Q1. qframe.
Qed.
Lemma Q_process_request m s : Q s -> Q (process_request m s).
Proof.
  intros HQ. unfold process_request. apply Q_render_to_pipe.
  set (s1 := match aget inckey_eqb (i_token m, i_remote m) (incoming s) with Some old => _ | None => _ end).
  assert (Q1 : Q s1) by (subst s1; destruct (aget inckey_eqb (i_token m, i_remote m) (incoming s)); [apply Q_stop_incoming; exact HQ | exact HQ]).
  revert Q1. qframe.
Qed.

Lemma Q__process_request m s : Q s -> Q (_process_request m s).
Proof.
  intros HQ. unfold _process_request. apply Q_process_request.
  destruct (i_type m); try exact HQ.
  unfold call_later. simpl.
  set (pk := (i_remote m, i_token m)). set (h := tseq s).
  set (new := (now s + EMPTY_ACK_DELAY, h, TEmptyAck (i_remote m) (i_token m))).
  destruct HQ as (A & B & C & D & E & F).
  destruct (aget tokkey_eqb pk (piggy s)) as [[mo old]|] eqn:G; simpl; repeat split; auto.
  - intros d q r w t c H. simpl in H. apply filter_In in H as [H _]. apply in_app_iff in H as [H | [H | []]]; [eapply D; eauto | discriminate].
  - intros d q r tok H. simpl in H. apply filter_In in H as [H Hq]. simpl in Hq. simpl.
    apply in_app_iff in H as [H | [H | []]].
    + destruct (E _ _ _ _ H) as [mid' Gm].
      destruct (tokkey_eqb pk (r, tok)) eqn:Ek.
      * apply tokkey_eqb_eq in Ek. rewrite <- Ek in Gm. rewrite G in Gm. inversion Gm; subst. rewrite Z.eqb_refl in Hq. discriminate.
      * assert (N : (r, tok) <> pk) by (intros N; rewrite N, (eqb_refl' _ tokkey_eqb_eq) in Ek; discriminate).
        exists mid'. rewrite (g_set_neq _ tokkey_eqb_eq) by exact N. rewrite (g_rm_neq _ tokkey_eqb_eq) by exact N. exact Gm.
    + inversion H; subst. exists (i_mid m). apply (g_set_eq _ tokkey_eqb_eq).
  - intros d q r w t c H. simpl in H. apply in_app_iff in H as [H | [H | []]]; [eapply D; eauto | discriminate].
  - intros d q r tok H. simpl in H |- *. apply in_app_iff in H as [H | [H | []]].
    + destruct (E _ _ _ _ H) as [mid' Gm].
      destruct (tokkey_eqb pk (r, tok)) eqn:Ek.
      * apply tokkey_eqb_eq in Ek. rewrite <- Ek in Gm. congruence.
      * assert (N : (r, tok) <> pk) by (intros N; rewrite N, (eqb_refl' _ tokkey_eqb_eq) in Ek; discriminate).
        exists mid'. rewrite (g_set_neq _ tokkey_eqb_eq) by exact N. exact Gm.
    + inversion H; subst. exists (i_mid m). apply (g_set_eq _ tokkey_eqb_eq).
Qed.

Lemma Q_on_timeout r tok s : Q s -> aget tokkey_eqb (r, tok) (piggy s) <> None ->
  (forall d q, ~ In (d, q, TEmptyAck r tok) (timers s)) -> Q (on_timeout r tok s).
Proof.
  intros HQ HG HN. unfold on_timeout. destruct (aget tokkey_eqb (r, tok) (piggy s)) as [[mid h]|]; [|contradiction].
  unfold _send_empty_ack. apply Q_send_initially; [|simpl; intros; discriminate].
  apply Q_set_piggy_other; [exact HQ|]. intros d q r' tok' H.
  apply (g_rm_neq _ tokkey_eqb_eq). intros N. inversion N; subst. apply (HN _ _ H).
Qed.

Lemma Q_dispatch_rest m s : Q s -> Q (dispatch_rest m s).
Proof.
  intros HQ. unfold dispatch_rest.
  set (s1 := if is_ackrst (i_type m) then _ else s).
  assert (Q1 : Q s1) by (subst s1; destruct (is_ackrst (i_type m)); [apply Q_remove_exchange; exact HQ | exact HQ]).
  assert (RST_ok : Q (_send_initially (i_remote m) {| w_type := RST; w_code := EMPTY; w_mid := i_mid m; w_token := []; w_payload := [] |} false s1)).
  { apply Q_send_initially; [exact Q1 | simpl; intros; discriminate]. }
  destruct ((i_code m =? EMPTY) && mtype_eqb (i_type m) CON); [exact RST_ok|].
  destruct ((i_code m =? EMPTY) && is_ackrst (i_type m)); [exact Q1|].
  destruct (is_request (i_code m) && negb (is_ackrst (i_type m))); [apply Q__process_request; exact Q1|].
  destruct (is_response (i_code m) && negb (mtype_eqb (i_type m) RST)); [|exact Q1].
  destruct (mtype_eqb (i_type m) CON); [exact RST_ok | exact Q1].
Qed.

Lemma Q_dispatch_message m s : Inv s -> Q s -> Q (dispatch_message m s).
Proof.
  intros HI HQ. destruct (is_request (i_code m)) eqn:Rq.
  - destruct (aget key_eqb (msg_key m) (recent s)) as [v|] eqn:G.
    + rewrite (dispatch_dup m s v Rq G). destruct (i_type m); try exact HQ. destruct v as [[r w]|]; [|exact HQ].
      apply Q_send_initially; [exact HQ|]. intros Hc. destruct HI as (_ & _ & I3 & _). destruct (I3 _ _ _ G) as (_ & _ & Ha).
      rewrite Hc in Ha. discriminate.
    + rewrite (dispatch_fresh m s Rq G). apply Q_dispatch_rest. revert HQ. unfold insert_key. qframe.
  - rewrite (dispatch_nonreq m s Rq). apply Q_dispatch_rest; exact HQ.
Qed.

Lemma Q_fire s : Inv s -> Q s -> Q (fire s).
Proof.
  intros HI HQ. unfold fire.
  destruct (min_timer (all_timers s)) as [[[d q] [k0 | t]]|] eqn:M; [| |exact HQ].
  - pose proof (min_timer_in _ _ M) as Hin. apply in_all_forget in Hin.
    destruct HI as (I1 & _).
    assert (P0 : aget key_eqb k0 (recent s) <> None) by (apply I1; apply in_map_iff; exists (d, q, k0); auto).
    simpl. destruct (aget key_eqb k0 (recent s)); [|contradiction]. revert HQ. qframe.
  - pose proof (min_timer_in _ _ M) as Hin. apply in_all_timer in Hin.
    set (s2 := cancel q (set_now (Z.max (now s) d) s)).
    assert (Q2 : Q s2) by (subst s2; apply Q_cancel; revert HQ; qframe).
    destruct t as [r tok | r w t c].
    + destruct HQ as (A & B & C & D & E & F). destruct (E _ _ _ _ Hin) as [mid Gm].
      apply Q_on_timeout; [exact Q2 | simpl; congruence |].
      intros d' q' H. simpl in H. apply filter_In in H as [H Hq]. simpl in Hq.
      destruct (E _ _ _ _ H) as [mid' Gm']. rewrite Gm in Gm'. inversion Gm'; subst. rewrite Z.eqb_refl in Hq. discriminate.
    + destruct HQ as (A & B & C & D & E & F). apply Q_retransmit; [exact Q2|]. simpl. rewrite (D _ _ _ _ _ _ Hin). discriminate.
Qed.

Lemma Q_advance_loop fuel target : forall s, Inv s -> Q s -> Q (advance_loop fuel target s).
Proof.
  induction fuel as [|fuel IH]; intros s HI HQ; simpl; [exact HQ|].
  destruct (next_due s) as [due|]; [|exact HQ]. destruct (due <=? target); [|exact HQ].
  apply IH; [apply (fire_spec s HI) | apply Q_fire; assumption].
Qed.
Lemma Q_advance d s : Inv s -> Q s -> Q (advance d s).
Proof.
  intros HI HQ. unfold advance. destruct (d <? 0); [exact HQ|].
  pose proof (Q_advance_loop advance_fuel (now s + d) s HI HQ) as Q1.
  destruct (next_due (advance_loop advance_fuel (now s + d) s)) as [due|]; [destruct (due <=? now s + d); [exact Q1|]|]; revert Q1; qframe.
Qed.

Lemma Q_step s e : Inv s -> Q s -> Q (step s e).
Proof.
  intros HI HQ. destruct e as [m | | d | sid a | sid x | r b | r]; simpl.
  - apply Q_dispatch_message; assumption.
  - apply Q_fire; assumption.
  - apply Q_advance; assumption.
  - apply Q_handler_respond; exact HQ.
  - apply Q_handler_raise; exact HQ.
  - revert HQ. qframe.
  - apply Q_mm_dispatch_error; exact HQ.
Qed.

Lemma Q_init mid0 u : Q (init mid0 u).
Proof.
  unfold Q, E0, E1, E2, E3, P1, NX, init; simpl. split; [constructor|].
  split; [intros k h []|]. split; [intros k1 h1 k2 h2 []|]. split; [intros d q r w t c []|]. split; [intros d q r tok []|].
  intros t e [].
Qed.

Lemma Q_run evs : forall s, Inv s -> Q s -> Q (run s evs).
Proof.
  induction evs as [|e evs IH]; intros s HI HQ; simpl; [exact HQ|].
  apply IH; [apply (step_spec s e HI) | apply Q_step; assumption].
Qed.

(* no reachable state has logged an internal error *)
Lemma no_exception_lemma mid0 u evs t e : ~ In (Exn t e) (outs (run (init mid0 u) evs)).
Proof.
  destruct (Q_run evs (init mid0 u) (Inv_init mid0 u) (Q_init mid0 u)) as (_ & _ & _ & _ & _ & F). apply F.
Qed.
Lemma no_exception_from s evs : Inv s -> Q s -> forall t e, ~ In (Exn t e) (outs (run s evs)).
Proof. intros HI HQ. destruct (Q_run evs s HI HQ) as (_ & _ & _ & _ & _ & F). exact F. Qed.
Lemma Q_reachable mid0 u evs : Q (run (init mid0 u) evs).
Proof. apply Q_run; [apply Inv_init | apply Q_init]. Qed.
