(* C01 — Options.encode/decode loops, Message.encode/decode, round trip, totality of parsing *)
From Verif Require Import Lib.Py Lib.Tactics Lib.PyLemmas Gen.options_ext Gen.optiontypes_min Gen.optnum_table Model.C01Types Model.C01Utf8 Model.C01 Model.C01Rfc Proofs.C01Utf8 Proofs.C01Ext.
From Coq Require Import Permutation Sorted.
Open Scope Z_scope.

(* ------------------------------------------------------------------ option_list is the stable sort by option number *)
Definition num_le (a b : Z * optval) : Prop := fst a <= fst b.

Lemma insert_option_perm o l : Permutation (insert_option o l) (o :: l).
Proof.
  induction l as [|x r IH]; cbn [insert_option]; [reflexivity|].
  destruct (fst o <=? fst x); [reflexivity|]. rewrite IH. apply perm_swap.
Qed.
Lemma option_list_perm l : Permutation (option_list l) l.
Proof. induction l as [|o l IH]; cbn; [constructor|]. rewrite insert_option_perm. constructor. exact IH. Qed.

Lemma insert_option_sorted o l : Sorted num_le l -> Sorted num_le (insert_option o l).
Proof.
  induction l as [|x r IH]; intros S; cbn [insert_option]; [repeat constructor|].
  destruct (fst o <=? fst x) eqn:E.
  - constructor; [exact S|constructor; unfold num_le; lia].
  - inversion S as [|? ? S' H]; subst. constructor; [apply IH; exact S'|].
    destruct r as [|y r']; cbn [insert_option]; [constructor; unfold num_le; lia|].
    destruct (fst o <=? fst y); constructor; unfold num_le; [lia|]. inversion H; subst. assumption.
Qed.
Lemma option_list_sorted l : Sorted num_le (option_list l).
Proof. induction l as [|o l IH]; cbn; [constructor|]. apply insert_option_sorted. exact IH. Qed.

Lemma insert_option_filter n o l :
  filter (fun x => fst x =? n) (insert_option o l) = filter (fun x => fst x =? n) (o :: l).
Proof.
  induction l as [|x r IH]; cbn [insert_option]; [reflexivity|].
  destruct (fst o <=? fst x) eqn:E; [reflexivity|].
  cbn [filter] in *. rewrite IH. destruct (fst o =? n) eqn:A, (fst x =? n) eqn:B; try reflexivity. lia.
Qed.
(* stability: the options of one number keep their insertion order *)
Lemma option_list_stable n l : filter (fun x => fst x =? n) (option_list l) = filter (fun x => fst x =? n) l.
Proof.
  induction l as [|o l IH]; [reflexivity|]. change (option_list (o :: l)) with (insert_option o (option_list l)).
  rewrite insert_option_filter. cbn [filter]. rewrite IH. reflexivity.
Qed.

Lemma options_ok_cons maxv prev n v r : options_ok maxv prev ((n, v) :: r) = true <->
  0 <= n - prev <= maxv /\ legal (class_of (rfc_format_of n)) v = true /\ blen (rfc_value v) <= maxv /\ options_ok maxv n r = true.
Proof. cbn [options_ok]. rewrite !andb_true_iff, !Z.leb_le. tauto. Qed.
Lemma options_ok_head_le maxv prev l : options_ok maxv prev l = true -> match l with [] => True | x :: _ => prev <= fst x end.
Proof. destruct l as [|[n v] r]; [trivial|]. rewrite options_ok_cons. cbn [fst]. lia. Qed.
Lemma option_list_sorted_id maxv l : forall prev, options_ok maxv prev l = true -> option_list l = l.
Proof.
  induction l as [|[n v] r IH]; intros prev H; [reflexivity|].
  change (option_list ((n, v) :: r)) with (insert_option (n, v) (option_list r)).
  apply options_ok_cons in H. assert (H' : options_ok maxv n r = true) by tauto.
  rewrite (IH n H'). pose proof (options_ok_head_le maxv n r H') as L.
  destruct r as [|x r']; [reflexivity|]. cbn [insert_option fst]. replace (n <=? fst x) with true by lia. reflexivity.
Qed.
Lemma options_ok_weaken a b prev l : a <= b -> options_ok a prev l = true -> options_ok b prev l = true.
Proof.
  intros L. revert prev. induction l as [|[n v] r IH]; intros prev H; [reflexivity|].
  rewrite options_ok_cons in *. destruct H as (A & B & C & D). repeat split; try lia; [exact B|apply IH; exact D].
Qed.

(* ------------------------------------------------------------------ Options.encode produces the RFC's option sequence *)
Definition raw_option (o : Z * optval) : Z * bytes := (fst o, rfc_value (snd o)).

Lemma head_byte d l : 0 <= d <= 14 -> 0 <= l <= 14 ->
  bytes_of_int (Z.shiftl (Z.land d 15) 4 + Z.land l 15) = Ok [d * 16 + l].
Proof.
  intros Hd Hl. rewrite !nib_land by lia. rewrite shiftl4. unfold bytes_of_int, byte_ok.
  replace ((0 <=? d * 16 + l) && (d * 16 + l <? 256)) with true by lia. reflexivity.
Qed.

Lemma Options_encode_loop_is_rfc l : forall prev, options_ok 65804 prev l = true ->
  Options_encode_loop prev l = Ok (rfc_options prev (map raw_option l)) /\ bytes_ok (rfc_options prev (map raw_option l)) = true.
Proof.
  induction l as [|[n v] r IH]; intros prev H; [split; reflexivity|].
  apply options_ok_cons in H. destruct H as (Hd & Hl & Hlen & Hr).
  rewrite <- table_matches_rfc in Hl. destruct (option_encode_is_rfc _ _ Hl) as [E O].
  destruct (IH n Hr) as [IE IO]. pose proof (blen_nonneg (rfc_value v)) as Hnn.
  cbn [Options_encode_loop map raw_option rfc_options fst snd]. rewrite E. cbn [bind].
  rewrite write_ext_spec by lia. cbn [bind]. rewrite write_ext_spec by lia. cbn [bind].
  rewrite head_byte by (apply nibble_range; lia). cbn [bind]. rewrite IE. cbn [bind].
  unfold rfc_option. cbn [app]. rewrite <- !app_assoc. split; [reflexivity|].
  rewrite bytes_ok_cons, !bytes_ok_app, O, IO, !extended_ok by lia.
  pose proof (nibble_range (n - prev)). pose proof (nibble_range (blen (rfc_value v))). unfold byte_ok. lia.
Qed.

(* ------------------------------------------------------------------ Options.decode on a well-formed option sequence *)
Lemma ExtField_nib nib ext v : ExtField nib ext v -> 0 <= nib <= 14 /\ 0 <= v <= 65804 /\ 0 <= blen ext <= 2.
Proof. intros H. destruct H; cbn; lia. Qed.
Lemma ExtField_of v : 0 <= v <= 65804 -> ExtField (nibble v) (extended v) v.
Proof.
  intros H. unfold nibble, extended. destruct (v <? 13) eqn:A; [constructor; lia|].
  destruct (v <? 269) eqn:B.
  - assert (X := Ext_13 (v - 13)). replace (v - 13 + 13) with v in X by lia. apply X. lia.
  - assert (X := Ext_14 ((v - 269) / 256) ((v - 269) mod 256)).
    replace ((v - 269) / 256 * 256 + (v - 269) mod 256 + 269) with v in X by lia. apply X; lia.
Qed.

Lemma length_lt_blen {A} (l : list A) n : (length l < n)%nat <-> blen l < Z.of_nat n.
Proof. unfold blen. lia. Qed.

(* one iteration of the while loop on | head | delta ext | length ext | value | rest | *)
Lemma decode_loop_step fuel prev self dn de d ln le l v rest :
  ExtField dn de d -> ExtField ln le l -> blen v = l -> bytes_ok v = true ->
  Options_decode_loop (S fuel) prev self ((dn * 16 + ln) :: de ++ le ++ v ++ rest) =
  match create_option_decode (prev + d) v with
  | Raise UnicodeDecodeError => Raise UnparsableMessage
  | Raise e => Raise e
  | Ok o => Options_decode_loop fuel (prev + d) (self ++ [(prev + d, o)]) rest
  end.
Proof.
  intros Hd Hl Hv Hok. destruct (ExtField_nib _ _ _ Hd) as (D1 & D2 & _). destruct (ExtField_nib _ _ _ Hl) as (L1 & L2 & _).
  cbn [Options_decode_loop]. rewrite blen_cons. pose proof (blen_nonneg (de ++ le ++ v ++ rest)).
  replace (1 + blen (de ++ le ++ v ++ rest) =? 0) with false by lia.
  rewrite bget_cons0. cbn [bind]. replace (dn * 16 + ln =? 255) with false by lia.
  rewrite byte_hi, byte_lo by lia. replace ((dn * 16 + ln) / 16) with dn by lia. replace ((dn * 16 + ln) mod 16) with ln by lia.
  unfold bfrom at 1. change (Z.to_nat 1) with 1%nat. cbn [skipn].
  rewrite (read_ext_ExtField _ _ _ _ Hd). cbn [bind]. rewrite (read_ext_ExtField _ _ _ _ Hl). cbn [bind].
  rewrite blen_app. pose proof (blen_nonneg rest). replace (blen v + blen rest <? l) with false by lia.
  rewrite <- Hv. rewrite bto_app, bfrom_app. unfold add_option.
  destruct (create_option_decode (prev + d) v) as [o|[]]; reflexivity.
Qed.

Lemma OptionsWF_decode prev bs ropts p : OptionsWF prev bs ropts p -> bytes_ok bs = true ->
  forall fuel self, (length bs < fuel)%nat ->
  Options_decode_loop fuel prev self bs =
  match rfc_interp_options ropts with Some os => Ok (self ++ os, p) | None => Raise UnparsableMessage end.
Proof.
  induction 1 as [prev|prev p Hp|prev dn ln de le d l v rest opts p Hd Hl Hv W IH]; intros Hok fuel self Hf.
  - destruct fuel; [inversion Hf|]. cbn. rewrite app_nil_r. reflexivity.
  - destruct fuel; [inversion Hf|]. cbn [Options_decode_loop rfc_interp_options]. rewrite blen_cons. pose proof (blen_nonneg p).
    replace (1 + blen p =? 0) with false by lia. rewrite bget_cons0. cbn [bind]. change (255 =? 255) with true. cbv iota.
    rewrite app_nil_r. reflexivity.
  - destruct fuel; [inversion Hf|].
    rewrite bytes_ok_cons, !bytes_ok_app in Hok.
    assert (Hv_ok : bytes_ok v = true) by (destruct (bytes_ok v); [reflexivity|rewrite !andb_false_r in Hok; cbn in Hok; rewrite ?andb_false_r in Hok; discriminate]).
    assert (Hr_ok : bytes_ok rest = true) by (destruct (bytes_ok rest); [reflexivity|rewrite !andb_false_r in Hok; discriminate]).
    rewrite (decode_loop_step fuel prev self dn de d ln le l v rest Hd Hl Hv Hv_ok).
    assert (Hf' : (length rest < fuel)%nat).
    { cbn [length] in Hf. rewrite !app_length in Hf. lia. }
    cbn [rfc_interp_options].
    destruct (create_option_decode_total (prev + d) v Hv_ok) as [[E I]|(o & E & I & _)]; rewrite E, I.
    + reflexivity.
    + rewrite (IH Hr_ok fuel (self ++ [(prev + d, o)]) Hf').
      destruct (rfc_interp_options opts); [|reflexivity]. rewrite <- app_assoc. reflexivity.
Qed.

(* the encoder's output is well-formed under the parse relation, and reads back as the typed options *)
Definition payload_tail (p : bytes) : bytes := match p with [] => [] | _ => 255 :: p end.
Lemma rfc_options_WF l p : forall prev, options_ok 65804 prev l = true ->
  OptionsWF prev (rfc_options prev (map raw_option l) ++ payload_tail p) (map raw_option l) p.
Proof.
  induction l as [|[n v] r IH]; intros prev H.
  - cbn. destruct p; [constructor|]. constructor. discriminate.
  - apply options_ok_cons in H. destruct H as (Hd & Hl & Hlen & Hr). pose proof (blen_nonneg (rfc_value v)).
    cbn [map rfc_options]. change (raw_option (n, v)) with (n, rfc_value v). cbv iota beta.
    unfold rfc_option. cbn [app]. rewrite <- !app_assoc.
    assert (X := OWF_option prev (nibble (n - prev)) (nibble (blen (rfc_value v))) (extended (n - prev))
                   (extended (blen (rfc_value v))) (n - prev) (blen (rfc_value v)) (rfc_value v)
                   (rfc_options n (map raw_option r) ++ payload_tail p) (map raw_option r) p).
    replace (prev + (n - prev)) with n in X by lia.
    apply X; [apply ExtField_of; lia|apply ExtField_of; lia|reflexivity|apply IH; exact Hr].
Qed.
Lemma rfc_interp_raw l : forall prev, options_ok 65804 prev l = true -> rfc_interp_options (map raw_option l) = Some l.
Proof.
  induction l as [|[n v] r IH]; intros prev H; [reflexivity|].
  apply options_ok_cons in H. destruct H as (Hd & Hl & Hlen & Hr).
  cbn [map rfc_interp_options]. change (raw_option (n, v)) with (n, rfc_value v). cbv iota beta. rewrite (IH n Hr).
  rewrite <- table_matches_rfc in Hl. destruct (option_encode_is_rfc _ _ Hl) as [_ O].
  destruct (create_option_decode_total n (rfc_value v) O) as [[E _]|(o & E & I & _)];
    rewrite (create_option_decode_rfc_value n v Hl) in E; [discriminate|]. injection E as <-. rewrite I. reflexivity.
Qed.
Lemma rfc_options_ok l : forall prev, options_ok 65804 prev l = true -> bytes_ok (rfc_options prev (map raw_option l)) = true.
Proof.
  induction l as [|[n v] r IH]; intros prev H; [reflexivity|].
  apply options_ok_cons in H. destruct H as (Hd & Hl & Hlen & Hr). pose proof (blen_nonneg (rfc_value v)).
  rewrite <- table_matches_rfc in Hl. destruct (option_encode_is_rfc _ _ Hl) as [_ O].
  cbn [map rfc_options]. change (raw_option (n, v)) with (n, rfc_value v). cbv iota beta. unfold rfc_option. cbn [app].
  rewrite bytes_ok_cons, !bytes_ok_app, O, (IH n Hr), !extended_ok by lia.
  pose proof (nibble_range (n - prev)). pose proof (nibble_range (blen (rfc_value v))). unfold byte_ok. lia.
Qed.

(* ------------------------------------------------------------------ Options.decode on arbitrary bytes: UnparsableMessage or well-formed options *)
Lemma bytes_ok_app_l a b : bytes_ok (a ++ b) = true -> bytes_ok a = true.
Proof. rewrite bytes_ok_app. intros H. apply andb_prop in H. tauto. Qed.
Lemma bytes_ok_app_r a b : bytes_ok (a ++ b) = true -> bytes_ok b = true.
Proof. rewrite bytes_ok_app. intros H. apply andb_prop in H. tauto. Qed.

Lemma Options_decode_loop_total fuel : forall prev self raw, bytes_ok raw = true -> (length raw < fuel)%nat ->
  Options_decode_loop fuel prev self raw = Raise UnparsableMessage \/
  exists l p, Options_decode_loop fuel prev self raw = Ok (self ++ l, p) /\ options_ok 65804 prev l = true /\ bytes_ok p = true.
Proof.
  induction fuel as [|fuel IH]; intros prev self raw Hok Hf; [inversion Hf|].
  destruct raw as [|b0 raw].
  { right. exists [], []. cbn. rewrite app_nil_r. repeat split. }
  rewrite bytes_ok_cons in Hok. apply andb_prop in Hok as [Hb Hok]. unfold byte_ok in Hb.
  remember (Options_decode_loop (S fuel) prev self (b0 :: raw)) as R eqn:ER.
  cbn [Options_decode_loop] in ER. rewrite blen_cons in ER. pose proof (blen_nonneg raw).
  replace (1 + blen raw =? 0) with false in ER by lia. rewrite bget_cons0 in ER. cbn [bind] in ER.
  destruct (b0 =? 255) eqn:E255.
  { right. exists [], raw. unfold bfrom in ER. change (Z.to_nat 1) with 1%nat in ER. cbn [skipn] in ER. rewrite app_nil_r. repeat split; assumption. }
  rewrite byte_hi, byte_lo in ER by lia. unfold bfrom in ER at 1. change (Z.to_nat 1) with 1%nat in ER. cbn [skipn] in ER.
  destruct (read_ext_total (b0 / 16) raw Hok) as [E1|(d & raw1 & E1 & Hd & _ & R1)]; [lia|rewrite E1 in ER; left; exact ER|].
  rewrite E1 in ER. cbn [bind] in ER. assert (Hok1 : bytes_ok raw1 = true) by (rewrite R1 in Hok; eapply bytes_ok_app_r; exact Hok).
  destruct (read_ext_total (b0 mod 16) raw1 Hok1) as [E2|(ln & raw2 & E2 & Hl & _ & R2)]; [lia|rewrite E2 in ER; left; exact ER|].
  rewrite E2 in ER. cbn [bind] in ER. assert (Hok2 : bytes_ok raw2 = true) by (rewrite R2 in Hok1; eapply bytes_ok_app_r; exact Hok1).
  destruct (blen raw2 <? ln) eqn:Elen; [left; exact ER|].
  pose proof (bto_bfrom raw2 ln) as Split.
  assert (Hv : bytes_ok (bto raw2 ln) = true) by (apply bytes_ok_firstn; exact Hok2).
  assert (Hr : bytes_ok (bfrom raw2 ln) = true) by (apply bytes_ok_skipn; exact Hok2).
  pose proof (blen_nonneg raw2).
  assert (Lv : blen (bto raw2 ln) = ln) by (apply blen_bto; lia).
  assert (Lr : (length (bfrom raw2 ln) < fuel)%nat).
  { cbn [length] in Hf. rewrite R1, R2, <- Split in Hf. rewrite !app_length in Hf. lia. }
  destruct (create_option_decode_total (prev + d) (bto raw2 ln) Hv) as [[E _]|(o & E & _ & Lg & Ln)]; rewrite E in ER; [left; exact ER|].
  cbn [bind] in ER. unfold add_option in ER.
  destruct (IH (prev + d) (self ++ [(prev + d, o)]) (bfrom raw2 ln) Hr Lr) as [X|(l & p & X & Ok1 & Ok2)]; [left; rewrite ER; exact X|].
  right. exists ((prev + d, o) :: l), p. rewrite ER, X, <- app_assoc. split; [reflexivity|]. split; [|exact Ok2].
  apply options_ok_cons. rewrite <- table_matches_rfc. repeat split; try lia; [exact Lg|exact Ok1].
Qed.

(* ------------------------------------------------------------------ Message.decode: the header *)
Lemma Message_decode_header t tkl c m1 m0 tok rest :
  0 <= t < 4 -> 0 <= tkl <= 15 -> 0 <= c < 256 -> 0 <= m1 < 256 -> 0 <= m0 < 256 -> blen tok = tkl ->
  Message_decode ((64 + t * 16 + tkl) :: c :: m1 :: m0 :: tok ++ rest) =
  ('(opt, payload) <- Options_decode [] rest ;;
   Ok {| m_type := t; m_code := c; m_mid := m1 * 256 + m0; m_token := tok; m_opt := opt; m_payload := payload |}).
Proof.
  intros Ht Hk Hc H1 H0 Htok. unfold Message_decode.
  unfold bto. change (Z.to_nat 4) with 4%nat. cbn [firstn struct_unpack_BBH].
  rewrite byte_version, byte_type, land15 by lia.
  replace ((64 + t * 16 + tkl) / 64) with 1 by lia. change (negb (1 =? 1)) with false. cbv iota.
  replace ((64 + t * 16 + tkl) / 16 mod 4) with t by lia. replace ((64 + t * 16 + tkl) mod 16) with tkl by lia.
  assert (N : Z.to_nat (4 + tkl) = S (S (S (S (length tok))))) by (unfold blen in Htok; lia).
  unfold bslice, bfrom. rewrite N. change (Z.to_nat 4) with 4%nat. cbn [firstn skipn].
  rewrite firstn_app, firstn_all, Nat.sub_diag. cbn [firstn]. rewrite app_nil_r.
  rewrite skipn_app, skipn_all, Nat.sub_diag. cbn [skipn app]. reflexivity.
Qed.

Lemma Options_decode_WF bs ropts p : OptionsWF 0 bs ropts p -> bytes_ok bs = true ->
  Options_decode [] bs = match rfc_interp_options ropts with Some os => Ok (os, p) | None => Raise UnparsableMessage end.
Proof. intros W Hok. unfold Options_decode. rewrite (OptionsWF_decode 0 bs ropts p W Hok (S (length bs)) []) by lia. reflexivity. Qed.

(* Theorem 4: every datagram that is well-formed under RFC 7252 section 3 parses into the RFC's fields (with each value read
   according to the format of its option number), unless a string option is not UTF-8: then UnparsableMessage *)
Lemma decode_wellformed bs rm : WellFormed bs rm -> bytes_ok bs = true ->
  Message_decode bs =
  match rfc_interp_options (r_options rm) with
  | Some os => Ok {| m_type := r_type rm; m_code := r_code rm; m_mid := r_mid rm; m_token := r_token rm; m_opt := os; m_payload := r_payload rm |}
  | None => Raise UnparsableMessage
  end.
Proof.
  intros W Hok. destruct W as [t tkl c m1 m0 tok rest opts p Ht Hk Hc H1 H0 Htok W].
  rewrite Message_decode_header by (try assumption; lia).
  assert (Hrest : bytes_ok rest = true).
  { rewrite !bytes_ok_cons in Hok. repeat (apply andb_prop in Hok as [_ Hok]). eapply bytes_ok_app_r; exact Hok. }
  rewrite (Options_decode_WF rest opts p W Hrest). cbn [r_options r_type r_code r_mid r_token r_payload].
  destruct (rfc_interp_options opts); reflexivity.
Qed.

(* ------------------------------------------------------------------ Message.encode *)
Definition wf_header (tkl_max : Z) (m : msg) : Prop :=
  0 <= m_type m < 4 /\ 0 <= m_code m < 256 /\ 0 <= m_mid m < 65536 /\ blen (m_token m) <= tkl_max /\
  bytes_ok (m_token m) = true /\ bytes_ok (m_payload m) = true.
Lemma header_ok_iff k m : header_ok k m = true <-> wf_header k m.
Proof. unfold header_ok, wf_header. rewrite !andb_true_iff, !Z.leb_le, !Z.ltb_lt. tauto. Qed.

Lemma rfc_encode_canonical_sorted maxv m : options_ok maxv 0 (m_opt m) = true -> canonical m = m.
Proof. intros H. unfold canonical. rewrite (option_list_sorted_id maxv _ 0 H). destruct m; reflexivity. Qed.

(* on a message whose options are already in wire order *)
Lemma Message_encode_sorted m : wf_header 15 m -> options_ok 65804 0 (m_opt m) = true ->
  Message_encode m = Ok (rfc_encode m) /\ bytes_ok (rfc_encode m) = true.
Proof.
  intros (Ht & Hc & Hm & Hk & Htok & Hpay) Hopts. pose proof (blen_nonneg (m_token m)) as Hnn.
  unfold Message_encode. rewrite type_land, nib_land by lia. change (Z.shiftl 1 6) with 64. rewrite shiftl4.
  unfold bytes_of_int, byte_ok. replace ((0 <=? 64 + m_type m * 16 + blen (m_token m)) && (64 + m_type m * 16 + blen (m_token m) <? 256)) with true by lia.
  cbn [bind]. unfold struct_pack_BH.
  replace ((0 <=? m_code m) && (m_code m <? 256) && (0 <=? m_mid m) && (m_mid m <? 65536)) with true by lia. cbn [bind].
  unfold Options_encode. rewrite (option_list_sorted_id _ _ 0 Hopts).
  destruct (Options_encode_loop_is_rfc (m_opt m) 0 Hopts) as [E O]. rewrite E. cbn [bind].
  unfold rfc_encode, rfc_message. fold raw_option. change (fun o : Z * optval => (fst o, rfc_value (snd o))) with raw_option.
  assert (B : bytes_ok ([1 * 64 + m_type m * 16 + blen (m_token m); m_code m; m_mid m / 256; m_mid m mod 256] ++ m_token m ++ rfc_options 0 (map raw_option (m_opt m))) = true).
  { rewrite !bytes_ok_app, Htok, O. rewrite !bytes_ok_cons. change (bytes_ok []) with true. unfold byte_ok. lia. }
  change (1 * 64) with 64 in *.
  destruct (m_payload m) as [|x p] eqn:P.
  - change (blen [] >? 0) with false. cbv iota. rewrite app_nil_r. rewrite <- !app_assoc. cbn [app].
    split; [reflexivity|]. cbn [app] in B. exact B.
  - rewrite blen_cons. pose proof (blen_nonneg p). replace (1 + blen p >? 0) with true by lia.
    rewrite <- !app_assoc. cbn [app]. split; [reflexivity|].
    rewrite bytes_ok_cons in Hpay. apply andb_prop in Hpay as [Hx Hp].
    rewrite !bytes_ok_cons, !bytes_ok_app, !bytes_ok_cons, Htok, O, Hp, Hx. unfold byte_ok. lia.
Qed.

Lemma Message_decode_rfc_encode m : wf_header 15 m -> options_ok 65804 0 (m_opt m) = true ->
  Message_decode (rfc_encode m) = Ok m.
Proof.
  intros (Ht & Hc & Hm & Hk & Htok & Hpay) Hopts. pose proof (blen_nonneg (m_token m)) as Hnn.
  unfold rfc_encode, rfc_message. change (fun o : Z * optval => (fst o, rfc_value (snd o))) with raw_option.
  change (1 * 64) with 64. cbn [app].
  fold (payload_tail (m_payload m)).
  rewrite Message_decode_header by lia.
  assert (W := rfc_options_WF (m_opt m) (m_payload m) 0 Hopts).
  assert (B : bytes_ok (rfc_options 0 (map raw_option (m_opt m)) ++ payload_tail (m_payload m)) = true).
  { rewrite bytes_ok_app, (rfc_options_ok _ 0 Hopts). unfold payload_tail. destruct (m_payload m); [reflexivity|].
    rewrite bytes_ok_cons, Hpay. reflexivity. }
  rewrite (Options_decode_WF _ _ _ W B), (rfc_interp_raw _ 0 Hopts). cbn [bind].
  replace (m_mid m / 256 * 256 + m_mid m mod 256) with (m_mid m) by lia. destruct m; reflexivity.
Qed.

(* ------------------------------------------------------------------ the property's first sentence, for any insertion order *)
Definition wf (m : msg) : bool := header_ok 8 m && options_ok 65804 0 (option_list (m_opt m)).

Lemma wf_canonical m : wf m = true -> wf_header 15 (canonical m) /\ options_ok 65804 0 (m_opt (canonical m)) = true.
Proof.
  unfold wf. intros H. apply andb_prop in H as [H1 H2]. apply header_ok_iff in H1. unfold wf_header in *. cbn [canonical m_type m_code m_mid m_token m_payload m_opt].
  split; [intuition lia|exact H2].
Qed.
Lemma Message_encode_canonical m : Message_encode (canonical m) = Message_encode m.
Proof.
  unfold Message_encode, Options_encode. cbn [canonical m_type m_code m_mid m_token m_payload m_opt].
  assert (I : option_list (option_list (m_opt m)) = option_list (m_opt m)); [|rewrite I; reflexivity].
  pose proof (option_list_sorted (m_opt m)) as S. induction S as [|x l S IH Hd]; [reflexivity|].
  change (option_list (x :: l)) with (insert_option x (option_list l)). rewrite IH.
  destruct Hd as [|y l' Hxy]; [reflexivity|]. cbn [insert_option]. unfold num_le in Hxy. replace (fst x <=? fst y) with true by lia. reflexivity.
Qed.

(* Theorem 2: serialising a well-formed message gives exactly the RFC 7252 section 3 wire format *)
Lemma encode_is_rfc m : wf m = true -> Message_encode m = Ok (rfc_encode (canonical m)).
Proof.
  intros H. destruct (wf_canonical m H) as [A B]. rewrite <- Message_encode_canonical.
  apply (Message_encode_sorted (canonical m) A B).
Qed.
(* Theorem 3: parsing the wire format gives the message back, options in option_list order *)
Lemma decode_encode m : wf m = true -> Message_decode (rfc_encode (canonical m)) = Ok (canonical m).
Proof.
  intros H. destruct (wf_canonical m H) as [A B]. apply Message_decode_rfc_encode; [exact A|exact B].
Qed.
Lemma roundtrip m : wf m = true -> bind (Message_encode m) Message_decode = Ok (canonical m).
Proof. intros H. rewrite (encode_is_rfc m H). cbn [bind]. apply decode_encode. exact H. Qed.

(* the encoder's output is a well-formed datagram in the sense of the parse relation *)
Lemma rfc_encode_WellFormed m : wf m = true ->
  WellFormed (rfc_encode (canonical m))
    {| r_type := m_type m; r_code := m_code m; r_mid := m_mid m; r_token := m_token m;
       r_options := map raw_option (option_list (m_opt m)); r_payload := m_payload m |}.
Proof.
  intros H. unfold wf in H. apply andb_prop in H as [H1 H2]. apply header_ok_iff in H1. destruct H1 as (Ht & Hc & Hm & Hk & Htok & Hpay).
  pose proof (blen_nonneg (m_token m)).
  unfold rfc_encode, rfc_message. cbn [canonical m_type m_code m_mid m_token m_payload m_opt].
  change (fun o : Z * optval => (fst o, rfc_value (snd o))) with raw_option. change (1 * 64) with 64. cbn [app].
  fold (payload_tail (m_payload m)).
  replace (m_mid m) with (m_mid m / 256 * 256 + m_mid m mod 256) at 3 by lia.
  apply WF_datagram with (tkl := blen (m_token m)); try lia.
  apply rfc_options_WF. exact H2.
Qed.

(* ------------------------------------------------------------------ Theorem 5: total parsing *)
Lemma Message_decode_total data : bytes_ok data = true ->
  Message_decode data = Raise UnparsableMessage \/
  exists m, Message_decode data = Ok m /\ wf_header 15 m /\ options_ok 65804 0 (m_opt m) = true.
Proof.
  intros Hok. destruct data as [|b0 [|b1 [|b2 [|b3 rest]]]]; try (left; reflexivity).
  rewrite !bytes_ok_cons in Hok. apply andb_prop in Hok as [H0 Hok]. apply andb_prop in Hok as [H1 Hok].
  apply andb_prop in Hok as [H2 Hok]. apply andb_prop in Hok as [H3 Hok]. unfold byte_ok in H0, H1, H2, H3.
  unfold Message_decode. unfold bto. change (Z.to_nat 4) with 4%nat. cbn [firstn struct_unpack_BBH].
  rewrite byte_version, byte_type, land15 by lia.
  destruct (negb (b0 / 64 =? 1)) eqn:V; [left; reflexivity|].
  set (tkl := b0 mod 16). set (data := b0 :: b1 :: b2 :: b3 :: rest).
  assert (Hr : bytes_ok (bfrom data (4 + tkl)) = true).
  { unfold bfrom. apply bytes_ok_skipn. subst data. rewrite !bytes_ok_cons, Hok. unfold byte_ok. lia. }
  assert (Htk : bytes_ok (bslice data 4 (4 + tkl)) = true /\ blen (bslice data 4 (4 + tkl)) <= 15).
  { unfold bslice. split.
    - apply bytes_ok_skipn, bytes_ok_firstn. subst data. rewrite !bytes_ok_cons, Hok. unfold byte_ok. lia.
    - unfold blen. rewrite skipn_length, firstn_length. subst tkl. lia. }
  unfold Options_decode.
  destruct (Options_decode_loop_total (S (length (bfrom data (4 + tkl)))) 0 [] (bfrom data (4 + tkl)) Hr) as [E|(l & p & E & O & P)]; [lia|rewrite E; left; reflexivity|].
  rewrite E. cbn [bind app]. right. eexists. split; [reflexivity|]. split; [|exact O].
  unfold wf_header. cbn [m_type m_code m_mid m_token m_payload]. repeat split; try lia; tauto.
Qed.

Lemma decode_total data : bytes_ok data = true ->
  Message_decode data = Raise UnparsableMessage \/
  exists m, Message_decode data = Ok m /\ Message_encode m = Ok (rfc_encode m) /\ Message_decode (rfc_encode m) = Ok m.
Proof.
  intros Hok. destruct (Message_decode_total data Hok) as [E|(m & E & Hh & Ho)]; [left; exact E|].
  right. exists m. split; [exact E|]. split.
  - apply (Message_encode_sorted m Hh Ho).
  - apply (Message_decode_rfc_encode m Hh Ho).
Qed.
