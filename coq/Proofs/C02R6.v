(* C02 — proofs. Part 8 (round 6): the message-layer invariant (every exchange's remote has a backlog entry, at most one
   exchange per remote) for all reachable states; hence no exception ever escapes the library (the model's Raised / LoopExc
   outputs are unreachable), and the hypotheses of the give-up / piggy-back theorems follow from reachability. *)
From Verif Require Import Lib.Py Lib.PyLemmas Lib.Tactics Gen.tokenmanager_next_token Model.C02 Proofs.C02 Proofs.C02Once Proofs.C02Origin Proofs.C02Inv Proofs.C02More Proofs.C02Safe.
Open Scope Z_scope.

Notation exl := (list ((remote * Z) * exch)).
Definition cnt (r : remote) (ex : exl) : nat := length (filter (fun e => fst (fst e) =? r) ex).
Definition MLInv (s : st) : Prop :=
  match exchanges s with
  | None => True
  | Some ex => forall r, (cnt r ex <= 1)%nat /\ (amem Z.eqb r (backlogs s) = false -> cnt r ex = 0%nat)
  end.
Definition noesc (o : output) : Prop := match o with Raised _ | LoopExc _ => False | _ => True end.

(* ---- counting *)
Lemma has_cnt : forall r (ex : exl), has_exchange r ex = negb (Nat.eqb (cnt r ex) 0).
Proof.
  intros r. induction ex as [|x l IH]; [reflexivity|]. unfold has_exchange, cnt in *. cbn [existsb filter].
  destruct (fst (fst x) =? r); cbn [orb length]; [reflexivity|exact IH].
Qed.
Lemma cnt_aremove_le : forall r k (ex : exl), (cnt r (aremove rm_eqb k ex) <= cnt r ex)%nat.
Proof.
  intros r k. induction ex as [|[k1 e1] l IH]; [cbn; lia|]. cbn [aremove]. unfold cnt in *. cbn [filter fst].
  destruct (rm_eqb k k1); cbn [filter fst]; destruct (fst k1 =? r); cbn [length]; lia.
Qed.
Lemma cnt_aremove_lt : forall k e (ex : exl), alookup rm_eqb k ex = Some e -> (cnt (fst k) (aremove rm_eqb k ex) < cnt (fst k) ex)%nat.
Proof.
  intros k e. induction ex as [|[k1 e1] l IH]; [discriminate|]. cbn [alookup aremove]. unfold cnt in *. cbn [filter fst].
  destruct (rm_eqb k k1) eqn:E.
  - intros _. apply rm_eqb_spec in E. subst k1. rewrite Z.eqb_refl. cbn [length]. pose proof (cnt_aremove_le (fst k) k l). unfold cnt in *. lia.
  - intros H. apply IH in H. cbn [filter fst]. destruct (fst k1 =? fst k); cbn [length]; lia.
Qed.
Lemma cnt_aset_le : forall r k e (ex : exl), (cnt r (aset rm_eqb k e ex) <= cnt r ex + (if Z.eqb (fst k) r then 1 else 0))%nat.
Proof.
  intros r k e. induction ex as [|[k1 e1] l IH]; unfold cnt in *; cbn [aset filter fst].
  - destruct (fst k =? r); cbn; lia.
  - destruct (rm_eqb k k1) eqn:E; cbn [filter fst].
    + apply rm_eqb_spec in E. subst k1. destruct (fst k =? r); cbn [length]; lia.
    + destruct (fst k1 =? r); cbn [length]; destruct (fst k =? r); lia.
Qed.
Lemma cnt_filter_other : forall r r' (ex : exl),
  cnt r' (filter (fun e => negb (fst (fst e) =? r)) ex) = if r' =? r then 0%nat else cnt r' ex.
Proof.
  intros r r'. induction ex as [|x l IH]; [destruct (r' =? r); reflexivity|]. unfold cnt in *. cbn [filter].
  destruct (fst (fst x) =? r) eqn:E1; cbn [negb filter].
  - rewrite IH. destruct (r' =? r) eqn:E2; [reflexivity|]. apply Z.eqb_eq in E1. apply Z.eqb_neq in E2.
    replace (fst (fst x) =? r') with false by (symmetry; apply Z.eqb_neq; congruence). reflexivity.
  - destruct (fst (fst x) =? r') eqn:E3; cbn [length]; rewrite IH.
    + apply Z.eqb_eq in E3. apply Z.eqb_neq in E1. replace (r' =? r) with false by (symmetry; apply Z.eqb_neq; congruence). reflexivity.
    + reflexivity.
Qed.
Lemma alookup_cnt : forall r mid e (ex : exl), alookup rm_eqb (r, mid) ex = Some e -> (1 <= cnt r ex)%nat.
Proof. intros r mid e ex H. pose proof (cnt_aremove_lt (r, mid) e ex H). cbn [fst] in *. lia. Qed.
Lemma In_cnt : forall r mid e (ex : exl), In ((r, mid), e) ex -> (1 <= cnt r ex)%nat.
Proof.
  intros r mid e ex H. destruct (In_alookup rm_eqb rm_eqb_spec _ _ _ H) as [e' L]. eapply alookup_cnt; eauto.
Qed.
Lemma In_alookup_unique : forall r mid e (ex : exl), (cnt r ex <= 1)%nat -> In ((r, mid), e) ex -> alookup rm_eqb (r, mid) ex = Some e.
Proof.
  intros r mid e. induction ex as [|[k1 e1] l IH]; intros Hc Hin; [contradiction|]. cbn [alookup].
  unfold cnt in Hc. cbn [filter fst] in Hc. destruct Hin as [Hin|Hin].
  - inversion Hin. subst. replace (rm_eqb (r, mid) (r, mid)) with true by (symmetry; apply rm_eqb_spec; reflexivity). reflexivity.
  - pose proof (In_cnt r mid e l Hin) as H1. unfold cnt in H1.
    destruct (rm_eqb (r, mid) k1) eqn:E.
    + apply rm_eqb_spec in E. subst k1. cbn [fst] in Hc. rewrite Z.eqb_refl in Hc. cbn [length] in Hc. lia.
    + apply IH; [|exact Hin]. unfold cnt. destruct (fst k1 =? r); cbn [length] in Hc; lia.
Qed.
Lemma next_timer_In : forall (ex : exl) best x, next_timer ex best = Some x -> In x ex \/ best = Some x.
Proof.
  induction ex as [|y l IH]; intros best x H; cbn [next_timer] in H; [right; exact H|].
  apply IH in H. destruct H as [H|H]; [left; right; exact H|].
  destruct best as [b|]; [destruct (earlier (snd y) (snd b))|]; inversion H; subst; auto; left; left; reflexivity.
Qed.
Lemma amem_aset : forall {V} r r' (v : V) bl, amem Z.eqb r' (aset Z.eqb r v bl) = (r' =? r) || amem Z.eqb r' bl.
Proof. intros. unfold amem. rewrite alookup_aset by exact Zeqb_spec. destruct (r' =? r); reflexivity. Qed.
Lemma amem_aremove : forall {V} r r' (bl : list (Z * V)), amem Z.eqb r' (aremove Z.eqb r bl) = negb (r' =? r) && amem Z.eqb r' bl.
Proof. intros. unfold amem. rewrite alookup_aremove by exact Zeqb_spec. destruct (r' =? r); reflexivity. Qed.

(* ---- frames *)
Lemma MLInv_frame : forall s s', exchanges s' = exchanges s -> backlogs s' = backlogs s -> MLInv s -> MLInv s'.
Proof. intros s s' H1 H2 H. unfold MLInv in *. rewrite H1, H2. exact H. Qed.
Lemma out_ok_noesc : forall q ev o, Forall (out_ok q ev) o -> Forall noesc o.
Proof. intros q ev o H. eapply Forall_impl; [|exact H]. intros [] Hx; cbn in *; try exact I; contradiction. Qed.
Definition mlok (s' : st) (o : list output) : Prop := MLInv s' /\ Forall noesc o.
Lemma add_event_ml : forall s q ev s' o, MLInv s -> _add_event s q ev = (s', o) -> mlok s' o.
Proof.
  intros s q ev s' o HI H. split.
  - pose proof (add_event_frame _ _ _ _ _ H) as (F1 & F2 & _). eapply MLInv_frame; eauto.
  - eapply out_ok_noesc. eapply add_event_out_ok; eauto.
Qed.
Lemma run_stoppers_ml : forall e qs s s' o, MLInv s -> run_stoppers s qs e = (s', o) ->
  exchanges s' = exchanges s /\ backlogs s' = backlogs s /\ Forall noesc o.
Proof.
  intros e. induction qs as [|q rest IH]; intros s s' o HI H; cbn [run_stoppers] in H; [invpairs; repeat split; constructor|].
  destruct (add_exception s q e) as [s1 o1] eqn:A. pose proof (add_event_frame _ _ _ _ _ A) as (F1 & F2 & _).
  apply add_event_ml in A; [|exact HI]. destruct A as [A1 A2].
  destruct (run_stoppers s1 rest e) as [s2 o2] eqn:R. apply IH in R; [|exact A1]. destruct R as (R1 & R2 & R3). invpairs.
  split; [congruence|]. split; [congruence|]. apply Forall_app; split; assumption.
Qed.
Lemma tm_dispatch_error_ml : forall s k r s' o, MLInv s -> tm_dispatch_error s k r = (s', o) ->
  exchanges s' = exchanges s /\ backlogs s' = backlogs s /\ Forall noesc o.
Proof.
  intros s k r s' o HI H. unfold tm_dispatch_error in H. destruct (outgoing s); [|invpairs; repeat split; constructor]. eapply run_stoppers_ml; eauto.
Qed.
Lemma mm_dispatch_error_ml : forall s k r s' o, MLInv s -> mm_dispatch_error s k r = (s', o) -> mlok s' o.
Proof.
  intros s k r s' o HI H. unfold mm_dispatch_error in H. destruct (exchanges s) as [ex|] eqn:Hex; [|invpairs; split; [exact HI|constructor]].
  destruct (tm_dispatch_error s k r) as [s1 o1] eqn:T. apply tm_dispatch_error_ml in T; [|exact HI]. destruct T as (T1 & T2 & T3). invpairs.
  split; [|exact T3]. unfold MLInv in *. cbn [exchanges backlogs set_backlogs set_exchanges]. rewrite T1, Hex. rewrite Hex in HI.
  intros r'. rewrite cnt_filter_other, amem_aremove, T2. destruct (HI r') as [H1 H2]. destruct (r' =? r); cbn [negb andb]; [split; [lia|reflexivity]|split; assumption].
Qed.
Lemma send_via_transport_ml : forall s r w s' o, MLInv s -> _send_via_transport s r w = (s', o) -> mlok s' o.
Proof.
  intros s r w s' o HI H. unfold _send_via_transport in H. destruct (refuses s r); [eapply mm_dispatch_error_ml; eauto|invpairs; split; [exact HI|repeat constructor]].
Qed.
Lemma add_exchange_ml : forall s r w m, MLInv s -> (forall ex, exchanges s = Some ex -> cnt r ex = 0%nat) -> MLInv (_add_exchange s r w m).
Proof.
  intros s r w m HI H0. unfold _add_exchange.
  set (s1 := if amem Z.eqb r (backlogs s) then s else _).
  assert (E1 : exchanges s1 = exchanges s) by (subst s1; destruct (amem Z.eqb r (backlogs s)); reflexivity).
  assert (B1 : forall r', amem Z.eqb r' (backlogs s1) = (r' =? r) || amem Z.eqb r' (backlogs s)).
  { intros r'. subst s1. destruct (amem Z.eqb r (backlogs s)) eqn:A; cbn [backlogs set_backlogs].
    - destruct (r' =? r) eqn:E; [apply Z.eqb_eq in E; subst; rewrite A; reflexivity|reflexivity].
    - apply amem_aset. }
  clearbody s1. rewrite E1. unfold MLInv in *. destruct (exchanges s) as [ex|] eqn:Hex.
  2: { rewrite E1. exact I. }
  cbn [exchanges backlogs set_seq set_exchanges]. specialize (H0 ex eq_refl).
  intros r'. rewrite B1. destruct (HI r') as [H1 H2]. pose proof (cnt_aset_le r' (r, w_mid w) {| ex_monitor := m; ex_due := now s1 + ack_timeout s1; ex_seq := seq s1; ex_timeout := ack_timeout s1; ex_counter := 0; ex_msg := w |} ex) as L.
  cbn [fst] in L. rewrite (Z.eqb_sym r r') in L. destruct (r' =? r) eqn:E; cbn [orb].
  - apply Z.eqb_eq in E. subst r'. split; [lia|discriminate].
  - split; [lia|]. intros A. specialize (H2 A). lia.
Qed.
Lemma send_initially_ml : forall s r w m s' o, MLInv s ->
  (forall ex, exchanges s = Some ex -> (w_mtype w =? CON) = true -> m <> None -> cnt r ex = 0%nat) ->
  _send_initially s r w m = (s', o) -> mlok s' o.
Proof.
  intros s r w m s' o HI H0 H. unfold _send_initially in H. apply send_via_transport_ml in H; [exact H|].
  destruct (w_mtype w =? CON); [destruct m|]; try exact HI. apply add_exchange_ml; [exact HI|]. intros ex Hex. apply H0; [exact Hex|reflexivity|discriminate].
Qed.
Lemma send_message_ml : forall s r mt tok obs m s' o, MLInv s -> send_message s r mt tok obs m = Ok (s', o) -> mlok s' o.
Proof.
  intros s r mt tok obs m s' o HI H. unfold send_message in H.
  set (mt' := match mt with None => _ | Some _ => _ end) in H. clearbody mt'.
  destruct ((mt' =? CON) && is_multicast r); [discriminate|]. cbn [_next_message_id] in H.
  set (s1 := set_next_mid s _) in H.
  assert (I1 : MLInv s1) by (eapply MLInv_frame; [| |exact HI]; reflexivity).
  clearbody s1. set (w := {| w_mtype := mt' |}) in H.
  assert (Hw : w_mtype w = mt') by reflexivity. clearbody w.
  destruct ((mt' =? CON) && amem Z.eqb r (backlogs s1)) eqn:C.
  - injection H as <- <-. split; [|constructor]. apply andb_prop in C. destruct C as [_ C].
    unfold MLInv in *. cbn [exchanges backlogs set_backlogs]. destruct (exchanges s1); [|exact I].
    intros r'. rewrite amem_aset. destruct (I1 r') as [H1 H2]. split; [exact H1|]. intros A. apply H2.
    destruct (r' =? r) eqn:E; [discriminate|exact A].
  - destruct (_send_initially s1 r w (Some m)) as [s2 o1] eqn:S. apply send_initially_ml in S; [injection H as <- <-; exact S|exact I1|].
    intros ex Hex Hc _. rewrite Hw in Hc. rewrite Hc in C. cbn [andb] in C. unfold MLInv in I1. rewrite Hex in I1. apply (I1 r). exact C.
Qed.
Lemma continue_loop_ml : forall r fuel s s' o x, MLInv s -> _continue_backlog_loop fuel s r = (s', o, x) -> mlok s' o /\ x = false.
Proof.
  intros r. induction fuel as [|f IH]; intros s s' o x HI H; cbn [_continue_backlog_loop] in H; [invpairs; repeat split; [exact HI|constructor]|].
  destruct (exchanges s) as [ex|] eqn:Hex; [|invpairs; repeat split; [exact HI|constructor]].
  destruct (alookup Z.eqb r (backlogs s)) as [bl|] eqn:Hbl; [|invpairs; repeat split; [exact HI|constructor]].
  destruct (has_exchange r ex) eqn:Hh; [invpairs; repeat split; [exact HI|constructor]|].
  assert (C0 : cnt r ex = 0%nat). { rewrite has_cnt in Hh. destruct (cnt r ex); [reflexivity|discriminate]. }
  destruct bl as [|[w m] rest].
  - invpairs. repeat split; [|constructor]. unfold MLInv in *. cbn [exchanges backlogs set_backlogs]. rewrite Hex in *.
    intros r'. rewrite amem_aremove. destruct (HI r') as [H1 H2]. split; [exact H1|]. intros A.
    destruct (r' =? r) eqn:E; [apply Z.eqb_eq in E; subst; exact C0|apply H2; exact A].
  - set (s0 := set_backlogs s _) in H.
    assert (I0 : MLInv s0).
    { unfold MLInv in *. subst s0. cbn [exchanges backlogs set_backlogs]. rewrite Hex in *. intros r'. rewrite amem_aset.
      destruct (HI r') as [H1 H2]. split; [exact H1|]. intros A. apply H2. destruct (r' =? r); [discriminate|exact A]. }
    destruct (_send_initially s0 r w (Some m)) as [s1 o1] eqn:S. apply send_initially_ml in S; [|exact I0|].
    2: { intros ex0 Hex0 _ _. subst s0. cbn [exchanges set_backlogs] in Hex0. rewrite Hex in Hex0. inversion Hex0. subst. exact C0. }
    destruct S as [S1 S2]. destruct (_continue_backlog_loop f s1 r) as [[s2 o2] x2] eqn:L. apply IH in L; [|exact S1]. destruct L as [[L1 L2] L3].
    invpairs. repeat split; [exact L1|apply Forall_app; split; assumption].
Qed.
Lemma remove_exchange_ml : forall s r w s' o x, MLInv s -> _remove_exchange s r w = (s', o, x) -> mlok s' o /\ x = false.
Proof.
  intros s r w s' o x HI H. unfold _remove_exchange in H.
  destruct (exchanges s) as [ex|] eqn:Hex; [|invpairs; repeat split; [exact HI|constructor]].
  destruct (alookup rm_eqb (r, w_mid w) ex) as [e|] eqn:L; [|invpairs; repeat split; [exact HI|constructor]].
  set (s1 := set_exchanges s _) in H.
  assert (I1 : MLInv s1).
  { unfold MLInv in *. subst s1. cbn [exchanges backlogs set_exchanges]. rewrite Hex in HI. intros r'. destruct (HI r') as [H1 H2].
    pose proof (cnt_aremove_le r' (r, w_mid w) ex). split; [lia|]. intros A. specialize (H2 A). lia. }
  assert (Bm : amem Z.eqb r (backlogs s1) = true).
  { subst s1. cbn [backlogs set_exchanges]. unfold MLInv in HI. rewrite Hex in HI. destruct (HI r) as [_ H2].
    pose proof (alookup_cnt _ _ _ _ L). destruct (amem Z.eqb r (backlogs s)); [reflexivity|]. specialize (H2 eq_refl). lia. }
  clearbody s1.
  destruct (if w_mtype w =? RST then _ else _) as [s2 o2] eqn:A.
  assert (A' : mlok s2 o2 /\ backlogs s2 = backlogs s1).
  { destruct (w_mtype w =? RST).
    - pose proof (add_event_frame _ _ _ _ _ A) as (_ & F2 & _). split; [eapply add_event_ml; eauto|exact F2].
    - invpairs. split; [split; [exact I1|constructor]|reflexivity]. }
  destruct A' as [[A1 A2] A3]. destruct (_continue_backlog s2 r) as [[s3 o3] x3] eqn:C. invpairs.
  unfold _continue_backlog in C. unfold amem in Bm. rewrite <- A3 in Bm. destruct (alookup Z.eqb r (backlogs s2)); [|discriminate].
  apply continue_loop_ml in C; [|exact A1]. destruct C as [[C1 C2] C3]. repeat split; [exact C1|apply Forall_app; split; assumption|exact C3].
Qed.
Lemma process_response_ml : forall s r w b s' o, MLInv s -> outgoing s <> None -> process_response s r w = (b, s', o) -> mlok s' o.
Proof.
  intros s r w b s' o HI Hog H. unfold process_response in H. destruct (outgoing s) as [og|]; [|contradiction].
  destruct (alookup key_eqb _ og); [|invpairs; split; [exact HI|constructor]].
  destruct (add_response _ z w r _) as [s2 o2] eqn:A. apply add_event_ml in A. 2: { destruct (negb _); [eapply MLInv_frame; [| |exact HI]; reflexivity|exact HI]. }
  invpairs. exact A.
Qed.
Lemma dispatch_message_ml : forall s r mcl w s' o, MLInv s -> outgoing s <> None -> is_request (w_code w) = false ->
  dispatch_message s r mcl w = (s', o) -> mlok s' o.
Proof.
  intros s r mcl w s' o HI Hog Hreq H. unfold dispatch_message in H. rewrite Hreq in H.
  destruct (if (w_mtype w =? ACK) || (w_mtype w =? RST) then _ else _) as [[s1 o1] x1] eqn:RE.
  assert (B : mlok s1 o1 /\ x1 = false /\ outgoing s1 <> None).
  { destruct ((w_mtype w =? ACK) || (w_mtype w =? RST)).
    - pose proof (remove_exchange_shrinks _ _ _ _ _ _ RE) as SH. apply remove_exchange_ml in RE; [|exact HI]. destruct RE as [R1 R2].
      split; [exact R1|]. split; [exact R2|]. eapply shrinks_some; eauto.
    - invpairs. split; [split; [exact HI|constructor]|]. split; [reflexivity|exact Hog]. }
  destruct B as [[B1 B2] [-> B3]].
  assert (SI : forall s2 o2 mt s3 o3, MLInv s2 -> Forall noesc o2 -> mt <> CON -> _send_initially s2 r (empty_msg mt (w_mid w)) None = (s3, o3) -> mlok s3 (o2 ++ o3)).
  { intros * I2 N2 Hm S. apply send_initially_ml in S; [|exact I2|intros ? ? ? Hn; contradiction]. destruct S. split; [assumption|apply Forall_app; split; assumption]. }
  destruct ((w_code w =? EMPTY) && (w_mtype w =? CON)).
  { destruct (_send_initially s1 r _ None) as [s2 o2] eqn:S. invpairs. eapply SI; eauto. discriminate. }
  destruct ((w_code w =? EMPTY) && ((w_mtype w =? ACK) || (w_mtype w =? RST))). { invpairs. split; assumption. }
  destruct (is_response (w_code w) && _); [|invpairs; split; assumption].
  destruct (process_response s1 r w) as [[b s2] o2] eqn:P. apply process_response_ml in P; [|exact B1|exact B3]. destruct P as [P1 P2].
  assert (N12 : Forall noesc (o1 ++ o2)) by (apply Forall_app; split; assumption).
  destruct b; [destruct (w_mtype w =? CON)|destruct ((w_mtype w =? CON) && negb mcl)].
  - destruct (_send_initially s2 r _ None) as [s3 o3] eqn:S. invpairs. rewrite app_assoc. eapply SI; [exact P1|exact N12| |exact S]. discriminate.
  - invpairs. split; assumption.
  - destruct (_send_initially s2 r _ None) as [s3 o3] eqn:S. invpairs. rewrite app_assoc. eapply SI; [exact P1|exact N12| |exact S]. discriminate.
  - invpairs. split; assumption.
Qed.

Lemma retransmit_ml : forall s r mid s' o ex, MLInv s -> exchanges s = Some ex -> alookup rm_eqb (r, mid) ex <> None ->
  _retransmit s r mid = (s', o) -> mlok s' o.
Proof.
  intros s r mid s' o ex HI Hex Hl H. unfold _retransmit in H. rewrite Hex in H.
  destruct (alookup rm_eqb (r, mid) ex) as [e|] eqn:L; [|contradiction].
  pose proof (cnt_aremove_lt (r, mid) e ex L) as Lt. cbn [fst] in Lt.
  unfold MLInv in HI. rewrite Hex in HI.
  assert (Bm : amem Z.eqb r (backlogs s) = true).
  { destruct (HI r) as [_ H2]. destruct (amem Z.eqb r (backlogs s)); [reflexivity|]. specialize (H2 eq_refl). lia. }
  destruct (ex_counter e <? 4).
  - apply send_via_transport_ml in H; [exact H|].
    unfold MLInv. cbn [exchanges backlogs set_seq set_exchanges]. intros r'. destruct (HI r') as [H1 H2].
    match goal with |- context [aset rm_eqb (r, mid) ?e0 _] => pose proof (cnt_aset_le r' (r, mid) e0 (aremove rm_eqb (r, mid) ex)) as La end.
    pose proof (cnt_aremove_le r' (r, mid) ex) as Lr. cbn [fst] in La. rewrite (Z.eqb_sym r r') in La.
    destruct (r' =? r) eqn:E.
    + apply Z.eqb_eq in E. subst r'. split; [lia|]. intros A. rewrite Bm in A. discriminate.
    + split; [lia|]. intros A. specialize (H2 A). lia.
  - cbn [backlogs set_exchanges] in H. rewrite Bm in H.
    apply tm_dispatch_error_ml in H.
    + destruct H as (T1 & T2 & T3). split; [|exact T3]. unfold MLInv. rewrite T1, T2. cbn [exchanges backlogs set_backlogs set_exchanges].
      intros r'. rewrite amem_aremove. destruct (HI r') as [H1 H2]. pose proof (cnt_aremove_le r' (r, mid) ex) as Lr.
      destruct (r' =? r) eqn:E.
      * apply Z.eqb_eq in E. subst r'. split; [lia|]. intros _. lia.
      * split; [lia|]. cbn [negb andb]. intros A. specialize (H2 A). lia.
    + unfold MLInv. cbn [exchanges backlogs set_backlogs set_exchanges].
      intros r'. rewrite amem_aremove. destruct (HI r') as [H1 H2]. pose proof (cnt_aremove_le r' (r, mid) ex) as Lr.
      destruct (r' =? r) eqn:E.
      * apply Z.eqb_eq in E. subst r'. split; [lia|]. intros _. lia.
      * split; [lia|]. cbn [negb andb]. intros A. specialize (H2 A). lia.
Qed.
Lemma shutdown_loop_noesc : forall fuel s s' o, tm_shutdown_loop fuel s = (s', o) -> Forall noesc o.
Proof.
  induction fuel as [|f IH]; intros s s' o H; cbn [tm_shutdown_loop] in H; [invpairs; constructor|].
  destruct (outgoing s) as [[|[k q] rest]|]; try (invpairs; constructor).
  destruct (add_exception _ q LibraryShutdown) as [s1 o1] eqn:A. apply add_event_out_ok in A. apply out_ok_noesc in A.
  destruct (tm_shutdown_loop f s1) as [s2 o2] eqn:L. apply IH in L. invpairs. apply Forall_app; split; assumption.
Qed.
Lemma pop_keys_ml : forall ks s, MLInv s -> MLInv (pop_keys s ks).
Proof. intros ks s H. destruct (pop_keys_frame ks s) as (_ & F2 & F3 & _). eapply MLInv_frame; eauto. Qed.
Lemma new_request_ml : forall s q r mt obs s' o, MLInv s -> new_request s q r mt obs = (s', o) -> mlok s' o.
Proof.
  intros s q r mt obs s' o HI H. unfold new_request in H. destruct (get_req s q) eqn:G; [invpairs; split; [exact HI|constructor]|].
  set (c0 := {| cq_remote := r |}) in H.
  assert (I0 : MLInv (upd_req s q c0)) by (eapply MLInv_frame; [| |exact HI]; reflexivity).
  set (s0 := upd_req s q c0) in *. clearbody s0. unfold request in H.
  destruct (outgoing s0). 2: { eapply add_event_ml in H; [exact H|exact I0]. }
  rewrite next_token_spec in H.
  set (tok := tokbytes _) in H. set (k := (tok, _)) in H. set (s1 := set_outgoing _ _) in H.
  assert (I1 : MLInv s1) by (eapply MLInv_frame; [| |exact I0]; reflexivity). clearbody s1.
  assert (I2 : MLInv (on_interest_end s1 q k)).
  { unfold on_interest_end. destruct (get_req s1 q); [|exact I1]. destruct (pipe_on_interest_end c k). apply pop_keys_ml. eapply MLInv_frame; [| |exact I1]; reflexivity. }
  set (s2 := on_interest_end s1 q k) in *. clearbody s2.
  destruct (send_message s2 r mt tok obs q) as [[s3 o3]|e] eqn:SM.
  - apply send_message_ml in SM; [|exact I2]. destruct SM. invpairs. split; [assumption|constructor; [exact I|assumption]].
  - destruct (add_exception s2 q e) as [s3 o3] eqn:A. apply add_event_ml in A; [|exact I2]. destruct A. invpairs.
    split; [assumption|constructor; [exact I|assumption]].
Qed.
Lemma step_ml : forall s e s' o, MLInv s -> ev_client e -> step s e = (s', o) -> mlok s' o.
Proof.
  intros s e s' o HI Hc H. destruct e; cbn [step] in H.
  - eapply new_request_ml; eauto.
  - destruct (outgoing s) eqn:Hog; [|invpairs; split; [exact HI|constructor]].
    eapply dispatch_message_ml; [exact HI|rewrite Hog; discriminate|exact Hc|exact H].
  - destruct (exchanges s) as [ex|] eqn:Hex; [|invpairs; split; [exact HI|constructor]].
    destruct (next_timer ex None) as [[[r mid] e]|] eqn:NT; [|invpairs; split; [exact HI|constructor]].
    apply next_timer_In in NT. destruct NT as [NT|NT]; [|discriminate].
    destruct (In_alookup rm_eqb rm_eqb_spec _ _ _ NT) as [e' L].
    eapply (retransmit_ml _ r mid s' o ex); [| |rewrite L; discriminate|exact H]; [eapply MLInv_frame; [| |exact HI]; reflexivity|exact Hex].
  - repeat dmatch; invpairs; (split; [try exact HI; (eapply MLInv_frame; [| |exact HI]; reflexivity)|constructor]).
  - eapply mm_dispatch_error_ml; eauto.
  - unfold cancel in H. destruct (get_req s q); [|invpairs; split; [exact HI|constructor]].
    destruct (cq_fut c); try (invpairs; split; [exact HI|constructor]).
    destruct (_stop_interest _) as [c' ks]. invpairs. split; [|repeat constructor]. apply pop_keys_ml. eapply MLInv_frame; [| |exact HI]; reflexivity.
  - invpairs. split; [|constructor]. unfold obs_cancel. destruct (get_req s q); [|exact HI]. destruct (cq_runner c); try exact HI.
    destruct (cq_obs_cancelled c); [exact HI|]. eapply MLInv_frame; [| |exact HI]; reflexivity.
  - invpairs. split; [eapply MLInv_frame; [| |exact HI]; reflexivity|constructor].
  - unfold shutdown in H. destruct (outgoing s); [|invpairs; split; [exact HI|constructor]].
    destruct (tm_shutdown_loop (length l) s) as [s1 o1] eqn:L. apply shutdown_loop_noesc in L. invpairs. split; [exact I|exact L].
Qed.
Lemma run_ml : forall es s s' os, MLInv s -> Forall ev_client es -> run s es = (s', os) -> MLInv s' /\ Forall noesc (concat os).
Proof.
  induction es as [|e r IH]; intros s s' os HI Hc H; cbn [run] in H; [invpairs; split; [exact HI|constructor]|].
  inversion Hc as [|? ? Hc1 Hc2]. subst.
  destruct (step s e) as [s1 o] eqn:S. apply step_ml in S; [|exact HI|exact Hc1]. destruct S as [S1 S2].
  destruct (run s1 r) as [s2 os'] eqn:R. apply IH in R; [|exact S1|exact Hc2]. destruct R. invpairs.
  split; [assumption|]. cbn [concat]. apply Forall_app; split; assumption.
Qed.
Lemma init_ml : forall t m a, MLInv (init t m a).
Proof. intros. unfold MLInv. cbn. intros r. split; [lia|reflexivity]. Qed.
Lemma reachable_mlinv : forall t m a es, Forall ev_client es -> MLInv (fst (run (init t m a) es)).
Proof. intros. destruct (run (init t m a) es) eqn:R. eapply run_ml in R; [apply R|apply init_ml|assumption]. Qed.

(* ---- from the initial state, for every list of client-side events: no second completion is attempted and NO exception escapes
   the library into the transport or the event loop *)
Definition clean (o : output) : Prop := match o with Crash _ | Raised _ | LoopExc _ => False | _ => True end.
Lemma no_crash_no_escape_lemma : forall t m a es x, Forall ev_client es -> In x (concat (snd (run (init t m a) es))) -> clean x.
Proof.
  intros t m a es x Hc Hin. pose proof (no_crash_lemma t m a es x Hc Hin) as N1.
  destruct (run (init t m a) es) as [s' os] eqn:R. eapply run_ml in R; [|apply init_ml|exact Hc]. destruct R as [_ R].
  rewrite Forall_forall in R. specialize (R x Hin). destruct x; cbn in *; auto.
Qed.

(* ---- the hypotheses of the give-up / piggy-back theorems follow from the invariant *)
Lemma fire_giveup_fails_ml : forall s ex r mid e og tok q c, Inv s -> MLInv s -> exchanges s = Some ex ->
  next_timer ex None = Some ((r, mid), e) -> (ex_counter e <? 4) = false ->
  outgoing s = Some og -> In ((tok, Some r), q) og -> get_req s q = Some c -> cq_fut c = FPending ->
  In (SetException q ConRetransmitsExceeded) (snd (step s Fire)).
Proof.
  intros s ex r mid e og tok q c HI HM Hex NT Hc Hog Hin G Hf.
  pose proof (next_timer_In _ _ _ NT) as [Hi|Hi]; [|discriminate].
  unfold MLInv in HM. rewrite Hex in HM. destruct (HM r) as [H1 H2].
  eapply fire_giveup_fails_lemma; eauto.
  - apply In_alookup_unique; assumption.
  - pose proof (In_cnt _ _ _ _ Hi). destruct (amem Z.eqb r (backlogs s)); [reflexivity|]. specialize (H2 eq_refl). lia.
Qed.
Lemma matching_delivered_ack_ml : forall s r mcl w og q c, Inv s -> MLInv s -> outgoing s = Some og -> refuses s r = false ->
  is_response (w_code w) = true -> w_mtype w = ACK ->
  matching og (w_token w) r = Some q -> get_req s q = Some c -> cq_fut c = FPending ->
  In (SetResult q (w_rid w) (w_token w) r) (snd (dispatch_message s r mcl w)).
Proof.
  intros s r mcl w og q c HI HM Hog Href Hresp Ht M G Hf. eapply matching_delivered_ack_lemma; eauto.
  destruct (_remove_exchange s r w) as [[s1 o1] x1] eqn:RE. apply remove_exchange_ml in RE; [|exact HM]. cbn [snd]. apply RE.
Qed.
