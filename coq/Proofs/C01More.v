(* C01 — round 5: messages outside wf (inexpressible deltas/lengths, option objects of another class than the number's),
   idempotence of option_list, the receive path around Message.decode *)
From Verif Require Import Lib.Py Lib.Tactics Lib.PyLemmas Gen.options_ext Gen.optiontypes_min Gen.optnum_table Gen.decode_handlers Model.C01Types Model.C01Utf8 Model.C01 Model.C01Rfc Proofs.C01Utf8 Proofs.C01Ext Proofs.C01.
From Coq Require Import Permutation Sorted String.
Open Scope Z_scope.

(* ------------------------------------------------------------------ option_list is idempotent *)
Lemma option_list_idempotent l : option_list (option_list l) = option_list l.
Proof.
  pose proof (option_list_sorted l) as S. induction S as [|x l' S IH Hd]; [reflexivity|].
  change (option_list (x :: l')) with (insert_option x (option_list l')). rewrite IH.
  destruct Hd as [|y l'' Hxy]; [reflexivity|]. cbn [insert_option]. unfold num_le in Hxy. replace (fst x <=? fst y) with true by lia. reflexivity.
Qed.
Lemma canonical_idempotent m : canonical (canonical m) = canonical m.
Proof. unfold canonical. cbn [m_type m_code m_mid m_token m_payload m_opt]. rewrite option_list_idempotent. reflexivity. Qed.
Lemma roundtrip_canonical m : wf m = true ->
  exists m', bind (Message_encode m) Message_decode = Ok m' /\ canonical m' = canonical m /\ option_list (m_opt m') = option_list (m_opt m).
Proof.
  intros H. exists (canonical m). split; [apply roundtrip; exact H|]. split; [apply canonical_idempotent|].
  cbn [canonical m_opt]. apply option_list_idempotent.
Qed.

(* ------------------------------------------------------------------ Message.encode = header ++ token ++ Options.encode ++ payload part *)
Lemma Message_encode_hdr m : wf_header 15 m ->
  Message_encode m =
  (o <- Options_encode (m_opt m) ;;
   Ok ([64 + m_type m * 16 + blen (m_token m); m_code m; m_mid m / 256; m_mid m mod 256] ++ m_token m ++ o ++ payload_tail (m_payload m))).
Proof.
  intros (Ht & Hc & Hm & Hk & Htok & Hpay). pose proof (blen_nonneg (m_token m)) as Hnn.
  unfold Message_encode. rewrite type_land, nib_land by lia. change (Z.shiftl 1 6) with 64. rewrite shiftl4.
  unfold bytes_of_int, byte_ok. replace ((0 <=? 64 + m_type m * 16 + blen (m_token m)) && (64 + m_type m * 16 + blen (m_token m) <? 256)) with true by lia.
  cbn [bind]. unfold struct_pack_BH.
  replace ((0 <=? m_code m) && (m_code m <? 256) && (0 <=? m_mid m) && (m_mid m <? 65536)) with true by lia. cbn [bind].
  destruct (Options_encode (m_opt m)) as [o|e]; [|reflexivity]. cbn [bind].
  destruct (m_payload m) as [|x p].
  - change (blen [] >? 0) with false. cbv iota. cbn [payload_tail]. rewrite !app_nil_r. rewrite <- !app_assoc. reflexivity.
  - rewrite blen_cons. pose proof (blen_nonneg p). replace (1 + blen p >? 0) with true by lia. cbn [payload_tail].
    rewrite <- !app_assoc. reflexivity.
Qed.

(* ------------------------------------------------------------------ option objects of any class *)
Lemma legal_any_witness v : legal_any v = true -> exists f, legal f v = true.
Proof. unfold legal_any. intros H. apply existsb_exists in H. destruct H as (f & _ & H). exists f. exact H. Qed.
Lemma legal_legal_any f v : legal f v = true -> legal_any v = true.
Proof. intros H. unfold legal_any. apply existsb_exists. exists f. split; [destruct f; cbn; tauto|exact H]. Qed.

Lemma options_ok_any_cons maxv prev n v r : options_ok_any maxv prev ((n, v) :: r) = true <->
  0 <= n - prev <= maxv /\ legal_any v = true /\ blen (rfc_value v) <= maxv /\ options_ok_any maxv n r = true.
Proof. cbn [options_ok_any]. rewrite !andb_true_iff, !Z.leb_le. tauto. Qed.
Lemma options_ok_to_any maxv l : forall prev, options_ok maxv prev l = true -> options_ok_any maxv prev l = true.
Proof.
  induction l as [|[n v] r IH]; intros prev H; [reflexivity|]. apply options_ok_cons in H. destruct H as (A & B & C & D).
  apply options_ok_any_cons. repeat split; try lia; [eapply legal_legal_any; exact B|apply IH; exact D].
Qed.
Lemma option_list_sorted_id_any maxv l : forall prev, options_ok_any maxv prev l = true -> option_list l = l.
Proof.
  induction l as [|[n v] r IH]; intros prev H; [reflexivity|].
  change (option_list ((n, v) :: r)) with (insert_option (n, v) (option_list r)).
  apply options_ok_any_cons in H. destruct H as (_ & _ & _ & H'). rewrite (IH n H').
  destruct r as [|[n' v'] r']; [reflexivity|]. apply options_ok_any_cons in H'. cbn [insert_option fst].
  replace (n <=? n') with true by lia. reflexivity.
Qed.

Lemma Options_encode_loop_is_rfc_any l : forall prev, options_ok_any 65804 prev l = true ->
  Options_encode_loop prev l = Ok (rfc_options prev (map raw_option l)).
Proof.
  induction l as [|[n v] r IH]; intros prev H; [reflexivity|].
  apply options_ok_any_cons in H. destruct H as (Hd & Hl & Hlen & Hr).
  destruct (legal_any_witness v Hl) as [f Hf]. destruct (option_encode_is_rfc _ _ Hf) as [E O].
  pose proof (blen_nonneg (rfc_value v)) as Hnn.
  cbn [Options_encode_loop map raw_option rfc_options fst snd]. rewrite E. cbn [bind].
  rewrite write_ext_spec by lia. cbn [bind]. rewrite write_ext_spec by lia. cbn [bind].
  rewrite head_byte by (apply nibble_range; lia). cbn [bind]. rewrite (IH n Hr). cbn [bind].
  unfold rfc_option. cbn [app]. rewrite <- !app_assoc. reflexivity.
Qed.

Lemma rfc_encode_layout m : rfc_encode m =
  [64 + m_type m * 16 + blen (m_token m); m_code m; m_mid m / 256; m_mid m mod 256] ++ m_token m ++
  rfc_options 0 (map raw_option (m_opt m)) ++ payload_tail (m_payload m).
Proof. unfold rfc_encode, rfc_message. change (fun o : Z * optval => (fst o, rfc_value (snd o))) with raw_option. change (1 * 64) with 64. reflexivity. Qed.

(* gap 4: the bytes are the RFC's also when an option object's class is not the one registered for its number *)
Lemma encode_is_rfc_any_class m : header_ok 8 m = true -> options_ok_any 65804 0 (option_list (m_opt m)) = true ->
  Message_encode m = Ok (rfc_encode (canonical m)).
Proof.
  intros Hh Ho. apply header_ok_iff in Hh. assert (H15 : wf_header 15 m) by (unfold wf_header in *; intuition lia).
  rewrite (Message_encode_hdr m H15). unfold Options_encode. rewrite (Options_encode_loop_is_rfc_any _ 0 Ho). cbn [bind].
  rewrite rfc_encode_layout. reflexivity.
Qed.

(* ------------------------------------------------------------------ gap 2: what the RFC format cannot carry is refused, never mis-framed *)
Lemma Options_encode_loop_inexpressible l : forall prev, Forall (fun o => legal_any (snd o) = true) l ->
  options_ok_any 65804 prev l = false -> Options_encode_loop prev l = Raise ValueError.
Proof.
  induction l as [|[n v] r IH]; intros prev HL H; [discriminate|].
  inversion HL as [|? ? Hv HL']; subst. cbn [snd] in Hv.
  destruct (legal_any_witness v Hv) as [f Hf]. destruct (option_encode_is_rfc _ _ Hf) as [E O].
  pose proof (blen_nonneg (rfc_value v)) as Hnn.
  cbn [Options_encode_loop]. rewrite E. cbn [bind].
  destruct (Z_le_dec 0 (n - prev)) as [D0|D0]; [|rewrite write_ext_reject by lia; reflexivity].
  destruct (Z_le_dec (n - prev) 65804) as [D1|D1]; [|rewrite write_ext_reject by lia; reflexivity].
  rewrite write_ext_spec by lia. cbn [bind].
  destruct (Z_le_dec (blen (rfc_value v)) 65804) as [L1|L1]; [|rewrite write_ext_reject by lia; reflexivity].
  rewrite write_ext_spec by lia. cbn [bind]. rewrite head_byte by (apply nibble_range; lia). cbn [bind].
  assert (Hr : options_ok_any 65804 n r = false).
  { destruct (options_ok_any 65804 n r) eqn:X; [|reflexivity]. rewrite <- H. symmetry. apply options_ok_any_cons. repeat split; try lia; assumption. }
  rewrite (IH n HL' Hr). reflexivity.
Qed.
Lemma encode_inexpressible_any m : header_ok 8 m = true -> Forall (fun o => legal_any (snd o) = true) (m_opt m) ->
  options_ok_any 65804 0 (option_list (m_opt m)) = false -> Message_encode m = Raise ValueError.
Proof.
  intros Hh HL Ho. apply header_ok_iff in Hh. assert (H15 : wf_header 15 m) by (unfold wf_header in *; intuition lia).
  rewrite (Message_encode_hdr m H15). unfold Options_encode.
  rewrite (Options_encode_loop_inexpressible _ 0); [reflexivity| |exact Ho].
  eapply Permutation_Forall; [apply Permutation_sym, option_list_perm|exact HL].
Qed.
Lemma options_ok_eq_any maxv l : forall prev, Forall (fun o => legal (get_format (fst o)) (snd o) = true) l ->
  options_ok maxv prev l = options_ok_any maxv prev l.
Proof.
  induction l as [|[n v] r IH]; intros prev HL; [reflexivity|]. inversion HL as [|? ? Hv HL']; subst. cbn [fst snd] in Hv.
  cbn [options_ok options_ok_any]. rewrite (IH n HL'). rewrite <- table_matches_rfc, Hv, (legal_legal_any _ _ Hv). reflexivity.
Qed.
Lemma encode_inexpressible m : header_ok 8 m = true -> Forall (fun o => legal (get_format (fst o)) (snd o) = true) (m_opt m) ->
  wf m = false -> Message_encode m = Raise ValueError.
Proof.
  intros Hh HL Hw. unfold wf in Hw. rewrite Hh in Hw. cbn [andb] in Hw.
  assert (HL' : Forall (fun o => legal (get_format (fst o)) (snd o) = true) (option_list (m_opt m))).
  { eapply Permutation_Forall; [apply Permutation_sym, option_list_perm|exact HL]. }
  apply encode_inexpressible_any; [exact Hh| |rewrite <- (options_ok_eq_any _ _ 0 HL'); exact Hw].
  eapply Forall_impl; [|exact HL]. intros o Ho. eapply legal_legal_any; exact Ho.
Qed.

(* ------------------------------------------------------------------ gap 1: the receive paths *)
Definition catches_only_unparsable (s : string * list string) : bool :=
  match snd s with [h] => String.eqb h "error.UnparsableMessage" | _ => false end.
Lemma decode_sites_catch_only :
  forallb catches_only_unparsable decode_sites = true /\ map fst decode_dispatch = map fst decode_sites /\
  map fst site_handlers = map fst decode_sites /\ (4 <= List.length decode_sites)%nat.
Proof. repeat split; vm_compute; reflexivity. Qed.

Lemma received_never_escapes_gen (handles : exn -> bool) : handles UnparsableMessage = true ->
  forall data, bytes_ok data = true ->
  (Message_decode data = Raise UnparsableMessage /\ received_datagram handles data = Dropped) \/
  exists m, Message_decode data = Ok m /\ received_datagram handles data = Dispatched m.
Proof.
  intros Hh data Hok. unfold received_datagram. destruct (decode_total data Hok) as [E|(m & E & _)]; rewrite E.
  - left. rewrite Hh. split; reflexivity.
  - right. exists m. split; reflexivity.
Qed.
Lemma received_never_escapes :
  Forall (fun s => forall data, bytes_ok data = true ->
    (Message_decode data = Raise UnparsableMessage /\ received_datagram (snd s) data = Dropped) \/
    exists m, Message_decode data = Ok m /\ received_datagram (snd s) data = Dispatched m) site_handlers.
Proof. unfold site_handlers. repeat (apply Forall_cons; [cbn [snd]; apply received_never_escapes_gen; reflexivity|]). apply Forall_nil. Qed.
(* and only the parser's own error is swallowed: any other exception would escape the receive path *)
Lemma received_only_unparsable_dropped :
  Forall (fun s => forall e, snd s e = true -> e = UnparsableMessage) site_handlers.
Proof. unfold site_handlers. repeat (apply Forall_cons; [cbn [snd]; intros e; destruct e; cbn; congruence|]). apply Forall_nil. Qed.
