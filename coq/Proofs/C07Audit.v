(* C07 — round 5 (clause audit): compositions and explicit splits asked for by the auditor (notes/audit/B.md, C07 gaps 1, 3, 5, 6, 7). *)
From Verif Require Import Lib.Py Lib.Tactics Gen.protocol_is_recent Model.C07 Model.C07Stack Proofs.C07Serial Proofs.C07 Proofs.C07Stack.
Open Scope Z_scope.

(* gap 7: the "128 s" of the property text is the constant the running code reads (translated from numbers/constants.py) *)
Lemma reset_time_128 : OBSERVATION_RESET_TIME = 128.
Proof. reflexivity. Qed.

(* with the library's own tuning the time clause of the translated test is "more than 128 000 000 us later" *)
Lemma default_tuning_time_rule : forall v t1 t2,
  is_recent v v t1 t2 (OBSERVATION_RESET_TIME * 1000000) = true <-> t2 > t1 + 128000000.
Proof.
  intros. rewrite is_recent_spec. unfold rfc_fresh, serial_lt. rewrite reset_time_128. change (128 * 1000000) with 128000000. lia.
Qed.

(* gap 6: freshest-delivered stated on the run of the requester model, not on the helper [accept] *)
Lemma freshest_on_run : forall k reset t0 id0 v0 ops base lo, no_reg k ops ->
  in_window base v0 -> timely lo reset t0 ->
  Forall (fun n => in_window base (n_v n) /\ timely lo reset (n_t n)) (live_notifs ops) ->
  exists acc, deliveries (observed k reset (OpEvent t0 (EvMsg id0 (Some v0) false) :: ops)) = map n_id acc ++ final_response ops
    /\ Subseq acc (live_notifs ops) /\ increasing base v0 acc
    /\ off base (last_v v0 acc) = max_off base v0 (live_notifs ops).
Proof.
  intros k reset t0 id0 v0 ops base lo Hn W0 T0 HF. exists (accept reset v0 t0 (live_notifs ops)).
  split; [apply run_delivered_characterised; exact Hn|]. split; [apply accept_subseq|].
  apply (freshest_accepted base lo); assumption.
Qed.

(* gap 5: a transport failure BEFORE the first response: request.response gets the exception, the observation is told
   NotObservable — not the network error the property text asks for (open finding C07:first-failure-signalled-as-not-observable) *)
Lemma failure_before_first_response : forall k reset now e post, no_reg k post ->
  map (view k) (run (sys0 true reset) (OpRegister k :: OpEvent now (EvExn e) :: post))
  = [] :: [EndSignal (Some NotObservable)] :: map (fun _ => []) post.
Proof. intros. apply run_not_observable; [assumption|reflexivity]. Qed.

Lemma network_error_signalled_refuted :
  run (sys0 true 128000000) [OpRegister 0; OpEvent 0 (EvExn NetworkError)]
  = [[]; [ORespExn NetworkError; OEb 0 (Some NotObservable); OEnd]].
Proof. vm_compute. reflexivity. Qed.

(* gap 1: the final response is lost on the plain `async for` path when it is dispatched while an earlier notification is
   still waiting for the consumer (open finding C07:iter-final-response-lost) *)
Lemma iterator_final_response_lost :
  concat (run (sys0 true 128000000)
    [OpIter; OpEvent 0 (EvMsg 2 (Some 5) false); OpDrain;
     OpEvent 1000000 (EvMsg 4 (Some 6) false); OpEvent 2000000 (EvMsg 5 None true); OpDrain])
  = [OResp 2; OEnd; OIt 4; OItStop].
Proof. vm_compute. reflexivity. Qed.

(* ------------------------------------------------------------------ gap 3 *)
(* the generator never both signals the end and raises *)
Lemma Request_run_error_no_raise h reset r c now ev :
  has_error (snd (Request_run h reset r c now ev)) = true -> raises (snd (Request_run h reset r c now ev)) = false.
Proof.
  destruct r as [|v1 t1|]; cbn [Request_run]; [| |discriminate].
  - destruct h, c, ev as [id [v|] [|]|e]; cbn [negb ev_is_last fst snd has_error raises]; try discriminate; reflexivity.
  - destruct c; [cbn; discriminate|].
    destruct ev as [id [v|] [|]|e]; cbn [snd app has_error raises]; try reflexivity; destruct (is_recent v1 v t1 now reset); cbn; auto.
Qed.

Lemma deliver_callbacks_no_end k ls id : forall it, end_signals (view k (snd (deliver_callbacks ls id it))) = [].
Proof. intros it. rewrite deliver_callbacks_view. induction (cnt k ls); cbn; auto. Qed.

Lemma apply_actions_end_signals k : forall acts s,
  end_signals (view k (aa_outs s acts)) <> [] -> has_error acts = true.
Proof.
  unfold aa_outs. induction acts as [|a acts IH]; intros s H; [cbn in H; congruence|].
  destruct a; cbn [apply_actions has_error] in *.
  - specialize (IH (set_parts s (s_ended s) RespDone (s_obs s) (s_iter s))). destruct (apply_actions _ acts) as [[s2 o2] r2]. cbn [fst snd] in *. apply IH. exact H.
  - specialize (IH (set_parts s (s_ended s) RespDone (s_obs s) (s_iter s))). destruct (apply_actions _ acts) as [[s2 o2] r2]. cbn [fst snd] in *. apply IH. exact H.
  - unfold callback in *. pose proof (deliver_callbacks_no_end k (callbacks (s_obs s)) id (s_iter s)) as N.
    destruct (deliver_callbacks _ id _) as [it' outs]. cbn [snd] in N.
    match goal with _ : context [apply_actions ?S acts] |- _ => specialize (IH S) end.
    destruct (apply_actions _ acts) as [[s2 o2] r2]. cbn [fst snd] in *. rewrite view_app, end_signals_app, N in H. apply IH. exact H.
  - reflexivity.
  - destruct (s_ended s).
    + specialize (IH s). destruct (apply_actions s acts) as [[s2 o2] r2]. cbn [fst snd] in *. apply IH. exact H.
    + specialize (IH (set_parts s true (s_resp s) (s_obs s) (s_iter s))). destruct (apply_actions _ acts) as [[s2 o2] r2]. cbn [fst snd] in *. apply IH. exact H.
  - cbn in H. congruence.
Qed.

(* EVERY state, every pipe event: if it hands observer k an end signal, the pipe's interest has ended when the event is done
   (generalises end_signal_ends_pipe from live states) *)
Lemma add_event_end_signal_ends k s now ev :
  end_signals (view k (snd (add_event s now ev))) <> [] -> s_ended (fst (add_event s now ev)) = true.
Proof.
  unfold add_event. destruct (s_ended s) eqn:En; [cbn; congruence|].
  destruct (s_runner s) as [|v1 t1|] eqn:Er; [| |cbn; auto].
  all: match goal with |- context [Request_run ?a ?b ?c ?d ?n ?e] =>
         pose proof (Request_run_error_no_raise a b c d n e) as NR; pose proof (error_stops_or_last a b c d n e) as SL;
         destruct (Request_run a b c d n e) as [r' acts] end; cbn [fst snd] in *.
  all: pose proof (apply_actions_end_signals k acts (set_runner s r')) as HE;
       pose proof (apply_actions_frame acts (set_runner s r')) as (_ & _ & _ & F4 & _ & F6);
       unfold aa_sys, aa_outs, aa_raised in *; destruct (apply_actions (set_runner s r') acts) as [[s1 outs] raised]; cbn [fst snd] in *.
  all: cbn in F4; rewrite En in F4; cbn [orb] in F4.
  all: destruct raised.
  all: try (intros H; specialize (HE H); rewrite (NR HE) in F6; discriminate).
  all: destruct (ev_is_last ev) eqn:El; cbn [andb].
  all: try (destruct (negb (s_ended s1)) eqn:E1; cbn [fst snd]; [reflexivity|intros _; destruct (s_ended s1); [reflexivity|discriminate]]).
  all: cbn [fst snd]; intros H; specialize (HE H); specialize (SL HE); rewrite F4; rewrite orb_false_r in SL; exact SL.
Qed.

(* ... and every application / loop op other than a re-registration of k hands k no end signal at all *)
Lemma step_end_signal_ends k s o : (forall k', o = OpRegister k' -> k' <> k) ->
  end_signals (view k (snd (step s o))) <> [] -> s_ended (fst (step s o)) = true.
Proof.
  intros Hk. destruct o as [now ev| | |k'| |]; cbn [step].
  - apply add_event_end_signal_ends.
  - destruct (negb (s_has_obs s)); [|destruct (cancelled (s_obs s))]; cbn; congruence.
  - destruct (s_resp s).
    + match goal with |- context [drain ?S] => pose proof (drain_view k S) as (V & _); destruct (drain S) as [s2 o2] end.
      cbn [fst snd] in *. rewrite view_cons, view_app, V. destruct (s_ended s); cbn; congruence.
    + pose proof (drain_view k s) as (V & _). rewrite V. cbn; congruence.
    + pose proof (drain_view k s) as (V & _). rewrite V. cbn; congruence.
  - destruct (negb (s_has_obs s)); [cbn; congruence|].
    assert (Hl : cnt k [LObserver k'] = O). { cbn. specialize (Hk k' eq_refl). destruct (k' =? k) eqn:E; [lia|reflexivity]. }
    destruct (register_callback_facts k (s_obs s) (s_iter s) (LObserver k') Hl) as (o1 & it1 & outs1 & E1 & V1 & _). rewrite E1.
    destruct (register_errback_facts k o1 it1 (LObserver k') Hl) as (o2 & it2 & outs2 & E2 & V2 & _). rewrite E2.
    cbn [fst snd]. rewrite view_app, V1, V2. cbn; congruence.
  - destruct (negb (s_has_obs s) || it_started (s_iter s)).
    + pose proof (drain_view k s) as (V & _). rewrite V. cbn; congruence.
    + match goal with |- context [register_callback _ ?I LIterator] =>
        destruct (register_callback_facts k (s_obs s) I LIterator eq_refl) as (o1 & it1 & outs1 & E1 & V1 & _) end. rewrite E1.
      destruct (register_errback_facts k o1 it1 LIterator eq_refl) as (o2 & it2 & outs2 & E2 & V2 & _). rewrite E2.
      match goal with |- context [drain ?S] => pose proof (drain_view k S) as (V & _); destruct (drain S) as [s3 o3] end.
      cbn [fst snd] in *. rewrite !view_app, V1, V2, V. cbn; congruence.
  - pose proof (drain_view k s) as (V & _). rewrite V. cbn; congruence.
Qed.

(* the first response carries no Observe option, seen from the network: whatever its type (CON / NON / piggy-backed ACK) the
   observer is told NotObservable and the token is released *)
Lemma stack_first_response_no_observe : forall k reset t0 now mt id mid, mt <> RST ->
  let k1 := fst (sstep (stack0 true reset false t0) (SApp t0 (OpRegister k))) in
  let r := sstep k1 (SResponse now mt id None true mid) in
  view k (apps (snd r)) = [EndSignal (Some NotObservable)] /\ k_token (fst r) = false.
Proof.
  intros k reset t0 now mt id mid Hmt. cbv zeta.
  assert (E0 : t0 <? t0 = false) by lia.
  set (k1 := fst (sstep (stack0 true reset false t0) (SApp t0 (OpRegister k)))).
  assert (K : k1 = {| k_sys := set_parts (sys0 true reset) false RespPending
                                 {| callbacks := [LObserver k]; errbacks := [LObserver k]; cancelled := false;
                                    latest_response := None; cancellation_reason := None |} iter0;
                      k_token := true; k_exchange := None; k_now := t0 |}).
  { unfold k1, sstep, pass_time. cbn [stack0 k_now]. rewrite E0. reflexivity. }
  rewrite K. unfold sstep, pass_time. cbn [k_now].
  destruct (t0 <? now); destruct mt, mid; try congruence; cbn; rewrite ?Z.eqb_refl; cbn; auto.
Qed.
