(* C06 — tie T for the block arithmetic: the hand-written [extract_block] / [b_size] / [b_start] of Model/C06.v agree with
   the code translated from aiocoap/message.py Message._extract_block and optiontypes.py BlockwiseTuple.size/start
   (coq/Gen/block_kernels.v, translator job block_kernels of translate/jobs/c05.py, regenerated from the source on every check).
   Removable: only the last section of Props/C06.v depends on this file. *)
From Verif Require Import Lib.Py Lib.Tactics Gen.block_kernels Model.C06.
Open Scope Z_scope.

Lemma b_size_is_source b : bt_size (b_num b) (b_more b) (b_szx b) = Ok (b_size b).
Proof. reflexivity. Qed.
Lemma b_start_is_source b : bt_start (b_num b) (b_more b) (b_szx b) = Ok (b_start b).
Proof. reflexivity. Qed.

Lemma extract_block_is_source R n szx mps :
  match block_kernels.extract_block (p_payload R) n szx mps with
  | Ok (pl, (num, more, sz)) =>
      C06.extract_block R n szx mps =
      ROk {| p_code := p_code R; p_block1 := p_block1 R;
             p_block2 := Some {| b_num := num; b_more := more; b_szx := sz |}; p_payload := pl |}
  | Raise BadRequest => C06.extract_block R n szx mps = RRaise (EBadRequest txt_out_of_bounds)
  | Raise _ => False
  end.
Proof.
  unfold block_kernels.extract_block, C06.extract_block.
  destruct (szx =? 7); cbn [bind];
  match goal with |- context [if ?s >=? ?l then _ else _] => destruct (s >=? l) eqn:E; [reflexivity|] end;
  match goal with |- context [if ?s <? ?l then _ else _] => destruct (s <? l) eqn:E2 end;
  rewrite ?E2, ?Z.ltb_irrefl; reflexivity.
Qed.

(* ---- round 5 *)
From Coq Require Import QArith.
From Verif Require Gen.c03_constants.
From Verif Require Import Proofs.C06.
Open Scope Z_scope.

(* the state lifetime of the model is the source's MAX_TRANSMIT_WAIT (numbers/constants.py, translated) in microseconds *)
Lemma T_is_source :
  Qeq (inject_Z MAX_TRANSMIT_WAIT_us)
      (Qmult (c03_constants.MAX_TRANSMIT_WAIT c03_constants.default_transport_tuning) (inject_Z 1000000)).
Proof. vm_compute. reflexivity. Qed.

(* the length check of _append_request_block ([size_ok]) is the library's own BlockwiseTuple.is_valid_for_payload_size,
   translated from optiontypes.py, for every block option (M=1 and M=0, BERT or not) *)
Lemma size_ok_is_valid b r :
  bt_is_valid_for_payload_size (b_num b) (b_more b) (b_szx b) (blen (m_payload r)) = Ok (size_ok b r).
Proof.
  unfold bt_is_valid_for_payload_size, bt_is_bert, bt_size, size_ok, is_valid_for_payload_size, b_size. cbn [bind].
  destruct (b_szx b =? 7); destruct (b_more b); reflexivity.
Qed.
