(* C01 — extended fields, bit fiddling, uint / block value codecs, the format table *)
From Verif Require Import Lib.Py Lib.Tactics Lib.PyLemmas Gen.options_ext Gen.optiontypes_min Gen.optnum_table Model.C01Types Model.C01Utf8 Model.C01 Model.C01Rfc Proofs.C01Utf8.
Open Scope Z_scope.

(* ------------------------------------------------------------------ finite case analysis on bytes / nibbles *)
Lemma range_cases (P : Z -> bool) n : forallb P (map Z.of_nat (seq 0 n)) = true -> forall b, 0 <= b < Z.of_nat n -> P b = true.
Proof.
  intros H b Hb. rewrite forallb_forall in H. apply H. apply in_map_iff. exists (Z.to_nat b). split; [lia|].
  apply in_seq. lia.
Qed.

Lemma byte_hi b : 0 <= b < 256 -> Z.shiftr (Z.land b 240) 4 = b / 16.
Proof. intros H. apply Z.eqb_eq. revert b H. apply (range_cases (fun b => Z.shiftr (Z.land b 240) 4 =? b / 16) 256). vm_compute. reflexivity. Qed.
Lemma byte_lo b : 0 <= b < 256 -> Z.land b 15 = b mod 16.
Proof. intros H. apply Z.eqb_eq. revert b H. apply (range_cases (fun b => Z.land b 15 =? b mod 16) 256). vm_compute. reflexivity. Qed.
Lemma byte_version b : 0 <= b < 256 -> Z.shiftr (Z.land b 192) 6 = b / 64.
Proof. intros H. apply Z.eqb_eq. revert b H. apply (range_cases (fun b => Z.shiftr (Z.land b 192) 6 =? b / 64) 256). vm_compute. reflexivity. Qed.
Lemma byte_type b : 0 <= b < 256 -> Z.shiftr (Z.land b 48) 4 = (b / 16) mod 4.
Proof. intros H. apply Z.eqb_eq. revert b H. apply (range_cases (fun b => Z.shiftr (Z.land b 48) 4 =? (b / 16) mod 4) 256). vm_compute. reflexivity. Qed.
Lemma nib_land b : 0 <= b < 16 -> Z.land b 15 = b.
Proof. intros H. apply Z.eqb_eq. revert b H. apply (range_cases (fun b => Z.land b 15 =? b) 16). vm_compute. reflexivity. Qed.
Lemma type_land b : 0 <= b < 4 -> Z.land b 3 = b.
Proof. intros H. apply Z.eqb_eq. revert b H. apply (range_cases (fun b => Z.land b 3 =? b) 4). vm_compute. reflexivity. Qed.
Lemma shiftl4 x : Z.shiftl x 4 = x * 16.
Proof. rewrite Z.shiftl_mul_pow2 by lia. reflexivity. Qed.
Lemma shiftr4 x : Z.shiftr x 4 = x / 16.
Proof. rewrite Z.shiftr_div_pow2 by lia. reflexivity. Qed.
Lemma land15 x : Z.land x 15 = x mod 16.
Proof. change 15 with (Z.ones 4). rewrite Z.land_ones by lia. reflexivity. Qed.
Lemma land7 x : Z.land x 7 = x mod 8.
Proof. change 7 with (Z.ones 3). rewrite Z.land_ones by lia. reflexivity. Qed.
Lemma land8 x : (Z.land x 8 =? 0) = negb ((x / 8) mod 2 =? 1).
Proof.
  replace (Z.land x 8) with (Z.land (Z.land x 15) 8) by (rewrite <- Z.land_assoc; reflexivity).
  rewrite land15. assert (H : 0 <= x mod 16 < 16) by lia.
  replace ((x / 8) mod 2) with ((x mod 16 / 8) mod 2) by lia.
  generalize dependent (x mod 16). intros y Hy. apply Bool.eqb_prop.
  revert y Hy. apply (range_cases (fun y => Bool.eqb (Z.land y 8 =? 0) (negb (y / 8 mod 2 =? 1))) 16). vm_compute. reflexivity.
Qed.

(* ------------------------------------------------------------------ _write / _read_extended_field_value *)
Lemma nibble_range v : 0 <= v -> 0 <= nibble v <= 14.
Proof. unfold nibble. intros H. destruct (v <? 13) eqn:A; [lia|]. destruct (v <? 269); lia. Qed.
Lemma extended_ok v : 0 <= v <= 65804 -> bytes_ok (extended v) = true.
Proof.
  unfold extended. intros H. destruct (v <? 13) eqn:A; [reflexivity|]. destruct (v <? 269) eqn:B;
  rewrite ?bytes_ok_cons; change (bytes_ok []) with true; unfold byte_ok; lia.
Qed.
Lemma blen_extended v : 0 <= blen (extended v) <= 2.
Proof. unfold extended. destruct (v <? 13); [cbn; lia|]. destruct (v <? 269); cbn; lia. Qed.

(* [settle]: decide every [if] of the translated code by lia, whatever the syntactic form of its test *)
Ltac settle :=
  repeat match goal with
  | |- context [if ?b then _ else _] =>
      lazymatch b with true => fail | false => fail | _ => idtac end;
      first [ replace b with true by lia | replace b with false by lia ]; cbv iota
  end.
Lemma to_bytes_big_1 x : 0 <= x < 256 -> to_bytes_big x 1 = Ok [x].
Proof.
  intros H. unfold to_bytes_big. change (2 ^ (8 * 1)) with 256. settle.
  change (Z.to_nat 1) with 1%nat. rewrite tb1, Z.mod_small by lia. reflexivity.
Qed.
Lemma to_bytes_big_2 x : 0 <= x < 65536 -> to_bytes_big x 2 = Ok [x / 256; x mod 256].
Proof.
  intros H. unfold to_bytes_big. change (2 ^ (8 * 2)) with 65536. settle.
  change (Z.to_nat 2) with 2%nat. rewrite tb2, (Z.mod_small (x / 256)) by lia. reflexivity.
Qed.

Lemma write_ext_spec v : 0 <= v <= 65804 -> write_extended_field_value v = Ok (nibble v, extended v).
Proof.
  intros H. unfold write_extended_field_value, nibble, extended.
  assert (v < 13 \/ 13 <= v < 269 \/ 269 <= v) as [C|[C|C]] by lia.
  - settle. reflexivity.
  - settle. rewrite to_bytes_big_1 by lia. reflexivity.
  - settle. rewrite to_bytes_big_2 by lia. reflexivity.
Qed.
Lemma write_ext_reject v : v < 0 \/ 65805 <= v -> write_extended_field_value v = Raise ValueError.
Proof. intros H. unfold write_extended_field_value. settle. reflexivity. Qed.

Lemma from_bytes_big_2 a b : from_bytes_big [a; b] = a * 256 + b.
Proof. unfold from_bytes_big. cbn [from_bytes_big_acc]. lia. Qed.

Lemma nibble_extended_cases v : 0 <= v <= 65804 ->
  (v < 13 /\ nibble v = v /\ extended v = []) \/
  (13 <= v < 269 /\ nibble v = 13 /\ extended v = [v - 13]) \/
  (269 <= v /\ nibble v = 14 /\ extended v = [(v - 269) / 256; (v - 269) mod 256]).
Proof.
  intros H. unfold nibble, extended.
  assert (v < 13 \/ 13 <= v < 269 \/ 269 <= v) as [C|[C|C]] by lia; [left|right; left|right; right]; settle; repeat split; lia.
Qed.
(* the reader inverts the RFC's nibble + extension bytes on the whole range 0..65804 *)
Lemma read_ext_spec v rest : 0 <= v <= 65804 -> read_extended_field_value (nibble v) (extended v ++ rest) = Ok (v, rest).
Proof.
  intros H. pose proof (blen_nonneg rest).
  destruct (nibble_extended_cases v H) as [(C & N & E)|[(C & N & E)|(C & N & E)]]; rewrite N, E; unfold read_extended_field_value.
  - settle. reflexivity.
  - cbn [app]. rewrite blen_cons. settle. rewrite bget_cons0. cbn [bind].
    unfold bfrom. change (Z.to_nat 1) with 1%nat. cbn [skipn]. f_equal. f_equal. lia.
  - cbn [app]. rewrite !blen_cons. settle.
    unfold bfrom, bto. change (Z.to_nat 2) with 2%nat. cbn [skipn firstn]. rewrite from_bytes_big_2.
    f_equal. f_equal. lia.
Qed.
Lemma read_ext_ExtField nib ext v rest : ExtField nib ext v -> read_extended_field_value nib (ext ++ rest) = Ok (v, rest).
Proof.
  intros H. destruct H as [n Hn|b Hb|b1 b0 H1 H0].
  - destruct (nibble_extended_cases n) as [(_ & N & E)|[(C' & _)|(C' & _)]]; try lia.
    pose proof (read_ext_spec n rest) as R. rewrite N, E in R. apply R. lia.
  - destruct (nibble_extended_cases (b + 13)) as [(C' & _)|[(_ & N & E)|(C' & _)]]; try lia.
    pose proof (read_ext_spec (b + 13) rest) as R. rewrite N, E in R. replace (b + 13 - 13) with b in R by lia. apply R. lia.
  - set (v := b1 * 256 + b0 + 269).
    destruct (nibble_extended_cases v) as [(C' & _)|[(C' & _)|(_ & N & E)]]; try (subst v; lia).
    replace ((v - 269) / 256) with b1 in E by (subst v; lia). replace ((v - 269) mod 256) with b0 in E by (subst v; lia).
    pose proof (read_ext_spec v rest) as R. rewrite N, E in R. apply R. subst v. lia.
Qed.

(* every outcome of the reader on a nibble: UnparsableMessage, or exactly the inverse of the RFC encoding *)
Lemma read_ext_total nib raw : bytes_ok raw = true -> 0 <= nib < 16 ->
  read_extended_field_value nib raw = Raise UnparsableMessage \/
  exists v rest, read_extended_field_value nib raw = Ok (v, rest) /\ 0 <= v <= 65804 /\ nib = nibble v /\ raw = extended v ++ rest.
Proof.
  intros Hok Hn. pose proof (blen_nonneg raw) as Hnn.
  assert (nib < 13 \/ nib = 13 \/ nib = 14 \/ nib = 15) as [C|[C|[C|C]]] by lia.
  - right. exists nib, raw. destruct (nibble_extended_cases nib) as [(_ & N & E)|[(C' & _)|(C' & _)]]; try lia.
    rewrite N, E. unfold read_extended_field_value. settle. repeat split; lia.
  - subst nib. destruct raw as [|x raw]; [left; unfold read_extended_field_value; settle; reflexivity|].
    right. rewrite bytes_ok_cons in Hok. apply andb_prop in Hok as [Hx _]. unfold byte_ok in Hx.
    exists (x + 13), raw. destruct (nibble_extended_cases (x + 13)) as [(C' & _)|[(_ & N & E)|(C' & _)]]; try lia.
    rewrite N, E. replace (x + 13 - 13) with x by lia. pose proof (read_ext_spec (x + 13) raw) as R.
    rewrite N, E in R. replace (x + 13 - 13) with x in R by lia. cbn [app] in R. rewrite R by lia. repeat split; lia.
  - subst nib. destruct raw as [|x [|y raw]]; [left; unfold read_extended_field_value; settle; reflexivity| |].
    { left. unfold read_extended_field_value. change (blen [x]) with 1. settle. reflexivity. }
    right. rewrite !bytes_ok_cons in Hok. apply andb_prop in Hok as [Hx Hok]. apply andb_prop in Hok as [Hy _]. unfold byte_ok in Hx, Hy.
    set (v := x * 256 + y + 269). exists v, raw.
    destruct (nibble_extended_cases v) as [(C' & _)|[(C' & _)|(_ & N & E)]]; try (subst v; lia).
    replace ((v - 269) / 256) with x in E by (subst v; lia). replace ((v - 269) mod 256) with y in E by (subst v; lia).
    pose proof (read_ext_spec v raw) as R. rewrite N, E in R. rewrite N, E. cbn [app] in R. rewrite R by (subst v; lia). subst v. repeat split; lia.
  - left. subst nib. unfold read_extended_field_value. settle. reflexivity.
Qed.

(* ------------------------------------------------------------------ uint: _to_minimum_bytes = the RFC's minimal big-endian digits *)
Definition bytecount (n : Z) : Z := (bit_length n + 7) / 8.

Lemma bytecount_0 : bytecount 0 = 0. Proof. reflexivity. Qed.
Lemma bytecount_pos n : 0 < n -> bytecount n = (Z.log2 n + 8) / 8.
Proof. intros H. unfold bytecount, bit_length. replace (n <=? 0) with false by lia. f_equal. lia. Qed.
Lemma bytecount_nonneg n : 0 <= bytecount n.
Proof. unfold bytecount, bit_length. destruct (n <=? 0); [cbn; lia|]. pose proof (Z.log2_nonneg n). lia. Qed.
Lemma bytecount_step n : 0 < n -> bytecount n = bytecount (n / 256) + 1.
Proof.
  intros H. rewrite (bytecount_pos n H).
  destruct (Z.lt_ge_cases n 256) as [L|G].
  - rewrite (Z.div_small n 256) by lia. rewrite bytecount_0.
    assert (Z.log2 n < 8) by (apply Z.log2_lt_pow2; [lia|change (2 ^ 8) with 256; lia]).
    pose proof (Z.log2_nonneg n). lia.
  - assert (P : 0 < n / 256) by lia. rewrite (bytecount_pos _ P).
    replace (n / 256) with (Z.shiftr n 8) by (rewrite Z.shiftr_div_pow2 by lia; reflexivity).
    rewrite Z.log2_shiftr by lia.
    assert (8 <= Z.log2 n) by (change 8 with (Z.log2 256); apply Z.log2_le_mono; lia). lia.
Qed.
Lemma bytecount_bound n k : 0 <= k -> 0 <= n < 2 ^ (8 * k) -> bytecount n <= k.
Proof.
  intros Hk H. destruct (Z.eq_dec n 0) as [->|Hn]; [rewrite bytecount_0; lia|].
  rewrite bytecount_pos by lia. assert (Z.log2 n < 8 * k) by (apply Z.log2_lt_pow2; lia). lia.
Qed.
Lemma lt_pow_bytecount n : 0 <= n -> n < 2 ^ (8 * bytecount n).
Proof.
  intros H. destruct (Z.eq_dec n 0) as [->|Hn]; [reflexivity|].
  assert (P : 0 < n) by lia. destruct (Z.log2_spec n P) as [_ U]. rewrite bytecount_pos by lia.
  eapply Z.lt_le_trans; [exact U|]. apply Z.pow_le_mono_r; [lia|]. pose proof (Z.log2_nonneg n). lia.
Qed.

Lemma to_minimum_bytes_py_eq n : 0 <= n -> to_minimum_bytes_py n = Ok (to_bytes_big_n (Z.to_nat (bytecount n)) n).
Proof.
  intros H. unfold to_minimum_bytes_py, to_bytes_big. fold (bytecount n).
  pose proof (lt_pow_bytecount n H). replace ((n <? 0) || (2 ^ (8 * bytecount n) <=? n)) with false by lia. reflexivity.
Qed.
Lemma to_minimum_bytes_py_neg n : n < 0 -> to_minimum_bytes_py n = Raise OverflowError.
Proof. intros H. unfold to_minimum_bytes_py, to_bytes_big. replace (n <? 0) with true by lia. reflexivity. Qed.

Lemma uint_digits_eq fuel : forall n, 0 <= n < 2 ^ Z.of_nat fuel -> uint_digits fuel n = to_bytes_big_n (Z.to_nat (bytecount n)) n.
Proof.
  induction fuel as [|k IH]; intros n H.
  - change (2 ^ Z.of_nat 0) with 1 in H. replace n with 0 by lia. reflexivity.
  - cbn [uint_digits]. destruct (n <=? 0) eqn:E.
    + replace n with 0 by lia. reflexivity.
    + assert (P : 0 < n) by lia. rewrite (bytecount_step n P).
      pose proof (bytecount_nonneg (n / 256)).
      replace (Z.to_nat (bytecount (n / 256) + 1)) with (S (Z.to_nat (bytecount (n / 256)))) by lia.
      cbn [to_bytes_big_n]. rewrite IH; [reflexivity|].
      rewrite Nat2Z.inj_succ, Z.pow_succ_r in H by lia. lia.
Qed.
Lemma rfc_uint_eq n : 0 <= n -> rfc_uint n = to_bytes_big_n (Z.to_nat (bytecount n)) n.
Proof.
  intros H. unfold rfc_uint. apply uint_digits_eq. split; [lia|].
  destruct (Z.eq_dec n 0) as [->|Hn]; [reflexivity|].
  assert (P : 0 < n) by lia. destruct (Z.log2_spec n P) as [_ U]. pose proof (Z.log2_nonneg n).
  replace (Z.of_nat (S (Z.to_nat (Z.log2 n)))) with (Z.succ (Z.log2 n)) by lia. exact U.
Qed.

Lemma to_minimum_bytes_is_rfc n : 0 <= n -> to_minimum_bytes_py n = Ok (rfc_uint n).
Proof. intros H. rewrite rfc_uint_eq by exact H. apply to_minimum_bytes_py_eq. exact H. Qed.
Lemma from_bytes_rfc_uint n : 0 <= n -> from_bytes_big (rfc_uint n) = n.
Proof.
  intros H. rewrite rfc_uint_eq by exact H. apply from_bytes_big_to; [apply bytecount_nonneg|].
  split; [exact H|apply lt_pow_bytecount; exact H].
Qed.
Lemma rfc_uint_ok n : 0 <= n -> bytes_ok (rfc_uint n) = true.
Proof. intros H. rewrite rfc_uint_eq by exact H. apply to_bytes_big_n_ok. Qed.
Lemma blen_rfc_uint n : 0 <= n -> blen (rfc_uint n) = bytecount n.
Proof. intros H. rewrite rfc_uint_eq by exact H. unfold blen. rewrite to_bytes_big_n_length. pose proof (bytecount_nonneg n). lia. Qed.

Lemma rfc_uint_value_acc b : forall acc, fold_left (fun a x => a * 256 + x) b acc = from_bytes_big_acc acc b.
Proof. induction b as [|x b IH]; intros acc; cbn [fold_left from_bytes_big_acc]; [reflexivity|apply IH]. Qed.
Lemma rfc_uint_value_eq b : rfc_uint_value b = from_bytes_big b.
Proof. apply rfc_uint_value_acc. Qed.
Lemma from_bytes_big_acc_bounds b : forall acc, 0 <= acc -> bytes_ok b = true ->
  acc * 2 ^ (8 * blen b) <= from_bytes_big_acc acc b < (acc + 1) * 2 ^ (8 * blen b).
Proof.
  induction b as [|x b IH]; intros acc Ha Hb.
  - cbn. lia.
  - rewrite bytes_ok_cons in Hb. apply andb_prop in Hb as [Hx Hb]. unfold byte_ok in Hx.
    cbn [from_bytes_big_acc]. rewrite blen_cons. pose proof (blen_nonneg b).
    replace (8 * (1 + blen b)) with (8 + 8 * blen b) by lia. rewrite Z.pow_add_r by lia. change (2 ^ 8) with 256.
    assert (A : 0 <= acc * 256 + x) by lia. specialize (IH (acc * 256 + x) A Hb).
    assert (0 < 2 ^ (8 * blen b)) by (apply Z.pow_pos_nonneg; lia). nia.
Qed.
Lemma from_bytes_big_bounds b : bytes_ok b = true -> 0 <= from_bytes_big b < 2 ^ (8 * blen b).
Proof. intros H. pose proof (from_bytes_big_acc_bounds b 0 (Z.le_refl 0) H) as B. unfold from_bytes_big. lia. Qed.
Lemma blen_rfc_uint_from_bytes b : bytes_ok b = true -> blen (rfc_uint (from_bytes_big b)) <= blen b.
Proof.
  intros H. pose proof (from_bytes_big_bounds b H) as B. rewrite blen_rfc_uint by lia.
  apply bytecount_bound; [apply blen_nonneg|exact B].
Qed.

(* ------------------------------------------------------------------ the format table (translated from source) is the RFCs' table *)
Definition fmt_eqb (a b : fmt) : bool :=
  match a, b with
  | OpaqueOption, OpaqueOption | StringOption, StringOption | UintOption, UintOption
  | BlockOption, BlockOption | ContentFormatOption, ContentFormatOption => true
  | _, _ => false
  end.
Lemma fmt_eqb_eq a b : fmt_eqb a b = true -> a = b.
Proof. destruct a, b; cbn; congruence. Qed.
Lemma find_outside {A} (tbl : list (Z * A)) n : forallb (fun p => negb (fst p =? n)) tbl = true -> find (fun p => fst p =? n) tbl = None.
Proof.
  induction tbl as [|p tbl IH]; cbn [forallb find]; [reflexivity|]. intros H. apply andb_prop in H as [H1 H2].
  destruct (fst p =? n); [discriminate|]. apply IH. exact H2.
Qed.
Lemma keys_below {A} (tbl : list (Z * A)) lim n : forallb (fun p => (0 <=? fst p) && (fst p <? lim)) tbl = true -> n < 0 \/ lim <= n ->
  forallb (fun p => negb (fst p =? n)) tbl = true.
Proof.
  intros H Hn. rewrite forallb_forall in *. intros p Hp. specialize (H p Hp). lia.
Qed.
Lemma table_matches_rfc n : get_format n = class_of (rfc_format_of n).
Proof.
  destruct (Z_lt_dec n 0) as [N|N]; [|destruct (Z_lt_dec n 600) as [L|L]].
  - unfold get_format, rfc_format_of. rewrite !find_outside; [reflexivity| |].
    + apply (keys_below _ 600); [vm_compute; reflexivity|lia].
    + apply (keys_below _ 600); [vm_compute; reflexivity|lia].
  - apply fmt_eqb_eq. revert n N L. intros n N L.
    apply (range_cases (fun n => fmt_eqb (get_format n) (class_of (rfc_format_of n))) 600); [vm_compute; reflexivity|lia].
  - unfold get_format, rfc_format_of. rewrite !find_outside; [reflexivity| |].
    + apply (keys_below _ 600); [vm_compute; reflexivity|lia].
    + apply (keys_below _ 600); [vm_compute; reflexivity|lia].
Qed.

(* ------------------------------------------------------------------ option value codecs *)
Lemma block_as_integer num (m : bool) szx : Z.shiftl num 4 + (if m then 1 else 0) * 8 + szx = rfc_block num m szx.
Proof. rewrite shiftl4. unfold rfc_block. destruct m; lia. Qed.
Lemma block_fields a : 0 <= a ->
  rfc_block (Z.shiftr a 4) (negb (Z.land a 8 =? 0)) (Z.land a 7) = a /\ 0 <= Z.shiftr a 4 /\ 0 <= Z.land a 7 < 8.
Proof.
  intros H. rewrite shiftr4, land7, land8, negb_involutive. unfold rfc_block.
  destruct ((a / 8) mod 2 =? 1) eqn:E; lia.
Qed.
Lemma block_fields_of num (m : bool) szx : 0 <= num -> 0 <= szx < 8 -> let a := rfc_block num m szx in
  Z.shiftr a 4 = num /\ negb (Z.land a 8 =? 0) = m /\ Z.land a 7 = szx.
Proof.
  intros Hn Hs a. subst a. rewrite shiftr4, land7, land8, negb_involutive. unfold rfc_block.
  destruct m; repeat split; lia.
Qed.
Lemma rfc_block_nonneg num (m : bool) szx : 0 <= num -> 0 <= szx -> 0 <= rfc_block num m szx.
Proof. unfold rfc_block. destruct m; lia. Qed.

(* encoding a legal value produces the RFC's bytes *)
Lemma option_encode_is_rfc f v : legal f v = true -> option_encode v = Ok (rfc_value v) /\ bytes_ok (rfc_value v) = true.
Proof.
  destruct f, v; cbn [legal]; try discriminate; intros H; cbn [option_encode rfc_value].
  - split; [reflexivity|exact H].
  - destruct (utf8_roundtrip s H) as (b & E & _ & O). unfold StringOption_encode. rewrite E. split; [reflexivity|exact O].
  - unfold UintOption_encode. split; [apply to_minimum_bytes_is_rfc; lia|apply rfc_uint_ok; lia].
  - unfold BlockOption_encode. rewrite block_as_integer.
    assert (0 <= rfc_block block_number more size_exponent) by (apply rfc_block_nonneg; lia).
    split; [apply to_minimum_bytes_is_rfc; lia|apply rfc_uint_ok; lia].
  - unfold ContentFormatOption_encode. split; [apply to_minimum_bytes_is_rfc; lia|apply rfc_uint_ok; lia].
Qed.
(* decoding the RFC's bytes of a legal value gives the value back *)
Lemma create_option_decode_rfc_value n v : legal (get_format n) v = true -> create_option_decode n (rfc_value v) = Ok v.
Proof.
  unfold create_option_decode. destruct (get_format n), v; cbn [legal]; try discriminate; intros H; cbn [rfc_value].
  - reflexivity.
  - destruct (utf8_roundtrip s H) as (b & E & D & _). rewrite E. unfold StringOption_decode. rewrite D. reflexivity.
  - unfold UintOption_decode. rewrite from_bytes_rfc_uint by lia. reflexivity.
  - unfold BlockOption_decode.
    assert (0 <= rfc_block block_number more size_exponent) by (apply rfc_block_nonneg; lia).
    rewrite from_bytes_rfc_uint by lia.
    destruct (block_fields_of block_number more size_exponent) as (A & B & C); [lia|lia|]. rewrite A, B, C. reflexivity.
  - unfold ContentFormatOption_decode. rewrite from_bytes_rfc_uint by lia. reflexivity.
Qed.
(* every outcome of decoding a value: UnicodeDecodeError (string options only), or a legal value whose RFC encoding is
   no longer than what was read and which is what the RFC's reading of these bytes says *)
Lemma create_option_decode_total n raw : bytes_ok raw = true ->
  (create_option_decode n raw = Raise UnicodeDecodeError /\ rfc_interp n raw = None) \/
  exists v, create_option_decode n raw = Ok v /\ rfc_interp n raw = Some v /\ legal (get_format n) v = true /\ blen (rfc_value v) <= blen raw.
Proof.
  intros Hok. unfold create_option_decode, rfc_interp. rewrite (table_matches_rfc n).
  pose proof (from_bytes_big_bounds raw Hok) as B. pose proof (blen_rfc_uint_from_bytes raw Hok) as L.
  destruct (rfc_format_of n); cbn [class_of legal].
  - right. eexists. repeat split; [exact Hok|cbn [rfc_value]; lia].
  - right. eexists. repeat split; [exact Hok|cbn [rfc_value]; lia].
  - right. eexists. rewrite rfc_uint_value_eq. repeat split; [cbn [legal]; lia|exact L].
  - unfold StringOption_decode. destruct (utf8_decode raw) as [s|e] eqn:D.
    + right. destruct (utf8_encode_decode raw s D) as [E S]. eexists. repeat split; [exact S|].
      cbn [rfc_value]. rewrite E. lia.
    + left. rewrite (utf8_decode_raises raw e D). split; reflexivity.
  - right. unfold BlockOption_decode. rewrite rfc_uint_value_eq. set (a := from_bytes_big raw) in *.
    destruct (block_fields a) as (X & Y & Z0); [lia|].
    exists (VBlock (Z.shiftr a 4) (negb (Z.land a 8 =? 0)) (Z.land a 7)). split; [reflexivity|]. split.
    { rewrite shiftr4, land7, land8, negb_involutive. reflexivity. }
    split; [cbn [legal]; lia|]. cbn [rfc_value]. rewrite X. exact L.
  - right. eexists. rewrite rfc_uint_value_eq. repeat split; [cbn [legal]; lia|exact L].
Qed.
