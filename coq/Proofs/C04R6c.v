(* C04 round 6, third part — no piggy-back opportunity outlives the key it was created for: invariant [W]. *)
From Verif Require Import Lib.Py Lib.PyLemmas Lib.Tactics Model.C04 Proofs.C04 Proofs.C04Ack Proofs.C04R6 Proofs.C04R6b.
Import ListNotations.
Open Scope Z_scope.

Definition tsq (t : Z * Z * tkind) : Z := snd (fst t).
Definition U1 (s : st) : Prop := forall t, In t (timers s) -> tsq t < tseq s.
Definition U2 (s : st) : Prop := NoDup (map tsq (timers s)).
Definition U3 (s : st) : Prop := forall k h, In (k, h) (exchanges s) -> h < tseq s.
Definition X1 (s : st) : Prop := forall k h d kind, In (k, h) (exchanges s) -> In (d, h, kind) (timers s) ->
  exists r w t c, kind = TRetransmit r w t c.
Definition Z2 (s : st) : Prop := forall r tok mid h, In ((r, tok), (mid, h)) (piggy s) ->
  exists d D q, In (d, h, TEmptyAck r tok) (timers s) /\ In (D, q, (r, mid)) (forgets s) /\ d < D.
Definition W (s : st) : Prop := U1 s /\ U2 s /\ U3 s /\ X1 s /\ Z2 s.

Lemma W_frame s s' : timers s' = timers s -> tseq s' = tseq s -> exchanges s' = exchanges s -> piggy s' = piggy s ->
  forgets s' = forgets s -> W s -> W s'.
Proof. unfold W, U1, U2, U3, X1, Z2. intros -> -> -> -> ->. tauto. Qed.
Ltac wframe := apply W_frame; reflexivity.

Lemma nodup_seq_same (l : list (Z * Z * tkind)) t1 t2 : NoDup (map tsq l) -> In t1 l -> In t2 l -> tsq t1 = tsq t2 -> t1 = t2.
Proof.
  induction l as [|t l IH]; simpl; intros ND H1 H2 E; [contradiction|]. inversion ND; subst.
  destruct H1 as [H1 | H1], H2 as [H2 | H2]; subst; auto.
  - exfalso. apply H3. rewrite E. apply in_map. exact H2.
  - exfalso. apply H3. rewrite <- E. apply in_map. exact H1.
Qed.
Lemma nodup_filter_map {A B} (f : A -> B) (p : A -> bool) l : NoDup (map f l) -> NoDup (map f (filter p l)).
Proof.
  induction l as [|a l IH]; simpl; intros ND; [constructor|]. inversion ND; subst.
  destruct (p a); simpl; [constructor|]; auto.
  intros H. apply H1. apply in_map_iff in H as (x & E & H). apply filter_In in H as [H _]. apply in_map_iff. exists x; auto.
Qed.

(* cancelling a handle that no piggy-back opportunity holds *)
Lemma W_cancel h s : W s -> (forall r tok mid, ~ In ((r, tok), (mid, h)) (piggy s)) -> W (cancel h s).
Proof.
  intros (A & B & C & D & E) HN. repeat split.
  - intros t H. simpl in H. apply filter_In in H as [H _]. apply (A _ H).
  - unfold U2; simpl. apply nodup_filter_map. exact B.
  - exact C.
  - intros k h' d kind H1 H2. simpl in H2. apply filter_In in H2 as [H2 _]. eapply D; eauto.
  - intros r tok mid h' H. simpl in H. destruct (E _ _ _ _ H) as (d & D' & q & T & F & L).
    exists d, D', q. split; [|auto]. simpl. apply filter_In. split; [exact T|]. simpl.
    apply negb_true_iff, Z.eqb_neq. intros N. subst h'. apply (HN _ _ _ H).
Qed.
(* a handle registered in the exchange table is not held by any opportunity *)
Lemma xh_not_piggy k h s : W s -> In (k, h) (exchanges s) -> forall r tok mid, ~ In ((r, tok), (mid, h)) (piggy s).
Proof.
  intros (_ & _ & _ & D & E) H r tok mid HP. destruct (E _ _ _ _ HP) as (d & _ & _ & T & _).
  destruct (D _ _ _ _ H T) as (r' & w & t & c & X). discriminate.
Qed.
Lemma W_set_exchanges_rm k s : W s -> W (set_exchanges (aremove key_eqb k (exchanges s)) s).
Proof.
  intros (A & B & C & D & E). repeat split; auto.
  - intros k' h H. simpl in H. apply (in_rm _ key_eqb_eq) in H as [H _]. eapply C; eauto.
  - intros k' h d kind H1 H2. simpl in H1. apply (in_rm _ key_eqb_eq) in H1 as [H1 _]. eapply D; eauto.
Qed.
Lemma W_rm_exchange k h s : W s -> In (k, h) (exchanges s) ->
  W (cancel h (set_exchanges (aremove key_eqb k (exchanges s)) s)).
Proof.
  intros HW HI. apply W_cancel; [apply W_set_exchanges_rm; exact HW|]. simpl. apply (xh_not_piggy k h s HW HI).
Qed.

Lemma in_areplace {K V} (eqb : K -> K -> bool) (sp : forall a b, eqb a b = true <-> a = b) k v (x : K * V) l :
  In x (areplace eqb k v l) -> x = (k, v) \/ In x l.
Proof.
  induction l as [|[k' v'] l IH]; simpl; [tauto|]. destruct (eqb k k') eqn:E; simpl.
  - apply sp in E; subst k'. intros [H | H]; [left; symmetry; exact H | right; right; exact H].
  - intros [H | H]; [right; left; exact H | destruct (IH H) as [X | X]; [left; exact X | right; right; exact X]].
Qed.
Lemma in_aset {K V} (eqb : K -> K -> bool) (sp : forall a b, eqb a b = true <-> a = b) k v (x : K * V) l :
  In x (aset eqb k v l) -> x = (k, v) \/ In x l.
Proof.
  unfold aset. destruct (aget eqb k l); [apply in_areplace; exact sp|].
  intros H. apply in_app_iff in H as [H | [H | []]]; [right; exact H | left; symmetry; exact H].
Qed.

(* a new cancellable timer *)
Lemma W_call_later d kind s : W s -> W (fst (call_later d kind s)).
Proof.
  intros (A & B & C & D & E). unfold call_later; simpl. repeat split.
  - intros t H. simpl in H |- *. apply in_app_iff in H as [H | [H | []]]; [specialize (A _ H); lia | subst t; unfold tsq; simpl; lia].
  - unfold U2; simpl. rewrite map_app. simpl. apply NoDup_app_one; [exact B|].
    intros H. apply in_map_iff in H as (t & Et & H). specialize (A _ H). unfold tsq in *. simpl in *. lia.
  - intros k h H. simpl in H |- *. specialize (C _ _ H). lia.
  - intros k h d' kind' H1 H2. simpl in H1, H2. apply in_app_iff in H2 as [H2 | [H2 | []]]; [eapply D; eauto|].
    inversion H2; subst. specialize (C _ _ H1). lia.
  - intros r tok mid h H. simpl in H. destruct (E _ _ _ _ H) as (d0 & D0 & q & T & F & L).
    exists d0, D0, q. simpl. split; [apply in_app_iff; left; exact T | auto].
Qed.
Lemma W_push_exchange r w t c s : W s ->
  let s1 := fst (_schedule_retransmit r w t c s) in let h := snd (_schedule_retransmit r w t c s) in
  W (set_exchanges (aset key_eqb (r, w_mid w) h (exchanges s1)) s1).
Proof.
  intros HW. pose proof (W_call_later t (TRetransmit r w t c) s HW) as H1.
  unfold _schedule_retransmit in *. set (s1 := fst (call_later t (TRetransmit r w t c) s)) in *.
  assert (Hh : snd (call_later t (TRetransmit r w t c) s) = tseq s) by reflexivity.
  assert (Ht : tseq s1 = tseq s + 1) by reflexivity.
  simpl. destruct H1 as (A & B & C & D & E). repeat split; auto.
  - intros k h H. simpl in H |- *.
    destruct (in_aset _ key_eqb_eq _ _ _ _ H) as [X | X].
    { inversion X; subst; lia. }
    apply (C _ _ X).
  - intros k h d kind H1' H2. simpl in H1', H2.
    destruct (in_aset _ key_eqb_eq _ _ _ _ H1') as [X | X]; [|eapply D; eauto].
    inversion X; subst. unfold s1, call_later in H2; simpl in H2. apply in_app_iff in H2 as [H2 | [H2 | []]].
    + destruct HW as (A0 & _). specialize (A0 _ H2). unfold tsq in A0; simpl in A0. lia.
    + inversion H2; subst. eauto.
Qed.

Lemma W_emit o s : W s -> W (emit o s). Proof. wframe. Qed.
Lemma W_stop_incoming ik sid s : W s -> W (stop_incoming ik sid s). Proof. wframe. Qed.
Lemma W_tm_dispatch_error r s : W s -> W (tm_dispatch_error r s).
Proof.
  unfold tm_dispatch_error. apply (fold_same W). intros s0 e H. destruct (snd (fst e) =? r); [apply W_stop_incoming; exact H | exact H].
Qed.

Lemma W_mm_fold r l : forall s, W s -> NoDup (map fst l) -> (forall e, In e l -> In e (exchanges s)) ->
  W (fold_left (mm_step r) l s).
Proof.
  induction l as [|e l IH]; intros s HW ND Hl; simpl; [exact HW|]. inversion ND as [|? ? Hn ND']; subst.
  apply IH; [| exact ND' |].
  - unfold mm_step. destruct (fst (fst e) =? r); [|exact HW]. destruct e as [k h]. apply W_rm_exchange; [exact HW|]. apply Hl. left; reflexivity.
  - intros e' He'. unfold mm_step. destruct (fst (fst e) =? r); [|apply Hl; right; exact He'].
    simpl. apply (in_rm _ key_eqb_eq). split; [apply Hl; right; exact He'|].
    intros N. apply Hn. rewrite <- N. apply in_map. exact He'.
Qed.
Lemma W_mm_dispatch_error r s : Q s -> W s -> W (mm_dispatch_error r s).
Proof.
  intros HQ HW. unfold mm_dispatch_error.
  pose proof (W_tm_dispatch_error r s HW) as W0. destruct (tm_dispatch_error_fields r s) as [Ex _].
  set (s0 := tm_dispatch_error r s) in *.
  change (fold_left (fun s e => if fst (fst e) =? r then cancel (snd e) (set_exchanges (aremove key_eqb (fst e) (exchanges s)) s) else s) (exchanges s0) s0)
    with (fold_left (mm_step r) (exchanges s0) s0).
  assert (W1 : W (fold_left (mm_step r) (exchanges s0) s0)).
  { apply W_mm_fold; [exact W0 | rewrite Ex; destruct HQ as (A & _); exact A | auto]. }
  revert W1. wframe.
Qed.
Lemma W_refusal r s : Q s -> W s -> W (refusal r s).
Proof.
  intros HQ HW. unfold refusal. destruct (is_refused r s); [|exact HW].
  apply W_mm_dispatch_error; [apply Q_emit; [intros; discriminate | exact HQ] | apply W_emit; exact HW].
Qed.
Lemma W_send_via r w s : Q s -> W s -> W (_send_via_transport r w s).
Proof.
  intros HQ HW. unfold _send_via_transport, send_log. apply W_refusal; [apply Q_emit; [intros; discriminate | exact HQ] | apply W_emit; exact HW].
Qed.
Lemma W_store r w s : W s -> W (_store_response_for_duplicates r w s).
Proof.
  unfold _store_response_for_duplicates. destruct (negb (is_ackrst (w_type w))); [auto|].
  destruct (aget key_eqb (r, w_mid w) (recent s)); [wframe | auto].
Qed.
Lemma W_add_exchange r w s : W s -> W (_add_exchange r w s).
Proof.
  intros HW. unfold _add_exchange.
  set (s1 := match aget Z.eqb r (backlogs s) with None => _ | Some _ => _ end).
  assert (W1 : W s1) by (subst s1; destruct (aget Z.eqb r (backlogs s)); [exact HW | revert HW; wframe]).
  pose proof (W_push_exchange r w (ack_timeout s1) 0 s1 W1) as H. simpl in H.
  unfold _schedule_retransmit, call_later. simpl. exact H.
Qed.
(* Q is needed along the way for the refusal path; it is preserved under the same side condition as in C04R6 *)
Lemma QW_send_initially r w mon s : Q s -> W s -> (w_type w = CON -> mon = true /\ no_xr r s) ->
  W (_send_initially r w mon s).
Proof.
  intros HQ HW Hc. unfold _send_initially. destruct (w_type w) eqn:T;
    try (apply W_send_via; [apply Q_store; exact HQ | apply W_store; exact HW]).
  destruct (Hc eq_refl) as [-> NXr]. simpl.
  apply W_send_via; [apply Q_store, Q_add_exchange; assumption | apply W_store, W_add_exchange; exact HW].
Qed.

Lemma W_continue_backlog_loop fuel r : forall s, Q s -> W s -> W (_continue_backlog_loop fuel r s).
Proof.
  induction fuel as [|fuel IH]; intros s HQ HW; simpl; [exact HW|].
  destruct (has_exchange_with r s) eqn:Hx; [exact HW|]. apply has_exchange_false in Hx.
  destruct (aget Z.eqb r (backlogs s)) as [[|w rest]|] eqn:G; [revert HW; wframe | | exact HW].
  assert (Q1 : Q (set_backlogs (aset Z.eqb r rest (backlogs s)) s)).
  { apply Q_set_backlogs; [|exact HQ]. intros k h H. rewrite (g_set_neq _ Z.eqb_eq) by (apply (Hx _ _ H)). apply (E1_of s HQ _ _ H). }
  assert (W1 : W (set_backlogs (aset Z.eqb r rest (backlogs s)) s)) by (revert HW; wframe).
  apply IH.
  - apply Q_send_initially; [exact Q1|]. intros _. split; [reflexivity | exact Hx].
  - apply QW_send_initially; [exact Q1 | exact W1|]. intros _. split; [reflexivity | exact Hx].
Qed.
Lemma W_remove_exchange r mid s : Q s -> W s -> W (_remove_exchange r mid s).
Proof.
  intros HQ HW. unfold _remove_exchange. destruct (aget key_eqb (r, mid) (exchanges s)) as [h|] eqn:G; [|exact HW].
  pose proof (g_in _ key_eqb_eq _ _ _ G) as HI.
  set (s1 := cancel h (set_exchanges (aremove key_eqb (r, mid) (exchanges s)) s)).
  assert (Q1 : Q s1) by (apply Q_rm_exchange; [exact HQ | intros h' G'; congruence]).
  assert (W1 : W s1) by (apply W_rm_exchange; assumption).
  unfold _continue_backlog. destruct (aget Z.eqb r (backlogs s1)); [|apply W_emit; exact W1].
  apply W_continue_backlog_loop; assumption.
Qed.
Lemma W_retransmit r w t c s : Q s -> W s -> aget key_eqb (r, w_mid w) (exchanges s) <> None -> W (_retransmit r w t c s).
Proof.
  intros HQ HW HG. unfold _retransmit. destruct (aget key_eqb (r, w_mid w) (exchanges s)) as [h|] eqn:G; [|contradiction].
  pose proof (g_in _ key_eqb_eq _ _ _ G) as HI.
  destruct (Q_pop_exchange _ _ _ HQ G) as [Q1 N1]. simpl in N1.
  pose proof (W_rm_exchange _ _ _ HW HI) as W1.
  assert (B1 : aget Z.eqb r (backlogs s) <> None) by (apply (E1_of s HQ (r, w_mid w) h HI)).
  set (s1 := cancel h _) in *.
  destruct (c <? MAX_RETRANSMIT).
  - pose proof (Q_push_exchange r w (t * 2) (c + 1) s1 Q1 N1 B1) as HQ2. pose proof (W_push_exchange r w (t * 2) (c + 1) s1 W1) as HW2.
    simpl in HQ2, HW2. unfold _schedule_retransmit, call_later. simpl. apply W_send_via; assumption.
  - change (backlogs s1) with (backlogs s). destruct (aget Z.eqb r (backlogs s)); [|contradiction].
    apply W_tm_dispatch_error. revert W1. wframe.
Qed.

(* piggy-back opportunities *)
Lemma W_set_piggy_rm pk s : W s -> W (set_piggy (aremove tokkey_eqb pk (piggy s)) s).
Proof.
  intros (A & B & C & D & E). repeat split; auto.
  intros r tok mid h H. simpl in H. apply (in_rm _ tokkey_eqb_eq) in H as [H _]. apply (E _ _ _ _ H).
Qed.
Lemma W_pop_piggy r tok mid h s : W s -> In ((r, tok), (mid, h)) (piggy s) ->
  W (cancel h (set_piggy (aremove tokkey_eqb (r, tok) (piggy s)) s)).
Proof.
  intros HW HI. apply W_cancel; [apply W_set_piggy_rm; exact HW|].
  intros r' tok' mid' H. simpl in H. apply (in_rm _ tokkey_eqb_eq) in H as [H N]. simpl in N.
  destruct HW as (_ & B & _ & _ & E).
  destruct (E _ _ _ _ HI) as (d & _ & _ & T & _). destruct (E _ _ _ _ H) as (d' & _ & _ & T' & _).
  assert (X : (d, h, TEmptyAck r tok) = (d', h, TEmptyAck r' tok')) by (apply (nodup_seq_same _ _ _ B T T'); reflexivity).
  inversion X; subst. apply N; reflexivity.
Qed.

Lemma W_send_message m a s : Q s -> W s -> W (send_message m a s).
Proof.
  intros HQ HW. unfold send_message. cbv zeta.
  assert (D : forall s0, Q s0 -> W s0 -> W
    (let t := match a_rel a with Some true => CON | Some false => NON | None => match i_type m with NON => NON | _ => CON end end in
     let '(s1, mid) := _next_message_id s0 in
     let w := {| w_type := t; w_code := a_code a; w_mid := mid; w_token := i_token m; w_payload := a_payload a |} in
     match t, aget Z.eqb (i_remote m) (backlogs s1) with
     | CON, Some b => set_backlogs (aset Z.eqb (i_remote m) (b ++ [w]) (backlogs s1)) s1
     | _, _ => _send_initially (i_remote m) w true s1
     end)).
  { intros s0 Q0 W0. cbv zeta. unfold _next_message_id.
    set (s1 := set_message_id _ s0). assert (Q1 : Q s1) by (subst s1; revert Q0; qframe). assert (W1 : W s1) by (subst s1; revert W0; wframe).
    assert (Cn : forall t, t <> CON -> W (_send_initially (i_remote m) {| w_type := t; w_code := a_code a; w_mid := message_id s0; w_token := i_token m; w_payload := a_payload a |} true s1)).
    { intros t Ht. apply QW_send_initially; [exact Q1 | exact W1|]. simpl. intros; contradiction. }
    assert (Cc : W match aget Z.eqb (i_remote m) (backlogs s1) with
                   | Some b => set_backlogs (aset Z.eqb (i_remote m) (b ++ [{| w_type := CON; w_code := a_code a; w_mid := message_id s0; w_token := i_token m; w_payload := a_payload a |}]) (backlogs s1)) s1
                   | None => _send_initially (i_remote m) {| w_type := CON; w_code := a_code a; w_mid := message_id s0; w_token := i_token m; w_payload := a_payload a |} true s1 end).
    { destruct (aget Z.eqb (i_remote m) (backlogs s1)) eqn:G; [revert W1; wframe|].
      apply QW_send_initially; [exact Q1 | exact W1|]. intros _. split; [reflexivity|]. apply no_backlog_no_xr; [apply E1_of; exact Q1 | exact G]. }
    destruct (a_rel a) as [[|]|]; [exact Cc | apply Cn; discriminate |].
    destruct (i_type m); try exact Cc. apply Cn; discriminate. }
  destruct (is_response (a_code a)); [|apply D; assumption].
  destruct (aget tokkey_eqb (i_remote m, i_token m) (piggy s)) as [[mid h]|] eqn:G.
  - pose proof (g_in _ tokkey_eqb_eq _ _ _ G) as HI.
    assert (Q1 : Q (cancel h (set_piggy (aremove tokkey_eqb (i_remote m, i_token m) (piggy s)) s))).
    { apply Q_pop_piggy; [exact HQ|]. intros mid' h' G'. congruence. }
    pose proof (W_pop_piggy _ _ _ _ _ HW HI) as W1.
    destruct (negb _); (apply QW_send_initially; [exact Q1 | exact W1 | simpl; intros; discriminate]).
  - destruct (negb _); [exact HW | apply D; assumption].
Qed.

Lemma W_finish m a s : Q s -> W s -> W (finish m a s).
Proof. intros HQ HW. unfold finish. generalize (W_send_message m (render_copy m a) s HQ HW). wframe. Qed.
Lemma W_handler_respond sid a s : Q s -> W s -> W (handler_respond sid a s).
Proof.
  intros HQ HW. unfold handler_respond. destruct (aget Z.eqb sid (waiting s)); [|exact HW].
  apply W_finish; [revert HQ; qframe | revert HW; wframe].
Qed.
Lemma W_handler_raise sid x s : Q s -> W s -> W (handler_raise sid x s).
Proof.
  intros HQ HW. unfold handler_raise. destruct (aget Z.eqb sid (waiting s)); [|exact HW].
  apply W_finish; [revert HQ; qframe | revert HW; wframe].
Qed.
Lemma W_render_to_pipe m s : Q s -> W s -> W (render_to_pipe m s).
Proof.
  intros HQ HW. unfold render_to_pipe.
  set (s1 := emit _ _).
  assert (Q1 : Q s1) by (subst s1; apply Q_emit; [intros; discriminate|]; revert HQ; qframe).
  assert (W1 : W s1) by (subst s1; revert HW; wframe).
  destruct (i_path m); try (apply W_finish; assumption). revert W1. wframe.
Qed.
Lemma W_process_request m s : Q s -> W s -> W (process_request m s).
Proof.
  intros HQ HW. unfold process_request.
  set (s1 := match aget inckey_eqb (i_token m, i_remote m) (incoming s) with Some old => _ | None => _ end).
  assert (Q1 : Q s1) by (subst s1; destruct (aget inckey_eqb (i_token m, i_remote m) (incoming s)); [apply Q_stop_incoming; exact HQ | exact HQ]).
  assert (W1 : W s1) by (subst s1; destruct (aget inckey_eqb (i_token m, i_remote m) (incoming s)); [apply W_stop_incoming; exact HW | exact HW]).
  apply W_render_to_pipe; [revert Q1; qframe | revert W1; wframe].
Qed.

(* the CON prefix of _process_request: empty-ACK timer and piggy-back opportunity, possibly replacing an older one *)
Lemma W__process_request m s : Q s -> W s ->
  (i_type m = CON -> exists D q, In (D, q, msg_key m) (forgets s) /\ now s + EMPTY_ACK_DELAY < D) ->
  W (_process_request m s).
Proof.
  intros HQ HW Hpre. unfold _process_request.
  assert (QP : Q (_process_request m s)) by (apply Q__process_request; exact HQ).
  unfold _process_request in QP.
  destruct (i_type m) eqn:T; try (apply W_process_request; assumption).
  destruct (Hpre eq_refl) as (D0 & q0 & F0 & L0).
  (* Q of the prefix state, extracted from the proof in C04R6 by re-running it on the prefix only *)
  set (pk := (i_remote m, i_token m)).
  pose proof (W_call_later EMPTY_ACK_DELAY (TEmptyAck (i_remote m) (i_token m)) s HW) as W1.
  unfold call_later in *. simpl in *.
  set (s1 := set_tseq (tseq s + 1) (set_timers (timers s ++ [(now s + EMPTY_ACK_DELAY, tseq s, TEmptyAck (i_remote m) (i_token m))]) s)) in *.
  set (sp := set_piggy (aset tokkey_eqb pk (i_mid m, tseq s)
                (piggy match aget tokkey_eqb pk (piggy s) with
                       | Some (_, old) => cancel old (set_piggy (aremove tokkey_eqb pk (piggy s)) s1)
                       | None => s1 end))
              match aget tokkey_eqb pk (piggy s) with
              | Some (_, old) => cancel old (set_piggy (aremove tokkey_eqb pk (piggy s)) s1)
              | None => s1 end).
  assert (WP : W sp).
  { subst sp. destruct (aget tokkey_eqb pk (piggy s)) as [[mo old]|] eqn:G.
    - pose proof (g_in _ tokkey_eqb_eq _ _ _ G) as HI.
      pose proof (W_pop_piggy (i_remote m) (i_token m) mo old s1 W1 HI) as W2.
      set (s2 := cancel old (set_piggy (aremove tokkey_eqb pk (piggy s)) s1)) in *.
      assert (Hold : old < tseq s).
      { destruct HW as (A & _ & _ & _ & E). destruct (E _ _ _ _ HI) as (d & _ & _ & Tm & _). apply (A _ Tm). }
      destruct W2 as (A & B & C & Dx & E). repeat split; auto.
      intros r tok mid h H. simpl in H. destruct (in_aset _ tokkey_eqb_eq _ _ _ _ H) as [X | X].
      + inversion X; subst. exists (now s + EMPTY_ACK_DELAY), D0, q0. split; [|split; [exact F0 | exact L0]].
        simpl. apply filter_In. split; [apply in_app_iff; right; left; reflexivity|]. simpl.
        apply negb_true_iff, Z.eqb_neq. lia.
      + apply (E _ _ _ _ X).
    - destruct W1 as (A & B & C & Dx & E). repeat split; auto.
      intros r tok mid h H. simpl in H. destruct (in_aset _ tokkey_eqb_eq _ _ _ _ H) as [X | X].
      + inversion X; subst. exists (now s + EMPTY_ACK_DELAY), D0, q0. split; [|split; [exact F0 | exact L0]].
        simpl. apply in_app_iff; right; left; reflexivity.
      + apply (E _ _ _ _ X). }
  assert (QPre : Q sp).
  { subst sp. subst s1. subst pk. clear WP W1 QP.
    (* same construction as in Q__process_request *)
    destruct HQ as (A & B & C & D & E & F).
    destruct (aget tokkey_eqb (i_remote m, i_token m) (piggy s)) as [[mo old]|] eqn:G; simpl; repeat split; auto.
    - intros d q r w t c H. simpl in H. apply filter_In in H as [H _]. apply in_app_iff in H as [H | [H | []]]; [eapply D; eauto | discriminate].
    - intros d q r tok H. simpl in H. apply filter_In in H as [H Hq]. simpl in Hq. simpl.
      apply in_app_iff in H as [H | [H | []]].
      + destruct (E _ _ _ _ H) as [mid' Gm].
        destruct (tokkey_eqb (i_remote m, i_token m) (r, tok)) eqn:Ek.
        * apply tokkey_eqb_eq in Ek. rewrite <- Ek in Gm. rewrite G in Gm. inversion Gm; subst. rewrite Z.eqb_refl in Hq. discriminate.
        * assert (N : (r, tok) <> (i_remote m, i_token m)) by (intros N; rewrite N, (eqb_refl' _ tokkey_eqb_eq) in Ek; discriminate).
          exists mid'. rewrite (g_set_neq _ tokkey_eqb_eq) by exact N. rewrite (g_rm_neq _ tokkey_eqb_eq) by exact N. exact Gm.
      + inversion H; subst. exists (i_mid m). apply (g_set_eq _ tokkey_eqb_eq).
    - intros d q r w t c H. simpl in H. apply in_app_iff in H as [H | [H | []]]; [eapply D; eauto | discriminate].
    - intros d q r tok H. simpl in H |- *. apply in_app_iff in H as [H | [H | []]].
      + destruct (E _ _ _ _ H) as [mid' Gm].
        destruct (tokkey_eqb (i_remote m, i_token m) (r, tok)) eqn:Ek.
        * apply tokkey_eqb_eq in Ek. rewrite <- Ek in Gm. congruence.
        * assert (N : (r, tok) <> (i_remote m, i_token m)) by (intros N; rewrite N, (eqb_refl' _ tokkey_eqb_eq) in Ek; discriminate).
          exists mid'. rewrite (g_set_neq _ tokkey_eqb_eq) by exact N. exact Gm.
      + inversion H; subst. exists (i_mid m). apply (g_set_eq _ tokkey_eqb_eq). }
  apply W_process_request; assumption.
Qed.

Lemma W_dispatch_rest m s : Q s -> W s ->
  (is_request (i_code m) = true -> i_type m = CON -> exists D q, In (D, q, msg_key m) (forgets s) /\ now s + EMPTY_ACK_DELAY < D) ->
  W (dispatch_rest m s).
Proof.
  intros HQ HW Hpre. unfold dispatch_rest.
  set (s1 := if is_ackrst (i_type m) then _ else s).
  assert (Q1 : Q s1) by (subst s1; destruct (is_ackrst (i_type m)); [apply Q_remove_exchange; exact HQ | exact HQ]).
  assert (W1 : W s1) by (subst s1; destruct (is_ackrst (i_type m)); [apply W_remove_exchange; assumption | exact HW]).
  assert (RST_ok : W (_send_initially (i_remote m) {| w_type := RST; w_code := EMPTY; w_mid := i_mid m; w_token := []; w_payload := [] |} false s1)).
  { apply QW_send_initially; [exact Q1 | exact W1 | simpl; intros; discriminate]. }
  destruct ((i_code m =? EMPTY) && mtype_eqb (i_type m) CON); [exact RST_ok|].
  destruct ((i_code m =? EMPTY) && is_ackrst (i_type m)); [exact W1|].
  destruct (is_request (i_code m) && negb (is_ackrst (i_type m))) eqn:RQ.
  { apply andb_true_iff in RQ as [R1 R2]. apply negb_true_iff in R2.
    assert (Es : s1 = s) by (subst s1; rewrite R2; reflexivity). rewrite Es.
    apply W__process_request; [exact HQ | exact HW | intros T; apply Hpre; assumption]. }
  destruct (is_response (i_code m) && negb (mtype_eqb (i_type m) RST)); [|exact W1].
  destruct (mtype_eqb (i_type m) CON); [exact RST_ok | exact W1].
Qed.

Lemma W_insert_key k s : W s -> W (insert_key k s).
Proof.
  intros (A & B & C & D & E). unfold insert_key. repeat split; auto.
  - intros t H. simpl in H |- *. specialize (A _ H). lia.
  - intros k' h H. simpl in H |- *. specialize (C _ _ H). lia.
  - intros r tok mid h H. simpl in H. destruct (E _ _ _ _ H) as (d & D0 & q & T & F & L).
    exists d, D0, q. simpl. split; [exact T|]. split; [apply in_app_iff; left; exact F | exact L].
Qed.

Lemma W_dispatch_message m s : Inv s -> Q s -> W s -> W (dispatch_message m s).
Proof.
  intros HI HQ HW. destruct (is_request (i_code m)) eqn:Rq.
  - destruct (aget key_eqb (msg_key m) (recent s)) as [v|] eqn:G.
    + rewrite (dispatch_dup m s v Rq G). destruct (i_type m); try exact HW. destruct v as [[r w]|]; [|exact HW].
      apply QW_send_initially; [exact HQ | exact HW|]. intros Hc. destruct HI as (_ & _ & I3 & _). destruct (I3 _ _ _ G) as (_ & _ & Ha).
      rewrite Hc in Ha. discriminate.
    + rewrite (dispatch_fresh m s Rq G). apply W_dispatch_rest.
      * revert HQ. unfold insert_key. qframe.
      * apply W_insert_key; exact HW.
      * intros _ _. exists (now s + EXCHANGE_LIFETIME), (tseq s). unfold insert_key; simpl.
        split; [apply in_app_iff; right; left; reflexivity | unfold EMPTY_ACK_DELAY, EXCHANGE_LIFETIME; lia].
  - rewrite (dispatch_nonreq m s Rq). apply W_dispatch_rest; [exact HQ | exact HW | intros; congruence].
Qed.

Lemma W_fire s : Inv s -> Q s -> W s -> W (fire s).
Proof.
  intros HI HQ HW. unfold fire.
  destruct (min_timer (all_timers s)) as [[[d q] [k0 | t]]|] eqn:M; [| |exact HW].
  - (* expiry of k0: no opportunity created for k0 is still there, its empty-ACK timer would be due earlier *)
    pose proof (min_timer_in _ _ M) as Hin. apply in_all_forget in Hin.
    pose proof (min_timer_le _ _ _ _ M) as Hle.
    destruct HI as (I1 & I2 & _).
    assert (P0 : aget key_eqb k0 (recent s) <> None) by (apply I1; apply in_map_iff; exists (d, q, k0); auto).
    simpl. destruct (aget key_eqb k0 (recent s)); [|contradiction].
    destruct HW as (A & B & C & D & E). repeat split; auto.
    intros r tok mid h H. simpl in H. destruct (E _ _ _ _ H) as (d' & D' & q' & T & F & L).
    exists d', D', q'. simpl. split; [exact T|]. split; [|exact L].
    apply filter_In. split; [exact F|]. simpl. apply negb_true_iff, key_eqb_neq. intros N. subst k0.
    assert (X : (D', q') = (d, q)) by (eapply nodup_key_unique; eauto). inversion X; subst.
    assert (d <= d') by (eapply Hle; apply in_all_timer; exact T). lia.
  - pose proof (min_timer_in _ _ M) as Hin. apply in_all_timer in Hin.
    set (s1 := set_now (Z.max (now s) d) s).
    assert (Q1 : Q s1) by (subst s1; revert HQ; qframe). assert (W1 : W s1) by (subst s1; revert HW; wframe).
    destruct t as [r tok | r w t c].
    + destruct HQ as (A & B & C & D & E & F). destruct (E _ _ _ _ Hin) as [mid Gm].
      unfold on_timeout. simpl. rewrite Gm. unfold _send_empty_ack.
      change (set_piggy (aremove tokkey_eqb (r, tok) (piggy s)) (cancel q s1))
        with (cancel q (set_piggy (aremove tokkey_eqb (r, tok) (piggy s1)) s1)).
      pose proof (g_in _ tokkey_eqb_eq _ _ _ Gm) as HIp.
      apply QW_send_initially; [| apply (W_pop_piggy r tok mid q s1 W1 HIp) | simpl; intros; discriminate].
      apply Q_pop_piggy; [exact Q1|]. intros mid' h' G'. simpl in G'. congruence.
    + assert (NP : forall r' tok mid, ~ In ((r', tok), (mid, q)) (piggy s1)).
      { intros r' tok mid HP. destruct W1 as (_ & B & _ & _ & E). destruct (E _ _ _ _ HP) as (d' & _ & _ & T & _).
        assert (X : (d', q, TEmptyAck r' tok) = (d, q, TRetransmit r w t c)) by (apply (nodup_seq_same _ _ _ B T Hin); reflexivity).
        discriminate. }
      apply W_retransmit; [apply Q_cancel; exact Q1 | apply W_cancel; assumption|].
      destruct HQ as (_ & _ & _ & D & _). simpl. rewrite (D _ _ _ _ _ _ Hin). discriminate.
Qed.

Lemma W_advance_loop fuel target : forall s, Inv s -> Q s -> W s -> W (advance_loop fuel target s).
Proof.
  induction fuel as [|fuel IH]; intros s HI HQ HW; simpl; [exact HW|].
  destruct (next_due s) as [due|]; [|exact HW]. destruct (due <=? target); [|exact HW].
  apply IH; [apply (fire_spec s HI) | apply Q_fire; assumption | apply W_fire; assumption].
Qed.
Lemma W_advance d s : Inv s -> Q s -> W s -> W (advance d s).
Proof.
  intros HI HQ HW. unfold advance. destruct (d <? 0); [exact HW|].
  pose proof (W_advance_loop advance_fuel (now s + d) s HI HQ HW) as W1.
  destruct (next_due (advance_loop advance_fuel (now s + d) s)) as [due|]; [destruct (due <=? now s + d); [exact W1|]|]; revert W1; wframe.
Qed.
Lemma W_step s e : Inv s -> Q s -> W s -> W (step s e).
Proof.
  intros HI HQ HW. destruct e as [m | | d | sid a | sid x | r b | r]; simpl.
  - apply W_dispatch_message; assumption.
  - apply W_fire; assumption.
  - apply W_advance; assumption.
  - apply W_handler_respond; assumption.
  - apply W_handler_raise; assumption.
  - revert HW. wframe.
  - apply W_mm_dispatch_error; assumption.
Qed.
Lemma W_init mid0 u : W (init mid0 u).
Proof.
  unfold W, U1, U2, U3, X1, Z2, init; simpl. split; [intros t []|]. split; [constructor|].
  split; [intros k h []|]. split; [intros k h d kind []|]. intros r tok mid h [].
Qed.
Lemma W_run evs : forall s, Inv s -> Q s -> W s -> W (run s evs).
Proof.
  induction evs as [|e evs IH]; intros s HI HQ HW; simpl; [exact HW|].
  apply IH; [apply (step_spec s e HI) | apply Q_step; assumption | apply W_step; assumption].
Qed.
Lemma W_reachable mid0 u evs : W (run (init mid0 u) evs).
Proof. apply W_run; [apply Inv_init | apply Q_init | apply W_init]. Qed.

(* no opportunity is left over for a key that is not (any more / yet) known *)
Lemma cnt_unknown k s : Inv s -> W s -> aget key_eqb k (recent s) = None -> cnt k s = 0%nat.
Proof.
  intros (I1 & _) (_ & _ & _ & _ & E) G. unfold cnt.
  destruct (filter (pig k) (piggy s)) as [|[[r tok] [mid h]] l] eqn:F; [reflexivity|]. exfalso.
  assert (HI : In ((r, tok), (mid, h)) (filter (pig k) (piggy s))) by (rewrite F; left; reflexivity).
  apply filter_In in HI as [HI Hp]. unfold pig in Hp. simpl in Hp. apply andb_true_iff in Hp as [P1 P2]. apply Z.eqb_eq in P1, P2.
  destruct (E _ _ _ _ HI) as (_ & D & q & _ & Fg & _).
  apply (proj2 (I1 k)); [|exact G]. apply in_map_iff. exists (D, q, (r, mid)). split; [destruct k; simpl in *; congruence | exact Fg].
Qed.

(* at most one distinct ACK per key generation, from the initial state, no side condition *)
Lemma single_ack_lemma mid0 u evs0 m evs :
  let s0 := run (init mid0 u) evs0 in
  is_request (i_code m) = true -> aget key_eqb (msg_key m) (recent s0) = None ->
  let s2 := run (step s0 (Recv m)) evs in
  now s2 < now s0 + EXCHANGE_LIFETIME ->
  allsame (acks (msg_key m) (log_since s0 s2)).
Proof.
  intros s0 Rq G s2 Hn.
  apply single_ack_partial_lemma; auto.
  - apply reachable_inv.
  - apply BOK_run; [apply Inv_init | apply BOK_init].
  - apply cnt_unknown; [apply reachable_inv | apply W_reachable | exact G].
Qed.
