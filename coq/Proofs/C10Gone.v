(* C10 — part 7 (round 5): after the empty ACK.  Once the empty-ACK handle of a CON request has fired, no opportunity is recorded under the
   request's (peer, token) until the handler answers, and the answer is a separate message with a fresh message ID and the request's token. *)
From Verif Require Import Lib.Py Lib.Tactics Model.C10 Proofs.C10 Proofs.C10Acks Proofs.C10Live.
Open Scope Z_scope.

Lemma aget_adel_none (l : list ((Z * list Z) * (Z * Z))) k k' : aget pk_eqb l k = None -> aget pk_eqb (adel pk_eqb l k') k = None.
Proof.
  intros H. destruct (pk_eqb k' k) eqn:E.
  - apply pk_eqb_eq in E. subst. apply aget_adel_same.
  - rewrite aget_adel_other; [exact H|]. intros ->. rewrite pk_eqb_refl in E. discriminate.
Qed.

Section Gone.
Variables (r : remote) (m : wire) (k0 : Z).
Notation p := (rpeer r). Notation tok := (token m).
Definition Gone (s : st) : Prop :=
  aget pk_eqb (piggy s) (p, tok) = None /\ (forall x, In x (incoming s) -> Px r m k0 x) /\ k0 < next_srv s.

Lemma gone_frame s s' : frame s s' -> Gone s -> Gone s'.
Proof.
  intros (F1 & _ & _ & _ & F5 & F6) (G1 & G2 & G3). split; [rewrite F1; exact G1|]. split; [intros x Hx; apply G2, F6, Hx|lia].
Qed.

Lemma piggy_send_message s r' a mon rq : piggy (fst (fst (send_message s r' a mon rq))) = piggy s \/
  exists k', piggy (fst (fst (send_message s r' a mon rq))) = adel pk_eqb (piggy s) k'.
Proof.
  unfold send_message.
  assert (Ht : forall s1 r1 bld mt md q, piggy (fst (fst (send_message_tail s1 r1 bld mt md mon q))) = piggy s1) by (intros; apply frame_tail).
  destruct (is_response (a_code a)); [|left; apply Ht].
  destruct (aget pk_eqb (piggy s) (rpeer r', a_token a)) as [[pmid hh]|].
  - right. exists (rpeer r', a_token a). destruct (no_response_of a); rewrite Ht; reflexivity.
  - destruct (no_response_of a); [left; reflexivity|left; apply Ht].
Qed.

Lemma gone_send_message s r' a mon rq s' o e : send_message s r' a mon rq = (s', o, e) -> Gone s -> Gone s'.
Proof.
  intros H (G1 & G2 & G3). pose proof (nw_send_message s r' a mon rq) as (_ & Hn & Hi). pose proof (piggy_send_message s r' a mon rq) as Hp.
  rewrite H in Hn, Hi, Hp. cbn [fst] in Hn, Hi, Hp. split; [|split; [intros x Hx; apply G2, Hi, Hx|lia]].
  destruct Hp as [->|[k' ->]]; [exact G1|apply aget_adel_none; exact G1].
Qed.
Lemma gone_send_response s r' req c rnr pl s' o : send_response s r' req c rnr pl = (s', o) -> Gone s -> Gone s'.
Proof.
  unfold send_response. intros H HG.
  match type of H with context [send_message ?s ?r ?a ?m ?q] => destruct (send_message s r a m q) as [[s1 o1] e] eqn:E1 end.
  inv H. eapply gone_send_message; eauto.
Qed.
Lemma Gone_ext s s' : piggy s' = piggy s -> (forall x, In x (incoming s') -> Px r m k0 x) -> k0 < next_srv s' -> Gone s -> Gone s'.
Proof. unfold Gone. intros -> HI HN (G1 & _ & _). auto. Qed.

Lemma gone_tm_process_request s r' m' s' o : tm_process_request s r' m' = (s', o) -> Gone s -> (rpeer r', token m') <> (p, tok) -> Gone s'.
Proof.
  unfold tm_process_request. intros H HG Hne.
  set (q := match aget ik_eqb (incoming s) (token m', rpeer r') with Some sv => _ | None => (s, []) end) in H.
  assert (Hq : Gone (fst q)).
  { subst q. destruct (aget ik_eqb _ _); cbn [fst]; [|exact HG]. destruct HG as (G1 & G2 & G3).
    apply (Gone_ext s); [reflexivity| |exact G3|exact (conj G1 (conj G2 G3))]. cbn. intros x Hx. apply G2. eapply in_adel; eauto. }
  destruct q as [s1 o1]. cbn [fst] in Hq.
  dlet H s2 o2 E. injection H as <- <-.
  destruct (negb _); [eapply gone_send_response; eauto|]. destruct (negb _); [eapply gone_send_response; eauto|].
  destruct (path m' =? 0).
  { inv E. destruct Hq as (G1 & G2 & G3). apply (Gone_ext s1); [reflexivity| |cbn; lia|exact (conj G1 (conj G2 G3))].
    cbn. intros [kx vx] Hx. apply in_aset in Hx as [Hx|[Hv Hk]]; [apply G2; exact Hx|]. subst vx.
    unfold Px. cbn. split; [|split].
    - destruct Hk as [Hk|Hk]; [|exact Hk]. unfold ik_eqb in Hk. cbn in Hk. apply andb_true_iff in Hk as [K1 K2]. apply beqb_eq in K1. apply Z.eqb_eq in K2. destruct kx; cbn in *; congruence.
    - intros Hq'. contradiction.
    - intros Hq'. lia. }
  destruct (path m' =? 1); eapply gone_send_response; eauto.
Qed.

Lemma gone_handler_respond s k c rnr pl s' o : handler_respond s k c rnr pl = (s', o) -> Gone s -> Gone s'.
Proof.
  unfold handler_respond. intros H HG. destruct (find_srv (incoming s) k) as [[key sv]|]; [|inv H; exact HG].
  dlet H s2 o2 E. injection H as <- <-. apply gone_send_response in E; [|exact HG]. destruct E as (G1 & G2 & G3).
  apply (Gone_ext s2); [reflexivity| |exact G3|exact (conj G1 (conj G2 G3))]. cbn. intros x Hx. apply G2. eapply in_adel; eauto.
Qed.

Lemma gone_tm_request s pe mt ob s' o : tm_request s pe mt ob = (s', o) -> Gone s -> Gone s'.
Proof.
  unfold tm_request, next_token_. intros H HG. cbv zeta in H.
  match type of H with context [send_message ?s ?r ?a ?m ?q] => destruct (send_message s r a m q) as [[s3 o3] e] eqn:E end.
  assert (HG3 : Gone s3).
  { eapply gone_send_message; [exact E|]. destruct HG as (G1 & G2 & G3). apply (Gone_ext s); [reflexivity|exact G2|exact G3|exact (conj G1 (conj G2 G3))]. }
  destruct e as [e|].
  - pose proof (frame_fail_request s3 (next_req s) e) as Hf. destruct (fail_request s3 (next_req s) e) as [s4 o4]. inv H. eapply gone_frame; eauto.
  - inv H. exact HG3.
Qed.

Lemma gone_process_request s r' m' s' o : _process_request s r' m' = (s', o) -> Gone s -> (rpeer r', token m') <> (p, tok) -> Gone s'.
Proof.
  unfold _process_request. intros H HG Hne. destruct (mtype m'); try (eapply gone_tm_process_request; eauto; fail).
  eapply gone_tm_process_request; [exact H| |exact Hne]. destruct HG as (G1 & G2 & G3).
  unfold call_later_a. cbn [piggy set_atimers].
  destruct (aget pk_eqb (piggy s) (rpeer r', token m')) as [[pm old]|]; (split; [|split; [exact G2|exact G3]]); cbn [piggy set_piggy cancel_a set_atimers].
  - rewrite aget_aset_other by exact Hne. apply aget_adel_none. exact G1.
  - rewrite aget_aset_other by exact Hne. exact G1.
Qed.

Lemma gone_dispatch_message s r' m' s' o : dispatch_message s r' m' = (s', o) -> Gone s ->
  ~ (is_request (code m') = true /\ (rpeer r', token m') = (p, tok)) -> Gone s'.
Proof.
  unfold dispatch_message. intros H HG Hex.
  set (p0 := if is_request (code m') then _deduplicate_message s r' m' else (s, [], false)) in H.
  assert (H0 : frame s (fst (fst p0))) by (subst p0; destruct (is_request (code m')); [apply frame_dedup|apply frame_refl]).
  destruct p0 as [[s0 o0] dup]. cbn [fst] in H0. destruct dup. { inv H. eapply gone_frame; eauto. }
  set (p1 := match mtype m' with ACK | RST => _remove_exchange s0 r' m' | _ => (s0, []) end) in H.
  assert (H1 : frame s0 (fst p1)) by (subst p1; destruct (mtype m'); try apply frame_refl; apply frame_remove_exchange).
  destruct p1 as [s1 o1]. cbn [fst] in H1.
  assert (HG1 : Gone s1) by (eapply gone_frame; [exact H1|eapply gone_frame; eauto]).
  dlet H s2 o2 E. injection H as <- <-.
  assert (Hsi : forall sx rx w, Gone sx -> Gone (fst (_send_initially sx rx w MonResp)))
    by (intros; eapply gone_frame; [apply frame_send_initially|assumption]).
  destruct (code m' =? EMPTY).
  { destruct (mtype m'); try (inv E; exact HG1; fail). unfold _process_ping in E. specialize (Hsi s1 (as_response_address r') (empty_msg RST (mid m')) HG1). rewrite E in Hsi. exact Hsi. }
  destruct (is_request (code m')) eqn:Erq.
  { assert (Hne : (rpeer r', token m') <> (p, tok)) by (intros Hq; apply Hex; auto).
    destruct (mtype m'); try (inv E; exact HG1; fail); eapply gone_process_request; eauto. }
  destruct (is_response (code m')); [|inv E; exact HG1].
  assert (Hgo : forall t, (let '(s', o, success) := tm_process_response s1 r' m' in
      if success then match t with CON => let '(s'', o') := _send_empty_ack s' r' (mid m') in (s'', o ++ o') | _ => (s', o) end
      else if mtype_eqb t CON && negb (is_multicast_locally r')
           then let '(s'', o') := _send_initially s' (as_response_address r') (empty_msg RST (mid m')) MonResp in (s'', o ++ o')
           else (s', o)) = (s2, o2) -> Gone s2).
  { intros t Ht. pose proof (frame_tm_process_response s1 r' m') as Hf. destruct (tm_process_response s1 r' m') as [[sx ox] success]. cbn [fst] in Hf.
    assert (HGx : Gone sx) by (eapply gone_frame; eauto).
    destruct success.
    - destruct t; try (inv Ht; exact HGx; fail). unfold _send_empty_ack in Ht.
      specialize (Hsi sx (as_response_address r') (empty_msg ACK (mid m')) HGx). destruct (_send_initially sx (as_response_address r') (empty_msg ACK (mid m')) MonResp) as [s'' o''].
      inv Ht. exact Hsi.
    - destruct (mtype_eqb t CON && negb (is_multicast_locally r')); [|inv Ht; exact HGx].
      specialize (Hsi sx (as_response_address r') (empty_msg RST (mid m')) HGx). destruct (_send_initially sx (as_response_address r') (empty_msg RST (mid m')) MonResp) as [s'' o''].
      inv Ht. exact Hsi. }
  destruct (mtype m'); [apply (Hgo CON); exact E|apply (Hgo NON); exact E|apply (Hgo ACK); exact E|inv E; exact HG1].
Qed.

Lemma gone_step s e s' o : step s e = (s', o) -> Gone s -> strict r m k0 e -> Gone s'.
Proof.
  destruct e as [r' m'|k c rnr pl|pe mt ob| |dd]; cbn [step strict]; intros H HG He.
  - eapply gone_dispatch_message; eauto.
  - eapply gone_handler_respond; eauto.
  - eapply gone_tm_request; eauto.
  - destruct (next_timer s) as [[[|] t]|]; [| |inv H; exact HG].
    + destruct HG as (G1 & G2 & G3). destruct (kind t) as [rr tk| |]; try (inv H; split; [exact G1|split; [exact G2|exact G3]]; fail).
      unfold on_timeout in H. cbn [piggy set_now cancel_a set_atimers] in H.
      destruct (aget pk_eqb (piggy s) (rpeer rr, tk)) as [[pm hh]|]; [|inv H; split; [exact G1|split; [exact G2|exact G3]]].
      unfold _send_empty_ack in H.
      match type of H with _send_initially ?x ?rx ?w ?mm = _ => pose proof (frame_send_initially x rx w mm) as Hf; rewrite H in Hf; cbn [fst] in Hf end.
      eapply gone_frame; [exact Hf|]. split; [cbn; apply aget_adel_none; exact G1|split; [exact G2|exact G3]].
    + pose proof (frame_run_timer (set_now (cancel_r s (tid t)) (Z.max (now s) (due t))) t) as Hf. rewrite H in Hf. cbn [fst] in Hf.
      eapply gone_frame; [exact Hf|]. exact HG.
  - inv H. exact HG.
Qed.
Lemma gone_run es : forall s s' os, run s es = (s', os) -> Gone s -> Forall (strict r m k0) es -> Gone s'.
Proof.
  induction es as [|e es IH]; intros s s' os H HG Hev; cbn [run] in H; [inv H; exact HG|].
  destruct (step s e) as [s1 o] eqn:E1. destruct (run s1 es) as [s2 os2] eqn:E2. inv H. inv Hev.
  eapply IH; [exact E2| |assumption]. eapply gone_step; eauto.
Qed.
End Gone.

Section After.
Variables (r : remote) (m : wire) (k0 h d : Z).
Notation p := (rpeer r). Notation tok := (token m). Notation M := (mid m).

(* the only way out of a Good state under [strict] events: the request's own empty-ACK handle fires — the empty ACK goes out, the clock is
   at least d, and nothing is recorded under (peer, token) any more *)
Lemma keep_step_gone s e s' o : step s e = (s', o) -> Good r m k0 h d s -> strict r m k0 e ->
  Good r m k0 h d s' \/
  (o = [Send (as_response_address r) (empty_msg ACK M)] /\ d <= now s' /\ Gone r m k0 s').
Proof.
  destruct e as [r' m'|k c rnr pl|pe mt ob| |dd]; cbn [step strict]; intros H HG He.
  - left. eapply (keep_dispatch_message r m k0 h d); eauto.
  - left. eapply (keep_handler_respond r m k0 h d); eauto.
  - left. eapply (keep_tm_request r m k0 h d); eauto.
  - destruct (next_timer s) as [[[|] t]|] eqn:En; [| |inv H; left; exact HG].
    + pose proof (next_timer_a_in _ _ En) as Hin. pose proof (next_timer_le _ _ _ En) as Hle.
      destruct HG as (HA & [P1 P2] & HI & HN). pose proof HA as (A1 & A2 & A3 & A4).
      destruct (A1 t Hin) as (Hd & Hts & rr & tk & pm & Hk & Hg).
      rewrite Hk in H. unfold on_timeout in H. cbn [piggy set_now cancel_a set_atimers] in H. rewrite Hg in H.
      unfold _send_empty_ack in H.
      match type of H with _send_initially ?x ?rx ?w ?mm = _ => set (sa := x) in H; pose proof (frame_send_initially sa rx w mm) as Hf;
        pose proof (send_initially_out sa rx w mm) as [Ho _]; rewrite H in Hf, Ho; cbn [fst snd] in Hf, Ho end.
      destruct (pk_eqb (rpeer rr, tk) (p, tok)) eqn:Ek.
      * (* it is ours *)
        apply pk_eqb_eq in Ek. right. pose proof Hg as Hg2. rewrite Ek, P1 in Hg2. injection Hg2 as Hpm Hh. subst pm.
        assert (Heq : t = {| due := d; tid := h; kind := EmptyAck r tok |}) by (eapply NoDup_tid_eq; eauto).
        assert (Hrr : rr = r) by (rewrite Heq in Hk; cbn in Hk; congruence). subst rr. subst o. split; [reflexivity|]. split.
        -- destruct Hf as (_ & _ & Hn & _). rewrite Hn. subst sa. cbn. rewrite Heq. cbn. lia.
        -- eapply gone_frame; [exact Hf|]. subst sa. injection Ek as Ek2. subst tk. split; [cbn; apply aget_adel_same|split; [exact HI|exact HN]].
      * left. assert (Hne : (rpeer rr, tk) <> (p, tok)) by (intros Hq; rewrite Hq, pk_eqb_refl in Ek; discriminate).
        eapply (Good_frame r m k0 h d); [exact Hf|]. subst sa. split; [|split; [|split; [exact HI|exact HN]]].
        -- unfold AInv. cbn. eapply AI_now; [eapply AI_remove; [exact HA|exact Hg]|].
           intros t' Hin'. apply cancel_in in Hin' as [Hin' _]. specialize (Hle t' Hin'). destruct (A1 t' Hin') as (Hd' & _). lia.
        -- unfold Pend. cbn. split; [rewrite aget_adel_other by exact Hne; exact P1|].
           apply cancel_in. split; [exact P2|]. cbn. intros Hq. apply Hne. eapply A3; [exact Hg|]. rewrite <- Hq. exact P1.
    + left. pose proof (frame_run_timer (set_now (cancel_r s (tid t)) (Z.max (now s) (due t))) t) as Hf. rewrite H in Hf. cbn [fst] in Hf.
      pose proof (next_timer_le _ _ _ En) as Hle. eapply (Good_frame r m k0 h d); [exact Hf|]. destruct HG as (HA & HP & HI & HN).
      split; [|split; [exact HP|split; [exact HI|exact HN]]].
      unfold AInv. cbn. eapply AI_now; [exact HA|]. intros t' Hin'. specialize (Hle t' Hin'). destruct HA as (A1 & _). destruct (A1 t' Hin') as (Hd' & _). lia.
  - left. inv H. destruct HG as (HA & HP & HI & HN). split; [|split; [exact HP|split; [exact HI|exact HN]]].
    unfold AInv. cbn. eapply AI_now; [exact HA|]. intros t' Hin'. destruct HA as (A1 & _). destruct (A1 t' Hin') as (Hd' & _).
    destruct (next_timer s) as [[b t]|] eqn:En.
    + pose proof (next_timer_le _ _ _ En t' Hin'). destruct (due t <? now s + Z.max 0 dd) eqn:E; lia.
    + apply next_timer_none in En. rewrite En in Hin'. destruct Hin'.
Qed.


Lemma keep_run_gone es : forall s s' os, run s es = (s', os) -> Good r m k0 h d s -> Forall (strict r m k0) es ->
  Good r m k0 h d s' \/ (In (Send (as_response_address r) (empty_msg ACK M)) (outputs_of os) /\ d <= now s' /\ Gone r m k0 s').
Proof.
  induction es as [|e es IH]; intros s s' os H HG Hev; cbn [run] in H; [inv H; left; exact HG|].
  destruct (step s e) as [s1 o] eqn:E1. destruct (run s1 es) as [s2 os2] eqn:E2. inv H. inv Hev.
  unfold outputs_of. cbn [map concat snd].
  destruct (keep_step_gone _ _ _ _ E1 HG H1) as [HG1|(Ho & Hd & HGn)].
  - destruct (IH _ _ _ E2 HG1 H2) as [HG2|(Hi & Hd & HGn)]; [left; exact HG2|right; split; [apply in_or_app; right; exact Hi|auto]].
  - right. split; [apply in_or_app; left; rewrite Ho; left; reflexivity|]. split.
    + pose proof (nw_run es s1) as Hm. rewrite E2 in Hm. cbn in Hm. lia.
    + eapply gone_run; eauto.
Qed.
End After.

(* "... otherwise by an empty ACK followed by a separate response with a fresh message ID and the request's token", over histories:
   same setting as con_response_timing.  At any moment before handler k0 answers, either nothing has been sent under the request's
   message ID yet and the clock has not passed d = arrival + EMPTY_ACK_DELAY, or the empty ACK is in the trace, the clock is at least d,
   and whatever the handler answers then is not sent as an ACK: suppressed by No-Response it is dropped, otherwise it is exactly one
   CON/NON datagram to the request's response address with the request's token and the next message ID of our own counter (or, CON, it
   waits in the NSTART backlog behind an unacknowledged CON to that peer, C14); or the handler was cancelled by a give-up. *)
Theorem con_separate_response pre m0 t0 s os0 r m s1 o1 es1 s2 os1 :
  run (init m0 t0) pre = (s, os0) ->
  mtype m = CON -> path m = 0 -> 1 <= code m <= 7 ->
  aget zz_eqb (recent s) (rpeer r, mid m) = None -> aget pk_eqb (piggy s) (rpeer r, token m) = None ->
  cnt (rpeer r) (mid m) (piggy s) = 0%nat ->
  dispatch_message s r m = (s1, o1) -> run s1 es1 = (s2, os1) ->
  let k0 := next_srv s in let d := now s + EMPTY_ACK_DELAY in
  Forall (strict r m k0) es1 -> Forall (ev_ok (rpeer r) (mid m)) es1 ->
  (acks (rpeer r) (mid m) (o1 ++ outputs_of os1) = 0%nat /\ now s2 <= d) \/
  (In (Send (as_response_address r) (empty_msg ACK (mid m))) (outputs_of os1) /\ d <= now s2 /\
   forall c rnr pl s3 o3, is_response c = true -> handler_respond s2 k0 c rnr pl = (s3, o3) ->
     let eff := match rnr with Some v => Some v | None => nr m end in
     let a := {| a_mtype := None; a_code := c; a_token := token m; a_nr := eff; a_obs := None; a_payload := pl |} in
     let t := select_mtype None (as_response_address r) (Some (mtype m)) in
     (find_srv (incoming s2) k0 = None /\ o3 = []) \/
     (no_response_of a = true /\ o3 = []) \/
     (no_response_of a = false /\
      (o3 = [Send (as_response_address r) (mk_wire a t (next_mid s2))] \/ (o3 = [] /\ t = CON /\ amem Z.eqb (backlogs s2) (rpeer r) = true)))).
Proof.
  intros Hpre Ht Hp Hc Hfresh Ho3 Hcnt Hd Hrun k0 d Hst Hok.
  assert (HB : BInv s) by (eapply run_ok; [exact Hpre|apply BInv_init]).
  assert (HA : AInv s) by (eapply AInv_run; [exact Hpre|apply AInv_init]).
  assert (HGI : GI s). { pose proof (GI_run pre (init m0 t0) (GI_init m0 t0)) as H. rewrite Hpre in H. exact H. }
  assert (Hrq : is_request (code m) = true) by (unfold is_request; lia).
  destruct (dedup_fresh s r m Hfresh) as (s0 & Hdd & Hp0 & Ha0 & Hi0 & Hg0 & Hn0 & Hb0 & He0 & HB0).
  pose proof (frame_dedup s r m) as Hf0. pose proof (dedup_fresh_srv s r m Hfresh) as [Hsrv _]. rewrite Hdd in Hf0, Hsrv. cbn [fst] in Hf0, Hsrv.
  assert (Hc0 : (code m =? 0) = false) by lia.
  assert (Hpr : _process_request s0 r m = (s1, o1)).
  { unfold dispatch_message in Hd. rewrite Hrq, Hdd, Ht in Hd. unfold EMPTY in Hd. rewrite Hc0 in Hd. cbn [app] in Hd.
    destruct (_process_request s0 r m) as [sx ox]. injection Hd as <- <-. reflexivity. }
  assert (HA0 : AInv s0) by (eapply AInv_frame; eauto).
  assert (HG0 : GI s0) by (eapply GI_inc; [apply inc_frame; exact Hf0|exact HGI]).
  rewrite <- Hp0 in Ho3, Hcnt.
  destruct (arrival_good s0 r m s1 o1 HG0 HA0 Ho3 Ht Hp Hc Hpr) as [HGood _].
  destruct (arrival s0 r m s1 o1 HA0 Ho3 Ht Hpr) as (_ & _ & Hbound).
  destruct (request_arms_timer s0 r m s1 o1 Ht Hp Hc Ho3 Hpr) as (_ & _ & Hout).
  assert (Ho1 : acks (rpeer r) (mid m) o1 = 0%nat).
  { unfold acks. assert (Hz : filter (is_ack_for (rpeer r) (mid m)) o1 = []); [|rewrite Hz; reflexivity].
    clear - Hout. induction o1 as [|x l IH]; [reflexivity|]. cbn. destruct (Hout x (or_introl eq_refl)) as (k & [->| ->]); cbn; apply IH; intros; apply Hout; right; assumption. }
  assert (HB1 : BInv s1) by (eapply dispatch_message_ok; eauto).
  pose proof (acks_bounded es1 s1 s2 os1 (rpeer r) (mid m) Hrun HB1 Hok) as Hb.
  rewrite Hsrv in HGood. rewrite Hn0 in HGood. fold k0 in HGood. fold d in HGood.
  destruct (keep_run_gone r m k0 (seq s0) d es1 s1 s2 os1 Hrun HGood Hst) as [HG2|(Hin & Hd2 & HGn)].
  - left. destruct HG2 as (HA2 & [P1 P2] & _). split.
    + rewrite acks_app, Ho1. pose proof (cnt_pos (rpeer r) (mid m) _ _ _ P1 eq_refl). lia.
    + destruct HA2 as (A1 & _). destruct (A1 _ P2) as (Hdue & _). cbn in Hdue. exact Hdue.
  - right. split; [exact Hin|]. split; [exact Hd2|].
    intros c rnr pl s3 o3 Hcr Hr eff a t. destruct HGn as (G1 & G2 & G3).
    destruct (find_srv (incoming s2) k0) as [[key sv]|] eqn:Ef.
    + right. pose proof (find_srv_in _ _ _ Ef) as [Hin' Hid]. cbn in Hid. destruct (G2 _ Hin') as (_ & _ & Hours). cbn in Hours. destruct (Hours Hid) as [Hsr Hsm].
      exact (respond_after_ack s2 r m k0 key sv c rnr pl s3 o3 Ef Hsr Hsm G1 Hcr Hr).
    + left. unfold handler_respond in Hr. rewrite Ef in Hr. inv Hr. auto.
Qed.
