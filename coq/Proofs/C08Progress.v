(* C08 — progress: from every reachable state, completing the renders in progress and acknowledging what is in flight (no further
   state change, no loss) brings a live registration to the idle state with nothing of it waiting in the backlog — the fairness
   hypotheses of C08_latest_state_sent are reachable, so "eventually sent" is not assumed away. *)
From Verif Require Import Lib.Py Lib.Tactics Model.C08 Proofs.C08 Proofs.C08Silent Proofs.C08Ends Proofs.C08Observe Proofs.C08Wire Proofs.C08Latest.
Open Scope Z_scope.

Record keep3 (s s' : state) : Prop := { k_ver : s_version s' = s_version s; k_gate : s_gate s' = s_gate s; k_down : s_down s' = s_down s }.
Lemma keep3_refl s : keep3 s s. Proof. constructor; reflexivity. Qed.
Lemma keep3_trans a b c : keep3 a b -> keep3 b c -> keep3 a c. Proof. intros [A1 A2 A3] [B1 B2 B3]. constructor; congruence. Qed.
Definition idle (x r : Z) (s : state) : Prop := forall g1, In g1 (s_regs s) -> g_gid g1 = x -> g_phase g1 = PWait /\ g_remote g1 = r.

Lemma si_keep s m x rt : keep3 s (send_initially s m x rt).
Proof. unfold send_initially, store_response_for_duplicates, send_via_transport, add_exchange, add_timer. destruct (m_mtype m); constructor; reflexivity. Qed.
Lemma sm_keep s m c x : keep3 s (send_message s m c x).
Proof. unfold send_message. destruct (piggy_find s (m_remote m) (m_token m)).
  - eapply keep3_trans; [|apply si_keep]. constructor; reflexivity.
  - destruct (if s_down s then NON else if c then CON else NON); try (eapply keep3_trans; [|apply si_keep]; constructor; reflexivity).
    destruct (has_exchange _ _); [constructor; reflexivity | eapply keep3_trans; [|apply si_keep]; constructor; reflexivity]. Qed.
Lemma emit_keep s g code o pk pv : keep3 s (emit s g code o pk pv) /\ s_regs (emit s g code o pk pv) = s_regs s.
Proof. split; [apply sm_keep | apply (emit_eff s g code o pk pv)]. Qed.
Lemma idle_put s g : g_phase g = PWait -> idle (g_gid g) (g_remote g) (put_reg s g).
Proof. intros Hp g1 H E. unfold put_reg in H. fsimpl. apply in_map_iff in H as [y [Hy Hi]]. destruct (g_gid y =? g_gid g) eqn:Ey; subst g1; [split; [exact Hp | reflexivity] | lia]. Qed.
Lemma idle_remove s x r : idle x r (remove_reg s x).
Proof. intros g1 H E. unfold remove_reg in H. fsimpl. apply filter_In in H as [_ H]. lia. Qed.
Lemma idle_same x r s s' : s_regs s' = s_regs s -> idle x r s -> idle x r s'.
Proof. intros E H g1 Hg. rewrite E in Hg. apply H. exact Hg. Qed.

Definition tpost (x r : Z) (s s' : state) : Prop := keep3 s s' /\ idle x r s'.
Lemma after_response_idle cont s g res : s_gate s = false ->
  (forall s1 g1, g_gid g1 = g_gid g -> g_remote g1 = g_remote g -> g_trig g1 = g_trig g -> s_gate s1 = false -> tpost (g_gid g) (g_remote g) s1 (cont s1 g1)) ->
  tpost (g_gid g) (g_remote g) s (after_response cont s g res).
Proof.
  intros Hg Hc. unfold after_response. destruct res as [code pk pv|code pk pv].
  - destruct (g_late g || negb (successful code)).
    + destruct (emit_keep s g code None pk pv) as [K R]. split; [eapply keep3_trans; [exact K | constructor; reflexivity]|].
      apply (idle_same _ _ (remove_reg (emit s g code None pk pv) (g_gid g))); [reflexivity | apply idle_remove].
    + set (g1 := set_next g (g_next g + 1)). destruct (emit_keep s g1 code (Some (g_next g1)) pk pv) as [K R].
      destruct (Hc (emit s g1 code (Some (g_next g1)) pk pv) g1 eq_refl eq_refl eq_refl) as [K2 I2]. { rewrite (k_gate _ _ K). exact Hg. }
      split; [eapply keep3_trans; eassumption | exact I2].
  - destruct (emit_keep (cancel_cb s (g_gid g)) g code None pk pv) as [K R]. split; [|apply idle_remove].
    eapply keep3_trans; [|eapply keep3_trans; [exact K | constructor; reflexivity]]. constructor; reflexivity.
Qed.
Lemma run_loop_idle1 f s g : g_trig g = None -> tpost (g_gid g) (g_remote g) s (run_loop (S f) s g).
Proof. intros Ht. cbn [run_loop]. rewrite Ht. split; [constructor; reflexivity | apply (idle_put s (set_phase g PWait)); reflexivity]. Qed.
Lemma run_loop_idle2 f s g : s_gate s = false -> tpost (g_gid g) (g_remote g) s (run_loop (S (S f)) s g).
Proof.
  intros Hg. destruct (g_trig g) as [tv|] eqn:Et; [|apply run_loop_idle1; exact Et]. cbn [run_loop]. rewrite Et.
  set (g1 := set_trig g None (g_late g)).
  assert (Hc : forall s1 g2, g_gid g2 = g_gid g1 -> g_remote g2 = g_remote g1 -> g_trig g2 = g_trig g1 -> s_gate s1 = false -> tpost (g_gid g1) (g_remote g1) s1 (run_loop (S f) s1 g2)).
  { intros s1 g2 A A' B _. rewrite <- A, <- A'. apply run_loop_idle1. rewrite B. reflexivity. }
  destruct tv as [|code k].
  - set (s1 := log s _). assert (Hg1 : s_gate s1 = false) by exact Hg. rewrite Hg1.
    destruct (after_response_idle (run_loop (S f)) s1 g1 (render_outcome (s_mode s1) (s_version s1)) Hg1 Hc) as [K I]. split; [|exact I].
    eapply keep3_trans; [|exact K]. constructor; reflexivity.
  - apply (after_response_idle (run_loop (S f)) s g1); assumption.
Qed.
Lemma first_render_done_idle s g res : s_gate s = false -> tpost (g_gid g) (g_remote g) s (first_render_done s g res).
Proof.
  intros Hg. unfold first_render_done. destruct res as [code pk pv|code pk pv].
  - destruct (negb (successful code)).
    + destruct (emit_keep s g code None pk pv) as [K R]. split; [eapply keep3_trans; [exact K | constructor; reflexivity]|].
      apply (idle_same _ _ (remove_reg (emit s g code None pk pv) (g_gid g))); [reflexivity | apply idle_remove].
    + set (g1 := set_next g 0). destruct (emit_keep s g1 code (Some 0) pk pv) as [K R].
      destruct (run_loop_idle2 0 (emit s g1 code (Some 0) pk pv) g1) as [K2 I2]. { rewrite (k_gate _ _ K). exact Hg. }
      split; [eapply keep3_trans; eassumption | exact I2].
  - destruct (emit_keep (cancel_cb s (g_gid g)) g code None pk pv) as [K R]. split; [|apply idle_remove].
    eapply keep3_trans; [|eapply keep3_trans; [exact K | constructor; reflexivity]]. constructor; reflexivity.
Qed.
Lemma flush_keep s : keep3 s (flush_cancels s).
Proof. unfold flush_cancels. assert (G : forall l s0, keep3 s0 (fold_left cancel_cb l s0)).
  { induction l as [|x l IH]; intros s0; cbn [fold_left]; [apply keep3_refl|]. eapply keep3_trans; [|apply IH]. constructor; reflexivity. }
  eapply keep3_trans; [apply G | constructor; reflexivity]. Qed.

(* completing the render in progress, with renders no longer slow *)
Lemma render_done_idle s g0 : GI s -> In g0 (s_regs s) -> s_gate s = false ->
  tpost (g_gid g0) (g_remote g0) s (step s (ERenderDone (g_remote g0) (g_token g0))).
Proof.
  intros HG Hg0 Hgate. cbn [step].
  assert (E : find_key s (g_remote g0) (g_token g0) = Some g0).
  { destruct (find_key s (g_remote g0) (g_token g0)) as [g1|] eqn:E.
    - apply find_key_In in E as (E1 & E2 & E3). f_equal. apply (NoDup_map_inj key (s_regs s)); [apply (g_kd s HG) | exact E1 | exact Hg0 | unfold key; congruence].
    - unfold find_key in E. eapply find_none in E; [|exact Hg0]. cbn in E. rewrite !Z.eqb_refl in E. discriminate. }
  rewrite E.
  assert (Hflush : forall s1, tpost (g_gid g0) (g_remote g0) s s1 -> tpost (g_gid g0) (g_remote g0) s (flush_cancels s1)).
  { intros s1 [K I]. split; [eapply keep3_trans; [exact K | apply flush_keep]|]. apply (idle_same _ _ s1); [apply flush_same3 | exact I]. }
  destruct (g_phase g0) eqn:Ep.
  - apply Hflush. apply first_render_done_idle. exact Hgate.
  - split; [apply keep3_refl|]. intros g1 Hg1 Eg. assert (g1 = g0) by (apply (NoDup_map_inj g_gid (s_regs s)); [apply (g_nd s HG) | assumption ..]). subst g1. split; [exact Ep | reflexivity].
  - apply Hflush. apply after_response_idle; [exact Hgate|]. intros s1 g1 A A' B C. rewrite <- A, <- A'. apply run_loop_idle2. exact C.
Qed.

(* ------------------------------------------------------------------ acknowledging what is in flight empties the endpoint's queue *)
Definition cnt_x (r : Z) (l : list exch) : nat := length (filter (fun x => x_remote x =? r) l).
Definition cnt_b (r : Z) (l : list (msg * Z)) : nat := length (filter (fun e => m_remote (fst e) =? r) l).
Definition Mr (r : Z) (s : state) : nat := (cnt_x r (s_exch s) + 2 * cnt_b r (s_backlog s))%nat.
Lemma cnt_filter_le r (p : exch -> bool) l : (cnt_x r (filter p l) <= cnt_x r l)%nat.
Proof. unfold cnt_x. induction l as [|y l IH]; cbn; [lia|]. destruct (p y); cbn; destruct (x_remote y =? r); cbn; lia. Qed.
Lemma cnt_filter_lt r (p : exch -> bool) l x : In x l -> x_remote x = r -> p x = false -> (cnt_x r (filter p l) < cnt_x r l)%nat.
Proof. unfold cnt_x. induction l as [|y l IH]; cbn; [tauto|]. intros [->|Hi] Hr Hp.
  - rewrite Hp. cbn. replace (x_remote x =? r) with true by lia. cbn. pose proof (cnt_filter_le r p l). unfold cnt_x in H. lia.
  - specialize (IH Hi Hr Hp). destruct (p y); cbn; destruct (x_remote y =? r); cbn; lia. Qed.
Lemma cnt_drop1 r l e : find (fun e => m_remote (fst e) =? r) l = Some e -> (cnt_b r (drop1 r l) + 1 = cnt_b r l)%nat.
Proof. unfold cnt_b. induction l as [|y l IH]; cbn [find]; [discriminate|]. cbn [drop1 filter]. destruct (m_remote (fst y) =? r) eqn:E.
  - intros _. cbn [length]. lia.
  - intros H. cbn [filter]. rewrite E. apply IH. exact H. Qed.

Lemma ack_effect s r x : GI s -> In x (s_exch s) -> x_remote x = r -> s_down s = false ->
  let s' := step s (EAck r (x_mid x)) in s_regs s' = s_regs s /\ keep3 s s' /\ (Mr r s' < Mr r s)%nat.
Proof.
  intros HG Hx Hr Hd. cbn [step]. rewrite Hd. unfold remove_exchange.
  set (p := fun y => (x_remote y =? r) && (x_mid y =? x_mid x)).
  destruct (find p (s_exch s)) as [x'|] eqn:Ef.
  2:{ exfalso. eapply find_none in Ef; [|exact Hx]. unfold p in Ef. rewrite Hr, !Z.eqb_refl in Ef. discriminate. }
  set (sA := cancel_timers (set_exch s (filter (fun y => negb (p y)) (s_exch s))) (is_retrans r (x_mid x))).
  assert (LA : (cnt_x r (s_exch sA) < cnt_x r (s_exch s))%nat).
  { apply (cnt_filter_lt r _ _ x Hx Hr). unfold p. rewrite Hr, !Z.eqb_refl. reflexivity. }
  assert (Hfin : forall s1, s_regs s1 = s_regs s -> keep3 s s1 -> (Mr r s1 < Mr r s)%nat ->
            s_regs (flush_cancels s1) = s_regs s /\ keep3 s (flush_cancels s1) /\ (Mr r (flush_cancels s1) < Mr r s)%nat).
  { intros s1 A B C. destruct (flush_same3 s1) as (F1 & _ & _). split; [congruence | split; [eapply keep3_trans; [exact B | apply flush_keep]|]].
    replace (Mr r (flush_cancels s1)) with (Mr r s1); [exact C|]. unfold Mr, flush_cancels. fsimpl.
    assert (G : forall l s0, s_exch (fold_left cancel_cb l s0) = s_exch s0 /\ s_backlog (fold_left cancel_cb l s0) = s_backlog s0).
    { induction l as [|c l IHl]; intros s0; cbn [fold_left]; [auto|]. destruct (IHl (cancel_cb s0 c)) as [G1 G2]. rewrite G1, G2. auto. }
    destruct (G (s_cancelq s1) s1) as [G1 G2]. rewrite G1, G2. reflexivity. }
  change (s_regs (flush_cancels (continue_backlog sA r)) = s_regs s /\ keep3 s (flush_cancels (continue_backlog sA r)) /\ (Mr r (flush_cancels (continue_backlog sA r)) < Mr r s)%nat).
  apply Hfin; unfold continue_backlog.
  - destruct (has_exchange sA r); [reflexivity|]. destruct (find _ (s_backlog sA)) as [[m x2]|]; [|reflexivity]. match goal with |- s_regs (send_initially ?a ?b ?c ?d) = _ => destruct (si3 a b c d) as (Q1 & _) end. rewrite Q1. reflexivity.
  - destruct (has_exchange sA r); [constructor; reflexivity|]. destruct (find _ (s_backlog sA)) as [[m x2]|]; [|constructor; reflexivity].
    eapply keep3_trans; [|apply si_keep]. constructor; reflexivity.
  - destruct (has_exchange sA r); [unfold Mr; change (s_backlog sA) with (s_backlog s); lia|].
    destruct (find (fun e => m_remote (fst e) =? r) (s_backlog sA)) as [[m x2]|] eqn:Eb; [|unfold Mr; change (s_backlog sA) with (s_backlog s); lia].
    pose proof (find_some _ _ Eb) as [Em Emr]. cbn [fst] in Emr.
    assert (Hcon : m_mtype m = CON) by (apply (g_t s HG (m, x2)); exact Em).
    fold (drop1 r (s_backlog sA)). pose proof (cnt_drop1 r (s_backlog sA) (m, x2) Eb) as Cd. change (s_backlog sA) with (s_backlog s) in *.
    unfold Mr, send_initially, store_response_for_duplicates, send_via_transport, add_exchange, add_timer. rewrite Hcon. fsimpl.
    unfold cnt_x in *. rewrite filter_app, app_length. cbn [filter x_remote]. replace (m_remote m =? r) with true by lia. cbn [length]. lia.
Qed.

Definition is_ack (e : event) : Prop := match e with EAck _ _ => True | _ => False end.
Lemma ack_drain mid0 r : forall n es, let s := run (init mid0) es in (Mr r s <= n)%nat -> s_down s = false ->
  exists acks, Forall is_ack acks /\ let s' := run s acks in
    s_regs s' = s_regs s /\ keep3 s s' /\ forall e, In e (s_backlog s') -> m_remote (fst e) <> r.
Proof.
  induction n as [|n IH]; intros es s Hm Hd; destruct (run_all es (init mid0) (FI_init mid0) (InvA_init mid0) eq_refl (LV_init mid0)) as ([HG _] & _); fold s in HG;
    destruct (has_exchange s r) eqn:Ex.
  - exfalso. unfold has_exchange in Ex. apply existsb_exists in Ex as [x [Hx Hr]]. unfold Mr, cnt_x in Hm.
    assert (In x (filter (fun y => x_remote y =? r) (s_exch s))) by (apply filter_In; split; assumption). destruct (filter _ (s_exch s)); [contradiction | cbn in Hm; lia].
  - exists []. split; [constructor|]. cbn. split; [reflexivity | split; [apply keep3_refl|]]. intros e He Hr. pose proof (g_j s HG Hd r e He Hr). congruence.
  - unfold has_exchange in Ex. apply existsb_exists in Ex as [x [Hx Hr]]. apply Z.eqb_eq in Hr.
    destruct (ack_effect s r x HG Hx Hr Hd) as (A & B & C).
    destruct (IH (es ++ [EAck r (x_mid x)])) as (acks & F & D).
    + rewrite run_app. cbn [run fold_left]. fold s. lia.
    + rewrite run_app. cbn [run fold_left]. fold s. rewrite (k_down _ _ B). exact Hd.
    + rewrite run_app in D. cbn [run fold_left] in D. fold s in D. destruct D as (D1 & D2 & D3).
      exists (EAck r (x_mid x) :: acks). split; [constructor; [exact I | exact F]|]. cbn [run fold_left].
      split; [unfold run in *; congruence | split; [eapply keep3_trans; [exact B | exact D2] | exact D3]].
  - exists []. split; [constructor|]. cbn. split; [reflexivity | split; [apply keep3_refl|]]. intros e He Hr. pose proof (g_j s HG Hd r e He Hr). congruence.
Qed.

(* the events that make progress: render completions, acknowledgements, and renders stop being slow *)
Definition progress_event (e : event) : Prop := match e with EAck _ _ | ERenderDone _ _ | ESetGate false => True | _ => False end.
Lemma progress_lemma : forall mid0 es g0, let s := run (init mid0) es in
  In g0 (s_regs s) -> s_down s = false ->
  exists es', Forall progress_event es' /\ let s' := run s es' in
    s_version s' = s_version s /\
    (~ live (g_gid g0) s' \/
     exists g1, In g1 (s_regs s') /\ g_gid g1 = g_gid g0 /\ g_phase g1 = PWait /\ queuel (g_gid g0) s' = []).
Proof.
  intros mid0 es g0 s Hg Hd. set (r := g_remote g0).
  set (es1 := es ++ [ESetGate false]). set (s1 := run (init mid0) es1).
  assert (E1 : s1 = set_gate s false) by (unfold s1, es1; rewrite run_app; reflexivity).
  destruct (run_all es1 (init mid0) (FI_init mid0) (InvA_init mid0) eq_refl (LV_init mid0)) as ([HG1 _] & _). fold s1 in HG1.
  assert (Hg1 : In g0 (s_regs s1)) by (rewrite E1; exact Hg).
  destruct (render_done_idle s1 g0 HG1 Hg1 ltac:(rewrite E1; reflexivity)) as [K2 I2].
  set (e2 := ERenderDone (g_remote g0) (g_token g0)) in *. set (es2 := es1 ++ [e2]).
  assert (E2 : run (init mid0) es2 = step s1 e2) by (unfold es2; rewrite run_app; reflexivity).
  destruct (ack_drain mid0 r (Mr r (run (init mid0) es2)) es2 (le_n _)) as (acks & Fa & A1 & A2 & A3).
  { rewrite E2, (k_down _ _ K2), E1. exact Hd. }
  rewrite E2 in A1, A2, A3. set (s3 := run (step s1 e2) acks) in *.
  exists (ESetGate false :: e2 :: acks). split.
  - constructor; [exact I | constructor; [exact I|]]. eapply Forall_impl; [|exact Fa]. intros [] H; try destruct H; exact I.
  - assert (E3 : run s (ESetGate false :: e2 :: acks) = s3).
    { unfold s3. cbn [run fold_left]. change (step s (ESetGate false)) with (set_gate s false). rewrite <- E1. reflexivity. }
    rewrite E3. split; [rewrite (k_ver _ _ A2), (k_ver _ _ K2), E1; reflexivity|].
    destruct (in_dec Z.eq_dec (g_gid g0) (map g_gid (s_regs s3))) as [Hl|Hl]; [right | left; exact Hl].
    apply in_map_iff in Hl as [g1 [Eg Hi]]. exists g1. split; [exact Hi | split; [exact Eg|]].
    assert (Hi2 : In g1 (s_regs (step s1 e2))) by (rewrite <- A1; exact Hi). destruct (I2 g1 Hi2 Eg) as [Hp Hrem]. split; [exact Hp|].
    (* s3 is reachable: the FIFO invariant locates whatever waits for g at its endpoint, whose queue is empty *)
    assert (R3 : s3 = run (init mid0) (es2 ++ acks)) by (unfold s3; rewrite run_app, E2; reflexivity).
    destruct (run_all (es2 ++ acks) (init mid0) (FI_init mid0) (InvA_init mid0) eq_refl (LV_init mid0)) as ([HG3 Ho3] & _). rewrite <- R3 in HG3, Ho3.
    destruct (Ho3 g1 Hi) as [[R1 _ _ _ R5] _]. rewrite Eg in R1, R5.
    apply nil_if_empty. intros m Hm. assert (Hmr : m_remote m = g_remote g1) by (apply R5; rewrite R1; apply in_or_app; right; exact Hm).
    apply gfilter_In in Hm as [Hm _]. apply in_map_iff in Hm as [e [He1 He2]]. apply (A3 e He2). rewrite He1, Hmr, Hrem. reflexivity.
Qed.

(* "eventually sent": after the progress events the registration has ended or the newest datagram on the wire is current *)
Lemma eventually_sent_lemma : forall mid0 es g0, let s := run (init mid0) es in
  In g0 (s_regs s) -> s_down s = false ->
  exists es', Forall progress_event es' /\ let s' := run s es' in
    s_version s' = s_version s /\
    (~ live (g_gid g0) s' \/ exists m, last_wire (g_gid g0) s' = Some m /\ (m_pk m = 1 -> m_pv m = s_version s)).
Proof.
  intros mid0 es g0 s Hg Hd. destruct (progress_lemma mid0 es g0 Hg Hd) as (es' & F & Hv & H). fold s in Hv, H.
  exists es'. split; [exact F|]. cbn zeta. split; [exact Hv|]. destruct H as [H|(g1 & Hi & Eg & Hp & Hq)]; [left; exact H | right].
  assert (E : run s es' = run (init mid0) (es ++ es')) by (unfold s; rewrite run_app; reflexivity).
  rewrite E in Hi, Hq, Hv |- *. rewrite <- Eg in Hq. destruct (latest_lemma mid0 (es ++ es') g1 Hi Hp Hq) as (_ & m & A & _ & B).
  exists m. rewrite <- Eg. split; [exact A|]. intros Hk. rewrite <- Hv. apply B. exact Hk.
Qed.
