(* C08, round 6 — the fuel of [advance] is never exhausted: after step (EAdvance dt) no timer that is due is left, in any state.
   (The model's only "internal error" outcome, returning early with timers still due, is unreachable.) *)
From Verif Require Import Lib.Py Lib.Tactics Model.C08 Proofs.C08.
Open Scope Z_scope.

Definition wsum (l : list timer) : nat := list_sum (map timer_weight l).
Lemma fold_weight l : forall a, fold_left (fun a t => (a + timer_weight t)%nat) l a = (a + wsum l)%nat.
Proof. unfold wsum. induction l as [|x l IH]; intros a; cbn [fold_left map]; [cbn; lia|]. rewrite IH.
  change (list_sum (timer_weight x :: map timer_weight l)) with (timer_weight x + list_sum (map timer_weight l))%nat. lia. Qed.
Lemma advance_fuel_eq s : advance_fuel s = S (wsum (s_timers s)).
Proof. unfold advance_fuel. rewrite fold_weight. reflexivity. Qed.
Lemma wsum_app a b : wsum (a ++ b) = (wsum a + wsum b)%nat.
Proof. unfold wsum. rewrite map_app, list_sum_app. reflexivity. Qed.
Lemma wsum_filter_le (p : timer -> bool) l : (wsum (filter p l) <= wsum l)%nat.
Proof. unfold wsum. induction l as [|x l IH]; [cbn; lia|]. cbn [filter]. destruct (p x); cbn [map];
  repeat match goal with |- context [list_sum (?a :: ?b)] => change (list_sum (a :: b)) with (a + list_sum b)%nat end; lia. Qed.
Lemma wsum_filter_out (p : timer -> bool) l x : In x l -> p x = false -> (wsum (filter p l) + timer_weight x <= wsum l)%nat.
Proof. unfold wsum. induction l as [|y l IH]; [intros []|]. cbn [filter map].
  change (list_sum (timer_weight y :: map timer_weight l)) with (timer_weight y + list_sum (map timer_weight l))%nat. intros [->|Hi] Hp.
  - rewrite Hp. pose proof (wsum_filter_le p l). unfold wsum in H. lia.
  - specialize (IH Hi Hp). destruct (p y); cbn [map];
    repeat match goal with |- context [list_sum (?a :: ?b)] => change (list_sum (a :: b)) with (a + list_sum b)%nat end; lia. Qed.

Lemma min_timer_In l u : min_timer l = Some u -> In u l.
Proof. revert u. induction l as [|x l IH]; cbn; [discriminate|]. intros u. destruct (min_timer l) as [v|].
  - destruct (timer_lt v x); intros H; inversion H; subst; [right; apply IH; reflexivity | left; reflexivity].
  - intros H; inversion H. left. reflexivity. Qed.
Lemma min_timer_le l u : min_timer l = Some u -> forall x, In x l -> t_due u <= t_due x.
Proof. revert u. induction l as [|y l IH]; cbn; [discriminate|]. intros u. destruct (min_timer l) as [v|] eqn:E.
  - destruct (timer_lt v y) eqn:Lt; intros H; inversion H; subst; intros x [<-|Hx].
    + unfold timer_lt in Lt. lia.
    + apply IH; auto.
    + lia.
    + specialize (IH v eq_refl x Hx). unfold timer_lt in Lt. lia.
  - intros H; inversion H; subst. intros x [<-|Hx]; [lia|]. destruct l; [destruct Hx | cbn in E; destruct (min_timer l); [destruct (timer_lt t0 t) | ]; discriminate].
Qed.

Lemma timers_stop s x : s_timers (stop s x) = s_timers s. Proof. unfold stop. destruct (find_reg s x); reflexivity. Qed.
Lemma timers_fold_stop l : forall s, s_timers (fold_left stop l s) = s_timers s.
Proof. induction l as [|x l IH]; intros s; cbn [fold_left]; [reflexivity|]. rewrite IH. apply timers_stop. Qed.
Lemma timers_flush s : s_timers (flush_cancels s) = s_timers s.
Proof. unfold flush_cancels. fsimpl. generalize (s_cancelq s). intros l. revert s. induction l as [|x l IH]; intros s; cbn [fold_left]; [reflexivity|]. rewrite IH. reflexivity. Qed.
(* firing a timer adds at most one timer, lighter than the one fired *)
Lemma timers_fire s k : s_timers (fire s k) = s_timers s \/
  exists nt, s_timers (fire s k) = s_timers s ++ [nt] /\ forall d q, (S (timer_weight nt) <= timer_weight (mktimer d q k))%nat.
Proof.
  destruct k as [r tok|m t c|r mid]; cbn [fire].
  - left. destruct (piggy_find s r tok); reflexivity.
  - unfold retransmit. destruct (c <? MAX_RETRANSMIT) eqn:E.
    + right. eexists. split; [reflexivity|]. intros d q. unfold timer_weight, MAX_RETRANSMIT in *. cbn [t_kind]. lia.
    + left. unfold stop_remote. rewrite timers_fold_stop. reflexivity.
  - left. reflexivity.
Qed.

Lemma advance_drains fuel : forall s t, (wsum (s_timers s) < fuel)%nat -> forall tm, In tm (s_timers (advance fuel s t)) -> t < t_due tm.
Proof.
  induction fuel as [|f IH]; intros s t Hw tm Hin; [lia|]. cbn [advance] in Hin.
  destruct (min_timer (s_timers s)) as [u|] eqn:Em.
  2:{ destruct (s_timers s) as [|x l]; [destruct Hin|]. cbn in Em. destruct (min_timer l); [destruct (timer_lt t0 x)|]; discriminate. }
  destruct (t_due u <=? t) eqn:Ed.
  - revert Hin. apply IH. rewrite timers_flush.
    match goal with |- context [fire ?x (t_kind u)] => set (s1 := x) end.
    assert (T1 : s_timers s1 = filter (fun v => negb (t_seq v =? t_seq u)) (s_timers s)) by reflexivity.
    assert (W1 : (wsum (s_timers s1) + timer_weight u <= wsum (s_timers s))%nat).
    { rewrite T1. apply wsum_filter_out; [apply min_timer_In; exact Em | rewrite Z.eqb_refl; reflexivity]. }
    assert (Wu : (1 <= timer_weight u)%nat) by (unfold timer_weight; destruct (t_kind u); lia).
    destruct (timers_fire s1 (t_kind u)) as [E|(nt & E & Hn)]; rewrite E.
    + lia.
    + rewrite wsum_app. assert (W2 : wsum [nt] = timer_weight nt) by (unfold wsum; cbn; lia). rewrite W2. specialize (Hn (t_due u) (t_seq u)).
      replace (mktimer (t_due u) (t_seq u) (t_kind u)) with u in Hn by (destruct u; reflexivity). lia.
  - pose proof (min_timer_le _ _ Em tm Hin). lia.
Qed.
Lemma advance_event_drains s dt : forall tm, In tm (s_timers (step s (EAdvance dt))) -> s_now s + dt < t_due tm.
Proof. intros tm H. cbn [step] in H. apply (advance_drains (advance_fuel s) s (s_now s + dt)); [rewrite advance_fuel_eq; lia | exact H]. Qed.
