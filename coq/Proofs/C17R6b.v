(* C17 — round 6, part 2: removing a plain resource at ANY site address takes effect for the next request (4.04), in a tree where
   nothing shadows the path; and the reachable-tree version of the nested add theorem. *)
From Verif Require Import Lib.Py Lib.Tactics Model.C17Base Gen.resource_site Model.C17 Proofs.C17 Proofs.C17Reg Proofs.C17Wkc Proofs.C17List.
Open Scope Z_scope.
Open Scope list_scope.

(* the request path that reaches path q of the site at address addr: keys concatenated, an empty remainder spelled as a trailing slash *)
Fixpoint addr_path (addr : list (list string)) (q : list string) : list string :=
  match addr with
  | [] => q
  | k :: a => k ++ match addr_path a q with [] => [""%string] | x => x end
  end.
Lemma addr_path_chain : forall addr p, addr_path addr p = chain_path (addr ++ [p]).
Proof.
  induction addr as [|k a IH]; intro p; [reflexivity|].
  cbn [addr_path]. rewrite IH. destruct a as [|k2 a']; reflexivity.
Qed.

Lemma scan_finds : forall (ss : dict node) k c rest, k <> [] -> rest <> [] -> dict_get_opt ss k = Some c ->
  (forall key, In key (dict_keys ss) -> proper_prefix k key = false) ->
  scan ss (k ++ rest) (List.length (k ++ rest) - 1) = Some (c, norm_rest rest).
Proof.
  intros ss k c rest Hk Hrest Hg Hext. set (P := k ++ rest).
  assert (Hlen : (1 <= List.length k <= List.length P - 1)%nat).
  { unfold P. rewrite app_length. destruct k; [congruence|]. destruct rest; [congruence|]. simpl. lia. }
  assert (Hfk : firstn (List.length k) P = k) by (unfold P; rewrite firstn_app, firstn_all, Nat.sub_diag; simpl; apply app_nil_r).
  assert (Hsk : skipn (List.length k) P = rest) by (unfold P; rewrite skipn_app, skipn_all, Nat.sub_diag; reflexivity).
  destruct (scan ss P (List.length P - 1)) as [[c' r']|] eqn:Hscan.
  - destruct (scan_some _ _ _ _ _ _ Hscan) as [j [Hj [Hgj [Hr Hmax]]]].
    destruct (Nat.lt_trichotomy j (List.length k)) as [Hlt | [Heq | Hgt]].
    + pose proof (Hmax (List.length k) ltac:(lia)) as Hn. rewrite Hfk in Hn. congruence.
    + subst j. rewrite Hfk in Hgj. rewrite Hsk in Hr. congruence.
    + exfalso. pose proof (Hext (firstn j P) (get_In_keys _ _ _ _ Hgj)) as Hx.
      assert (E : firstn j P = k ++ firstn (j - List.length k) rest).
      { unfold P. rewrite firstn_app. f_equal. apply firstn_all2. lia. }
      rewrite E in Hx. rewrite proper_prefix_app in Hx; [discriminate|].
      intro E0. apply (f_equal (@List.length string)) in E0. rewrite firstn_length in E0. simpl in E0.
      assert (List.length P = List.length k + List.length rest)%nat by (unfold P; apply app_length). lia.
  - pose proof (scan_none _ _ _ _ Hscan (List.length k) Hlen) as Hn. rewrite Hfk in Hn. congruence.
Qed.

Lemma addr_path_not_slash : forall a nested c q, node_sep nested c = true -> a <> [] -> (forall rs ss, site_at a c = Some (NSite rs ss) -> True) ->
  site_at a c <> None -> addr_path a q <> [""%string].
Proof.
  intros a nested c q Hsep Ha _ Hs. destruct a as [|k a']; [congruence|]. cbn [addr_path].
  destruct c as [rs ss | id]; [|cbn [site_at] in Hs; congruence].
  cbn [site_at] in Hs. destruct (dict_get_opt ss k) as [c0|] eqn:Eg; [|congruence].
  rewrite node_sep_site in Hsep. apply andb_true_iff in Hsep. destruct Hsep as [Hsite _]. unfold site_sep in Hsite.
  apply andb_true_iff in Hsite. destruct Hsite as [_ Hkeys]. rewrite forallb_forall in Hkeys.
  pose proof (Hkeys _ (dict_get_opt_In _ _ _ _ Eg)) as Hk. cbn [fst] in Hk. apply andb_true_iff in Hk. destruct Hk as [Hne _].
  intro E. apply (f_equal (@List.length string)) in E. rewrite app_length in E. destruct k; [discriminate Hne|].
  destruct (addr_path a' q); simpl in E; lia.
Qed.

(* nothing at path q of the addressed site  =>  nothing at the corresponding request path of the tree *)
Lemma not_found_at_addr : forall addr n nested rs ss q, node_wf n = true -> node_sep nested n = true ->
  site_at addr n = Some (NSite rs ss) -> (addr <> [] -> q <> [""%string]) ->
  (forall t, ~ Route (NSite rs ss) q t) -> forall t, ~ Route n (addr_path addr q) t.
Proof.
  induction addr as [|k a IH]; intros n nested rs ss q Hw Hsep Hs Hq Hno t.
  - destruct n as [rs0 ss0 | id]; [|discriminate]. inversion Hs; subst. apply Hno.
  - destruct n as [rs0 ss0 | id]; [|discriminate]. cbn [site_at] in Hs. destruct (dict_get_opt ss0 k) as [c|] eqn:Eg; [|discriminate].
    rewrite node_wf_site in Hw. apply andb_true_iff in Hw. destruct Hw as [Hw Hcw]. apply andb_true_iff in Hw. destruct Hw as [Hwr Hws].
    rewrite node_sep_site in Hsep. apply andb_true_iff in Hsep. destruct Hsep as [Hsite Hchildren].
    unfold site_sep in Hsite. apply andb_true_iff in Hsite. destruct Hsite as [_ Hkeys]. rewrite forallb_forall in Hkeys.
    pose proof (Hkeys _ (dict_get_opt_In _ _ _ _ Eg)) as Hk. cbn [fst] in Hk. apply andb_true_iff in Hk. destruct Hk as [Hkne Hext].
    rewrite forallb_forall in Hext.
    assert (Hk0 : k <> []) by (destruct k; [discriminate Hkne | discriminate]).
    rewrite forallb_forall in Hchildren. pose proof (Hchildren _ (dict_get_opt_In _ _ _ _ Eg)) as Hcsep. cbn [snd] in Hcsep.
    pose proof (children_wf_get ss0 k c Hcw Eg) as Hcwf.
    cbn [addr_path]. remember (addr_path a q) as R eqn:ER.
    remember (match R with [] => [""%string] | s :: l => s :: l end) as rest eqn:Erest.
    assert (Hrest : rest <> []) by (rewrite Erest; destruct R; discriminate).
    assert (Hnorm : norm_rest rest = R).
    { rewrite Erest. unfold norm_rest. destruct R as [|x R']; [reflexivity|].
      destruct (path_eqb (x :: R') [""%string]) eqn:Ex; [|reflexivity]. apply path_eqb_eq in Ex. exfalso.
      destruct a as [|k2 a'].
      - cbn [addr_path] in ER. apply (Hq ltac:(discriminate)). congruence.
      - apply (addr_path_not_slash (k2 :: a') true c q Hcsep ltac:(discriminate) (fun _ _ _ => I)); [rewrite Hs; discriminate | congruence]. }
    intro HR. apply Route_site_iff in HR.
    assert (Hrs : dict_get_opt rs0 (k ++ rest) = None).
    { destruct (dict_get_opt rs0 (k ++ rest)) as [r0|] eqn:E0; [|reflexivity]. exfalso.
      pose proof (Hext (k ++ rest) (in_or_app _ _ _ (or_introl (get_In_keys _ _ _ _ E0)))) as Hx.
      rewrite (proper_prefix_app k rest Hrest) in Hx. discriminate. }
    rewrite Hrs in HR.
    rewrite (scan_finds ss0 k c rest Hk0 Hrest Eg) in HR.
    + rewrite Hnorm, ER in HR. revert HR. apply (IH c true rs ss q Hcwf Hcsep Hs).
      * intros _. apply Hq. discriminate.
      * exact Hno.
    + intros key Hin. pose proof (Hext key (in_or_app _ _ _ (or_intror Hin))) as Hx. destruct (proper_prefix k key); [discriminate | reflexivity].
Qed.

(* removing a plain resource at any address: the next request for its path is answered 4.04 *)
Lemma request_after_remove_nested : forall root addr p root' pipe q rs ss,
  node_wf root = true -> step root (ORemove addr p) = (root', RDone) -> node_sep false root' = true ->
  site_at addr root = Some (NSite rs ss) -> dict_get_opt ss p = None ->
  (forall pre rest, p = pre ++ rest -> pre <> [] -> rest <> [] -> dict_get_opt ss pre = None) ->
  (addr <> [] -> p <> [""%string]) ->
  request pipe root' (new_request (addr_path addr p) None) q = RExn NotFound.
Proof.
  intros root addr p root' pipe q rs ss Hw Hstep Hsep Hat Hnosub Hpre Hp.
  pose proof (step_wf root (ORemove addr p) Hw) as Hw'. rewrite Hstep in Hw'. cbn [fst] in Hw'.
  cbn [step] in Hstep. destruct (update_at addr (fun s => remove_resource s p) root) as [[n'|e]|] eqn:E; cbn [apply_update] in Hstep; inversion Hstep; subst.
  destruct (site_at_update_at _ _ _ _ E) as [rs0 [ss0 [s' [H1 [H2 H3]]]]]. rewrite Hat in H1. inversion H1; subst rs0 ss0.
  pose proof (site_at_wf addr root _ Hw Hat) as Hsw. rewrite node_wf_site in Hsw. apply andb_true_iff in Hsw. destruct Hsw as [Hsw _].
  pose proof (remove_resource_effect _ _ (site_of rs ss) p Hsw) as Heff. rewrite H2 in Heff. cbn [site_of subsites resources] in Heff.
  rewrite Hnosub in Heff. destruct Heff as [_ [_ [_ [Hgone Hss]]]].
  apply request_not_found; [reflexivity|]. cbn [new_request uri_path].
  apply (not_found_at_addr addr root' false (resources s') (subsites s') p Hw' Hsep H3 Hp).
  intros t Ht. apply Route_site_iff in Ht. rewrite Hgone, Hss in Ht.
  destruct (scan ss p (List.length p - 1)) as [[c rest]|] eqn:Hscan; [|exact Ht].
  destruct (scan_some _ _ _ _ _ _ Hscan) as [j [Hj [Hg _]]].
  rewrite (Hpre (firstn j p) (skipn j p)) in Hg; [discriminate | symmetry; apply firstn_skipn | |].
  - intro E0. apply (f_equal (@List.length string)) in E0. rewrite firstn_length in E0. simpl in E0. lia.
  - intro E0. apply (f_equal (@List.length string)) in E0. rewrite skipn_length in E0. simpl in E0. lia.
Qed.

(* the nested-add theorem for every tree reachable by a history: well-formedness is derived, not assumed *)
Lemma request_after_add_nested_reachable : forall ops addr p id d root' pipe q,
  step (fst (run (NSite [] []) ops)) (OAdd addr p (TRes (RHandler id d))) = (root', RDone) -> node_sep false root' = true ->
  let P := chain_path (addr ++ [p]) in
  request pipe root' (new_request P None) q = RHandled id [] (Some P) (Ok (uri_segments P)).
Proof.
  intros ops addr p id d root' pipe q H Hsep. apply (request_after_add_nested _ addr p id d root' pipe q H); [|exact Hsep].
  pose proof (step_wf (fst (run (NSite [] []) ops)) (OAdd addr p (TRes (RHandler id d))) (run_wf ops (NSite [] []) eq_refl)) as Hw.
  rewrite H in Hw. exact Hw.
Qed.

(* listing -> routing on every tree a history reaches: only the no-shadowing condition remains as a hypothesis *)
Lemma listed_routable_reachable : forall ops ls h d, let n := fst (run (NSite [] []) ops) in
  node_sep false n = true -> get_resources_as_linkheader n = Some ls -> In (h, d) ls ->
  exists ch r, In (ch, r) (entries n) /\ get_link_description r = Some d /\ h = href_of_path (chain_path ch) /\
               Route n (chain_path ch) (TgtRes r).
Proof.
  intros ops ls h d n Hsep Hls Hin. apply (listed_routable n ls h d); try assumption. apply run_wf. reflexivity.
Qed.
