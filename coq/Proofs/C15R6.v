(* C15 round 6 — history-level statements about the endpoint (pool + token manager + connections). *)
From Verif Require Import Lib.Py Lib.Tactics Lib.PyLemmas Gen.options_ext Gen.tcp_framing Model.C15 Model.C15Sys Proofs.C15 Proofs.C15Sys.
Open Scope Z_scope.

Lemma sys_run_cons s e es : sys_run s (e :: es) =
  let '(s1, o1) := sys_step s e in let '(s2, o2) := sys_run s1 es in (s2, o1 ++ o2).
Proof. reflexivity. Qed.
Lemma sys_run_app : forall es1 es2 s, sys_run s (es1 ++ es2) =
  let '(s1, o1) := sys_run s es1 in let '(s2, o2) := sys_run s1 es2 in (s2, o1 ++ o2).
Proof.
  induction es1 as [|e es1 IH]; intros es2 s.
  - cbn [app sys_run]. destruct (sys_run s es2) as [s2 o2]. reflexivity.
  - cbn [app]. rewrite !sys_run_cons. destruct (sys_step s e) as [s1 o1]. rewrite IH.
    destruct (sys_run s1 es1) as [s2 o2]. destruct (sys_run s2 es2) as [s3 o3]. rewrite app_assoc. reflexivity.
Qed.

Lemma in_filter_other id r l : In r l -> r_remote r <> id -> In r (filter (other id) l).
Proof. intros H Hne. apply filter_In. split; [exact H|]. unfold other. destruct (Z.eqb_spec (r_remote r) id); [contradiction|reflexivity]. Qed.

(* one step of the endpoint: a request in the table stays there or has received a terminal event *)
Lemma sys_step_progress s e r : In r (outgoing s) ->
  let '(s1, x) := sys_step s e in In r (outgoing s1) \/ terminal (r_remote r) r x.
Proof.
  intros Hr.
  assert (Hroute : forall id os s0, In r (outgoing s0) ->
            let '(s1, x) := route_all id os s0 in In r (outgoing s1) \/ terminal (r_remote r) r x).
  { intros id os s0 Hr0. pose proof (route_all_spec os id s0) as H. destruct (route_all id os s0) as [s1 x].
    destruct H as (B1 & _ & B3 & _).
    destruct (Z.eq_dec (r_remote r) id) as [E|E].
    - rewrite E. apply B1; assumption.
    - left. pose proof (in_filter_other id r _ Hr0 E) as Hf. rewrite <- B3 in Hf. apply filter_In in Hf. apply Hf. }
  destruct e as [id tok obs|id d|id]; cbn [sys_step].
  - destruct (get_conn id (conns s)) as [c|]; [|left; exact Hr].
    destruct (pool_send_message c (request_msg tok obs)) as [[c1 o] ok].
    apply Hroute. cbn [outgoing]. apply in_or_app. left. exact Hr.
  - destruct (get_conn id (conns s)) as [c|]; [|left; exact Hr].
    destruct (closed c); [left; exact Hr|]. destruct (data_received c d) as [c1 o]. apply Hroute. exact Hr.
  - apply Hroute. exact Hr.
Qed.

Lemma sys_run_progress : forall es s r, In r (outgoing s) ->
  let '(s1, x) := sys_run s es in In r (outgoing s1) \/ terminal (r_remote r) r x.
Proof.
  induction es as [|e es IH]; intros s r Hr; [left; exact Hr|].
  rewrite sys_run_cons. pose proof (sys_step_progress s e r Hr) as H1. destruct (sys_step s e) as [s1 o1].
  destruct H1 as [H1|H1].
  - specialize (IH s1 r H1). destruct (sys_run s1 es) as [s2 o2].
    destruct IH as [H2|H2]; [left; exact H2|right; apply terminal_app_r; exact H2].
  - destruct (sys_run s1 es) as [s2 o2]. right. apply terminal_app_l. exact H1.
Qed.

(* whatever happened before (any requests, any bytes on any connection — in particular the endpoint's OWN Abort
   after a bad frame, which fails nobody by itself): once the transport reports connection_lost for a connection,
   every request that was outstanding on it at any earlier point has received a terminal event (final response or
   NetworkError), none is left in the table, the connection is out of the pool *)
Lemma lost_ends_all_pending : forall es s id r, In r (outgoing s) -> r_remote r = id ->
  let '(s1, x) := sys_run s (es ++ [PLost id]) in
  terminal id r x /\ (forall q, In q (outgoing s1) -> r_remote q <> id) /\ ~ In id (pool s1).
Proof.
  intros es s id r Hr Hid. rewrite sys_run_app.
  pose proof (sys_run_progress es s r Hr) as HP. destruct (sys_run s es) as [s1 o1].
  cbn [sys_run]. pose proof (sys_step_lost_dead s1 id) as HL. destruct (sys_step s1 (PLost id)) as [s2 o2].
  destruct HL as (L1 & L2 & L3 & _). rewrite app_nil_r. rewrite Hid in HP.
  split; [|split; assumption].
  destruct HP as [H|H]; [apply terminal_app_r; apply L1; assumption|apply terminal_app_l; exact H].
Qed.
