(* C14 — round 6: history-level statements.
   (1) The first transmission of a confirmable message to r opens the exchange for exactly that message.
   (2) It stays the one in flight — and no other confirmable message to r is transmitted for the first time — through every
       step that neither acknowledges/resets it nor fails the endpoint (run-level, any refusals of OTHER remotes).
   (3) Hence between two first transmissions of confirmable messages to r there is an ACK/RST of the former or a failure of r.
   (4) Run-level, unconditional forms (from [init]) of the liveness bound. *)
From Verif Require Import Lib.Tactics Model.C14 Model.C14refuse Proofs.C14 Proofs.C14step Proofs.C14req Proofs.C14refuse Proofs.C14live Proofs.C14gen.
Import ListNotations.
Open Scope Z_scope.

Definition first_con_tx (r : Z) (m : msg) (o : list output) : Prop := In (Tx m false) o /\ con_to r m = true.

Lemma neutral_no_first_tx m o : forallb neutral o = true -> ~ In (Tx m false) o.
Proof. intros H Hi. rewrite forallb_forall in H. specialize (H _ Hi). discriminate. Qed.

Lemma silent_no_tx r m b o : silent r o = true -> m_remote m = r -> ~ In (Tx m b) o.
Proof. intros H Hr Hi. unfold silent in H. rewrite forallb_forall in H. specialize (H _ Hi). cbn in H. lia. Qed.

(* a confirmable message handed to C14.send_message for an idle remote: on the wire, and its exchange is the only one *)
Lemma send_message_idle who r mt code tok maxre s : Inv s -> aget r (backlogs s) = None ->
  forall m, In (Tx m false) (snd (C14.send_message who r mt code tok maxre s)) -> con_to r m = true ->
  exists x, exs r (fst (C14.send_message who r mt code tok maxre s)) = [x] /\ x_msg x = m.
Proof. intros HI Ha m Hin Hc. unfold C14.send_message, next_message_id, C14.send_initially in *. cbn [m_mtype m_remote] in *.
  unfold in_backlogs in *. cbn [backlogs] in *. rewrite Ha, andb_false_r in *. cbn [fst snd] in *.
  destruct Hin as [Hin|[Hin|[]]]; [discriminate|]. inv Hin. unfold con_to in Hc. cbn [m_mtype m_remote] in Hc.
  replace (resolve_mtype mt =? 0) with true by lia. cbn [fst].
  match goal with |- context [add_exchange ?mm ?ss] => destruct (add_exchange_exs_same mm ss) as (x & A & _ & B) end.
  - cbn [m_remote]. destruct (inv_count_aget s r HI) as [[Hc0 _]|(x & q & _ & Ha' & _)]; [|congruence].
    apply count0_exs in Hc0. exact Hc0.
  - cbn [m_remote] in B. exists x. auto. Qed.

(* (1) on the accepting transport *)
Theorem first_tx_opens_exchange s e r m : Inv s -> first_con_tx r m (snd (step s e)) ->
  exists x, exs r (fst (step s e)) = [x] /\ x_msg x = m.
Proof. intros HI (Hin & Hc). assert (Hrm : m_remote m = r) by (unfold con_to in Hc; lia).
  destruct (aget r (backlogs s)) as [q|] eqn:Ha.
  - (* r busy: only a release can do that *)
    pose proof (first_transmission_only_when_idle_or_acked s e r m HI Hin Hc ltac:(unfold in_backlogs; rewrite Ha; reflexivity)) as Hack.
    pose proof (released_when_acked s e r q HI Hack Ha) as R. cbn zeta in R. pose proof (in_left r m _ Hin Hc) as Hl.
    destruct q as [|m0 rest]; destruct R as (_ & R).
    + destruct R as (R & _). rewrite R in Hl. destruct Hl.
    + destruct R as (_ & R1 & _ & x' & Hx & Hm & _). rewrite R1 in Hl. destruct Hl as [<-|[]]. exists x'. auto.
  - (* r idle *)
    destruct (touches s e r) eqn:Ht.
    2:{ destruct (step_frame s e r HI Ht) as (_ & _ & C). destruct (silent_no_tx r m false _ C Hrm Hin). }
    assert (Hidle : exs r s = []).
    { destruct (inv_count_aget s r HI) as [[Hc0 _]|(x & q & _ & Ha' & _)]; [apply count0_exs; exact Hc0|congruence]. }
    destruct e; cbn in Ht; try discriminate; cbn [step] in *.
    + assert (r0 = r) by lia. subst r0. unfold C14.tm_request, next_token in *. cbn -[C14.send_message Z.pow Z.modulo] in *.
      match goal with |- context [C14.send_message ?a ?b ?c ?d ?e ?f ?s1] => apply (send_message_idle a b c d e f s1) end;
        [apply (inv_ext s); [reflexivity|reflexivity|exact HI]|exact Ha|exact Hin|exact Hc].
    + assert (r0 = r) by lia. subst r0. apply (send_message_idle (Raw k) r mt 69 tok maxre s HI Ha m Hin Hc).
    + exfalso. assert (r0 = r) by lia. subst r0.
      destruct (dispatch_message_shape r mtype 0 mid 0 s) as (tail & Ho & Hn & _). rewrite Ho in Hin.
      assert (Hf : (if (mtype =? 2) || (mtype =? 3) then C14.remove_exchange r mid mtype s else (s, [])) = (s, [])).
      { destruct ((mtype =? 2) || (mtype =? 3)); [|reflexivity]. unfold C14.remove_exchange. destruct (xget r mid (active_exchanges s)) as [x|] eqn:Ex; [|reflexivity].
        exfalso. destruct (xget_some _ _ _ _ Ex) as (Hi & Hr & _). pose proof (in_exs r s x Hi Hr) as H. rewrite Hidle in H. exact H. }
      rewrite Hf in Hin. exact (neutral_no_first_tx m tail Hn Hin).
    + exfalso. assert (r0 = r) by lia. subst r0.
      destruct (dispatch_message_shape r mtype 69 mid tok s) as (tail & Ho & Hn & _). rewrite Ho in Hin.
      assert (Hf : (if (mtype =? 2) || (mtype =? 3) then C14.remove_exchange r mid mtype s else (s, [])) = (s, [])).
      { destruct ((mtype =? 2) || (mtype =? 3)); [|reflexivity]. unfold C14.remove_exchange. destruct (xget r mid (active_exchanges s)) as [x|] eqn:Ex; [|reflexivity].
        exfalso. destruct (xget_some _ _ _ _ Ex) as (Hi & Hr & _). pose proof (in_exs r s x Hi Hr) as H. rewrite Hidle in H. exact H. }
      rewrite Hf in Hin. exact (neutral_no_first_tx m tail Hn Hin).
    + exfalso. unfold dispatch_error in Hin. destruct (tm_dispatch_error_spec NetworkError r0 s) as (_ & _ & _ & T1 & _). cbn zeta in T1.
      destruct (tm_dispatch_error NetworkError r0 s) as [s1 o1]. cbn [fst snd] in *. apply in_app_or in Hin. destruct Hin as [H|H]; [exact (T1 _ _ H)|exact (no_tx_dropped _ _ _ H)].
    + exfalso. unfold C14.fire in Hin. destruct (min_timer (active_exchanges s)) as [x|] eqn:E; [|discriminate Ht].
      pose proof (in_exs r s x (min_timer_in _ _ E) ltac:(lia)) as H. rewrite Hidle in H. exact H.
    + exfalso. unfold tm_process_request in Hin. cbn [snd] in Hin. apply in_map_iff in Hin. destruct Hin as (? & H & _). discriminate.
    + unfold respond in *. destruct (find (fun v => v_k v =? k) (incoming_requests s)) as [v|]; [|discriminate Ht].
      assert (Hv : v_remote v = r) by lia. rewrite Hv in *.
      pose proof (send_message_idle (Resp j k) r (if v_mtype v =? 1 then 7 else 8) 69 (v_tok v) maxre s HI Ha m) as SI.
      destruct (C14.send_message _ _ _ _ _ _ s) as [s1 o1]. cbn [fst snd] in *.
      destruct last; [destruct (alive k s1) eqn:Eal|]; cbn [fst snd] in *.
      * unfold stop_responder in *. rewrite Eal in *. cbn [fst snd] in *. apply in_app_or in Hin. destruct Hin as [H|[H|[]]]; [|discriminate].
        apply SI; assumption.
      * apply SI; assumption.
      * apply SI; assumption. Qed.

(* (1) for any refusals of other remotes *)
Theorem general_first_tx_opens_exchange l r : refuses l r = false -> forall s e m, Inv s ->
  first_con_tx r m (snd (step_ev l s e)) -> exists x, exs r (fst (step_ev l s e)) = [x] /\ x_msg x = m.
Proof. intros Hacc s e m HI (Hin & Hc). destruct (touches s e r) eqn:Ht.
  - rewrite (step_ev_touched l r Hacc s e HI Ht) in *. apply first_tx_opens_exchange; [exact HI|split; assumption].
  - destruct (step_ev_frame l s e r HI Ht) as (_ & _ & C). exfalso. apply (silent_no_tx r m false _ C); [unfold con_to in Hc; lia|exact Hin]. Qed.

(* no step of the run acknowledges/resets the exchange open with r or fails r *)
Fixpoint quiet_for (r : Z) (sl : st * list Z) (es : list revent) : bool :=
  match es with
  | [] => true
  | e :: es' =>
      (match e with Ev e0 => negb (acks (fst sl) e0 r) && negb (fails (fst sl) e0 r) | Refuse _ _ => true end) &&
      quiet_for r (fst (rstep sl e)) es'
  end.

(* (2) the message in flight stays in flight, and nothing else is first-transmitted to r *)
Theorem in_flight_persists : forall es s l r x, Inv s -> refuses l r = false -> never_refuses r es = true ->
  exs r s = [x] -> quiet_for r (s, l) es = true ->
  (forall m, ~ first_con_tx r m (concat (snd (rrun (s, l) es)))) /\
  refuses (snd (fst (rrun (s, l) es))) r = false /\
  exists x', exs r (fst (fst (rrun (s, l) es))) = [x'] /\ x_msg x' = x_msg x.
Proof. induction es as [|e es IH]; intros s l r x HI Hacc Hnr Hx Hq.
  - cbn. split; [intros m (H & _); exact H|]. split; [exact Hacc|]. exists x. auto.
  - cbn [never_refuses forallb] in Hnr. apply andb_prop in Hnr. destruct Hnr as [Hne Hnr].
    cbn [quiet_for] in Hq. apply andb_prop in Hq. destruct Hq as [Hq0 Hq].
    destruct e as [e|r' on].
    + cbn [rrun rstep fst] in *. apply andb_prop in Hq0. destruct Hq0 as [Hna Hnf].
      assert (Ha : exists q, aget r (backlogs s) = Some q).
      { destruct (inv_count_aget s r HI) as [[Hc _]|(x0 & q & _ & Ha & _)]; [|exists q; exact Ha].
        apply count0_exs in Hc. rewrite Hx in Hc. discriminate. }
      destruct Ha as (q & Ha).
      pose proof (general_held_otherwise_detail l r Hacc s e q HI Ha ltac:(destruct (acks s e r); [discriminate|reflexivity]) ltac:(destruct (fails s e r); [discriminate|reflexivity]))
        as (_ & Hl & x0 & x' & Hx0 & Hx' & Hm & _).
      pose proof (step_ev_trans l s e HI) as (HI1 & _).
      destruct (step_ev l s e) as [s1 o1]. cbn [fst snd] in *.
      rewrite Hx in Hx0. inv Hx0.
      destruct (IH s1 l r x' HI1 Hacc Hnr Hx' Hq) as (A & B & x2 & C & D).
      destruct (rrun (s1, l) es) as [sl2 os]. cbn [fst snd concat] in *.
      split; [|split; [exact B|exists x2; split; [exact C|congruence]]].
      intros m (Hin & Hc). apply in_app_or in Hin. destruct Hin as [Hin|Hin].
      * pose proof (in_left r m o1 Hin Hc) as H. rewrite Hl in H. exact H.
      * exact (A m (conj Hin Hc)).
    + cbn [rrun rstep fst] in *. destruct on.
      * assert (Hacc' : refuses (if refuses l r' then l else l ++ [r']) r = false)
          by (destruct (refuses l r'); [exact Hacc|apply refuses_app; [exact Hacc|lia]]).
        specialize (IH s _ r x HI Hacc' Hnr Hx Hq). destruct (rrun _ es) as [sl2 os]. exact IH.
      * specialize (IH s _ r x HI (refuses_filter l r r' Hacc) Hnr Hx Hq). destruct (rrun _ es) as [sl2 os]. exact IH. Qed.

Lemma rrun_inv : forall es s l, Inv s -> Inv (fst (fst (rrun (s, l) es))).
Proof. induction es as [|e es IH]; intros s l H0; [exact H0|]. cbn [rrun]. destruct e as [e|r' on]; cbn [rstep].
  - pose proof (step_ev_trans l s e H0) as (H1 & _). destruct (step_ev l s e) as [s1 o1]. cbn [fst] in H1.
    specialize (IH s1 l H1). destruct (rrun (s1, l) es). exact IH.
  - destruct on; [specialize (IH s (if refuses l r' then l else l ++ [r']) H0)|specialize (IH s (filter (fun x => negb (x =? r')) l) H0)];
      destruct (rrun _ es); exact IH. Qed.

(* (3) between two first transmissions of confirmable messages to r, the former is acknowledged/reset or r fails:
   after a step that puts CON m1 for r on the wire, through any run in which nothing acknowledges/resets/fails r,
   m1 is still the one in flight, no other CON for r has appeared, and a step that then puts another CON m2 for r on the
   wire is an ACK/RST carrying the message ID of m1's exchange *)
Theorem one_confirmable_in_flight_history : forall es s l r e1 m1 e2 m2, Inv s -> refuses l r = false ->
  never_refuses r es = true ->
  first_con_tx r m1 (snd (step_ev l s e1)) ->
  let s1 := fst (step_ev l s e1) in
  quiet_for r (s1, l) es = true ->
  let s2 := fst (fst (rrun (s1, l) es)) in let l2 := snd (fst (rrun (s1, l) es)) in
  (forall m, ~ first_con_tx r m (concat (snd (rrun (s1, l) es)))) /\
  (exists x, exs r s2 = [x] /\ x_msg x = m1) /\
  (first_con_tx r m2 (snd (step_ev l2 s2 e2)) -> acks s2 e2 r = true).
Proof. intros es s l r e1 m1 e2 m2 HI Hacc Hnr H1. cbn zeta. intros Hq.
  destruct (general_first_tx_opens_exchange l r Hacc s e1 m1 HI H1) as (x & Hx & Hm).
  pose proof (step_ev_trans l s e1 HI) as (HI1 & _).
  destruct (in_flight_persists es (fst (step_ev l s e1)) l r x HI1 Hacc Hnr Hx Hq) as (A & B & x' & C & D).
  split; [exact A|]. split; [exists x'; split; [exact C|congruence]|].
  intros (Hin & Hc).
  set (s2 := fst (fst (rrun (fst (step_ev l s e1), l) es))) in *. set (l2 := snd (fst (rrun (fst (step_ev l s e1), l) es))) in *.
  assert (HI2 : Inv s2) by (apply rrun_inv; exact HI1).
  destruct (acks s2 e2 r) eqn:Eack; [reflexivity|]. exfalso.
  assert (Ha : exists q, aget r (backlogs s2) = Some q).
  { destruct (inv_count_aget s2 r HI2) as [[Hc0 _]|(x0 & q & _ & Ha & _)]; [|exists q; exact Ha].
    apply count0_exs in Hc0. rewrite C in Hc0. discriminate. }
  destruct Ha as (q & Ha).
  destruct (fails s2 e2 r) eqn:Ef.
  - destruct (general_dropped_when_failed l2 r B s2 e2 q HI2 Ef Ha) as (_ & _ & _ & Hno & _). exact (Hno m2 false Hin).
  - destruct (general_held_otherwise_detail l2 r B s2 e2 q HI2 Ha Eack Ef) as (_ & Hl & _).
    pose proof (in_left r m2 _ Hin Hc) as H. rewrite Hl in H. exact H. Qed.

(* ---------------------------------------------------------------- (4) from submission to leaving the queue, run level *)
Lemma in_subm r m o : In (Submitted m) o -> con_to r m = true -> In m (subm r o).
Proof. induction o as [|x o IH]; cbn [In]; [tauto|]. intros [->|H] Hc; unfold subm; cbn [flat_map].
  - cbn. rewrite Hc. left; reflexivity.
  - apply in_or_app. right. apply IH; assumption. Qed.

Lemma firstn_cost_mono (q : list msg) : forall k k', (k <= k')%nat ->
  (list_sum (map cost (firstn k q)) <= list_sum (map cost (firstn k' q)))%nat.
Proof. induction q as [|a q IH]; intros k k' H; [rewrite !firstn_nil; lia|].
  destruct k as [|k]; [cbn; lia|]. destruct k' as [|k']; [lia|]. cbn [firstn map].
  change (list_sum (?x :: ?t)) with (x + list_sum t)%nat. specialize (IH k k' ltac:(lia)). lia. Qed.

Lemma budget_mono r s k k' : (k <= k')%nat -> (budget r k s <= budget r k' s)%nat.
Proof. intros H. unfold budget. pose proof (firstn_cost_mono (backlog_of r s) k k' H). lia. Qed.

(* every confirmable message handed to send_message for r has left the queue — been put on the wire, or discarded with the
   requests to r failed — once the schedule that follows contains as many progress steps of the exchanges ahead of it as the
   retransmission budget of everything queued at that moment allows; r never refused, other remotes refused at will *)
Theorem submitted_eventually_leaves : forall es l s e r m, Inv s -> refuses l r = false -> never_refuses r es = true ->
  In (Submitted m) (snd (step_ev l s e)) -> con_to r m = true ->
  let s1 := fst (step_ev l s e) in
  (budget r (length (backlog_of r s1)) s1 <= gcount (s1, l) es r)%nat ->
  In m (left r (snd (step_ev l s e) ++ concat (snd (rrun (s1, l) es)))).
Proof. intros es l s e r m HI Hacc Hnr Hs Hc. cbn zeta. intros Hb.
  destruct (step_ev_trans l s e HI) as (HI1 & B & _). specialize (B r).
  pose proof (in_subm r m _ Hs Hc) as Hm.
  assert (Hin : In m (left r (snd (step_ev l s e)) ++ backlog_of r (fst (step_ev l s e)))) by (rewrite <- B; apply in_or_app; right; exact Hm).
  rewrite left_app. apply in_or_app. apply in_app_or in Hin. destruct Hin as [Hin|Hin]; [left; exact Hin|right].
  destruct (In_nth_error _ _ Hin) as (k & Hk).
  apply (general_eventually_leaves es (fst (step_ev l s e)) l r k m HI1 Hacc Hnr Hk).
  assert (k < length (backlog_of r (fst (step_ev l s e))))%nat by (apply nth_error_Some; congruence).
  pose proof (budget_mono r (fst (step_ev l s e)) k (length (backlog_of r (fst (step_ev l s e)))) ltac:(lia)). lia. Qed.

(* unconditional, from the initial state: the same for any reachable state (the invariant is derived, not assumed) *)
Theorem reachable_submitted_eventually_leaves : forall a b c es0 es e r m,
  let s := fst (fst (rrun (init a b c, []) es0)) in let l := snd (fst (rrun (init a b c, []) es0)) in
  refuses l r = false -> never_refuses r es = true ->
  In (Submitted m) (snd (step_ev l s e)) -> con_to r m = true ->
  let s1 := fst (step_ev l s e) in
  (budget r (length (backlog_of r s1)) s1 <= gcount (s1, l) es r)%nat ->
  In m (left r (snd (step_ev l s e) ++ concat (snd (rrun (s1, l) es)))).
Proof. intros a b c es0 es e r m. cbn zeta. apply submitted_eventually_leaves. apply rrun_inv. apply inv_init. Qed.

Theorem reachable_one_confirmable_in_flight_history : forall a b c es0 es r e1 m1 e2 m2,
  let s := fst (fst (rrun (init a b c, []) es0)) in let l := snd (fst (rrun (init a b c, []) es0)) in
  refuses l r = false -> never_refuses r es = true ->
  first_con_tx r m1 (snd (step_ev l s e1)) ->
  let s1 := fst (step_ev l s e1) in
  quiet_for r (s1, l) es = true ->
  let s2 := fst (fst (rrun (s1, l) es)) in let l2 := snd (fst (rrun (s1, l) es)) in
  (forall m, ~ first_con_tx r m (concat (snd (rrun (s1, l) es)))) /\
  (exists x, exs r s2 = [x] /\ x_msg x = m1) /\
  (first_con_tx r m2 (snd (step_ev l2 s2 e2)) -> acks s2 e2 r = true).
Proof. intros a b c es0 es r e1 m1 e2 m2. cbn zeta. intros H1 H2 H3 H4.
  apply (one_confirmable_in_flight_history es _ _ r e1 m1 e2 m2); try assumption. apply rrun_inv. apply inv_init. Qed.

(* (3'), without any hypothesis on what happens in between: two first transmissions of confirmable messages to r are always
   separated by a step that acknowledges/resets the open exchange or fails r (the second transmission's own step included) *)
Lemma rrun_app a : forall sl b, fst (rrun sl (a ++ b)) = fst (rrun (fst (rrun sl a)) b).
Proof. induction a as [|e a IH]; intros sl b; [reflexivity|]. cbn [app rrun].
  destruct (rstep sl e) as [sl1 o1]. specialize (IH sl1 b). destruct (rrun sl1 (a ++ b)), (rrun sl1 a). cbn [fst] in *. exact IH. Qed.

Lemma quiet_for_app r a : forall sl b, quiet_for r sl (a ++ b) = quiet_for r sl a && quiet_for r (fst (rrun sl a)) b.
Proof. induction a as [|e a IH]; intros sl b; [reflexivity|]. cbn [app quiet_for rrun]. rewrite IH.
  destruct (rstep sl e) as [sl1 o1]. cbn [fst]. destruct (rrun sl1 a). cbn [fst]. rewrite andb_assoc. reflexivity. Qed.

Theorem two_first_transmissions_are_separated : forall a b c es0 es r e1 m1 e2 m2,
  let s := fst (fst (rrun (init a b c, []) es0)) in let l := snd (fst (rrun (init a b c, []) es0)) in
  refuses l r = false -> never_refuses r es = true ->
  first_con_tx r m1 (snd (step_ev l s e1)) ->
  let s1 := fst (step_ev l s e1) in
  let s2 := fst (fst (rrun (s1, l) es)) in let l2 := snd (fst (rrun (s1, l) es)) in
  first_con_tx r m2 (snd (step_ev l2 s2 e2)) ->
  quiet_for r (s1, l) (es ++ [Ev e2]) = false.
Proof. intros a b c es0 es r e1 m1 e2 m2. cbn zeta. intros Hacc Hnr H1 H2.
  rewrite quiet_for_app. destruct (quiet_for r _ es) eqn:Eq; [|reflexivity]. cbn [andb].
  destruct (reachable_one_confirmable_in_flight_history a b c es0 es r e1 m1 e2 m2 Hacc Hnr H1 Eq) as (_ & _ & Hack).
  specialize (Hack H2).
  destruct (fst (rrun (fst (step_ev _ _ e1), _) es)) as [s2 l2] eqn:E. cbn [fst snd quiet_for] in *. rewrite Hack. reflexivity. Qed.

(* ---------------------------------------------------------------- (5) fairness over infinite schedules of the general model *)
Definition rschedule := nat -> revent.
Fixpoint rprefix (sch : rschedule) (n : nat) : list revent := match n with O => [] | S n => rprefix sch n ++ [sch n] end.
Definition rstate_at (sch : rschedule) (sl : st * list Z) (n : nat) : st * list Z := fst (rrun sl (rprefix sch n)).
Definition rtrace_to (sch : rschedule) (sl : st * list Z) (n : nat) : list output := concat (snd (rrun sl (rprefix sch n))).
Definition gprogress_at (sl : st * list Z) (e : revent) (r : Z) : bool :=
  match e with Ev e0 => progress (fst sl) e0 r | Refuse _ _ => false end.
(* timers keep firing: from every point on, a later step makes progress at r, or nothing is outstanding at r *)
Definition rfair (sch : rschedule) (sl : st * list Z) (r : Z) : Prop :=
  forall n, exists n', (n <= n')%nat /\
    (gprogress_at (rstate_at sch sl n') (sch n') r = true \/ exs r (fst (rstate_at sch sl n')) = []).
Definition never_refused_in (r : Z) (sch : rschedule) : Prop :=
  forall n, match sch n with Refuse r' true => r' <> r | _ => True end.

Lemma rrun_trans es : forall s l, Inv s -> Trans s (concat (snd (rrun (s, l) es))) (fst (fst (rrun (s, l) es))).
Proof. induction es as [|e es IH]; intros s l HI; cbn [rrun]; [apply trans_refl; exact HI|].
  destruct e as [e|r' on]; cbn [rstep].
  - pose proof (step_ev_trans l s e HI) as T. destruct (step_ev l s e) as [s1 o1]. cbn [fst snd] in T.
    specialize (IH s1 l (proj1 T)). destruct (rrun (s1, l) es) as [sl2 os]. cbn [fst snd concat] in *. apply (trans_trans s o1 s1); assumption.
  - destruct on; [specialize (IH s (if refuses l r' then l else l ++ [r']) HI)|specialize (IH s (filter (fun x => negb (x =? r')) l) HI)];
      destruct (rrun _ es) as [sl2 os]; cbn [fst snd concat app] in *; exact IH. Qed.

Lemma gcount_app a : forall sl b r, gcount sl (a ++ b) r = (gcount sl a r + gcount (fst (rrun sl a)) b r)%nat.
Proof. induction a as [|e a IH]; intros sl b r; [reflexivity|]. cbn [app gcount rrun]. rewrite IH.
  destruct (rstep sl e) as [sl1 o1]. cbn [fst]. destruct (rrun sl1 a). cbn [fst]. lia. Qed.

Lemma gcount_mono sch sl r n n' : (n <= n')%nat -> (gcount sl (rprefix sch n) r <= gcount sl (rprefix sch n') r)%nat.
Proof. induction 1 as [|n' _ IH]; [lia|]. cbn [rprefix]. rewrite gcount_app. lia. Qed.

Lemma never_refuses_prefix r sch n : never_refused_in r sch -> never_refuses r (rprefix sch n) = true.
Proof. intros H. induction n as [|n IH]; [reflexivity|]. cbn [rprefix]. unfold never_refuses in *. rewrite forallb_app, IH. cbn.
  specialize (H n). destruct (sch n) as [e|r' [|]]; try reflexivity. replace (r' =? r) with false by lia. reflexivity. Qed.

Theorem general_fair_eventually_leaves sch s l r k m : Inv s -> refuses l r = false -> never_refused_in r sch ->
  nth_error (backlog_of r s) k = Some m -> rfair sch (s, l) r -> exists n, In m (left r (rtrace_to sch (s, l) n)).
Proof. intros HI Hacc Hnr Hn Hf.
  assert (Reach : forall B, exists n, (B <= gcount (s, l) (rprefix sch n) r)%nat \/ In m (left r (rtrace_to sch (s, l) n))).
  { induction B as [|B IH]; [exists 0%nat; left; lia|]. destruct IH as (n & [Hc|Hl]); [|exists n; right; exact Hl].
    destruct (Hf n) as (n' & Hle & [Hp|He]).
    - exists (S n'). left. cbn [rprefix]. rewrite gcount_app. cbn [gcount]. fold (rstate_at sch (s, l) n').
      unfold gprogress_at in Hp. destruct (sch n') as [e|? ?]; [|discriminate]. rewrite Hp.
      pose proof (gcount_mono sch (s, l) r n n' Hle). lia.
    - exists n'. right. unfold rstate_at, rtrace_to in *.
      pose proof (rrun_trans (rprefix sch n') s l HI) as (HI' & B' & _). specialize (B' r).
      destruct (inv_count_aget _ r HI') as [[_ Hno]|(x & q & Hx & _)]; [|rewrite He in Hx; discriminate].
      unfold backlog_of at 2 in B'. rewrite Hno in B'. rewrite app_nil_r in B'. rewrite <- B'.
      apply in_or_app. left. apply (nth_error_In _ _ Hn). }
  destruct (Reach (budget r k s)) as (n & [Hc|Hl]); [|exists n; exact Hl].
  exists n. apply (general_eventually_leaves (rprefix sch n) s l r k m HI Hacc (never_refuses_prefix r sch n Hnr) Hn Hc). Qed.

Theorem reachable_general_fair_eventually_leaves a b c es0 sch r k m :
  let s := fst (fst (rrun (init a b c, []) es0)) in let l := snd (fst (rrun (init a b c, []) es0)) in
  refuses l r = false -> never_refused_in r sch -> nth_error (backlog_of r s) k = Some m -> rfair sch (s, l) r ->
  exists n, In m (left r (rtrace_to sch (s, l) n)).
Proof. cbn zeta. apply general_fair_eventually_leaves. apply rrun_inv. apply inv_init. Qed.
