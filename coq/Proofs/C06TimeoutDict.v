(* C06 — TimeoutDict: association-list lemmas, the ghost-time invariant and the lifetime bounds
   (an entry lives at least T after its last successful access and at most 2T). *)
From Verif Require Import Lib.Py Lib.Tactics Model.C06.
Open Scope Z_scope.

Section TD.
  Context {K V : Type}.
  Variable keqb : K -> K -> bool.
  Hypothesis keqb_eq : forall a b, keqb a b = true <-> a = b.
  Variable T : Z.
  Hypothesis T_pos : 0 < T.

  Lemma keqb_refl k : keqb k k = true. Proof. apply keqb_eq; reflexivity. Qed.
  Lemma keqb_neq (a b : K) : a <> b -> keqb a b = false.
  Proof. intros H. destruct (keqb a b) eqn:E; [|reflexivity]. apply keqb_eq in E. contradiction. Qed.
  Lemma keqb_dec (a b : K) : {a = b} + {a <> b}.
  Proof. destruct (keqb a b) eqn:E; [left; apply keqb_eq; exact E|right; intros ->; rewrite keqb_refl in E; discriminate]. Qed.

  Lemma alist_get_set_same k v (l : list (K * V)) : alist_get keqb k (alist_set keqb k v l) = Some v.
  Proof.
    induction l as [|[k' v'] l IH]; cbn.
    - rewrite keqb_refl; reflexivity.
    - destruct (keqb k k') eqn:E; cbn; rewrite E; [reflexivity|exact IH].
  Qed.
  Lemma alist_get_set_other k k' v (l : list (K * V)) : k <> k' -> alist_get keqb k (alist_set keqb k' v l) = alist_get keqb k l.
  Proof.
    intros N. induction l as [|[k2 v2] l IH]; cbn.
    - rewrite keqb_neq by exact N. reflexivity.
    - destruct (keqb k' k2) eqn:E; cbn.
      + apply keqb_eq in E; subst k2. rewrite keqb_neq by exact N. reflexivity.
      + destruct (keqb k k2); [reflexivity|exact IH].
  Qed.
  Lemma alist_get_filter (f : K -> bool) k (l : list (K * V)) :
    alist_get keqb k (filter (fun kv => f (fst kv)) l) = if f k then alist_get keqb k l else None.
  Proof.
    induction l as [|[k' v'] l IH]; cbn.
    - destruct (f k); reflexivity.
    - destruct (f k') eqn:F; cbn.
      + destruct (keqb k k') eqn:E.
        * apply keqb_eq in E; subst k'. rewrite F. reflexivity.
        * exact IH.
      + destruct (keqb k k') eqn:E.
        * apply keqb_eq in E; subst k'. rewrite F in IH |- *. exact IH.
        * exact IH.
  Qed.
  Lemma kmem_cons_other k k' (l : list K) : k <> k' -> kmem keqb k (k' :: l) = kmem keqb k l.
  Proof. intros N. unfold kmem; cbn. rewrite keqb_neq by exact N. reflexivity. Qed.
  Lemma kmem_cons_same k (l : list K) : kmem keqb k (k :: l) = true.
  Proof. unfold kmem; cbn. rewrite keqb_refl. reflexivity. Qed.

  Definition has (k : K) (d : td K V) : bool :=
    match alist_get keqb k (td_items d) with Some _ => true | None => false end.

  (* ghost: [last k] = time of the last successful access (assignment, or lookup of a present key) since the last pop of [k] *)
  Definition upd (last : K -> option Z) (k : K) (t : Z) : K -> option Z :=
    fun k' => if keqb k' k then Some t else last k'.

  Definition td_ginv (now : Z) (last : K -> option Z) (d : td K V) : Prop :=
    match td_timer d with
    | None => td_items d = [] /\ forall k a, last k = Some a -> a + T <= now
    | Some (due, rec) =>
        (now < due /\ due <= now + T) /\
        (forall k, has k d = true ->
           exists a, last k = Some a /\ a <= now /\ due - 2 * T <= a /\ (kmem keqb k rec = true -> due - T <= a)) /\
        (forall k a, last k = Some a ->
           (has k d = true /\ (kmem keqb k rec = true \/ a + T <= due)) \/ a + T <= now)
    end.

  Lemma td_ginv_empty now : td_ginv now (fun _ => None) td_empty.
  Proof. cbn. split; [reflexivity|]. intros k a H; discriminate. Qed.

  (* the two consequences that matter *)
  Lemma td_ginv_lower now last d k a :
    td_ginv now last d -> last k = Some a -> now < a + T -> has k d = true.
  Proof.
    unfold td_ginv. destruct (td_timer d) as [[due rec]|].
    - intros (_ & _ & H3) L Lt. destruct (H3 k a L) as [[H _]|H]; [exact H|lia].
    - intros (_ & H2) L Lt. specialize (H2 k a L). lia.
  Qed.
  Lemma td_ginv_upper now last d k :
    td_ginv now last d -> has k d = true -> exists a, last k = Some a /\ a <= now /\ now < a + 2 * T.
  Proof.
    unfold td_ginv, has. destruct (td_timer d) as [[due rec]|].
    - intros ((B1 & B2) & H2 & _) H. destruct (H2 k H) as (a & L & A1 & A2 & _). exists a. repeat split; try assumption; lia.
    - intros (E & _). rewrite E. cbn. discriminate.
  Qed.

  Lemma has_set_same k v d tm : has k {| td_items := alist_set keqb k v (td_items d); td_timer := tm |} = true.
  Proof. unfold has; cbn. rewrite alist_get_set_same. reflexivity. Qed.
  Lemma has_set_other k k' v d tm : k <> k' ->
    has k {| td_items := alist_set keqb k' v (td_items d); td_timer := tm |} = has k d.
  Proof. intros N. unfold has; cbn. rewrite alist_get_set_other by exact N. reflexivity. Qed.

  (* a successful access: [d'] is [d] (lookup) or [d] with [k] assigned (assignment) *)
  Lemma td_ginv_access now last d d' k :
    td_ginv now last d -> td_timer d' = td_timer d -> has k d' = true ->
    (forall k', k' <> k -> has k' d' = has k' d) ->
    td_ginv now (upd last k now) (td_accessed T now k d').
  Proof.
    intros I Tm' Hk Ho. unfold td_ginv in *. unfold td_accessed. rewrite Tm'.
    destruct (td_timer d) as [[due rec]|] eqn:Tm; cbn [td_timer td_items td_start_over].
    - destruct I as (B & H2 & H3). split; [exact B|]. split.
      + intros k' Hk'. unfold upd. destruct (keqb_dec k' k) as [->|N].
        * rewrite keqb_refl. exists now. repeat split; lia.
        * rewrite keqb_neq by exact N. unfold has in Hk'; cbn in Hk'. fold (has k' d') in Hk'. rewrite Ho in Hk' by exact N.
          destruct (H2 k' Hk') as (a & L & A1 & A2 & A3). exists a.
          rewrite kmem_cons_other by exact N. repeat split; assumption.
      + intros k' a. unfold upd. destruct (keqb_dec k' k) as [->|N].
        * rewrite keqb_refl. intros [= <-]. left. split; [exact Hk|]. left. apply kmem_cons_same.
        * rewrite keqb_neq by exact N. intros L. destruct (H3 k' a L) as [[Hh Hd]|Hd]; [left|right; exact Hd].
          split.
          -- unfold has; cbn. fold (has k' d'). rewrite Ho by exact N. exact Hh.
          -- rewrite kmem_cons_other by exact N. exact Hd.
    - destruct I as (E & H2). split; [lia|]. split.
      + intros k' Hk'. unfold upd. destruct (keqb_dec k' k) as [->|N].
        * rewrite keqb_refl. exists now. repeat split; try lia; cbn; discriminate.
        * unfold has in Hk'; cbn in Hk'. fold (has k' d') in Hk'. rewrite Ho in Hk' by exact N.
          unfold has in Hk'. rewrite E in Hk'. cbn in Hk'. discriminate.
      + intros k' a. unfold upd. destruct (keqb_dec k' k) as [->|N].
        * rewrite keqb_refl. intros [= <-]. left. split; [exact Hk|]. right. lia.
        * rewrite keqb_neq by exact N. intros L. right. exact (H2 k' a L).
  Qed.

  (* __getitem__ of a present key *)
  Lemma td_ginv_getitem now last d k v d' :
    td_ginv now last d -> td_getitem keqb T now k d = Some (v, d') -> td_ginv now (upd last k now) d'.
  Proof.
    intros I G. unfold td_getitem in G. destruct (alist_get keqb k (td_items d)) eqn:E; [|discriminate].
    injection G as _ <-. apply (td_ginv_access now last d d k I); [reflexivity| |reflexivity].
    unfold has. rewrite E. reflexivity.
  Qed.
  Lemma td_getitem_has now (d : td K V) k : has k d = true <-> exists v d', td_getitem keqb T now k d = Some (v, d').
  Proof.
    unfold has, td_getitem. destruct (alist_get keqb k (td_items d)); split; try discriminate; eauto.
    intros (v & d' & H); discriminate.
  Qed.
  (* __setitem__ *)
  Lemma td_ginv_setitem now last d k v :
    td_ginv now last d -> td_ginv now (upd last k now) (td_setitem keqb T now k v d).
  Proof.
    intros I. unfold td_setitem. apply (td_ginv_access now last d _ k I); [reflexivity|apply has_set_same|].
    intros k' N. apply has_set_other. exact N.
  Qed.
  (* in-place mutation of a stored value *)
  Lemma td_ginv_mutate now last d k v :
    td_ginv now last d -> has k d = true -> td_ginv now last (td_mutate keqb k v d).
  Proof.
    intros I Hk. unfold td_mutate.
    assert (Hs : forall k', has k' {| td_items := alist_set keqb k v (td_items d); td_timer := td_timer d |} = has k' d).
    { intros k'. destruct (keqb_dec k' k) as [->|N]; [rewrite has_set_same, Hk; reflexivity|apply has_set_other; exact N]. }
    unfold td_ginv in *. cbn [td_timer]. destruct (td_timer d) as [[due rec]|] eqn:Tm.
    - destruct I as (B & H2 & H3). split; [exact B|]. split.
      + intros k' Hk'. rewrite Hs in Hk'. exact (H2 k' Hk').
      + intros k' a L. rewrite Hs. exact (H3 k' a L).
    - destruct I as (E & _). unfold has in Hk. rewrite E in Hk. cbn in Hk. discriminate.
  Qed.

  (* pop: the entry is forgotten, so is its ghost access time *)
  Definition clr (last : K -> option Z) (k : K) : K -> option Z :=
    fun k' => if keqb k' k then None else last k'.
  Lemma alist_get_remove k k' (l : list (K * V)) :
    alist_get keqb k' (alist_remove keqb k l) = if keqb k' k then None else alist_get keqb k' l.
  Proof.
    unfold alist_remove. rewrite (alist_get_filter (fun x => negb (keqb x k))). destruct (keqb k' k); reflexivity.
  Qed.
  Lemma has_pop_same k (d : td K V) : has k (td_pop keqb k d) = false.
  Proof. unfold has, td_pop; cbn [td_items]. rewrite alist_get_remove, keqb_refl. reflexivity. Qed.
  Lemma has_pop_other k k' (d : td K V) : k' <> k -> has k' (td_pop keqb k d) = has k' d.
  Proof. intros N. unfold has, td_pop; cbn [td_items]. rewrite alist_get_remove, keqb_neq by exact N. reflexivity. Qed.
  (* pop leaves the pending timer (and the recently-accessed set) alone: the timer started earlier still fires at its deadline *)
  Lemma td_pop_timer k (d : td K V) : td_timer (td_pop keqb k d) = td_timer d.
  Proof. reflexivity. Qed.
  Lemma td_ginv_pop now last d k : td_ginv now last d -> td_ginv now (clr last k) (td_pop keqb k d).
  Proof.
    intros I. unfold td_ginv in *. change (td_timer (td_pop keqb k d)) with (td_timer d).
    destruct (td_timer d) as [[due rec]|] eqn:Tm.
    - destruct I as (B & H2 & H3). split; [exact B|]. split.
      + intros k' Hk'. destruct (keqb_dec k' k) as [->|N]; [rewrite has_pop_same in Hk'; discriminate|].
        rewrite has_pop_other in Hk' by exact N. unfold clr. rewrite keqb_neq by exact N. exact (H2 k' Hk').
      + intros k' a. unfold clr. destruct (keqb_dec k' k) as [->|N]; [rewrite keqb_refl; discriminate|].
        rewrite keqb_neq by exact N. intros L. rewrite has_pop_other by exact N. exact (H3 k' a L).
    - destruct I as (E & H2). split.
      + unfold td_pop; cbn [td_items]. rewrite E. reflexivity.
      + intros k' a. unfold clr. destruct (keqb k' k); [discriminate|apply H2].
  Qed.

  Definition settled (target : Z) (d : td K V) : Prop :=
    match td_timer d with Some (due, _) => target < due | None => True end.
  Lemma settled_none target (d : td K V) : td_timer d = None -> settled target d.
  Proof. unfold settled. intros ->. exact Logic.I. Qed.
  Lemma settled_some target (d : td K V) due rec : td_timer d = Some (due, rec) -> target < due -> settled target d.
  Proof. unfold settled. intros ->. tauto. Qed.

  (* time passes without a timer of this dict becoming due *)
  Lemma td_ginv_wait now now' last d :
    td_ginv now last d -> now <= now' -> settled now' d -> td_ginv now' last d.
  Proof.
    unfold td_ginv, settled. destruct (td_timer d) as [[due rec]|].
    - intros (B & H2 & H3) Le Lt. split; [lia|]. split.
      + intros k Hk. destruct (H2 k Hk) as (a & L & A1 & A2 & A3). exists a. repeat split; try assumption; lia.
      + intros k a L. destruct (H3 k a L) as [H|H]; [left; exact H|right; lia].
    - intros (E & H2) Le _. split; [exact E|]. intros k a L. specialize (H2 k a L). lia.
  Qed.

  (* _tick at the due time *)
  Lemma td_ginv_tick now last d due rec :
    td_ginv now last d -> td_timer d = Some (due, rec) -> td_ginv due last (td_tick keqb T due d).
  Proof.
    intros I Tm. unfold td_ginv in I. rewrite Tm in I. destruct I as ((B1 & B2) & H2 & H3).
    unfold td_tick. rewrite Tm.
    assert (Hf : forall k, alist_get keqb k (filter (fun kv : K * V => kmem keqb (fst kv) rec) (td_items d))
                           = if kmem keqb k rec then alist_get keqb k (td_items d) else None).
    { intros k. apply (alist_get_filter (fun k => kmem keqb k rec)). }
    destruct (filter (fun kv : K * V => kmem keqb (fst kv) rec) (td_items d)) as [|kv0 items'] eqn:F.
    - unfold td_ginv; cbn. split; [reflexivity|]. intros k a L.
      destruct (H3 k a L) as [[Hh [Hm|Hd]]|Hd]; try lia.
      exfalso. specialize (Hf k). rewrite Hm in Hf. cbn in Hf. unfold has in Hh. rewrite <- Hf in Hh. discriminate.
    - unfold td_ginv, td_start_over; cbn [td_timer td_items]. split; [lia|]. split.
      + intros k Hk. unfold has in Hk; cbn [td_items] in Hk. rewrite Hf in Hk. destruct (kmem keqb k rec) eqn:Hm; [|discriminate].
        destruct (H2 k Hk) as (a & L & A1 & A2 & A3). exists a. specialize (A3 Hm).
        repeat split; try assumption; try lia. cbn. discriminate.
      + intros k a L. destruct (H3 k a L) as [[Hh [Hm|Hd]]|Hd].
        * left. split.
          -- unfold has; cbn [td_items]. rewrite Hf, Hm. exact Hh.
          -- right. destruct (H2 k Hh) as (a' & L' & A1 & _). rewrite L in L'. injection L' as <-. lia.
        * right. lia.
        * right. lia.
  Qed.
  Lemma td_tick_timer now (d : td K V) due rec :
    td_timer d = Some (due, rec) ->
    td_timer (td_tick keqb T now d) = None \/ td_timer (td_tick keqb T now d) = Some (now + T, []).
  Proof.
    intros Tm. unfold td_tick. rewrite Tm.
    destruct (filter (fun kv : K * V => kmem keqb (fst kv) rec) (td_items d)); [left|right]; reflexivity.
  Qed.
  Lemma td_tick_norec now (d : td K V) due :
    td_timer d = Some (due, []) -> td_tick keqb T now d = {| td_items := []; td_timer := None |}.
  Proof.
    intros Tm. unfold td_tick. rewrite Tm.
    replace (filter (fun kv : K * V => kmem keqb (fst kv) []) (td_items d)) with (@nil (K * V)); [reflexivity|].
    induction (td_items d) as [|x l IH]; cbn; [reflexivity|exact IH].
  Qed.

  (* the loop firing all due timers up to [target]: the result is settled (no timer of this dict is due any
     more, so the two rounds of [td_advance] are a fixed point) and the invariant holds at [target] *)
  Lemma td_ginv_advance now target last d :
    td_ginv now last d -> now <= target ->
    td_ginv target last (td_advance keqb T target d) /\ settled target (td_advance keqb T target d).
  Proof.
    intros I Le. unfold td_advance.
    destruct (td_timer d) as [[due rec]|] eqn:Tm.
    2:{ assert (S0 : settled target d) by (apply settled_none; exact Tm).
        assert (E : td_fire keqb T target d = d) by (unfold td_fire; rewrite Tm; reflexivity).
        rewrite !E. split; [|exact S0]. apply (td_ginv_wait now); assumption. }
    destruct (due <=? target) eqn:D.
    2:{ assert (S0 : settled target d) by (apply (settled_some target d due rec Tm); lia).
        assert (E : td_fire keqb T target d = d) by (unfold td_fire; rewrite Tm, D; reflexivity).
        rewrite !E. split; [|exact S0]. apply (td_ginv_wait now); assumption. }
    assert (E : td_fire keqb T target d = td_tick keqb T due d) by (unfold td_fire; rewrite Tm, D; reflexivity).
    rewrite E.
    pose proof (td_ginv_tick now last d due rec I Tm) as I1.
    assert (Bd : now < due) by (unfold td_ginv in I; rewrite Tm in I; lia).
    destruct (td_tick_timer due d due rec Tm) as [N|S].
    - assert (S0 : settled target (td_tick keqb T due d)) by (apply settled_none; exact N).
      assert (E2 : td_fire keqb T target (td_tick keqb T due d) = td_tick keqb T due d) by (unfold td_fire; rewrite N; reflexivity).
      rewrite E2. split; [|exact S0]. apply (td_ginv_wait due); [exact I1|lia|exact S0].
    - destruct (due + T <=? target) eqn:D2.
      + assert (E2 : td_fire keqb T target (td_tick keqb T due d) = {| td_items := []; td_timer := None |}).
        { unfold td_fire. rewrite S, D2. apply (td_tick_norec (due + T) _ (due + T) S). }
        pose proof (td_ginv_tick due last _ (due + T) [] I1 S) as I2.
        rewrite (td_tick_norec (due + T) _ (due + T) S) in I2.
        rewrite E2. assert (S0 : settled target ({| td_items := []; td_timer := None |} : td K V)) by (apply settled_none; reflexivity).
        split; [|exact S0]. apply (td_ginv_wait (due + T)); [exact I2|lia|exact S0].
      + assert (S0 : settled target (td_tick keqb T due d)) by (apply (settled_some _ _ (due + T) [] S); lia).
        assert (E2 : td_fire keqb T target (td_tick keqb T due d) = td_tick keqb T due d) by (unfold td_fire; rewrite S, D2; reflexivity).
        rewrite E2. split; [|exact S0]. apply (td_ginv_wait due); [exact I1|lia|exact S0].
  Qed.
  Lemma td_fire_settled target (d : td K V) : settled target d -> td_fire keqb T target d = d.
  Proof. unfold settled, td_fire. destruct (td_timer d) as [[due rec]|]; [|reflexivity]. intros H. replace (due <=? target) with false by lia. reflexivity. Qed.

  (* ---------------------------------------------------------------- histories of dict operations *)
  Inductive tdop := TGet (k : K) | TSet (k : K) (v : V) | TPop (k : K) | TAdv (dt : Z).
  Definition gstate := (Z * (K -> option Z) * td K V)%type.
  Definition td_apply (st : gstate) (o : tdop) : gstate :=
    let '(now, last, d) := st in
    match o with
    | TGet k => match td_getitem keqb T now k d with
                | Some (_, d') => (now, upd last k now, d')
                | None => (now, last, d)                         (* KeyError: not an access *)
                end
    | TSet k v => (now, upd last k now, td_setitem keqb T now k v d)
    | TPop k => (now, clr last k, td_pop keqb k d)
    | TAdv dt => (now + dt, last, td_advance keqb T (now + dt) d)
    end.
  Definition td_run (st : gstate) (ops : list tdop) : gstate := fold_left td_apply ops st.
  Definition nonneg_op (o : tdop) : Prop := match o with TAdv dt => 0 <= dt | _ => True end.

  Lemma td_run_inv ops : forall now last d, Forall nonneg_op ops -> td_ginv now last d ->
    let '(now', last', d') := td_run (now, last, d) ops in td_ginv now' last' d'.
  Proof.
    induction ops as [|o ops IH]; intros now last d F I; [exact I|].
    inversion F as [|? ? Fo Fr]; subst. cbn [td_run fold_left].
    destruct o as [k|k v|k|dt]; cbn [td_apply].
    - destruct (td_getitem keqb T now k d) as [[v d']|] eqn:G.
      + apply IH; [exact Fr|]. exact (td_ginv_getitem now last d k v d' I G).
      + apply IH; assumption.
    - apply IH; [exact Fr|]. apply td_ginv_setitem. exact I.
    - apply IH; [exact Fr|]. apply td_ginv_pop. exact I.
    - apply IH; [exact Fr|]. cbn in Fo. apply (td_ginv_advance now); [exact I|lia].
  Qed.

  Theorem timeoutdict_lifetime ops : Forall nonneg_op ops ->
    let '(now, last, d) := td_run (0, (fun _ => None), td_empty) ops in
    (forall k a, last k = Some a -> now < a + T -> has k d = true) /\
    (forall k, has k d = true -> exists a, last k = Some a /\ a <= now /\ now < a + 2 * T).
  Proof.
    intros F. pose proof (td_run_inv ops 0 (fun _ => None) td_empty F (td_ginv_empty 0)) as I.
    destruct (td_run (0, (fun _ => None), td_empty) ops) as [[now last] d]. split.
    - intros k a. apply td_ginv_lower. exact I.
    - intros k. apply td_ginv_upper. exact I.
  Qed.
End TD.
