(* C07 — round 6 (audit gap 2, second half): over EVERY run of the requester model the message ids the async iterator yields
   form an in-order subsequence of what an observer registered from the start is handed. *)
From Verif Require Import Lib.Py Lib.Tactics Gen.protocol_is_recent Model.C07 Proofs.C07Serial Proofs.C07 Proofs.C07Iter Proofs.C07IterRun.
Open Scope Z_scope.

Fixpoint it_ids (l : list out) : list Z := match l with [] => [] | OIt id :: r => id :: it_ids r | _ :: r => it_ids r end.
Lemma it_ids_app a b : it_ids (a ++ b) = it_ids a ++ it_ids b.
Proof. induction a as [|x a IH]; [reflexivity|]. destruct x; cbn; rewrite ?IH; reflexivity. Qed.
Lemma it_ids_itf_nil l : itf l = [] -> it_ids l = [].
Proof. induction l as [|x l IH]; [reflexivity|]. destruct x; cbn; intros H; try discriminate; auto. Qed.

Definition item_ids (x : option item) : list Z := match x with Some (IMsg id) => [id] | _ => [] end.
Definition pend_ids (it : iter) : list Z := item_ids (it_w it) ++ item_ids (it_s it).
Definition wsok (it : iter) : Prop := it_w it = None -> it_s it = None.

Fixpoint cntI (ls : list listener) : nat := match ls with [] => O | LIterator :: r => S (cntI r) | _ :: r => cntI r end.
Lemma cntI_app a b : cntI (a ++ b) = (cntI a + cntI b)%nat.
Proof. induction a as [|[k'|] a IH]; cbn; auto. Qed.
Fixpoint npush (n : nat) (it : iter) (x : item) : iter := match n with O => it | S m => npush m (push it x) x end.

Lemma deliver_callbacks_npush ls id : forall it, fst (deliver_callbacks ls id it) = npush (cntI ls) it (IMsg id).
Proof.
  induction ls as [|[k'|] ls IH]; intros it; cbn [deliver_callbacks cntI npush]; auto.
  specialize (IH it). destruct (deliver_callbacks ls id it). exact IH.
Qed.
Lemma deliver_errbacks_npush ls e : forall it, fst (deliver_errbacks ls e it) = npush (cntI ls) it (IErr e).
Proof.
  induction ls as [|[k'|] ls IH]; intros it; cbn [deliver_errbacks cntI npush]; auto.
  specialize (IH it). destruct (deliver_errbacks ls e it). exact IH.
Qed.

Lemma Subseq_app_drop {A} (a b c : list A) : Subseq (a ++ b) c -> Subseq a c.
Proof. intros H. eapply Subseq_trans; [|exact H]. rewrite <- (app_nil_r a) at 1. apply Subseq_app_l. constructor. Qed.
Ltac ssub := repeat first [apply sub_nil | apply sub_take | apply sub_skip].

Lemma push_msg it id : wsok it ->
  Subseq (pend_ids (push it (IMsg id))) (pend_ids it ++ [id]) /\ wsok (push it (IMsg id)) /\ flags (push it (IMsg id)) = flags it.
Proof.
  intros W. split; [|split; [|apply push_flags]]; unfold push, pend_ids, wsok in *.
  - destruct (it_finished it); [rewrite <- (app_nil_r (_ ++ _)) at 1; apply Subseq_app_l; constructor|].
    destruct (it_w it) as [[a|e]|] eqn:Ew; cbn; [destruct (it_s it) as [[b|e']|]; cbn; ssub| destruct (it_s it) as [[b|e']|]; cbn; ssub|].
    rewrite (W eq_refl). cbn. ssub.
  - destruct (it_finished it); [exact W|]. destruct (it_w it) eqn:Ew; cbn; [discriminate|]. intros _. apply W. reflexivity.
Qed.
Lemma push_err it e : wsok it ->
  Subseq (pend_ids (push it (IErr e))) (pend_ids it) /\ wsok (push it (IErr e)) /\ flags (push it (IErr e)) = flags it.
Proof.
  intros W. split; [|split; [|apply push_flags]]; unfold push, pend_ids, wsok in *.
  - destruct (it_finished it); [apply Subseq_refl|].
    destruct (it_w it) as [[a|e']|] eqn:Ew; cbn; [destruct (it_s it) as [[b|e'']|]; cbn; ssub|destruct (it_s it) as [[b|e'']|]; cbn; ssub|].
    rewrite (W eq_refl). cbn. ssub.
  - destruct (it_finished it); [exact W|]. destruct (it_w it) eqn:Ew; cbn; [discriminate|]. intros _. apply W. reflexivity.
Qed.
Lemma npush_err n e : forall it, wsok it ->
  Subseq (pend_ids (npush n it (IErr e))) (pend_ids it) /\ wsok (npush n it (IErr e)) /\ flags (npush n it (IErr e)) = flags it.
Proof.
  induction n as [|n IH]; intros it W; cbn [npush]; [split; [apply Subseq_refl|auto]|].
  destruct (push_err it e W) as (A & B & C). destruct (IH _ B) as (A' & B' & C'). split; [eapply Subseq_trans; eauto|]. split; [exact B'|congruence].
Qed.

(* one wake-up: what is yielded, followed by what stays pending, is a subsequence of what was pending *)
Lemma anext_drain_ids it : wsok it ->
  Subseq (it_ids (snd (anext_drain it)) ++ pend_ids (fst (anext_drain it))) (pend_ids it) /\ wsok (fst (anext_drain it))
  /\ (it_started it = false -> anext_drain it = (it, [])) /\ (it_started it = true -> it_started (fst (anext_drain it)) = true).
Proof.
  intros W. destruct (anext_drain_it it) as (_ & _ & S1 & S0). split; [|split; [|split; [exact S0|exact S1]]].
  - unfold anext_drain, pend_ids. destruct (negb (it_started it) || it_finished it); [apply Subseq_refl|].
    destruct (it_w it) as [x|] eqn:Ew; [|cbn [fst snd it_ids app]; rewrite Ew; apply Subseq_refl].
    destruct x as [a|e]; cbn [is_err].
    + destruct (it_s it) as [[b|e']|]; cbn; try (destruct e'; cbn); ssub.
    + cbn. destruct e; cbn; constructor.
  - unfold anext_drain, wsok. destruct (negb (it_started it) || it_finished it); [exact W|].
    destruct (it_w it) as [x|]; [|exact W]. destruct (is_err x); [reflexivity|]. destruct (it_s it); reflexivity.
Qed.

(* the invariant: Yp = ids yielded so far, Dp = ids handed to observer k so far *)
Definition P (k : Z) (o : cobs) (it : iter) (Yp Dp : list Z) : Prop :=
  Subseq (Yp ++ pend_ids it) Dp
  /\ wsok it
  /\ (cancelled o = false -> cnt k (callbacks o) = 1%nat /\ (cntI (callbacks o) <= 1)%nat /\ latest_response o = lasto Dp)
  /\ (cancelled o = true -> callbacks o = [])
  /\ (it_started it = false -> cntI (callbacks o) = O /\ pend_ids it = [] /\ Yp = []).

Lemma deliveries_view_app k a b : deliveries (view k (a ++ b)) = deliveries (view k a) ++ deliveries (view k b).
Proof. rewrite view_app. apply deliveries_app. Qed.

Lemma lasto_snoc {A} (l : list A) x : lasto (l ++ [x]) = Some x.
Proof. rewrite lasto_app. reflexivity. Qed.
Lemma lasto_subseq (l : list Z) x : lasto l = Some x -> Subseq [x] l.
Proof.
  induction l as [|y l IH]; [discriminate|]. destruct l as [|z l].
  - cbn. intros H. inversion H. apply sub_take. constructor.
  - rewrite lasto_cons by discriminate. intros H. apply sub_skip. apply IH. exact H.
Qed.

Lemma repeat_deliveries id n : deliveries (repeat (Deliver id) n) = repeat id n.
Proof. induction n; cbn; congruence. Qed.
Lemma repeat_ends e n : deliveries (repeat (EndSignal e) n) = [].
Proof. induction n; cbn; auto. Qed.

Lemma callback_P k o it id Yp Dp : P k o it Yp Dp ->
  P k (fst (fst (callback o it id))) (snd (fst (callback o it id))) Yp (Dp ++ deliveries (view k (snd (callback o it id)))).
Proof.
  intros (A & W & B & C & D). unfold callback.
  pose proof (deliver_callbacks_npush (callbacks o) id it) as N. pose proof (deliver_callbacks_view k (callbacks o) id it) as V.
  destruct (deliver_callbacks (callbacks o) id it) as [it' outs]. cbn [fst snd] in *. subst it'. rewrite V, repeat_deliveries.
  destruct (cancelled o) eqn:Ec.
  - rewrite (C eq_refl) in *. cbn [cnt cntI npush repeat]. rewrite app_nil_r. unfold P. cbn [callbacks cancelled latest_response]; rewrite ?Ec.
    split; [exact A|]. split; [exact W|]. split; [discriminate|]. split; [auto|]. intros S. destruct (D S) as (D1 & D2 & D3). auto.
  - destruct (B eq_refl) as (B1 & B2 & B3). rewrite B1. cbn [repeat]. unfold P. cbn [callbacks cancelled latest_response]; rewrite ?Ec.
    assert (Hn : cntI (callbacks o) = O \/ cntI (callbacks o) = 1%nat) by lia.
    destruct Hn as [Hn|Hn]; rewrite Hn; cbn [npush].
    + split; [eapply Subseq_trans; [exact A|]; rewrite <- (app_nil_r Dp) at 1; apply Subseq_app_l; constructor|].
      split; [exact W|]. split; [intros _; rewrite lasto_snoc; repeat split; auto; lia|]. split; [discriminate|]. intros S. destruct (D S) as (D1 & D2 & D3). auto.
    + destruct (push_msg it id W) as (PA & PW & PF). split; [|split; [exact PW|]].
      * eapply (Subseq_trans ((Yp ++ pend_ids it) ++ [id])); [rewrite <- app_assoc; apply Subseq_app_l; exact PA|apply Subseq_app_r; exact A].
      * split; [intros _; rewrite lasto_snoc; repeat split; auto; lia|]. split; [discriminate|].
        intros S. unfold flags in PF. inversion PF as [[F1 F2]]. rewrite F1 in S. destruct (D S) as (D1 & _). lia.
Qed.

Lemma error_P k o it e Yp Dp : P k o it Yp Dp ->
  P k (fst (fst (error o it e))) (snd (fst (error o it e))) Yp (Dp ++ deliveries (view k (snd (error o it e)))).
Proof.
  intros (A & W & B & C & D). unfold error.
  pose proof (deliver_errbacks_npush (errbacks o) e it) as N. pose proof (deliver_errbacks_view k (errbacks o) e it) as V.
  destruct (deliver_errbacks (errbacks o) e it) as [it' outs]. cbn [fst snd] in *. subst it'. rewrite V, repeat_ends, app_nil_r.
  destruct (npush_err (cntI (errbacks o)) e it W) as (PA & PW & PF). unfold P. cbn [callbacks cancelled latest_response cntI].
  split; [eapply Subseq_trans; [apply Subseq_app_l; exact PA|exact A]|]. split; [exact PW|]. split; [discriminate|]. split; [auto|].
  intros S. unfold flags in PF. inversion PF as [[F1 F2]]. rewrite F1 in S. destruct (D S) as (D1 & D2 & D3).
  split; [reflexivity|]. split; [|exact D3]. rewrite D2 in PA. inversion PA. reflexivity.
Qed.

Definition Ps (k : Z) (s : sys) := P k (s_obs s) (s_iter s).

Lemma apply_actions_P k Yp : forall acts s Dp, Ps k s Yp Dp ->
  Ps k (aa_sys s acts) Yp (Dp ++ deliveries (view k (aa_outs s acts))).
Proof.
  unfold aa_sys, aa_outs, Ps. induction acts as [|a acts IH]; intros s Dp H; [cbn; rewrite app_nil_r; exact H|].
  destruct a; cbn [apply_actions].
  - specialize (IH (set_parts s (s_ended s) RespDone (s_obs s) (s_iter s)) Dp H). destruct (apply_actions _ acts) as [[s2 o2] r2]. cbn [fst snd] in *. exact IH.
  - specialize (IH (set_parts s (s_ended s) RespDone (s_obs s) (s_iter s)) Dp H). destruct (apply_actions _ acts) as [[s2 o2] r2]. cbn [fst snd] in *. exact IH.
  - pose proof (callback_P k (s_obs s) (s_iter s) id Yp Dp H) as C. destruct (callback (s_obs s) (s_iter s) id) as [[o' it'] outs]. cbn [fst snd] in C.
    match goal with |- context [apply_actions ?S acts] => specialize (IH S _ C) end.
    destruct (apply_actions _ acts) as [[s2 o2] r2]. cbn [fst snd] in *. rewrite deliveries_view_app, app_assoc. exact IH.
  - pose proof (error_P k (s_obs s) (s_iter s) e Yp Dp H) as C. destruct (error (s_obs s) (s_iter s) e) as [[o' it'] outs]. cbn [fst snd] in C.
    match goal with |- context [apply_actions ?S acts] => specialize (IH S _ C) end.
    destruct (apply_actions _ acts) as [[s2 o2] r2]. cbn [fst snd] in *. rewrite deliveries_view_app, app_assoc. exact IH.
  - destruct (s_ended s).
    + specialize (IH s Dp H). destruct (apply_actions s acts) as [[s2 o2] r2]. cbn [fst snd] in *. exact IH.
    + specialize (IH (set_parts s true (s_resp s) (s_obs s) (s_iter s)) Dp H). destruct (apply_actions _ acts) as [[s2 o2] r2]. cbn [fst snd] in *. exact IH.
  - cbn. rewrite app_nil_r. exact H.
Qed.

Lemma add_event_P k s now ev Yp Dp : Ps k s Yp Dp ->
  Ps k (fst (add_event s now ev)) (Yp ++ it_ids (snd (add_event s now ev))) (Dp ++ deliveries (view k (snd (add_event s now ev)))).
Proof.
  intros H. destruct (add_event_it s now ev) as [N _]. rewrite (it_ids_itf_nil _ N), app_nil_r.
  unfold add_event. destruct (s_ended s); [cbn; rewrite app_nil_r; exact H|].
  destruct (s_runner s) as [|v1 t1|]; [| |cbn; rewrite app_nil_r; exact H].
  all: match goal with |- context [Request_run ?a ?b ?c ?d ?n ?e] => destruct (Request_run a b c d n e) as [r' acts] end.
  all: pose proof (apply_actions_P k Yp acts (set_runner s r') Dp H) as A; unfold aa_sys, aa_outs in A;
       destruct (apply_actions (set_runner s r') acts) as [[s1 outs] raised]; cbn [fst snd] in *.
  all: destruct raised; [exact A|]; destruct (ev_is_last ev && negb (s_ended s1)); cbn [fst snd]; [|exact A].
  all: rewrite deliveries_view_app; cbn [view flat_map view1 deliveries]; rewrite app_nil_r; exact A.
Qed.

Lemma drain_P k s Yp Dp : Ps k s Yp Dp ->
  Ps k (fst (drain s)) (Yp ++ it_ids (snd (drain s))) (Dp ++ deliveries (view k (snd (drain s)))).
Proof.
  intros (A & W & B & C & D). pose proof (drain_view k s) as (V & _). rewrite V. cbn [deliveries]. rewrite app_nil_r.
  unfold drain, Ps, P. destruct (anext_drain_ids (s_iter s) W) as (I1 & I2 & I3 & I4).
  destruct (anext_drain (s_iter s)) as [it' outs] eqn:E. cbn [fst snd s_obs s_iter set_parts] in *.
  split; [|split; [exact I2|split; [exact B|split; [exact C|]]]].
  - rewrite <- app_assoc. eapply Subseq_trans; [apply Subseq_app_l; exact I1|exact A].
  - intros S. destruct (it_started (s_iter s)) eqn:Es; [rewrite (I4 eq_refl) in S; discriminate|].
    specialize (I3 eq_refl). inversion I3; subst. destruct (D eq_refl) as (D1 & D2 & D3). subst Yp. auto.
Qed.

Lemma P_frame k o o' it Yp Dp : cancelled o' = cancelled o -> cnt k (callbacks o') = cnt k (callbacks o) ->
  cntI (callbacks o') = cntI (callbacks o) -> latest_response o' = latest_response o -> (callbacks o = [] -> cancelled o = true -> callbacks o' = []) ->
  P k o it Yp Dp -> P k o' it Yp Dp.
Proof.
  intros E1 E2 E3 E4 E5 (A & W & B & C & D). unfold P. rewrite E1, E2, E3, E4.
  split; [exact A|split; [exact W|split; [exact B|split; [|exact D]]]]. intros X. apply E5; [apply C; exact X|exact X].
Qed.

Lemma step_P k s o Yp Dp : (forall k', o = OpRegister k' -> k' <> k) -> Ps k s Yp Dp ->
  Ps k (fst (step s o)) (Yp ++ it_ids (snd (step s o))) (Dp ++ deliveries (view k (snd (step s o)))).
Proof.
  intros Hk H. destruct o as [now ev| | |k'| |]; cbn [step].
  - apply add_event_P. exact H.
  - destruct (negb (s_has_obs s)); [cbn; rewrite !app_nil_r; exact H|].
    destruct (cancelled (s_obs s)) eqn:Ec; cbn [fst snd it_ids view flat_map view1 deliveries]; rewrite !app_nil_r; [exact H|].
    destruct H as (A & W & B & C & D). unfold Ps, P. cbn. split; [exact A|split; [exact W|split; [discriminate|split; [reflexivity|]]]]. intros S. destruct (D S) as (_ & D2 & D3). auto.
  - destruct (s_resp s).
    + match goal with |- context [drain ?S] => pose proof (drain_P k S Yp Dp H) as Dr; pose proof (drain_view k S) as (V & _); destruct (drain S) as [s2 o2] end.
      cbn [fst snd] in *. rewrite V in Dr.
      assert (E1 : it_ids (ORespCancelled :: (if s_ended s then [] else [OEnd]) ++ o2) = it_ids o2) by (destruct (s_ended s); reflexivity).
      assert (E2 : deliveries (view k (ORespCancelled :: (if s_ended s then [] else [OEnd]) ++ o2)) = []).
      { rewrite view_cons, view_app, V. destruct (s_ended s); reflexivity. }
      rewrite E1, E2. exact Dr.
    + apply drain_P. exact H.
    + apply drain_P. exact H.
  - destruct (negb (s_has_obs s)); [cbn; rewrite !app_nil_r; exact H|].
    assert (Hl : cnt k [LObserver k'] = O). { cbn. specialize (Hk k' eq_refl). destruct (k' =? k) eqn:E; [lia|reflexivity]. }
    destruct (register_callback_facts k (s_obs s) (s_iter s) (LObserver k') Hl) as (o1 & it1 & outs1 & E1 & V1 & C1 & N1 & B1).
    destruct (register_errback_facts k o1 it1 (LObserver k') Hl) as (o2 & it2 & outs2 & E2 & V2 & C2 & N2 & B2).
    assert (I1 : it1 = s_iter s /\ it_ids outs1 = [] /\ cntI (callbacks o1) = cntI (callbacks (s_obs s)) /\ latest_response o1 = latest_response (s_obs s)
                 /\ (callbacks (s_obs s) = [] -> cancelled (s_obs s) = true -> callbacks o1 = [])).
    { unfold register_callback in E1. destruct (cancelled (s_obs s)); [inversion E1; subst; auto 10|].
      destruct (latest_response (s_obs s)); inversion E1; subst; cbn; rewrite cntI_app; cbn; repeat split; auto; try lia; discriminate. }
    destruct I1 as (-> & J1 & J2 & J3 & J4).
    assert (I2 : it2 = s_iter s /\ it_ids outs2 = [] /\ latest_response o2 = latest_response o1).
    { unfold register_errback in E2. destruct (cancelled o1); inversion E2; subst; auto. }
    destruct I2 as (-> & K1 & K3).
    rewrite E1, E2. cbn [fst snd]. rewrite it_ids_app, J1, K1, deliveries_view_app, V1, V2. cbn [deliveries app]. rewrite !app_nil_r.
    unfold Ps. cbn [s_obs s_iter set_parts]. eapply P_frame; [| | | | |exact H]; try congruence.
    intros X Y. rewrite B2. apply J4; assumption.
  - destruct (negb (s_has_obs s) || it_started (s_iter s)) eqn:Eg; [apply drain_P; exact H|].
    apply orb_false_iff in Eg as [_ Es]. destruct H as (A & W & B & C & D). destruct (D Es) as (D1 & D2 & D3). subst Yp.
    (* the iterator starts: replay of the latest delivery, or of the end *)
    set (it0 := {| it_started := true; it_finished := false; it_w := None; it_s := None |}).
    assert (Q : exists o2 it2 outs12, (let '(o1, it1, outs1) := register_callback (s_obs s) it0 LIterator in
                                       let '(o2, it2, outs2) := register_errback o1 it1 LIterator in (o2, it2, outs1 ++ outs2)) = (o2, it2, outs12)
                /\ it_ids outs12 = [] /\ deliveries (view k outs12) = [] /\ it_started it2 = true /\ P k o2 it2 [] Dp).
    { unfold register_callback, register_errback. destruct (cancelled (s_obs s)) eqn:Ec.
      - rewrite Ec. destruct (cancellation_reason (s_obs s)) as [e|]; do 3 eexists; (split; [reflexivity|]); cbn [app it_ids view flat_map view1 deliveries];
          (split; [reflexivity|split; [reflexivity|split; [reflexivity|]]]); unfold P; cbn; rewrite Ec;
          (split; [constructor|split; [unfold wsok; cbn; auto|split; [discriminate|split; [exact C|discriminate]]]]).
      - destruct (B eq_refl) as (B1 & B2 & B3).
        destruct (latest_response (s_obs s)) as [l|] eqn:El; do 3 eexists; (split; [reflexivity|]); cbn [app it_ids view flat_map view1 deliveries];
          (split; [reflexivity|split; [reflexivity|split; [reflexivity|]]]); unfold P; cbn [callbacks cancelled latest_response errbacks it_started]; rewrite ?cnt_app, ?cntI_app, D1, B1; cbn.
        + split; [apply lasto_subseq; congruence|]. split; [unfold wsok; cbn; discriminate|]. split; [intros _; repeat split; auto; lia|]. split; discriminate.
        + split; [constructor|]. split; [unfold wsok; cbn; auto|]. split; [intros _; repeat split; auto; lia|]. split; discriminate. }
    destruct Q as (o2 & it2 & outs12 & EQ & Q1 & Q2 & Q3 & Q4).
    destruct (register_callback (s_obs s) it0 LIterator) as [[o1 it1] outs1]. destruct (register_errback o1 it1 LIterator) as [[o2' it2'] outs2].
    inversion EQ; subst o2' it2' outs12.
    pose proof (drain_P k (set_parts s (s_ended s) (s_resp s) o2 it2) [] Dp Q4) as Dr. pose proof (drain_view k (set_parts s (s_ended s) (s_resp s) o2 it2)) as (V & _).
    destruct (drain _) as [s3 o3]. cbn [fst snd] in *. rewrite V in Dr. cbn [deliveries] in Dr. rewrite app_nil_r in Dr.
    rewrite app_assoc, it_ids_app, Q1, !deliveries_view_app, V. rewrite <- deliveries_view_app, Q2. cbn [app deliveries]. rewrite app_nil_r. exact Dr.
  - apply drain_P. exact H.
Qed.

Lemma view_concat k l : view k (concat l) = concat (map (view k) l).
Proof. induction l as [|a l IH]; [reflexivity|]. cbn [concat map]. rewrite view_app, IH. reflexivity. Qed.

Lemma run_P k : forall ops s Yp Dp, Ps k s Yp Dp -> no_reg k ops ->
  Subseq (Yp ++ it_ids (concat (run s ops))) (Dp ++ deliveries (view k (concat (run s ops)))).
Proof.
  induction ops as [|o ops IH]; intros s Yp Dp H Hn.
  - cbn. rewrite !app_nil_r. destruct H as (A & _). eapply Subseq_app_drop. exact A.
  - cbn [run]. pose proof (step_P k s o Yp Dp) as St. destruct (step s o) as [s' outs]. cbn [fst snd concat] in *.
    rewrite it_ids_app, deliveries_view_app, !app_assoc. apply IH.
    + apply St; [|exact H]. intros k' ->. apply Hn. left. reflexivity.
    + intros k' Hin. apply Hn. right. exact Hin.
Qed.

Theorem iterator_on_run_subsequence : forall k reset ops, no_reg k ops ->
  Subseq (it_ids (concat (run (sys0 true reset) (OpRegister k :: ops)))) (deliveries (observed k reset ops)).
Proof.
  intros k reset ops Hn. unfold observed. rewrite <- view_concat. cbn [run].
  destruct (R_initial k reset) as (_ & Ho & _).
  assert (P0 : Ps k (fst (step (sys0 true reset) (OpRegister k))) [] []).
  { cbn. unfold Ps, P, wsok. cbn. rewrite Z.eqb_refl. split; [constructor|]. split; [auto|]. split; [intros _; repeat split; auto; lia|]. split; [discriminate|auto]. }
  destruct (step (sys0 true reset) (OpRegister k)) as [s outs]. cbn [fst snd] in *. subst outs. cbn [concat app].
  apply (run_P k ops s [] [] P0 Hn).
Qed.
