(* C14 — NSTART=1: invariants and refinement proofs over Model/C14.v *)
From Verif Require Import Lib.Tactics Model.C14.
Import ListNotations.
Open Scope Z_scope.

(* ================================================================ association lists *)
Section AL.
  Context {V : Type}.
  Lemma aget_adel_same k (l : list (Z * V)) : aget k (adel k l) = None.
  Proof. induction l as [|[k' v] r IH]; cbn; [reflexivity|]. destruct (k =? k') eqn:E; cbn; [exact IH|]. rewrite E. exact IH. Qed.
  Lemma aget_adel_other k k' (l : list (Z * V)) : k <> k' -> aget k (adel k' l) = aget k l.
  Proof. intros H. induction l as [|[k2 v] r IH]; cbn; [reflexivity|].
    destruct (k' =? k2) eqn:E; cbn.
    - rewrite IH. destruct (k =? k2) eqn:E2; [lia|reflexivity].
    - rewrite IH. reflexivity. Qed.
  Lemma aget_aset_same k v (l : list (Z * V)) : aget k (aset k v l) = Some v.
  Proof. unfold aset; cbn. rewrite Z.eqb_refl. reflexivity. Qed.
  Lemma aget_aset_other k k' v (l : list (Z * V)) : k <> k' -> aget k (aset k' v l) = aget k l.
  Proof. intros H. unfold aset; cbn. destruct (k =? k') eqn:E; [lia|]. apply aget_adel_other; assumption. Qed.
End AL.

(* ================================================================ per-remote views *)
Definition exs (r : Z) (s : st) : list exchange := filter (to_remote r) (active_exchanges s).
Definition count_r (r : Z) (s : st) : nat := length (exs r s).
Definition backlog_of (r : Z) (s : st) : list msg := match aget r (backlogs s) with Some q => q | None => [] end.
Definition reqs (r : Z) (s : st) : list (Z * Z * Z) := filter (fun o => remote_of o =? r) (outgoing_requests s).
Definition con_to (r : Z) (m : msg) : bool := (m_mtype m =? 0) && (m_remote m =? r).

Definition Good (s : st) (r : Z) : Prop :=
  (count_r r s <= 1)%nat /\ (aget r (backlogs s) <> None <-> count_r r s = 1%nat) /\
  Forall (fun m => con_to r m = true) (backlog_of r s).
Definition Inv (s : st) : Prop := forall r, Good s r.

Lemma good_ext s s' r : exs r s' = exs r s -> aget r (backlogs s') = aget r (backlogs s) -> Good s r -> Good s' r.
Proof. unfold Good, count_r, backlog_of. intros -> ->. tauto. Qed.

Lemma inv_ext s s' : active_exchanges s' = active_exchanges s -> backlogs s' = backlogs s -> Inv s -> Inv s'.
Proof. intros H1 H2 HI r. apply (good_ext s); [unfold exs; rewrite H1; reflexivity|rewrite H2; reflexivity|apply HI]. Qed.

Lemma has_exchange_exs r s : has_exchange r s = negb (Nat.eqb (count_r r s) 0).
Proof. unfold has_exchange, count_r, exs. induction (active_exchanges s) as [|x l IH]; [reflexivity|].
  cbn. destruct (to_remote r x); cbn; [reflexivity|exact IH]. Qed.

Lemma in_backlogs_iff r s : in_backlogs r s = true <-> aget r (backlogs s) <> None.
Proof. unfold in_backlogs. destruct (aget r (backlogs s)); split; congruence. Qed.

Lemma filter_xdel_other r r' mid l : r <> r' -> filter (to_remote r) (xdel r' mid l) = filter (to_remote r) l.
Proof. intros H. unfold xdel. induction l as [|x l IH]; [reflexivity|]. cbn.
  unfold key_eqb at 1, to_remote at 2. destruct (m_remote (x_msg x) =? r') eqn:E1; cbn.
  - destruct (m_mid (x_msg x) =? mid); cbn.
    + rewrite IH. unfold to_remote at 2. replace (m_remote (x_msg x) =? r) with false by lia. reflexivity.
    + rewrite IH. reflexivity.
  - rewrite IH. reflexivity. Qed.

Lemma filter_xdel_incl r r' mid l : (length (filter (to_remote r) (xdel r' mid l)) <= length (filter (to_remote r) l))%nat.
Proof. unfold xdel. induction l as [|x l IH]; [cbn; lia|]. cbn.
  destruct (key_eqb r' mid x); cbn; destruct (to_remote r x); cbn; lia. Qed.

Lemma xget_some r mid l x : xget r mid l = Some x -> In x l /\ m_remote (x_msg x) = r /\ m_mid (x_msg x) = mid.
Proof. unfold xget. intros H. apply find_some in H. destruct H as [H1 H2]. unfold key_eqb in H2. split; [exact H1|]. lia. Qed.

(* when at most one exchange goes to r, deleting the key of one that does leaves none *)
Lemma filter_xdel_same r mid l x : (length (filter (to_remote r) l) <= 1)%nat -> In x l -> key_eqb r mid x = true ->
  filter (to_remote r) (xdel r mid l) = [].
Proof. unfold xdel. induction l as [|y l IH]; cbn; [tauto|]. intros Hlen Hin Hk.
  assert (Hx : to_remote r x = true) by (unfold key_eqb in Hk; unfold to_remote; lia).
  destruct (to_remote r y) eqn:Ey; cbn in Hlen.
  - assert (Hnil : filter (to_remote r) l = []) by (destruct (filter (to_remote r) l); [reflexivity|cbn in Hlen; lia]).
    assert (Hxy : x = y).
    { destruct Hin as [->|Hin]; [reflexivity|]. exfalso.
      assert (In x (filter (to_remote r) l)) by (apply filter_In; split; assumption). rewrite Hnil in H. exact H. }
    subst y. rewrite Hk. cbn.
    clear -Hnil. induction l as [|z l IH]; [reflexivity|]. cbn in *. destruct (to_remote r z) eqn:Ez; [discriminate|].
    destruct (key_eqb r mid z); cbn; rewrite ?Ez; auto.
  - destruct Hin as [->|Hin]; [congruence|].
    destruct (key_eqb r mid y); cbn; rewrite ?Ey; apply IH; assumption. Qed.

Lemma min_timer_in l x : min_timer l = Some x -> In x l.
Proof. revert x. induction l as [|y l IH]; cbn; [discriminate|]. intros x.
  destruct (min_timer l) as [z|]; [destruct (before z y)|]; intros H; inv H; auto. Qed.

Lemma min_timer_none l : min_timer l = None -> l = [].
Proof. destruct l as [|y l]; [reflexivity|]. cbn. destruct (min_timer l) as [z|]; [destruct (before z y)|]; discriminate. Qed.

(* exactly one exchange to r: the one we hold is found under its own key *)
Lemma xget_own s x : (count_r (m_remote (x_msg x)) s <= 1)%nat -> In x (active_exchanges s) ->
  xget (m_remote (x_msg x)) (m_mid (x_msg x)) (active_exchanges s) = Some x.
Proof. unfold count_r, exs, xget. set (r := m_remote (x_msg x)). set (mid := m_mid (x_msg x)).
  induction (active_exchanges s) as [|y l IH]; cbn; [tauto|]. intros Hlen Hin.
  assert (Hkx : key_eqb r mid x = true) by (unfold key_eqb, r, mid; lia).
  destruct (key_eqb r mid y) eqn:Ky.
  - assert (Hy : to_remote r y = true) by (unfold key_eqb in Ky; unfold to_remote; lia). rewrite Hy in Hlen. cbn in Hlen.
    destruct Hin as [->|Hin]; [reflexivity|]. exfalso.
    assert (In x (filter (to_remote r) l)) by (apply filter_In; split; [assumption|unfold to_remote, r; lia]).
    destruct (filter (to_remote r) l); [assumption|cbn in Hlen; lia].
  - destruct Hin as [->|Hin]; [congruence|]. apply IH; [|assumption]. destruct (to_remote r y); cbn in Hlen; lia. Qed.

(* ================================================================ simple projections of the model functions *)
Lemma add_exchange_ex m s : exists x, x_msg x = m /\ x_counter x = 0 /\
  active_exchanges (add_exchange m s) = x :: xdel (m_remote m) (m_mid m) (active_exchanges s).
Proof. unfold add_exchange, random_uniform, schedule_retransmit, upd_ex, upd_bl.
  destruct (in_backlogs (m_remote m) s); destruct (rand s); cbn; (eexists; (split; [|split]); [ | |reflexivity]; reflexivity). Qed.
Lemma add_exchange_bl m s : backlogs (add_exchange m s) =
  if in_backlogs (m_remote m) s then backlogs s else aset (m_remote m) [] (backlogs s).
Proof. unfold add_exchange, random_uniform, schedule_retransmit, upd_ex, upd_bl.
  destruct (in_backlogs (m_remote m) s); destruct (rand s); reflexivity. Qed.
Lemma add_exchange_out m s : outgoing_requests (add_exchange m s) = outgoing_requests s.
Proof. unfold add_exchange, random_uniform, schedule_retransmit, upd_ex, upd_bl.
  destruct (in_backlogs (m_remote m) s); destruct (rand s); reflexivity. Qed.

Lemma add_exchange_backlog_of m s r : backlog_of r (add_exchange m s) = backlog_of r s.
Proof. unfold backlog_of. rewrite add_exchange_bl. unfold in_backlogs.
  destruct (aget (m_remote m) (backlogs s)) eqn:E; [reflexivity|].
  destruct (Z.eq_dec r (m_remote m)) as [->|Hne]; [rewrite aget_aset_same, E; reflexivity|rewrite aget_aset_other by assumption; reflexivity]. Qed.

Lemma add_exchange_exs_other m s r : r <> m_remote m -> exs r (add_exchange m s) = exs r s.
Proof. intros H. unfold exs. destruct (add_exchange_ex m s) as (x & Hm & _ & ->). cbn.
  unfold to_remote at 1. rewrite Hm. replace (m_remote m =? r) with false by lia. apply filter_xdel_other; assumption. Qed.
Lemma add_exchange_aget_other m s r : r <> m_remote m -> aget r (backlogs (add_exchange m s)) = aget r (backlogs s).
Proof. intros H. rewrite add_exchange_bl. destruct (in_backlogs (m_remote m) s); [reflexivity|]. apply aget_aset_other; assumption. Qed.

Lemma add_exchange_exs_same m s : exs (m_remote m) s = [] ->
  exists x, x_msg x = m /\ x_counter x = 0 /\ exs (m_remote m) (add_exchange m s) = [x].
Proof. intros Hz. unfold exs in *. destruct (add_exchange_ex m s) as (x & Hm & Hc & ->). exists x. split; [exact Hm|]. split; [exact Hc|].
  cbn [filter]. replace (to_remote (m_remote m) x) with true by (unfold to_remote; rewrite Hm; lia). f_equal.
  pose proof (filter_xdel_incl (m_remote m) (m_remote m) (m_mid m) (active_exchanges s)) as Hle.
  rewrite Hz in Hle. cbn in Hle. destruct (filter _ (xdel _ _ _)); [reflexivity|cbn in Hle; lia]. Qed.

(* adding the exchange for a confirmable message to a remote that has none establishes the clause for it *)
Lemma add_exchange_good m s : exs (m_remote m) s = [] ->
  Forall (fun m' => con_to (m_remote m) m' = true) (backlog_of (m_remote m) s) ->
  (forall r, r <> m_remote m -> Good s r) -> Inv (add_exchange m s).
Proof. intros Hz Hq HI r. destruct (Z.eq_dec r (m_remote m)) as [->|Hne].
  - unfold Good. rewrite add_exchange_backlog_of. unfold count_r.
    destruct (add_exchange_exs_same m s Hz) as (x & _ & _ & ->). cbn [length]. split; [lia|]. split; [|exact Hq].
    split; [reflexivity|]. intros _.
    rewrite add_exchange_bl. unfold in_backlogs. destruct (aget (m_remote m) (backlogs s)) eqn:E; [rewrite E; discriminate|].
    rewrite aget_aset_same. discriminate.
  - apply (good_ext s); [apply add_exchange_exs_other; assumption|apply add_exchange_aget_other; assumption|apply HI; assumption]. Qed.

Lemma add_exchange_has m s : has_exchange (m_remote m) (add_exchange m s) = true.
Proof. unfold has_exchange. destruct (add_exchange_ex m s) as (x & Hm & _ & ->). cbn. unfold to_remote at 1. rewrite Hm, Z.eqb_refl. reflexivity. Qed.

(* ================================================================ normal forms under the invariant *)
Definition release (r : Z) (s : st) : st * list output :=
  match backlog_of r s with
  | [] => (upd_bl s (adel r (backlogs s)), [])
  | m :: q => (add_exchange m (upd_bl s (aset r q (backlogs s))), [Tx m false])
  end.

Lemma continue_backlog_nf r s q : has_exchange r s = false -> aget r (backlogs s) = Some q ->
  Forall (fun m => con_to r m = true) q -> continue_backlog r s = release r s.
Proof. intros Hh Ha Hq. unfold continue_backlog, release, backlog_of. rewrite Ha. cbn [continue_backlog_loop]. rewrite Hh, Ha.
  destruct q as [|m q]; [reflexivity|]. inv Hq. unfold con_to in H1.
  unfold send_initially. replace (m_mtype m =? 0) with true by lia.
  assert (Hr : m_remote m = r) by lia.
  cbn [length continue_backlog_loop].
  destruct q as [|m2 q]; cbn [length continue_backlog_loop]; rewrite <- Hr at 1; rewrite add_exchange_has; reflexivity. Qed.

(* ================================================================ ghost logs read off the output trace *)
Definition subm_o (r : Z) (o : output) : list msg :=
  match o with Submitted m => if con_to r m then [m] else [] | _ => [] end.
Definition left_o (r : Z) (o : output) : list msg :=
  match o with
  | Tx m false => if con_to r m then [m] else []
  | Dropped m => if con_to r m then [m] else []
  | _ => []
  end.
(* confirmable messages handed to send_message for r, in order *)
Definition subm (r : Z) (tr : list output) : list msg := flat_map (subm_o r) tr.
(* confirmable messages to r that left the queue (first transmission, or discarded), in order *)
Definition left (r : Z) (tr : list output) : list msg := flat_map (left_o r) tr.
Definition is_crash (o : output) : bool := match o with Crash _ => true | _ => false end.
Definition nocrash (tr : list output) : bool := forallb (fun o => negb (is_crash o)) tr.
(* outputs that say nothing about queues *)
Definition neutral (o : output) : bool :=
  match o with
  | Tx _ true | TxEmpty _ _ _ | Fired _ _ | Deliver _ | Fail _ _ | Cancelled _ | Monitor _ | Ended _ => true
  | _ => false
  end.

Lemma subm_app r a b : subm r (a ++ b) = subm r a ++ subm r b. Proof. apply flat_map_app. Qed.
Lemma left_app r a b : left r (a ++ b) = left r a ++ left r b. Proof. apply flat_map_app. Qed.
Lemma nocrash_app a b : nocrash (a ++ b) = nocrash a && nocrash b. Proof. apply forallb_app. Qed.
Lemma neutral_logs r o : forallb neutral o = true -> subm r o = [] /\ left r o = [] /\ nocrash o = true.
Proof. induction o as [|x o IH]; [cbn; auto|]. cbn [forallb]. intros H. apply andb_prop in H. destruct H as [H1 H2].
  destruct (IH H2) as (A & B & C). unfold subm, left, nocrash in *. cbn [flat_map forallb]. rewrite A, B, C.
  destruct x; try discriminate; cbn; auto. destruct retr; [cbn; auto|discriminate]. Qed.

Lemma left_dropped_same r q : Forall (fun m => con_to r m = true) q -> left r (map Dropped q) = q.
Proof. induction 1 as [|m q H _ IH]; [reflexivity|]. unfold left in *. cbn. rewrite H, IH. reflexivity. Qed.
Lemma con_to_other r r' m : con_to r m = true -> r' <> r -> con_to r' m = false.
Proof. unfold con_to. intros H Hne. destruct (m_mtype m =? 0); [|reflexivity]. cbn in *. lia. Qed.
Lemma left_dropped_other r r' q : Forall (fun m => con_to r m = true) q -> r' <> r -> left r' (map Dropped q) = [] /\ subm r' (map Dropped q) = [].
Proof. intros H Hne. induction H as [|m q H _ IH]; [split; reflexivity|]. unfold left, subm in *. cbn.
  rewrite (con_to_other r r' m H Hne). cbn. exact IH. Qed.
Lemma nocrash_dropped q : nocrash (map Dropped q) = true.
Proof. induction q; [reflexivity|]. cbn. assumption. Qed.
Lemma subm_dropped r q : subm r (map Dropped q) = [].
Proof. induction q; [reflexivity|]. cbn. assumption. Qed.

(* one transition, whatever it is made of: invariant re-established, FIFO bookkeeping balanced, no internal error *)
Definition Trans (s : st) (o : list output) (s' : st) : Prop :=
  Inv s' /\ (forall r, backlog_of r s ++ subm r o = left r o ++ backlog_of r s') /\ nocrash o = true.

Lemma trans_refl s : Inv s -> Trans s [] s.
Proof. intros H. split; [exact H|]. split; [|reflexivity]. intros r. cbn. apply app_nil_r. Qed.

Lemma trans_pre_ext s0 s o s' : backlogs s0 = backlogs s -> Trans s0 o s' -> Trans s o s'.
Proof. intros Hb (A & B & C). split; [exact A|]. split; [|exact C]. intros r. unfold backlog_of at 1. rewrite <- Hb. apply B. Qed.

Lemma trans_neutral s o s1 o2 s' : Trans s o s1 -> active_exchanges s' = active_exchanges s1 -> backlogs s' = backlogs s1 ->
  forallb neutral o2 = true -> Trans s (o ++ o2) s'.
Proof. intros (A & B & C) He Hb Hn. destruct (neutral_logs 0 o2 Hn) as (_ & _ & N3).
  split; [apply (inv_ext s1); assumption|]. split.
  - intros r. destruct (neutral_logs r o2 Hn) as (N1 & N2 & _). rewrite subm_app, left_app, N1, N2, !app_nil_r.
    unfold backlog_of at 2. rewrite Hb. apply B.
  - rewrite nocrash_app, C, N3. reflexivity. Qed.

Lemma trans_neutral_pre s o1 s1 o s' : backlogs s1 = backlogs s ->
  forallb neutral o1 = true -> Trans s1 o s' -> Trans s (o1 ++ o) s'.
Proof. intros Hb Hn (A & B & C). destruct (neutral_logs 0 o1 Hn) as (_ & _ & N3).
  split; [exact A|]. split.
  - intros r. destruct (neutral_logs r o1 Hn) as (N1 & N2 & _). rewrite subm_app, left_app, N1, N2. cbn [app].
    unfold backlog_of at 1. rewrite <- Hb. apply B.
  - rewrite nocrash_app, C, N3. reflexivity. Qed.

(* ================================================================ the functions, one by one *)
Lemma call_monitor_frame w s : active_exchanges (fst (call_monitor w s)) = active_exchanges s /\
  backlogs (fst (call_monitor w s)) = backlogs s /\ forallb neutral (snd (call_monitor w s)) = true.
Proof. unfold call_monitor, stop_responder. destruct (m_sub w); [destruct (existsb (key_of w) (outgoing_requests s))| |destruct (alive k s)]; cbn; auto. Qed.

Lemma tm_dispatch_error_frame e r s : active_exchanges (fst (tm_dispatch_error e r s)) = active_exchanges s /\
  backlogs (fst (tm_dispatch_error e r s)) = backlogs s /\ forallb neutral (snd (tm_dispatch_error e r s)) = true.
Proof. unfold tm_dispatch_error. cbn [fst snd active_exchanges backlogs upd_in upd_out]. split; [reflexivity|]. split; [reflexivity|].
  rewrite forallb_app. apply andb_true_intro. split.
  - induction (filter _ (outgoing_requests s)); [reflexivity|]. cbn. assumption.
  - induction (filter _ (incoming_requests s)); [reflexivity|]. cbn. assumption. Qed.

Lemma tm_process_response_frame r tok s : active_exchanges (fst (fst (tm_process_response r tok s))) = active_exchanges s /\
  backlogs (fst (fst (tm_process_response r tok s))) = backlogs s /\ forallb neutral (snd (fst (tm_process_response r tok s))) = true.
Proof. unfold tm_process_response. destruct (find _ _); cbn; auto. Qed.

(* releasing the head of the queue of r (or deleting the empty queue) once no exchange to r is left *)
Lemma release_trans r s q : exs r s = [] -> aget r (backlogs s) = Some q -> Forall (fun m => con_to r m = true) q ->
  (forall r', r' <> r -> Good s r') -> Trans s (snd (release r s)) (fst (release r s)).
Proof. intros Hz Ha Hq HI. unfold release, backlog_of. rewrite Ha. destruct q as [|m q]; cbn [fst snd].
  - split; [|split; [|reflexivity]].
    + intros r'. destruct (Z.eq_dec r' r) as [->|Hne].
      * unfold Good, count_r, backlog_of. cbn [backlogs upd_bl]. rewrite aget_adel_same.
        replace (exs r (upd_bl s (adel r (backlogs s)))) with (exs r s) by reflexivity. rewrite Hz. cbn.
        split; [lia|]. split; [|constructor]. split; [congruence|discriminate].
      * apply (good_ext s); [reflexivity|cbn; apply aget_adel_other; assumption|apply HI; assumption].
    + intros r'. cbn. rewrite app_nil_r. unfold backlog_of. cbn [backlogs upd_bl].
      destruct (Z.eq_dec r' r) as [->|Hne]; [rewrite Ha, aget_adel_same; reflexivity|rewrite aget_adel_other by assumption; reflexivity].
  - inv Hq. assert (Hr : m_remote m = r) by (unfold con_to in H1; lia).
    set (s1 := upd_bl s (aset r q (backlogs s))).
    assert (Hb1 : forall r', backlog_of r' s1 = if r' =? r then q else backlog_of r' s).
    { intros r'. unfold backlog_of, s1. cbn [backlogs upd_bl]. destruct (r' =? r) eqn:E.
      - replace r' with r by lia. rewrite aget_aset_same. reflexivity.
      - rewrite aget_aset_other by lia. reflexivity. }
    split; [|split; [|reflexivity]].
    + apply add_exchange_good.
      * rewrite Hr. exact Hz.
      * rewrite Hr, Hb1, Z.eqb_refl. exact H2.
      * rewrite Hr. intros r' Hne. apply (good_ext s); [reflexivity|unfold s1; cbn; apply aget_aset_other; assumption|apply HI; assumption].
    + intros r'. rewrite add_exchange_backlog_of, Hb1. unfold subm, left. cbn. rewrite app_nil_r.
      destruct (r' =? r) eqn:E.
      * replace r' with r by lia. rewrite H1. unfold backlog_of. rewrite Ha. reflexivity.
      * rewrite (con_to_other r r' m H1) by lia. reflexivity. Qed.

Lemma exs_upd_ex r s l : exs r (upd_ex s l) = filter (to_remote r) l. Proof. reflexivity. Qed.

Lemma inv_count_aget s r : Inv s -> (count_r r s = 0%nat /\ aget r (backlogs s) = None) \/
  (exists x q, exs r s = [x] /\ aget r (backlogs s) = Some q /\ Forall (fun m => con_to r m = true) q).
Proof. intros HI. destruct (HI r) as (Hle & Hiff & Hq). unfold count_r in *. unfold backlog_of in Hq.
  destruct (exs r s) as [|x [|y l]] eqn:E; cbn in *.
  - left. split; [reflexivity|]. destruct (aget r (backlogs s)); [|reflexivity]. exfalso. assert (0 = 1)%nat by (apply Hiff; discriminate). lia.
  - right. destruct (aget r (backlogs s)) as [q|] eqn:Ea; [exists x, q; auto|]. exfalso. apply (proj2 Hiff); reflexivity.
  - lia. Qed.

Lemma in_exs r s x : In x (active_exchanges s) -> m_remote (x_msg x) = r -> In x (exs r s).
Proof. intros H1 H2. unfold exs. apply filter_In. split; [assumption|unfold to_remote; lia]. Qed.

Lemma remove_exchange_trans r mid mt s : Inv s -> Trans s (snd (remove_exchange r mid mt s)) (fst (remove_exchange r mid mt s)).
Proof. intros HI. unfold remove_exchange. destruct (xget r mid (active_exchanges s)) as [x|] eqn:Ex; [|apply trans_refl; exact HI].
  destruct (xget_some _ _ _ _ Ex) as (Hin & Hr & Hm).
  set (s1 := upd_ex s (xdel r mid (active_exchanges s))).
  destruct (inv_count_aget s r HI) as [[Hc _]|(x0 & q & Hx & Ha & Hq)].
  { exfalso. pose proof (in_exs r s x Hin Hr) as Hi. unfold count_r in Hc. destruct (exs r s); [exact Hi|discriminate]. }
  assert (Hz1 : exs r s1 = []).
  { unfold s1. rewrite exs_upd_ex. apply (filter_xdel_same r mid _ x); [fold (exs r s); rewrite Hx; cbn; lia|exact Hin|unfold key_eqb; lia]. }
  set (mon := if mt =? 3 then call_monitor (x_msg x) s1 else (s1, [])).
  assert (Hmon : active_exchanges (fst mon) = active_exchanges s1 /\ backlogs (fst mon) = backlogs s1 /\ forallb neutral (snd mon) = true).
  { unfold mon. destruct (mt =? 3); [apply call_monitor_frame|cbn; auto]. }
  destruct mon as [s2 o2] eqn:Emon. cbn [fst snd] in Hmon. destruct Hmon as (He2 & Hb2 & Hn2).
  assert (Hz2 : exs r s2 = []) by (unfold exs; rewrite He2; exact Hz1).
  assert (Ha2 : aget r (backlogs s2) = Some q) by (rewrite Hb2; exact Ha).
  rewrite (continue_backlog_nf r s2 q); [|rewrite has_exchange_exs; unfold count_r; rewrite Hz2; reflexivity|exact Ha2|exact Hq].
  destruct (release r s2) as [s3 o3] eqn:Erel. cbn [fst snd].
  apply (trans_neutral_pre s o2 s2 o3 s3); [rewrite Hb2; reflexivity|exact Hn2|].
  replace s3 with (fst (release r s2)) by (rewrite Erel; reflexivity). replace o3 with (snd (release r s2)) by (rewrite Erel; reflexivity).
  apply (release_trans r s2 q Hz2 Ha2 Hq). intros r' Hne. apply (good_ext s).
  - unfold exs. rewrite He2. unfold s1. cbn [active_exchanges upd_ex]. apply filter_xdel_other. assumption.
  - rewrite Hb2. reflexivity.
  - apply HI.
Qed.

Lemma count0_exs r s : count_r r s = 0%nat -> exs r s = [].
Proof. unfold count_r. destruct (exs r s); [reflexivity|discriminate]. Qed.

Lemma send_message_trans who r mt code tok maxre s : Inv s ->
  Trans s (snd (send_message who r mt code tok maxre s)) (fst (send_message who r mt code tok maxre s)).
Proof. intros HI. unfold send_message, next_message_id.
  set (s0 := {| now := now s; seq := seq s; message_id := Z.land 65535 (1 + message_id s); token := token s; rand := rand s;
                active_exchanges := active_exchanges s; backlogs := backlogs s; outgoing_requests := outgoing_requests s; incoming_requests := incoming_requests s |}).
  set (m := {| m_sub := who; m_remote := r; m_mtype := resolve_mtype mt; m_code := code; m_mid := message_id s; m_tok := tok; m_maxre := maxre |}).
  assert (HI0 : Inv s0) by (apply (inv_ext s); [reflexivity|reflexivity|exact HI]).
  apply (trans_pre_ext s0); [reflexivity|].
  cbn [m_mtype m]. unfold in_backlogs.
  destruct (inv_count_aget s0 r HI0) as [[Hc Ha]|(x & q & Hx & Ha & Hq)]; rewrite Ha.
  - (* nothing outstanding at r: straight to the wire *)
    rewrite andb_false_r. unfold send_initially. cbn [m_mtype m].
    destruct (resolve_mtype mt =? 0) eqn:Ec; cbn [fst snd].
    + split; [|split; [|reflexivity]].
      * apply add_exchange_good; cbn [m_remote m].
        -- apply count0_exs; exact Hc.
        -- unfold backlog_of. rewrite Ha. constructor.
        -- intros r' _. apply HI0.
      * intros r'. rewrite add_exchange_backlog_of. unfold subm, left. cbn. rewrite !app_nil_r.
        destruct (con_to r' m) eqn:Em; [|cbn; rewrite app_nil_r; reflexivity].
        assert (r' = r) by (unfold con_to, m in Em; cbn in Em; lia). subst r'. unfold backlog_of. rewrite Ha. reflexivity.
    + split; [exact HI0|]. split; [|reflexivity]. intros r'. unfold subm, left. cbn.
      replace (con_to r' m) with false by (unfold con_to, m; cbn; rewrite Ec; reflexivity). cbn. rewrite app_nil_r. reflexivity.
  - (* an exchange with r is open *)
    rewrite andb_true_r. destruct (resolve_mtype mt =? 0) eqn:Ec.
    + rewrite has_exchange_exs. unfold count_r. rewrite Hx. cbn [length Nat.eqb negb fst snd].
      assert (Hm : con_to r m = true) by (unfold con_to, m; cbn; rewrite Ec, Z.eqb_refl; reflexivity).
      split; [|split; [|reflexivity]].
      * intros r'. destruct (Z.eq_dec r' r) as [->|Hne].
        -- unfold Good, count_r, backlog_of. cbn [backlogs upd_bl]. rewrite aget_aset_same.
           replace (exs r (upd_bl s0 (aset r (q ++ [m]) (backlogs s0)))) with (exs r s0) by reflexivity. rewrite Hx. cbn [length].
           split; [lia|]. split; [split; [reflexivity|discriminate]|]. apply Forall_app. split; [exact Hq|constructor; [exact Hm|constructor]].
        -- apply (good_ext s0); [reflexivity|cbn; apply aget_aset_other; assumption|apply HI0].
      * intros r'. unfold subm, left, backlog_of. cbn [flat_map subm_o left_o backlogs upd_bl app]. rewrite app_nil_r.
        destruct (Z.eq_dec r' r) as [->|Hne].
        -- rewrite Hm, Ha, aget_aset_same. reflexivity.
        -- rewrite (con_to_other r r' m Hm Hne), aget_aset_other by assumption. rewrite app_nil_r. reflexivity.
    + unfold send_initially. cbn [m_mtype m]. rewrite Ec. cbn [fst snd].
      split; [exact HI0|]. split; [|reflexivity]. intros r'. unfold subm, left. cbn.
      replace (con_to r' m) with false by (unfold con_to, m; cbn; rewrite Ec; reflexivity). cbn. rewrite app_nil_r. reflexivity.
Qed.

Lemma tm_request_trans q r mt maxre s : Inv s -> Trans s (snd (tm_request q r mt maxre s)) (fst (tm_request q r mt maxre s)).
Proof. intros HI. unfold tm_request, next_token. cbn -[send_message Z.pow Z.modulo].
  match goal with |- Trans _ (snd (send_message _ _ _ _ _ _ ?s1)) _ => apply (trans_pre_ext s1); [reflexivity|]; apply send_message_trans; apply (inv_ext s); [reflexivity|reflexivity|exact HI] end. Qed.

Lemma dispatch_message_trans r mt code mid tok s : Inv s ->
  Trans s (snd (dispatch_message r mt code mid tok s)) (fst (dispatch_message r mt code mid tok s)).
Proof. intros HI. unfold dispatch_message, send_empty.
  set (first := if (mt =? 2) || (mt =? 3) then remove_exchange r mid mt s else (s, [])).
  assert (T1 : Trans s (snd first) (fst first)).
  { unfold first. destruct ((mt =? 2) || (mt =? 3)); [apply remove_exchange_trans; exact HI|apply trans_refl; exact HI]. }
  destruct first as [s1 o1]. cbn [fst snd] in T1.
  destruct (code =? 0).
  - destruct (mt =? 0); cbn [fst snd]; [|exact T1]. apply (trans_neutral s o1 s1); auto.
  - destruct (mt =? 3); cbn [fst snd]; [exact T1|].
    pose proof (tm_process_response_frame r tok s1) as (He & Hb & Hn).
    destruct (tm_process_response r tok s1) as [[s2 o2] ok]. cbn [fst snd] in *.
    destruct ok; destruct (mt =? 0); cbn [fst snd];
      try (apply (trans_neutral s o1 s1); [exact T1|exact He|exact Hb|]; rewrite ?forallb_app, Hn; reflexivity). Qed.

(* any state change that touches only the exchange list at r, replacing the one exchange there by another *)
Lemma replace_inv s s' r x x' : Inv s -> exs r s = [x] -> exs r s' = [x'] -> (forall r', r' <> r -> exs r' s' = exs r' s) ->
  backlogs s' = backlogs s -> Inv s'.
Proof. intros HI Hx Hx' Ho Hb r'. destruct (Z.eq_dec r' r) as [->|Hne].
  - destruct (HI r) as (A & B & C). unfold Good, count_r, backlog_of in *. rewrite Hb, Hx'. rewrite Hx in A, B. exact (conj A (conj B C)).
  - apply (good_ext s); [apply Ho; assumption|rewrite Hb; reflexivity|apply HI]. Qed.

(* ... and one that removes the exchange and the queue of r *)
Lemma clear_inv s s' r : Inv s -> exs r s' = [] -> aget r (backlogs s') = None ->
  (forall r', r' <> r -> exs r' s' = exs r' s /\ aget r' (backlogs s') = aget r' (backlogs s)) -> Inv s'.
Proof. intros HI Hx Ha Ho r'. destruct (Z.eq_dec r' r) as [->|Hne].
  - unfold Good, count_r, backlog_of. rewrite Hx, Ha. cbn. split; [lia|]. split; [split; [congruence|discriminate]|constructor].
  - destruct (Ho r' Hne). apply (good_ext s); [assumption|assumption|apply HI]. Qed.

Lemma retransmit_trans x s : Inv s -> In x (active_exchanges s) -> Trans s (snd (retransmit x s)) (fst (retransmit x s)).
Proof. intros HI Hin. unfold retransmit.
  rewrite (xget_own s x); [|destruct (HI (m_remote (x_msg x))) as (A & _); exact A|exact Hin].
  set (m := x_msg x). set (r := m_remote m).
  destruct (inv_count_aget s r HI) as [[Hc _]|(x0 & q & Hx & Ha & Hq)].
  { exfalso. pose proof (in_exs r s x Hin eq_refl) as Hi. rewrite (count0_exs r s Hc) in Hi. exact Hi. }
  assert (Hz : filter (to_remote r) (xdel r (m_mid m) (active_exchanges s)) = []).
  { apply (filter_xdel_same r (m_mid m) _ x); [fold (exs r s); rewrite Hx; cbn; lia|exact Hin|unfold key_eqb, r, m; lia]. }
  destruct (x_counter x <? m_maxre m).
  - unfold schedule_retransmit. cbn [fst snd upd_ex active_exchanges].
    split; [|split; [|reflexivity]].
    + eapply (replace_inv s _ r x0); [exact HI|exact Hx| | |reflexivity].
      * unfold exs. cbn [active_exchanges upd_ex filter x_msg]. fold m. fold r. unfold to_remote at 1. cbn [x_msg]. fold r. rewrite Z.eqb_refl.
        f_equal. pose proof (filter_xdel_incl r r (m_mid m) (xdel r (m_mid m) (active_exchanges s))) as Hle. rewrite Hz in Hle.
        destruct (filter (to_remote r) (xdel r (m_mid m) (xdel r (m_mid m) (active_exchanges s)))); [reflexivity|cbn in Hle; lia].
      * intros r' Hne. unfold exs. cbn [active_exchanges upd_ex filter x_msg]. unfold to_remote at 1. cbn [x_msg]. fold m. fold r.
        replace (r =? r') with false by lia. rewrite !filter_xdel_other by assumption. reflexivity.
    + intros r'. cbn. rewrite app_nil_r. reflexivity.
  - cbn [backlogs upd_ex]. rewrite Ha.
    pose proof (tm_dispatch_error_frame ConRetransmitsExceeded r (upd_bl (upd_ex s (xdel r (m_mid m) (active_exchanges s))) (adel r (backlogs s)))) as (He & Hb & Hn).
    destruct (tm_dispatch_error _ _ _) as [s2 o2]. cbn [fst snd] in *. cbn [active_exchanges backlogs upd_bl upd_ex] in He, Hb.
    split; [|split].
    + apply (clear_inv s s2 r HI).
      * unfold exs. rewrite He. exact Hz.
      * rewrite Hb. apply aget_adel_same.
      * intros r' Hne. split; [unfold exs; rewrite He; apply filter_xdel_other; assumption|rewrite Hb; apply aget_adel_other; assumption].
    + intros r'. destruct (neutral_logs r' o2 Hn) as (N1 & N2 & _). rewrite subm_app, left_app, N1, N2, subm_dropped. rewrite !app_nil_r.
      unfold backlog_of. rewrite Hb. destruct (Z.eq_dec r' r) as [->|Hne].
      * rewrite Ha, aget_adel_same, left_dropped_same by assumption. rewrite app_nil_r. reflexivity.
      * rewrite aget_adel_other by assumption. destruct (left_dropped_other r r' q Hq Hne) as [-> _]. reflexivity.
    + rewrite nocrash_app, nocrash_dropped. destruct (neutral_logs 0 o2 Hn) as (_ & _ & ->). reflexivity. Qed.

Lemma filter_drop_remote r r' l : filter (to_remote r) (filter (fun x => negb (to_remote r' x)) l) =
  if r =? r' then [] else filter (to_remote r) l.
Proof. induction l as [|x l IH]; [destruct (r =? r'); reflexivity|]. cbn [filter].
  destruct (to_remote r' x) eqn:E1; cbn [negb filter]; rewrite IH; destruct (r =? r') eqn:E2; destruct (to_remote r x) eqn:E3;
    try reflexivity; unfold to_remote in *; lia. Qed.

Lemma dispatch_error_trans r s : Inv s -> Trans s (snd (dispatch_error r s)) (fst (dispatch_error r s)).
Proof. intros HI. unfold dispatch_error.
  pose proof (tm_dispatch_error_frame NetworkError r s) as (He & Hb & Hn).
  destruct (tm_dispatch_error NetworkError r s) as [s1 o1]. cbn [fst snd] in *. cbn [backlogs upd_ex upd_bl].
  assert (Hq : Forall (fun m => con_to r m = true) (backlog_of r s)) by (destruct (HI r) as (_ & _ & C); exact C).
  unfold backlog_of in Hq. rewrite <- Hb in Hq.
  set (q := match aget r (backlogs s1) with Some q => q | None => [] end) in *.
  split; [|split].
  - apply (clear_inv s _ r HI).
    + unfold exs. cbn [active_exchanges upd_bl upd_ex]. rewrite filter_drop_remote, Z.eqb_refl. reflexivity.
    + cbn. apply aget_adel_same.
    + intros r' Hne. split.
      * unfold exs. cbn [active_exchanges upd_bl upd_ex]. rewrite filter_drop_remote, He. replace (r' =? r) with false by lia. reflexivity.
      * cbn. rewrite aget_adel_other, Hb by assumption. reflexivity.
  - intros r'. destruct (neutral_logs r' o1 Hn) as (N1 & N2 & _). rewrite subm_app, left_app, N1, N2, subm_dropped. cbn [app]. rewrite app_nil_r.
    unfold backlog_of. cbn [backlogs upd_bl]. destruct (Z.eq_dec r' r) as [->|Hne].
    + rewrite aget_adel_same, left_dropped_same by assumption. rewrite app_nil_r. unfold q. rewrite Hb. reflexivity.
    + rewrite aget_adel_other, Hb by assumption. destruct (left_dropped_other r r' q Hq Hne) as [-> _]. reflexivity.
  - rewrite nocrash_app, nocrash_dropped. destruct (neutral_logs 0 o1 Hn) as (_ & _ & ->). reflexivity. Qed.

Lemma fire_trans s : Inv s -> Trans s (snd (fire s)) (fst (fire s)).
Proof. intros HI. unfold fire. destruct (min_timer (active_exchanges s)) as [x|] eqn:E; [|apply trans_refl; exact HI].
  set (s0 := upd_now s (Z.max (now s) (x_due x))).
  assert (T : Trans s0 (snd (retransmit x s0)) (fst (retransmit x s0))).
  { apply retransmit_trans; [apply (inv_ext s); [reflexivity|reflexivity|exact HI]|apply min_timer_in; exact E]. }
  destruct (retransmit x s0) as [s1 o1]. cbn [fst snd] in *.
  apply (trans_neutral_pre s [Fired (m_remote (x_msg x)) (m_mid (x_msg x))] s0 o1 s1); [reflexivity|reflexivity|exact T]. Qed.

Lemma stop_responder_frame k s : active_exchanges (fst (stop_responder k s)) = active_exchanges s /\
  backlogs (fst (stop_responder k s)) = backlogs s /\ outgoing_requests (fst (stop_responder k s)) = outgoing_requests s /\
  forallb neutral (snd (stop_responder k s)) = true.
Proof. unfold stop_responder. destruct (alive k s); cbn; auto. Qed.

(* a responder's response: whatever [send] is, as long as it is a transition *)
Lemma respond_trans send : (forall who r mt code tok maxre s, Inv s -> Trans s (snd (send who r mt code tok maxre s)) (fst (send who r mt code tok maxre s))) ->
  forall j k last maxre s, Inv s -> Trans s (snd (respond send j k last maxre s)) (fst (respond send j k last maxre s)).
Proof. intros Hs j k last maxre s HI. unfold respond. destruct (find _ (incoming_requests s)) as [v|]; [|apply trans_refl; exact HI].
  pose proof (Hs (Resp j k) (v_remote v) (if v_mtype v =? 1 then 7 else 8) 69 (v_tok v) maxre s HI) as T.
  destruct (send _ _ _ _ _ _ s) as [s1 o1]. cbn [fst snd] in T.
  destruct last; [|exact T]. destruct (alive k s1); cbn [fst snd]; [|exact T].
  destruct (stop_responder_frame k s1) as (A & B & _ & N). destruct (stop_responder k s1) as [s2 o2]. cbn [fst snd] in *.
  apply (trans_neutral s o1 s1); assumption. Qed.

Theorem step_trans s e : Inv s -> Trans s (snd (step s e)) (fst (step s e)).
Proof. intros HI. destruct e; cbn [step].
  - apply tm_request_trans; exact HI.
  - apply send_message_trans; exact HI.
  - apply dispatch_message_trans; exact HI.
  - apply dispatch_message_trans; exact HI.
  - apply dispatch_error_trans; exact HI.
  - apply fire_trans; exact HI.
  - cbn [fst snd]. split; [|split; [|reflexivity]].
    + apply (inv_ext s); [| |exact HI]; unfold advance; destruct (d <? 0); try reflexivity;
        destruct (min_timer (active_exchanges s)) as [x|]; try reflexivity; destruct (x_due x <=? now s + d); reflexivity.
    + intros r. cbn. rewrite app_nil_r. unfold backlog_of, advance. destruct (d <? 0); [reflexivity|].
      destruct (min_timer (active_exchanges s)) as [x|]; [destruct (x_due x <=? now s + d)|]; reflexivity.
  - destruct (outstanding q s); cbn [fst snd]; [|apply trans_refl; exact HI].
    apply (trans_neutral s [] s [Cancelled q] (forget_request q s)); [apply trans_refl; exact HI|reflexivity|reflexivity|reflexivity].
  - unfold tm_process_request. cbn [fst snd].
    apply (trans_neutral s [] s); [apply trans_refl; exact HI|reflexivity|reflexivity|].
    induction (filter _ (incoming_requests s)); [reflexivity|]. cbn. assumption.
  - apply respond_trans; [intros; apply send_message_trans; assumption|exact HI]. Qed.

Lemma inv_init a b c : Inv (init a b c).
Proof. intros r. unfold Good, count_r, backlog_of. cbn. split; [lia|]. split; [split; [congruence|discriminate]|constructor]. Qed.

(* ================================================================ all runs *)
Lemma run_inv_fifo es : forall s tr, Inv s -> (forall r, subm r tr = left r tr ++ backlog_of r s) -> nocrash tr = true ->
  let s' := fst (run s es) in let tr' := tr ++ concat (snd (run s es)) in
  Inv s' /\ (forall r, subm r tr' = left r tr' ++ backlog_of r s') /\ nocrash tr' = true.
Proof. induction es as [|e es IH]; intros s tr HI HF HN; cbn [run].
  - cbn. rewrite app_nil_r. auto.
  - destruct (step_trans s e HI) as (A & B & C). destruct (step s e) as [s1 o1]. cbn [fst snd] in *.
    specialize (IH s1 (tr ++ o1) A). destruct (run s1 es) as [s2 os]. cbn [fst snd concat] in *.
    rewrite app_assoc. apply IH.
    + intros r. rewrite subm_app, left_app, HF, <- !app_assoc. f_equal. apply B.
    + rewrite nocrash_app, HN, C. reflexivity. Qed.

Theorem reachable_inv a b c es : Inv (fst (run (init a b c) es)).
Proof. apply (run_inv_fifo es (init a b c) []); [apply inv_init|reflexivity|reflexivity]. Qed.

Theorem reachable_fifo a b c es r :
  subm r (concat (snd (run (init a b c) es))) = left r (concat (snd (run (init a b c) es))) ++ backlog_of r (fst (run (init a b c) es)).
Proof. apply (run_inv_fifo es (init a b c) []); [apply inv_init|reflexivity|reflexivity]. Qed.

Lemma nocrash_in o e : nocrash o = true -> ~ In (Crash e) o.
Proof. intros N H. unfold nocrash in N. rewrite forallb_forall in N. specialize (N _ H). discriminate. Qed.

Theorem reachable_nocrash a b c es e : ~ In (Crash e) (concat (snd (run (init a b c) es))).
Proof. intros H. assert (N : nocrash (concat (snd (run (init a b c) es))) = true) by (apply (run_inv_fifo es (init a b c) []); [apply inv_init|reflexivity|reflexivity]).
  exact (nocrash_in _ e N H). Qed.

Theorem one_exchange_per_remote a b c es r :
  let s := fst (run (init a b c) es) in
  (count_r r s <= 1)%nat /\ (in_backlogs r s = true <-> count_r r s = 1%nat) /\
  Forall (fun m => m_mtype m = 0 /\ m_remote m = r) (backlog_of r s).
Proof. cbn zeta. destruct (reachable_inv a b c es r) as (A & B & C). split; [exact A|]. split.
  - rewrite in_backlogs_iff. exact B.
  - eapply Forall_impl; [|exact C]. intros m H. unfold con_to in H. lia. Qed.
