(* C13 — proofs, part 1: sender sequence numbers.
   Invariant over every event list with crash points: every number handed out so far is below the
   bound a reload would start from (sequence.json "next-to-send"), and below the live counter. *)
From Verif Require Import Lib.Py Lib.Tactics Lib.PyLemmas Gen.oscore_replay Model.C12 Model.C13.
From Coq Require Import Sorted.
Open Scope Z_scope.

(* ---------- strictly increasing lists between two bounds ---------- *)
Fixpoint chain (lo : Z) (l : list Z) (hi : Z) : Prop :=
  match l with [] => lo <= hi | x :: r => lo <= x /\ chain (x + 1) r hi end.

Lemma chain_le lo l hi : chain lo l hi -> lo <= hi.
Proof. revert lo; induction l as [|x r IH]; intros lo H; cbn in H; [exact H|]. destruct H as [H1 H2]. apply IH in H2. lia. Qed.
Lemma chain_app a l1 b l2 c : chain a l1 b -> chain b l2 c -> chain a (l1 ++ l2) c.
Proof.
  revert a; induction l1 as [|x r IH]; intros a H1 H2; cbn in *.
  - destruct l2 as [|y r2]; cbn in *; [lia|]. destruct H2; split; [lia|assumption].
  - destruct H1 as [Hx Hr]. split; [exact Hx|]. apply IH; assumption.
Qed.
Lemma chain_weaken a a' l b b' : chain a l b -> a' <= a -> b <= b' -> chain a' l b'.
Proof.
  revert a a'; induction l as [|x r IH]; intros a a' H Ha Hb; cbn in *; [lia|].
  destruct H as [Hx Hr]. split; [lia|]. eapply IH; [exact Hr|lia|exact Hb].
Qed.
Lemma chain_snoc a l b : chain a l b -> chain a (l ++ [b]) (b + 1).
Proof. intros H. eapply chain_app; [exact H|]. cbn. lia. Qed.
Lemma chain_bounds lo l hi : chain lo l hi -> Forall (fun x => lo <= x < hi) l.
Proof.
  revert lo; induction l as [|x r IH]; intros lo H; [constructor|]. cbn in H. destruct H as [Hx Hr].
  pose proof (chain_le _ _ _ Hr). constructor; [lia|].
  eapply Forall_impl; [|exact (IH _ Hr)]. cbn. intros; lia.
Qed.
Lemma chain_sorted lo l hi : chain lo l hi -> StronglySorted Z.lt l.
Proof.
  revert lo; induction l as [|x r IH]; intros lo H; [constructor|]. cbn in H. destruct H as [Hx Hr].
  constructor; [exact (IH _ Hr)|]. eapply Forall_impl; [|exact (chain_bounds _ _ _ Hr)]. cbn. intros; lia.
Qed.
Lemma sorted_nodup l : StronglySorted Z.lt l -> NoDup l.
Proof.
  induction 1 as [|x r Hs IH Hall]; constructor; [|exact IH].
  intros Hin. rewrite Forall_forall in Hall. specialize (Hall _ Hin). lia.
Qed.

(* ---------- file-system effects ---------- *)
Lemma small_cases k n : 0 <= k -> k <= Z.of_nat n -> exists m, (m <= n)%nat /\ k = Z.of_nat m.
Proof. intros H1 H2. exists (Z.to_nat k). split; lia. Qed.

(* what _store leaves in sequence.json: unchanged unless the rename was reached *)
Lemma store_seq p d a :
  let '(d', died) := _store p d a in
  (d_seq d' = d_seq d \/ d_seq d' = Some (store_content p)) /\
  (died = false -> d_seq d' = Some (store_content p) /\ d_durable d' = true /\ d_temps d' = d_temps d /\ d_lock d' = d_lock d) /\
  (d_durable d = true -> d_durable d' = true).
Proof.
  unfold _store, run_effects, store_effects. destruct a as [k|].
  - destruct ((0 <=? k) && (k <=? Z.of_nat (length [fs_mkstemp; fs_write (store_content p); fs_fsync; fs_replace]))) eqn:E.
    + cbn [length] in E. assert (Hk : k = 0 \/ k = 1 \/ k = 2 \/ k = 3 \/ k = 4) by lia.
      destruct Hk as [->|[->|[->|[->| ->]]]]; cbn; (split; [auto|split; [discriminate|auto]]).
    + cbn. repeat split; auto.
  - cbn. repeat split; auto.
Qed.
Lemma destroy_seq p d a :
  let p1 := set_persisted (set_wpers p true) (ssn p) in
  let '(d', died) := _destroy p d a in
  (d_seq d' = d_seq d \/ d_seq d' = Some (store_content p1)) /\
  (died = false -> d_seq d' = Some (store_content p1) /\ d_lock d' = false) /\
  (d_durable d = true -> d_durable d' = true).
Proof.
  unfold _destroy, run_effects, store_effects. cbv zeta. destruct a as [k|].
  - match goal with |- context [(0 <=? k) && (k <=? Z.of_nat (length ?l))] => destruct ((0 <=? k) && (k <=? Z.of_nat (length l))) eqn:E end.
    + cbn [length app] in E. assert (Hk : k = 0 \/ k = 1 \/ k = 2 \/ k = 3 \/ k = 4 \/ k = 5) by lia.
      destruct Hk as [->|[->|[->|[->|[->| ->]]]]]; cbn; (split; [auto|split; [discriminate|auto]]).
    + cbn. repeat split; auto.
  - cbn. repeat split; auto.
Qed.

(* ---------- the sender invariant ---------- *)
Local Opaque MAX_SEQNO.
Definition PInv (p : proc) (d : disk) (hi : Z) : Prop :=
  hi <= ssn p /\ persisted p = dbound d /\ 0 <= chunk p /\ 0 <= limit p.
Definition SInv (w : world) (hi : Z) : Prop :=
  hi <= dbound (w_disk w) /\ match w_proc w with Some p => PInv p (w_disk w) hi | None => True end.

Definition ev_ok (e : event) : Prop :=
  match e with
  | Reload start lim _ => 0 <= start /\ 0 <= lim
  | _ => True
  end.

Lemma dbound_store_content p : forall d, d_seq d = Some (store_content p) -> dbound d = persisted p.
Proof. intros d H. unfold dbound. rewrite H. reflexivity. Qed.

Lemma nsn_step p d a hi : hi <= dbound d -> PInv p d hi ->
  match new_sequence_number p d a with
  | (p', d', Val v) => v = ssn p /\ v < MAX_SEQNO /\ PInv p' d' (v + 1) /\ v + 1 <= dbound d' /\ uc p' = uc p /\ wpers p' = wpers p
  | (p', d', Exn e) => PInv p' d' hi /\ hi <= dbound d' /\ uc p' = uc p /\ wpers p' = wpers p
  | (p', d', Died) => hi <= dbound d'
  end.
Proof.
  intros Hd (Hs & Hp & Hc & Hl). unfold new_sequence_number.
  destruct (ssn p >=? MAX_SEQNO) eqn:Emax.
  { unfold PInv. auto. }
  unfold post_seqnoincrease. cbn [ssn persisted chunk limit set_ssn set_persisted set_chunk].
  destruct (ssn p + 1 >? persisted p) eqn:Egt.
  - match goal with |- context [_store ?q d a] => pose proof (store_seq q d a) as Hst; destruct (_store q d a) as [d' died] end.
    destruct Hst as (Hseq & Hok & _).
    destruct died.
    + destruct Hseq as [Hseq|Hseq]; unfold dbound in *; rewrite Hseq; cbn; lia.
    + clear Hseq. destruct (Hok eq_refl) as (Hseq & _). cbn [ssn persisted set_ssn set_persisted set_chunk].
      destruct (ssn p + 1 <=? persisted p + chunk p) eqn:Eas; unfold PInv, dbound; rewrite Hseq; cbn; repeat split; try lia.
  - unfold PInv; cbn. repeat split; lia.
Qed.

Lemma nsn_below_max p d a : match new_sequence_number p d a with (_, _, Val v) => v < MAX_SEQNO | _ => True end.
Proof.
  unfold new_sequence_number. destruct (ssn p >=? MAX_SEQNO) eqn:E; [exact I|].
  destruct (post_seqnoincrease (set_ssn p (ssn p + 1)) d a) as [[p' d'] [u|e|]]; auto. lia.
Qed.
(* exhaustion: refusal leaves everything untouched *)
Lemma nsn_exhausted p d a : MAX_SEQNO <= ssn p -> new_sequence_number p d a = (p, d, Exn ContextUnavailable).
Proof. intros H. unfold new_sequence_number. replace (ssn p >=? MAX_SEQNO) with true by lia. reflexivity. Qed.

(* a _store that raises never reaches the rename: sequence.json and its durability are untouched *)
Lemma store_fails_keeps p d k : d_seq (_store_fails p d k) = d_seq d /\ d_durable (_store_fails p d k) = d_durable d.
Proof.
  unfold _store_fails, store_effects.
  assert (Hk : Z.min (Z.max k 0) 3 = 0 \/ Z.min (Z.max k 0) 3 = 1 \/ Z.min (Z.max k 0) 3 = 2 \/ Z.min (Z.max k 0) 3 = 3) by lia.
  destruct Hk as [->|[->|[->| ->]]]; cbn; auto.
Qed.
Lemma dbound_store_fails p d k : dbound (_store_fails p d k) = dbound d.
Proof. unfold dbound. rewrite (proj1 (store_fails_keeps p d k)). reflexivity. Qed.
(* protect() during which _store raises: nothing is handed out, the reservation is rolled back *)
Lemma nsn_fails_step p d k hi : hi <= dbound d -> PInv p d hi ->
  match new_sequence_number_fails p d k with
  | (p', d', Val v) => v = ssn p /\ v < MAX_SEQNO /\ PInv p' d' (v + 1) /\ v + 1 <= dbound d'
  | (p', d', Exn e) => PInv p' d' hi /\ hi <= dbound d'
  | (p', d', Died) => hi <= dbound d'
  end.
Proof.
  intros Hd (Hs & Hp & Hc & Hl). unfold new_sequence_number_fails.
  destruct (ssn p >=? MAX_SEQNO) eqn:Emax; [unfold PInv; auto|].
  unfold post_seqnoincrease_fails. cbn [ssn persisted chunk limit set_ssn set_persisted set_chunk].
  destruct (ssn p + 1 >? persisted p) eqn:Egt.
  - unfold PInv; cbn. rewrite !dbound_store_fails. repeat split; lia.
  - unfold PInv; cbn. repeat split; lia.
Qed.

Lemma seq_loop_step n : forall p d a acc hi, hi <= dbound d -> PInv p d hi ->
  match seq_loop n p d a acc with
  | (p', d', l, e) => exists l' hi', l = rev acc ++ l' /\ chain hi l' hi' /\ hi' <= dbound d' /\
                       Forall (fun v => v < MAX_SEQNO) l' /\
                       (e <> SeqDied -> PInv p' d' hi' /\ uc p' = uc p /\ wpers p' = wpers p)
  end.
Proof.
  induction n as [|n IH]; intros p d a acc hi Hd HP; cbn [seq_loop].
  - exists [], hi. rewrite app_nil_r. cbn [chain].
    split; [reflexivity|]. split; [lia|]. split; [exact Hd|]. split; [constructor|]. intros _. auto.
  - pose proof (nsn_step p d a hi Hd HP) as Hn.
    destruct (new_sequence_number p d a) as [[p1 d1] [v|e|]].
    + destruct Hn as (Hv & Hmax & HP1 & Hd1 & Hu1 & Hw1).
      specialize (IH p1 d1 a (v :: acc) (v + 1) Hd1 HP1).
      destruct (seq_loop n p1 d1 a (v :: acc)) as [[[p' d'] l] e].
      destruct IH as (l' & hi' & Hl & Hch & Hb & Hall & Hlive).
      exists (v :: l'), hi'. cbn [rev] in Hl. rewrite <- app_assoc in Hl. cbn in Hl.
      split; [exact Hl|]. split; [cbn; split; [destruct HP; lia|exact Hch]|]. split; [exact Hb|].
      split; [constructor; assumption|].
      intros Hne. destruct (Hlive Hne) as (A & B & C). split; [exact A|]. split; congruence.
    + destruct Hn as (HP1 & Hd1 & Hu1 & Hw1). exists [], hi. rewrite app_nil_r. cbn [chain].
      split; [reflexivity|]. split; [lia|]. split; [exact Hd1|]. split; [constructor|]. intros _. auto.
    + exists [], hi. rewrite app_nil_r. cbn [chain].
      split; [reflexivity|]. split; [lia|]. split; [exact Hn|]. split; [constructor|]. intros H; congruence.
Qed.

Lemma load_pinv size start lim echo d : 0 <= start -> 0 <= lim -> PInv (load size start lim echo d) d (dbound d).
Proof. intros. unfold PInv, load; cbn. repeat split; lia. Qed.

(* one event: numbers handed out form a chain starting at the old bound, and the invariant is kept *)
Lemma step_sinv w ev hi : SInv w hi -> ev_ok ev ->
  let '(w', o) := step w ev in
  exists hi', chain hi (issued_of o) hi' /\ SInv w' hi' /\ Forall (fun v => v < MAX_SEQNO) (issued_of o).
Proof.
  intros (Hd & Hp) Hok. unfold step. destruct (w_proc w) as [p|] eqn:Ep.
  - destruct ev as [a|n a|r a|a| |start lim echo|a|k|r k].
    + (* Protect *)
      pose proof (nsn_step p (w_disk w) a hi Hd Hp) as Hn.
      destruct (new_sequence_number p (w_disk w) a) as [[p1 d1] [v|e|]]; cbn [issued_of].
      * destruct Hn as (Hv & Hmax & HP1 & Hd1 & _). exists (v + 1). destruct Hp as (Hs & _).
        split; [cbn; lia|]. split; [split; [exact Hd1|exact HP1]|]. constructor; [exact Hmax|constructor].
      * destruct Hn as (HP1 & Hd1 & _). exists hi. split; [cbn; lia|]. split; [split; assumption|constructor].
      * exists hi. split; [cbn; lia|]. split; [split; [exact Hn|exact I]|constructor].
    + (* Seq *)
      pose proof (seq_loop_step (Z.to_nat n) p (w_disk w) a [] hi Hd Hp) as Hl.
      destruct (seq_loop (Z.to_nat n) p (w_disk w) a []) as [[[p1 d1] l] e].
      destruct Hl as (l' & hi' & -> & Hch & Hb & Hall & Hlive). cbn [rev app].
      destruct e; cbn [issued_of]; exists hi'; (split; [exact Hch|]); (split; [|exact Hall]); split; try exact Hb; cbn [w_proc mkw w_disk];
        try exact I; apply Hlive; discriminate.
    + (* Unprotect: the bound on disk is rewritten with the same value, counters untouched *)
      unfold unprotect. destruct (unprotect_request (uc p) r) as [c' o].
      destruct (strikes (uc p) o).
      * unfold _replay_window_changed. cbn [wpers set_uc].
        destruct (wpers p).
        -- match goal with |- context [_store ?q ?d a] => pose proof (store_seq q d a) as Hst; destruct (_store q d a) as [d' died] end.
           destruct Hst as (Hseq & Hokk & _). destruct Hp as (Hs & Hpe & Hc & Hl).
           assert (Hb : dbound d' = dbound (w_disk w)).
           { destruct Hseq as [Hseq|Hseq]; unfold dbound in *; rewrite Hseq; [reflexivity|]. cbn. exact Hpe. }
           destruct died; cbn [issued_of]; exists hi; (split; [cbn; lia|]); (split; [|constructor]); split; cbn [w_disk w_proc mkw]; try lia; try exact I.
           unfold PInv; cbn. repeat split; lia.
        -- cbn [issued_of]. exists hi. split; [cbn; lia|]. split; [|constructor]. split; cbn [w_disk w_proc mkw]; [exact Hd|].
           destruct Hp as (Hs & Hpe & Hc & Hl). unfold PInv; cbn. repeat split; lia.
      * cbn [issued_of]. exists hi. split; [cbn; lia|]. split; [|constructor]. split; cbn [w_disk w_proc mkw]; [exact Hd|].
        destruct Hp as (Hs & Hpe & Hc & Hl). unfold PInv; cbn. repeat split; lia.
    + (* CleanStop: the exact counter is written; everything handed out is below it *)
      pose proof (destroy_seq p (w_disk w) a) as Hst. cbv zeta in Hst.
      destruct (_destroy p (w_disk w) a) as [d' died]. destruct Hst as (Hseq & _).
      exists hi. assert (Hno : issued_of (if died then ODied else OStopped) = []) by (destruct died; reflexivity). rewrite Hno. split; [cbn; lia|]. split; [|constructor]. split; cbn [w_disk w_proc mkw]; [|exact I].
      destruct Hp as (Hs & _). destruct Hseq as [Hseq|Hseq]; unfold dbound in *; rewrite Hseq; cbn; lia.
    + (* Kill *)
      exists hi. cbn [issued_of]. split; [cbn; lia|]. split; [|constructor]. split; [exact Hd|exact I].
    + (* Reload while alive: refused (lock) *)
      exists hi. cbn [issued_of]. split; [cbn; lia|]. split; [|constructor]. split; [exact Hd|]. rewrite Ep. exact Hp.
    + (* Respond: the request's nonce is reused (no number taken), or an ordinary new_sequence_number *)
      assert (Hprot : let '(w', o) := (match new_sequence_number p (w_disk w) a with
                | (p', d', Val v) => (mkw (w_size w) (Some p') d', OIssued v)
                | (p', d', Exn e) => (mkw (w_size w) (Some p') d', OExn e)
                | (p', d', Died) => (mkw (w_size w) None d', ODied) end) in
              exists hi', chain hi (issued_of o) hi' /\ SInv w' hi' /\ Forall (fun v => v < MAX_SEQNO) (issued_of o)).
      { pose proof (nsn_step p (w_disk w) a hi Hd Hp) as Hn.
        destruct (new_sequence_number p (w_disk w) a) as [[p1 d1] [v|e|]]; cbn [issued_of].
        * destruct Hn as (Hv & Hmax & HP1 & Hd1 & _). exists (v + 1). destruct Hp as (Hs & _).
          split; [cbn; lia|]. split; [split; [exact Hd1|exact HP1]|]. constructor; [exact Hmax|constructor].
        * destruct Hn as (HP1 & Hd1 & _). exists hi. split; [cbn; lia|]. split; [split; assumption|constructor].
        * exists hi. split; [cbn; lia|]. split; [split; [exact Hn|exact I]|constructor]. }
      destruct (pend p) as [[n [|]]|]; [|exact Hprot|exact Hprot].
      exists hi. cbn [issued_of]. split; [cbn; lia|]. split; [|constructor]. split; [exact Hd|exact Hp].
    + (* ProtectFails: _store raises; the rollback keeps "persisted = bound on disk" *)
      pose proof (nsn_fails_step p (w_disk w) k hi Hd Hp) as Hn.
      destruct (new_sequence_number_fails p (w_disk w) k) as [[p1 d1] [v|e|]]; cbn [issued_of].
      * destruct Hn as (Hv & Hmax & HP1 & Hd1). exists (v + 1). destruct Hp as (Hs & _).
        split; [cbn; lia|]. split; [split; [exact Hd1|exact HP1]|]. constructor; [exact Hmax|constructor].
      * destruct Hn as (HP1 & Hd1). exists hi. split; [cbn; lia|]. split; [split; assumption|constructor].
      * exists hi. split; [cbn; lia|]. split; [split; [exact Hn|exact I]|constructor].
    + (* UnprotectFails: counters untouched, sequence.json untouched *)
      unfold unprotect_fails. destruct (unprotect_request (uc p) r) as [c' o].
      destruct (strikes (uc p) o && wpers (set_uc p c')); cbn [issued_of]; exists hi; (split; [cbn; lia|]); (split; [|constructor]);
        split; cbn [w_disk w_proc mkw]; rewrite ?dbound_store_fails; try exact Hd;
        destruct Hp as (Hs & Hpe & Hc & Hl); unfold PInv; cbn; rewrite ?dbound_store_fails; repeat split; lia.
  - destruct ev as [a|n a|r a|a| |start lim echo|a|k|r k]; cbn [issued_of];
      try (exists hi; split; [cbn; lia|]; split; [|constructor]; split; [exact Hd|]; rewrite Ep; exact I).
    (* Reload from disk: the counter restarts at the persisted bound *)
    exists hi. split; [cbn; lia|]. split; [|constructor]. cbn in Hok. destruct Hok as [H1 H2].
    split; cbn [w_disk w_proc mkw].
    + unfold dbound, fs_create_lock in *; cbn. exact Hd.
    + pose proof (load_pinv (w_size w) start lim echo (fs_create_lock (w_disk w)) H1 H2) as HP.
      destruct HP as (A & B & C & D). unfold PInv.
      split; [|split; [exact B|split; [exact C|exact D]]].
      unfold load, dbound, fs_create_lock in *; cbn in *. lia.
Qed.

Lemma run_sinv evs : forall w hi, SInv w hi -> Forall ev_ok evs ->
  exists hi', chain hi (issued (snd (run w evs))) hi' /\ SInv (fst (run w evs)) hi' /\
              Forall (fun v => v < MAX_SEQNO) (issued (snd (run w evs))).
Proof.
  induction evs as [|e r IH]; intros w hi HI Hok; cbn [run].
  - exists hi. cbn. split; [lia|]. split; [exact HI|constructor].
  - inversion Hok as [|? ? He Hr]; subst.
    pose proof (step_sinv w e hi HI He) as Hs. destruct (step w e) as [w1 o].
    destruct Hs as (hi1 & Hc1 & HI1 & Hm1).
    destruct (IH w1 hi1 HI1 Hr) as (hi2 & Hc2 & HI2 & Hm2).
    destruct (run w1 r) as [w2 os]. cbn [fst snd] in *.
    exists hi2. unfold issued in *. cbn [flat_map].
    split; [eapply chain_app; eassumption|]. split; [exact HI2|]. apply Forall_app. split; assumption.
Qed.

Lemma initial_sinv size seq : SInv (initial_world size seq) (dbound (w_disk (initial_world size seq))).
Proof. unfold SInv, initial_world; cbn. split; [lia|exact I]. Qed.

(* ---------- the statements used by Props/C13.v ---------- *)
Theorem issued_chain w hi evs : SInv w hi -> Forall ev_ok evs ->
  exists hi', chain hi (issued (snd (run w evs))) hi' /\ hi' <= dbound (w_disk (fst (run w evs))).
Proof.
  intros HI Hok. destruct (run_sinv evs w hi HI Hok) as (hi' & Hc & (Hb & _) & _). exists hi'. split; assumption.
Qed.
Theorem issued_strictly_increasing w hi evs : SInv w hi -> Forall ev_ok evs ->
  StronglySorted Z.lt (issued (snd (run w evs))).
Proof. intros HI Hok. destruct (run_sinv evs w hi HI Hok) as (hi' & Hc & _). eapply chain_sorted; exact Hc. Qed.
Theorem issued_nodup w hi evs : SInv w hi -> Forall ev_ok evs -> NoDup (issued (snd (run w evs))).
Proof. intros HI Hok. apply sorted_nodup. eapply issued_strictly_increasing; eassumption. Qed.
(* every number handed out is below what a reload at the end (in particular after a crash at the end) starts from,
   and not below the bound the history started with *)
Theorem issued_below_persisted w hi evs : SInv w hi -> Forall ev_ok evs ->
  Forall (fun v => hi <= v < dbound (w_disk (fst (run w evs)))) (issued (snd (run w evs))).
Proof.
  intros HI Hok. destruct (run_sinv evs w hi HI Hok) as (hi' & Hc & (Hb & _) & _).
  eapply Forall_impl; [|exact (chain_bounds _ _ _ Hc)]. cbn. intros; lia.
Qed.
Theorem issued_below_max w hi evs : SInv w hi -> Forall ev_ok evs ->
  Forall (fun v => v < MAX_SEQNO) (issued (snd (run w evs))).
Proof. intros HI Hok. destruct (run_sinv evs w hi HI Hok) as (hi' & _ & _ & Hm). exact Hm. Qed.

Local Transparent MAX_SEQNO.
(* the 5-byte Partial IV is injective on the range of numbers handed out, so nonces are not reused either *)
Definition piv (n : Z) : list Z := to_bytes_big_n 5 n.
Lemma piv_injective a b : 0 <= a < 2 ^ 40 -> 0 <= b < 2 ^ 40 -> piv a = piv b -> a = b.
Proof.
  intros Ha Hb H. unfold piv in H.
  assert (Hx : from_bytes_big (to_bytes_big_n (Z.to_nat 5) a) = a) by (apply from_bytes_big_to; [lia|exact Ha]).
  assert (Hy : from_bytes_big (to_bytes_big_n (Z.to_nat 5) b) = b) by (apply from_bytes_big_to; [lia|exact Hb]).
  change (Z.to_nat 5) with 5%nat in Hx, Hy. rewrite H in Hx. congruence.
Qed.
Theorem nonces_nodup w hi evs : SInv w hi -> 0 <= hi -> Forall ev_ok evs ->
  NoDup (map piv (issued (snd (run w evs)))).
Proof.
  intros HI Hpos Hok.
  pose proof (issued_nodup w hi evs HI Hok) as Hnd.
  pose proof (issued_below_max w hi evs HI Hok) as Hmax.
  pose proof (issued_below_persisted w hi evs HI Hok) as Hlo.
  revert Hnd Hmax Hlo. generalize (issued (snd (run w evs))) as l.
  induction l as [|x l IH]; intros Hnd Hmax Hlo; cbn [map]; [constructor|].
  inversion Hnd as [|? ? Hni Hnd']; subst. inversion Hmax as [|? ? Hx Hmax']; subst. inversion Hlo as [|? ? Hxl Hlo']; subst.
  constructor; [|apply IH; assumption].
  intros Hin. apply in_map_iff in Hin. destruct Hin as (y & Hy & Hyin).
  rewrite Forall_forall in Hmax', Hlo'. specialize (Hmax' _ Hyin). specialize (Hlo' _ Hyin).
  unfold MAX_SEQNO in *. apply piv_injective in Hy; [subst; contradiction| |]; lia.
Qed.
Theorem issued_nodup_initial size seq evs : Forall ev_ok evs -> NoDup (issued (snd (run (initial_world size seq) evs))).
Proof. intros H. eapply issued_nodup; [apply initial_sinv|exact H]. Qed.

(* ---------- durability: sequence.json is only ever replaced by fsynced content ---------- *)
Lemma nsn_durable p d a : d_durable d = true ->
  match new_sequence_number p d a with (_, d', _) => d_durable d' = true end.
Proof.
  intros H. unfold new_sequence_number. destruct (ssn p >=? MAX_SEQNO); [exact H|].
  unfold post_seqnoincrease. cbn [ssn persisted chunk limit set_ssn set_persisted set_chunk].
  destruct (ssn p + 1 >? persisted p); [|exact H].
  match goal with |- context [_store ?q d a] => pose proof (store_seq q d a) as Hst; destruct (_store q d a) as [d' died] end.
  destruct Hst as (_ & _ & Hd). destruct died; [exact (Hd H)|].
  match goal with |- context [if ?b then _ else _] => destruct b end; exact (Hd H).
Qed.
Lemma seq_loop_durable n : forall p d a acc, d_durable d = true ->
  match seq_loop n p d a acc with (_, d', _, _) => d_durable d' = true end.
Proof.
  induction n as [|n IH]; intros p d a acc H; cbn [seq_loop]; [exact H|].
  pose proof (nsn_durable p d a H) as Hn. destruct (new_sequence_number p d a) as [[p1 d1] [v|e|]]; [apply IH; exact Hn|exact Hn|exact Hn].
Qed.
Lemma step_durable w ev : d_durable (w_disk w) = true -> d_durable (w_disk (fst (step w ev))) = true.
Proof.
  intros H. unfold step. destruct (w_proc w) as [p|].
  - destruct ev as [a|n a|r a|a| |start lim echo|a|k|r k]; try exact H.
    + pose proof (nsn_durable p (w_disk w) a H) as Hn. destruct (new_sequence_number p (w_disk w) a) as [[p1 d1] [v|e|]]; exact Hn.
    + pose proof (seq_loop_durable (Z.to_nat n) p (w_disk w) a [] H) as Hn.
      destruct (seq_loop (Z.to_nat n) p (w_disk w) a []) as [[[p1 d1] l] e]. destruct e; exact Hn.
    + unfold unprotect. destruct (unprotect_request (uc p) r) as [c' o]. destruct (strikes (uc p) o); [|exact H].
      unfold _replay_window_changed. cbn [wpers set_uc]. destruct (wpers p); [|exact H].
      match goal with |- context [_store ?q ?d a] => pose proof (store_seq q d a) as Hst; destruct (_store q d a) as [d' died] end.
      destruct Hst as (_ & _ & Hd). destruct died; exact (Hd H).
    + pose proof (destroy_seq p (w_disk w) a) as Hst. cbv zeta in Hst. destruct (_destroy p (w_disk w) a) as [d' died].
      destruct Hst as (_ & _ & Hd). exact (Hd H).
    + destruct (pend p) as [[n [|]]|]; [exact H| |];
        (pose proof (nsn_durable p (w_disk w) a H) as Hn; destruct (new_sequence_number p (w_disk w) a) as [[p1 d1] [v|e|]]; exact Hn).
    + unfold new_sequence_number_fails. destruct (ssn p >=? MAX_SEQNO); [exact H|].
      unfold post_seqnoincrease_fails. cbn [ssn persisted set_ssn]. destruct (ssn p + 1 >? persisted p); [|exact H].
      cbn [fst w_disk mkw]. rewrite (proj2 (store_fails_keeps _ _ _)). exact H.
    + unfold unprotect_fails. destruct (unprotect_request (uc p) r) as [c' o].
      destruct (strikes (uc p) o && wpers (set_uc p c')); [|exact H].
      cbn [fst w_disk mkw]. rewrite (proj2 (store_fails_keeps _ _ _)). exact H.
  - destruct ev; exact H.
Qed.
Theorem run_durable w evs : d_durable (w_disk w) = true -> d_durable (w_disk (fst (run w evs))) = true.
Proof.
  revert w; induction evs as [|e r IH]; intros w H; cbn [run]; [exact H|].
  pose proof (step_durable w e H) as Hs. destruct (step w e) as [w1 o]. cbn [fst] in Hs.
  specialize (IH w1 Hs). destruct (run w1 r) as [w2 os]. exact IH.
Qed.
