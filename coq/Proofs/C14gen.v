(* C14 — the per-step theorems for a transport that may refuse datagrams (round 5, audit gap 2).
   An event that is about remote r hands datagrams only to r; so while r itself is not refused, the general step IS the
   base step (whatever else is refused), and an event about another remote leaves r alone even when that remote is refused.
   Hence the trichotomy and the liveness bound carry over to [step_ev l] / [rrun] for every remote that is not refused. *)
From Verif Require Import Lib.Tactics Model.C14 Model.C14refuse Proofs.C14 Proofs.C14step Proofs.C14refuse Proofs.C14live.
Import ListNotations.
Open Scope Z_scope.

Section Acc.
Variable l : list Z.
Variable r : Z.
Hypothesis Hacc : refuses l r = false.

Lemma send_via_acc what s : send_via_transport l what r s = (s, [what]).
Proof. unfold send_via_transport. rewrite Hacc. reflexivity. Qed.

Lemma send_initially_acc m s : m_remote m = r -> C14refuse.send_initially l m s = C14.send_initially m s.
Proof. intros H. unfold C14refuse.send_initially, C14.send_initially. rewrite H, send_via_acc. reflexivity. Qed.

Lemma loop_acc fuel : forall s, Forall (fun m => m_remote m = r) (backlog_of r s) ->
  C14refuse.continue_backlog_loop l fuel r s = C14.continue_backlog_loop fuel r s.
Proof. induction fuel as [|fuel IH]; intros s HP; [reflexivity|]. cbn [C14refuse.continue_backlog_loop C14.continue_backlog_loop].
  destruct (has_exchange r s); [reflexivity|]. unfold backlog_of in HP. destruct (aget r (backlogs s)) as [[|m q]|] eqn:Ea; try reflexivity.
  apply Forall_cons_iff in HP. destruct HP as [Hm Hq]. rewrite send_initially_acc by assumption.
  assert (HP1 : Forall (fun m0 => m_remote m0 = r) (backlog_of r (fst (C14.send_initially m (upd_bl s (aset r q (backlogs s))))))).
  { unfold C14.send_initially. destruct (m_mtype m =? 0); cbn [fst]; [rewrite add_exchange_backlog_of|];
      unfold backlog_of; cbn [backlogs upd_bl]; rewrite aget_aset_same; assumption. }
  destruct (C14.send_initially m _) as [s1 o1]. cbn [fst] in HP1. rewrite (IH s1 HP1). reflexivity. Qed.

Lemma queue_remote s : Inv s -> Forall (fun m => m_remote m = r) (backlog_of r s).
Proof. intros HI. destruct (HI r) as (_ & _ & C). eapply Forall_impl; [|exact C]. intros m H. unfold con_to in H. lia. Qed.

Lemma remove_exchange_acc mid mt s : Inv s -> C14refuse.remove_exchange l r mid mt s = C14.remove_exchange r mid mt s.
Proof. intros HI. unfold C14refuse.remove_exchange, C14.remove_exchange. destruct (xget r mid (active_exchanges s)) as [x|]; [|reflexivity].
  set (s1 := upd_ex s (xdel r mid (active_exchanges s))).
  set (mon := if mt =? 3 then call_monitor (x_msg x) s1 else (s1, [])).
  assert (Hb : backlogs (fst mon) = backlogs s).
  { unfold mon. destruct (mt =? 3); [destruct (call_monitor_frame (x_msg x) s1) as (_ & B & _); exact B|reflexivity]. }
  destruct mon as [s2 o2]. cbn [fst] in Hb.
  unfold C14refuse.continue_backlog, C14.continue_backlog. destruct (aget r (backlogs s2)) as [q|]; [|reflexivity].
  rewrite loop_acc; [reflexivity|]. unfold backlog_of. rewrite Hb. apply (queue_remote s HI). Qed.

Lemma retransmit_acc x s : m_remote (x_msg x) = r -> C14refuse.retransmit l x s = C14.retransmit x s.
Proof. intros H. unfold C14refuse.retransmit, C14.retransmit. rewrite H. destruct (xget _ _ _); [|reflexivity].
  destruct (x_counter x <? m_maxre (x_msg x)); [|reflexivity]. unfold schedule_retransmit. rewrite send_via_acc. reflexivity. Qed.

Lemma send_message_acc who mt code tok maxre s : C14refuse.send_message l who r mt code tok maxre s = C14.send_message who r mt code tok maxre s.
Proof. unfold C14refuse.send_message, C14.send_message, next_message_id.
  destruct ((_ =? 0) && in_backlogs r _); [reflexivity|]. rewrite send_initially_acc by reflexivity. reflexivity. Qed.

Lemma dispatch_message_acc mt code mid tok s : Inv s ->
  C14refuse.dispatch_message l r mt code mid tok s = C14.dispatch_message r mt code mid tok s.
Proof. intros HI. unfold C14refuse.dispatch_message, C14.dispatch_message. rewrite remove_exchange_acc by exact HI.
  assert (Hn : crashed (snd (if (mt =? 2) || (mt =? 3) then C14.remove_exchange r mid mt s else (s, []))) = false).
  { destruct ((mt =? 2) || (mt =? 3)); [|reflexivity]. rewrite crashed_nocrash.
    destruct (remove_exchange_trans r mid mt s HI) as (_ & _ & ->). reflexivity. }
  destruct (if (mt =? 2) || (mt =? 3) then C14.remove_exchange r mid mt s else (s, [])) as [s1 o1]. cbn [snd] in Hn. rewrite Hn.
  unfold C14refuse.send_empty, C14.send_empty. rewrite !send_via_acc.
  destruct (code =? 0); [reflexivity|]. destruct (mt =? 3); [reflexivity|].
  destruct (tm_process_response r tok s1) as [[s2 o2] ok]. rewrite !send_via_acc. reflexivity. Qed.

(* an event about r, with r not refused: the general step is the base step *)
Theorem step_ev_touched s e : Inv s -> touches s e r = true -> step_ev l s e = C14.step s e.
Proof. intros HI Ht. destruct e; cbn in Ht; cbn [step_ev C14.step]; try reflexivity.
  - assert (r0 = r) by lia. subst r0. unfold C14refuse.tm_request, C14.tm_request. destruct (next_token s). rewrite send_message_acc. reflexivity.
  - assert (r0 = r) by lia. subst r0. apply send_message_acc.
  - assert (r0 = r) by lia. subst r0. apply dispatch_message_acc; exact HI.
  - assert (r0 = r) by lia. subst r0. apply dispatch_message_acc; exact HI.
  - unfold C14refuse.fire, C14.fire. destruct (min_timer (active_exchanges s)) as [x|]; [|reflexivity].
    rewrite retransmit_acc by lia. reflexivity.
  - unfold respond. destruct (find (fun v => v_k v =? k) (incoming_requests s)) as [v|]; [|reflexivity].
    replace (v_remote v) with r by lia. rewrite send_message_acc. reflexivity. Qed.
End Acc.

(* ---------------------------------------------------------------- frame under refusals: an event about r0 leaves every other remote alone *)
Definition QOk (r0 : Z) (s : st) : Prop := Forall (fun m => con_to r0 m = true) (backlog_of r0 s).

Lemma dispatch_error_untouched_q r0 s r : QOk r0 s -> r <> r0 -> Untouched r s (fst (dispatch_error r0 s)) (snd (dispatch_error r0 s)).
Proof. intros HQ Hne. unfold dispatch_error, tm_dispatch_error. cbn [fst snd backlogs upd_in upd_out upd_ex upd_bl active_exchanges]. split; [|split].
  - unfold exs. cbn [active_exchanges upd_bl upd_ex upd_out upd_in]. rewrite filter_drop_remote. replace (r =? r0) with false by lia. reflexivity.
  - cbn. apply aget_adel_other; assumption.
  - rewrite silent_app. apply andb_true_intro. split; [exact (silent_tm NetworkError r0 s r)|]. apply (silent_dropped r0); assumption. Qed.

Lemma dispatch_error_clears r0 s : backlog_of r0 (fst (dispatch_error r0 s)) = [].
Proof. unfold dispatch_error, tm_dispatch_error, backlog_of. cbn [fst backlogs upd_bl]. rewrite aget_adel_same. reflexivity. Qed.

Section Frame.
Variable l : list Z.

Lemma send_via_untouched what r0 s r : QOk r0 s -> r <> r0 -> silent r (what :: refused_ghost what) = true ->
  Untouched r s (fst (send_via_transport l what r0 s)) (snd (send_via_transport l what r0 s)).
Proof. intros HQ Hne Hs. unfold send_via_transport. destruct (refuses l r0).
  - pose proof (dispatch_error_untouched_q r0 s r HQ Hne) as (A & B & C). destruct (dispatch_error r0 s) as [s1 o1]. cbn [fst snd] in *.
    split; [exact A|]. split; [exact B|]. rewrite silent_app, C, andb_true_r.
    unfold silent in *. cbn [forallb] in Hs. apply andb_prop in Hs. exact (proj2 Hs).
  - cbn [fst snd]. split; [reflexivity|]. split; [reflexivity|]. unfold silent in *. cbn [forallb] in *. apply andb_prop in Hs. rewrite (proj1 Hs). reflexivity. Qed.

Lemma silent_tx m b r : r <> m_remote m -> silent r (Tx m b :: refused_ghost (Tx m b)) = true.
Proof. intros H. unfold silent. destruct b; cbn; replace (m_remote m =? r) with false by lia; reflexivity. Qed.

(* _send_initially of a message to r0: other remotes untouched; afterwards the queue of r0 is the old one or empty *)
Lemma send_initially_untouched m s r : QOk (m_remote m) s -> r <> m_remote m ->
  Untouched r s (fst (C14refuse.send_initially l m s)) (snd (C14refuse.send_initially l m s)) /\
  (backlog_of (m_remote m) (fst (C14refuse.send_initially l m s)) = backlog_of (m_remote m) s \/
   backlog_of (m_remote m) (fst (C14refuse.send_initially l m s)) = []).
Proof. intros HQ Hne. unfold C14refuse.send_initially.
  set (s1 := if m_mtype m =? 0 then add_exchange m s else s).
  assert (H1 : exs r s1 = exs r s /\ aget r (backlogs s1) = aget r (backlogs s) /\ backlog_of (m_remote m) s1 = backlog_of (m_remote m) s).
  { unfold s1. destruct (m_mtype m =? 0); [|auto]. split; [apply add_exchange_exs_other; assumption|]. split; [apply add_exchange_aget_other; assumption|apply add_exchange_backlog_of]. }
  destruct H1 as (A1 & B1 & C1).
  assert (HQ1 : QOk (m_remote m) s1) by (unfold QOk; rewrite C1; exact HQ).
  pose proof (send_via_untouched (Tx m false) (m_remote m) s1 r HQ1 Hne (silent_tx m false r Hne)) as (A & B & C).
  split.
  - split; [rewrite A; exact A1|]. split; [rewrite B; exact B1|exact C].
  - unfold send_via_transport. destruct (refuses l (m_remote m)).
    + right. pose proof (dispatch_error_clears (m_remote m) s1) as H. destruct (dispatch_error (m_remote m) s1). exact H.
    + left. exact C1. Qed.

Lemma loop_untouched fuel r0 r : r <> r0 -> forall s, QOk r0 s ->
  Untouched r s (fst (C14refuse.continue_backlog_loop l fuel r0 s)) (snd (C14refuse.continue_backlog_loop l fuel r0 s)).
Proof. intros Hne. induction fuel as [|fuel IH]; intros s HQ; [apply untouched_refl|]. cbn [C14refuse.continue_backlog_loop].
  destruct (has_exchange r0 s); [apply untouched_refl|]. unfold QOk, backlog_of in HQ.
  destruct (aget r0 (backlogs s)) as [[|m q]|] eqn:Ea; [| |apply untouched_refl].
  - cbn [fst snd]. split; [reflexivity|]. split; [cbn; apply aget_adel_other; assumption|reflexivity].
  - apply Forall_cons_iff in HQ. destruct HQ as [Hm Hq]. assert (Hr : m_remote m = r0) by (unfold con_to in Hm; lia).
    set (s0 := upd_bl s (aset r0 q (backlogs s))).
    assert (HQ0 : QOk (m_remote m) s0) by (rewrite Hr; unfold QOk, backlog_of, s0; cbn [backlogs upd_bl]; rewrite aget_aset_same; exact Hq).
    destruct (send_initially_untouched m s0 r HQ0 ltac:(lia)) as (U & Hb).
    assert (HQ1 : QOk r0 (fst (C14refuse.send_initially l m s0))).
    { unfold QOk. rewrite <- Hr. destruct Hb as [-> | ->]; [exact HQ0|constructor]. }
    destruct (C14refuse.send_initially l m s0) as [s1 o1]. cbn [fst snd] in *.
    specialize (IH s1 HQ1). destruct (C14refuse.continue_backlog_loop l fuel r0 s1) as [s2 o2]. cbn [fst snd] in *.
    apply (untouched_trans r s s1); [|exact IH].
    destruct U as (A & B & C). split; [rewrite A; reflexivity|]. split; [rewrite B; unfold s0; cbn; apply aget_aset_other; assumption|exact C]. Qed.

Lemma remove_exchange_untouched_g r0 mid mt s r : Inv s -> r <> r0 ->
  Untouched r s (fst (C14refuse.remove_exchange l r0 mid mt s)) (snd (C14refuse.remove_exchange l r0 mid mt s)).
Proof. intros HI Hne. unfold C14refuse.remove_exchange. destruct (xget r0 mid (active_exchanges s)) as [x|]; [|apply untouched_refl].
  set (s1 := upd_ex s (xdel r0 mid (active_exchanges s))).
  set (mon := if mt =? 3 then call_monitor (x_msg x) s1 else (s1, [])).
  assert (Hmon : active_exchanges (fst mon) = active_exchanges s1 /\ backlogs (fst mon) = backlogs s1 /\ silent r (snd mon) = true).
  { unfold mon. destruct (mt =? 3); [destruct (call_monitor_frame (x_msg x) s1) as (A & B & _); split; [exact A|split; [exact B|apply call_monitor_silent]]|cbn; auto]. }
  destruct mon as [s2 o2]. cbn [fst snd] in Hmon. destruct Hmon as (He & Hb & Hs).
  assert (U1 : Untouched r s s2 o2).
  { split; [unfold exs; rewrite He; apply filter_xdel_other; assumption|]. split; [rewrite Hb; reflexivity|exact Hs]. }
  unfold C14refuse.continue_backlog. destruct (aget r0 (backlogs s2)) as [q|] eqn:Ea.
  - assert (HQ : QOk r0 s2) by (unfold QOk, backlog_of; rewrite Hb; destruct (HI r0) as (_ & _ & C); exact C).
    pose proof (loop_untouched (S (length q)) r0 r Hne s2 HQ) as U2.
    destruct (C14refuse.continue_backlog_loop l (S (length q)) r0 s2) as [s3 o3]. cbn [fst snd] in *. apply (untouched_trans r s s2); assumption.
  - cbn [fst snd]. apply (untouched_trans r s s2); [exact U1|]. repeat split. Qed.

Lemma send_message_untouched_g who r0 mt code tok maxre s r : Inv s -> r <> r0 ->
  Untouched r s (fst (C14refuse.send_message l who r0 mt code tok maxre s)) (snd (C14refuse.send_message l who r0 mt code tok maxre s)).
Proof. intros HI Hne. unfold C14refuse.send_message, next_message_id. cbn [m_mtype].
  set (s0 := {| now := now s; seq := seq s; message_id := Z.land 65535 (1 + message_id s); token := token s; rand := rand s;
                active_exchanges := active_exchanges s; backlogs := backlogs s; outgoing_requests := outgoing_requests s; incoming_requests := incoming_requests s |}).
  set (m := {| m_sub := who; m_remote := r0; m_mtype := resolve_mtype mt; m_code := code; m_mid := message_id s; m_tok := tok; m_maxre := maxre |}).
  destruct ((resolve_mtype mt =? 0) && in_backlogs r0 s0).
  - destruct (aget r0 (backlogs s0)) as [q|] eqn:Ea; [|apply untouched_ext; reflexivity].
    destruct (has_exchange r0 s0); cbn [fst snd].
    + split; [reflexivity|]. split; [cbn; apply aget_aset_other; assumption|]. unfold silent. cbn. replace (r0 =? r) with false by lia. reflexivity.
    + split; [reflexivity|]. split; reflexivity.
  - assert (HQ : QOk (m_remote m) s0) by (cbn [m_remote m]; destruct (HI r0) as (_ & _ & C); exact C).
    destruct (send_initially_untouched m s0 r HQ ltac:(cbn; lia)) as ((A & B & C) & _).
    destruct (C14refuse.send_initially l m s0) as [s1 o1]. cbn [fst snd] in *.
    split; [rewrite A; reflexivity|]. split; [rewrite B; reflexivity|]. unfold silent in *. cbn [forallb about m_remote m]. replace (r0 =? r) with false by lia. exact C. Qed.

Lemma retransmit_untouched_g x s r : Inv s -> In x (active_exchanges s) -> r <> m_remote (x_msg x) ->
  Untouched r s (fst (C14refuse.retransmit l x s)) (snd (C14refuse.retransmit l x s)).
Proof. intros HI Hin Hne. destruct (x_counter x <? m_maxre (x_msg x)) eqn:Ec.
  2:{ replace (C14refuse.retransmit l x s) with (C14.retransmit x s); [apply retransmit_untouched; assumption|].
      unfold C14refuse.retransmit, C14.retransmit. destruct (xget _ _ _); [|reflexivity]. rewrite Ec. reflexivity. }
  unfold C14refuse.retransmit. destruct (xget _ _ _); [|apply untouched_refl]. rewrite Ec.
  set (m := x_msg x) in *. set (r0 := m_remote m) in *. unfold schedule_retransmit. cbn [fst snd upd_ex active_exchanges].
  match goal with |- context [send_via_transport l _ r0 ?t] => set (s1 := t) end.
  assert (U1 : Untouched r s s1 []).
  { split; [|split; reflexivity]. unfold exs, s1. cbn [active_exchanges upd_ex filter x_msg]. unfold to_remote at 1. cbn [x_msg]. fold m. fold r0.
    replace (r0 =? r) with false by lia. rewrite !filter_xdel_other by assumption. reflexivity. }
  assert (HQ : QOk r0 s1) by (destruct (HI r0) as (_ & _ & C); exact C).
  pose proof (send_via_untouched (Tx m true) r0 s1 r HQ Hne (silent_tx m true r Hne)) as U2.
  destruct (send_via_transport l (Tx m true) r0 s1) as [s2 o2]. cbn [fst snd] in *.
  apply (untouched_trans r s s1 s2 [] o2); assumption. Qed.
Lemma send_empty_untouched r0 mt mid s r : Inv s -> r <> r0 ->
  Untouched r s (fst (C14refuse.send_empty l r0 mt mid s)) (snd (C14refuse.send_empty l r0 mt mid s)).
Proof. intros HI Hne. apply send_via_untouched; [destruct (HI r0) as (_ & _ & C); exact C|exact Hne|].
  unfold silent. cbn. replace (r0 =? r) with false by lia. reflexivity. Qed.

Lemma dispatch_message_untouched_g r0 mt code mid tok s r : Inv s -> r <> r0 ->
  Untouched r s (fst (C14refuse.dispatch_message l r0 mt code mid tok s)) (snd (C14refuse.dispatch_message l r0 mt code mid tok s)).
Proof. intros HI Hne. unfold C14refuse.dispatch_message.
  set (first := if (mt =? 2) || (mt =? 3) then C14refuse.remove_exchange l r0 mid mt s else (s, [])).
  assert (T1 : Trans s (snd first) (fst first)).
  { unfold first. destruct ((mt =? 2) || (mt =? 3)); [apply remove_exchange_gen; exact HI|apply trans_refl; exact HI]. }
  assert (U1 : Untouched r s (fst first) (snd first)).
  { unfold first. destruct ((mt =? 2) || (mt =? 3)); [apply remove_exchange_untouched_g; assumption|apply untouched_refl]. }
  destruct first as [s1 o1]. cbn [fst snd] in T1, U1. pose proof (proj1 T1) as HI1.
  destruct (crashed o1); [exact U1|].
  destruct (code =? 0).
  - destruct (mt =? 0); [|exact U1]. pose proof (send_empty_untouched r0 3 mid s1 r HI1 Hne) as U2.
    destruct (C14refuse.send_empty l r0 3 mid s1) as [s2 o2]. apply (untouched_trans r s s1); assumption.
  - destruct (mt =? 3); [exact U1|].
    pose proof (tm_process_response_frame r0 tok s1) as (He & Hb & _).
    assert (Hd : silent r (snd (fst (tm_process_response r0 tok s1))) = true) by (unfold tm_process_response; destruct (find _ _); reflexivity).
    destruct (tm_process_response r0 tok s1) as [[s2 o2] ok]. cbn [fst snd] in *.
    assert (HI2 : Inv s2) by (apply (inv_ext s1); assumption).
    assert (U2 : Untouched r s s2 (o1 ++ o2)).
    { apply (untouched_trans r s s1); [exact U1|]. split; [unfold exs; rewrite He; reflexivity|]. split; [rewrite Hb; reflexivity|exact Hd]. }
    destruct ok; destruct (mt =? 0); try exact U2.
    + pose proof (send_empty_untouched r0 2 mid s2 r HI2 Hne) as U3. destruct (C14refuse.send_empty l r0 2 mid s2) as [s3 o3].
      rewrite app_assoc. apply (untouched_trans r s s2); assumption.
    + pose proof (send_empty_untouched r0 3 mid s2 r HI2 Hne) as U3. destruct (C14refuse.send_empty l r0 3 mid s2) as [s3 o3].
      rewrite app_assoc. apply (untouched_trans r s s2); assumption. Qed.

(* whatever is refused: an event that is not about r leaves r's exchange and queue alone and emits nothing about r *)
Theorem step_ev_frame s e r : Inv s -> touches s e r = false -> Untouched r s (fst (step_ev l s e)) (snd (step_ev l s e)).
Proof. intros HI Ht. destruct e; cbn in Ht; cbn [step_ev].
  - unfold C14refuse.tm_request, next_token. cbn -[C14refuse.send_message Z.pow Z.modulo].
    match goal with |- context [C14refuse.send_message l ?a ?b ?c ?d ?e ?f ?s1] =>
      pose proof (send_message_untouched_g a b c d e f s1 r ltac:(apply (inv_ext s); [reflexivity|reflexivity|exact HI]) ltac:(lia)) as (A & B & C) end.
    split; [rewrite A; reflexivity|]. split; [rewrite B; reflexivity|exact C].
  - apply send_message_untouched_g; [exact HI|lia].
  - apply dispatch_message_untouched_g; [exact HI|lia].
  - apply dispatch_message_untouched_g; [exact HI|lia].
  - apply (step_frame s (TransportError r0) r HI). exact Ht.
  - unfold C14refuse.fire. destruct (min_timer (active_exchanges s)) as [x|] eqn:E; [|apply untouched_refl].
    set (s0 := upd_now s (Z.max (now s) (x_due x))).
    pose proof (retransmit_untouched_g x s0 r) as H.
    destruct (C14refuse.retransmit l x s0) as [s1 o1]. cbn [fst snd] in *.
    destruct H as (A & B & C); [apply (inv_ext s); [reflexivity|reflexivity|exact HI]|apply min_timer_in; exact E|lia|].
    split; [rewrite A; reflexivity|]. split; [rewrite B; reflexivity|]. unfold silent in *. cbn. rewrite Ht. exact C.
  - apply (step_frame s (Advance d) r HI). exact Ht.
  - apply (step_frame s (Cancel q) r HI). exact Ht.
  - apply (step_frame s (Serve k r0 tok mt) r HI). exact Ht.
  - unfold respond. destruct (find _ (incoming_requests s)) as [v|]; [|apply untouched_refl].
    pose proof (send_message_untouched_g (Resp j k) (v_remote v) (if v_mtype v =? 1 then 7 else 8) 69 (v_tok v) maxre s r HI ltac:(lia)) as U.
    destruct (C14refuse.send_message l _ _ _ _ _ _ s) as [s1 o1]. cbn [fst snd] in U.
    destruct last; [|exact U]. destruct (alive k s1) eqn:Ea; cbn [fst snd]; [|exact U].
    unfold stop_responder. rewrite Ea. cbn [fst snd]. apply (untouched_trans r s s1); [exact U|]. repeat split. Qed.
End Frame.

(* ---------------------------------------------------------------- the trichotomy and the liveness bound for a remote that is not refused *)
Lemma acks_touches s e r : acks s e r = true -> touches s e r = true.
Proof. destruct e; cbn; try discriminate; intros H; lia. Qed.
Lemma fails_touches s e r : fails s e r = true -> touches s e r = true.
Proof. destruct e; cbn; try discriminate; [auto|]. destruct (min_timer _); [|discriminate]. intros H. lia. Qed.

Section NotRefused.
Variable l : list Z.
Variable r : Z.
Hypothesis Hacc : refuses l r = false.

Theorem general_released_when_acked s e q : Inv s -> acks s e r = true -> aget r (backlogs s) = Some q ->
  let s' := fst (step_ev l s e) in let o := snd (step_ev l s e) in
  subm r o = [] /\
  match q with
  | m :: rest => In (Tx m false) o /\ left r o = [m] /\ aget r (backlogs s') = Some rest /\
                 exists x', exs r s' = [x'] /\ x_msg x' = m /\ x_counter x' = 0
  | [] => left r o = [] /\ aget r (backlogs s') = None /\ exs r s' = []
  end.
Proof. intros HI Ha Hq. rewrite (step_ev_touched l r Hacc s e HI (acks_touches s e r Ha)). apply released_when_acked; assumption. Qed.

Theorem general_dropped_when_failed s e q : Inv s -> fails s e r = true -> aget r (backlogs s) = Some q ->
  failed_outcome r q s (fst (step_ev l s e)) (snd (step_ev l s e)).
Proof. intros HI Hf Hq. rewrite (step_ev_touched l r Hacc s e HI (fails_touches s e r Hf)). apply dropped_when_failed; assumption. Qed.

Theorem general_held_otherwise_detail s e q : Inv s -> aget r (backlogs s) = Some q -> acks s e r = false -> fails s e r = false ->
  let s' := fst (step_ev l s e) in let o := snd (step_ev l s e) in
  aget r (backlogs s') = Some (q ++ subm r o) /\ left r o = [] /\
  exists x x', exs r s = [x] /\ exs r s' = [x'] /\ x_msg x' = x_msg x /\
    (if fires_on s e r then x_counter x' = x_counter x + 1 /\ x_counter x < m_maxre (x_msg x) else x' = x).
Proof. intros HI Ha Hack Hf. cbn zeta. destruct (touches s e r) eqn:Ht.
  - rewrite (step_ev_touched l r Hacc s e HI Ht). apply held_otherwise_detail; assumption.
  - destruct (step_ev_frame l s e r HI Ht) as (A & B & C). destruct (silent_logs r _ C) as (S1 & S2).
    destruct (inv_count_aget s r HI) as [[_ Hn]|(x & q' & Hx & _)]; [congruence|].
    rewrite S1, S2, app_nil_r, B, A. split; [exact Ha|]. split; [reflexivity|]. exists x, x. rewrite (fires_on_touches s e r Ht). auto. Qed.
End NotRefused.

(* r is never refused along the run *)
Definition never_refuses (r : Z) (es : list revent) : bool :=
  forallb (fun e => match e with Refuse r' true => negb (r' =? r) | _ => true end) es.

Lemma refuses_app l r r' : refuses l r = false -> r' <> r -> refuses (l ++ [r']) r = false.
Proof. intros H Hne. unfold refuses in *. rewrite existsb_app, H. cbn. replace (r =? r') with false by lia. reflexivity. Qed.
Lemma refuses_filter l r r' : refuses l r = false -> refuses (filter (fun x => negb (x =? r')) l) r = false.
Proof. unfold refuses. induction l as [|a l IH]; [reflexivity|]. cbn. intros H. apply orb_false_elim in H. destruct H as [H1 H2].
  destruct (a =? r'); cbn; [apply IH; exact H2|rewrite H1; apply IH; exact H2]. Qed.

Fixpoint gcount (sl : st * list Z) (es : list revent) (r : Z) : nat :=
  match es with
  | [] => 0
  | e :: es' => ((match e with Ev e0 => if progress (fst sl) e0 r then 1 else 0 | Refuse _ _ => 0 end) + gcount (fst (rstep sl e)) es' r)%nat
  end.

Theorem general_eventually_leaves : forall es s l r k m, Inv s -> refuses l r = false -> never_refuses r es = true ->
  nth_error (backlog_of r s) k = Some m -> (budget r k s <= gcount (s, l) es r)%nat ->
  In m (left r (concat (snd (rrun (s, l) es)))).
Proof. induction es as [|e es IH]; intros s l r k m HI Hacc Hnr Hn Hb.
  - exfalso. pose proof (backlog_of_aget r s k m Hn) as Ha.
    destruct (inv_count_aget s r HI) as [[_ Hno]|(x & q & Hx & _)]; [congruence|].
    unfold budget in Hb. rewrite Hx in Hb. cbn in Hb. unfold weight in Hb. lia.
  - cbn [never_refuses forallb] in Hnr. apply andb_prop in Hnr. destruct Hnr as [Hne Hnr].
    destruct e as [e|r' on].
    2:{ (* the transport changes its mind about another remote: nothing happens to the state *)
      cbn [rrun rstep gcount fst] in *. destruct on.
      - assert (Hacc' : refuses (if refuses l r' then l else l ++ [r']) r = false)
          by (destruct (refuses l r'); [exact Hacc|apply refuses_app; [exact Hacc|lia]]).
        specialize (IH s _ r k m HI Hacc' Hnr Hn Hb). destruct (rrun _ es) as [sl2 os]. exact IH.
      - specialize (IH s _ r k m HI (refuses_filter l r r' Hacc) Hnr Hn Hb). destruct (rrun _ es) as [sl2 os]. exact IH. }
    pose proof (backlog_of_aget r s k m Hn) as Ha. set (q := backlog_of r s) in *.
    pose proof (step_ev_trans l s e HI) as (HI1 & _).
    cbn [rrun rstep gcount fst] in *. unfold progress in Hb.
    destruct (step_ev l s e) as [s1 o1] eqn:Es. cbn [fst] in *.
    specialize (IH s1 l r). destruct (rrun (s1, l) es) as [sl2 os]. cbn [snd concat] in *. rewrite left_app. apply in_or_app.
    assert (Hs1 : s1 = fst (step_ev l s e)) by (rewrite Es; reflexivity). assert (Ho1 : o1 = snd (step_ev l s e)) by (rewrite Es; reflexivity).
    destruct (acks s e r) eqn:Eack.
    + pose proof (general_released_when_acked l r Hacc s e q HI Eack Ha) as R. cbn zeta in R. rewrite <- Hs1, <- Ho1 in R.
      destruct q as [|m0 rest] eqn:Eq; [destruct k; discriminate|]. destruct R as (_ & _ & Hl & Ha1 & x' & Hx' & Hm' & Hc').
      destruct k as [|k].
      * left. cbn in Hn. inv Hn. rewrite Hl. left; reflexivity.
      * right. cbn in Hn. apply (IH k m HI1 Hacc Hnr).
        -- unfold backlog_of. rewrite Ha1. exact Hn.
        -- cbn [orb] in Hb. unfold budget in *. rewrite Hx'. unfold backlog_of at 1. rewrite Ha1.
           fold q in Hb. rewrite Eq in Hb. cbn [firstn map] in Hb. change (list_sum (?a :: ?l)) with (a + list_sum l)%nat in Hb.
           assert (Hw : weight x' = cost m0) by (unfold weight, cost; rewrite Hm', Hc'; f_equal; f_equal; lia).
           rewrite Hw.
           destruct (inv_count_aget s r HI) as [[_ Hno]|(x & q0 & Hx & _)]; [congruence|]. rewrite Hx in Hb.
           assert (1 <= weight x)%nat by (unfold weight; lia). lia.
    + destruct (fails s e r) eqn:Ef.
      * left. pose proof (general_dropped_when_failed l r Hacc s e q HI Ef Ha) as (Hl & _). rewrite <- Ho1 in Hl. rewrite Hl.
        apply (nth_error_In _ _ Hn).
      * right. pose proof (general_held_otherwise_detail l r Hacc s e q HI Ha Eack Ef) as (Ha1 & _ & x & x' & Hx & Hx' & Hm' & Hd).
        rewrite <- Hs1, <- Ho1 in *. cbn [orb] in Hb.
        assert (Hk : (k < length q)%nat) by (apply nth_error_Some; congruence).
        apply (IH k m HI1 Hacc Hnr).
        -- unfold backlog_of. rewrite Ha1. rewrite nth_error_app1 by exact Hk. exact Hn.
        -- unfold budget in *. fold q in Hb. rewrite Hx'. rewrite Hx in Hb. unfold backlog_of at 1. rewrite Ha1.
           rewrite firstn_app. replace (k - length q)%nat with 0%nat by lia. cbn [firstn]. rewrite app_nil_r.
           destruct (fires_on s e r).
           ++ cbv iota in Hb. destruct Hd as (Hc1 & Hc2). assert (S (weight x') = weight x) by (unfold weight; rewrite Hm', Hc1; lia). lia.
           ++ cbv iota in Hb. subst x'. lia.
Qed.
