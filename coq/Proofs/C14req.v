(* C14 — two more consequences: a confirmable message appears on the wire for the first time only when its
   remote is idle or the exchange ahead was just acknowledged/reset; requests to other remotes are never failed. *)
From Verif Require Import Lib.Tactics Model.C14 Proofs.C14 Proofs.C14step.
Import ListNotations.
Open Scope Z_scope.

Lemma in_left r m o : In (Tx m false) o -> con_to r m = true -> In m (left r o).
Proof. induction o as [|x o IH]; cbn [In]; [tauto|]. intros [->|H] Hc; unfold left; cbn [flat_map].
  - cbn. rewrite Hc. left; reflexivity.
  - apply in_or_app. right. apply IH; assumption. Qed.

Theorem first_transmission_only_when_idle_or_acked s e r m : Inv s -> In (Tx m false) (snd (step s e)) -> con_to r m = true ->
  in_backlogs r s = true -> acks s e r = true.
Proof. intros HI Hin Hc Hb. destruct (acks s e r) eqn:Ea; [reflexivity|]. exfalso.
  unfold in_backlogs in Hb. destruct (aget r (backlogs s)) as [q|] eqn:Eq; [|discriminate].
  destruct (fails s e r) eqn:Ef.
  - destruct (dropped_when_failed s e r q HI Ef Eq) as (_ & _ & _ & Hno & _). exact (Hno m false Hin).
  - destruct (held_otherwise s e r q HI Eq Ea Ef) as (_ & Hl & _). pose proof (in_left r m _ Hin Hc) as H. rewrite Hl in H. exact H. Qed.

(* ---------------------------------------------------------------- outstanding requests of other remotes *)
Lemma reqs_filter_keep r (p : Z * Z * Z -> bool) l : (forall e, remote_of e = r -> p e = true) ->
  filter (fun o => remote_of o =? r) (filter p l) = filter (fun o => remote_of o =? r) l.
Proof. intros H. induction l as [|a l IH]; [reflexivity|]. cbn [filter]. destruct (remote_of a =? r) eqn:E.
  - rewrite (H a) by lia. cbn [filter]. rewrite E, IH. reflexivity.
  - destruct (p a); cbn [filter]; rewrite ?E; exact IH. Qed.

Lemma tm_dispatch_error_reqs e r0 s r : r <> r0 -> reqs r (fst (tm_dispatch_error e r0 s)) = reqs r s.
Proof. intros Hne. unfold tm_dispatch_error, reqs. cbn [fst outgoing_requests upd_out upd_in]. apply reqs_filter_keep. intros a Ha.
  replace (remote_of a =? r0) with false by lia. reflexivity. Qed.
Lemma tm_process_response_reqs r0 tok s r : r <> r0 -> reqs r (fst (fst (tm_process_response r0 tok s))) = reqs r s.
Proof. intros Hne. unfold tm_process_response, reqs. destruct (find _ _); [|reflexivity]. cbn [fst outgoing_requests upd_out].
  apply reqs_filter_keep. intros a Ha. replace (remote_of a =? r0) with false by lia. rewrite andb_false_r. reflexivity. Qed.
Lemma call_monitor_reqs m s r : r <> m_remote m -> reqs r (fst (call_monitor m s)) = reqs r s.
Proof. intros Hne. unfold call_monitor, stop_responder, reqs. destruct (m_sub m); [|reflexivity|destruct (alive _ _); reflexivity]. destruct (existsb _ _); [|reflexivity].
  cbn [fst outgoing_requests upd_out]. apply reqs_filter_keep. intros a Ha. unfold key_of.
  replace (remote_of a =? m_remote m) with false by lia. rewrite andb_false_r. reflexivity. Qed.

Lemma release_out r s : outgoing_requests (fst (release r s)) = outgoing_requests s.
Proof. unfold release. destruct (backlog_of r s); cbn [fst]; [reflexivity|]. rewrite add_exchange_out. reflexivity. Qed.

Lemma send_message_out who r mt code tok maxre s : outgoing_requests (fst (send_message who r mt code tok maxre s)) = outgoing_requests s.
Proof. unfold send_message, next_message_id, send_initially. cbn [m_mtype m_remote].
  destruct ((resolve_mtype mt =? 0) && in_backlogs r _).
  - destruct (aget r _); [destruct (has_exchange r _)|]; reflexivity.
  - destruct (resolve_mtype mt =? 0); cbn [fst]; [rewrite add_exchange_out|]; reflexivity. Qed.

Lemma remove_exchange_reqs r0 mid mt s r : Inv s -> r <> r0 -> reqs r (fst (remove_exchange r0 mid mt s)) = reqs r s.
Proof. intros HI Hne. destruct (xget r0 mid (active_exchanges s)) as [x|] eqn:Ex.
  - destruct (remove_exchange_nf r0 mid mt s x HI Ex) as (-> & _). cbn zeta. cbn [fst]. unfold reqs. rewrite release_out.
    destruct (xget_some _ _ _ _ Ex) as (_ & Hr & _).
    destruct (mt =? 3); [|reflexivity]. apply (call_monitor_reqs (x_msg x)). lia.
  - unfold remove_exchange. rewrite Ex. reflexivity. Qed.

Lemma dispatch_message_reqs r0 mt code mid tok s r : Inv s -> r <> r0 -> reqs r (fst (dispatch_message r0 mt code mid tok s)) = reqs r s.
Proof. intros HI Hne. unfold dispatch_message, send_empty.
  pose proof (remove_exchange_reqs r0 mid mt s r HI Hne) as H1.
  set (first := if (mt =? 2) || (mt =? 3) then remove_exchange r0 mid mt s else (s, [])).
  assert (Hf : reqs r (fst first) = reqs r s) by (unfold first; destruct ((mt =? 2) || (mt =? 3)); [exact H1|reflexivity]).
  destruct first as [s1 o1]. cbn [fst] in Hf.
  destruct (code =? 0).
  - destruct (mt =? 0); exact Hf.
  - destruct (mt =? 3); [exact Hf|]. pose proof (tm_process_response_reqs r0 tok s1 r Hne) as H2.
    destruct (tm_process_response r0 tok s1) as [[s2 o2] ok]. cbn [fst] in H2.
    destruct ok; destruct (mt =? 0); cbn [fst]; congruence. Qed.

Lemma respond_out j k last maxre s : outgoing_requests (fst (respond send_message j k last maxre s)) = outgoing_requests s.
Proof. unfold respond. destruct (find _ _) as [v|]; [|reflexivity].
  pose proof (send_message_out (Resp j k) (v_remote v) (if v_mtype v =? 1 then 7 else 8) 69 (v_tok v) maxre s) as H.
  destruct (send_message _ _ _ _ _ _ s) as [s1 o1]. cbn [fst] in H.
  destruct last; [|exact H]. destruct (alive k s1) eqn:E; cbn [fst]; [|exact H]. unfold stop_responder. rewrite E. exact H. Qed.

Theorem requests_to_other_remotes_untouched s e r : Inv s -> touches s e r = false -> (forall q, e <> Cancel q) ->
  reqs r (fst (step s e)) = reqs r s.
Proof. intros HI Ht Hc. destruct e; cbn in Ht; cbn [step].
  - unfold tm_request, next_token. unfold reqs. rewrite send_message_out. cbn [outgoing_requests upd_out].
    rewrite filter_app. cbn [filter remote_of fst snd]. replace (r0 =? r) with false by lia. apply app_nil_r.
  - unfold reqs. rewrite send_message_out. reflexivity.
  - apply dispatch_message_reqs; [exact HI|lia].
  - apply dispatch_message_reqs; [exact HI|lia].
  - unfold dispatch_error. pose proof (tm_dispatch_error_reqs NetworkError r0 s r ltac:(lia)) as H.
    destruct (tm_dispatch_error NetworkError r0 s) as [s1 o1]. cbn [fst] in *. exact H.
  - unfold fire. destruct (min_timer (active_exchanges s)) as [x|] eqn:E; [|reflexivity].
    set (s0 := upd_now s (Z.max (now s) (x_due x))).
    assert (H : reqs r (fst (retransmit x s0)) = reqs r s).
    { unfold retransmit. destruct (xget _ _ _); [|reflexivity]. destruct (x_counter x <? m_maxre (x_msg x)); [reflexivity|].
      cbn [backlogs upd_ex]. destruct (aget _ _); [|reflexivity].
      match goal with |- context [tm_dispatch_error ?e ?r0 ?s1] => pose proof (tm_dispatch_error_reqs e r0 s1 r ltac:(lia)) as H;
        destruct (tm_dispatch_error e r0 s1) as [s2 o2] end. cbn [fst] in *. exact H. }
    destruct (retransmit x s0) as [s1 o1]. cbn [fst] in *. exact H.
  - cbn [fst]. unfold advance, reqs. destruct (d <? 0); [reflexivity|]. destruct (min_timer _) as [x|]; [destruct (x_due x <=? now s + d)|]; reflexivity.
  - exfalso. apply (Hc q). reflexivity.
  - reflexivity.
  - unfold reqs. rewrite respond_out. reflexivity. Qed.
