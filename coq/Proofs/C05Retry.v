(* C05 — retried block exchanges: a server behind the deduplicating message layer is indistinguishable, for the block-wise client, from the
   server itself, whatever the network duplicates. *)
From Verif Require Import Lib.Py Lib.PyLemmas Lib.Tactics Gen.block_kernels Model.C05 Model.C05Server Model.C05Retry Proofs.C05.
Open Scope Z_scope.

(* ---- a general simulation principle for the client machine: servers that answer alike are treated alike *)
Section Sim.
  Context {S1 S2 : Type}.
  Variable serve1 : S1 -> request -> S1 * sresult.
  Variable serve2 : S2 -> request -> S2 * sresult.
  Variable R : S1 -> S2 -> Prop.
  Hypothesis Hstep : forall s1 s2 rq s1' r, R s1 s2 -> serve1 s1 rq = (s1', r) -> exists s2', serve2 s2 rq = (s2', r) /\ R s1' s2'.

  Lemma block2_loop_sim fuel : forall s1 s2 t a mbse s1' tr o, R s1 s2 ->
    block2_loop serve1 fuel s1 t a mbse = (s1', tr, o) -> exists s2', block2_loop serve2 fuel s2 t a mbse = (s2', tr, o) /\ R s1' s2'.
  Proof.
    induction fuel as [|f IH]; intros s1 s2 t a mbse s1' tr o HR; cbn [block2_loop].
    - intros H; inv H. eauto.
    - destruct (generate_next_block2_request t a mbse) as [rq|e]; [|intros H; inv H; eauto].
      destruct (serve1 s1 rq) as [s1a r] eqn:H1. destruct (Hstep _ _ _ _ _ HR H1) as (s2a & H2 & HRa). rewrite H2.
      destruct r as [last|]; [|intros H; inv H; eauto].
      destruct (rs_block2 last) as [b2|]; [|intros H; inv H; eauto].
      destruct (append_response_block a last) as [a'|e]; [|intros H; inv H; eauto].
      destruct (negb (bt_more b2)); [intros H; inv H; eauto|].
      destruct (block2_loop serve1 f s1a t a' mbse) as [[s1b tr1] o1] eqn:R1. intros H; inv H.
      destruct (IH _ _ _ _ _ _ _ _ HRa R1) as (s2b & -> & HRb). eauto.
  Qed.

  Lemma complete_sim fuel s1 s2 t a mbse s1' tr o : R s1 s2 ->
    complete_by_requesting_block2 serve1 fuel s1 t a mbse = (s1', tr, o) ->
    exists s2', complete_by_requesting_block2 serve2 fuel s2 t a mbse = (s2', tr, o) /\ R s1' s2'.
  Proof.
    intros HR. unfold complete_by_requesting_block2. destruct (unexpected_first_block t a); [intros H; inv H; eauto|].
    destruct (rs_block2 a) as [b2|]; [|intros H; inv H; eauto].
    destruct (negb (bt_more b2)); [intros H; inv H; eauto|].
    destruct (negb (bt_num b2 =? 0)); [intros H; inv H; eauto|]. apply block2_loop_sim. exact HR.
  Qed.

  Lemma block1_loop_sim cfg fuel : forall s1 s2 cursor size_exp mbse s1' tr o, R s1 s2 ->
    block1_loop serve1 fuel s1 cfg cursor size_exp mbse = (s1', tr, o) ->
    exists s2', block1_loop serve2 fuel s2 cfg cursor size_exp mbse = (s2', tr, o) /\ R s1' s2'.
  Proof.
    induction fuel as [|f IH]; intros s1 s2 cursor size_exp mbse s1' tr o HR; cbn [block1_loop].
    - intros H; inv H. eauto.
    - destruct (block1_request cfg cursor size_exp) as [rq|e]; [|intros H; inv H; eauto].
      destruct (serve1 s1 rq) as [s1a r] eqn:H1. destruct (Hstep _ _ _ _ _ HR H1) as (s2a & H2 & HRa). rewrite H2.
      destruct r as [resp|]; [|intros H; inv H; eauto].
      destruct (block1_react rq resp cursor size_exp) as [e|c2 e2|].
      + intros H; inv H. eauto.
      + destruct (block1_loop serve1 f s1a cfg c2 e2 _) as [[s1b tr1] o1] eqn:R1. intros H; inv H.
        destruct (IH _ _ _ _ _ _ _ _ HRa R1) as (s2b & -> & HRb). eauto.
      + destruct (complete_by_requesting_block2 serve1 f s1a rq _ _) as [[s1b tr1] o1] eqn:R1. intros H; inv H.
        destruct (complete_sim _ _ _ _ _ _ _ _ _ HRa R1) as (s2b & -> & HRb). eauto.
  Qed.

  Lemma run_sim cfg fuel s1 s2 s1' tr o : R s1 s2 -> run serve1 fuel s1 cfg = (s1', tr, o) ->
    exists s2', run serve2 fuel s2 cfg = (s2', tr, o) /\ R s1' s2'.
  Proof. apply block1_loop_sim. Qed.
End Sim.

(* ---- the deduplicating layer *)
Section Retry.
  Context {S : Type}.
  Variable serve : S -> request -> S * sresult.

  Lemma deliver_n_spec n : forall st mid rq s' r, lookup mid (r_cache st) = None -> serve (r_inner st) rq = (s', r) ->
    deliver_n serve (Datatypes.S n) st mid rq =
      ({| r_inner := s'; r_cache := (mid, r) :: r_cache st; r_mid := r_mid st; r_sched := r_sched st |}, repeat r (Datatypes.S n)).
  Proof.
    intros st mid rq s' r Hl Hs. cbn [deliver_n]. unfold dedup_deliver at 1. rewrite Hl, Hs.
    set (st1 := {| r_inner := s'; r_cache := (mid, r) :: r_cache st; r_mid := r_mid st; r_sched := r_sched st |}).
    assert (Hdup : forall k, deliver_n serve k st1 mid rq = (st1, repeat r k)).
    { induction k as [|k IHk]; [reflexivity|]. cbn [deliver_n]. unfold dedup_deliver. cbn [st1 r_cache lookup]. rewrite Nat.eqb_refl.
      fold st1. rewrite IHk. reflexivity. }
    rewrite Hdup. reflexivity.
  Qed.

  (* every copy of the response that reaches the client is the same response, so it does not matter which one comes first *)
  Lemma arriving_identical r n dr : Forall (eq r) (arriving (repeat r (Datatypes.S n)) dr) /\ hd SFail (arriving (repeat r (Datatypes.S n)) dr) = r.
  Proof.
    split; [|reflexivity]. unfold arriving. apply Forall_forall. intros x Hx. apply in_flat_map in Hx as (y & Hy & Hxy).
    apply repeat_spec in Hy. subst y. apply repeat_spec in Hxy. congruence.
  Qed.

  Definition retry_rel (s : S) (st : rstate) : Prop :=
    r_inner st = s /\ (forall m, (r_mid st <= m)%nat -> lookup m (r_cache st) = None) /\ forallb is_delivered (r_sched st) = true.

  Lemma retry_step s st rq s' r : retry_rel s st -> serve s rq = (s', r) ->
    exists st', serve_retried serve st rq = (st', r) /\ retry_rel s' st'.
  Proof.
    intros (Hin & Hfresh & Hsched) Hs. unfold serve_retried.
    assert (Hf : exists dq dr, hd (Delivered 0 0) (r_sched st) = Delivered dq dr /\ forallb is_delivered (tl (r_sched st)) = true).
    { destruct (r_sched st) as [|f rest]; cbn [hd tl]; [eauto|]. cbn [forallb] in Hsched. apply andb_prop in Hsched as [H1 H2].
      destruct f; [eauto|discriminate]. }
    destruct Hf as (dq & dr & -> & Hrest).
    set (st0 := {| r_inner := r_inner st; r_cache := r_cache st; r_mid := Datatypes.S (r_mid st); r_sched := tl (r_sched st) |}).
    rewrite (deliver_n_spec dq st0 (r_mid st) rq s' r); [|cbn [st0 r_cache]; apply Hfresh; lia|cbn [st0 r_inner]; rewrite Hin; exact Hs].
    eexists. split; [f_equal; apply arriving_identical|].
    split; [reflexivity|]. split; [|exact Hrest]. cbn [st0 r_mid r_cache lookup]. intros m Hm.
    replace (Nat.eqb (r_mid st) m) with false by (symmetry; apply Nat.eqb_neq; lia). apply Hfresh. lia.
  Qed.

  (* Retried exchanges are invisible: for every application-level server, every request and every schedule of duplications of requests and
     responses, the run over the retrying network has the same transcript (all block options, payloads), the same outcome, and leaves the
     application-level server in the same state (so the same reassembled bodies) as the run in which every message is delivered once. *)
  Lemma retried_run_unchanged cfg fuel s sched s' tr o : forallb is_delivered sched = true ->
    run serve fuel s cfg = (s', tr, o) ->
    exists st', run (serve_retried serve) fuel (rinit s sched) cfg = (st', tr, o) /\ r_inner st' = s'.
  Proof.
    intros Hsched Hrun.
    destruct (run_sim serve (serve_retried serve) retry_rel retry_step cfg fuel s (rinit s sched) s' tr o) as (st' & H1 & H2 & _); try assumption.
    - split; [reflexivity|]. split; [reflexivity|exact Hsched].
    - eauto.
  Qed.

  (* an exchange that dies fails the sub-request; whether the application saw the request depends on which direction was lost *)
  Lemma retried_dead st rq arrived rest : r_sched st = Dead arrived :: rest ->
    snd (serve_retried serve st rq) = SFail /\
    (arrived = false -> r_inner (fst (serve_retried serve st rq)) = r_inner st).
  Proof.
    intros Hs. unfold serve_retried. rewrite Hs. cbn [hd tl]. destruct arrived.
    - destruct (deliver_n _ _ _ _ _). split; [reflexivity|discriminate].
    - split; reflexivity.
  Qed.
End Retry.

(* client x reference server over the retrying network *)
Lemma transfer_correct_under_retries_lemma scf e rep : honest_cfg scf e rep ->
  forall cfg, 0 <= c_mbse cfg <= 6 -> 0 <= c_mps cfg ->
  (c_block2 cfg = None \/ exists m2 s2, c_block2 cfg = Some (0, m2, s2) /\ 0 <= s2 <= 6) ->
  forall sched, forallb is_delivered sched = true ->
  forall fuel, (Z.to_nat (blen (c_body cfg)) + Z.to_nat (blen rep) + 1 < fuel)%nat ->
  exists st tr r, run (serve_retried (serve_ref scf)) fuel (rinit sstate0 sched) cfg = (st, tr, Done r) /\
    sv_bodies (r_inner st) = [c_body cfg] /\ rs_payload r = rep /\ rs_etag r = e /\ is_successful (rs_code r) = true /\
    rs_block1 r = None /\ wire_ok cfg tr.
Proof.
  intros Hh cfg Hm Hp Hb sched Hs fuel Hf.
  destruct (transfer_correct_lemma scf e rep Hh cfg Hm Hp Hb fuel Hf) as (st & tr & r & Hrun & H).
  destruct (retried_run_unchanged (serve_ref scf) cfg fuel sstate0 sched st tr (Done r) Hs Hrun) as (st' & Hrun' & Hin).
  exists st', tr, r. rewrite Hin. split; assumption.
Qed.

(* Why the deduplicating layer is needed (it is C04's guarantee, not the block-wise code's): without it one duplicated datagram makes the
   application-level server act on the same body twice. *)
Lemma without_dedup_body_twice_witness : exists scf cfg st tr r,
  honest_cfg scf (Some 10) (mkbody 5 1) /\
  run (serve_nodedup (serve_ref scf)) 5 (sstate0, [Delivered 1 0]) cfg = (st, tr, Done r) /\
  sv_bodies (fst st) = [c_body cfg; c_body cfg] /\ length tr = 1%nat.
Proof.
  exists {| s_policy1 := []; s_policy2 := []; s_reps := [(Some 10, mkbody 5 1)]; s_rep_at := []; s_atomic := true; s_mis := None; s_bert := 0 |},
         {| c_body := mkbody 10 3; c_mps := 1124; c_mbse := 6; c_block2 := None |}.
  eexists _, _, _. split; [split; try reflexivity; constructor|]. split; [vm_compute; reflexivity|]. split; reflexivity.
Qed.
