(* C14 — round 7: the remote r itself is refused by the transport.  For EVERY event (whatever it is about, whatever else is
   refused) the step either keeps r's exchange and queue (new confirmable submissions appended, nothing leaves the queue) or
   ends the exchange and discards the whole queue in that very step; and no datagram for r reaches the wire. *)
From Verif Require Import Lib.Tactics Model.C14 Model.C14refuse Proofs.C14 Proofs.C14step Proofs.C14req Proofs.C14refuse Proofs.C14live Proofs.C14gen.
Import ListNotations.
Open Scope Z_scope.

(* nothing in [o] is a datagram handed successfully to the transport for r *)
Definition wire_ok (r : Z) (x : output) : Prop :=
  match x with Tx m _ => m_remote m <> r | TxEmpty r' _ _ => r' <> r | _ => True end.
Definition wsil (r : Z) (o : list output) : Prop := forall x, In x o -> wire_ok r x.

Lemma wsil_nil r : wsil r []. Proof. intros x []. Qed.
Lemma wsil_app r a b : wsil r a -> wsil r b -> wsil r (a ++ b).
Proof. intros A B x H. apply in_app_or in H. destruct H; auto. Qed.
Lemma wsil_cons r x o : wire_ok r x -> wsil r o -> wsil r (x :: o).
Proof. intros A B y [<-|H]; auto. Qed.
Lemma wsil_silent r o : silent r o = true -> wsil r o.
Proof. unfold silent. rewrite forallb_forall. intros H x Hx. specialize (H x Hx). destruct x; cbn in *; try exact I; lia. Qed.

(* the dichotomy in its raw form: r's exchange is gone, or it is the same and nothing left the queue *)
Definition P (r : Z) (s : st) (o : list output) (s' : st) : Prop :=
  (exs r s' = [] \/ (exs r s' = exs r s /\ left r o = [])) /\ wsil r o.

Lemma P_refl r s : P r s [] s.
Proof. split; [right; split; reflexivity|apply wsil_nil]. Qed.
Lemma P_trans r s o1 s1 o2 s2 : P r s o1 s1 -> P r s1 o2 s2 -> P r s (o1 ++ o2) s2.
Proof. intros ([A|(A1 & A2)] & W1) ([B|(B1 & B2)] & W2); (split; [|apply wsil_app; assumption]).
  - left; exact B.
  - left. rewrite B1. exact A.
  - left; exact B.
  - right. split; [congruence|rewrite left_app, A2, B2; reflexivity]. Qed.
Lemma P_ext r s o s' : active_exchanges s' = active_exchanges s -> left r o = [] -> wsil r o -> P r s o s'.
Proof. intros A B C. split; [right; split; [unfold exs; rewrite A; reflexivity|exact B]|exact C]. Qed.
Lemma P_gone r s o s' : exs r s' = [] -> wsil r o -> P r s o s'.
Proof. intros A B. split; [left; exact A|exact B]. Qed.
Lemma P_cons r s x o s' : left_o r x = [] -> wire_ok r x -> P r s o s' -> P r s (x :: o) s'.
Proof. intros A B (C & D). split; [|apply wsil_cons; assumption].
  destruct C as [C|(C1 & C2)]; [left; exact C|right]. split; [exact C1|]. unfold left in *. cbn [flat_map]. rewrite A, C2. reflexivity. Qed.

Lemma tm_dispatch_error_wsil e r0 s r' : wsil r' (snd (tm_dispatch_error e r0 s)).
Proof. unfold tm_dispatch_error. cbn [snd]. intros x H. apply in_app_or in H.
  destruct H as [H|H]; apply in_map_iff in H; destruct H as (? & <- & _); exact I. Qed.
Lemma dropped_wsil q r' : wsil r' (map Dropped q).
Proof. intros x H. apply in_map_iff in H. destruct H as (? & <- & _). exact I. Qed.
Lemma dispatch_error_wsil r0 s r' : wsil r' (snd (dispatch_error r0 s)).
Proof. unfold dispatch_error. pose proof (tm_dispatch_error_wsil NetworkError r0 s r') as H.
  destruct (tm_dispatch_error NetworkError r0 s) as [s1 o1]. cbn [fst snd] in *. apply wsil_app; [exact H|apply dropped_wsil]. Qed.
Lemma dispatch_error_exs r0 s : exs r0 (fst (dispatch_error r0 s)) = [].
Proof. unfold dispatch_error, tm_dispatch_error, exs. cbn [fst active_exchanges upd_bl upd_ex upd_in upd_out].
  rewrite filter_drop_remote, Z.eqb_refl. reflexivity. Qed.
Lemma dispatch_error_aget r0 s : aget r0 (backlogs (fst (dispatch_error r0 s))) = None.
Proof. unfold dispatch_error, tm_dispatch_error. cbn [fst backlogs upd_bl upd_ex upd_in upd_out]. apply aget_adel_same. Qed.

(* the two alternatives, in full: what "discarded" and "kept" mean for the queue of r in the step s --e--> *)
Definition Discarded (l : list Z) (r : Z) (s : st) (e : event) : Prop :=
  let s' := fst (step_ev l s e) in let o := snd (step_ev l s e) in
  aget r (backlogs s') = None /\ exs r s' = [] /\ left r o = backlog_of r s ++ subm r o.
Definition Kept (l : list Z) (r : Z) (s : st) (e : event) : Prop :=
  let s' := fst (step_ev l s e) in let o := snd (step_ev l s e) in
  exs r s' = exs r s /\ left r o = [] /\ backlog_of r s' = backlog_of r s ++ subm r o /\
  (aget r (backlogs s') = None <-> aget r (backlogs s) = None).

Lemma alt_gone l r s e : Inv s -> exs r (fst (step_ev l s e)) = [] -> Discarded l r s e.
Proof. intros HI D. unfold Discarded. cbn zeta. destruct (general_step l s e HI) as (HI' & B & _).
  set (s' := fst (step_ev l s e)) in *. set (o := snd (step_ev l s e)) in *. specialize (B r).
  assert (Ha : aget r (backlogs s') = None).
  { destruct (inv_count_aget s' r HI') as [[_ H]|(x & q & Hx & _)]; [exact H|rewrite D in Hx; discriminate]. }
  split; [exact Ha|]. split; [exact D|].
  assert (Hb : backlog_of r s' = []) by (unfold backlog_of; rewrite Ha; reflexivity).
  rewrite Hb, app_nil_r in B. symmetry. exact B. Qed.
Lemma alt_kept l r s e : Inv s -> exs r (fst (step_ev l s e)) = exs r s -> left r (snd (step_ev l s e)) = [] -> Kept l r s e.
Proof. intros HI D1 D2. unfold Kept. cbn zeta. destruct (general_step l s e HI) as (HI' & B & _).
  set (s' := fst (step_ev l s e)) in *. set (o := snd (step_ev l s e)) in *. specialize (B r).
  split; [exact D1|]. split; [exact D2|]. split; [rewrite D2 in B; symmetry; exact B|].
  destruct (inv_count_aget s r HI) as [[Hc Hn]|(x & q & Hx & Hq & _)]; destruct (inv_count_aget s' r HI') as [[Hc' Hn']|(x' & q' & Hx' & Hq' & _)].
  - split; intros; assumption.
  - exfalso. rewrite D1, (count0_exs r s Hc) in Hx'. discriminate.
  - exfalso. rewrite <- D1, (count0_exs r s' Hc') in Hx. discriminate.
  - rewrite Hq, Hq'. split; discriminate. Qed.

Section Refused.
Variable l : list Z.
Variable r : Z.
Hypothesis Href : refuses l r = true.

(* any datagram for r: the hand-over IS dispatch_error(r) *)
Lemma send_via_refused what s :
  exs r (fst (send_via_transport l what r s)) = [] /\ aget r (backlogs (fst (send_via_transport l what r s))) = None /\
  wsil r (snd (send_via_transport l what r s)).
Proof. unfold send_via_transport. rewrite Href.
  pose proof (dispatch_error_exs r s) as A. pose proof (dispatch_error_aget r s) as A'. pose proof (dispatch_error_wsil r s r) as B.
  destruct (dispatch_error r s) as [s1 o1]. cbn [fst snd] in *. split; [exact A|]. split; [exact A'|]. apply wsil_app; [|exact B].
  destruct what; try apply wsil_nil. destruct retr; [apply wsil_nil|]. intros x [<-|[]]. exact I. Qed.

Lemma send_initially_refused m s : m_remote m = r ->
  exs r (fst (C14refuse.send_initially l m s)) = [] /\ aget r (backlogs (fst (C14refuse.send_initially l m s))) = None /\
  wsil r (snd (C14refuse.send_initially l m s)).
Proof. intros Hr. unfold C14refuse.send_initially. rewrite Hr. apply send_via_refused. Qed.

Lemma loop_refused fuel s : QOk r s ->
  P r s (snd (C14refuse.continue_backlog_loop l fuel r s)) (fst (C14refuse.continue_backlog_loop l fuel r s)).
Proof. intros HQ. destruct fuel as [|fuel]; [apply P_refl|]. cbn [C14refuse.continue_backlog_loop].
  destruct (has_exchange r s); [apply P_refl|]. unfold QOk, backlog_of in HQ.
  destruct (aget r (backlogs s)) as [[|m q]|] eqn:Ea; [| |apply P_refl].
  - apply P_ext; [reflexivity|reflexivity|apply wsil_nil].
  - apply Forall_cons_iff in HQ. destruct HQ as [Hm _]. assert (Hr : m_remote m = r) by (unfold con_to in Hm; lia).
    destruct (send_initially_refused m (upd_bl s (aset r q (backlogs s))) Hr) as (A & B & C).
    destruct (C14refuse.send_initially l m (upd_bl s (aset r q (backlogs s)))) as [s1 o1]. cbn [fst snd] in *.
    assert (Hl : C14refuse.continue_backlog_loop l fuel r s1 = (s1, [])).
    { destruct fuel; [reflexivity|]. cbn [C14refuse.continue_backlog_loop]. rewrite has_exchange_exs. unfold count_r. rewrite A, B. reflexivity. }
    rewrite Hl. cbn [fst snd]. rewrite app_nil_r. apply P_gone; assumption. Qed.

Lemma continue_backlog_P s : QOk r s -> P r s (snd (C14refuse.continue_backlog l r s)) (fst (C14refuse.continue_backlog l r s)).
Proof. intros HQ. unfold C14refuse.continue_backlog. destruct (aget r (backlogs s)) eqn:E; [apply loop_refused; exact HQ|].
  apply P_ext; [reflexivity|reflexivity|]. intros x [<-|[]]. exact I. Qed.

Lemma remove_exchange_P mid mt s : Inv s ->
  P r s (snd (C14refuse.remove_exchange l r mid mt s)) (fst (C14refuse.remove_exchange l r mid mt s)).
Proof. intros HI. unfold C14refuse.remove_exchange. destruct (xget r mid (active_exchanges s)) as [x|] eqn:Ex; [|apply P_refl].
  destruct (xget_some _ _ _ _ Ex) as (Hin & Hr & Hm).
  set (s1 := upd_ex s (xdel r mid (active_exchanges s))).
  assert (Hz1 : exs r s1 = []).
  { destruct (HI r) as (Hle & _). unfold s1. rewrite exs_upd_ex. apply (filter_xdel_same r mid _ x); [exact Hle|exact Hin|unfold key_eqb; lia]. }
  set (mon := if mt =? 3 then call_monitor (x_msg x) s1 else (s1, [])).
  assert (Hmon : active_exchanges (fst mon) = active_exchanges s1 /\ backlogs (fst mon) = backlogs s1 /\ wsil r (snd mon)).
  { unfold mon. destruct (mt =? 3); [|cbn; repeat split; apply wsil_nil].
    destruct (call_monitor_frame (x_msg x) s1) as (A & B & _). split; [exact A|]. split; [exact B|]. apply wsil_silent, call_monitor_silent. }
  destruct mon as [s2 o2]. cbn [fst snd] in Hmon. destruct Hmon as (He & Hb & Hw).
  assert (HQ : QOk r s2) by (unfold QOk, backlog_of; rewrite Hb; destruct (HI r) as (_ & _ & C); exact C).
  assert (Hz2 : exs r s2 = []) by (unfold exs; rewrite He; exact Hz1).
  pose proof (continue_backlog_P s2 HQ) as (D & W).
  destruct (C14refuse.continue_backlog l r s2) as [s3 o3]. cbn [fst snd] in *.
  apply P_gone; [|apply wsil_app; assumption].
  destruct D as [D|(D & _)]; [exact D|rewrite D; exact Hz2]. Qed.

Lemma send_message_P who mt code tok maxre s :
  P r s (snd (C14refuse.send_message l who r mt code tok maxre s)) (fst (C14refuse.send_message l who r mt code tok maxre s)).
Proof. unfold C14refuse.send_message, next_message_id. cbn [m_mtype].
  set (s0 := {| now := now s; seq := seq s; message_id := Z.land 65535 (1 + message_id s); token := token s; rand := rand s;
                active_exchanges := active_exchanges s; backlogs := backlogs s; outgoing_requests := outgoing_requests s; incoming_requests := incoming_requests s |}).
  set (m := {| m_sub := who; m_remote := r; m_mtype := resolve_mtype mt; m_code := code; m_mid := message_id s; m_tok := tok; m_maxre := maxre |}).
  destruct ((resolve_mtype mt =? 0) && in_backlogs r s0).
  - destruct (aget r (backlogs s0)) as [q|]; [|apply P_ext; [reflexivity|reflexivity|apply wsil_nil]].
    destruct (has_exchange r s0); cbn [fst snd]; (apply P_ext; [reflexivity|reflexivity|intros x [<-|[]]; exact I]).
  - destruct (send_initially_refused m s0 eq_refl) as (A & _ & C).
    destruct (C14refuse.send_initially l m s0) as [s1 o1]. cbn [fst snd] in *.
    apply P_gone; [exact A|apply wsil_cons; [exact I|exact C]]. Qed.

Lemma tm_request_P q mt maxre s :
  P r s (snd (C14refuse.tm_request l q r mt maxre s)) (fst (C14refuse.tm_request l q r mt maxre s)).
Proof. unfold C14refuse.tm_request, next_token. cbn -[C14refuse.send_message Z.pow Z.modulo].
  match goal with |- context [C14refuse.send_message l ?a ?b ?c ?d ?e ?f ?s1] => exact (send_message_P a c d e f s1) end. Qed.

Lemma send_empty_P mt mid s : P r s (snd (C14refuse.send_empty l r mt mid s)) (fst (C14refuse.send_empty l r mt mid s)).
Proof. unfold C14refuse.send_empty. destruct (send_via_refused (TxEmpty r mt mid) s) as (A & _ & C). apply P_gone; assumption. Qed.

Lemma dispatch_message_P mt code mid tok s : Inv s ->
  P r s (snd (C14refuse.dispatch_message l r mt code mid tok s)) (fst (C14refuse.dispatch_message l r mt code mid tok s)).
Proof. intros HI. unfold C14refuse.dispatch_message.
  set (first := if (mt =? 2) || (mt =? 3) then C14refuse.remove_exchange l r mid mt s else (s, [])).
  assert (P1 : P r s (snd first) (fst first)).
  { unfold first. destruct ((mt =? 2) || (mt =? 3)); [apply remove_exchange_P; exact HI|apply P_refl]. }
  destruct first as [s1 o1]. cbn [fst snd] in P1.
  destruct (crashed o1); [exact P1|].
  destruct (code =? 0).
  - destruct (mt =? 0); [|exact P1]. pose proof (send_empty_P 3 mid s1) as P2.
    destruct (C14refuse.send_empty l r 3 mid s1) as [s2 o2]. apply (P_trans r s o1 s1); assumption.
  - destruct (mt =? 3); [exact P1|].
    pose proof (tm_process_response_frame r tok s1) as (He & _).
    assert (Hd : left r (snd (fst (tm_process_response r tok s1))) = [] /\ wsil r (snd (fst (tm_process_response r tok s1)))).
    { unfold tm_process_response. destruct (find _ (outgoing_requests s1)); cbn [fst snd]; split;
        [reflexivity|intros x [<-|[]]; exact I|reflexivity|apply wsil_nil]. }
    destruct (tm_process_response r tok s1) as [[s2 o2] ok]. cbn [fst snd] in *. destruct Hd as (Hd1 & Hd2).
    assert (P2 : P r s (o1 ++ o2) s2) by (apply (P_trans r s o1 s1); [exact P1|apply P_ext; assumption]).
    destruct ok; destruct (mt =? 0); try exact P2.
    + pose proof (send_empty_P 2 mid s2) as P3. destruct (C14refuse.send_empty l r 2 mid s2) as [s3 o3].
      rewrite app_assoc. apply (P_trans r s (o1 ++ o2) s2); assumption.
    + pose proof (send_empty_P 3 mid s2) as P3. destruct (C14refuse.send_empty l r 3 mid s2) as [s3 o3].
      rewrite app_assoc. apply (P_trans r s (o1 ++ o2) s2); assumption. Qed.

Lemma retransmit_P x s : Inv s -> In x (active_exchanges s) -> m_remote (x_msg x) = r ->
  P r s (snd (C14refuse.retransmit l x s)) (fst (C14refuse.retransmit l x s)).
Proof. intros HI Hin Hr.
  assert (Hz : filter (to_remote r) (xdel r (m_mid (x_msg x)) (active_exchanges s)) = []).
  { destruct (HI r) as (Hle & _). apply (filter_xdel_same r _ _ x); [exact Hle|exact Hin|unfold key_eqb; lia]. }
  unfold C14refuse.retransmit. rewrite Hr.
  destruct (xget r (m_mid (x_msg x)) (active_exchanges s)); [|apply P_ext; [reflexivity|reflexivity|intros y [<-|[]]; exact I]].
  destruct (x_counter x <? m_maxre (x_msg x)).
  - unfold schedule_retransmit. cbn [fst snd upd_ex active_exchanges].
    match goal with |- context [send_via_transport l ?w r ?t] => destruct (send_via_refused w t) as (A & _ & C); destruct (send_via_transport l w r t) as [s2 o2] end.
    apply P_gone; assumption.
  - cbn [backlogs upd_ex]. destruct (aget r (backlogs s)) as [q|].
    + match goal with |- context [tm_dispatch_error ?e ?rr ?ss] =>
        pose proof (tm_dispatch_error_frame e rr ss) as (He & _); pose proof (tm_dispatch_error_wsil e rr ss r) as W;
        destruct (tm_dispatch_error e rr ss) as [s2 o2] end.
      cbn [fst snd active_exchanges upd_bl upd_ex] in *. apply P_gone; [unfold exs; rewrite He; exact Hz|apply wsil_app; [apply dropped_wsil|exact W]].
    + apply P_gone; [exact Hz|intros y [<-|[]]; exact I]. Qed.

Lemma fire_P s x : Inv s -> min_timer (active_exchanges s) = Some x -> m_remote (x_msg x) = r ->
  P r s (snd (C14refuse.fire l s)) (fst (C14refuse.fire l s)).
Proof. intros HI Hmin Hr. pose proof (min_timer_in _ _ Hmin) as Hin. unfold C14refuse.fire. rewrite Hmin.
  set (s0 := upd_now s (Z.max (now s) (x_due x))).
  assert (HI0 : Inv s0) by (apply (inv_ext s); [reflexivity|reflexivity|exact HI]).
  pose proof (retransmit_P x s0 HI0 Hin Hr) as P1.
  destruct (C14refuse.retransmit l x s0) as [s1 o1]. cbn [fst snd] in *.
  apply P_cons; [reflexivity|exact I|exact P1]. Qed.

Lemma respond_P j k last maxre s v : find (fun v => v_k v =? k) (incoming_requests s) = Some v -> v_remote v = r ->
  P r s (snd (respond (C14refuse.send_message l) j k last maxre s)) (fst (respond (C14refuse.send_message l) j k last maxre s)).
Proof. intros Hf Hr. unfold respond. rewrite Hf, Hr.
  pose proof (send_message_P (Resp j k) (if v_mtype v =? 1 then 7 else 8) 69 (v_tok v) maxre s) as P1.
  destruct (C14refuse.send_message l (Resp j k) r (if v_mtype v =? 1 then 7 else 8) 69 (v_tok v) maxre s) as [s1 o1]. cbn [fst snd] in P1.
  destruct last; [|exact P1]. destruct (alive k s1) eqn:Ea; [|exact P1].
  unfold stop_responder. rewrite Ea. cbn [fst snd]. apply (P_trans r s o1 s1); [exact P1|].
  apply P_ext; [reflexivity|reflexivity|intros x [<-|[]]; exact I]. Qed.

(* every event *)
Theorem step_P s e : Inv s -> P r s (snd (step_ev l s e)) (fst (step_ev l s e)).
Proof. intros HI. destruct (touches s e r) eqn:Ht.
  2:{ destruct (step_ev_frame l s e r HI Ht) as (A & _ & C). split; [right; split; [exact A|apply (silent_logs r _ C)]|apply wsil_silent; exact C]. }
  destruct e; cbn in Ht; cbn [step_ev]; try discriminate.
  - assert (r0 = r) by lia. subst r0. apply tm_request_P.
  - assert (r0 = r) by lia. subst r0. apply send_message_P.
  - assert (r0 = r) by lia. subst r0. apply dispatch_message_P; exact HI.
  - assert (r0 = r) by lia. subst r0. apply dispatch_message_P; exact HI.
  - assert (r0 = r) by lia. subst r0. cbn [C14.step]. apply P_gone; [apply dispatch_error_exs|apply dispatch_error_wsil].
  - destruct (min_timer (active_exchanges s)) as [x|] eqn:E; [|discriminate]. apply (fire_P s x HI E). lia.
  - cbn [C14.step]. unfold tm_process_request. cbn [fst snd]. apply P_ext; [reflexivity| |].
    + induction (filter _ (incoming_requests s)) as [|a t IH]; [reflexivity|exact IH].
    + intros x H. apply in_map_iff in H. destruct H as (? & <- & _). exact I.
  - destruct (find (fun v => v_k v =? k) (incoming_requests s)) as [v|] eqn:Ef; [|discriminate]. apply (respond_P j k last maxre s v Ef). lia. Qed.

(* the exported form: with the invariant and the queue balance of the general step theorem *)
Theorem refused_remote_step s e : Inv s ->
  let s' := fst (step_ev l s e) in let o := snd (step_ev l s e) in
  Inv s' /\ (forall x, ~ In (Crash x) o) /\ wsil r o /\ (Discarded l r s e \/ Kept l r s e).
Proof. intros HI. cbn zeta. destruct (general_step l s e HI) as (HI' & _ & C). destruct (step_P s e HI) as (D & W).
  split; [exact HI'|]. split; [exact C|]. split; [exact W|].
  destruct D as [D|(D1 & D2)]; [left; apply alt_gone; assumption|right; apply alt_kept; assumption]. Qed.
End Refused.

(* ---------------------------------------------------------------- WHICH alternative: decided by the event and the state before.
   [attempts s e r]: the step hands a datagram for r to the transport (first transmission of a NON or of a CON that is not held
   back, the empty ACK/RST answering a CON from r, a retransmission), or ends r's exchange (matching ACK/RST, transport error,
   final time-out). *)
Definition held (mt r : Z) (s : st) : bool := (resolve_mtype mt =? 0) && in_backlogs r s.
Definition attempts (s : st) (e : event) (r : Z) : bool :=
  match e with
  | Request _ r' mt _ | RawSend _ r' mt _ _ => (r' =? r) && negb (held mt r s)
  | RecvEmpty r' mt mid | RecvResp r' mt mid _ =>
      (r' =? r) && ((mt =? 0) || (((mt =? 2) || (mt =? 3)) && match xget r mid (active_exchanges s) with Some _ => true | None => false end))
  | TransportError r' => r' =? r
  | Fire => match min_timer (active_exchanges s) with Some x => m_remote (x_msg x) =? r | None => false end
  | Respond _ k _ _ => match find (fun v => v_k v =? k) (incoming_requests s) with
                       | Some v => (v_remote v =? r) && negb (held (if v_mtype v =? 1 then 7 else 8) r s)
                       | None => false end
  | Advance _ | Cancel _ | Serve _ _ _ _ => false
  end.
Lemma attempts_touches s e r : attempts s e r = true -> touches s e r = true.
Proof. destruct e; cbn; try discriminate; try (intros H; lia).
  - destruct (min_timer _); [auto|discriminate].
  - destruct (find _ _); [intros H; lia|discriminate]. Qed.

Section Which.
Variable l : list Z.
Variable r : Z.
Hypothesis Href : refuses l r = true.

Definition W (b : bool) (s : st) (res : st * list output) : Prop :=
  if b then exs r (fst res) = [] else exs r (fst res) = exs r s /\ left r (snd res) = [].

Lemma send_message_which who mt code tok maxre s :
  W (negb (held mt r s)) s (C14refuse.send_message l who r mt code tok maxre s).
Proof. unfold W, held, C14refuse.send_message, next_message_id. cbn [m_mtype].
  set (s0 := {| now := now s; seq := seq s; message_id := Z.land 65535 (1 + message_id s); token := token s; rand := rand s;
                active_exchanges := active_exchanges s; backlogs := backlogs s; outgoing_requests := outgoing_requests s; incoming_requests := incoming_requests s |}).
  set (m := {| m_sub := who; m_remote := r; m_mtype := resolve_mtype mt; m_code := code; m_mid := message_id s; m_tok := tok; m_maxre := maxre |}).
  change (in_backlogs r s) with (in_backlogs r s0).
  destruct ((resolve_mtype mt =? 0) && in_backlogs r s0); cbn [negb].
  - destruct (aget r (backlogs s0)) as [q|]; [|split; reflexivity].
    destruct (has_exchange r s0); cbn [fst snd]; split; reflexivity.
  - destruct (send_initially_refused l r Href m s0 eq_refl) as (A & _ & _).
    destruct (C14refuse.send_initially l m s0) as [s1 o1]. exact A. Qed.

Lemma tm_request_which q mt maxre s : W (negb (held mt r s)) s (C14refuse.tm_request l q r mt maxre s).
Proof. unfold C14refuse.tm_request, next_token. cbn -[C14refuse.send_message Z.pow Z.modulo W held].
  match goal with |- context [C14refuse.send_message l ?a ?b ?c ?d ?e ?f ?s1] => exact (send_message_which a c d e f s1) end. Qed.

Lemma remove_exchange_some mid mt s x : Inv s -> xget r mid (active_exchanges s) = Some x ->
  exs r (fst (C14refuse.remove_exchange l r mid mt s)) = [].
Proof. intros HI Ex. destruct (remove_exchange_P l r Href mid mt s HI) as ([D|(D & _)] & _); [exact D|].
  (* kept is impossible: the exchange has been removed; so go through the function once more *)
  clear D. unfold C14refuse.remove_exchange. rewrite Ex.
  destruct (xget_some _ _ _ _ Ex) as (Hin & Hr & Hm).
  set (s1 := upd_ex s (xdel r mid (active_exchanges s))).
  assert (Hz1 : exs r s1 = []).
  { destruct (HI r) as (Hle & _). unfold s1. rewrite exs_upd_ex. apply (filter_xdel_same r mid _ x); [exact Hle|exact Hin|unfold key_eqb; lia]. }
  set (mon := if mt =? 3 then call_monitor (x_msg x) s1 else (s1, [])).
  assert (Hmon : active_exchanges (fst mon) = active_exchanges s1 /\ backlogs (fst mon) = backlogs s1).
  { unfold mon. destruct (mt =? 3); [|cbn; split; reflexivity]. destruct (call_monitor_frame (x_msg x) s1) as (A & B & _). split; assumption. }
  destruct mon as [s2 o2]. cbn [fst snd] in Hmon. destruct Hmon as (He & Hb).
  assert (HQ : QOk r s2) by (unfold QOk, backlog_of; rewrite Hb; destruct (HI r) as (_ & _ & C); exact C).
  assert (Hz2 : exs r s2 = []) by (unfold exs; rewrite He; exact Hz1).
  pose proof (continue_backlog_P l r Href s2 HQ) as (D & _).
  destruct (C14refuse.continue_backlog l r s2) as [s3 o3]. cbn [fst snd] in *.
  destruct D as [D|(D & _)]; [exact D|rewrite D; exact Hz2]. Qed.

Lemma dispatch_message_which mt code mid tok s : Inv s ->
  W ((mt =? 0) || (((mt =? 2) || (mt =? 3)) && match xget r mid (active_exchanges s) with Some _ => true | None => false end)) s
    (C14refuse.dispatch_message l r mt code mid tok s).
Proof. intros HI. unfold W, C14refuse.dispatch_message.
  set (first := if (mt =? 2) || (mt =? 3) then C14refuse.remove_exchange l r mid mt s else (s, [])).
  assert (SE : forall mt' s2, exs r (fst (C14refuse.send_empty l r mt' mid s2)) = []).
  { intros mt' s2. unfold C14refuse.send_empty. apply (send_via_refused l r Href). }
  destruct (mt =? 0) eqn:E0; cbn [orb].
  - assert (Hf : first = (s, [])) by (unfold first; replace ((mt =? 2) || (mt =? 3)) with false by lia; reflexivity).
    rewrite Hf. cbn [crashed existsb]. destruct (code =? 0).
    + pose proof (SE 3 s) as A. destruct (C14refuse.send_empty l r 3 mid s). exact A.
    + replace (mt =? 3) with false by lia. destruct (tm_process_response r tok s) as [[s2 o2] ok]. destruct ok.
      * pose proof (SE 2 s2) as A. destruct (C14refuse.send_empty l r 2 mid s2). exact A.
      * pose proof (SE 3 s2) as A. destruct (C14refuse.send_empty l r 3 mid s2). exact A.
  - destruct (((mt =? 2) || (mt =? 3)) && match xget r mid (active_exchanges s) with Some _ => true | None => false end) eqn:Ec.
    + apply andb_prop in Ec. destruct Ec as [E23 Ex]. destruct (xget r mid (active_exchanges s)) as [x|] eqn:Ex'; [|discriminate].
      assert (G : exs r (fst first) = []) by (unfold first; rewrite E23; apply (remove_exchange_some mid mt s x HI Ex')).
      destruct first as [s1 o1]. cbn [fst] in G. destruct (crashed o1); [exact G|]. destruct (code =? 0); [exact G|].
      destruct (mt =? 3); [exact G|]. pose proof (tm_process_response_frame r tok s1) as (He & _).
      destruct (tm_process_response r tok s1) as [[s2 o2] ok]. cbn [fst snd] in *. destruct ok; cbn [fst]; unfold exs; rewrite He; exact G.
    + assert (Hf : first = (s, [])).
      { unfold first. destruct ((mt =? 2) || (mt =? 3)); [|reflexivity]. cbn [andb] in Ec. unfold C14refuse.remove_exchange.
        destruct (xget r mid (active_exchanges s)); [discriminate|reflexivity]. }
      rewrite Hf. cbn [crashed existsb]. destruct (code =? 0); [split; reflexivity|]. destruct (mt =? 3); [split; reflexivity|].
      unfold tm_process_response. destruct (find _ (outgoing_requests s)); cbn [fst snd app]; split; reflexivity. Qed.

Lemma fire_gone s x : Inv s -> min_timer (active_exchanges s) = Some x -> m_remote (x_msg x) = r -> exs r (fst (C14refuse.fire l s)) = [].
Proof. intros HI Hmin Hr. pose proof (min_timer_in _ _ Hmin) as Hin. unfold C14refuse.fire. rewrite Hmin.
  set (s0 := upd_now s (Z.max (now s) (x_due x))).
  assert (Hz : filter (to_remote r) (xdel r (m_mid (x_msg x)) (active_exchanges s0)) = []).
  { destruct (HI r) as (Hle & _). apply (filter_xdel_same r _ _ x); [exact Hle|exact Hin|unfold key_eqb; lia]. }
  assert (G : exs r (fst (C14refuse.retransmit l x s0)) = []).
  { unfold C14refuse.retransmit. rewrite (xget_own s0 x); [|destruct (HI (m_remote (x_msg x))) as (A & _); exact A|exact Hin]. rewrite Hr.
    destruct (x_counter x <? m_maxre (x_msg x)).
    - unfold schedule_retransmit. cbn [fst snd upd_ex active_exchanges].
      match goal with |- context [send_via_transport l ?w r ?t] => destruct (send_via_refused l r Href w t) as (A & _ & _) end. exact A.
    - cbn [backlogs upd_ex]. destruct (aget r (backlogs s0)) as [q|]; [|exact Hz].
      match goal with |- context [tm_dispatch_error ?e ?rr ?ss] =>
        pose proof (tm_dispatch_error_frame e rr ss) as (He & _); destruct (tm_dispatch_error e rr ss) as [s2 o2] end.
      cbn [fst snd active_exchanges upd_bl upd_ex] in *. unfold exs. rewrite He. exact Hz. }
  destruct (C14refuse.retransmit l x s0) as [s1 o1]. exact G. Qed.

Lemma respond_which j k last maxre s v : find (fun v => v_k v =? k) (incoming_requests s) = Some v -> v_remote v = r ->
  W (negb (held (if v_mtype v =? 1 then 7 else 8) r s)) s (respond (C14refuse.send_message l) j k last maxre s).
Proof. intros Hf Hr. unfold respond. rewrite Hf, Hr.
  pose proof (send_message_which (Resp j k) (if v_mtype v =? 1 then 7 else 8) 69 (v_tok v) maxre s) as P1. unfold W in *.
  destruct (C14refuse.send_message l (Resp j k) r (if v_mtype v =? 1 then 7 else 8) 69 (v_tok v) maxre s) as [s1 o1]. cbn [fst snd] in P1.
  destruct last; [|exact P1]. destruct (alive k s1) eqn:Ea; [|exact P1].
  unfold stop_responder. rewrite Ea. cbn [fst snd]. destruct (negb _); [exact P1|].
  destruct P1 as (A & B). split; [exact A|]. rewrite left_app, B. reflexivity. Qed.

Theorem step_which s e : Inv s -> W (attempts s e r) s (step_ev l s e).
Proof. intros HI. destruct (touches s e r) eqn:Ht.
  2:{ destruct (attempts s e r) eqn:Ea; [rewrite (attempts_touches s e r Ea) in Ht; discriminate|].
      destruct (step_ev_frame l s e r HI Ht) as (A & _ & C). split; [exact A|apply (silent_logs r _ C)]. }
  destruct e; cbn in Ht; cbn [step_ev attempts]; try discriminate.
  - assert (r0 = r) by lia. subst r0. rewrite Z.eqb_refl. cbn [andb]. apply tm_request_which.
  - assert (r0 = r) by lia. subst r0. rewrite Z.eqb_refl. cbn [andb]. apply send_message_which.
  - assert (r0 = r) by lia. subst r0. rewrite Z.eqb_refl. cbn [andb]. apply dispatch_message_which; exact HI.
  - assert (r0 = r) by lia. subst r0. rewrite Z.eqb_refl. cbn [andb]. apply dispatch_message_which; exact HI.
  - assert (r0 = r) by lia. subst r0. rewrite Z.eqb_refl. cbn [C14.step]. apply dispatch_error_exs.
  - destruct (min_timer (active_exchanges s)) as [x|] eqn:E; [|discriminate]. rewrite Ht. apply (fire_gone s x HI E). lia.
  - cbn [C14.step]. unfold tm_process_request. split; [reflexivity|]. cbn [fst snd].
    induction (filter _ (incoming_requests s)) as [|a t IH]; [reflexivity|exact IH].
  - destruct (find (fun v => v_k v =? k) (incoming_requests s)) as [v|] eqn:Ef; [|discriminate]. rewrite Ht. cbn [andb].
    apply (respond_which j k last maxre s v Ef). lia. Qed.

(* exported: the alternative is decided by [attempts] *)
Theorem refused_remote_step_which s e : Inv s ->
  if attempts s e r then Discarded l r s e else Kept l r s e.
Proof. intros HI. pose proof (step_which s e HI) as H. unfold W in H. destruct (attempts s e r).
  - apply alt_gone; assumption.
  - destruct H as (A & B). apply alt_kept; assumption. Qed.
End Which.

(* ---------------------------------------------------------------- consequences *)
(* every step that makes progress at r in the sense of the liveness theorems (ACK/RST of the open exchange, failure, timer of
   the exchange firing) is an attempt: with r refused, ONE such step empties the queue — the liveness bound is 1 *)
Lemma progress_attempts s e r : progress s e r = true -> attempts s e r = true.
Proof. unfold progress. destruct e; cbn; try discriminate; try (destruct (xget _ _ _)); try (destruct (min_timer _)); intros H; try lia; try discriminate. Qed.

Theorem refused_progress_discards l r s e : refuses l r = true -> Inv s -> progress s e r = true ->
  Discarded l r s e /\ forall m, In m (backlog_of r s) -> In m (left r (snd (step_ev l s e))).
Proof. intros Href HI Hp. pose proof (refused_remote_step_which l r Href s e HI) as H. rewrite (progress_attempts s e r Hp) in H.
  split; [exact H|]. destruct H as (_ & _ & H). cbn zeta in H. intros m Hm. rewrite H. apply in_or_app. left. exact Hm. Qed.

(* from any reachable state of the general model (any history of events and refusals) *)
Theorem refused_remote_reachable a b c es r e :
  let s := fst (fst (rrun (init a b c, []) es)) in let l := snd (fst (rrun (init a b c, []) es)) in
  refuses l r = true ->
  let s' := fst (step_ev l s e) in let o := snd (step_ev l s e) in
  Inv s' /\ (forall x, ~ In (Crash x) o) /\ wsil r o /\ (if attempts s e r then Discarded l r s e else Kept l r s e) /\
  (progress s e r = true -> forall m, In m (backlog_of r s) -> In m (left r o)).
Proof. cbn zeta. intros Href. pose proof (general_inv a b c es) as HI.
  destruct (refused_remote_step _ r Href _ e HI) as (A & B & C & _).
  split; [exact A|]. split; [exact B|]. split; [exact C|]. split; [apply refused_remote_step_which; assumption|].
  intros Hp. apply (refused_progress_discards _ r _ e Href HI Hp). Qed.

(* non-vacuity: remote 0 busy with one message queued, then refused.  A further confirmable request is appended (second
   alternative, queue non-empty); the retransmission timer discards the queue (first alternative, queue non-empty). *)
Definition s_busy : st := fst (fst (rrun (init 10 100 [], []) [Ev (Request 1 0 0 4); Ev (Request 2 0 0 4)])).
Lemma s_busy_inv : Inv s_busy. Proof. apply general_inv. Qed.
Example refused_remote_step_nontrivial :
  refuses [0] 0 = true /\ map m_sub (backlog_of 0 s_busy) = [Req 2] /\
  (* retransmission timer: attempt, queue discarded *)
  attempts s_busy Fire 0 = true /\ progress s_busy Fire 0 = true /\
  left 0 (snd (step_ev [0] s_busy Fire)) = backlog_of 0 s_busy /\ aget 0 (backlogs (fst (step_ev [0] s_busy Fire))) = None /\
  exs 0 (fst (step_ev [0] s_busy Fire)) = [] /\
  (* a further CON: no attempt, appended *)
  attempts s_busy (Request 3 0 0 4) 0 = false /\
  map m_sub (backlog_of 0 (fst (step_ev [0] s_busy (Request 3 0 0 4)))) = [Req 2; Req 3] /\
  exs 0 (fst (step_ev [0] s_busy (Request 3 0 0 4))) = exs 0 s_busy /\
  (* a NON: attempt, queue (and the NON) discarded *)
  attempts s_busy (Request 4 0 1 4) 0 = true /\
  map m_sub (left 0 (snd (step_ev [0] s_busy (Request 4 0 1 4)))) = [Req 2] /\
  aget 0 (backlogs (fst (step_ev [0] s_busy (Request 4 0 1 4)))) = None /\
  (* a CON response from r that needs an (empty) reply: attempt, discarded; a NON response: kept *)
  attempts s_busy (RecvResp 0 0 777 5) 0 = true /\ map m_sub (left 0 (snd (step_ev [0] s_busy (RecvResp 0 0 777 5)))) = [Req 2] /\
  attempts s_busy (RecvResp 0 1 777 5) 0 = false /\ map m_sub (backlog_of 0 (fst (step_ev [0] s_busy (RecvResp 0 1 777 5)))) = [Req 2] /\
  (* an event about another remote: kept *)
  attempts s_busy (Request 5 1 0 4) 0 = false /\ map m_sub (backlog_of 0 (fst (step_ev [0] s_busy (Request 5 1 0 4)))) = [Req 2].
Proof. vm_compute. repeat split. Qed.
