(* C02 — proofs. Part 6 (clause audit, round 5): positive delivery, Reset => MessageError, the unconditional form of
   "delivered only to the matching entry", the run-level composition. *)
From Verif Require Import Lib.Py Lib.PyLemmas Lib.Tactics Gen.tokenmanager_next_token Model.C02 Proofs.C02 Proofs.C02Once Proofs.C02Origin Proofs.C02Inv.
Open Scope Z_scope.

(* ------------------------------------------------------------------ a matching response to a pending request IS delivered *)
Lemma add_response_awaiting : forall s q w from l c rest, get_req s q = Some c -> cq_cbs c = Some (CbProcess :: rest) ->
  cq_runner c = AwaitFirst -> cq_fut c = FPending -> In (SetResult q (w_rid w) (w_token w) from) (snd (add_response s q w from l)).
Proof.
  intros s q w from l [rm ob cbs fu ru oc] rest G Hc Hr Hf. cbn in Hc, Hr, Hf. subst.
  unfold add_response, _add_event. rewrite G. unfold pipe_add_event. cbn [cq_cbs].
  cbn [_add_event_loop call_cb]. unfold process, _run. cbn [cq_runner cq_fut cq_observe pev_is_last negb].
  destruct ob, l; cbn; try destruct (w_observe w); cbn.
  all: repeat (cbn; match goal with
    | |- context [_stop_interest ?c] => destruct (_stop_interest c) as [c9 k9]
    | |- context [_add_event_loop ?q0 ?c ?rs ?ev] => destruct (_add_event_loop q0 c rs ev) as [[[c2 o2] k2] e2]
    | |- context [_end ?c] => destruct (_end c)
    | |- context [match cq_cbs ?c with _ => _ end] => destruct (cq_cbs c)
    | |- context [if ?b then _ else _] => destruct b
    end).
  all: cbn; try (left; reflexivity).
Qed.

Lemma process_response_delivers : forall s r w og q c, Inv s -> outgoing s = Some og -> matching og (w_token w) r = Some q ->
  get_req s q = Some c -> cq_fut c = FPending ->
  fst (fst (process_response s r w)) = true /\ In (SetResult q (w_rid w) (w_token w) r) (snd (process_response s r w)).
Proof.
  intros s r w og q c HI Hog M G Hf. rewrite (process_response_spec s r w og Hog), M. cbn [fst snd]. split; [reflexivity|].
  assert (E : exists k, In (k, q) og).
  { unfold matching in M. destruct (alookup key_eqb (w_token w, Some r) og) eqn:L1.
    - inversion M. subst. eexists. eapply alookup_In; [exact key_eqb_spec|exact L1].
    - eexists. eapply alookup_In; [exact key_eqb_spec|exact M]. }
  destruct E as [k Hin]. unfold Inv in HI. rewrite Hog in HI. destruct (HI k q Hin) as (c0 & G0 & Hc & _ & Hl).
  rewrite G in G0. inversion G0. subst c0. destruct Hl as [[Hr _]|(_ & _ & rid & Hx)]; [|congruence].
  eapply add_response_awaiting; [|exact Hc|exact Hr|exact Hf].
  unfold pr_state. destruct (pr_final s q w); exact G.
Qed.

(* ... for a separate (CON / NON) response in every state satisfying the invariant, whatever the transport does with the ACK *)
Lemma matching_delivered_lemma : forall s r mcl w og q c, Inv s -> outgoing s = Some og ->
  is_response (w_code w) = true -> (w_mtype w = CON \/ w_mtype w = NON) ->
  matching og (w_token w) r = Some q -> get_req s q = Some c -> cq_fut c = FPending ->
  In (SetResult q (w_rid w) (w_token w) r) (snd (dispatch_message s r mcl w)).
Proof.
  intros s r mcl w og q c HI Hog Hresp Ht M G Hf.
  destruct (process_response_delivers s r w og q c HI Hog M G Hf) as [P1 P2].
  destruct Ht as [Ht|Ht]; dm_head Ht Hresp; destruct (process_response s r w) as [[b s2] o2]; cbn [fst snd] in *; subst b.
  - destruct (_send_initially s2 r _ None) as [s3 o3]. cbn [snd app]. apply in_or_app. left. exact P2.
  - cbn [snd app]. exact P2.
Qed.
(* ... and for a piggy-backed one while the transport accepts datagrams for r and the ACK's own message-layer processing does
   not raise (it never does in a reachable state: C02_no_crash_no_escape) *)
Lemma matching_delivered_ack_lemma : forall s r mcl w og q c, Inv s -> outgoing s = Some og -> refuses s r = false ->
  is_response (w_code w) = true -> w_mtype w = ACK -> snd (_remove_exchange s r w) = false ->
  matching og (w_token w) r = Some q -> get_req s q = Some c -> cq_fut c = FPending ->
  In (SetResult q (w_rid w) (w_token w) r) (snd (dispatch_message s r mcl w)).
Proof.
  intros s r mcl w og q c HI Hog Href Hresp Ht Hx M G Hf. dm_head Ht Hresp.
  destruct (_remove_exchange s r w) as [[s1 o1] x1] eqn:RE. cbn [snd] in Hx. subst x1.
  pose proof (remove_exchange_inv _ _ _ _ _ _ HI RE) as I1.
  apply remove_exchange_ack in RE; [|exact Href|rewrite Ht; discriminate]. destruct RE as (E1 & E2 & _).
  assert (Hog1 : outgoing s1 = Some og) by (rewrite E1; exact Hog).
  assert (G1 : get_req s1 q = Some c) by (unfold get_req; rewrite E2; exact G).
  destruct (process_response_delivers s1 r w og q c I1 Hog1 M G1 Hf) as [P1 P2].
  destruct (process_response s1 r w) as [[b s2] o2]; cbn [fst snd] in *; subst b.
  apply in_or_app. right. exact P2.
Qed.

(* ------------------------------------------------------------------ a Reset for the exchange of a pending CON request fails it *)
Lemma reset_fails_lemma : forall s r mcl w ex e c rest, exchanges s = Some ex -> alookup rm_eqb (r, w_mid w) ex = Some e ->
  w_mtype w = RST -> is_request (w_code w) = false -> get_req s (ex_monitor e) = Some c ->
  cq_cbs c = Some (CbProcess :: rest) -> cq_runner c = AwaitFirst -> cq_fut c = FPending ->
  In (SetException (ex_monitor e) MessageError) (snd (dispatch_message s r mcl w)).
Proof.
  intros s r mcl w ex e c rest Hex L Ht Hreq G Hc Hr Hf. unfold dispatch_message. rewrite Hreq, Ht.
  cbn [CON ACK RST NON Z.eqb Pos.eqb orb andb]. unfold _remove_exchange. rewrite Hex, L, Ht. cbn [RST Z.eqb Pos.eqb].
  set (s1 := set_exchanges s _).
  pose proof (add_exception_awaiting s1 (ex_monitor e) MessageError c rest G Hc Hr Hf) as HA.
  destruct (add_exception s1 (ex_monitor e) MessageError) as [s2 o2]. cbn [snd] in HA.
  destruct (_continue_backlog s2 r) as [[s3 o3] x3].
  assert (Hin : In (SetException (ex_monitor e) MessageError) (o2 ++ o3)) by (apply in_or_app; left; exact HA).
  destruct x3; [exact Hin|].
  repeat match goal with
  | |- context [if ?b then _ else _] => destruct b
  | |- context [_send_initially ?a ?b ?c ?d] => destruct (_send_initially a b c d)
  | |- context [process_response ?a ?b ?c] => destruct (process_response a b c) as [[? ?] ?]
  end; cbn [snd]; try exact Hin; apply in_or_app; left; exact Hin.
Qed.

(* ------------------------------------------------------------------ delivered only to the matching entry: unconditional form *)
Definition dm_pre (s : st) (r : remote) (w : wire) : st * list output * bool :=
  if (w_mtype w =? ACK) || (w_mtype w =? RST) then _remove_exchange s r w else (s, [], false).
Lemma deliver_core : forall s r mcl w s' outs o,
  dispatch_message s r mcl w = (s', outs) -> In o outs -> is_delivery o = true ->
  exists og1 q, outgoing (fst (fst (dm_pre s r w))) = Some og1 /\ matching og1 (w_token w) r = Some q /\
    (o = SetResult q (w_rid w) (w_token w) r \/ o = Notify q (w_rid w) (w_token w) r) /\
    is_response (w_code w) = true /\ w_mtype w <> RST.
Proof.
  intros s r mcl w s' outs o H Hin Hd. unfold dispatch_message in H. unfold dm_pre.
  destruct (is_request (w_code w)).
  { invpairs. destruct Hin as [<-|[]]. discriminate. }
  destruct (if (w_mtype w =? ACK) || (w_mtype w =? RST) then _ else _) as [[s1 o1] x1] eqn:RE.
  assert (ND1 : no_deliv o1).
  { destruct ((w_mtype w =? ACK) || (w_mtype w =? RST)); [eapply remove_exchange_no_delivery; eauto|invpairs; constructor]. }
  assert (notin : forall l, no_deliv l -> ~ In o l).
  { intros l Hl Hi. unfold no_deliv in Hl. rewrite Forall_forall in Hl. apply Hl in Hi. congruence. }
  assert (SI : forall s r w s' o, _send_initially s r w None = (s', o) -> no_deliv o).
  { intros *. apply send_initially_no_delivery. }
  destruct x1. { invpairs. nd. }
  destruct ((w_code w =? EMPTY) && (w_mtype w =? CON)).
  { destruct (_send_initially s1 r _ None) as [s2 o2] eqn:S. apply SI in S.
    invpairs. apply in_app_or in Hin. destruct Hin as [Hi|Hi]; nd. }
  destruct ((w_code w =? EMPTY) && ((w_mtype w =? ACK) || (w_mtype w =? RST))).
  { invpairs. nd. }
  destruct (is_response (w_code w) && ((w_mtype w =? CON) || (w_mtype w =? NON) || (w_mtype w =? ACK))) eqn:Cond.
  2: { invpairs. nd. }
  apply andb_prop in Cond. destruct Cond as [Cresp Ctype].
  assert (Hrst : w_mtype w <> RST). { unfold CON, NON, ACK, RST in *. lia. }
  cbn [fst].
  destruct (outgoing s1) as [og|] eqn:Hog1.
  2: { unfold process_response in H. rewrite Hog1 in H.
       destruct (_send_initially s1 r _ None) as [s3 o3] eqn:S. apply SI in S.
       destruct ((w_mtype w =? CON) && negb mcl); invpairs;
         repeat (apply in_app_or in Hin; destruct Hin as [Hin|Hin]); try (nd);
         repeat (destruct Hin as [<-|Hin]; try discriminate); try contradiction; try nd. }
  pose proof (process_response_spec s1 r w og Hog1) as PS.
  destruct (matching og (w_token w) r) as [q|] eqn:M.
  - rewrite PS in H.
    destruct (add_response (pr_state s1 og q r w) q w r (pr_final s1 q w)) as [s2 o2] eqn:A. cbn [fst snd] in H.
    apply add_event_out_ok in A.
    assert (Hin2 : In o o2).
    { destruct (w_mtype w =? CON).
      - destruct (_send_initially s2 r _ None) as [s3 o3] eqn:S. apply SI in S.
        invpairs. apply in_app_or in Hin. destruct Hin as [Hi|Hi]; [nd|].
        apply in_app_or in Hi. destruct Hi as [Hi|Hi]; [exact Hi|nd].
      - invpairs. apply in_app_or in Hin. destruct Hin as [Hi|Hi]; [nd|exact Hi]. }
    rewrite Forall_forall in A. apply A in Hin2.
    exists og, q. split; [reflexivity|]. split; [exact M|]. split; [|split; [exact Cresp|exact Hrst]].
    destruct o; cbn in Hd; try discriminate; cbn in Hin2.
    + destruct Hin2 as [-> (w0 & l & E & -> & ->)]. inversion E. subst. left. reflexivity.
    + destruct Hin2 as [-> (w0 & l & E & -> & ->)]. inversion E. subst. right. reflexivity.
  - rewrite PS in H.
    destruct (_send_initially s1 r _ None) as [s3 o3] eqn:S. apply SI in S.
    destruct ((w_mtype w =? CON) && negb mcl); invpairs;
      repeat (apply in_app_or in Hin; destruct Hin as [Hin|Hin]); try (nd);
      repeat (destruct Hin as [<-|Hin]; try discriminate); try contradiction; try nd.
Qed.
Lemma dm_pre_shrinks : forall s r w, shrinks s (fst (fst (dm_pre s r w))).
Proof.
  intros. unfold dm_pre. destruct ((w_mtype w =? ACK) || (w_mtype w =? RST)); [|apply shrinks_refl].
  destruct (_remove_exchange s r w) as [[s1 o1] x1] eqn:RE. cbn [fst]. eapply remove_exchange_shrinks; eauto.
Qed.
(* whatever the message layer did before the table was consulted (it only removes entries), the request a datagram is
   delivered to had an entry in the table as it was BEFORE the datagram, under its token and either its source endpoint or None *)
Lemma deliver_only_matching_gen_lemma : forall s r mcl w s' outs o og, outgoing s = Some og ->
  dispatch_message s r mcl w = (s', outs) -> In o outs -> is_delivery o = true ->
  exists q k, alookup key_eqb k og = Some q /\ fst k = w_token w /\ (snd k = Some r \/ snd k = None) /\
    (o = SetResult q (w_rid w) (w_token w) r \/ o = Notify q (w_rid w) (w_token w) r) /\
    is_response (w_code w) = true /\ w_mtype w <> RST.
Proof.
  intros s r mcl w s' outs o og Hog H Hin Hd.
  destruct (deliver_core s r mcl w s' outs o H Hin Hd) as (og1 & q & Hog1 & M & Ho & Hr & Ht).
  pose proof (dm_pre_shrinks s r w) as SH. unfold shrinks in SH. rewrite Hog, Hog1 in SH.
  unfold matching in M. destruct (alookup key_eqb (w_token w, Some r) og1) as [q1|] eqn:L1.
  - inversion M. subst q1. exists q, (w_token w, Some r). destruct (SH (w_token w, Some r)) as [E|E]; [|congruence].
    rewrite <- E. repeat split; auto.
  - exists q, (w_token w, None). destruct (SH (w_token w, None)) as [E|E]; [|congruence].
    rewrite <- E. repeat split; auto.
Qed.

(* ------------------------------------------------------------------ the delivery clause composed over reachable states *)
(* whenever a step hands a response to the application (result or notification), the step is the arrival of that very datagram,
   and the request had -- before the datagram -- a table entry under the datagram's token and its source endpoint (or None, for a
   request sent to a multicast address), was outstanding, and had been sent to that endpoint *)
Lemma run_delivery_lemma : forall s e s' o x q rid tok from, Inv s -> event_wf e -> step s e = (s', o) -> In x o ->
  (x = SetResult q rid tok from \/ x = Notify q rid tok from) ->
  exists mcl w og k c, e = Recv from mcl w /\ rid = w_rid w /\ tok = w_token w /\ outgoing s = Some og /\
    alookup key_eqb k og = Some q /\ fst k = tok /\ (snd k = Some from \/ snd k = None) /\
    get_req s q = Some c /\ live c /\ (cq_remote c = from \/ is_multicast (cq_remote c) = true).
Proof.
  intros s e s' o x q rid tok from HI Hwf H Hin Hx.
  pose proof (completion_kinds_lemma s e s' o x H Hwf Hin) as CK.
  assert (E : exists mcl w, e = Recv from mcl w /\ rid = w_rid w /\ tok = w_token w) by (destruct Hx; subst x; exact CK).
  destruct E as (mcl & w & -> & -> & ->). cbn [step] in H.
  destruct (outgoing s) as [og|] eqn:Hog; [|invpairs; contradiction].
  assert (Hd : is_delivery x = true) by (destruct Hx; subst x; reflexivity).
  destruct (deliver_only_matching_gen_lemma s from mcl w s' o x og Hog H Hin Hd) as (q' & k & L & Hk & Hs & Ho & _ & _).
  assert (q' = q) by (destruct Hx, Ho; subst x; congruence). subst q'.
  pose proof (alookup_In key_eqb key_eqb_spec _ _ _ L) as HinT.
  unfold Inv in HI. rewrite Hog in HI. destruct (HI k q HinT) as (c & G & _ & Hr & Hl).
  exists mcl, w, og, k, c. repeat split; auto.
  destruct (is_multicast (cq_remote c)); [right; reflexivity|left]. destruct Hs as [Hs|Hs]; rewrite Hs in Hr; congruence.
Qed.
