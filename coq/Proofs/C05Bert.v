(* C05 tier B — size exponent 7 / BERT (RFC 8323 section 6) for remotes on reliable transports:
   maximum_block_size_exp = 7, a message carries 1024 * (maximum_payload_size / 1024) bytes, NUM counts 1024-byte blocks. *)
From Verif Require Import Lib.Py Lib.PyLemmas Lib.Tactics Gen.block_kernels Model.C05 Model.C05Server Model.C05Retry Proofs.C05.
Open Scope Z_scope.

Definition bert_size (mps : Z) : Z := 1024 * (mps / 1024).

Lemma bert_size_pos mps : 1024 <= mps -> 1024 <= bert_size mps /\ bert_size mps / 1024 * 1024 = bert_size mps.
Proof. intros H. unfold bert_size. split; [lia|]. replace (1024 * (mps / 1024)) with (mps / 1024 * 1024) by lia. rewrite Z.div_mul by lia. reflexivity. Qed.

Lemma extract_block_bert_spec body n mbs :
  extract_block body n 7 mbs =
    if n * 1024 >=? blen body then Raise BadRequest
    else Ok (bslice body (n * 1024) (Z.min (n * 1024 + bert_size mbs) (blen body)),
             (n, n * 1024 + bert_size mbs <? blen body, 7)).
Proof.
  unfold extract_block. cbn [Z.eqb Pos.eqb bind]. fold (bert_size mbs).
  destruct (n * 1024 >=? blen body) eqn:E; [reflexivity|].
  destruct (n * 1024 + bert_size mbs <? blen body) eqn:E2.
  - replace (Z.min (n * 1024 + bert_size mbs) (blen body)) with (n * 1024 + bert_size mbs) by lia. rewrite E2. reflexivity.
  - replace (Z.min (n * 1024 + bert_size mbs) (blen body)) with (blen body) by lia. rewrite Z.ltb_irrefl. reflexivity.
Qed.

(* Theorem 1 for size exponent 7 *)
Lemma extract_blocks_partition_bert_lemma body mbs n : 1024 <= mbs -> 0 <= n ->
  (blen body <= n * 1024 -> extract_block body n 7 mbs = Raise BadRequest) /\
  (n * 1024 < blen body -> exists pl more,
      extract_block body n 7 mbs = Ok (pl, (n, more, 7)) /\
      bto body (n * 1024) ++ pl = bto body (n * 1024 + blen pl) /\
      (more = true -> blen pl = bert_size mbs /\ n * 1024 + bert_size mbs < blen body) /\
      (more = false -> 0 < blen pl <= bert_size mbs /\ n * 1024 + blen pl = blen body)).
Proof.
  intros H Hn. destruct (bert_size_pos mbs H) as [Hs _]. rewrite extract_block_bert_spec. split.
  - intros Hle. replace (n * 1024 >=? blen body) with true by lia. reflexivity.
  - intros Hlt. replace (n * 1024 >=? blen body) with false by lia.
    eexists _, _. split; [reflexivity|].
    destruct (n * 1024 + bert_size mbs <? blen body) eqn:E2.
    + replace (Z.min (n * 1024 + bert_size mbs) (blen body)) with (n * 1024 + bert_size mbs) by lia.
      rewrite blen_bslice by lia. split; [|split]; try (intros; lia).
      rewrite bto_bslice by lia. f_equal. lia.
    + replace (Z.min (n * 1024 + bert_size mbs) (blen body)) with (blen body) by lia.
      rewrite blen_bslice by lia. split; [|split]; try (intros; lia).
      rewrite bto_bslice by lia. f_equal. lia.
Qed.

(* Theorem 2 for size exponent 7: the BERT requests on the wire against any server that keeps the exponent at 7 *)
Fixpoint bert_chain (body : list Z) (B offset : Z) (tr : list request) : Prop :=
  match tr with
  | [] => True
  | rq :: rest =>
    match rq_block1 rq with
    | None => no_block1 tr
    | Some (n, m, szx) =>
      szx = 7 /\ n * 1024 = offset /\
      bto body offset ++ rq_payload rq = bto body (offset + blen (rq_payload rq)) /\
      (m = true -> blen (rq_payload rq) = B /\ offset + B < blen body) /\
      (m = false -> 0 < blen (rq_payload rq) <= B /\ offset + blen (rq_payload rq) = blen body) /\
      rq_size1 rq = (if offset =? 0 then Some (blen body) else None) /\
      (if m then bert_chain body B (offset + B) rest else no_block1 rest)
    end
  end.

Lemma no_block1_bert_chain body B offset tr : no_block1 tr -> bert_chain body B offset tr.
Proof. intros H. destruct tr as [|rq rest]; [exact I|]. cbn [bert_chain]. inversion H as [|? ? H1 H2]; subst. rewrite H1. exact H. Qed.

Section BertAnyServer.
  Context {S : Type}.
  Variable serve : S -> request -> S * sresult.
  (* acknowledgements of BERT blocks keep exponent 7 (what other requests are answered with does not matter) *)
  Hypothesis serve_keeps7 : forall s rq s' r b n m, rq_block1 rq = Some (n, m, 7) -> serve s rq = (s', SResp r) -> rs_block1 r = Some b -> 7 <= bt_szx b.

  Lemma block1_loop_bert_chain cfg fuel : 1024 <= c_mps cfg -> forall s cursor mbse s' tr o,
    0 <= cursor -> cursor * 1024 < blen (c_body cfg) -> blen (c_body cfg) > c_mps cfg ->
    block1_loop serve fuel s cfg cursor 7 mbse = (s', tr, o) ->
    bert_chain (c_body cfg) (bert_size (c_mps cfg)) (cursor * 1024) tr.
  Proof.
    intros Hmps. destruct (bert_size_pos _ Hmps) as [HB HBdiv]. set (B := bert_size (c_mps cfg)) in *.
    induction fuel as [|f IH]; intros s cursor mbse s' tr o Hc Hoff Hfrag; cbn [block1_loop].
    - intros H; inv H. exact I.
    - unfold block1_request, fragmentation_threshold. cbn [Z.geb Z.compare Pos.compare Pos.compare_cont].
      replace (blen (c_body cfg) >? c_mps cfg) with true by lia.
      destruct (extract_blocks_partition_bert_lemma (c_body cfg) (c_mps cfg) cursor Hmps Hc) as [_ Hok].
      destruct (Hok Hoff) as (pl & more & Hex & Hcat & Hmore & Hfin). rewrite Hex. cbn [bind]. fold B in Hmore, Hfin.
      set (rq := {| rq_block1 := Some (cursor, more, 7); rq_block2 := c_block2 cfg;
                    rq_size1 := if cursor =? 0 then Some (blen (c_body cfg)) else None; rq_payload := pl |}).
      assert (Hhead : forall rest, (if more then bert_chain (c_body cfg) B (cursor * 1024 + B) rest else no_block1 rest) ->
                bert_chain (c_body cfg) B (cursor * 1024) (rq :: rest)).
      { intros rest Hrest. cbn [bert_chain rq_block1 rq rq_payload rq_size1].
        repeat (split; [first [lia | assumption | reflexivity]|]).
        split; [|exact Hrest]. destruct (cursor =? 0) eqn:E0.
        - replace (cursor * 1024 =? 0) with true by lia. reflexivity.
        - replace (cursor * 1024 =? 0) with false by lia. reflexivity. }
      destruct (serve s rq) as [s1 r] eqn:Hserve. destruct r as [resp|].
      2:{ intros H; inv H. apply Hhead. destruct more; [exact I|constructor]. }
      destruct (block1_react rq resp cursor 7) as [e|c2 e2|] eqn:Hreact.
      + intros H; inv H. apply Hhead. destruct more; [exact I|constructor].
      + (* continue: the block was non-final, the acknowledgement kept exponent 7 *)
        assert (Hc2 : more = true /\ e2 = 7 /\ c2 = cursor + blen pl / 1024).
        { unfold block1_react in Hreact. cbn [rq rq_block1 rq_payload] in Hreact.
          destruct (rs_block1 resp) as [b1|] eqn:Hb1; [|discriminate].
          pose proof (serve_keeps7 s rq s1 resp b1 cursor more eq_refl Hserve Hb1) as H7.
          destruct (negb (bt_num b1 =? bt_num (cursor, more, 7))); [discriminate|].
          cbn [Z.eqb Pos.eqb] in Hreact.
          replace (Z.to_nat (7 - bt_szx b1)) with 0%nat in Hreact by lia. cbn [reduce_size] in Hreact.
          unfold bt_more in Hreact at 1. cbn [fst snd] in Hreact.
          destruct more; cbn [negb] in Hreact.
          - repeat match type of Hreact with context [if ?b then _ else _] => destruct b end; inv Hreact; auto.
          - repeat match type of Hreact with context [if ?b then _ else _] => destruct b end; discriminate. }
        destruct Hc2 as (-> & -> & ->). destruct (Hmore eq_refl) as [Hpl Hlt].
        destruct (block1_loop serve f s1 cfg _ 7 _) as [[s2 tr2] o2] eqn:R. intros H; inv H.
        apply Hhead. rewrite Hpl in R.
        replace (cursor * 1024 + B) with ((cursor + B / 1024) * 1024) by lia.
        assert (0 <= B / 1024) by (apply Z.div_pos; lia).
        eapply IH; try eassumption; try lia.
      + destruct (complete_by_requesting_block2 serve f s1 rq (clear_block1 resp) _) as [[s2 tr2] o2] eqn:R. intros H; inv H.
        apply complete_no_block1 in R. apply Hhead. destruct more; [apply no_block1_bert_chain; exact R|exact R].
  Qed.

  Definition bert_wire_ok (cfg : ccfg) (tr : list request) : Prop :=
    match tr with
    | [] => True
    | rq :: rest =>
      if blen (c_body cfg) >? c_mps cfg then bert_chain (c_body cfg) (bert_size (c_mps cfg)) 0 tr
      else rq_block1 rq = None /\ rq_payload rq = c_body cfg /\ rq_size1 rq = None /\ no_block1 rest
    end.

  Lemma run_bert_wire_ok cfg fuel s s' tr o : c_mbse cfg = 7 -> 1024 <= c_mps cfg ->
    run serve fuel s cfg = (s', tr, o) -> bert_wire_ok cfg tr.
  Proof.
    intros Hm Hp. unfold run, bert_wire_ok. rewrite Hm. intros Hrun. destruct tr as [|rq rest]; [exact I|].
    destruct (blen (c_body cfg) >? c_mps cfg) eqn:Hfrag.
    - change 0 with (0 * 1024). eapply block1_loop_bert_chain; try eassumption; lia.
    - destruct fuel as [|f]; cbn [block1_loop] in Hrun; [inv Hrun|].
      unfold block1_request, fragmentation_threshold in Hrun. cbn [Z.geb Z.compare Pos.compare Pos.compare_cont] in Hrun. rewrite Hfrag in Hrun.
      set (rq0 := {| rq_block1 := None; rq_block2 := c_block2 cfg; rq_size1 := None; rq_payload := c_body cfg |}) in *.
      destruct (serve s rq0) as [s1 r]. destruct r as [resp|]; [|inv Hrun; repeat split; constructor].
      unfold block1_react in Hrun. cbn [rq_block1 rq0] in Hrun.
      destruct (rs_block1 resp).
      + inv Hrun. repeat split; constructor.
      + destruct (complete_by_requesting_block2 serve f s1 rq0 _ _) as [[s2 tr2] o2] eqn:R. inv Hrun.
        apply complete_no_block1 in R. repeat split; assumption.
  Qed.
End BertAnyServer.

(* KNOWN FINDING (open), carried by the model: when the acknowledgement lowers the exponent from 7, the cursor is doubled once too often
   (protocol.py:963-965 — the step 7 -> 6 keeps the 1024-byte unit): after 2048 bytes the client continues at offset 4096. *)
Lemma bert_reduction_witness : exists scf cfg tr o,
  s_mis scf = None /\ c_mbse cfg = 7 /\
  (let '(_, tr', o') := run (serve_ref scf) 10 sstate0 cfg in (tr', o')) = (tr, o) /\
  map rq_block1 tr = [Some (0, true, 7); Some (4, false, 6)] /\ blen (rq_payload (hd {| rq_block1 := None; rq_block2 := None; rq_size1 := None; rq_payload := [] |} tr)) = 2048 /\
  (exists r, o = Done r /\ rs_code r = REQUEST_ENTITY_INCOMPLETE).
Proof.
  exists {| s_policy1 := [6]; s_policy2 := [7]; s_reps := [(Some 10, mkbody 5 1)]; s_rep_at := []; s_atomic := true; s_mis := None; s_bert := 2 |},
         {| c_body := mkbody 5000 1; c_mps := 2048; c_mbse := 7; c_block2 := None |}.
  eexists _, _. split; [reflexivity|]. split; [reflexivity|]. split; [vm_compute; reflexivity|].
  split; [reflexivity|]. split; [reflexivity|]. eexists. split; reflexivity.
Qed.

(* ---- Theorem 3 for size exponent 7: client x BERT reference server that keeps exponent 7 *)
Record honest_bert_cfg (scf : scfg) (e : option Z) (rep : list Z) : Prop := {
  hb_mis : s_mis scf = None;
  hb_reps : s_reps scf = [(e, rep)];
  hb_rep_at : s_rep_at scf = [];
  hb_pol1 : forall k, 7 <= pol (s_policy1 scf) k 6;
  hb_pol2 : forall k, 7 <= pol (s_policy2 scf) k 6;
  hb_bert : 0 < s_bert scf }.

Lemma bsize_6 : bsize 6 = 1024. Proof. reflexivity. Qed.

Section BertRef.
  Variable scf : scfg. Variable e : option Z. Variable rep : list Z.
  Hypothesis Hh : honest_bert_cfg scf e rep.
  Let B2 := 1024 * s_bert scf.

  Lemma remote_exp_7 : remote_exp scf = 7.
  Proof. unfold remote_exp. pose proof (hb_bert _ _ _ Hh). replace (0 <? s_bert scf) with true by lia. reflexivity. Qed.

  Lemma honest_is_bert st rq : honest scf st rq = honest_bert scf st rq.
  Proof. unfold honest. pose proof (hb_bert _ _ _ Hh). replace (0 <? s_bert scf) with true by lia. rewrite orb_true_r. reflexivity. Qed.

  Lemma current_rep_b k : nth (Z.to_nat (pol (s_rep_at scf) k 0)) (s_reps scf) (None, []) = (e, rep).
  Proof. rewrite (hb_rep_at _ _ _ Hh), (hb_reps _ _ _ Hh). unfold pol. destruct (Z.to_nat k); reflexivity. Qed.

  Lemma respond_bert k code b1 req_b2 n2 :
    (req_b2 = None /\ n2 = 0) \/ (exists m2, req_b2 = Some (n2, m2, 7)) -> 0 <= n2 -> n2 * 1024 < blen rep \/ (n2 = 0 /\ blen rep = 0) ->
    respond scf k code b1 req_b2 =
      {| rs_code := code; rs_block1 := b1;
         rs_block2 := (let more := n2 * 1024 + B2 <? blen rep in match req_b2 with None => if more then Some (0, more, 7) else None | Some _ => Some (n2, more, 7) end);
         rs_etag := e; rs_payload := bslice rep (n2 * 1024) (n2 * 1024 + B2); rs_maxexp := 7; rs_observe := false |}.
  Proof.
    intros Hreq Hn Hoff. unfold respond. rewrite remote_exp_7. pose proof (hb_pol2 _ _ _ Hh k) as Hp. pose proof (hb_bert _ _ _ Hh) as Hb.
    pose proof (blen_nonneg rep) as Hnn.
    assert (Hwant : (match req_b2 with Some (_, _, s) => s | None => 7 end =? 7) && (7 <=? pol (s_policy2 scf) k 6) = true).
    { destruct Hreq as [[-> _]|(m2 & ->)]; lia. }
    rewrite Hwant. rewrite current_rep_b. replace (Z.max 1 (s_bert scf)) with (s_bert scf) by lia. fold B2.
    assert (Hn2 : match req_b2 with Some (n, _, _) => n | None => 0 end = n2) by (destruct Hreq as [[-> ->]|(m2 & ->)]; reflexivity).
    rewrite Hn2. replace ((n2 * 1024 >? blen rep) || (n2 * 1024 =? blen rep) && (0 <? n2)) with false by lia. reflexivity.
  Qed.

  Lemma block2_loop_bert_ref fuel : forall st t acc nn j,
    rs_block2 acc = Some (nn, true, 7) -> rs_payload acc = bto rep (j * 1024) -> 0 < j * 1024 < blen rep -> rs_etag acc = e ->
    (Z.to_nat (blen rep - j * 1024) < fuel)%nat ->
    exists st' tr r, block2_loop (serve_ref scf) fuel st t acc 7 = (st', tr, Done r) /\
       rs_payload r = rep /\ rs_etag r = e /\ rs_code r = rs_code acc /\ rs_block1 r = rs_block1 acc /\
       sv_bodies st' = sv_bodies st /\ no_block1 tr.
  Proof.
    pose proof (hb_bert _ _ _ Hh) as Hb. assert (HB2 : 1024 <= B2) by (subst B2; lia).
    induction fuel as [|f IH]; intros st t acc nn j Hblk Hpl Hgot Het Hfuel; [lia|].
    set (got := j * 1024) in *.
    assert (Hlen : blen (rs_payload acc) = got) by (rewrite Hpl; apply blen_bto; lia).
    cbn [block2_loop]. unfold generate_next_block2_request. rewrite Hblk. rewrite bt_size_spec. cbn [bind]. rewrite bt_start_spec. cbn [bind].
    change (Z.min 7 6) with 6. rewrite bsize_6, Hlen.
    assert (Hdiv : got / 1024 = j) by (subst got; apply Z.div_mul; lia). rewrite Hdiv. fold got. rewrite Z.eqb_refl. cbn [massert bind].
    unfold bt_reduced_to. cbn [Z.geb Z.compare Pos.compare Pos.compare_cont bind].
    set (rq := {| rq_block1 := None; rq_block2 := Some (j, false, 7); rq_size1 := rq_size1 t; rq_payload := [] |}).
    assert (Hj : 0 < j) by lia.
    assert (Hserve : serve_ref scf st rq = ({| sv_asm := sv_asm st; sv_bodies := sv_bodies st; sv_step := sv_step st + 1 |},
                                             SResp (respond scf (sv_step st) CONTENT None (Some (j, false, 7))))).
    { unfold serve_ref. rewrite honest_is_bert. unfold honest_bert. cbn [rq rq_block1 rq_block2]. replace (0 <? j) with true by lia.
      rewrite (hb_mis _ _ _ Hh). reflexivity. }
    rewrite Hserve. rewrite (respond_bert _ _ _ _ j) by (eauto || lia). fold got. cbv zeta.
    cbn [rs_block2]. unfold append_response_block. cbn [rs_block2 rs_payload rs_etag].
    unfold bt_is_valid_for_payload_size, bt_is_bert. cbn [Z.eqb Pos.eqb bind]. rewrite bt_start_spec. cbn [bind].
    change (Z.min 7 6) with 6. rewrite bsize_6. fold got. rewrite Hlen, Z.eqb_refl, Het, etag_eqb_refl. cbn [negb].
    destruct (got + B2 <? blen rep) eqn:Emore.
    - rewrite blen_bslice by lia.
      assert (Hmod : (got + B2 - got) mod 1024 =? 0 = true).
      { replace (got + B2 - got) with (s_bert scf * 1024) by (subst B2; lia). rewrite Z.mod_mul by lia. reflexivity. }
      rewrite Hmod. cbn [bind negb bt_more fst snd].
      match goal with |- context [block2_loop _ f ?s1 t ?a 7] =>
        destruct (IH s1 t a j (j + s_bert scf)) as (st' & tr & r & Hrun & H1 & H2 & H3 & H4 & H5 & H6) end;
        try reflexivity; cbn [rs_payload]; try (subst B2 got; lia).
      + rewrite Hpl. fold got. rewrite bto_bslice by lia. f_equal. subst B2 got. lia.
      + rewrite Hrun. exists st', (rq :: tr), r. repeat split; try assumption. constructor; [reflexivity|assumption].
    - cbn [bind negb bt_more fst snd].
      eexists _, [rq], _. split; [reflexivity|]. cbn [rs_payload rs_etag rs_code rs_block1 sv_bodies].
      repeat split; try reflexivity.
      + rewrite Hpl. fold got. rewrite bto_bslice by lia. apply bto_all. lia.
      + repeat constructor.
  Qed.

  Lemma complete_bert_ref fuel st t k code b1 :
    (Z.to_nat (blen rep) < fuel)%nat -> rq_block2 t = None ->
    exists st' tr r,
      complete_by_requesting_block2 (serve_ref scf) fuel st t (clear_block1 (respond scf k code b1 None)) 7 = (st', tr, Done r) /\
      rs_payload r = rep /\ rs_etag r = e /\ rs_code r = code /\ rs_block1 r = None /\ sv_bodies st' = sv_bodies st /\ no_block1 tr.
  Proof.
    intros Hfuel Ht. pose proof (hb_bert _ _ _ Hh) as Hb. assert (HB2 : 1024 <= B2) by (subst B2; lia). pose proof (blen_nonneg rep) as Hnn.
    rewrite (respond_bert k code b1 None 0) by (auto || lia). cbv zeta. cbn [Z.mul Z.add].
    unfold complete_by_requesting_block2, unexpected_first_block. cbn [clear_block1 rs_block2].
    destruct (B2 <? blen rep) eqn:E.
    - cbn [bt_num bt_more fst snd Z.eqb negb andb].
      match goal with |- context [block2_loop _ fuel st t ?a 7] =>
        destruct (block2_loop_bert_ref fuel st t a 0 (s_bert scf)) as (st' & tr & r & Hrun & H1 & H2 & H3 & H4 & H5 & H6) end;
        try reflexivity; cbn [clear_block1 rs_payload rs_etag]; try (subst B2; lia).
      + replace (s_bert scf * 1024) with B2 by (unfold B2; lia). reflexivity.
      + exists st', tr, r. repeat split; assumption.
    - eexists _, [], _. split; [reflexivity|]. cbn [rs_payload rs_etag rs_code rs_block1]. repeat split; try reflexivity.
      + rewrite bslice_0. apply bto_all. lia.
      + constructor.
  Qed.
End BertRef.

Lemma respond_block1 scf k code b1 req_b2 : rs_block1 (respond scf k code b1 req_b2) = b1 \/ rs_block1 (respond scf k code b1 req_b2) = None.
Proof.
  unfold respond. destruct (_ && _).
  - destruct (nth _ _ _) as [etag rp]. destruct (_ || _); [right; reflexivity|left; reflexivity].
  - unfold slice_response. destruct (nth _ _ _) as [etag rp]. destruct req_b2 as [[[n2 m2] s2]|]; destruct (_ || _); (right; reflexivity) || (left; reflexivity).
Qed.

Section BertRef2.
  Variable scf : scfg. Variable e : option Z. Variable rep : list Z.
  Hypothesis Hh : honest_bert_cfg scf e rep.
  Variable cfg : ccfg.
  Hypothesis Hmbse : c_mbse cfg = 7.
  Hypothesis Hmps : 1024 <= c_mps cfg.
  Hypothesis Hb2 : c_block2 cfg = None.
  Let srv := serve_ref scf.
  Let body := c_body cfg.
  Let B := bert_size (c_mps cfg).

  Lemma serve_ref_bert_block1 st n (m : bool) s1 pl :
    let asm := if n =? 0 then (@nil Z) else sv_asm st in
    n * 1024 = blen asm -> (m = true -> 0 < blen pl /\ blen pl mod 1024 = 0) ->
    let k := sv_step st in
    srv st {| rq_block1 := Some (n, m, 7); rq_block2 := None; rq_size1 := s1; rq_payload := pl |} =
      if m then ({| sv_asm := asm ++ pl; sv_bodies := sv_bodies st; sv_step := k + 1 |},
                 SResp {| rs_code := if s_atomic scf then CONTINUE else CHANGED; rs_block1 := Some (n, s_atomic scf, 7); rs_block2 := None;
                          rs_etag := None; rs_payload := []; rs_maxexp := 7; rs_observe := false |})
      else ({| sv_asm := []; sv_bodies := (asm ++ pl) :: sv_bodies st; sv_step := k + 1 |},
            SResp (respond scf k CHANGED (Some (n, false, 7)) None)).
  Proof.
    intros asm Hoff Hlen k. unfold srv, serve_ref. rewrite (honest_is_bert scf e rep Hh). unfold honest_bert.
    cbn [rq_block1 rq_payload rq_block2]. unfold b1_unit. cbn [Z.eqb Pos.eqb]. fold asm. fold k.
    rewrite Hoff, Z.eqb_refl. cbn [negb]. rewrite (hb_mis _ _ _ Hh). rewrite (remote_exp_7 scf e rep Hh).
    pose proof (hb_pol1 _ _ _ Hh k) as Hp. replace (Z.min 7 (pol (s_policy1 scf) k 6)) with 7 by lia.
    destruct m; cbn [andb].
    - destruct (Hlen eq_refl) as [H1 H2]. replace (blen pl =? 0) with false by lia. rewrite H2. cbn [orb negb Z.eqb]. reflexivity.
    - reflexivity.
  Qed.

  Lemma block1_loop_bert_ref fuel : forall st cursor,
    0 <= cursor -> cursor * 1024 < blen body -> blen body > c_mps cfg ->
    (cursor <> 0 -> sv_asm st = bto body (cursor * 1024)) ->
    (Z.to_nat (blen body - cursor * 1024) + Z.to_nat (blen rep) + 1 < fuel)%nat ->
    exists st' tr r, block1_loop srv fuel st cfg cursor 7 7 = (st', tr, Done r) /\
      sv_bodies st' = body :: sv_bodies st /\ rs_payload r = rep /\ rs_etag r = e /\ rs_code r = CHANGED /\ rs_block1 r = None.
  Proof.
    destruct (bert_size_pos _ Hmps) as [HB HBdiv]. fold B in HB, HBdiv.
    induction fuel as [|f IH]; intros st cursor Hc Hoff Hfrag Hasm Hfuel; [lia|].
    cbn [block1_loop]. unfold block1_request, fragmentation_threshold. cbn [Z.geb Z.compare Pos.compare Pos.compare_cont]. fold body.
    replace (blen body >? c_mps cfg) with true by lia.
    destruct (extract_blocks_partition_bert_lemma body (c_mps cfg) cursor Hmps Hc) as [_ Hok].
    destruct (Hok Hoff) as (pl & more & Hex & Hcat & Hmore & Hfin). rewrite Hex. cbn [bind]. fold B in Hmore, Hfin. rewrite Hb2.
    set (asm := if cursor =? 0 then [] else sv_asm st).
    assert (Hasm' : asm = bto body (cursor * 1024)).
    { subst asm. destruct (cursor =? 0) eqn:E0; [replace cursor with 0 by lia; reflexivity|apply Hasm; lia]. }
    assert (Hasmlen : cursor * 1024 = blen asm) by (rewrite Hasm', blen_bto; [reflexivity|fold body; lia]).
    destruct more.
    - destruct (Hmore eq_refl) as [Hpl Hlt].
      assert (Hmod : blen pl mod 1024 = 0) by (rewrite Hpl, <- HBdiv; apply Z.mod_mul; lia).
      rewrite (serve_ref_bert_block1 st cursor true _ pl Hasmlen ltac:(intros; lia)). fold asm.
      cbn [rs_maxexp Z.ltb Z.compare Pos.compare Pos.compare_cont].
      match goal with |- context [block1_react ?rq ?resp cursor 7] =>
        assert (Hreact : block1_react rq resp cursor 7 = B1Continue (cursor + B / 1024) 7) end.
      { unfold block1_react. cbn [rs_block1 rq_block1 bt_num bt_more bt_szx fst snd rs_code rs_observe rq_payload]. rewrite Z.eqb_refl. cbn [negb Z.eqb Pos.eqb Z.sub Z.to_nat reduce_size Z.opp Z.add Z.pos_sub].
        rewrite Hpl. destruct (s_atomic scf); reflexivity. }
      rewrite Hreact.
      assert (Hq : 0 <= B / 1024) by (apply Z.div_pos; lia).
      match goal with |- context [block1_loop srv f ?s1 cfg _ 7 7] =>
        destruct (IH s1 (cursor + B / 1024)) as (st' & tr & r & Hrun & H1 & H2 & H3 & H4 & H5) end; try lia.
      + intros _. cbn [sv_asm]. rewrite Hasm'. fold body in Hcat. rewrite Hcat. f_equal. lia.
      + rewrite Hrun. eexists _, _, _. split; [reflexivity|]. cbn [sv_bodies] in H1. repeat split; assumption.
    - destruct (Hfin eq_refl) as [Hpl Hend].
      rewrite (serve_ref_bert_block1 st cursor false _ pl Hasmlen ltac:(discriminate)). fold asm.
      pose proof (blen_nonneg rep) as Hnn.
      rewrite (respond_bert scf e rep Hh _ _ _ None 0) by (auto || lia). cbv zeta. cbn [Z.mul Z.add rs_maxexp Z.ltb Z.compare Pos.compare Pos.compare_cont].
      match goal with |- context [block1_react ?rq ?resp cursor 7] => assert (Hreact : block1_react rq resp cursor 7 = B1Break) end.
      { unfold block1_react. cbn [rs_block1 rq_block1 bt_num bt_more bt_szx fst snd rs_code]. rewrite Z.eqb_refl. cbn [negb].
        destruct (reduce_size _ _ _ _). reflexivity. }
      rewrite Hreact.
      match goal with |- context [complete_by_requesting_block2 srv f ?s1 ?t _ 7] =>
        destruct (complete_bert_ref scf e rep Hh f s1 t (sv_step st) CHANGED (Some (cursor, false, 7))) as (st' & tr & r & Hrun & H1 & H2 & H3 & H4 & H5 & H6) end; try lia; try reflexivity.
      rewrite (respond_bert scf e rep Hh _ _ _ None 0) in Hrun by (auto || lia). cbv zeta in Hrun. cbn [Z.mul Z.add] in Hrun.
      unfold srv. rewrite Hrun. eexists _, _, _. split; [reflexivity|]. cbn [sv_bodies] in H5. rewrite H5.
      repeat split; try assumption. f_equal. rewrite Hasm'. fold body in Hcat. rewrite Hcat. apply bto_all. lia.
  Qed.

  Lemma transfer_correct_bert_lemma fuel :
    (Z.to_nat (blen body) + Z.to_nat (blen rep) + 1 < fuel)%nat ->
    exists st tr r, run srv fuel sstate0 cfg = (st, tr, Done r) /\
      sv_bodies st = [body] /\ rs_payload r = rep /\ rs_etag r = e /\ is_successful (rs_code r) = true /\ rs_block1 r = None /\
      bert_wire_ok cfg tr.
  Proof.
    intros Hfuel. unfold run. rewrite Hmbse. pose proof (blen_nonneg body) as Hnb.
    assert (Hgoal : exists st tr r, block1_loop srv fuel sstate0 cfg 0 7 7 = (st, tr, Done r) /\
      sv_bodies st = [body] /\ rs_payload r = rep /\ rs_etag r = e /\ is_successful (rs_code r) = true /\ rs_block1 r = None).
    { destruct (blen body >? c_mps cfg) eqn:Hfrag.
      - destruct (block1_loop_bert_ref fuel sstate0 0) as (st' & tr & r & Hrun & H1 & H2 & H3 & H4 & H5); try lia.
        exists st', tr, r. rewrite H4. repeat split; assumption.
      - destruct fuel as [|f]; [lia|]. cbn [block1_loop]. unfold block1_request, fragmentation_threshold. cbn [Z.geb Z.compare Pos.compare Pos.compare_cont].
        fold body. rewrite Hfrag, Hb2.
        set (rq0 := {| rq_block1 := None; rq_block2 := None; rq_size1 := None; rq_payload := body |}).
        assert (Hserve : srv sstate0 rq0 = ({| sv_asm := []; sv_bodies := [body]; sv_step := 1 |}, SResp (respond scf 0 CONTENT None None))).
        { unfold srv, serve_ref. rewrite (honest_is_bert scf e rep Hh). unfold honest_bert. cbn [rq0 rq_block1 rq_block2 rq_payload sstate0 sv_step sv_bodies sv_asm].
          rewrite (hb_mis _ _ _ Hh). reflexivity. }
        rewrite Hserve. pose proof (blen_nonneg rep) as Hnn.
        rewrite (respond_bert scf e rep Hh _ _ _ None 0) by (auto || lia). cbv zeta. cbn [Z.mul Z.add rs_maxexp Z.ltb Z.compare Pos.compare Pos.compare_cont].
        unfold block1_react. cbn [rs_block1].
        match goal with |- context [complete_by_requesting_block2 srv f ?s1 ?t _ 7] =>
          destruct (complete_bert_ref scf e rep Hh f s1 t 0 CONTENT None) as (st' & tr & r & Hrun & H1 & H2 & H3 & H4 & H5 & H6) end; try lia; try reflexivity.
        rewrite (respond_bert scf e rep Hh _ _ _ None 0) in Hrun by (auto || lia). cbv zeta in Hrun. cbn [Z.mul Z.add] in Hrun.
        unfold srv. rewrite Hrun. eexists _, _, _. split; [reflexivity|]. rewrite H5, H3. repeat split; assumption. }
    destruct Hgoal as (st & tr & r & Hrun & H). exists st, tr, r. split; [exact Hrun|].
    destruct H as (H1 & H2 & H3 & H4 & H5). repeat split; try assumption.
    eapply (run_bert_wire_ok srv) with (fuel := fuel) (s := sstate0); try eassumption.
    - (* the BERT reference server keeps exponent 7 in every acknowledgement of a BERT block *)
      intros s rq s' r0 b n m Hrq Hs Hb. unfold srv, serve_ref in Hs. rewrite (honest_is_bert scf e rep Hh), (hb_mis _ _ _ Hh) in Hs.
      unfold honest_bert in Hs. rewrite Hrq in Hs. pose proof (hb_pol1 _ _ _ Hh (sv_step s)) as Hp.
      replace (Z.min 7 (pol (s_policy1 scf) (sv_step s) 6)) with 7 in Hs by lia.
      destruct (negb _) in Hs; [inv Hs; discriminate|]. 
      match type of Hs with context [if ?c then (_, set_maxexp _ (plain BAD_REQUEST)) else _] => destruct c end; [inv Hs; discriminate|].
      destruct m; inv Hs.
      + cbn [rs_block1] in Hb. inv Hb. unfold bt_szx. cbn. lia.
      + destruct (respond_block1 scf (sv_step s) CHANGED (Some (n, false, 7)) (rq_block2 rq)) as [H|H]; rewrite H in Hb; inv Hb. unfold bt_szx. cbn. lia.
    - unfold run. rewrite Hmbse. exact Hrun.
  Qed.
End BertRef2.
