(* C05 tier B — size exponent 7 / BERT (RFC 8323 section 6) for remotes on reliable transports:
   maximum_block_size_exp = 7, a message carries 1024 * (maximum_payload_size / 1024) bytes, NUM counts 1024-byte blocks. *)
From Verif Require Import Lib.Py Lib.PyLemmas Lib.Tactics Gen.block_kernels Model.C05 Model.C05Server Model.C05Retry Proofs.C05.
Open Scope Z_scope.

Definition bert_size (mps : Z) : Z := 1024 * (mps / 1024).

Lemma bert_size_pos mps : 1024 <= mps -> 1024 <= bert_size mps /\ bert_size mps / 1024 * 1024 = bert_size mps.
Proof. intros H. unfold bert_size. split; [lia|]. replace (1024 * (mps / 1024)) with (mps / 1024 * 1024) by lia. rewrite Z.div_mul by lia. reflexivity. Qed.

Lemma extract_block_bert_spec body n mbs :
  extract_block body n 7 mbs =
    if n * 1024 >=? blen body then Raise BadRequest
    else Ok (bslice body (n * 1024) (Z.min (n * 1024 + bert_size mbs) (blen body)),
             (n, n * 1024 + bert_size mbs <? blen body, 7)).
Proof.
  unfold extract_block. cbn [Z.eqb Pos.eqb bind]. fold (bert_size mbs).
  destruct (n * 1024 >=? blen body) eqn:E; [reflexivity|].
  destruct (n * 1024 + bert_size mbs <? blen body) eqn:E2.
  - replace (Z.min (n * 1024 + bert_size mbs) (blen body)) with (n * 1024 + bert_size mbs) by lia. rewrite E2. reflexivity.
  - replace (Z.min (n * 1024 + bert_size mbs) (blen body)) with (blen body) by lia. rewrite Z.ltb_irrefl. reflexivity.
Qed.

(* Theorem 1 for size exponent 7 *)
Lemma extract_blocks_partition_bert_lemma body mbs n : 1024 <= mbs -> 0 <= n ->
  (blen body <= n * 1024 -> extract_block body n 7 mbs = Raise BadRequest) /\
  (n * 1024 < blen body -> exists pl more,
      extract_block body n 7 mbs = Ok (pl, (n, more, 7)) /\
      bto body (n * 1024) ++ pl = bto body (n * 1024 + blen pl) /\
      (more = true -> blen pl = bert_size mbs /\ n * 1024 + bert_size mbs < blen body) /\
      (more = false -> 0 < blen pl <= bert_size mbs /\ n * 1024 + blen pl = blen body)).
Proof.
  intros H Hn. destruct (bert_size_pos mbs H) as [Hs _]. rewrite extract_block_bert_spec. split.
  - intros Hle. replace (n * 1024 >=? blen body) with true by lia. reflexivity.
  - intros Hlt. replace (n * 1024 >=? blen body) with false by lia.
    eexists _, _. split; [reflexivity|].
    destruct (n * 1024 + bert_size mbs <? blen body) eqn:E2.
    + replace (Z.min (n * 1024 + bert_size mbs) (blen body)) with (n * 1024 + bert_size mbs) by lia.
      rewrite blen_bslice by lia. split; [|split]; try (intros; lia).
      rewrite bto_bslice by lia. f_equal. lia.
    + replace (Z.min (n * 1024 + bert_size mbs) (blen body)) with (blen body) by lia.
      rewrite blen_bslice by lia. split; [|split]; try (intros; lia).
      rewrite bto_bslice by lia. f_equal. lia.
Qed.

(* Theorem 2 for a client that starts at size exponent 7: the requests on the wire against ANY server.  A BERT message (exponent 7) carries
   B = bert_size bytes and NUM counts 1024-byte blocks; when the server lowers the exponent the chain goes on with regular blocks. *)
Definition unit_of (szx : Z) : Z := if szx =? 7 then 1024 else bsize szx.
Definition blk_of (B szx : Z) : Z := if szx =? 7 then B else bsize szx.

Fixpoint g_chain (body : list Z) (B offset maxszx : Z) (tr : list request) : Prop :=
  match tr with
  | [] => True
  | rq :: rest =>
    match rq_block1 rq with
    | None => no_block1 tr
    | Some (n, m, szx) =>
      0 <= szx <= maxszx /\ n * unit_of szx = offset /\
      bto body offset ++ rq_payload rq = bto body (offset + blen (rq_payload rq)) /\
      (m = true -> blen (rq_payload rq) = blk_of B szx /\ offset + blk_of B szx < blen body) /\
      (m = false -> 0 < blen (rq_payload rq) <= blk_of B szx /\ offset + blen (rq_payload rq) = blen body) /\
      rq_size1 rq = (if offset =? 0 then Some (blen body) else None) /\
      (if m then g_chain body B (offset + blk_of B szx) szx rest else no_block1 rest)
    end
  end.

Lemma no_block1_g_chain body B offset mx tr : no_block1 tr -> g_chain body B offset mx tr.
Proof. intros H. destruct tr as [|rq rest]; [exact I|]. cbn [g_chain]. inversion H as [|? ? H1 H2]; subst. rewrite H1. exact H. Qed.

Lemma g_chain_mono body B offset mx mx' tr : mx <= mx' -> g_chain body B offset mx tr -> g_chain body B offset mx' tr.
Proof. intros Hle. destruct tr as [|r0 rest]; [auto|]. cbn [g_chain]. destruct (rq_block1 r0) as [[[n0 m0] s0]|]; [|auto]. intros (H1 & H2). split; [lia|exact H2]. Qed.

(* a regular chain (Proofs/C05.v) is a general chain *)
Lemma b1_chain_g body B : forall tr offset mx, mx <= 6 -> b1_chain body offset mx tr -> g_chain body B offset mx tr.
Proof.
  induction tr as [|rq rest IH]; intros offset mx Hmx; [auto|]. cbn [b1_chain g_chain].
  destruct (rq_block1 rq) as [[[n m] szx]|]; [|auto].
  intros (H1 & H2 & H3 & H4 & H5 & H6 & H7). unfold unit_of, blk_of. replace (szx =? 7) with false by lia.
  repeat (split; [assumption|]). destruct m; [apply IH; [lia|exact H7]|exact H7].
Qed.

Lemma reduce_size_7 t c : 0 <= t ->
  reduce_size (Z.to_nat (7 - t)) t c 7 = if 7 <=? t then (c, 7) else (c * 2 ^ (6 - t), t).
Proof.
  intros Ht. destruct (7 <=? t) eqn:E.
  - replace (Z.to_nat (7 - t)) with 0%nat by lia. reflexivity.
  - replace (Z.to_nat (7 - t)) with (Datatypes.S (Z.to_nat (6 - t))) by lia. cbn [reduce_size].
    replace (t <? 7) with true by lia. cbn [Z.eqb Pos.eqb]. change (7 - 1) with 6. rewrite reduce_size_spec by lia.
    destruct (t <? 6) eqn:E6; [reflexivity|]. replace t with 6 by lia. cbn. f_equal. lia.
Qed.

(* the new cursor names the same byte offset *)
Lemma reduce_7_offset t c c2 e2 : 0 <= t -> (if 7 <=? t then (c, 7) else (c * 2 ^ (6 - t), t)) = (c2, e2) ->
  0 <= e2 <= 7 /\ c2 * unit_of e2 = c * 1024.
Proof.
  intros Ht. destruct (7 <=? t) eqn:E; intros H; inv H.
  - split; [lia|reflexivity].
  - split; [lia|]. unfold unit_of. replace (e2 =? 7) with false by lia.
    assert (Hs : bsize ((6 - e2) + e2) = 2 ^ (6 - e2) * bsize e2) by (apply bsize_split; lia).
    replace ((6 - e2) + e2) with 6 in Hs by lia. change (bsize 6) with 1024 in Hs. rewrite Hs. symmetry. apply Z.mul_assoc.
Qed.

(* what the loop does with the acknowledgement of a BERT message *)
Lemma block1_react_7 rq resp cursor n m bn bm t : rq_block1 rq = Some (n, m, 7) -> rs_block1 resp = Some (bn, bm, t) -> 0 <= t ->
  block1_react rq resp cursor 7 =
    if negb (bn =? n) then B1Err UnexpectedBlock1Option else
    let '(c2, e2) := if 7 <=? t then (cursor + blen (rq_payload rq) / 1024, 7) else ((cursor + blen (rq_payload rq) / 1024) * 2 ^ (6 - t), t) in
    if negb m then (if bm || (rs_code resp =? CONTINUE) then B1Err UnexpectedBlock1Option else B1Break)
    else if rs_observe resp then B1Err AttributeError
    else if bm then B1Continue c2 e2
    else if negb (is_successful (rs_code resp)) then B1Break else B1Continue c2 e2.
Proof.
  intros Hrq Hb Ht. unfold block1_react. rewrite Hrq, Hb. unfold bt_num, bt_more, bt_szx. cbn [fst snd Z.eqb Pos.eqb].
  rewrite reduce_size_7 by lia. reflexivity.
Qed.

Section BertAnyServer.
  Context {S : Type}.
  Variable serve : S -> request -> S * sresult.
  (* requests with exponents 0..7 are answered with responses as Message.decode can produce them *)
  Hypothesis serve_wf : forall s rq s' r, bt_wf (rq_block1 rq) = true -> bt_wf (rq_block2 rq) = true -> serve s rq = (s', SResp r) -> resp_wf r = true.

  Lemma bt_wf6_wf b : bt_wf6 b = true -> bt_wf b = true.
  Proof. unfold bt_wf6, bt_wf. destruct b as [[[n m] x]|]; lia. Qed.

  Lemma block1_loop_g_chain cfg fuel : 1024 <= c_mps cfg -> bt_wf6 (c_block2 cfg) = true -> forall s cursor mbse s' tr o,
    0 <= cursor -> cursor * 1024 < blen (c_body cfg) -> blen (c_body cfg) > c_mps cfg ->
    block1_loop serve fuel s cfg cursor 7 mbse = (s', tr, o) ->
    g_chain (c_body cfg) (bert_size (c_mps cfg)) (cursor * 1024) 7 tr.
  Proof.
    intros Hmps Hb2. destruct (bert_size_pos _ Hmps) as [HB HBdiv]. set (B := bert_size (c_mps cfg)) in *.
    induction fuel as [|f IH]; intros s cursor mbse s' tr o Hc Hoff Hfrag; cbn [block1_loop].
    - intros H; inv H. exact I.
    - unfold block1_request, fragmentation_threshold. cbn [Z.geb Z.compare Pos.compare Pos.compare_cont].
      replace (blen (c_body cfg) >? c_mps cfg) with true by lia.
      destruct (extract_blocks_partition_bert_lemma (c_body cfg) (c_mps cfg) cursor Hmps Hc) as [_ Hok].
      destruct (Hok Hoff) as (pl & more & Hex & Hcat & Hmore & Hfin). rewrite Hex. cbn [bind]. fold B in Hmore, Hfin.
      set (rq := {| rq_block1 := Some (cursor, more, 7); rq_block2 := c_block2 cfg;
                    rq_size1 := if cursor =? 0 then Some (blen (c_body cfg)) else None; rq_payload := pl |}).
      assert (Hhead : forall rest, (if more then g_chain (c_body cfg) B (cursor * 1024 + B) 7 rest else no_block1 rest) ->
                g_chain (c_body cfg) B (cursor * 1024) 7 (rq :: rest)).
      { intros rest Hrest. cbn [g_chain rq_block1 rq rq_payload rq_size1]. unfold unit_of, blk_of. cbn [Z.eqb Pos.eqb].
        repeat (split; [first [lia | assumption | reflexivity]|]).
        split; [|exact Hrest]. destruct (cursor =? 0) eqn:E0.
        - replace (cursor * 1024 =? 0) with true by lia. reflexivity.
        - replace (cursor * 1024 =? 0) with false by lia. reflexivity. }
      destruct (serve s rq) as [s1 r] eqn:Hserve. destruct r as [resp|].
      2:{ intros H; inv H. apply Hhead. destruct more; [exact I|constructor]. }
      assert (Hwf : resp_wf resp = true).
      { apply (serve_wf s rq s1 resp); [cbn [rq rq_block1 bt_wf]; lia|cbn [rq rq_block2]; apply bt_wf6_wf; exact Hb2|exact Hserve]. }
      destruct (block1_react rq resp cursor 7) as [e|c2 e2|] eqn:Hreact.
      + intros H; inv H. apply Hhead. destruct more; [exact I|constructor].
      + (* continue: the block was non-final; the new cursor names offset + B at the (possibly lowered) exponent *)
        assert (Hc2 : more = true /\ 0 <= e2 <= 7 /\ c2 * unit_of e2 = (cursor + blen pl / 1024) * 1024).
        { destruct (rs_block1 resp) as [[[bn bm] t]|] eqn:Hb1; [|unfold block1_react in Hreact; rewrite Hb1 in Hreact; discriminate].
          assert (Ht : 0 <= t) by (unfold resp_wf in Hwf; rewrite Hb1 in Hwf; cbn [bt_wf] in Hwf; lia).
          rewrite (block1_react_7 rq resp cursor cursor more bn bm t eq_refl Hb1 Ht) in Hreact. cbn [rq rq_payload] in Hreact.
          destruct (negb (bn =? cursor)); [discriminate|].
          destruct (if 7 <=? t then (cursor + blen pl / 1024, 7) else ((cursor + blen pl / 1024) * 2 ^ (6 - t), t)) as [cc ee] eqn:Hp.
          apply reduce_7_offset in Hp; [|lia].
          destruct more; cbn [negb] in Hreact;
            repeat match type of Hreact with context [if ?b then _ else _] => destruct b end; inv Hreact; auto. }
        destruct Hc2 as (-> & He2 & Hc2). destruct (Hmore eq_refl) as [Hpl Hlt]. rewrite Hpl in Hc2.
        assert (Hq : 0 <= B / 1024) by (apply Z.div_pos; lia).
        assert (Hoff2 : c2 * unit_of e2 = cursor * 1024 + B) by lia.
        destruct (block1_loop serve f s1 cfg c2 e2 _) as [[s2 tr2] o2] eqn:R. intros H; inv H.
        apply Hhead. rewrite <- Hoff2.
        destruct (e2 =? 7) eqn:E7.
        * assert (e2 = 7) by lia. subst e2. unfold unit_of in *. cbn [Z.eqb Pos.eqb] in *.
          eapply IH; try eassumption; lia.
        * unfold unit_of in *. rewrite E7 in *. pose proof (bsize_pos e2 ltac:(lia)) as Hsz2.
          assert (Hc2' : 1 <= c2) by nia.
          apply (g_chain_mono _ _ _ e2 7); [lia|]. apply b1_chain_g; [lia|].
          eapply (block1_loop_chain serve (fun s rq s' r Hq H => serve_wf s rq s' r (bt_wf6_wf _ (proj1 (andb_prop _ _ Hq))) (bt_wf6_wf _ (proj2 (andb_prop _ _ Hq))) H)); try eassumption; try lia.
          unfold fragmentation_threshold. destruct (e2 >=? 6) eqn:E6; [lia|]. fold (bsize e2). assert (bsize e2 <= c2 * bsize e2) by nia. lia.
      + destruct (complete_by_requesting_block2 serve f s1 rq (clear_block1 resp) _) as [[s2 tr2] o2] eqn:R. intros H; inv H.
        apply complete_no_block1 in R. apply Hhead. destruct more; [apply no_block1_g_chain; exact R|exact R].
  Qed.

  Definition bert_wire_ok (cfg : ccfg) (tr : list request) : Prop :=
    match tr with
    | [] => True
    | rq :: rest =>
      if blen (c_body cfg) >? c_mps cfg then g_chain (c_body cfg) (bert_size (c_mps cfg)) 0 7 tr
      else rq_block1 rq = None /\ rq_payload rq = c_body cfg /\ rq_size1 rq = None /\ no_block1 rest
    end.

  Lemma run_bert_wire_ok cfg fuel s s' tr o : c_mbse cfg = 7 -> 1024 <= c_mps cfg -> bt_wf6 (c_block2 cfg) = true ->
    run serve fuel s cfg = (s', tr, o) -> bert_wire_ok cfg tr.
  Proof.
    intros Hm Hp Hb2. unfold run, bert_wire_ok. rewrite Hm. intros Hrun. destruct tr as [|rq rest]; [exact I|].
    destruct (blen (c_body cfg) >? c_mps cfg) eqn:Hfrag.
    - change 0 with (0 * 1024) at 1. eapply block1_loop_g_chain; try eassumption; lia.
    - destruct fuel as [|f]; cbn [block1_loop] in Hrun; [inv Hrun|].
      unfold block1_request, fragmentation_threshold in Hrun. cbn [Z.geb Z.compare Pos.compare Pos.compare_cont] in Hrun. rewrite Hfrag in Hrun.
      set (rq0 := {| rq_block1 := None; rq_block2 := c_block2 cfg; rq_size1 := None; rq_payload := c_body cfg |}) in *.
      destruct (serve s rq0) as [s1 r]. destruct r as [resp|]; [|inv Hrun; repeat split; constructor].
      unfold block1_react in Hrun. cbn [rq_block1 rq0] in Hrun.
      destruct (rs_block1 resp).
      + inv Hrun. repeat split; constructor.
      + destruct (complete_by_requesting_block2 serve f s1 rq0 _ _) as [[s2 tr2] o2] eqn:R. inv Hrun.
        apply complete_no_block1 in R. repeat split; assumption.
  Qed.
End BertAnyServer.

(* the scenario of the former finding (fixed in 166eafe): the first BERT message (2048 bytes) is acknowledged with exponent 6, the client
   goes on with NUM 2 = offset 2048 in 1024-byte blocks and the conforming server completes the body *)
Lemma bert_reduction_example : exists scf cfg st tr r,
  s_mis scf = None /\ c_mbse cfg = 7 /\
  run (serve_ref scf) 10 sstate0 cfg = (st, tr, Done r) /\
  map rq_block1 tr = [Some (0, true, 7); Some (2, true, 6); Some (3, true, 6); Some (4, false, 6)] /\
  sv_bodies st = [c_body cfg] /\ rs_code r = CHANGED.
Proof.
  exists {| s_policy1 := [6]; s_policy2 := [7]; s_reps := [(Some 10, mkbody 5 1)]; s_rep_at := []; s_atomic := true; s_mis := None; s_bert := 2 |},
         {| c_body := mkbody 5000 1; c_mps := 2048; c_mbse := 7; c_block2 := None |}.
  eexists _, _, _. split; [reflexivity|]. split; [reflexivity|]. split; [vm_compute; reflexivity|].
  split; [reflexivity|]. split; reflexivity.
Qed.

Record honest_bert_cfg (scf : scfg) (e : option Z) (rep : list Z) : Prop := {
  hb_mis : s_mis scf = None;
  hb_reps : s_reps scf = [(e, rep)];
  hb_rep_at : s_rep_at scf = [];
  hb_pol1 : Forall (fun x => 0 <= x) (s_policy1 scf);    (* ANY acknowledgement policy: the exponent may be lowered from 7 at any time *)
  hb_pol2 : forall k, 7 <= pol (s_policy2 scf) k 6;
  hb_bert : 0 < s_bert scf }.

Lemma bsize_6 : bsize 6 = 1024. Proof. reflexivity. Qed.

Section BertRef.
  Variable scf : scfg. Variable e : option Z. Variable rep : list Z.
  Hypothesis Hh : honest_bert_cfg scf e rep.
  Let B2 := 1024 * s_bert scf.

  Lemma remote_exp_7 : remote_exp scf = 7.
  Proof. unfold remote_exp. pose proof (hb_bert _ _ _ Hh). replace (0 <? s_bert scf) with true by lia. reflexivity. Qed.

  Lemma honest_is_bert st rq : honest scf st rq = honest_bert scf st rq.
  Proof. unfold honest. pose proof (hb_bert _ _ _ Hh). replace (0 <? s_bert scf) with true by lia. rewrite orb_true_r. reflexivity. Qed.

  Lemma current_rep_b k : nth (Z.to_nat (pol (s_rep_at scf) k 0)) (s_reps scf) (None, []) = (e, rep).
  Proof. rewrite (hb_rep_at _ _ _ Hh), (hb_reps _ _ _ Hh). unfold pol. destruct (Z.to_nat k); reflexivity. Qed.

  Lemma respond_bert k code b1 req_b2 n2 :
    (req_b2 = None /\ n2 = 0) \/ (exists m2, req_b2 = Some (n2, m2, 7)) -> 0 <= n2 -> n2 * 1024 < blen rep \/ (n2 = 0 /\ blen rep = 0) ->
    respond scf k code b1 req_b2 =
      {| rs_code := code; rs_block1 := b1;
         rs_block2 := (let more := n2 * 1024 + B2 <? blen rep in match req_b2 with None => if more then Some (0, more, 7) else None | Some _ => Some (n2, more, 7) end);
         rs_etag := e; rs_payload := bslice rep (n2 * 1024) (n2 * 1024 + B2); rs_maxexp := 7; rs_observe := false |}.
  Proof.
    intros Hreq Hn Hoff. unfold respond. rewrite remote_exp_7. pose proof (hb_pol2 _ _ _ Hh k) as Hp. pose proof (hb_bert _ _ _ Hh) as Hb.
    pose proof (blen_nonneg rep) as Hnn.
    assert (Hwant : (match req_b2 with Some (_, _, s) => s | None => 7 end =? 7) && (7 <=? pol (s_policy2 scf) k 6) = true).
    { destruct Hreq as [[-> _]|(m2 & ->)]; lia. }
    rewrite Hwant. rewrite current_rep_b. replace (Z.max 1 (s_bert scf)) with (s_bert scf) by lia. fold B2.
    assert (Hn2 : match req_b2 with Some (n, _, _) => n | None => 0 end = n2) by (destruct Hreq as [[-> ->]|(m2 & ->)]; reflexivity).
    rewrite Hn2. replace ((n2 * 1024 >? blen rep) || (n2 * 1024 =? blen rep) && (0 <? n2)) with false by lia. reflexivity.
  Qed.

  Lemma block2_loop_bert_ref fuel : forall st t acc nn j,
    rs_block2 acc = Some (nn, true, 7) -> rs_payload acc = bto rep (j * 1024) -> 0 < j * 1024 < blen rep -> rs_etag acc = e ->
    (Z.to_nat (blen rep - j * 1024) < fuel)%nat ->
    exists st' tr r, block2_loop (serve_ref scf) fuel st t acc 7 = (st', tr, Done r) /\
       rs_payload r = rep /\ rs_etag r = e /\ rs_code r = rs_code acc /\ rs_block1 r = rs_block1 acc /\
       sv_bodies st' = sv_bodies st /\ no_block1 tr.
  Proof.
    pose proof (hb_bert _ _ _ Hh) as Hb. assert (HB2 : 1024 <= B2) by (subst B2; lia).
    induction fuel as [|f IH]; intros st t acc nn j Hblk Hpl Hgot Het Hfuel; [lia|].
    set (got := j * 1024) in *.
    assert (Hlen : blen (rs_payload acc) = got) by (rewrite Hpl; apply blen_bto; lia).
    cbn [block2_loop]. unfold generate_next_block2_request. rewrite Hblk. rewrite bt_size_spec. cbn [bind]. rewrite bt_start_spec. cbn [bind].
    change (Z.min 7 6) with 6. rewrite bsize_6, Hlen.
    assert (Hdiv : got / 1024 = j) by (subst got; apply Z.div_mul; lia). rewrite Hdiv. fold got. rewrite Z.eqb_refl. cbn [massert bind].
    unfold bt_reduced_to. cbn [Z.geb Z.compare Pos.compare Pos.compare_cont bind].
    set (rq := {| rq_block1 := None; rq_block2 := Some (j, false, 7); rq_size1 := rq_size1 t; rq_payload := [] |}).
    assert (Hj : 0 < j) by lia.
    assert (Hserve : serve_ref scf st rq = ({| sv_asm := sv_asm st; sv_bodies := sv_bodies st; sv_step := sv_step st + 1 |},
                                             SResp (respond scf (sv_step st) CONTENT None (Some (j, false, 7))))).
    { unfold serve_ref. rewrite honest_is_bert. unfold honest_bert. cbn [rq rq_block1 rq_block2]. replace (0 <? j) with true by lia.
      rewrite (hb_mis _ _ _ Hh). reflexivity. }
    rewrite Hserve. rewrite (respond_bert _ _ _ _ j) by (eauto || lia). fold got. cbv zeta.
    cbn [rs_block2]. rewrite append_response_block_eq. unfold append_inline. cbn [rs_block2 rs_payload rs_etag].
    unfold bt_is_valid_for_payload_size, bt_is_bert. cbn [Z.eqb Pos.eqb bind]. rewrite bt_start_spec. cbn [bind].
    change (Z.min 7 6) with 6. rewrite bsize_6. fold got. rewrite Hlen, Z.eqb_refl, Het, etag_eqb_refl. cbn [negb].
    destruct (got + B2 <? blen rep) eqn:Emore.
    - rewrite blen_bslice by lia.
      assert (Hmod : (got + B2 - got) mod 1024 =? 0 = true).
      { replace (got + B2 - got) with (s_bert scf * 1024) by (subst B2; lia). rewrite Z.mod_mul by lia. reflexivity. }
      rewrite Hmod. cbn [bind negb bt_more fst snd].
      match goal with |- context [block2_loop _ f ?s1 t ?a 7] =>
        destruct (IH s1 t a j (j + s_bert scf)) as (st' & tr & r & Hrun & H1 & H2 & H3 & H4 & H5 & H6) end;
        try reflexivity; cbn [rs_payload]; try (subst B2 got; lia).
      + rewrite Hpl. fold got. rewrite bto_bslice by lia. f_equal. subst B2 got. lia.
      + rewrite Hrun. exists st', (rq :: tr), r. repeat split; try assumption. constructor; [reflexivity|assumption].
    - cbn [bind negb bt_more fst snd].
      eexists _, [rq], _. split; [reflexivity|]. cbn [rs_payload rs_etag rs_code rs_block1 sv_bodies].
      repeat split; try reflexivity.
      + rewrite Hpl. fold got. rewrite bto_bslice by lia. apply bto_all. lia.
      + repeat constructor.
  Qed.

  Lemma complete_bert_ref fuel st t k code b1 :
    (Z.to_nat (blen rep) < fuel)%nat -> rq_block2 t = None ->
    exists st' tr r,
      complete_by_requesting_block2 (serve_ref scf) fuel st t (clear_block1 (respond scf k code b1 None)) 7 = (st', tr, Done r) /\
      rs_payload r = rep /\ rs_etag r = e /\ rs_code r = code /\ rs_block1 r = None /\ sv_bodies st' = sv_bodies st /\ no_block1 tr.
  Proof.
    intros Hfuel Ht. pose proof (hb_bert _ _ _ Hh) as Hb. assert (HB2 : 1024 <= B2) by (subst B2; lia). pose proof (blen_nonneg rep) as Hnn.
    rewrite (respond_bert k code b1 None 0) by (auto || lia). cbv zeta. cbn [Z.mul Z.add].
    unfold complete_by_requesting_block2, unexpected_first_block. cbn [clear_block1 rs_block2].
    destruct (B2 <? blen rep) eqn:E.
    - cbn [bt_num bt_more fst snd Z.eqb negb andb].
      match goal with |- context [block2_loop _ fuel st t ?a 7] =>
        destruct (block2_loop_bert_ref fuel st t a 0 (s_bert scf)) as (st' & tr & r & Hrun & H1 & H2 & H3 & H4 & H5 & H6) end;
        try reflexivity; cbn [clear_block1 rs_payload rs_etag]; try (subst B2; lia).
      + replace (s_bert scf * 1024) with B2 by (unfold B2; lia). reflexivity.
      + exists st', tr, r. repeat split; assumption.
    - eexists _, [], _. split; [reflexivity|]. cbn [rs_payload rs_etag rs_code rs_block1]. repeat split; try reflexivity.
      + rewrite bslice_0. apply bto_all. lia.
      + constructor.
  Qed.
End BertRef.

Lemma respond_block1 scf k code b1 req_b2 : rs_block1 (respond scf k code b1 req_b2) = b1 \/ rs_block1 (respond scf k code b1 req_b2) = None.
Proof.
  unfold respond. destruct (_ && _).
  - destruct (nth _ _ _) as [etag rp]. destruct (_ || _); [right; reflexivity|left; reflexivity].
  - unfold slice_response. destruct (nth _ _ _) as [etag rp]. destruct req_b2 as [[[n2 m2] s2]|]; destruct (_ || _); (right; reflexivity) || (left; reflexivity).
Qed.

Lemma b1_unit_eq szx : b1_unit szx = unit_of szx. Proof. reflexivity. Qed.
Lemma unit_of_pos szx : 0 <= szx <= 7 -> 16 <= unit_of szx.
Proof. intros H. unfold unit_of. destruct (szx =? 7) eqn:E; [lia|]. apply bsize_pos. lia. Qed.

Section BertRef2.
  Variable scf : scfg. Variable e : option Z. Variable rep : list Z.
  Hypothesis Hh : honest_bert_cfg scf e rep.
  Variable cfg : ccfg.
  Hypothesis Hmbse : c_mbse cfg = 7.
  Hypothesis Hmps : 1024 <= c_mps cfg.
  Hypothesis Hb2 : c_block2 cfg = None.
  Let srv := serve_ref scf.
  Let body := c_body cfg.
  Let B := bert_size (c_mps cfg).

  Lemma serve_ref_bert_b1 st n (m : bool) szx s1 pl :
    let asm := if n =? 0 then (@nil Z) else sv_asm st in
    n * unit_of szx = blen asm ->
    (if szx =? 7 then m && ((blen pl =? 0) || negb (blen pl mod 1024 =? 0))
     else (m && negb (blen pl =? unit_of szx)) || (negb m && (unit_of szx <? blen pl))) = false ->
    let k := sv_step st in let aszx := Z.min szx (pol (s_policy1 scf) k 6) in
    srv st {| rq_block1 := Some (n, m, szx); rq_block2 := None; rq_size1 := s1; rq_payload := pl |} =
      if m then ({| sv_asm := asm ++ pl; sv_bodies := sv_bodies st; sv_step := k + 1 |},
                 SResp {| rs_code := if s_atomic scf then CONTINUE else CHANGED; rs_block1 := Some (n, s_atomic scf, aszx); rs_block2 := None;
                          rs_etag := None; rs_payload := []; rs_maxexp := 7; rs_observe := false |})
      else ({| sv_asm := []; sv_bodies := (asm ++ pl) :: sv_bodies st; sv_step := k + 1 |},
            SResp (respond scf k CHANGED (Some (n, false, aszx)) None)).
  Proof.
    intros asm Hoff Hbad k aszx. unfold srv, serve_ref. rewrite (honest_is_bert scf e rep Hh). unfold honest_bert.
    cbn [rq_block1 rq_payload rq_block2]. rewrite !b1_unit_eq. fold asm. fold k. fold aszx.
    rewrite Hoff, Z.eqb_refl. cbn [negb]. rewrite Hbad. rewrite (hb_mis _ _ _ Hh). rewrite (remote_exp_7 scf e rep Hh).
    destruct m; reflexivity.
  Qed.

  Lemma block1_loop_bertsrv fuel : forall st cursor size_exp,
    0 <= size_exp <= 7 -> 0 <= cursor -> cursor * unit_of size_exp < blen body ->
    blen body > fragmentation_threshold (c_mps cfg) size_exp ->
    (cursor <> 0 -> sv_asm st = bto body (cursor * unit_of size_exp)) ->
    (Z.to_nat (blen body - cursor * unit_of size_exp) + Z.to_nat (blen rep) + 1 < fuel)%nat ->
    exists st' tr r, block1_loop srv fuel st cfg cursor size_exp 7 = (st', tr, Done r) /\
      sv_bodies st' = body :: sv_bodies st /\ rs_payload r = rep /\ rs_etag r = e /\ rs_code r = CHANGED /\ rs_block1 r = None.
  Proof.
    destruct (bert_size_pos _ Hmps) as [HB HBdiv]. fold B in HB, HBdiv. pose proof (blen_nonneg rep) as Hnn.
    induction fuel as [|f IH]; intros st cursor size_exp Hs Hc Hoff Hfrag Hasm Hfuel; [lia|].
    pose proof (unit_of_pos size_exp Hs) as Hu.
    set (k := sv_step st). set (aszx := Z.min size_exp (pol (s_policy1 scf) k 6)).
    assert (Hpol : 0 <= pol (s_policy1 scf) k 6) by (apply pol_nonneg; [apply (hb_pol1 _ _ _ Hh)|lia]).
    set (asm := if cursor =? 0 then [] else sv_asm st).
    assert (Hasm' : asm = bto body (cursor * unit_of size_exp)).
    { subst asm. destruct (cursor =? 0) eqn:E0; [replace cursor with 0 by lia; reflexivity|apply Hasm; lia]. }
    assert (Hasmlen : cursor * unit_of size_exp = blen asm) by (rewrite Hasm', blen_bto; [reflexivity|lia]).
    (* the block that is sent, in either regime *)
    assert (Hblock : exists pl more, block1_request cfg cursor size_exp =
               Ok {| rq_block1 := Some (cursor, more, size_exp); rq_block2 := None;
                     rq_size1 := if cursor =? 0 then Some (blen body) else None; rq_payload := pl |} /\
             bto body (cursor * unit_of size_exp) ++ pl = bto body (cursor * unit_of size_exp + blen pl) /\
             (more = true -> blen pl = blk_of B size_exp /\ cursor * unit_of size_exp + blk_of B size_exp < blen body) /\
             (more = false -> 0 < blen pl <= blk_of B size_exp /\ cursor * unit_of size_exp + blen pl = blen body)).
    { unfold block1_request. fold body. replace (blen body >? fragmentation_threshold (c_mps cfg) size_exp) with true by lia. rewrite Hb2.
      unfold unit_of, blk_of in *. destruct (size_exp =? 7) eqn:E7.
      - assert (size_exp = 7) by lia. subst size_exp.
        destruct (extract_blocks_partition_bert_lemma body (c_mps cfg) cursor Hmps Hc) as [_ Hok].
        destruct (Hok Hoff) as (pl & more & Hex & Hcat & Hmore & Hfin). rewrite Hex. cbn [bind]. exists pl, more. auto.
      - destruct (extract_blocks_partition_lemma body size_exp (c_mps cfg) cursor ltac:(lia) Hc) as [_ Hok].
        destruct (Hok Hoff) as (pl & more & Hex & Hcat & Hmore & Hfin). rewrite Hex. cbn [bind]. exists pl, more. auto. }
    destruct Hblock as (pl & more & Hrq & Hcat & Hmore & Hfin).
    assert (Hblk : 16 <= blk_of B size_exp) by (unfold blk_of, unit_of in *; destruct (size_exp =? 7); lia).
    cbn [block1_loop]. rewrite Hrq.
    assert (Hbad : (if size_exp =? 7 then more && ((blen pl =? 0) || negb (blen pl mod 1024 =? 0))
                    else (more && negb (blen pl =? unit_of size_exp)) || (negb more && (unit_of size_exp <? blen pl))) = false).
    { unfold blk_of, unit_of in *. destruct (size_exp =? 7) eqn:E7; destruct more; cbn [andb orb negb]; try reflexivity.
      - destruct (Hmore eq_refl) as [Hpl _]. assert (blen pl mod 1024 = 0) by (rewrite Hpl, <- HBdiv; apply Z.mod_mul; lia). lia.
      - destruct (Hmore eq_refl) as [Hpl _]. lia.
      - destruct (Hfin eq_refl) as [Hpl _]. lia. }
    rewrite (serve_ref_bert_b1 st cursor more size_exp _ pl Hasmlen Hbad). fold asm k aszx.
    destruct more.
    - destruct (Hmore eq_refl) as [Hpl Hlt].
      cbn [rs_maxexp Z.ltb Z.compare Pos.compare Pos.compare_cont].
      match goal with |- context [block1_react ?rq ?resp cursor size_exp] =>
        assert (Hreact : exists c2 e2, block1_react rq resp cursor size_exp = B1Continue c2 e2 /\
                            0 <= e2 <= size_exp /\ c2 * unit_of e2 = cursor * unit_of size_exp + blk_of B size_exp) end.
      { unfold blk_of, unit_of in *. destruct (size_exp =? 7) eqn:E7.
        - assert (size_exp = 7) by lia. subst size_exp.
          match goal with |- context [block1_react ?rq ?resp cursor 7] =>
            rewrite (block1_react_7 rq resp cursor cursor true cursor (s_atomic scf) aszx eq_refl eq_refl ltac:(subst aszx; lia)) end.
          rewrite Z.eqb_refl. cbn [negb rq_payload rs_observe rs_code].
          destruct (if 7 <=? aszx then (cursor + blen pl / 1024, 7) else ((cursor + blen pl / 1024) * 2 ^ (6 - aszx), aszx)) as [cc ee] eqn:Hp.
          pose proof Hp as Hp2. apply reduce_7_offset in Hp2; [|subst aszx; lia]. unfold unit_of in Hp2. rewrite Hpl in Hp2.
          exists cc, ee. split; [destruct (s_atomic scf); reflexivity|]. split; [lia|]. destruct Hp2 as [_ Hp2]. rewrite Hp2. lia.
        - match goal with |- context [block1_react ?rq ?resp cursor size_exp] =>
            assert (Hex : exists c2 e2, block1_react rq resp cursor size_exp = B1Continue c2 e2) end.
          { unfold block1_react. cbn [rs_block1 rq_block1 bt_num bt_more bt_szx fst snd rs_code rs_observe]. rewrite Z.eqb_refl. cbn [negb].
            destruct (reduce_size _ _ _ _) as [c2 e2]. destruct (s_atomic scf); [eauto|]. cbn. eauto. }
          destruct Hex as (c2 & e2 & Hex). exists c2, e2. split; [exact Hex|].
          match type of Hex with block1_react ?rq ?resp _ _ = _ =>
            destruct (block1_react_continue rq resp cursor size_exp cursor true size_exp c2 e2 ltac:(lia) eq_refl) as (_ & He2 & Hc2);
              [unfold resp_wf; cbn [rs_block1 rs_block2 bt_wf]; subst aszx; lia|exact Hex|] end.
          split; [lia|]. replace (e2 =? 7) with false by lia. lia. }
      destruct Hreact as (c2 & e2 & Hreact & He2 & Hc2). rewrite Hreact.
      pose proof (unit_of_pos e2 ltac:(lia)) as Hu2. assert (Hc2' : 1 <= c2) by nia.
      match goal with |- context [block1_loop srv f ?s1 cfg c2 e2 7] =>
        destruct (IH s1 c2 e2) as (st' & tr & r & Hrun & H1 & H2 & H3 & H4 & H5) end; try lia.
      + unfold fragmentation_threshold in *. destruct (e2 >=? 6) eqn:E6.
        * replace (size_exp >=? 6) with true in Hfrag by lia. exact Hfrag.
        * assert (Hlt2 : c2 * unit_of e2 < blen body) by lia. unfold unit_of in Hlt2, Hu2. replace (e2 =? 7) with false in Hlt2, Hu2 by lia.
          fold (bsize e2). assert (bsize e2 <= c2 * bsize e2) by nia. lia.
      + intros _. cbn [sv_asm]. rewrite Hasm', Hc2. rewrite Hcat, Hpl. reflexivity.
      + rewrite Hrun. eexists _, _, _. split; [reflexivity|]. cbn [sv_bodies] in H1. repeat split; assumption.
    - destruct (Hfin eq_refl) as [Hpl Hend].
      rewrite (respond_bert scf e rep Hh _ _ _ None 0) by (auto || lia). cbv zeta. cbn [Z.mul Z.add rs_maxexp Z.ltb Z.compare Pos.compare Pos.compare_cont].
      match goal with |- context [block1_react ?rq ?resp cursor size_exp] => assert (Hreact : block1_react rq resp cursor size_exp = B1Break) end.
      { unfold block1_react. cbn [rs_block1 rq_block1 bt_num bt_more bt_szx fst snd rs_code]. rewrite Z.eqb_refl. cbn [negb].
        destruct (reduce_size _ _ _ _). reflexivity. }
      rewrite Hreact.
      match goal with |- context [complete_by_requesting_block2 srv f ?s1 ?t _ 7] =>
        destruct (complete_bert_ref scf e rep Hh f s1 t k CHANGED (Some (cursor, false, aszx))) as (st' & tr & r & Hrun & H1 & H2 & H3 & H4 & H5 & H6) end; try lia; try reflexivity.
      rewrite (respond_bert scf e rep Hh _ _ _ None 0) in Hrun by (auto || lia). cbv zeta in Hrun. cbn [Z.mul Z.add] in Hrun.
      unfold srv. rewrite Hrun. eexists _, _, _. split; [reflexivity|]. cbn [sv_bodies] in H5. rewrite H5.
      repeat split; try assumption. f_equal. rewrite Hasm', Hcat. apply bto_all. lia.
  Qed.

  Lemma serve_ref_bert_wf st rq st' r : serve_ref scf st rq = (st', SResp r) -> bt_wf (rq_block1 rq) = true -> bt_wf (rq_block2 rq) = true -> resp_wf r = true.
  Proof.
    intros Hs Hw1 Hw2. unfold serve_ref in Hs. rewrite (honest_is_bert scf e rep Hh), (hb_mis _ _ _ Hh) in Hs.
    assert (Hpol : 0 <= pol (s_policy1 scf) (sv_step st) 6) by (apply pol_nonneg; [apply (hb_pol1 _ _ _ Hh)|lia]).
    assert (Hresp : forall k code b1 rb2, bt_wf b1 = true -> bt_wf rb2 = true -> resp_wf (respond scf k code b1 rb2) = true).
    { intros k code b1 rb2 H1 H2. unfold respond. destruct (_ && _).
      - destruct (nth _ _ _) as [etag rp]. destruct (_ || _); [reflexivity|]. unfold resp_wf. cbn [rs_block1 rs_block2]. rewrite H1. cbn [andb].
        destruct rb2 as [[[n2 m2] s2]|]; cbn [bt_wf] in *; [lia|]. destruct (_ <? _); reflexivity.
      - assert (Hp2 : Forall (fun x => 0 <= x) (s_policy2 scf) \/ True) by (right; exact I).
        unfold slice_response. destruct (nth _ _ _) as [etag rp]. pose proof (hb_pol2 _ _ _ Hh k) as Hp.
        destruct rb2 as [[[n2 m2] s2]|]; cbn [bt_wf] in H2.
        + match goal with |- context [if ?c then plain _ else _] => destruct c end; [reflexivity|].
          unfold resp_wf, set_maxexp. cbn [rs_block1 rs_block2]. rewrite H1. cbn [andb bt_wf].
          set (s3 := Z.min (Z.min s2 6) (pol (s_policy2 scf) k 6)). assert (0 <= s3 <= 6) by (subst s3; lia).
          assert (0 < 2 ^ (s3 + 4)) by (apply Z.pow_pos_nonneg; lia). assert (0 <= 2 ^ (Z.min s2 6 + 4)) by (apply Z.pow_nonneg; lia).
          assert (0 <= n2 * 2 ^ (Z.min s2 6 + 4) / 2 ^ (s3 + 4)) by (apply Z.div_pos; nia). lia.
        + match goal with |- context [if ?c then plain _ else _] => destruct c end; [reflexivity|].
          unfold resp_wf, set_maxexp. cbn [rs_block1 rs_block2]. rewrite H1. cbn [andb].
          match goal with |- context [if ?c then Some _ else None] => destruct c end; [|reflexivity]. cbn [bt_wf]. change (Z.min 6 6) with 6. lia. }
    unfold honest_bert in Hs. destruct (rq_block1 rq) as [[[n m] szx]|]; cbn [bt_wf] in Hw1.
    - destruct (negb _) in Hs; [inv Hs; reflexivity|].
      match type of Hs with context [if ?c then (_, set_maxexp _ (plain BAD_REQUEST)) else _] => destruct c end; [inv Hs; reflexivity|].
      destruct m; inv Hs.
      + unfold resp_wf. cbn [rs_block1 rs_block2 bt_wf]. lia.
      + apply Hresp; [cbn [bt_wf]; lia|assumption].
    - destruct (rq_block2 rq) as [[[n2 m2] s2]|] eqn:Hrb2.
      + destruct (0 <? n2); inv Hs; apply Hresp; try reflexivity; assumption.
      + inv Hs. apply Hresp; reflexivity.
  Qed.

  Lemma transfer_correct_bert_lemma fuel :
    (Z.to_nat (blen body) + Z.to_nat (blen rep) + 1 < fuel)%nat ->
    exists st tr r, run srv fuel sstate0 cfg = (st, tr, Done r) /\
      sv_bodies st = [body] /\ rs_payload r = rep /\ rs_etag r = e /\ is_successful (rs_code r) = true /\ rs_block1 r = None /\
      bert_wire_ok cfg tr.
  Proof.
    intros Hfuel.
    assert (Hgoal : exists st tr r, run srv fuel sstate0 cfg = (st, tr, Done r) /\
      sv_bodies st = [body] /\ rs_payload r = rep /\ rs_etag r = e /\ is_successful (rs_code r) = true /\ rs_block1 r = None).
    2:{ destruct Hgoal as (st & tr & r & Hrun & H). exists st, tr, r. split; [exact Hrun|].
        destruct H as (H1 & H2 & H3 & H4 & H5). repeat split; try assumption.
        eapply (run_bert_wire_ok srv) with (fuel := fuel) (s := sstate0); try eassumption.
        - intros s rq s' r0 Hw1 Hw2 Hs. eapply serve_ref_bert_wf; eassumption.
        - rewrite Hb2. reflexivity. }
    unfold run. rewrite Hmbse. pose proof (blen_nonneg body) as Hnb.
    destruct (blen body >? c_mps cfg) eqn:Hfrag.
    - destruct (block1_loop_bertsrv fuel sstate0 0 7) as (st' & tr & r & Hrun & H1 & H2 & H3 & H4 & H5); try lia.
      + unfold fragmentation_threshold. cbn [Z.geb Z.compare Pos.compare Pos.compare_cont]. lia.
      + exists st', tr, r. rewrite H4. repeat split; assumption.
    - destruct fuel as [|f]; [lia|]. cbn [block1_loop]. unfold block1_request, fragmentation_threshold. cbn [Z.geb Z.compare Pos.compare Pos.compare_cont].
      fold body. rewrite Hfrag, Hb2.
      set (rq0 := {| rq_block1 := None; rq_block2 := None; rq_size1 := None; rq_payload := body |}).
      assert (Hserve : srv sstate0 rq0 = ({| sv_asm := []; sv_bodies := [body]; sv_step := 1 |}, SResp (respond scf 0 CONTENT None None))).
      { unfold srv, serve_ref. rewrite (honest_is_bert scf e rep Hh). unfold honest_bert. cbn [rq0 rq_block1 rq_block2 rq_payload sstate0 sv_step sv_bodies sv_asm].
        rewrite (hb_mis _ _ _ Hh). reflexivity. }
      rewrite Hserve. pose proof (blen_nonneg rep) as Hnn.
      rewrite (respond_bert scf e rep Hh _ _ _ None 0) by (auto || lia). cbv zeta. cbn [Z.mul Z.add rs_maxexp Z.ltb Z.compare Pos.compare Pos.compare_cont].
      unfold block1_react. cbn [rs_block1].
      match goal with |- context [complete_by_requesting_block2 srv f ?s1 ?t _ 7] =>
        destruct (complete_bert_ref scf e rep Hh f s1 t 0 CONTENT None) as (st' & tr & r & Hrun & H1 & H2 & H3 & H4 & H5 & H6) end; try lia; try reflexivity.
      rewrite (respond_bert scf e rep Hh _ _ _ None 0) in Hrun by (auto || lia). cbv zeta in Hrun. cbn [Z.mul Z.add] in Hrun.
      unfold srv. rewrite Hrun. eexists _, _, _. split; [reflexivity|]. rewrite H5, H3. repeat split; assumption.
  Qed.
End BertRef2.
