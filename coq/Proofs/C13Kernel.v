(* C13 — tie T for the sender sequence number kernels: the hand-written [new_sequence_number] / [post_seqnoincrease] of
   Model/C13.v ARE the code translated from aiocoap/oscore.py (CanProtect.new_sequence_number,
   FilesystemSecurityContext.post_seqnoincrease; coq/Gen/oscore_seqno.v, translator job oscore_seqno, regenerated from the
   source on every check), under the projection of the process record onto the four counters and with self._store()
   instantiated by the model's four file-system steps (a crash inside _store = the exception [Crashed]).
   Removable: only the last section of Props/C13.v depends on this file. *)
From Verif Require Import Lib.Py Lib.Tactics Gen.oscore_replay Model.C12 Model.C13.
From Verif Require Gen.oscore_seqno Gen.oscore_rwchanged Model.C13Kernel.
Open Scope Z_scope.

Definition proj (p : proc) : oscore_seqno.fsc :=
  {| oscore_seqno.fsc_sender_sequence_number := ssn p; oscore_seqno.fsc_sequence_number_persisted := persisted p;
     oscore_seqno.fsc_sequence_number_chunksize := chunk p; oscore_seqno.fsc_sequence_number_chunksize_limit := limit p |}.
(* the process record with the counters taken from [s] (everything _store reads besides them is untouched by the kernels) *)
Definition with_fsc (p : proc) (s : oscore_seqno.fsc) : proc :=
  {| ssn := oscore_seqno.fsc_sender_sequence_number s; persisted := oscore_seqno.fsc_sequence_number_persisted s;
     chunk := oscore_seqno.fsc_sequence_number_chunksize s; limit := oscore_seqno.fsc_sequence_number_chunksize_limit s;
     wpers := wpers p; uc := uc p; pend := pend p |}.
Definition Crashed : exn := OtherError 13.
(* self._store(): the model's file-system steps on disk [d] with crash plan [a]; dying inside it aborts the caller *)
Definition store_cb (p : proc) (d : disk) (a : option Z) (s : oscore_seqno.fsc) : M oscore_seqno.fsc :=
  if snd (_store (with_fsc p s) d a) then Raise Crashed else Ok s.
Definition lift {A B} (f : proc -> A -> B) (x : proc * disk * res A) : M B :=
  match x with (p', _, Val v) => Ok (f p' v) | (_, _, Exn e) => Raise e | (_, _, Died) => Raise Crashed end.

Lemma max_seqno_is_source : oscore_seqno.MAX_SEQNO = C13.MAX_SEQNO.
Proof. reflexivity. Qed.

Theorem post_seqnoincrease_is_source p d a :
  oscore_seqno.post_seqnoincrease (store_cb p d a) (proj p) = lift (fun p' u => (proj p', u)) (C13.post_seqnoincrease p d a) /\
  (let '(p', d', _) := C13.post_seqnoincrease p d a in
   uc p' = uc p /\ wpers p' = wpers p /\ d' = if ssn p >? persisted p then fst (_store p' d a) else d).
Proof.
  unfold oscore_seqno.post_seqnoincrease, C13.post_seqnoincrease, store_cb, lift, proj.
  cbn [oscore_seqno.fsc_sender_sequence_number oscore_seqno.fsc_sequence_number_persisted
       oscore_seqno.fsc_sequence_number_chunksize oscore_seqno.fsc_sequence_number_chunksize_limit].
  destruct (ssn p >? persisted p); [|cbn; auto].
  unfold with_fsc, set_chunk, set_persisted.
  cbn [oscore_seqno.fsc_sender_sequence_number oscore_seqno.fsc_sequence_number_persisted
       oscore_seqno.fsc_sequence_number_chunksize oscore_seqno.fsc_sequence_number_chunksize_limit
       ssn persisted chunk limit wpers uc pend].
  set (q := {| ssn := ssn p; persisted := persisted p + chunk p; chunk := Z.min (chunk p * 2) (limit p); limit := limit p;
              wpers := wpers p; uc := uc p; pend := pend p |}).
  destruct (_store q d a) as [d' died] eqn:Es.
  cbn [snd fst]. destruct died; cbn [bind]; [cbn; rewrite Es; auto|].
  cbn [oscore_seqno.fsc_sender_sequence_number oscore_seqno.fsc_sequence_number_persisted].
  destruct (ssn p <=? persisted p + chunk p); cbn; rewrite Es; auto.
Qed.

Theorem new_sequence_number_is_source p d a :
  oscore_seqno.new_sequence_number (store_cb p d a) (proj p) = lift (fun p' v => (proj p', v)) (C13.new_sequence_number p d a) /\
  (let '(p', d', _) := C13.new_sequence_number p d a in
   uc p' = uc p /\ wpers p' = wpers p /\
   d' = if ssn p >=? C13.MAX_SEQNO then d else if ssn p + 1 >? persisted p then fst (_store p' d a) else d).
Proof.
  unfold oscore_seqno.new_sequence_number, C13.new_sequence_number.
  change oscore_seqno.MAX_SEQNO with C13.MAX_SEQNO.
  cbn [proj oscore_seqno.fsc_sender_sequence_number oscore_seqno.fsc_sequence_number_persisted
       oscore_seqno.fsc_sequence_number_chunksize oscore_seqno.fsc_sequence_number_chunksize_limit].
  destruct (ssn p >=? C13.MAX_SEQNO); [cbn; auto|].
  pose proof (post_seqnoincrease_is_source (set_ssn p (ssn p + 1)) d a) as [H1 H2].
  change (store_cb (set_ssn p (ssn p + 1)) d a) with (store_cb p d a) in H1.
  unfold proj in H1; cbn [set_ssn ssn persisted chunk limit] in H1. rewrite H1. clear H1.
  destruct (C13.post_seqnoincrease (set_ssn p (ssn p + 1)) d a) as [[p' d'] [u|e|]];
    cbn [lift bind set_ssn ssn persisted uc wpers] in *; auto.
Qed.

(* ---------- FilesystemSecurityContext._replay_window_changed ---------- *)
Definition projw (p : proc) : oscore_rwchanged.rwc := {| oscore_rwchanged.rwc_replay_window_persisted := wpers p |}.
Definition store_cbw (p : proc) (d : disk) (a : option Z) (s : oscore_rwchanged.rwc) : M oscore_rwchanged.rwc :=
  if snd (_store (set_wpers p (oscore_rwchanged.rwc_replay_window_persisted s)) d a) then Raise Crashed else Ok s.
Theorem replay_window_changed_is_source p d a :
  oscore_rwchanged.replay_window_changed (store_cbw p d a) (projw p) =
    (let '(p', _, died) := C13._replay_window_changed p d a in if died then Raise Crashed else Ok (projw p', tt)) /\
  (let '(p', d', _) := C13._replay_window_changed p d a in
   p' = (if wpers p then set_wpers p false else p) /\ d' = if wpers p then fst (_store p' d a) else d).
Proof.
  unfold oscore_rwchanged.replay_window_changed, C13._replay_window_changed, store_cbw, projw.
  cbn [oscore_rwchanged.rwc_replay_window_persisted].
  destruct (wpers p) eqn:Ew; [|cbn; rewrite Ew; auto].
  destruct (_store (set_wpers p false) d a) as [d' died] eqn:Es.
  cbn [snd fst]. destruct died; cbn; rewrite Es; auto.
Qed.
