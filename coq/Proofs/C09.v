(* C09 — proofs about the rendering decision and the pipes of one request (Model/C09.v) *)
From Coq Require Import String Ascii.
From Verif Require Import Lib.Py Lib.Tactics Model.C09.
Open Scope Z_scope.

(* ================================================================ the decision table *)
Definition bare_500 : msg := mk_msg INTERNAL_SERVER_ERROR [].

Lemma default_code_table : forall c,
  default_code c = (if (c =? 1) || (c =? 5) then 69 else if c =? 4 then 66 else 68).
Proof. intros c. reflexivity. Qed.

(* a context without a site: 4.04 *)
Lemma no_site_404 : forall r, final_message None r = Some (mk_msg NOT_FOUND (ascii_bytes "not a server")).
Proof. reflexivity. Qed.
(* unknown path: 4.04 with the (empty) default diagnostic *)
Lemma unknown_path_404 : forall s r, find_resource s (r_path r) = None ->
  final_message (Some s) r = Some (mk_msg NOT_FOUND []).
Proof. intros s r H. unfold final_message, respond. rewrite H. reflexivity. Qed.
(* no render_<method> on the resource: 4.05 *)
Lemma no_method_405 : forall s r methods, find_resource s (r_path r) = Some (Plain methods) ->
  existsb (Z.eqb (r_code r)) methods = false ->
  final_message (Some s) r = Some (mk_msg METHOD_NOT_ALLOWED
     (if is_request (r_code r) then ascii_bytes "Error: Method not allowed!" else ascii_bytes "Error: Method not recognized!")).
Proof.
  intros s r methods H1 H2. unfold final_message, respond, respond_plain, render. rewrite H1, H2.
  destruct (is_request (r_code r)); reflexivity.
Qed.

(* the plain path: a resource.Resource, or an observable resource asked without Observe=0 (Resource._render_to_pipe) *)
Definition plain_methods (s : site) (r : request) : option (list Z) :=
  match find_resource s (r_path r) with
  | Some (Plain ms) => Some ms
  | Some (Observable ms _) => if observing r then None else Some ms
  | _ => None
  end.
Definition handled (s : site) (r : request) (methods : list Z) : Prop :=
  plain_methods s r = Some methods /\ is_request (r_code r) = true /\
  existsb (Z.eqb (r_code r)) methods = true.

Lemma plain_respond : forall s r methods, plain_methods s r = Some methods -> respond (Some s) r = respond_plain methods r.
Proof.
  intros s r methods H. unfold plain_methods in H. unfold respond.
  destruct (find_resource s (r_path r)) as [[ms| |ms mode]|]; try discriminate.
  - inversion H; reflexivity.
  - destruct (observing r); [discriminate|]. inversion H; reflexivity.
Qed.
Lemma handled_render : forall s r methods, handled s r methods ->
  respond (Some s) r = match render methods r with Responded m => [RAdd (VMsg m) true; RReturn] | Raised e => [RRaise e] end.
Proof. intros s r methods (H1 & _ & _). rewrite (plain_respond _ _ _ H1). reflexivity. Qed.

(* a returned message is sent, with the default success code / the request's No-Response filled in if it had none *)
Lemma default_code_is_response : forall c, is_response (default_code c) = true.
Proof. intros c. unfold default_code. destruct ((c =? GET) || (c =? FETCH)); [reflexivity|]. destruct (c =? DELETE); reflexivity. Qed.
(* the code the message leaves Resource.render with *)
Definition final_code (r : request) (m : msg) : Z := match m_code m with Some c => c | None => default_code (r_code r) end.
Lemma returned_message : forall s r methods m, handled s r methods -> r_outcome r = Return (VMsg m) ->
  is_response (final_code r m) = true ->
  final_message (Some s) r = Some (fill_defaults r m).
Proof.
  intros s r methods m H Ho Hc. unfold final_message. rewrite (handled_render _ _ _ H).
  destruct H as (_ & H2 & H3). unfold render. rewrite H2, H3, Ho. unfold checked. cbn [fill_defaults m_code negb].
  unfold final_code in Hc. rewrite Hc. reflexivity.
Qed.
(* ... and a returned message whose code is not a response code (EMPTY, a request code, 6.xx/7.xx) is not sent:
   Resource.render raises, the request is answered with the bare 5.00 (a9de195) *)
Lemma returned_non_response_code : forall s r methods m, handled s r methods -> r_outcome r = Return (VMsg m) ->
  is_response (final_code r m) = false ->
  final_message (Some s) r = Some bare_500.
Proof.
  intros s r methods m H Ho Hc. unfold final_message. rewrite (handled_render _ _ _ H).
  destruct H as (_ & H2 & H3). unfold render. rewrite H2, H3, Ho. unfold checked. cbn [fill_defaults m_code negb].
  unfold final_code in Hc. rewrite Hc. reflexivity.
Qed.
Lemma fill_defaults_spec : forall r m,
  m_code (fill_defaults r m) = Some (match m_code m with Some c => c | None => default_code (r_code r) end) /\
  m_payload (fill_defaults r m) = m_payload m /\ m_cf (fill_defaults r m) = m_cf m /\
  m_nr (fill_defaults r m) = match m_nr m with Some n => Some n | None => r_nr r end /\ m_obs (fill_defaults r m) = m_obs m.
Proof. intros; repeat split. Qed.
Lemma returned_noresponse_sentinel : forall s r methods, handled s r methods -> r_outcome r = Return VNoResponse ->
  final_message (Some s) r = Some {| m_code := Some (default_code (r_code r)); m_payload := []; m_cf := None; m_nr := Some 26; m_obs := None |}.
Proof.
  intros s r methods H Ho. unfold final_message. rewrite (handled_render _ _ _ H).
  destruct H as (_ & H2 & H3). unfold render. rewrite H2, H3, Ho. unfold checked. cbn [fill_defaults m_code negb].
  rewrite default_code_is_response. reflexivity.
Qed.

(* a raised exception: what error_to_message makes of it *)
Lemma raised_exception : forall s r methods e, handled s r methods -> r_outcome r = Raise_ e ->
  final_message (Some s) r = match fst (exception_to_value e) with VMsg m => Some m | _ => None end.
Proof.
  intros s r methods e H Ho. unfold final_message. rewrite (handled_render _ _ _ H).
  destruct H as (_ & H2 & H3). unfold render. rewrite H2, H3, Ho. reflexivity.
Qed.
(* ... a renderable error of the library is sent with its own code and diagnostic payload *)
Lemma renderable_error : forall s r methods c t, handled s r methods -> r_outcome r = Raise_ (cre c t) ->
  c <> E_NoRequestInterface ->
  final_message (Some s) r =
    Some (match t with
          | CDefault => mk_msg (cre_code c) (cre_default_text c)
          | CText b => mk_msg (cre_code c) b
          | CNotStr => bare_500        (* self.message.encode fails: the renderer itself raises *)
          end).
Proof.
  intros s r methods c t H Ho Hc. rewrite (raised_exception _ _ _ _ H Ho).
  destruct c, t; try reflexivity; congruence.
Qed.
Lemma renderable_error_no_request_interface : forall s r methods t, handled s r methods ->
  r_outcome r = Raise_ (cre E_NoRequestInterface t) ->
  final_message (Some s) r = Some (mk_msg 165 (cre_default_text E_NoRequestInterface)).
Proof. intros s r methods t H Ho. rewrite (raised_exception _ _ _ _ H Ho). destruct t; reflexivity. Qed.
(* ... a custom renderable error whose to_message returns a message: that message *)
Lemma custom_renderable : forall s r methods m, handled s r methods ->
  r_outcome r = Raise_ (ERenderable (TMReturn (VMsg m))) -> final_message (Some s) r = Some m.
Proof. intros s r methods m H Ho. rewrite (raised_exception _ _ _ _ H Ho). reflexivity. Qed.

(* everything else: a bare 5.00 — no payload, whatever the exception or value was *)
Definition yields_bare_500 (o : outcome) : Prop :=
  o = Raise_ EOther \/ o = Raise_ (ERenderable TMRaises) \/ o = Raise_ (ERenderable (TMReturn VNone)) \/
  o = Raise_ (ERenderable (TMReturn VOther)) \/ o = Raise_ (ERenderable (TMReturn VNoResponse)) \/
  o = Return VNone \/ o = Return VOther.
Lemma bare_500_table : forall s r methods, handled s r methods -> yields_bare_500 (r_outcome r) ->
  final_message (Some s) r = Some bare_500.
Proof.
  intros s r methods H Ho. unfold final_message. rewrite (handled_render _ _ _ H).
  destruct H as (_ & H2 & H3). unfold render. rewrite H2, H3.
  destruct Ho as [Ho|[Ho|[Ho|[Ho|[Ho|[Ho|Ho]]]]]]; rewrite Ho; reflexivity.
Qed.

(* ---------- the observable path: Observe=0 to an observable resource (interfaces.ObservableResource._render_to_pipe) ---------- *)
Definition final_of_exc (e : exc) : option msg := match fst (exception_to_value e) with VMsg m => Some m | _ => None end.
(* what a plain resource with these handlers answers: the table above *)
Definition plain_final (methods : list Z) (r : request) : option msg :=
  match render methods r with Responded m => Some m | Raised e => final_of_exc e end.
Lemma final_of_exc_some : forall e, exists m, final_of_exc e = Some m.
Proof. intros [[[m| | |]|]|]; eexists; reflexivity. Qed.
Lemma plain_final_message : forall s r methods, plain_methods s r = Some methods ->
  final_message (Some s) r = plain_final methods r.
Proof.
  intros s r methods H. unfold final_message, plain_final. rewrite (plain_respond _ _ _ H). unfold respond_plain.
  destruct (render methods r); reflexivity.
Qed.
(* the decision table of the observable path:
   - add_observation raising: that exception, rendered as usual;
   - otherwise (observation accepted, deregistered early, or declined): the plain table — unless the observation gets
     established (accepted, successful first response), in which case the first response is not final (C08 takes over) *)
Lemma observable_final_message : forall s r methods mode,
  find_resource s (r_path r) = Some (Observable methods mode) -> observing r = true ->
  final_message (Some s) r =
    match mode with
    | ORaise e => final_of_exc e
    | _ => if establishes methods mode r then None else plain_final methods r
    end.
Proof.
  intros s r methods mode Hf Ho. unfold final_message, respond, plain_final. rewrite Hf, Ho. unfold respond_observable.
  destruct mode as [| | |e]; try reflexivity.
  - destruct (render methods r) as [m|e] eqn:Hr; [|unfold establishes; rewrite Hr; reflexivity].
    destruct (establishes methods OAccept r); reflexivity.
  - destruct (render methods r) as [m|e] eqn:Hr; reflexivity.
  - destruct (render methods r) as [m|e] eqn:Hr; reflexivity.
Qed.
(* in particular a declined observation is answered exactly like a plain request: the handler's own error code and text *)
Lemma declined_observation_plain : forall s r methods,
  find_resource s (r_path r) = Some (Observable methods ODecline) -> observing r = true ->
  final_message (Some s) r = plain_final methods r.
Proof. intros s r methods Hf Ho. rewrite (observable_final_message s r methods ODecline Hf Ho). reflexivity. Qed.
(* totality: whenever the rendering is of the finalising kind — not a resource with its own render_to_pipe, not an
   observation being established — there is a final message *)
Definition finalising (srv : option site) (r : request) : Prop :=
  match srv with
  | Some s => match find_resource s (r_path r) with
              | Some Raw => False
              | Some (Observable ms mode) => observing r = true -> establishes ms mode r = false
              | _ => True
              end
  | None => True
  end.
Lemma respond_shapes : forall srv r, finalising srv r ->
  (exists m, respond srv r = [RAdd (VMsg m) true; RReturn]) \/
  (exists e, respond srv r = [RRaise e]).
Proof.
  intros [s|] r Hn; [|left; eexists; reflexivity]. unfold respond, finalising in *.
  destruct (find_resource s (r_path r)) as [[methods| |methods mode]|]; [| destruct Hn | | right; eexists; reflexivity].
  - unfold respond_plain. destruct (render methods r); [left|right]; eexists; reflexivity.
  - destruct (observing r); [specialize (Hn eq_refl)|].
    + unfold respond_observable. rewrite Hn.
      destruct mode as [| | |e]; [| | |right; eexists; reflexivity];
        destruct (render methods r); try (left; eexists; reflexivity); right; eexists; reflexivity.
    + unfold respond_plain. destruct (render methods r); [left|right]; eexists; reflexivity.
Qed.
Lemma final_message_total : forall srv r, finalising srv r -> exists m, final_message srv r = Some m.
Proof.
  intros srv r Hn. unfold final_message. destruct (respond_shapes srv r Hn) as [(m & ->)|(e & ->)].
  - eexists; reflexivity.
  - apply final_of_exc_some.
Qed.

(* ================================================================ the pipes of one request *)
Definition live : pipes := setup_pipes.
Definition ended : pipes := {| p_old := None; p_next := None; p_registered := false; p_cancelled := true |}.

Lemma live_explicit : live =
  {| p_old := Some [(TmOnEvent, true); (EndOnEnd, false); (EndRemoveInterest, false)];
     p_next := Some [(EtmOnEvent, true); (EndTaskCancel, false)]; p_registered := true; p_cancelled := false |}.
Proof. reflexivity. Qed.

Definition no_send (l : list action) : Prop := forall a, In a l -> is_send a = false.
Definition no_unmodelled (l : list action) : Prop := ~ In (Log LogUnmodelled) l.

(* what one action of the coroutine does to live pipes *)
Lemma live_add_msg : forall m last,
  do_raction live (RAdd (VMsg m) last) = (if last then ended else live, [Send m last], false).
Proof. intros m [|]; reflexivity. Qed.
Lemma live_add_none : forall last,
  do_raction live (RAdd VNone last) = (if last then ended else live, [Log LogTmError], false).
Proof. intros [|]; reflexivity. Qed.
Lemma live_add_garbage : forall v last, v = VNoResponse \/ v = VOther ->
  do_raction live (RAdd v last) = (live, [], true).
Proof. intros v last [->| ->]; reflexivity. Qed.
Lemma live_return : do_raction live RReturn = (live, [], false).
Proof. reflexivity. Qed.
Lemma live_raise : forall e,
  do_raction live (RRaise e) =
  match exception_to_value e with
  | (VMsg m, logs) => (ended, map Log logs ++ [Send m true], false)
  | (_, logs) => (live, map Log logs, true)
  end.
Proof. intros [[[m| | |]|]|]; reflexivity. Qed.
Lemma live_stop : old_unregister_tm live = (ended, [], false).
Proof. reflexivity. Qed.
(* ... and to ended pipes: nothing is sent any more; late events are logged and dropped *)
Lemma ended_raction : forall x, exists a, do_raction ended x = (ended, a, false) /\ no_send a /\ no_unmodelled a.
Proof.
  intros [v last|e|].
  - exists [Log LogLateResponse]. split; [reflexivity|]. split.
    + intros a [<-|[]]. reflexivity.
    + intros [H|[]]. discriminate.
  - exists [Log LogDiscarded]. split; [reflexivity|]. split.
    + intros a [<-|[]]. reflexivity.
    + intros [H|[]]. discriminate.
  - exists []. split; [reflexivity|]. split; [intros a []|intros []].
Qed.
Lemma ended_stop : old_unregister_tm ended = (ended, [], false).
Proof. reflexivity. Qed.

Inductive pstate (p : pipes) : Prop := IsLive (H : p = live) | IsEnded (H : p = ended).

(* one input, from either of the two reachable states *)
Lemma pstep_cases : forall p i, pstate p ->
  let '(q, a) := pstep p i in
  pstate q /\ no_unmodelled a /\
  ((q = p /\ forall x, In x a -> is_final_send x = false) \/
   (p = live /\ q = ended /\ exists pre, (forall x, In x pre -> is_send x = false) /\ (a = pre \/ exists m, a = pre ++ [Send m true]))).
Proof.
  intros p i [->| ->].
  - destruct i as [[v last|e|]|].
    + unfold pstep. destruct v as [m| | |].
      * rewrite live_add_msg. destruct last.
        -- split; [right; reflexivity|]. split; [intros [H|[]]; discriminate|].
           right. repeat split. exists []. split; [intros x []|]. right. exists m. reflexivity.
        -- split; [left; reflexivity|]. split; [intros [H|[]]; discriminate|].
           left. split; [reflexivity|]. intros x [<-|[]]. reflexivity.
      * rewrite live_add_garbage by auto. split; [left; reflexivity|]. split; [intros []|]. left. split; [reflexivity|intros x []].
      * rewrite live_add_none. destruct last.
        -- split; [right; reflexivity|]. split; [intros [H|[]]; discriminate|].
           right. repeat split. exists [Log LogTmError]. split; [intros x [<-|[]]; reflexivity|]. left. reflexivity.
        -- split; [left; reflexivity|]. split; [intros [H|[]]; discriminate|].
           left. split; [reflexivity|]. intros x [<-|[]]. reflexivity.
      * rewrite live_add_garbage by auto. split; [left; reflexivity|]. split; [intros []|]. left. split; [reflexivity|intros x []].
    + unfold pstep. rewrite live_raise.
      destruct e as [[[m| | |]|]|]; cbn.
      * split; [right; reflexivity|]. split; [intros [H|[]]; discriminate|].
        right. repeat split. exists []. split; [intros x []|]. right. exists m. reflexivity.
      * split; [right; reflexivity|]. split; [intros [H|[H|[]]]; discriminate|].
        right. repeat split. exists [Log LogRenderFailed]. split; [intros x [<-|[]]; reflexivity|]. right. eexists. reflexivity.
      * split; [right; reflexivity|]. split; [intros [H|[H|[]]]; discriminate|].
        right. repeat split. exists [Log LogRenderFailed]. split; [intros x [<-|[]]; reflexivity|]. right. eexists. reflexivity.
      * split; [right; reflexivity|]. split; [intros [H|[H|[]]]; discriminate|].
        right. repeat split. exists [Log LogRenderFailed]. split; [intros x [<-|[]]; reflexivity|]. right. eexists. reflexivity.
      * split; [right; reflexivity|]. split; [intros [H|[H|[]]]; discriminate|].
        right. repeat split. exists [Log LogRenderFailed]. split; [intros x [<-|[]]; reflexivity|]. right. eexists. reflexivity.
      * split; [right; reflexivity|]. split; [intros [H|[H|[]]]; discriminate|].
        right. repeat split. exists [Log LogException]. split; [intros x [<-|[]]; reflexivity|]. right. eexists. reflexivity.
    + cbn. split; [left; reflexivity|]. split; [intros []|]. left. split; [reflexivity|intros x []].
    + unfold pstep. rewrite live_stop. split; [right; reflexivity|]. split; [intros []|].
      right. repeat split. exists []. split; [intros x []|]. left. reflexivity.
  - destruct i as [x|].
    + unfold pstep. destruct (ended_raction x) as (a & -> & Hs & Hu).
      split; [right; reflexivity|]. split; [exact Hu|]. left. split; [reflexivity|].
      intros y Hy. specialize (Hs y Hy). destruct y as [m [|]|]; cbn in *; congruence.
    + unfold pstep. rewrite ended_stop. split; [right; reflexivity|]. split; [intros []|]. left. split; [reflexivity|intros x []].
Qed.

Lemma count_final_app a b : count_final (a ++ b) = (count_final a + count_final b)%nat.
Proof. unfold count_final. rewrite filter_app, app_length. reflexivity. Qed.
Lemma count_final_none a : (forall x, In x a -> is_final_send x = false) -> count_final a = 0%nat.
Proof.
  unfold count_final. induction a as [|x a IH]; intros H; [reflexivity|].
  cbn. rewrite (H x) by (left; reflexivity). apply IH. intros y Hy. apply H. right. exact Hy.
Qed.
Lemma no_send_no_final a : (forall x, In x a -> is_send x = false) -> forall x, In x a -> is_final_send x = false.
Proof. intros H x Hx. specialize (H x Hx). destruct x as [m [|]|]; cbn in *; congruence. Qed.

(* once the pipes have ended nothing is sent, whatever happens *)
Lemma prun_ended : forall l, fst (prun ended l) = ended /\ (forall x, In x (snd (prun ended l)) -> is_send x = false)
                              /\ no_unmodelled (snd (prun ended l)).
Proof.
  induction l as [|i l IH].
  { cbn. split; [reflexivity|]. split; [intros x []|intros []]. }
  destruct IH as (IH1 & IH2 & IH3).
  cbn [prun]. destruct i as [x|].
  - unfold pstep. destruct (ended_raction x) as (a & -> & Hs & Hu).
    destruct (prun ended l) as [q' a'] eqn:E. cbn in *. split; [exact IH1|]. split.
    + intros y Hy. apply in_app_or in Hy as [Hy|Hy]; [apply Hs|apply IH2]; exact Hy.
    + intros Hy. apply in_app_or in Hy as [Hy|Hy]; [apply Hu|apply IH3]; exact Hy.
  - unfold pstep. rewrite ended_stop. destruct (prun ended l) as [q' a'] eqn:E. cbn in *. auto.
Qed.

(* MAIN (pipes): for every interleaving of coroutine actions and stop(), from the set-up state:
   the state is always one of the two, nothing outside the model happens, the sends are some non-final
   responses followed by at most one final one, and after a final one nothing is sent *)
Lemma prun_live_shape : forall l,
  pstate (fst (prun live l)) /\ no_unmodelled (snd (prun live l)) /\
  exists pre post, snd (prun live l) = pre ++ post /\
    (forall x, In x pre -> is_final_send x = false) /\
    (post = [] \/ (fst (prun live l) = ended /\ exists m rest, post = Send m true :: rest /\ forall x, In x rest -> is_send x = false)).
Proof.
  induction l as [|i l IH].
  - cbn. split; [left; reflexivity|]. split; [intros []|]. exists [], []. repeat split; auto. intros x [].
  - cbn [prun]. pose proof (pstep_cases live i (IsLive _ eq_refl)) as Hc.
    destruct (pstep live i) as [q a]. destruct Hc as (Hq & Hu & [(-> & Hnf)|(_ & -> & pre & Hpre & Ha)]).
    + destruct IH as (IH1 & IH2 & pre & post & E & Hp & Hpost).
      destruct (prun live l) as [q' a'] eqn:El. cbn in *. subst a'.
      split; [exact IH1|]. split.
      { intros Hy. apply in_app_or in Hy as [Hy|Hy]; [apply Hu|apply IH2]; exact Hy. }
      exists (a ++ pre), post. split; [rewrite app_assoc; reflexivity|]. split; [|exact Hpost].
      intros x Hx. apply in_app_or in Hx as [Hx|Hx]; [apply Hnf|apply Hp]; exact Hx.
    + destruct (prun_ended l) as (E1 & E2 & E3). destruct (prun ended l) as [q' a'] eqn:El. cbn in *. subst q'.
      split; [right; reflexivity|]. split.
      { intros Hy. apply in_app_or in Hy as [Hy|Hy]; [apply Hu|apply E3]; exact Hy. }
      destruct Ha as [->|(m & ->)].
      * exists (pre ++ a'), []. split; [rewrite app_nil_r; reflexivity|]. split; [|left; reflexivity].
        intros x Hx. apply no_send_no_final with (a := pre ++ a'); [|exact Hx].
        intros y Hy. apply in_app_or in Hy as [Hy|Hy]; [apply Hpre|apply E2]; exact Hy.
      * exists pre, (Send m true :: a'). split; [rewrite <- app_assoc; reflexivity|]. split.
        { apply no_send_no_final. exact Hpre. }
        right. split; [reflexivity|]. exists m, a'. split; [reflexivity|exact E2].
Qed.

Lemma pipe_at_most_one_final : forall l, (count_final (snd (prun live l)) <= 1)%nat.
Proof.
  intros l. destruct (prun_live_shape l) as (_ & _ & pre & post & -> & Hp & [->|(_ & m & rest & -> & Hr)]).
  - rewrite count_final_app, (count_final_none pre Hp). cbn. lia.
  - rewrite count_final_app, (count_final_none pre Hp). unfold count_final at 1. cbn [filter is_final_send length].
    fold (count_final rest). rewrite (count_final_none rest (no_send_no_final _ Hr)). lia.
Qed.
Lemma pipe_nothing_after_final : forall l pre m post, snd (prun live l) = pre ++ Send m true :: post ->
  forall x, In x post -> is_send x = false.
Proof.
  intros l pre m post E. destruct (prun_live_shape l) as (_ & _ & pre' & post' & E' & Hp & Hpost).
  rewrite E in E'. clear E.
  assert (Hsplit: forall (a b a' b' : list action) x y,
            a ++ x :: b = a' ++ y :: b' -> (forall z, In z a' -> is_final_send z = false) -> is_final_send x = true ->
            (forall z, In z b' -> is_send z = false) -> is_final_send y = true ->
            forall z, In z b -> is_send z = false).
  { clear. induction a as [|a0 a IH]; intros b a' b' x y E Ha' Hx Hb' Hy z Hz.
    - destruct a' as [|a0' a']; cbn in E; injection E as E1 E2.
      + apply Hb'. rewrite <- E2. exact Hz.
      + assert (Hf: is_final_send a0' = false) by (apply Ha'; left; reflexivity).
        rewrite <- E1 in Hf. congruence.
    - destruct a' as [|a0' a']; cbn in E; injection E as E1 E2.
      + assert (Hin: In x b') by (rewrite <- E2; apply in_or_app; right; left; reflexivity).
        specialize (Hb' x Hin). destruct x as [m [|]|]; cbn in *; congruence.
      + eapply IH; eauto. intros w Hw. apply Ha'. right. exact Hw. }
  destruct Hpost as [->|(_ & m' & rest & -> & Hr)].
  - rewrite app_nil_r in E'. assert (Hin: In (Send m true) pre') by (rewrite <- E'; apply in_or_app; right; left; reflexivity).
    specialize (Hp _ Hin). discriminate.
  - eapply Hsplit; eauto.
Qed.
Lemma pipe_two_states : forall l, fst (prun live l) = live \/ fst (prun live l) = ended.
Proof. intros l. destruct (prun_live_shape l) as ([H|H] & _); auto. Qed.
Lemma pipe_model_closed : forall l, ~ In (Log LogUnmodelled) (snd (prun live l)).
Proof. intros l. destruct (prun_live_shape l) as (_ & H & _). exact H. Qed.

(* the coroutine as run by the stack model is a special case of prun *)
Lemma run_ractions_prun : forall l p,
  let '(q, a, _) := run_ractions p l in
  exists l', (q, a) = prun p (map PCoro l').
Proof.
  induction l as [|x l IH]; intros p; cbn [run_ractions].
  - exists []. reflexivity.
  - destruct (do_raction p x) as [[q a] raised] eqn:E.
    destruct x as [v last|e|].
    + specialize (IH q). destruct (run_ractions q l) as [[q' a'] n]. destruct IH as (l' & IH).
      exists (RAdd v last :: l'). cbn [map prun pstep]. rewrite E, <- IH. reflexivity.
    + exists [RRaise e]. cbn [map prun pstep]. rewrite E, app_nil_r. reflexivity.
    + exists [RReturn]. cbn [map prun pstep]. rewrite E, app_nil_r. reflexivity.
Qed.
Lemma run_ractions_live : forall l,
  let '(q, a, _) := run_ractions live l in
  (q = live \/ q = ended) /\ (count_final a <= 1)%nat /\ no_unmodelled a /\ (p_registered q = true -> q = live).
Proof.
  intros l. pose proof (run_ractions_prun l live) as H. destruct (run_ractions live l) as [[q a] n].
  destruct H as (l' & H).
  pose proof (pipe_two_states (map PCoro l')) as H1. pose proof (pipe_at_most_one_final (map PCoro l')) as H2.
  pose proof (pipe_model_closed (map PCoro l')) as H3. rewrite <- H in *. cbn in *.
  repeat split; auto. intros Hr. destruct H1 as [->| ->]; [reflexivity|discriminate].
Qed.

(* what a finalising rendering does to its pipes: exactly the final message, once, and the pipes end *)
Lemma coroutine_final_once : forall srv r, finalising srv r ->
  exists m acts n, final_message srv r = Some m /\
                   run_ractions live (respond srv r) = (ended, acts, n) /\ filter is_send acts = [Send m true].
Proof.
  intros srv r Hn. unfold final_message. destruct (respond_shapes srv r Hn) as [(m & ->)|(e & ->)].
  - exists m, [Send m true], 0. repeat split; reflexivity.
  - cbn [run_ractions]. rewrite live_raise.
    destruct e as [[[m| | |]|]|]; cbn;
      [exists m, [Send m true], 0 | exists bare_500, [Log LogRenderFailed; Send bare_500 true], 0 | exists bare_500, [Log LogRenderFailed; Send bare_500 true], 0
      | exists bare_500, [Log LogRenderFailed; Send bare_500 true], 0 | exists bare_500, [Log LogRenderFailed; Send bare_500 true], 0
      | exists bare_500, [Log LogException; Send bare_500 true], 0];
      repeat split; reflexivity.
Qed.

(* an observation being established: the first response goes out non-final with Observe:0, the pipes stay set up *)
Lemma observable_established : forall s r methods mode,
  find_resource s (r_path r) = Some (Observable methods mode) -> observing r = true -> establishes methods mode r = true ->
  exists m, render methods r = Responded m /\ is_successful (code_of_msg m) = true /\ mode = OAccept /\
            run_ractions live (respond (Some s) r) = (live, [Send (set_obs m (Some 0)) false], 0).
Proof.
  intros s r methods mode Hf Ho He. unfold respond. rewrite Hf, Ho. unfold respond_observable.
  unfold establishes in He. destruct mode; try discriminate.
  destruct (render methods r) as [m|e] eqn:Hr; [|discriminate].
  exists m. repeat split; auto. unfold establishes. rewrite Hr, He. reflexivity.
Qed.

