(* C09, round 6: run-level "exactly one datagram on the wire" for NON requests; the message layer's internal
   assertion (backlogs/active_exchange relation) is unreachable *)
From Verif Require Import Lib.Py Lib.Tactics Model.C09 Model.C09Stack Proofs.C09 Proofs.C09Stack Proofs.C09Wire.
Open Scope Z_scope.

(* ---------- a rendering that finishes puts its answer on the wire in that very step (NON request) ---------- *)
Lemma perform_nosend : forall acts s r, filter is_send acts = [] ->
  snd (fst (perform s r acts)) = [] /\ fst (fst (perform s r acts)) = s.
Proof.
  induction acts as [|[m l|lg] acts IH]; intros s r H; cbn [perform].
  - split; reflexivity.
  - cbn [filter is_send] in H. discriminate.
  - cbn [filter is_send] in H. specialize (IH s r H). destruct (perform s r acts) as [[s2 w2] l2]. exact IH.
Qed.
Lemma perform_single : forall acts s r m l, filter is_send acts = [Send m l] ->
  snd (fst (perform s r acts)) = snd (send_message s r (tm_fill r m)).
Proof.
  induction acts as [|[m' l'|lg] acts IH]; intros s r m l H; cbn [perform].
  - discriminate.
  - cbn [filter is_send] in H. inversion H; subst. destruct (send_message s r (tm_fill r m)) as [s1 w] eqn:E.
    destruct (perform_nosend acts s1 r H3) as (A & _). destruct (perform s1 r acts) as [[s2 w2] l2]. cbn [fst snd] in *. subst w2.
    apply app_nil_r.
  - cbn [filter is_send] in H. specialize (IH s r m l H). destruct (perform s r acts) as [[s2 w2] l2]. exact IH.
Qed.

Definition out_of (x : state * step_out) : list wire := fst (fst (snd x)).

Lemma run_entry_emits srv s e m : e_pipes e = live -> finalising srv (e_req e) -> final_message srv (e_req e) = Some m ->
  r_con (e_req e) = false \/ lookup_piggy (key_of (e_req e)) (s_piggy s) <> None ->
  is_response (code_of m) = true -> suppressed (tm_fill (e_req e) m) = false ->
  exists w, out_of (run_entry srv s e) = [w] /\ is_answer (eid e) w = true.
Proof.
  intros He Hn Hm Hc Hr Hs. unfold run_entry, out_of. rewrite He.
  destruct (coroutine_final_once srv (e_req e) Hn) as (m' & acts & n & Hm' & -> & Hf). rewrite Hm in Hm'. inversion Hm'; subst m'.
  match goal with |- context [perform ?s0 ?r0 acts] => pose proof (perform_single acts s0 r0 m true Hf) as Hp; destruct (perform s0 r0 acts) as [[s2 w] l] end.
  cbn [fst snd] in *. rewrite Hp.
  match goal with |- context [send_message ?s0 ?r0 ?m0] =>
    destruct (response_on_wire_at_once s0 r0 m0 Hr Hs Hc) as (t & mid & -> & Ha) end.
  eexists. split; [reflexivity|exact Ha].
Qed.

Lemma run_cons_wires srv s ev rest :
  wires (snd (run srv s (ev :: rest))) = out_of (step srv s ev) ++ wires (snd (run srv (fst (step srv s ev)) rest)).
Proof.
  cbn [run]. unfold out_of. destruct (step srv s ev) as [s1 o]. cbn [fst snd]. destruct (run srv s1 rest) as [s2 os]. reflexivity.
Qed.

Definition mid_ok (id : Z) (r : request) (ev : sevent) : Prop :=
  match ev with
  | Req r' => key_eqb (key_of r') (key_of r) = false
  | Done j => j <> id
  | _ => True
  end.

(* a NON request in flight: whatever unrelated things happen, when its handler finishes its answer is put on the wire *)
Lemma in_flight_on_wire srv : forall mid s e m post,
  let id := eid e in
  Inv s -> fresh s (mid ++ Done id :: post) ->
  find_by_id id (s_incoming s) = Some e -> e_finished e = false ->
  finalising srv (e_req e) -> final_message srv (e_req e) = Some m ->
  r_con (e_req e) = false -> is_response (code_of m) = true -> suppressed (tm_fill (e_req e) m) = false ->
  Forall (mid_ok id (e_req e)) mid ->
  exists w, In w (wires (snd (run srv s (mid ++ Done id :: post)))) /\ is_answer id w = true.
Proof.
  induction mid as [|ev mid IH]; intros s e m post id HI Hf Ef Efin Hn Hm Hc Hr Hs Hmid.
  - cbn [app]. rewrite run_cons_wires. cbn [step]. unfold step_done. rewrite Ef, Efin.
    destruct (find_by_id_some _ _ _ Ef) as (Hin & _).
    assert (Hlive: e_pipes e = live) by (destruct HI as [_ HF]; rewrite Forall_forall in HF; apply HF; exact Hin).
    destruct (run_entry_emits srv s e m Hlive Hn Hm (or_introl Hc) Hr Hs) as (w & -> & Ha).
    exists w. split; [left; reflexivity|exact Ha].
  - inversion Hmid as [|? ? Hev Hmid']; subst.
    destruct (fresh_step srv s ev (mid ++ Done id :: post) HI Hf) as (H1 & Hf').
    destruct (step_bound srv s ev id HI H1) as (HI' & _ & _).
    assert (Hu: unrelated s id e ev).
    { destruct ev as [r|j|us|remote]; cbn; auto. split; [|split; [exact Hev|apply H1; reflexivity]].
      intros Heq. apply (H1 r eq_refl). rewrite Heq. eapply find_in_ids; eauto. }
    destruct (step_frame srv s ev id e HI Ef Hu) as (Ef' & _).
    destruct (IH (fst (step srv s ev)) e m post HI' Hf' Ef' Efin Hn Hm Hc Hr Hs Hmid') as (w & Hw & Ha).
    exists w. split; [|exact Ha]. cbn [app]. rewrite run_cons_wires. apply in_or_app. right. exact Hw.
Qed.

(* ---------- prefixes ---------- *)
Lemma run_app_fst srv : forall a s b, fst (run srv s (a ++ b)) = fst (run srv (fst (run srv s a)) b).
Proof.
  induction a as [|ev a IH]; intros s b; [reflexivity|]. cbn [app]. rewrite !run_cons_fst. apply IH.
Qed.
Lemma run_app_wires srv : forall a s b,
  wires (snd (run srv s (a ++ b))) = wires (snd (run srv s a)) ++ wires (snd (run srv (fst (run srv s a)) b)).
Proof.
  induction a as [|ev a IH]; intros s b; [reflexivity|]. cbn [app]. rewrite !run_cons_wires, run_cons_fst, IH, app_assoc. reflexivity.
Qed.
Lemma req_ids_app a b : req_ids (a ++ b) = req_ids a ++ req_ids b.
Proof. unfold req_ids. apply flat_map_app. Qed.
Lemma run_inv_fresh srv : forall a s b, Inv s -> fresh s (a ++ b) ->
  Inv (fst (run srv s a)) /\ fresh (fst (run srv s a)) b.
Proof.
  induction a as [|ev a IH]; intros s b HI Hf; [split; assumption|]. cbn [app] in Hf.
  destruct (fresh_step srv s ev (a ++ b) HI Hf) as (H1 & Hf').
  destruct (step_bound srv s ev 0 HI H1) as (HI' & _ & _).
  rewrite run_cons_fst. apply IH; assumption.
Qed.

Lemma deferred_entry srv s r : Inv s -> ~ In (r_id r) (ids s) -> r_slow r && reaches_handler srv r = true ->
  find_by_id (r_id r) (s_incoming (fst (step srv s (Req r)))) = Some (new_entry r).
Proof.
  intros HI H1 Hs. cbn [step]. rewrite step_req_unfold, Hs. destruct (after_register_incoming s r) as (l & -> & Hl).
  assert (Hni: ~ In (r_id r) (map eid l)).
  { destruct Hl as [->|(old & _ & ->)]; [exact H1|]. rewrite ids_remove_id. intros H. apply filter_In in H. apply H1. tauto. }
  clear -Hni. induction l as [|x l IH]; cbn [app].
  - rewrite find_by_id_cons. change (eid (new_entry r)) with (r_id r). rewrite Z.eqb_refl. reflexivity.
  - rewrite find_by_id_cons. cbn [map In] in Hni. replace (eid x =? r_id r) with false by (assert (eid x <> r_id r) by tauto; lia).
    apply IH. tauto.
Qed.

(* a CON request registers its piggy-back opportunity before anything is rendered *)
Lemma lookup_piggy_snoc k v l : lookup_piggy k (remove_piggy k l ++ [(k, v)]) = Some v.
Proof.
  assert (Hk: key_eqb k k = true).
  { unfold key_eqb. rewrite Z.eqb_refl. cbn. unfold beqb. induction (snd k) as [|x t IH]; [reflexivity|]. cbn. rewrite Z.eqb_refl. exact IH. }
  induction l as [|[k' v'] l IH]; cbn [remove_piggy filter fst app lookup_piggy].
  - rewrite Hk. reflexivity.
  - unfold remove_piggy in *. destruct (key_eqb k k') eqn:E; cbn [negb]; [exact IH|]. cbn [app lookup_piggy]. rewrite E. exact IH.
Qed.
Lemma after_register_piggy s r : Inv s -> r_con r = true ->
  lookup_piggy (key_of r) (s_piggy (after_register s r)) = Some (r_mid r, s_now s + EMPTY_ACK_DELAY).
Proof.
  intros [_ HF] Hc. unfold after_register. cbv zeta. rewrite Hc.
  set (s1 := set_piggy s _).
  assert (H1: s_incoming s1 = s_incoming s) by reflexivity.
  assert (H2: lookup_piggy (key_of r) (s_piggy s1) = Some (r_mid r, s_now s + EMPTY_ACK_DELAY)) by (subst s1; cbn [s_piggy set_piggy]; apply lookup_piggy_snoc).
  clearbody s1.
  destruct (find_by_key (key_of r) (s_incoming s1)) as [old|] eqn:E; [|exact H2].
  rewrite H1 in E. destruct (find_by_key_some _ _ _ E) as (Hin & _). rewrite Forall_forall in HF. rewrite (HF old Hin), live_stop.
  cbn [perform fst]. exact H2.
Qed.

(* from the arrival of the request, in any well-formed state *)
Lemma arrival_on_wire srv s r mid m post :
  Inv s -> fresh s (Req r :: mid ++ Done (r_id r) :: post) ->
  finalising srv r -> final_message srv r = Some m ->
  r_con r = false \/ r_slow r && reaches_handler srv r = false ->
  is_response (code_of m) = true -> suppressed (tm_fill r m) = false ->
  Forall (mid_ok (r_id r) r) mid ->
  exists w, In w (wires (snd (run srv s (Req r :: mid ++ Done (r_id r) :: post)))) /\ is_answer (r_id r) w = true.
Proof.
  intros HI Hf Hn Hm Hc Hr Hs Hmid.
  destruct (fresh_step srv s (Req r) (mid ++ Done (r_id r) :: post) HI Hf) as (H1 & Hf').
  destruct (step_bound srv s (Req r) (r_id r) HI H1) as (HI' & _ & _).
  specialize (H1 r eq_refl). rewrite run_cons_wires.
  destruct (r_slow r && reaches_handler srv r) eqn:Hsl.
  - pose proof (deferred_entry srv s r HI H1 Hsl) as Ef.
    assert (Hc': r_con r = false) by (destruct Hc as [Hc|Hc]; [exact Hc|congruence]).
    destruct (in_flight_on_wire srv mid (fst (step srv s (Req r))) (new_entry r) m post HI' Hf' Ef eq_refl Hn Hm Hc' Hr Hs Hmid) as (w & Hw & Ha).
    exists w. split; [apply in_or_app; right; exact Hw|exact Ha].
  - cbn [step]. rewrite (step_req_inv srv s r HI), Hsl.
    assert (Hc': r_con r = false \/ lookup_piggy (key_of r) (s_piggy (after_register s r)) <> None).
    { destruct (r_con r) eqn:Econ; [right|left; reflexivity]. rewrite (after_register_piggy s r HI Econ). discriminate. }
    destruct (run_entry_emits srv (after_register s r) (new_entry r) m eq_refl Hn Hm Hc' Hr Hs) as (w & Hout & Ha).
    exists w. split; [apply in_or_app; left; rewrite Hout; left; reflexivity|exact Ha].
Qed.

(* MAIN: in every run from the initial state in which a NON request — or a CON request whose handler answers at once, i.e.
   while the ACK is still pending — arrives and its handler gets to finish (no reuse of its token, no second completion in
   between), EXACTLY ONE non-empty datagram answers it, with its token, to its remote, carrying
   its own final message — unless No-Response applies *)
Lemma wire_exactly_one_non srv mid0 pre r mid post m :
  NoDup (req_ids (pre ++ Req r :: mid ++ Done (r_id r) :: post)) ->
  finalising srv r -> final_message srv r = Some m ->
  r_con r = false \/ r_slow r && reaches_handler srv r = false ->
  is_response (code_of m) = true -> suppressed (tm_fill r m) = false ->
  Forall (mid_ok (r_id r) r) mid ->
  exists w, answers (r_id r) (wires (snd (run srv (init_state mid0) (pre ++ Req r :: mid ++ Done (r_id r) :: post)))) = [w] /\ carries r m w.
Proof.
  intros Hnd Hn Hm Hc Hr Hs Hmid.
  set (evs := pre ++ Req r :: mid ++ Done (r_id r) :: post) in *.
  assert (Hin: In (Req r) evs) by (subst evs; apply in_or_app; right; left; reflexivity).
  destruct (wire_at_most_one srv mid0 evs r m Hnd Hin Hn Hm) as (Hle & Hcar).
  destruct (run_inv_fresh srv pre (init_state mid0) (Req r :: mid ++ Done (r_id r) :: post) (init_inv mid0) (init_fresh mid0 _ Hnd)) as (HI & Hf).
  destruct (arrival_on_wire srv _ r mid m post HI Hf Hn Hm Hc Hr Hs Hmid) as (w & Hw & Ha).
  assert (Hw': In w (answers (r_id r) (wires (snd (run srv (init_state mid0) evs))))).
  { unfold answers. apply filter_In. split; [|exact Ha]. subst evs. rewrite run_app_wires. apply in_or_app. right. exact Hw. }
  destruct (answers (r_id r) (wires (snd (run srv (init_state mid0) evs)))) as [|w0 [|w1 rest]] eqn:E.
  - destruct Hw'.
  - exists w0. split; [reflexivity|]. apply Hcar. left. reflexivity.
  - cbn in Hle. lia.
Qed.

(* ---------- the AssertionError of _continue_backlog is unreachable ---------- *)
(* "keys exist iff there is an active_exchange with that node" — the direction the code relies on *)
Definition BacklogInv (s : state) : Prop := forall remote, has_active s remote = true -> has_backlog s remote = true.

Lemma has_backlog_append remote w l x :
  existsb (fun y => fst y =? x) (backlog_append remote w l) = existsb (fun y => fst y =? x) l.
Proof. induction l as [|[q b] l IH]; [reflexivity|]. cbn [backlog_append]. destruct (q =? remote); cbn [existsb fst]; [reflexivity|rewrite IH; reflexivity]. Qed.
Lemma has_backlog_set remote b' l x :
  existsb (fun y => fst y =? x) (backlog_set remote b' l) = existsb (fun y => fst y =? x) l.
Proof. induction l as [|[q b] l IH]; [reflexivity|]. cbn [backlog_set]. destruct (q =? remote); cbn [existsb fst]; [reflexivity|rewrite IH; reflexivity]. Qed.
Lemma has_backlog_del_other remote l x : x <> remote ->
  existsb (fun y => fst y =? x) (backlog_del remote l) = existsb (fun y => fst y =? x) l.
Proof.
  intros Hx. induction l as [|[q b] l IH]; [reflexivity|]. cbn [backlog_del]. destruct (q =? remote) eqn:E; cbn [existsb fst].
  - replace (q =? x) with false by lia. reflexivity.
  - rewrite IH. reflexivity.
Qed.
Lemma find_backlog_has remote l : existsb (fun y => fst y =? remote) l = true -> find_backlog remote l <> None.
Proof.
  induction l as [|[q b] l IH]; [discriminate|]. cbn [existsb fst find_backlog]. destruct (q =? remote); [discriminate|exact IH].
Qed.

Lemma send_initially_binv s w : BacklogInv s -> BacklogInv (fst (send_initially s w)).
Proof.
  intros HB. unfold send_initially. destruct (w_type w =? T_CON); [|exact HB].
  destruct (has_backlog s (w_remote w)) eqn:Eb; intros x; unfold has_active, has_backlog; cbn [fst s_active s_backlog set_active set_backlog];
    rewrite existsb_app; cbn [existsb fst]; rewrite orb_false_r; intros H.
  - apply orb_prop in H as [H|H]; [apply HB; exact H|]. assert (x = w_remote w) as -> by lia. exact Eb.
  - rewrite existsb_app. cbn [existsb fst]. rewrite orb_false_r.
    apply orb_prop in H as [H|H]; [pose proof (HB x H) as H'; unfold has_backlog in H'; rewrite H'; reflexivity|]. rewrite H. apply orb_true_r.
Qed.
Lemma send_plain_binv s r m : BacklogInv s -> BacklogInv (fst (send_plain s r m)).
Proof.
  intros HB. unfold send_plain. cbv zeta. match goal with |- context [if ?c then _ else _] => destruct c end.
  - intros x. unfold has_active, has_backlog, append_backlog. cbn [fst s_active s_backlog set_backlog set_mid]. rewrite has_backlog_append. apply HB.
  - apply send_initially_binv. exact HB.
Qed.
Lemma send_message_binv s r m : BacklogInv s -> BacklogInv (fst (send_message s r m)).
Proof.
  intros HB. rewrite send_message_unfold. destruct (negb (is_response (code_of m))); [apply send_plain_binv; exact HB|].
  destruct (lookup_piggy (key_of r) (s_piggy s)) as [[mid due]|].
  - cbv zeta. destruct (suppressed m); apply send_initially_binv; exact HB.
  - destruct (suppressed m); [exact HB|apply send_plain_binv; exact HB].
Qed.
Lemma perform_binv : forall acts s r, BacklogInv s -> BacklogInv (fst (fst (perform s r acts))).
Proof.
  induction acts as [|[m l|lg] acts IH]; intros s r HB; cbn [perform]; [exact HB| |].
  - pose proof (send_message_binv s r (tm_fill r m) HB) as H1. destruct (send_message s r (tm_fill r m)) as [s1 w]. cbn [fst] in H1.
    specialize (IH s1 r H1). destruct (perform s1 r acts) as [[s2 w2] l2]. exact IH.
  - specialize (IH s r HB). destruct (perform s r acts) as [[s2 w2] l2]. exact IH.
Qed.
Lemma run_entry_binv srv s e : BacklogInv s -> BacklogInv (fst (run_entry srv s e)).
Proof.
  intros HB. unfold run_entry. destruct (run_ractions (e_pipes e) (respond srv (e_req e))) as [[q acts] n].
  match goal with |- context [perform ?s0 ?r0 acts] => pose proof (perform_binv acts s0 r0 HB) as H; destruct (perform s0 r0 acts) as [[s2 w] l] end.
  exact H.
Qed.
Lemma after_register_binv s r : Inv s -> BacklogInv s -> BacklogInv (after_register s r).
Proof.
  intros HI HB x. pose proof (after_register_bl s r HI) as _.
  unfold after_register. cbv zeta.
  set (s1 := if r_con r then _ else s).
  assert (H1: s_incoming s1 = s_incoming s) by (subst s1; destruct (r_con r); reflexivity).
  assert (H2: BacklogInv s1) by (subst s1; destruct (r_con r); exact HB).
  clearbody s1. destruct HI as [_ HF].
  destruct (find_by_key (key_of r) (s_incoming s1)) as [old|] eqn:E; [|apply H2].
  rewrite H1 in E. destruct (find_by_key_some _ _ _ E) as (Hin & _). rewrite Forall_forall in HF. rewrite (HF old Hin), live_stop.
  cbn [perform fst]. apply H2.
Qed.
Lemma continue_backlog_binv s remote : BacklogInv s -> BacklogInv (fst (continue_backlog s remote)).
Proof.
  intros HB. unfold continue_backlog. destruct (has_active s remote) eqn:Ea; [exact HB|].
  destruct (find_backlog remote (s_backlog s)) as [[|w rest]|]; [| |exact HB].
  - intros x. unfold has_active, has_backlog. cbn [fst s_active s_backlog set_backlog]. intros H.
    destruct (Z.eq_dec x remote) as [->|Hx]; [unfold has_active in Ea; congruence|].
    rewrite has_backlog_del_other by exact Hx. apply HB. exact H.
  - apply send_initially_binv. intros x. unfold has_active, has_backlog. cbn [s_active s_backlog set_backlog]. rewrite has_backlog_set. apply HB.
Qed.
Lemma remove_first_active_sub remote l a x : remove_first_active remote l = Some a ->
  existsb (fun y => fst y =? x) a = true -> existsb (fun y => fst y =? x) l = true.
Proof.
  revert a. induction l as [|[q m] l IH]; intros a; [discriminate|]. cbn [remove_first_active]. destruct (q =? remote).
  - intros H; inversion H; subst. intros Hx. cbn [existsb fst]. rewrite Hx. apply orb_true_r.
  - destruct (remove_first_active remote l) as [a'|]; [|discriminate]. intros H; inversion H; subst. cbn [existsb fst].
    intros Hx. apply orb_prop in Hx as [Hx|Hx]; [rewrite Hx; reflexivity|]. rewrite (IH a' eq_refl Hx). apply orb_true_r.
Qed.
Lemma remove_first_active_had remote l a : remove_first_active remote l = Some a -> existsb (fun y => fst y =? remote) l = true.
Proof.
  revert a. induction l as [|[q m] l IH]; intros a; [discriminate|]. cbn [remove_first_active existsb fst]. destruct (q =? remote); [reflexivity|].
  destruct (remove_first_active remote l) as [a'|]; [|discriminate]. intros _. apply (IH a' eq_refl).
Qed.

Lemma step_ack_fst srv s remote : fst (step srv s (AckFrom remote)) = fst (step_ack s remote).
Proof. cbn [step]. destruct (step_ack s remote). reflexivity. Qed.
Lemma step_tick_fst srv s us : fst (step srv s (Tick us)) = fst (step_tick s us).
Proof. cbn [step]. destruct (step_tick s us). reflexivity. Qed.
Lemma step_binv srv s ev : Inv s -> BacklogInv s -> BacklogInv (fst (step srv s ev)).
Proof.
  intros HI HB. destruct ev as [r|j|us|remote]; [cbn [step]|cbn [step]|rewrite step_tick_fst|rewrite step_ack_fst].
  - rewrite (step_req_inv srv s r HI). pose proof (after_register_binv s r HI HB) as Ha.
    destruct (r_slow r && reaches_handler srv r); [exact Ha|apply run_entry_binv; exact Ha].
  - unfold step_done. destruct (find_by_id j (s_incoming s)) as [e|]; [|exact HB]. destruct (e_finished e); [exact HB|apply run_entry_binv; exact HB].
  - unfold step_tick. destruct (fire_piggy (s_now s + us) (s_piggy s)) as [keep out]. exact HB.
  - unfold step_ack. destruct (remove_first_active remote (s_active s)) as [a|] eqn:E; [|exact HB].
    apply continue_backlog_binv. intros x. unfold has_active, has_backlog. cbn [s_active s_backlog set_active]. intros H.
    apply HB. unfold has_active. eapply remove_first_active_sub; eauto.
Qed.
Lemma run_binv srv : forall evs s, Inv s -> fresh s evs -> BacklogInv s -> BacklogInv (fst (run srv s evs)).
Proof.
  induction evs as [|ev rest IH]; intros s HI Hf HB; [exact HB|].
  destruct (fresh_step srv s ev rest HI Hf) as (H1 & Hf'). destruct (step_bound srv s ev 0 HI H1) as (HI' & _ & _).
  rewrite run_cons_fst. apply IH; [exact HI'|exact Hf'|apply step_binv; assumption].
Qed.
(* in every reachable state: an acknowledgement that matches an active exchange finds the remote's backlog entry —
   the branch "AssertionError: backlogs/active_exchange relation violated" of _continue_backlog (modelled as a silent no-op) is never taken *)
Lemma backlog_assertion_unreachable srv mid0 evs remote a : NoDup (req_ids evs) ->
  let s := fst (run srv (init_state mid0) evs) in
  remove_first_active remote (s_active s) = Some a -> find_backlog remote (s_backlog s) <> None.
Proof.
  intros Hnd s Ha.
  assert (HB: BacklogInv s) by (apply run_binv; [apply init_inv|apply init_fresh; exact Hnd|intros x H; discriminate]).
  apply find_backlog_has. apply (HB remote). unfold has_active. eapply remove_first_active_had; eauto.
Qed.

(* ---------- the hypotheses of the theorem above are derivable ---------- *)
Lemma cre_code_is_response : forall c, is_response (cre_code c) = true.
Proof. intros c; destruct c; reflexivity. Qed.
(* every final message of a plain rendering has a response code, provided custom error renderers hand over response codes *)
Lemma final_message_is_response s r methods m : handled s r methods -> final_message (Some s) r = Some m ->
  (forall m', r_outcome r = Raise_ (ERenderable (TMReturn (VMsg m'))) -> is_response (code_of m') = true) ->
  is_response (code_of m) = true.
Proof.
  intros H Hm Hc. unfold final_message in Hm. rewrite (handled_render _ _ _ H) in Hm. destruct H as (_ & H2 & H3).
  unfold render in Hm. rewrite H2, H3 in Hm. cbn [negb] in Hm.
  destruct (r_outcome r) as [[m0| | |]|[[[m0| | |]|]|]|l] eqn:Ho; cbn in Hm;
    try (inversion Hm; subst; reflexivity).
  - unfold checked in Hm. cbn [fill_defaults m_code] in Hm.
    destruct (is_response (match m_code m0 with Some c => c | None => default_code (r_code r) end)) eqn:E; inversion Hm; subst; [|reflexivity].
    unfold code_of. cbn [m_code]. exact E.
  - unfold checked in Hm. cbn [fill_defaults m_code] in Hm. rewrite default_code_is_response in Hm. inversion Hm; subst.
    unfold code_of. cbn [m_code]. apply default_code_is_response.
  - inversion Hm; subst. apply Hc. reflexivity.
Qed.
Lemma not_suppressed_without_option r m : m_nr m = None -> r_nr r = None -> suppressed (tm_fill r m) = false.
Proof. intros H1 H2. unfold suppressed, tm_fill. cbn [m_nr]. rewrite H1, H2. reflexivity. Qed.
