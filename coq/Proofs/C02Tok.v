(* C02 — proofs. Part 5: in every reachable state the tokens of the outstanding requests are pairwise different
   (as long as fewer than 2^64 events have happened): every table entry carries the token of a counter value of a
   distinct "age", older entries first. Over the translated next_token. *)
From Verif Require Import Lib.Py Lib.PyLemmas Lib.Tactics Gen.tokenmanager_next_token Model.C02 Proofs.C02 Proofs.C02Once Proofs.C02Inv.
Open Scope Z_scope.

(* ages (how many next_token calls ago the entry's token was handed out) strictly decrease along the table, within [lo, hi) *)
Fixpoint aged (T lo hi : Z) (og : list (key * Z)) : Prop :=
  match og with
  | [] => True
  | (k, _) :: rest => exists a, lo <= a < hi /\ fst k = tokbytes ((T - a) mod 2 ^ 64) /\ aged T lo a rest
  end.

Lemma aged_weaken : forall T og lo hi lo' hi', lo' <= lo -> hi <= hi' -> aged T lo hi og -> aged T lo' hi' og.
Proof.
  intros T. induction og as [|[k v] rest IH]; intros lo hi lo' hi' Hl Hh H; [exact I|].
  destruct H as (a & Ha & Hk & Hr). exists a. split; [lia|]. split; [exact Hk|]. eapply IH; [exact Hl| |exact Hr]. lia.
Qed.
Lemma aged_aremove : forall T k og lo hi, aged T lo hi og -> aged T lo hi (aremove key_eqb k og).
Proof.
  intros T k. induction og as [|[k1 v1] rest IH]; intros lo hi H; [exact I|]. cbn [aremove].
  destruct H as (a & Ha & Hk & Hr). destruct (key_eqb k k1).
  - eapply aged_weaken; [| |apply IH; exact Hr]; lia.
  - exists a. split; [exact Ha|]. split; [exact Hk|]. apply IH. exact Hr.
Qed.
Lemma aged_shift : forall T og lo hi, aged T lo hi og -> aged ((T + 1) mod 2 ^ 64) (lo + 1) (hi + 1) og.
Proof.
  intros T. induction og as [|[k v] rest IH]; intros lo hi H; [exact I|].
  destruct H as (a & Ha & Hk & Hr). exists (a + 1). split; [lia|]. split; [|apply IH; exact Hr].
  rewrite Hk. f_equal. rewrite Zminus_mod_idemp_l. f_equal. lia.
Qed.
Lemma aged_snoc : forall T k q og hi, fst k = tokbytes (T mod 2 ^ 64) -> 0 < hi -> aged T 1 hi og -> aged T 0 hi (og ++ [(k, q)]).
Proof.
  intros T k q. induction og as [|[k1 v1] rest IH]; intros hi Hk Hh H.
  - cbn. exists 0. split; [lia|]. split; [rewrite Z.sub_0_r; exact Hk|exact I].
  - destruct H as (a & Ha & Hk1 & Hr). cbn [app aged]. exists a. split; [lia|]. split; [exact Hk1|]. apply IH; [exact Hk|lia|exact Hr].
Qed.
Lemma aged_in : forall T og lo hi e, aged T lo hi og -> In e og -> exists a, lo <= a < hi /\ fst (fst e) = tokbytes ((T - a) mod 2 ^ 64).
Proof.
  intros T. induction og as [|[k v] rest IH]; intros lo hi e H Hin; [contradiction|].
  destruct H as (a & Ha & Hk & Hr). destruct Hin as [<-|Hin]; [exists a; split; assumption|].
  destruct (IH lo a e Hr Hin) as (a' & Ha' & He). exists a'. split; [lia|exact He].
Qed.
Lemma tokbytes_age_inj : forall T a b, 0 <= a < 2 ^ 64 -> 0 <= b < 2 ^ 64 ->
  tokbytes ((T - a) mod 2 ^ 64) = tokbytes ((T - b) mod 2 ^ 64) -> a = b.
Proof.
  intros T a b Ha Hb E. apply token_injective_lemma in E; try (apply Z.mod_pos_bound; reflexivity).
  change (2 ^ 64) with 18446744073709551616 in *. lia.
Qed.
Lemma aged_nodup : forall T og lo hi, 0 <= lo -> hi <= 2 ^ 64 -> aged T lo hi og -> NoDup (map (fun e => fst (fst e)) og).
Proof.
  intros T. induction og as [|[k v] rest IH]; intros lo hi Hl Hh H; [constructor|].
  destruct H as (a & Ha & Hk & Hr). cbn [map fst]. constructor.
  - intros Hin. apply in_map_iff in Hin. destruct Hin as (e & He & Hin).
    destruct (aged_in T rest lo a e Hr Hin) as (a' & Ha' & He'). rewrite He' in He. rewrite Hk in He.
    apply tokbytes_age_inj in He; lia.
  - eapply IH; [exact Hl| |exact Hr]. lia.
Qed.
Lemma aset_append : forall {V} k (v : V) l, (forall e, In e l -> key_eqb k (fst e) = false) -> aset key_eqb k v l = l ++ [(k, v)].
Proof.
  intros V k v. induction l as [|[k1 v1] r IH]; intros H; [reflexivity|]. cbn [aset app].
  pose proof (H (k1, v1) (or_introl eq_refl)) as E. cbn [fst] in E. rewrite E. f_equal. apply IH. intros e He. apply H. right. exact He.
Qed.

(* ------------------------------------------------------------------ everything but TokenManager.request only removes entries *)
Section Keeps.
  Variable P : list (key * Z) -> Prop.
  Hypothesis HP : forall k og, P og -> P (aremove key_eqb k og).
  Definition keeps (s s' : st) : Prop :=
    tmst s' = tmst s /\
    match outgoing s' with None => True | Some og' => match outgoing s with Some og => P og -> P og' | None => False end end.
  Lemma keeps_eq : forall s s', tmst s' = tmst s -> outgoing s' = outgoing s -> keeps s s'.
  Proof. intros s s' H1 H2. split; [exact H1|]. rewrite H2. destruct (outgoing s); auto. Qed.
  Lemma keeps_refl : forall s, keeps s s. Proof. intros. apply keeps_eq; reflexivity. Qed.
  Lemma keeps_trans : forall s s1 s2, keeps s s1 -> keeps s1 s2 -> keeps s s2.
  Proof.
    intros s s1 s2 [T1 H1] [T2 H2]. split; [congruence|].
    destruct (outgoing s2); [|exact I]. destruct (outgoing s1); [|contradiction]. destruct (outgoing s); [|contradiction]. auto.
  Qed.
  Lemma HP_fold : forall ks og, P og -> P (fold_left (fun l k => aremove key_eqb k l) ks og).
  Proof. induction ks as [|k r IH]; intros og H; cbn [fold_left]; [exact H|]. apply IH. apply HP. exact H. Qed.
  Lemma keeps_pop_keys : forall ks s, keeps s (pop_keys s ks).
  Proof.
    intros ks s. split; [apply pop_keys_frame|]. rewrite pop_keys_outgoing. destruct (outgoing s); [|exact I]. apply HP_fold.
  Qed.
  Lemma keeps_add_event : forall s q ev s' o, _add_event s q ev = (s', o) -> keeps s s'.
  Proof.
    intros s q ev s' o H. unfold _add_event in H. destruct (get_req s q); [|invpairs; apply keeps_refl].
    destruct (pipe_add_event q c ev) as [[c' o'] ks]. invpairs.
    eapply keeps_trans; [|apply keeps_pop_keys]. apply keeps_eq; reflexivity.
  Qed.
  Lemma keeps_run_stoppers : forall e qs s s' o, run_stoppers s qs e = (s', o) -> keeps s s'.
  Proof.
    intros e. induction qs as [|q rest IH]; intros s s' o H; cbn [run_stoppers] in H; [invpairs; apply keeps_refl|].
    destruct (add_exception s q e) as [s1 o1] eqn:A. apply keeps_add_event in A.
    destruct (run_stoppers s1 rest e) as [s2 o2] eqn:R. apply IH in R. invpairs. eapply keeps_trans; eauto.
  Qed.
  Lemma keeps_tm_dispatch_error : forall s k r s' o, tm_dispatch_error s k r = (s', o) -> keeps s s'.
  Proof.
    intros s k r s' o H. unfold tm_dispatch_error in H. destruct (outgoing s); [|invpairs; apply keeps_refl]. eapply keeps_run_stoppers; eauto.
  Qed.
  Lemma keeps_mm_dispatch_error : forall s k r s' o, mm_dispatch_error s k r = (s', o) -> keeps s s'.
  Proof.
    intros s k r s' o H. unfold mm_dispatch_error in H. destruct (exchanges s); [|invpairs; apply keeps_refl].
    destruct (tm_dispatch_error s k r) as [s1 o1] eqn:T. apply keeps_tm_dispatch_error in T. invpairs.
    eapply keeps_trans; [exact T|apply keeps_eq; reflexivity].
  Qed.
  Lemma keeps_send_via_transport : forall s r w s' o, _send_via_transport s r w = (s', o) -> keeps s s'.
  Proof.
    intros s r w s' o H. unfold _send_via_transport in H. destruct (refuses s r); [eapply keeps_mm_dispatch_error; eauto|invpairs; apply keeps_refl].
  Qed.
  Lemma keeps_send_initially : forall s r w m s' o, _send_initially s r w m = (s', o) -> keeps s s'.
  Proof.
    intros s r w m s' o H. unfold _send_initially in H. apply keeps_send_via_transport in H.
    eapply keeps_trans; [|exact H]. destruct (w_mtype w =? CON); [destruct m|]; try apply keeps_refl.
    destruct (add_exchange_frame s r w z) as (F1 & _ & F3 & _). apply keeps_eq; assumption.
  Qed.
  Lemma keeps_continue_loop : forall r fuel s s' o x, _continue_backlog_loop fuel s r = (s', o, x) -> keeps s s'.
  Proof.
    intros r. induction fuel as [|f IH]; intros s s' o x H; cbn [_continue_backlog_loop] in H; [invpairs; apply keeps_refl|].
    destruct (exchanges s); [|invpairs; apply keeps_refl].
    destruct (alookup Z.eqb r (backlogs s)) as [bl|]; [|invpairs; apply keeps_refl].
    destruct (has_exchange r l); [invpairs; apply keeps_refl|].
    destruct bl as [|[w m] rest]; [invpairs; apply keeps_eq; reflexivity|].
    destruct (_send_initially _ r w (Some m)) as [s1 o1] eqn:S. apply keeps_send_initially in S.
    destruct (_continue_backlog_loop f s1 r) as [[s2 o2] x2] eqn:L. apply IH in L. invpairs.
    eapply keeps_trans; [|exact L]. eapply keeps_trans; [|exact S]. apply keeps_eq; reflexivity.
  Qed.
  Lemma keeps_remove_exchange : forall s r w s' o x, _remove_exchange s r w = (s', o, x) -> keeps s s'.
  Proof.
    intros s r w s' o x H. unfold _remove_exchange in H.
    destruct (exchanges s); [|invpairs; apply keeps_refl].
    destruct (alookup rm_eqb (r, w_mid w) l); [|invpairs; apply keeps_refl].
    destruct (if w_mtype w =? RST then _ else _) as [s2 o2] eqn:A.
    destruct (_continue_backlog s2 r) as [[s3 o3] x3] eqn:C. invpairs.
    assert (S2 : keeps s s2).
    { destruct (w_mtype w =? RST); [apply keeps_add_event in A; eapply keeps_trans; [|exact A]; apply keeps_eq; reflexivity|invpairs; apply keeps_eq; reflexivity]. }
    eapply keeps_trans; [exact S2|]. unfold _continue_backlog in C.
    destruct (alookup Z.eqb r (backlogs s2)); [eapply keeps_continue_loop; eauto|invpairs; apply keeps_refl].
  Qed.
  Lemma keeps_process_response : forall s r w b s' o, process_response s r w = (b, s', o) -> keeps s s'.
  Proof.
    intros s r w b s' o H. unfold process_response in H.
    destruct (outgoing s) as [og|] eqn:Hog; [|invpairs; apply keeps_refl].
    destruct (alookup key_eqb _ og); [|invpairs; apply keeps_refl].
    destruct (add_response _ z w r _) as [s2 o2] eqn:A. apply keeps_add_event in A. invpairs.
    eapply keeps_trans; [|exact A]. destruct (negb _); [|apply keeps_refl].
    split; [reflexivity|]. cbn [outgoing set_outgoing]. rewrite Hog. apply HP.
  Qed.
  Lemma keeps_dispatch_message : forall s r mcl w s' o, dispatch_message s r mcl w = (s', o) -> keeps s s'.
  Proof.
    intros s r mcl w s' o H. unfold dispatch_message in H.
    destruct (is_request (w_code w)). { invpairs. apply keeps_refl. }
    destruct (if (w_mtype w =? ACK) || (w_mtype w =? RST) then _ else _) as [[s1 o1] x1] eqn:RE.
    assert (B1 : keeps s s1).
    { destruct ((w_mtype w =? ACK) || (w_mtype w =? RST)); [eapply keeps_remove_exchange; eauto|invpairs; apply keeps_refl]. }
    destruct x1. { invpairs. exact B1. }
    destruct ((w_code w =? EMPTY) && (w_mtype w =? CON)).
    { destruct (_send_initially s1 r _ None) as [s2 o2] eqn:S. apply keeps_send_initially in S. invpairs. eapply keeps_trans; eauto. }
    destruct ((w_code w =? EMPTY) && ((w_mtype w =? ACK) || (w_mtype w =? RST))). { invpairs. exact B1. }
    destruct (is_response (w_code w) && _); [|invpairs; exact B1].
    destruct (process_response s1 r w) as [[b s2] o2] eqn:PR. apply keeps_process_response in PR.
    destruct b; [destruct (w_mtype w =? CON)|destruct ((w_mtype w =? CON) && negb mcl)];
      try (destruct (_send_initially s2 r _ None) as [s3 o3] eqn:S; apply keeps_send_initially in S); invpairs;
      repeat (eapply keeps_trans; [eassumption|]); try eassumption; apply keeps_refl.
  Qed.
  Lemma keeps_retransmit : forall s r mid s' o, _retransmit s r mid = (s', o) -> keeps s s'.
  Proof.
    intros s r mid s' o H. unfold _retransmit in H. destruct (exchanges s); [|invpairs; apply keeps_refl].
    destruct (alookup rm_eqb (r, mid) l); [|invpairs; apply keeps_refl].
    destruct (ex_counter e <? 4).
    - apply keeps_send_via_transport in H. eapply keeps_trans; [|exact H]. apply keeps_eq; reflexivity.
    - destruct (amem Z.eqb r _); [|invpairs; apply keeps_eq; reflexivity].
      apply keeps_tm_dispatch_error in H. eapply keeps_trans; [|exact H]. apply keeps_eq; reflexivity.
  Qed.
  Lemma keeps_send_message : forall s r mt tok obs m s' o, send_message s r mt tok obs m = Ok (s', o) -> keeps s s'.
  Proof.
    intros s r mt tok obs m s' o H. unfold send_message in H.
    set (mt' := match mt with None => _ | Some _ => _ end) in H. clearbody mt'.
    destruct ((mt' =? CON) && is_multicast r); [discriminate|]. cbn [_next_message_id] in H.
    set (s1 := set_next_mid s _) in H. assert (K1 : keeps s s1) by (apply keeps_eq; reflexivity). clearbody s1.
    set (w := {| w_mtype := mt' |}) in H. clearbody w.
    destruct ((mt' =? CON) && amem Z.eqb r _).
    - set (s2 := set_backlogs s1 _) in H. assert (K2 : keeps s1 s2) by (apply keeps_eq; reflexivity). clearbody s2.
      injection H as <- <-. eapply keeps_trans; eauto.
    - destruct (_send_initially s1 r w (Some m)) as [s2 o1] eqn:S. apply keeps_send_initially in S.
      injection H as <- <-. eapply keeps_trans; eauto.
  Qed.
  Lemma keeps_on_interest_end : forall s q k, keeps s (on_interest_end s q k).
  Proof.
    intros. unfold on_interest_end. destruct (get_req s q); [|apply keeps_refl].
    destruct (pipe_on_interest_end c k) as [c' ks]. eapply keeps_trans; [|apply keeps_pop_keys]. apply keeps_eq; reflexivity.
  Qed.
  Lemma keeps_cancel : forall s q s' o, cancel s q = (s', o) -> keeps s s'.
  Proof.
    intros s q s' o H. unfold cancel in H. destruct (get_req s q); [|invpairs; apply keeps_refl].
    destruct (cq_fut c); try (invpairs; apply keeps_refl).
    destruct (_stop_interest _) as [c' ks]. invpairs. eapply keeps_trans; [|apply keeps_pop_keys]. apply keeps_eq; reflexivity.
  Qed.
  Lemma keeps_obs_cancel : forall s q, keeps s (obs_cancel s q).
  Proof.
    intros. unfold obs_cancel. destruct (get_req s q); [|apply keeps_refl]. destruct (cq_runner c); try apply keeps_refl.
    destruct (cq_obs_cancelled c); [apply keeps_refl|apply keeps_eq; reflexivity].
  Qed.
End Keeps.

Lemma shutdown_loop_tmst : forall fuel s s' o, tm_shutdown_loop fuel s = (s', o) -> tmst s' = tmst s.
Proof.
  induction fuel as [|f IH]; intros s s' o H; cbn [tm_shutdown_loop] in H; [invpairs; reflexivity|].
  destruct (outgoing s) as [[|[k q] rest]|]; try (invpairs; reflexivity).
  destruct (add_exception _ q LibraryShutdown) as [s1 o1] eqn:A. apply add_event_frame in A. destruct A as (_ & _ & A & _).
  destruct (tm_shutdown_loop f s1) as [s2 o2] eqn:L. apply IH in L. invpairs. rewrite L, A. reflexivity.
Qed.

(* ------------------------------------------------------------------ the invariant *)
Definition TokInv (n : Z) (s : st) : Prop :=
  0 <= tm_token (tmst s) < 2 ^ 64 /\ 0 <= n /\
  match outgoing s with None => True | Some og => aged (tm_token (tmst s)) 0 n og end.

Lemma TokInv_keeps : forall n s s', TokInv n s -> keeps (aged (tm_token (tmst s)) 0 n) s s' -> TokInv n s'.
Proof.
  intros n s s' (HT & Hn & H) [K1 K2]. unfold TokInv. rewrite K1. split; [exact HT|]. split; [exact Hn|].
  destruct (outgoing s'); [|exact I]. destruct (outgoing s); [|contradiction]. apply K2. exact H.
Qed.
Lemma TokInv_weaken : forall n n' s, n <= n' -> TokInv n s -> TokInv n' s.
Proof.
  intros n n' s Hn (HT & H0 & H). split; [exact HT|]. split; [lia|]. destruct (outgoing s); [|exact I].
  eapply aged_weaken; [| |exact H]; lia.
Qed.
Ltac by_keeps L := eapply TokInv_keeps; [eassumption|]; eapply L; [intros; apply aged_aremove; assumption|eassumption].

Lemma new_request_tok : forall n s q r mt obs s' o, TokInv n s -> n < 2 ^ 64 -> new_request s q r mt obs = (s', o) -> TokInv (n + 1) s'.
Proof.
  intros n s q r mt obs s' o HI Hn H. unfold new_request in H. destruct (get_req s q); [invpairs; eapply TokInv_weaken; [|exact HI]; lia|].
  set (c0 := {| cq_remote := r |}) in H. unfold request in H. cbn [outgoing upd_req set_reqs] in H.
  change (tmst (upd_req s q c0)) with (tmst s) in H.
  destruct HI as (HT & H0 & HA).
  destruct (outgoing s) as [og|] eqn:Hog.
  2: { apply (keeps_add_event (fun _ => True)) in H; [|auto]. destruct H as [K1 K2]. cbn [outgoing upd_req set_reqs] in K2. rewrite Hog in K2.
       unfold TokInv. rewrite K1. cbn [tmst upd_req set_reqs]. split; [exact HT|]. split; [lia|]. destruct (outgoing s'); [contradiction|exact I]. }
  rewrite next_token_spec in H.
  set (T' := (tm_token (tmst s) + 1) mod 2 ^ 64) in *. set (tok := tokbytes T') in *.
  set (k := (tok, if is_multicast r then None else Some r)) in *.
  set (s1 := set_outgoing _ _) in H.
  assert (HT' : 0 <= T' < 2 ^ 64) by (apply Z.mod_pos_bound; reflexivity).
  assert (A1 : aged T' 1 (n + 1) og). { pose proof (aged_shift _ _ _ _ HA) as A1. replace (0 + 1) with 1 in A1 by lia. exact A1. }
  assert (Fresh : forall e, In e og -> key_eqb k (fst e) = false).
  { intros e He. destruct (aged_in T' og 1 (n + 1) e A1 He) as (a & Ha & Hk).
    destruct (key_eqb k (fst e)) eqn:E; [|reflexivity]. apply key_eqb_spec in E. exfalso.
    assert (E2 : tokbytes ((T' - 0) mod 2 ^ 64) = tokbytes ((T' - a) mod 2 ^ 64)).
    { rewrite <- Hk, <- E. cbn [fst k]. unfold tok. rewrite Z.sub_0_r, Z.mod_small by exact HT'. reflexivity. }
    apply tokbytes_age_inj in E2; lia. }
  assert (I1 : TokInv (n + 1) s1).
  { subst s1. unfold TokInv. cbn [tmst outgoing set_outgoing set_tmst tm_token]. split; [exact HT'|]. split; [lia|].
    rewrite (aset_append k q og Fresh). apply aged_snoc; [|lia|exact A1]. cbn [fst k]. unfold tok. rewrite Z.mod_small by exact HT'. reflexivity. }
  clearbody s1.
  assert (I2 : TokInv (n + 1) (on_interest_end s1 q k)).
  { eapply TokInv_keeps; [exact I1|]. apply keeps_on_interest_end. intros; apply aged_aremove; assumption. }
  set (s2 := on_interest_end s1 q k) in *. clearbody s2.
  destruct (send_message s2 r mt tok obs q) as [[s3 o3]|e] eqn:SM.
  - invpairs. by_keeps keeps_send_message.
  - destruct (add_exception s2 q e) as [s3 o3] eqn:A. invpairs. by_keeps keeps_add_event.
Qed.

Lemma step_tok : forall n s e s' o, TokInv n s -> n < 2 ^ 64 -> step s e = (s', o) -> TokInv (n + 1) s'.
Proof.
  intros n s e s' o HI Hn H. destruct e; cbn [step] in H.
  - eapply new_request_tok; eauto.
  - apply (TokInv_weaken n); [lia|]. destruct (outgoing s); [|invpairs; exact HI]. by_keeps keeps_dispatch_message.
  - apply (TokInv_weaken n); [lia|]. destruct (exchanges s); [|invpairs; exact HI].
    destruct (next_timer l None) as [[[r mid] e]|]; [|invpairs; exact HI].
    eapply (TokInv_keeps n (set_now s (Z.max (now s) (ex_due e)))); [exact HI|].
    eapply keeps_retransmit; [intros; apply aged_aremove; assumption|exact H].
  - apply (TokInv_weaken n); [lia|]. repeat dmatch; invpairs; exact HI.
  - apply (TokInv_weaken n); [lia|]. by_keeps keeps_mm_dispatch_error.
  - apply (TokInv_weaken n); [lia|]. by_keeps keeps_cancel.
  - apply (TokInv_weaken n); [lia|]. invpairs. eapply TokInv_keeps; [exact HI|]. apply keeps_obs_cancel.
  - apply (TokInv_weaken n); [lia|]. invpairs. exact HI.
  - unfold shutdown in H. destruct (outgoing s) eqn:Hog; [|invpairs; eapply TokInv_weaken; [|exact HI]; lia].
    destruct (tm_shutdown_loop (length l) s) as [s1 o1] eqn:L. apply shutdown_loop_tmst in L. invpairs.
    destruct HI as (HT & H0 & _). unfold TokInv. cbn [tmst outgoing set_exchanges set_outgoing]. rewrite L. repeat split; try lia; exact HT.
Qed.
Lemma run_tok : forall es n s s' os, TokInv n s -> n + Z.of_nat (length es) <= 2 ^ 64 -> run s es = (s', os) -> TokInv (n + Z.of_nat (length es)) s'.
Proof.
  induction es as [|e r IH]; intros n s s' os HI Hn H; cbn [run] in H.
  - invpairs. cbn [length]. rewrite Z.add_0_r. exact HI.
  - destruct (step s e) as [s1 o] eqn:S. destruct (run s1 r) as [s2 os'] eqn:R. invpairs.
    cbn [length] in *. rewrite Nat2Z.inj_succ in *. apply (step_tok n) in S; [|exact HI|lia].
    replace (n + Z.succ (Z.of_nat (length r))) with ((n + 1) + Z.of_nat (length r)) by lia.
    eapply IH; [exact S|lia|exact R].
Qed.
(* in every state reachable with at most 2^64 events, the tokens of all outstanding requests are pairwise different
   (a fortiori their (token, remote) keys: no request ever overwrites the entry of another one) *)
Lemma outstanding_tokens_distinct_lemma : forall t m a es og, 0 <= t < 2 ^ 64 -> Z.of_nat (length es) <= 2 ^ 64 ->
  outgoing (fst (run (init t m a) es)) = Some og -> NoDup (map (fun e => fst (fst e)) og).
Proof.
  intros t m a es og Ht Hn Hog. destruct (run (init t m a) es) as [s' os] eqn:R.
  assert (I0 : TokInv 0 (init t m a)). { unfold TokInv. cbn. split; [exact Ht|]. split; [lia|exact I]. }
  apply (run_tok es 0) in R; [|exact I0|lia]. destruct R as (_ & _ & HA). cbn [fst] in Hog. rewrite Hog in HA.
  eapply aged_nodup; [| |exact HA]; lia.
Qed.
